import DdoModel.Props.C01d
import DdoModel.Proofs.CacheClosedDefs
/-! A flexible family of tiny **well-formed** models for the `AnyOrder` question of `Props/C09c.lean` (is the caching solver
still correct when the fringe is popped in an arbitrary order?).

`Layered`: `n` binary variables in static order; the states are `0 … m-1` (as `Int`, clamped into the range); transition
and cost are read in tables `tr var state decision`, `c var state decision` (lists, `getD`); the relaxation merges to the
**largest** state of the merged set, leaves the costs alone and has a constant rough upper bound.  The value-to-go `hfrom`
is the dynamic program over the tables.  The model is `WellFormed` (`Props/C01d.lean`) as soon as `hfrom` is monotone in
the state at every depth (a larger state dominates: what `MergeOk` needs), the rough upper bound dominates `hfrom` and the
costs are bounded.  The three conditions are decidable (`check`).  The width is a *function* of the sub-problem
(`max 1 (ws[depth · m + state])`), both cut-set kinds and both fringes are available.

**Result** (end of the file): for the **pre-fix solver** — `enqueue_cutset(ub)` capping the bound of every cut-set node by the
bound of the processed node, `SolverCfg.kturnCapped` / `ksolveSchedCapped` of `Proofs/CacheClosedDefs.lean` — `AnyOrder` is
**false** (finding D14).  `Counter` (3 states, width 1 at depths 0–1 and 2 below, five turns, both cut-set kinds, both
fringes), `Fixed` (4 states, `FixedWidth(2)`, last-exact-layer cut-set, six turns) and `Hand` are `check`ed (hence
`WellFormed`) models on which the capped caching solver popping **breadth-first** (shallowest sub-problem first) ends with
the empty fringe, `is_exact = true` and the value 4 while the optimum is 10 (resp. 6); all by `decide`
(`Counter.anyorder_counter`, `Counter.not_anyOrder`, `Fixed.anyorder_counter`, `Hand.anyorder_counter`).  Best-first pops
return the optimum on the same models, with the capped solver and with the repaired one (`bestfirst_value`,
`bestfirst_value_capped`).  The repaired solver (no cap: `SolverCfg.kturn` / `ksolveSched`) returns the optimum for every pop
order (`Ddo.C09.caching_solver_correct`; on `Counter`: `Ddo.C09.Layered.Counter.nocap_bfs_value` in `Props/C09d.lean`). -/
set_option linter.unusedSectionVars false
set_option linter.unusedVariables false
namespace Ddo.C09.Layered
open Ddo Ddo.C01 Ddo.Closed

/-- the tables: entry `(var · m + state) · 2 + decision` -/
structure Tab where
  n : Nat
  m : Nat
  trl : List Nat
  cl : List Int
  rub : Int

def idx (T : Tab) (k s : Nat) (b : Bool) : Nat := (k * T.m + s) * 2 + b.toNat
/-- clamp a state into `0 … m-1` -/
def st (T : Tab) (s : Int) : Nat := min s.toNat (T.m - 1)
def tr (T : Tab) (k s : Nat) (b : Bool) : Nat := min (T.trl.getD (idx T k s b) 0) (T.m - 1)
def c (T : Tab) (k s : Nat) (b : Bool) : Int := T.cl.getD (idx T k s b) 0

def prob (T : Tab) : Problem Int :=
  { nbVars := T.n, init := 0, initVal := 0,
    trans := fun s d => ((tr T d.var (st T s) (decide (d.val = 1)) : Nat) : Int),
    cost := fun s _ d => c T d.var (st T s) (decide (d.val = 1)),
    nextVar := fun k _ => if k < T.n then some k else none,
    domain := fun _ _ => [0, 1],
    impacted := fun _ _ => true }

/-- the largest element of a list (`a` for the empty list) -/
def lmax (a : Int) (X : List Int) : Int := X.foldl max a

def rlx (T : Tab) : Relax Int :=
  { merge := fun X => lmax 0 X, relax := fun _ _ _ _ c => c, rub := fun _ => T.rub }

/-- width of the diagrams compiled for a sub-problem of depth `d` and state `s`: `max 1 ws[d · m + s]` (a
    `WidthHeuristic` that looks at the depth and the state of the sub-problem) -/
def widthOf (T : Tab) (ws : List Nat) (N : SubP Int) : Nat := max 1 (ws.getD (N.depth * T.m + st T N.state) 1)

def sv (T : Tab) (ws : List Nat) (dedup : Bool) (kind : CutsetKind) : SolverCfg Int :=
  { P := prob T, R := rlx T, rank := ⟨fun a b => icmp a b⟩, width := widthOf T ws, kind := kind, dedup := dedup }

/-- value-to-go with `j` variables left, from state `s` -/
def hfrom (T : Tab) : Nat → Nat → Int
  | 0, _ => 0
  | j + 1, s => max (c T (T.n - (j + 1)) s false + hfrom T j (tr T (T.n - (j + 1)) s false))
                    (c T (T.n - (j + 1)) s true + hfrom T j (tr T (T.n - (j + 1)) s true))

def H (T : Tab) (k : Nat) (s : Int) : EInt := some (hfrom T (T.n - k) (st T s))

/-- a larger state dominates -/
def Mono (T : Tab) : Prop := ∀ j s, j ≤ T.n → s + 1 < T.m → hfrom T j s ≤ hfrom T j (s + 1)
/-- the rough upper bound dominates the value-to-go -/
def RubDom (T : Tab) : Prop := ∀ j s, j ≤ T.n → s < T.m → hfrom T j s ≤ T.rub

theorem nv_some {T : Tab} {k : Nat} {L : List Int} {x : Nat} (h : (prob T).nextVar k L = some x) : k < T.n ∧ x = k := by
  simp only [prob] at h
  split at h
  · next hk => cases h; exact ⟨hk, rfl⟩
  · cases h

theorem hfrom_step (T : Tab) (k : Nat) (hk : k < T.n) (s : Nat) :
    hfrom T (T.n - k) s = max (c T k s false + hfrom T (T.n - (k + 1)) (tr T k s false))
      (c T k s true + hfrom T (T.n - (k + 1)) (tr T k s true)) := by
  have e : T.n - k = (T.n - (k + 1)) + 1 := by omega
  rw [e, hfrom]
  have e2 : T.n - (T.n - (k + 1) + 1) = k := by omega
  rw [e2]

theorem st_lt (T : Tab) (hm : 1 ≤ T.m) (s : Int) : st T s < T.m := by
  unfold st; omega

theorem st_tr (T : Tab) (k s : Nat) (b : Bool) : st T ((tr T k s b : Nat) : Int) = tr T k s b := by
  have h : tr T k s b ≤ T.m - 1 := by unfold tr; omega
  unfold st
  rw [Int.toNat_natCast]
  omega

theorem st_mono (T : Tab) {a b : Int} (h : a ≤ b) : st T a ≤ st T b := by
  unfold st
  have : a.toNat ≤ b.toNat := by omega
  omega

theorem trans_one (T : Tab) (s : Int) (k : Nat) : (prob T).trans s ⟨k, 1⟩ = ((tr T k (st T s) true : Nat) : Int) := by
  simp [prob]
theorem trans_zero (T : Tab) (s : Int) (k : Nat) : (prob T).trans s ⟨k, 0⟩ = ((tr T k (st T s) false : Nat) : Int) := by
  simp [prob]
theorem cost_one (T : Tab) (s s' : Int) (k : Nat) : (prob T).cost s s' ⟨k, 1⟩ = c T k (st T s) true := by
  simp [prob]
theorem cost_zero (T : Tab) (s s' : Int) (k : Nat) : (prob T).cost s s' ⟨k, 0⟩ = c T k (st T s) false := by
  simp [prob]
theorem H_nat (T : Tab) (k j s : Nat) (b : Bool) : H T k ((tr T j s b : Nat) : Int) = some (hfrom T (T.n - k) (tr T j s b)) := by
  unfold H; rw [st_tr]

theorem potential (T : Tab) : Potential (prob T) (H T) := by
  constructor
  · intro k L x s h hnv _ hH
    obtain ⟨hk, hx⟩ := nv_some hnv; subst x
    simp only [H, Option.some.injEq] at hH
    rw [hfrom_step T k hk] at hH
    by_cases hc : c T k (st T s) false + hfrom T (T.n - (k + 1)) (tr T k (st T s) false) ≤
        c T k (st T s) true + hfrom T (T.n - (k + 1)) (tr T k (st T s) true)
    · refine ⟨1, by simp [prob], hfrom T (T.n - (k + 1)) (tr T k (st T s) true), by rw [trans_one, H_nat], ?_⟩
      rw [trans_one, cost_one]
      omega
    · refine ⟨0, by simp [prob], hfrom T (T.n - (k + 1)) (tr T k (st T s) false), by rw [trans_zero, H_nat], ?_⟩
      rw [trans_zero, cost_zero]
      omega
  · intro k L x s v p d _ hnv _ hd
    obtain ⟨hk, hx⟩ := nv_some hnv; subst x
    have hd' : d = 0 ∨ d = 1 := by simpa [prob] using hd
    have hs : H T k s = some (hfrom T (T.n - k) (st T s)) := rfl
    rw [hs, hfrom_step T k hk]
    rcases hd' with rfl | rfl
    · rw [trans_zero, cost_zero, H_nat]
      simp only [EInt.addI, Option.map_some, EInt.some_le_some]
      omega
    · rw [trans_one, cost_one, H_nat]
      simp only [EInt.addI, Option.map_some, EInt.some_le_some]
      omega
  · intro k L s hnv _
    simp only [prob] at hnv
    split at hnv
    · cases hnv
    · next hk =>
      have : T.n - k = 0 := by omega
      simp only [H, this, hfrom]

theorem hfrom_mono (T : Tab) (hM : Mono T) (j : Nat) (hj : j ≤ T.n) :
    ∀ (e s : Nat), s + e < T.m → hfrom T j s ≤ hfrom T j (s + e) := by
  intro e
  induction e with
  | zero => intro s _; exact Int.le_refl _
  | succ e ih =>
    intro s hs
    have h1 := ih s (by omega)
    have h2 := hM j (s + e) hj (by omega)
    have e3 : s + (e + 1) = s + e + 1 := by omega
    rw [e3]
    omega

theorem hfrom_mono' (T : Tab) (hM : Mono T) (j : Nat) (hj : j ≤ T.n) (s s' : Nat) (h : s ≤ s') (hs : s' < T.m) :
    hfrom T j s ≤ hfrom T j s' := by
  have := hfrom_mono T hM j hj (s' - s) s (by omega)
  have e : s + (s' - s) = s' := by omega
  rw [e] at this
  exact this

theorem le_foldl_max (X : List Int) : ∀ (a : Int), a ≤ X.foldl max a ∧ ∀ u ∈ X, u ≤ X.foldl max a := by
  induction X with
  | nil => intro a; exact ⟨Int.le_refl _, fun u hu => by cases hu⟩
  | cons x X ih =>
    intro a
    obtain ⟨h1, h2⟩ := ih (max a x)
    simp only [List.foldl_cons]
    refine ⟨by omega, fun u hu => ?_⟩
    rcases List.mem_cons.mp hu with e | e
    · subst e; omega
    · exact h2 u e

theorem mergeOk (T : Tab) (hm : 1 ≤ T.m) (hM : Mono T) : MergeOk (rlx T) (H T) := by
  intro k X u src d c0 h hu hH
  simp only [H, Option.some.injEq] at hH
  have hle : u ≤ lmax 0 X := (le_foldl_max X 0).2 u hu
  refine ⟨hfrom T (T.n - k) (st T (lmax 0 X)), rfl, ?_⟩
  have := hfrom_mono' T hM (T.n - k) (by omega) (st T u) (st T (lmax 0 X)) (st_mono T hle) (st_lt T hm _)
  simp only [rlx]
  omega

theorem rubOk (T : Tab) (hm : 1 ≤ T.m) (hR : RubDom T) : RubOk (rlx T) (H T) := by
  intro k s h hH
  simp only [H, Option.some.injEq] at hH
  have := hR (T.n - k) (st T s) (by omega) (st_lt T hm s)
  simp only [rlx]
  omega

theorem nvBound (T : Tab) : NvBound (prob T) := by
  intro k L hk
  have : ¬ k < T.n := by simp only [prob] at hk; omega
  simp only [prob, this, if_false]

theorem runBound (T : Tab) (B0 B : Int) (hc : ∀ k s d, -B0 ≤ c T k s d ∧ c T k s d ≤ B0) (hB0 : 0 ≤ B0)
    (hfit : ((T.n : Int) + 1) * B0 ≤ B) (hsmall : ((T.n : Int) + 2) * B ≤ 4611686018427387904) :
    RunBound (prob T) (rlx T) B0 B := by
  have hBB : B0 ≤ B := by
    have h1 : (0 : Int) ≤ (T.n : Int) * B0 := Int.mul_nonneg (by omega) hB0
    rw [Int.add_mul, Int.one_mul] at hfit
    omega
  refine ⟨⟨by omega, ?_, ?_, fun s u m d c hcc => hcc, hsmall⟩, ⟨?_, ?_⟩, hfit⟩
  · show -B ≤ (0 : Int) ∧ (0 : Int) ≤ B
    omega
  · intro s s' d
    have := hc d.var (st T s) (decide (d.val = 1))
    show -B ≤ c T _ _ _ ∧ c T _ _ _ ≤ B
    omega
  · show -B0 ≤ (0 : Int) ∧ (0 : Int) ≤ B0
    omega
  · intro s s' d
    exact hc d.var (st T s) (decide (d.val = 1))

theorem width_pos (T : Tab) (ws : List Nat) (N : SubP Int) : 1 ≤ widthOf T ws N := by
  unfold widthOf; omega

/-- **the layered models are well formed** -/
theorem wellFormed (T : Tab) (ws : List Nat) (dedup : Bool) (kind : CutsetKind) (B0 B : Int) (hm : 1 ≤ T.m)
    (hM : Mono T) (hR : RubDom T) (hc : ∀ k s d, -B0 ≤ c T k s d ∧ c T k s d ≤ B0) (hB0 : 0 ≤ B0)
    (hfit : ((T.n : Int) + 1) * B0 ≤ B) (hsmall : ((T.n : Int) + 2) * B ≤ 4611686018427387904) :
    WellFormed (sv T ws dedup kind) (H T) B0 B :=
  ⟨potential T, rubOk T hm hR, mergeOk T hm hM, Cover.attMerge_of_static (potential T) (fun _ _ _ _ _ => rfl),
    runBound T B0 B hc hB0 hfit hsmall, nvBound T, width_pos T ws⟩

/-! ## the decidable check -/

def check (T : Tab) (B0 : Int) : Bool :=
  decide (1 ≤ T.m) &&
  (List.range (T.n + 1)).all (fun j => (List.range (T.m - 1)).all (fun s => decide (hfrom T j s ≤ hfrom T j (s + 1)))) &&
  (List.range (T.n + 1)).all (fun j => (List.range T.m).all (fun s => decide (hfrom T j s ≤ T.rub))) &&
  T.cl.all (fun x => decide (-B0 ≤ x ∧ x ≤ B0)) && decide (0 ≤ B0)

theorem getD_bound (l : List Int) (i : Nat) (B0 : Int) (h : ∀ x ∈ l, -B0 ≤ x ∧ x ≤ B0) (h0 : 0 ≤ B0) :
    -B0 ≤ l.getD i 0 ∧ l.getD i 0 ≤ B0 := by
  rw [List.getD_eq_getElem?_getD]
  cases hi : l[i]? with
  | none => simp only [Option.getD_none]; omega
  | some x => simp only [Option.getD_some]; exact h x (List.mem_of_getElem? hi)

theorem wellFormed_ofTables (T : Tab) (B0 B : Int) (ws : List Nat) (dedup : Bool) (kind : CutsetKind)
    (hck : check T B0 = true)
    (hfit : ((T.n : Int) + 1) * B0 ≤ B) (hsmall : ((T.n : Int) + 2) * B ≤ 4611686018427387904) :
    WellFormed (sv T ws dedup kind) (H T) B0 B := by
  simp only [check, Bool.and_eq_true, decide_eq_true_eq, List.all_eq_true, List.mem_range] at hck
  obtain ⟨⟨⟨⟨hm, hmono⟩, hrub⟩, hbd⟩, hB0⟩ := hck
  refine wellFormed T ws dedup kind B0 B hm ?_ ?_ ?_ hB0 hfit hsmall
  · intro j s hj hs
    exact hmono j (by omega) s (by omega)
  · intro j s hj hs
    exact hrub j (by omega) s hs
  · intro k s d
    exact getD_bound T.cl _ B0 hbd hB0

/-- the optimum -/
def optimum (T : Tab) : Int := hfrom T T.n 0

theorem optimum_eq (T : Tab) : (H T 0 (prob T).init).addI (prob T).initVal = some (optimum T) := by
  simp [H, prob, optimum, EInt.addI, st]

/-! ## runs with an arbitrary pop order: `Ddo.C09.KRunAny`, `Ddo.C09.ksolveSched_run` (the solver), `Ddo.C09.KRunAnyCapped`,
`Ddo.C09.ksolveSchedCapped_run` (the pre-fix solver) — `Proofs/CacheClosedDefs.lean` -/

/-- what the traces below show of a state: the fringe as `(state, value, ub, depth)` (newest push first) and the incumbent -/
def view (s : KSt Int) : List (Int × Int × Int × Nat) × Int :=
  (s.st.fringe.map (fun c => (c.state, c.value, c.ub, c.depth)), s.st.bestLb)
/-- layer `d` of the cache as `(state, threshold, explored)` -/
def cacheAt (s : KSt Int) (d : Nat) : List (Int × Int × Bool) :=
  (s.cache.layers.getD d []).map (fun e => (e.1, e.2.value, e.2.explored))

end Ddo.C09.Layered

/-! ## `AnyOrder` is false for the pre-fix (capped) solver: a well-formed model on which a breadth-first pop order loses the optimum

Everything in this section is a statement about the solver **before the repair of D14** (`ksolveSchedCapped`,
`kturnCapped`: `enqueue_cutset(ub)` with `cutset_node.ub = ub.min(cutset_node.ub)`), except `bestfirst_value`.

**The model** (`Counter.T`): 7 binary variables `x0 … x6` in static order (variable `k` is decided at depth `k`), domain
`[0, 1]` enumerated in that order, 3 states `0, 1, 2`, initial state `0`, initial value `0`.  Transition / cost tables
(`state: (next state, cost) for decision 0 | (next state, cost) for decision 1`; rows marked `*` are never reached and only
copy a neighbour so that the value-to-go stays monotone):

```
x0:  0: (1,0)|(0,0)    1*: as 0           2*: as 0            R=0 → A=1 (d=0), P=0 (d=1)
x1:  0: (0,0)|(0,0)    1: (1,0)|(1,0)     2*: as 1            P=0 → N=0;  A=1 → a2=1
x2:  0: (0,0)|(1,0)    1: (2,0)|(2,0)     2*: as 1            N=0 → lo=0 (d=0), hi=1 (d=1);  a2=1 → a3=2
x3:  0: (1,0)|(1,0)    1: (2,0)|(0,0)     2: (2,0)|(2,0)      lo=0 → s4=1;  hi=1 → s*=2 (d=0), u4=0 (d=1);  a3=2 → s*=2
x4:  0: (0,0)|(0,0)    1: (2,0)|(2,0)     2: (2,0)|(1,1)      u4=0 → t5=0;  s4=1 → s=2;  s*=2 → s=2 (d=0), o5=1 (d=1, cost 1)
x5:  0: (0,2)|(1,1)    1: (0,2)|(1,1)     2: (2,0)|(1,2)      s=2 → g=2 (d=0, cost 0), y=1 (d=1, cost 2)
x6:  0: (0,0)|(0,0)    1: (0,2)|(0,0)     2: (0,10)|(0,0)     the late reward: state 2 at depth 6 earns 10
```

Value-to-go by depth (`hfrom`, monotone in the state at every depth — a larger state dominates): depth 0–3: `10,10,10`;
depth 4: `3,10,10`; depth 5: `3,3,10`; depth 6: `0,2,10`; depth 7: `0,0,0`.  **Optimum 10**, reached by exactly the paths that
are at state 2 at depth 5 with value 0 and take `x5 = 0`, `x6 = 0`: through `A` (`R,A,a2,a3,s*,s,g`) and through `P`
(`R,P,N,lo,s4,s,g` and `R,P,N,hi,s*,s,g`).

**The relaxation**: `merge X` = the largest state of `X`, `relax` = identity on the costs, `fast_upper_bound` = 20 (constant).
State ranking: the larger state is the better one (`icmp`).  **Width**: 1 for sub-problems of depth 0 and 1, 2 for
sub-problems of depth ≥ 2.  No dominance, no cutoff, `SimpleCache`.  `WellFormed` holds (`Counter.wellFormed`), so with
best-first pops every configuration returns 10 (`Counter.bestfirst_value_capped`; the repaired solver returns 10 for every pop
order, `caching_solver_correct`, best-first: `Counter.bestfirst_value`).

**The pop order**: breadth-first — the shallowest open sub-problem first, among those of equal depth the one with the larger
state.  (`SubProblemRanking::compare(a, b)` = `b.depth.cmp(a.depth)` then `a.state.cmp(b.state)`: the fringe pops the greatest
element.)  In the model: the schedule `Counter.sched` of indices into the fringe list.  With the plain fringe and the
last-exact-layer cut-set (`Counter.sched = [0, 1, 1, 0, 0]`; the other three configurations behave in the same way, see
`Counter.anyorder_counter_all`), the fringe after each turn as `(state, value, ub, depth)`:

```
turn 1  pop R = (0, 0, +∞, 0), width 1.  Restricted: 3 (R,A,a2,a3,s*,o5,0: 1 + 2 + 0).  Relaxed: the depth-2 layer is merged,
        cut-set = depth 1.   fringe [P = (0,0,13,1), A = (1,0,13,1)], incumbent 3.
turn 2  pop A = (1, 0, 13, 1), width 1.  Restricted: 3 again.  Relaxed: exact chain a2, a3, s*; the depth-5 layer {s, o5} is
        merged, cut-set = {k2 = (s* = 2, value 0, depth 4)}.  Thresholds: (2, depth 4) ↦ (0, explored = false), and `(0, true)`
        on a3, a2, A.   fringe [k2 = (2,0,13,4), P = (0,0,13,1)], incumbent 3.
turn 3  pop P = (0, 0, 13, 1), width 1.  Relaxed: depth 2 = {N}; depth 3 = {lo = 0, hi = 1} merged into M = (state 1, value 0),
        cut-set = {N}.  Children of M at depth 4: (s* = 2, value 0) — pruned by `_filter_with_cache`: 0 ≤ threshold 0 recorded
        at turn 2 (justified by the open k2) — and (u4 = 0, value 0), which goes on: t5, then {0 (value 2), 1 (value 1)}
        merged into (1, value 2), terminal value 2 + 2 = 4.  So N is handed out with **ub(N) = 4 < 10 = pot(N)**: the exact
        optimal path below N is N, lo, s4 = 1, s, g and never visits s* = (2, depth 4); in this diagram it was merged into M
        whose child s* was cut.  Threshold (0, depth 2) ↦ (0, false).
        fringe [N = (0,0,4,2), k2 = (2,0,13,4)], incumbent 3.
turn 4  pop N = (0, 0, 4, 2), width 2 — **not best-first**: ub(k2) = 13 > 4 = ub(N).  The diagrams of N are exact down to
        depth 5: depth 3 = {lo, hi}; depth 4 = {s4 = 1, u4 = 0} (s* = 2 is cut by the cache again); depth 5 = {s = (2, value 0),
        t5 = (0, value 0)}; depth 6 = {g = (2, 0), (1, 2), (0, 2)}: three nodes.  Restricted: keeps (1, 2), (0, 2), drops g;
        finds 2 + 2 = 4, incumbent 4.  Relaxed: keeps (1, 2), merges (0, 2) and g into (state 2, value 2), terminal value 12;
        cut-set = depth 5 = {c' = (2, value 0, depth 5), (0, 0, 5)}, c' with pot(c') = 10, local bound 10 — capped by
        `enqueue_cutset` to `min(ub(N), 10) = 4 ≤ incumbent 4`: **c' is not enqueued**, but `_compute_thresholds` recorded
        (2, depth 5) ↦ (0, explored = false) for it (and (0, depth 5) ↦ (0, false)).
        fringe [k2 = (2,0,13,4)], incumbent 4.
turn 5  pop k2 = (2, 0, 13, 4), width 2.  Its child (s = 2, value 0, depth 5) — the only way to 10 — is pruned by
        `_filter_with_cache`: 0 ≤ threshold 0 recorded at turn 4.  The other child o5 = (1, value 1) yields 1 + 1 + 2 = 4.
        fringe [], incumbent 4: the solver reports `is_exact = true`, `best_value = Some(4)`; the optimum is 10.
```

With c' enqueued and dropped later the effect is the same (`x5`, state 2, decision 1 going to state 0 with cost 1 instead
of state 1 with cost 2: 7 turns, c' is enqueued with bound 4, k2's other child raises the incumbent to 4, c' is dropped by
`node.ub ≤ best_lb`).

Why best-first is safe: the capped bound `min(ub(N), ·)` of c' is below pot(c') only because ub(N) was computed in a diagram
cut by the cache; the threshold that cut it is carried by an open node (k2) with a bound ≥ pot(N) > ub(N), which best-first
pops before N. -/
namespace Ddo.C09.Layered.Counter
open Ddo Ddo.C01 Ddo.Closed

def T : Tab :=
  { n := 7, m := 3,
    trl := [1,0, 1,0, 1,0,   0,0, 1,1, 1,1,   0,1, 2,2, 2,2,   1,1, 2,0, 2,2,   0,0, 2,2, 2,1,   0,1, 0,1, 2,1,   0,0, 0,0, 0,0],
    cl :=  [0,0, 0,0, 0,0,   0,0, 0,0, 0,0,   0,0, 0,0, 0,0,   0,0, 0,0, 0,0,   0,0, 0,0, 0,1,   2,1, 2,1, 0,2,   0,0, 2,0, 10,0],
    rub := 20 }

/-- width 1 at depths 0 and 1, width 2 from depth 2 on (entry `depth · 3 + state`) -/
def ws : List Nat := [1,1,1, 1,1,1, 2,2,2, 2,2,2, 2,2,2, 2,2,2, 2,2,2, 2,2,2]

def sv (dedup : Bool) (kind : CutsetKind) : SolverCfg Int := Layered.sv T ws dedup kind

/-- the breadth-first pop order as indices into the fringe list, per configuration -/
def sched : Bool → CutsetKind → List Nat
  | false, .lel => [0, 1, 1, 0, 0]
  | true, .lel => [0, 0, 0, 1, 0]
  | false, .frontier => [0, 0, 1, 0, 0]
  | true, .frontier => [0, 1, 0, 1, 0]

/-- the state of the **pre-fix (capped)** solver after the first `j` turns of the schedule (plain fringe, last-exact-layer
    cut-set) -/
def after (j : Nat) : KSt Int := (sv false .lel).ksolveSchedCapped ((sched false .lel).take j) (KSt.init (sv false .lel))

/-- the breadth-first pop order of the **repaired (no-cap)** solver as indices into the fringe list, per configuration
    (seven turns: the cut-set nodes that the pre-fix solver dropped at turn 4 are enqueued; `Props/C09d.lean`,
    `nocap_bfs_value`) -/
def schedNC : Bool → CutsetKind → List Nat
  | false, .lel => [0, 1, 1, 0, 2, 1, 0]
  | true, .lel => [0, 0, 0, 1, 0, 0, 0]
  | false, .frontier => [0, 0, 1, 0, 2, 1, 0]
  | true, .frontier => [0, 1, 0, 1, 0, 0, 0]

/-- the state of the repaired (no-cap) solver after the first `j` turns of `schedNC` (plain fringe, last-exact-layer
    cut-set) -/
def afterNC (j : Nat) : KSt Int := (sv false .lel).ksolveSched ((schedNC false .lel).take j) (KSt.init (sv false .lel))

theorem checked : check T 10 = true := by decide

theorem wellFormed (dedup : Bool) (kind : CutsetKind) : WellFormed (sv dedup kind) (H T) 10 80 :=
  wellFormed_ofTables T 10 80 ws dedup kind checked (by decide) (by decide)

/-- the optimum is 10 -/
theorem opt10 : (H T 0 (prob T).init).addI (prob T).initVal = some 10 := by decide

set_option maxRecDepth 100000 in
/-- **the counter-example to `AnyOrder`** (pre-fix solver, D14): the model is well formed (`check`), its optimum is 10, and
    the **capped** caching solver popping in breadth-first order ends after five turns with the empty fringe,
    `is_exact = true` and `best_value = Some(4)` -/
theorem anyorder_counter : check T 10 = true ∧ (H T 0 (prob T).init).addI (prob T).initVal = some 10 ∧
    ((sv false .lel).ksolveSchedCapped (sched false .lel) (KSt.init (sv false .lel))).st.fringe.length = 0 ∧
    ((sv false .lel).ksolveSchedCapped (sched false .lel) (KSt.init (sv false .lel))).st.completion = (true, some 4) := by decide

set_option maxRecDepth 100000 in
/-- the same with the duplicate-free fringe and / or the frontier cut-set; nothing panics -/
theorem anyorder_counter_all : ∀ dedup ∈ [false, true], ∀ kind ∈ [CutsetKind.lel, CutsetKind.frontier],
    ((sv dedup kind).ksolveSchedCapped (sched dedup kind) (KSt.init (sv dedup kind))).st.fringe.length = 0 ∧
    ((sv dedup kind).ksolveSchedCapped (sched dedup kind) (KSt.init (sv dedup kind))).st.completion = (true, some 4) ∧
    ((sv dedup kind).ksolveSchedCapped (sched dedup kind) (KSt.init (sv dedup kind))).st.explored = 5 ∧
    ((sv dedup kind).ksolveSchedCapped (sched dedup kind) (KSt.init (sv dedup kind))).st.crashed = false := by decide

set_option maxRecDepth 100000 in
/-- with best-first pops the (repaired, no-cap) solver returns the optimum (as `caching_solver_correct` predicts), in nine
    turns -/
theorem bestfirst_value : ((sv false .lel).ksolveLoop 12 (KSt.init (sv false .lel))).st.completion = (true, some 10) ∧
    ((sv false .lel).ksolveLoop 12 (KSt.init (sv false .lel))).st.fringe.length = 0 ∧
    ((sv false .lel).ksolveLoop 12 (KSt.init (sv false .lel))).st.explored = 9 := by decide

set_option maxRecDepth 100000 in
/-- with best-first pops the pre-fix (capped) solver returns the optimum too, in nine turns: the cap is harmless when the
    popped node has the largest bound -/
theorem bestfirst_value_capped :
    ((sv false .lel).ksolveLoopCapped 12 (KSt.init (sv false .lel))).st.completion = (true, some 10) ∧
    ((sv false .lel).ksolveLoopCapped 12 (KSt.init (sv false .lel))).st.fringe.length = 0 ∧
    ((sv false .lel).ksolveLoopCapped 12 (KSt.init (sv false .lel))).st.explored = 9 := by decide

/-! ### the stages of the mechanism, turn by turn -/

set_option maxRecDepth 100000 in
/-- after turn 2 (root, then `A`): `k2 = (state 2, value 0, depth 4)` is open with bound 13 and the cache holds the threshold
    `(0, explored = false)` at `(2, depth 4)` -/
theorem stage_k2 : view (after 2) = ([(2, 0, 13, 4), (0, 0, 13, 1)], 3) ∧ cacheAt (after 2) 4 = [(2, 0, false)] := by decide

set_option maxRecDepth 100000 in
/-- after turn 3 (`P`): `N = (state 0, value 0, depth 2)` is open with `ub = 4`, below its potential 10 (its parent's diagram
    was cut by the cache at a child of a merged node) -/
theorem stage_N : view (after 3) = ([(0, 0, 4, 2), (2, 0, 13, 4)], 3) ∧
    optOf (H T) ⟨0, 0, [], 4, 2⟩ = some 10 := by decide

set_option maxRecDepth 100000 in
/-- turn 4 pops `N` although `k2` has the larger bound; afterwards the incumbent is 4, only `k2` is open — the cut-set node
    `c' = (state 2, value 0, depth 5)` of potential 10 was not enqueued — and the cache holds `(0, false)` at `(2, depth 5)` -/
theorem stage_cprime : view (after 4) = ([(2, 0, 13, 4)], 4) ∧ cacheAt (after 4) 5 = [(2, 0, false), (0, 0, false)] ∧
    optOf (H T) ⟨2, 0, [], 4, 5⟩ = some 10 := by decide

set_option maxRecDepth 100000 in
/-- turn 5 pops `k2`: `must_explore` accepts it, both its compilations prune a node with the cache, nothing is left -/
theorem stage_end : (after 4).cache.mustExplore 2 4 0 = some true ∧ view (after 5) = ([], 4) := by decide

/-- **`AnyOrder` fails for the pre-fix solver**: a well-formed model and a run of the capped caching solver with arbitrary
    pops (`KStepAnyCapped`) that ends with the empty fringe, without panic, and reports a value that is not the optimum -/
theorem not_anyOrder : ∃ (sv : CSolverCfg Int) (H : Nat → Int → EInt) (B0 B : Int), WellFormed sv H B0 B ∧
    ∃ t opt, KRunAnyCapped sv (KSt.init sv) t ∧ t.st.fringe = [] ∧ t.st.crashed = false ∧
      (H 0 sv.P.init).addI sv.P.initVal = some opt ∧ t.st.completion ≠ (true, some opt) := by
  refine ⟨sv false .lel, H T, 10, 80, wellFormed false .lel, _, 10, ksolveSchedCapped_run (sv false .lel) (sched false .lel) _,
    List.eq_nil_of_length_eq_zero anyorder_counter.2.2.1, ?_, opt10, ?_⟩
  · exact (anyorder_counter_all false (by simp) .lel (by simp)).2.2.2
  · rw [anyorder_counter.2.2.2]; decide

end Ddo.C09.Layered.Counter

/-! ## the same with `FixedWidth(2)` (pre-fix, capped solver)

`Fixed.T`: 7 binary variables, 4 states `0 … 3`, same relaxation (merge = largest state, constant rough upper bound 20),
**width 2 for every sub-problem**, last-exact-layer cut-set, either fringe, breadth-first pops (shallowest first, then the
larger state).  Tables (`state: (next, cost) for decision 0 | (next, cost) for decision 1`; `*` = never reached):

```
x0:  every state: (1,0)|(0,0)                                               R=0 → A=1 | P=0
x1:  0: (1,0)|(0,1)   1, 2*, 3*: (2,0)|(2,0)                                 P=0 → N=1 | N'=0 (cost 1);   A=1 → a2=2
x2:  0: (0,0)|(0,0)   1: (1,0)|(2,0)   2, 3*: (3,0)|(3,0)                    N'=0 → t3=0;   N=1 → lo=1 | hi=2;   a2=2 → a3=3
x3:  0: (1,0)|(1,0)   1: (2,0)|(2,0)   2: (3,0)|(0,2)   3: (3,0)|(1,0)       t3 → j4=1;  lo → s4=2;  hi → s*=3 | u4=0 (cost 2);  a3 → s*=3 | k3=1
x4:  0: (1,0)|(1,0)   1: (0,2)|(2,0)   2: (3,0)|(3,0)   3: (3,0)|(1,1)       u4 → t5=1;  j4=k3 → 0 (cost 2) | 2;  s4 → s=3;  s* → s=3 | o5=1 (cost 1)
x5:  0: (0,0)|(0,0)   1: (0,1)|(1,0)   2: (2,0)|(2,0)   3: (3,0)|(2,2)       s=3 → g=3 | y=2 (cost 2)
x6:  0: (0,0)|(0,0)   1: (0,1)|(0,0)   2: (0,2)|(0,0)   3: (0,10)|(0,0)      the late reward: state 3 at depth 6 earns 10
```

Value-to-go by depth: depth 0, 1: `10,10,10,10`; depth 2, 3: `2,10,10,10`; depth 4: `1,2,10,10`; depth 5, 6: `0,1,2,10`.
Optimum 10.  Six turns (plain fringe; `(state, value, ub, depth)`):

```
turn 1  pop R: the depth-2 layer {a2, N, N'} is squashed, cut-set {A, P}; restricted finds 3.      fringe [P=(0,0,13,1), A=(1,0,12,1)], incumbent 3
turn 2  pop A: exact down to depth 4 = {s* = 3, k3 = 1}, the depth-5 layer (4 nodes) is squashed; cut-set {k2 = (3,0,·,4), k3 = (1,0,·,4)};
        thresholds (3, depth 4) ↦ (0,false), (1, depth 4) ↦ (0,false).                               fringe [k3=(1,0,12,4), k2=(3,0,11,4), P], incumbent 3
turn 3  pop P: depth 3 = {t3 = (0, value 1), lo = (1, 0), hi = (2, 0)}: t3 is kept, lo and hi are merged into M = (2, 0); the
        child (s* = 3, value 0) of M is cut by the cache (0 ≤ 0), its child (u4 = 0, value 2) goes on and reaches 4 through a
        merged node of depth 5; cut-set {N, N'}: ub(N) = 4 < 10 = pot(N), N' (ub 3) is not enqueued.   fringe [N=(1,0,4,2), k3, k2], incumbent 3
turn 4  pop N (not best-first): exact down to depth 5 = {s = (3, 0), t5 = (1, 2)} (s* cut by the cache again), depth 6 = {g = (3,0), y = (2,2),
        (0,3), (1,2)} is squashed.  Restricted finds 4 (s, y).  Cut-set {c' = (3, 0, depth 5), (1, 2, depth 5)}: capped to 4 ≤ incumbent 4,
        not enqueued; thresholds (3, depth 5) ↦ (0,false), (1, depth 5) ↦ (2,false) recorded.          fringe [k3, k2], incumbent 4
turn 5  pop k2 = (3,0,11,4): both children (s = 3, value 0) and (o5 = 1, value 1) are cut by the thresholds of turn 4.  fringe [k3], incumbent 4
turn 6  pop k3 = (1,0,12,4): finds 2.                                                                   fringe [], incumbent 4 ≠ 10
``` -/
namespace Ddo.C09.Layered.Fixed
open Ddo Ddo.C01 Ddo.Closed

def T : Tab :=
  { n := 7, m := 4,
    trl := [1,0, 1,0, 1,0, 1,0,   1,0, 2,2, 2,2, 2,2,   0,0, 1,2, 3,3, 3,3,   1,1, 2,2, 3,0, 3,1,   1,1, 0,2, 3,3, 3,1,
            0,0, 0,1, 2,2, 3,2,   0,0, 0,0, 0,0, 0,0],
    cl :=  [0,0, 0,0, 0,0, 0,0,   0,1, 0,0, 0,0, 0,0,   0,0, 0,0, 0,0, 0,0,   0,0, 0,0, 0,2, 0,0,   0,0, 2,0, 0,0, 0,1,
            0,0, 1,0, 0,0, 0,2,   0,0, 1,0, 2,0, 10,0],
    rub := 20 }

/-- `FixedWidth(2)` -/
def ws : List Nat := List.replicate 32 2

def sv (dedup : Bool) : SolverCfg Int := Layered.sv T ws dedup .lel

/-- the breadth-first pop order as indices into the fringe list -/
def sched : Bool → List Nat
  | false => [0, 1, 2, 0, 1, 0]
  | true => [0, 0, 0, 2, 0, 0]

/-- the state of the pre-fix (capped) solver after the first `j` turns of the schedule -/
def after (j : Nat) : KSt Int := (sv false).ksolveSchedCapped ((sched false).take j) (KSt.init (sv false))

theorem checked : check T 10 = true := by decide

theorem wellFormed (dedup : Bool) : WellFormed (sv dedup) (H T) 10 80 :=
  wellFormed_ofTables T 10 80 ws dedup .lel checked (by decide) (by decide)

/-- every sub-problem of the model (depth ≤ 7) is compiled with width 2 -/
theorem width2 (dedup : Bool) (N : SubP Int) (hN : N.depth ≤ 7) : (sv dedup).width N = 2 := by
  show max 1 ((List.replicate 32 2).getD (N.depth * 4 + st T N.state) 1) = 2
  have h : st T N.state < 4 := st_lt T (by decide) _
  have hd : N.depth * 4 + st T N.state < 32 := by omega
  rw [List.getD_eq_getElem?_getD, List.getElem?_replicate]
  simp [hd]

/-- the optimum is 10 -/
theorem opt10 : (H T 0 (prob T).init).addI (prob T).initVal = some 10 := by decide

set_option maxRecDepth 100000 in
/-- **the counter-example with `FixedWidth(2)`** (pre-fix, capped solver): well formed, optimum 10, the breadth-first order
    ends after six turns with the empty fringe, `is_exact = true` and `best_value = Some(4)` (either fringe; nothing panics) -/
theorem anyorder_counter : check T 10 = true ∧ (H T 0 (prob T).init).addI (prob T).initVal = some 10 ∧
    ∀ dedup ∈ [false, true],
      ((sv dedup).ksolveSchedCapped (sched dedup) (KSt.init (sv dedup))).st.fringe.length = 0 ∧
      ((sv dedup).ksolveSchedCapped (sched dedup) (KSt.init (sv dedup))).st.completion = (true, some 4) ∧
      ((sv dedup).ksolveSchedCapped (sched dedup) (KSt.init (sv dedup))).st.explored = 6 ∧
      ((sv dedup).ksolveSchedCapped (sched dedup) (KSt.init (sv dedup))).st.crashed = false := by decide

set_option maxRecDepth 100000 in
/-- with best-first pops (the repaired, no-cap solver): the optimum, in nine turns -/
theorem bestfirst_value : ((sv false).ksolveLoop 12 (KSt.init (sv false))).st.completion = (true, some 10) ∧
    ((sv false).ksolveLoop 12 (KSt.init (sv false))).st.fringe.length = 0 ∧
    ((sv false).ksolveLoop 12 (KSt.init (sv false))).st.explored = 9 := by decide

set_option maxRecDepth 100000 in
/-- with best-first pops, the pre-fix (capped) solver: the optimum, in nine turns -/
theorem bestfirst_value_capped : ((sv false).ksolveLoopCapped 12 (KSt.init (sv false))).st.completion = (true, some 10) ∧
    ((sv false).ksolveLoopCapped 12 (KSt.init (sv false))).st.fringe.length = 0 ∧
    ((sv false).ksolveLoopCapped 12 (KSt.init (sv false))).st.explored = 9 := by decide

set_option maxRecDepth 100000 in
/-- after turn 3: `N` is open with `ub = 4 < 10 = pot(N)`, `k2 = (3, 0, 11, 4)` is open with a larger bound -/
theorem stage_N : view (after 3) = ([(1, 0, 4, 2), (1, 0, 12, 4), (3, 0, 11, 4)], 3) ∧
    optOf (H T) ⟨1, 0, [], 4, 2⟩ = some 10 ∧ cacheAt (after 3) 4 = [(3, 0, false), (1, 0, false)] := by decide

set_option maxRecDepth 100000 in
/-- after turn 4 (`N` popped before `k2`): incumbent 4, the cut-set nodes of depth 5 were not enqueued, their thresholds are
    in the cache -/
theorem stage_cprime : view (after 4) = ([(1, 0, 12, 4), (3, 0, 11, 4)], 4) ∧
    cacheAt (after 4) 5 = [(3, 0, false), (1, 2, false)] ∧ optOf (H T) ⟨3, 0, [], 4, 5⟩ = some 10 := by decide

end Ddo.C09.Layered.Fixed

/-! ## a third, independently hand-made instance (4 states, optimum 6, small costs; pre-fix, capped solver)

Rows per variable and state `(next0, cost0, next1, cost1)`, padded to 4 states by repeating the last row:
`x0: (1,0,0,1)`; `x1: (2,0,2,0), (1,0,0,1)`; `x2: (0,0,0,0), (1,0,1,0), (2,0,2,0)`; `x3: (0,1,2,0), (1,0,3,0), (3,0,3,0)`;
`x4: (0,0,0,0), (1,0,1,0), (0,0,2,0), (0,1,2,0)`; `x5: (0,0,0,0), (2,0,2,0), (1,1,3,0)`;
`x6: (0,0,0,0), (0,0,0,2), (0,3,0,3), (0,0,0,5)`.  Rough upper bound 100, width 1 at depths 0 and 1 and 2 below, plain fringe,
last-exact-layer cut-set, breadth-first pops (shallowest first, then the larger value).  Six turns: root; `A = (0,1,8,1)`;
`P = (1,0,8,1)`; `N = (0,1,4,2)` although `k2 = (3,1,8,4)` is open; `N' = (1,0,3,2)` (skipped by its bound); `k2`, whose
diagram is cut at `(state 2, depth 5)` by the threshold `(1, false)` recorded by the diagram of `N` for a cut-set node that
was not enqueued (capped bound 4 ≤ incumbent 4).  Result 4, optimum 6. -/
namespace Ddo.C09.Layered.Hand
open Ddo Ddo.C01 Ddo.Closed

def T : Tab :=
  { n := 7, m := 4,
    trl := [1,0, 1,0, 1,0, 1,0,   2,2, 1,0, 1,0, 1,0,   0,0, 1,1, 2,2, 2,2,   0,2, 1,3, 3,3, 3,3,   0,0, 1,1, 0,2, 0,2,
            0,0, 2,2, 1,3, 1,3,   0,0, 0,0, 0,0, 0,0],
    cl :=  [0,1, 0,1, 0,1, 0,1,   0,0, 0,1, 0,1, 0,1,   0,0, 0,0, 0,0, 0,0,   1,0, 0,0, 0,0, 0,0,   0,0, 0,0, 0,0, 1,0,
            0,0, 0,0, 1,0, 1,0,   0,0, 0,2, 3,3, 0,5],
    rub := 100 }

def ws : List Nat := [1,1,1,1, 1,1,1,1] ++ List.replicate 24 2
def sv : SolverCfg Int := Layered.sv T ws false .lel
def sched : List Nat := [0, 0, 1, 0, 0, 0]

theorem checked : check T 5 = true := by decide

theorem wellFormed : WellFormed sv (H T) 5 40 :=
  wellFormed_ofTables T 5 40 ws false .lel checked (by decide) (by decide)

set_option maxRecDepth 100000 in
/-- the pre-fix (capped) solver: breadth-first pops end with 4, best-first pops with the optimum 6 -/
theorem anyorder_counter : check T 5 = true ∧ (H T 0 (prob T).init).addI (prob T).initVal = some 6 ∧
    (sv.ksolveSchedCapped sched (KSt.init sv)).st.fringe.length = 0 ∧
    (sv.ksolveSchedCapped sched (KSt.init sv)).st.completion = (true, some 4) ∧
    (sv.ksolveLoopCapped 20 (KSt.init sv)).st.completion = (true, some 6) := by decide

set_option maxRecDepth 100000 in
/-- with best-first pops the repaired (no-cap) solver returns the optimum, in six turns -/
theorem bestfirst_value : (sv.ksolveLoop 20 (KSt.init sv)).st.completion = (true, some 6) ∧
    (sv.ksolveLoop 20 (KSt.init sv)).st.fringe.length = 0 ∧
    (sv.ksolveLoop 20 (KSt.init sv)).st.explored = 6 := by decide

end Ddo.C09.Layered.Hand

#print axioms Ddo.C09.Layered.wellFormed
#print axioms Ddo.C09.Layered.wellFormed_ofTables
#print axioms Ddo.C09.Layered.Counter.anyorder_counter
#print axioms Ddo.C09.Layered.Counter.anyorder_counter_all
#print axioms Ddo.C09.Layered.Counter.bestfirst_value
#print axioms Ddo.C09.Layered.Counter.bestfirst_value_capped
#print axioms Ddo.C09.Layered.Counter.not_anyOrder
#print axioms Ddo.C09.Layered.Fixed.anyorder_counter
#print axioms Ddo.C09.Layered.Fixed.bestfirst_value
#print axioms Ddo.C09.Layered.Fixed.bestfirst_value_capped
#print axioms Ddo.C09.Layered.Hand.anyorder_counter
#print axioms Ddo.C09.Layered.Hand.bestfirst_value
