import DdoModel.Proofs.ParDomOpNC
import DdoModel.Proofs.ParDomOpSol
import DdoModel.Proofs.ParDomOpCut
import DdoModel.Proofs.ParDomOpExact
import DdoModel.Proofs.ParDomOpRelax
import DdoModel.Proofs.ParDomLay
import DdoModel.Proofs.ParDomInst
/-! # `AnsOk` for the OPERATION-WISE compilations: the obligation `PerOpObligation` is discharged

The diagram theorems with the checker enabled, re-proved for `compileOp` (every single `is_dominated_or_insert` of a compilation
answered by an arbitrary store of exactly reached items: `Proofs/ParDomOpNC/Sol/Cut/Exact/Relax.lean`), assembled exactly as
`C10.restricted_contract` / `C10.relaxed_contract` / `okRd_facts` / `okXd_facts` assemble the plain ones. -/
set_option linter.unusedSectionVars false
set_option linter.unusedVariables false
namespace Ddo.ParDom
open Ddo Ddo.Truth Ddo.Closed Ddo.ParSys Ddo.ParClosed Ddo.C10
open Ddo.C01 (SolverCfg WellFormed toOut SolOf)
variable {S K : Type} [DecidableEq S] [DecidableEq K]

/-- **`AnsOk` holds for the operation-wise compilations** -/
theorem ansOk_Op {dv : DSolverCfg S K} {H : Nat → S → EInt} {B0 B opt : Int} {Prot : Nat → S → Int → Prop}
    (hwf : WellFormed dv.sv H B0 B) (hopt : (H 0 dv.sv.P.init).addI dv.sv.P.initVal = some opt)
    (hPr : Protected dv.D dv.sv.P H opt Prot) : AnsOk dv B opt Prot (okROp dv) (okXOp dv) where
  factsR := by
    intro n lb o hn hok w hw
    obtain ⟨p0, hroot, hperm⟩ := hn
    obtain ⟨τ, hτ, hokc, rfl⟩ := hok
    have hBN : NoClamp dv.sv.P dv.sv.R n.value B := hwf.bound.noClamp_at hwf.nv hroot
    exact isSol_le' (sv := dv.sv) hwf (dv.cfg .restricted n lb) rfl p0 w _
      (isSolOp_restricted (dv.cfg .restricted n lb) B p0 _ τ 0 rfl hBN hroot hokc w hw)
  factsX := by
    intro n lb o hn hok
    obtain ⟨p0, hroot, hperm⟩ := hn
    obtain ⟨τ, hτ, hokc, rfl⟩ := hok
    have hBN : NoClamp dv.sv.P dv.sv.R n.value B := hwf.bound.noClamp_at hwf.nv hroot
    refine ⟨fun w hw => ?_, fun c hc => ?_⟩
    · exact isSol_le' (sv := dv.sv) hwf (dv.cfg .relaxed n lb) rfl p0 w _
        (isSolOp_relaxed (dv.cfg .relaxed n lb) dv.D rfl B p0 _ τ 0 rfl rfl (hwf.width n) hBN hroot hokc w hw)
    · obtain ⟨q, hq, hpath⟩ := cutsetOp_exact (dv.cfg .relaxed n lb) B p0 _ τ 0 hroot hBN hokc c hc
      have hprog := cutsetOp_progress (dv.cfg .relaxed n lb) B p0 _ τ 0 rfl hroot hBN hokc c hc
      exact ⟨⟨p0 ++ q, hq, by rw [hpath]; exact List.Perm.append hperm (List.reverse_perm q)⟩, hprog,
        reach_depth_le hwf.nv hq⟩
  contractR := by
    intro n lb o hn h1 _ hle hok
    obtain ⟨p0, hroot, hperm⟩ := hn
    obtain ⟨τ, hτ, hokc, rfl⟩ := hok
    have hBN : NoClamp dv.sv.P dv.sv.R n.value B := hwf.bound.noClamp_at hwf.nv hroot
    constructor
    · intro w hw
      have hs := isSolOp_restricted (dv.cfg .restricted n lb) B p0 _ τ 0 rfl hBN hroot hokc w hw
      exact (C01.isSol_facts (dv.cfg .restricted n lb) H opt p0 hwf.pot hroot hperm hopt w _ hs).1
    · intro hex hOn hgt
      have hprot := onP_exact hPr hwf.pot hroot hOn
      exact exactOp_diagram (dv.cfg .restricted n lb) dv.D H opt Prot B
        (domHyp_of hwf hopt hPr .restricted n lb p0 hroot h1 hgt) p0 _ τ 0 hroot hprot hτ hokc
        (restrictedOp_isExact (dv.cfg .restricted n lb) _ τ 0 rfl hokc hex)
  contractX := by
    intro n lb o hn h1 _ hle hok
    obtain ⟨p0, hroot, hperm⟩ := hn
    obtain ⟨τ, hτ, hokc, rfl⟩ := hok
    have hBN : NoClamp dv.sv.P dv.sv.R n.value B := hwf.bound.noClamp_at hwf.nv hroot
    refine ⟨⟨?_, ?_⟩, ?_⟩
    · intro w hw
      have hs := isSolOp_relaxed (dv.cfg .relaxed n lb) dv.D rfl B p0 _ τ 0 rfl rfl (hwf.width n) hBN hroot hokc w hw
      exact (C01.isSol_facts (dv.cfg .relaxed n lb) H opt p0 hwf.pot hroot hperm hopt w _ hs).1
    · intro hex hOn hgt
      have hprot := onP_exact hPr hwf.pot hroot hOn
      rcases relaxedOp_isExact_cases (dv.cfg .relaxed n lb) _ τ 0 rfl hokc hex with hl | ⟨_, hb⟩
      · exact exactOp_diagram (dv.cfg .relaxed n lb) dv.D H opt Prot B
          (domHyp_of hwf hopt hPr .relaxed n lb p0 hroot h1 hgt) p0 _ τ 0 hroot hprot hτ hokc hl
      · obtain ⟨bv, hbv, hle'⟩ := relaxedOp_ub (dv.cfg .relaxed n lb) dv.D H opt Prot B
          (domHyp_of hwf hopt hPr .relaxed n lb p0 hroot h1 hgt) rfl (hwf.width n) hwf.merge hwf.attMerge p0 _ τ 0
          hroot hprot hτ hokc
        exact ⟨bv, hb.trans hbv, hle'⟩
    · intro hne hOn hgt hbe
      have hprot := onP_exact hPr hwf.pot hroot hOn
      obtain ⟨c0, hc0, hp0, hu0⟩ := relaxedOp_cutset (dv.cfg .relaxed n lb) dv.D H opt Prot B
        (domHyp_of hwf hopt hPr .relaxed n lb p0 hroot h1 hgt) rfl (hwf.width n) hwf.merge hwf.attMerge p0 _ τ 0
        hroot hprot hτ hokc hbe
      exact ⟨c0, hc0, ⟨c0.value, Int.le_refl _, hp0⟩, hu0⟩
  answersR := by
    intro n lb hn
    obtain ⟨p0, hroot, _⟩ := hn
    exact ⟨_, fun _ => DomStore.init dv.sv.P.nbVars, goodStores_const dv,
      compileOp_no_crash (dv.cfg .restricted n lb) dv.D rfl B p0 _ _ 0 rfl (hwf.width n) hwf.nv
        (hwf.bound.noClamp_at hwf.nv hroot) hroot (goodStores_const dv), rfl⟩
  answersX := by
    intro n lb hn
    obtain ⟨p0, hroot, _⟩ := hn
    exact ⟨_, fun _ => DomStore.init dv.sv.P.nbVars, goodStores_const dv,
      compileOp_no_crash (dv.cfg .relaxed n lb) dv.D rfl B p0 _ _ 0 rfl (hwf.width n) hwf.nv
        (hwf.bound.noClamp_at hwf.nv hroot) hroot (goodStores_const dv), rfl⟩

/-- **the obligation is discharged** -/
theorem perOpObligation_holds {dv : DSolverCfg S K} {H : Nat → S → EInt} {B0 B opt : Int} {Prot : Nat → S → Int → Prop}
    (hwf : WellFormed dv.sv H B0 B) (hopt : (H 0 dv.sv.P.init).addI dv.sv.P.initVal = some opt)
    (hPr : Protected dv.D dv.sv.P H opt Prot) : PerOpObligation dv B opt Prot := by
  refine ⟨ansOk_Op hwf hopt hPr, fun ct N lb τ hn _ => ?_⟩
  obtain ⟨p0, hroot, _⟩ := hn
  exact compileOp_ops_reached (dv.cfg ct N lb) B p0 (hwf.bound.noClamp_at hwf.nv hroot) hroot _ τ 0

end Ddo.ParDom
