import DdoModel.Proofs.Theta
import DdoModel.Proofs.ThetaCover
import DdoModel.Proofs.CacheClosedMark
/-! C09 (closing the caching solver) — the cut-set of a relaxed compilation that consults a cache, on `finalize`.

`KFacts`: four more facts about the *built* diagram (proved in `CacheClosedInvA.lean` / `CacheClosedInvB.lean`): nothing is
marked, every inbound arc comes from a node that was handed to the expansion (not pruned by the cache, not deleted), the
nodes of a layer that are neither deleted nor pruned have pairwise distinct states, and an un-merged node of an inner layer
that survived `_filter_with_cache` is strictly above the cached threshold.

From them, for a node `c` handed out by `drain_cutset` (`Ctx.cut_node`): it sits at a position of the cut-set, strictly
between the root layer and the terminal layer, is exact, flagged `cutset`, marked, **not pruned by the cache, not
deleted** (`Ctx.marked_clean`: a marked node below the terminal layer is the source of an arc — `finalize_marked` — hence
was expanded).  Then
* `Ctx.cut_ub`  (field `ub` of `CompC`): the bound `min (value + rub) (value + locb) best` of `c` dominates its potential,
  unless the cache cut the diagram strictly below `c`;
* `Ctx.cut_fresh_cache` / `Ctx.cut_fresh_ups` (field `fresh`): the consulted cache holds no threshold `≥ c.value` for `c`,
  and the only update of its own compilation that hits `(c.state, c.depth)` is `(c.value, explored = false)` when the
  bound of `c` beats the incumbent;
* `Ctx.cut_exact_le` (field `exactCut`). -/
set_option linter.unusedSectionVars false
set_option linter.unusedVariables false
namespace Ddo.CacheClosed
open Ddo Ddo.Bounds Ddo.Theta
variable {S K : Type} [DecidableEq S] [DecidableEq K]

/-- four more facts about the built diagram `LS` of a relaxed compilation that consults `cache` -/
structure KFacts (cfg : Cfg S K) (cache : Cache S) (LS : List (List (Node S))) : Prop where
  unmarked : ∀ (l p : Nat) (n : Node S), getNode LS l p = some n → n.marked = false
  arcsLive : ∀ (l p : Nat) (n : Node S) (a : Arc), getNode LS l p = some n → a ∈ n.inb →
    ∃ par, getNode LS a.fromL a.fromP = some par ∧ par.cache = false ∧ par.deleted = false
  distinct : ∀ (l p q : Nat) (n m : Node S), getNode LS l p = some n → getNode LS l q = some m →
    n.cache = false → n.deleted = false → m.cache = false → m.deleted = false → n.state = m.state → p = q
  filt : ∀ (l p : Nat) (n : Node S) (t : Thr), 1 ≤ l → l + 1 < LS.length → getNode LS l p = some n →
    n.cache = false → n.deleted = false → n.fRelaxed = false → lookup cfg cache n = some t → n.value > t.value

end Ddo.CacheClosed

namespace Ddo.Theta
open Ddo Ddo.Bounds Ddo.CacheClosed
variable {S K : Type} [DecidableEq S] [DecidableEq K]

section
variable {cfg : Cfg S K} {H : Nat → S → EInt} {B : Int} {cache : Cache S} {p0 : List Dec} {fin : DD S K}
  {Live : Nat → Nat → Prop} {dd : DD S K}

theorem Ctx.lenLS (hx : Ctx cfg H B cache p0 fin Live dd) (hne : dd.next ≠ []) :
    (finalizeLayers fin).layers.length = dd.layers.length + 1 := hx.bo.lenT hne

/-- **a node pruned by the cache (or deleted) is never marked**: a marked node below the terminal layer was expanded -/
theorem Ctx.marked_clean (hx : Ctx cfg H B cache p0 fin Live dd) (hk : KFacts cfg cache (finalizeLayers fin).layers)
    (e : Bool) (hne : dd.next ≠ []) (l p : Nat) (n3 : Node S)
    (hn : getNode (finalize cfg (finalizeLayers fin) e).2 l p = some n3) (hm : n3.marked = true)
    (hl : l < dd.layers.length) : n3.cache = false ∧ n3.deleted = false := by
  obtain ⟨n0, n1, n2, hn0, _, _, hco⟩ := corr_of_L3 cfg (finalizeLayers fin) e hn
  rcases finalize_marked cfg (finalizeLayers fin) e hk.unmarked l p n3 hn hm with h | ⟨l', p', m, a, hmm, ha, hfl, hfp⟩
  · have := hx.lenLS hne
    omega
  · obtain ⟨par, hpar, hc, hd⟩ := hk.arcsLive l' p' m a hmm ha
    rw [hfl, hfp, hn0] at hpar
    cases hpar
    exact ⟨by rw [hco.cache]; exact hc, by rw [hco.deleted]; exact hd⟩

theorem maxValue_nil_none : maxValue ([] : List (Node S)) = none := rfl

/-- **the node behind a sub-problem handed out by `drain_cutset`** -/
theorem Ctx.cut_node (hx : Ctx cfg H B cache p0 fin Live dd) (hk : KFacts cfg cache (finalizeLayers fin).layers)
    (e : Bool) (c : SubP S) (hc : c ∈ (finalize cfg (finalizeLayers fin) e).1.cutset) :
    ∃ (bv : Int) (l p : Nat) (n3 : Node S), (finalizeLayers fin).bestValue = some bv ∧ dd.next ≠ [] ∧
      getNode (finalize cfg (finalizeLayers fin) e).2 l p = some n3 ∧ 1 ≤ l ∧ l < dd.layers.length ∧
      n3.marked = true ∧ n3.cutset = true ∧ n3.isExact = true ∧ n3.cache = false ∧ n3.deleted = false ∧
      c = subOf cfg (finalize cfg (finalizeLayers fin) e).2 bv n3 := by
  obtain ⟨bv, lp, n3, hbv, hlp, hn, hmk, hceq⟩ := (finalize_cutset_iff cfg _ e c).1 hc
  have hne : dd.next ≠ [] := by
    intro hnil
    unfold Built.bestValue at hbv
    rw [hx.bo.terms, hnil] at hbv
    cases hbv
  have hlen := hx.lenLS hne
  have hlp' := fCs_sub cfg _ _ hlp
  obtain ⟨n0', hn0', hex0, hpos⟩ := hx.wf.cutset_pos lp hlp'
  obtain ⟨n0, n1, n2, hn0, hn1, _, hco⟩ := corr_of_L3 cfg (finalizeLayers fin) e hn
  rw [hn0] at hn0'
  cases hn0'
  have hex3 : n3.isExact = true := by rw [hco.isExact]; exact hex0
  have hl1 : 1 ≤ lp.1 := hpos hx.hy.rel
  rw [fLayers1_relaxed cfg _ hx.hy.rel] at hn1
  -- the position is below the terminal layer and the node is flagged `cutset`
  have hkey : lp.1 < dd.layers.length ∧ n3.cutset = true := by
    rw [hco.cutset]
    cases hkd : cfg.kind with
    | lel =>
      rw [hkd] at hlp' hn1
      obtain ⟨h1, h2, _⟩ := computeCutset_lel _ _ lp hlp'
      have hfl := (computeCutset_lel_flags _ _ hx.flags0 lp.1 lp.2 n1 hn1).2.1
      refine ⟨?_, hfl.mpr h1⟩
      rcases hx.lel_ne hne with ⟨_, h3⟩ | h3 <;> omega
    | frontier =>
      rw [hkd] at hlp' hn1
      obtain ⟨n00, hn00, _, l', p', m, a, hm, hmex, ha, hfl, hfp⟩ := computeCutset_frontier _ _ lp hlp'
      have harc := hx.wf.arcs l' p' m hm a ha
      have hlt := Ddo.getNode_lt hm
      refine ⟨by omega, ?_⟩
      obtain ⟨m1, hm1, hs⟩ := (computeCutset_eqC cfg.kind (finalizeLayers fin).lel (finalizeLayers fin).layers).symm.getNode_some hm
      rw [hkd] at hm1
      have hf := stripC_fields hs
      have hmex1 : m1.isExact = false := by
        unfold Node.isExact at hmex ⊢
        rw [hf.2.2.2.2.2.2.2.1, hf.2.2.2.2.2.2.2.2.1]; exact hmex
      have ha1 : a ∈ m1.inb := by rw [hf.2.2.2.2.1]; exact ha
      exact (computeCutset_frontier_flags (finalizeLayers fin).lel _ hx.flags0).2 l' p' m1 a n1 hm1 hmex1 ha1
        (by rw [hfl, hfp]; exact hn1) (by rw [hco.isExact1]; exact hex0)
  obtain ⟨hcl, hdl⟩ := hx.marked_clean hk e hne lp.1 lp.2 n3 hn hmk hkey.1
  exact ⟨bv, lp.1, lp.2, n3, hbv, hne, hn, hl1, hkey.1, hmk, hkey.2, hex3, hcl, hdl, hceq⟩

/-- `isize` saturation does not fire below a bound that is in range -/
theorem le_satAdd {y a b : Int} (h : y ≤ a + b) (hy : y ≤ iMax) : y ≤ satAdd a b := by
  unfold satAdd clamp
  simp only [iMin, iMax] at *
  omega

/-- **the field `ub` of the contract, on `finalize`**: the bound of a sub-problem of the cut-set dominates its potential
    when that potential beats `lb`, unless the cache cut the diagram strictly below it -/
theorem Ctx.cut_ub (hx : Ctx cfg H B cache p0 fin Live dd) (hk : KFacts cfg cache (finalizeLayers fin).layers)
    (hR : RubOk cfg.R H) (hlb : cfg.lb < iMax)
    (M : Int) (hM0 : 0 ≤ M) (hMs : M + Cover.Bd B (cfg.P.nbVars + 1) ≤ big) (e : Bool)
    (c : SubP S) (hc : c ∈ (finalize cfg (finalizeLayers fin) e).1.cutset)
    (y : Int) (hy : (H c.depth c.state).addI c.value = some y) (hgt : y > cfg.lb) :
    y ≤ c.ub ∨ CacheAlt cfg H B M cache c.depth y := by
  obtain ⟨bv, l, p, n3, hbv, hne, hn, hl1, hl, hmk, hcut, hex, hcl, hdl, rfl⟩ := hx.cut_node hk e c hc
  have hdep := hx.depth e l p n3 hn
  simp only [subOf] at hy ⊢
  rw [hdep] at hy
  obtain ⟨h, hH, hyv⟩ := addI_some hy
  have hyv' : y = n3.value + h := by omega
  have hyF : HypF cfg H B M dd.layers.length (bkOf cfg.lb (finalize cfg (finalizeLayers fin) e).1.bestExactValue) := by
    refine ⟨hR, hlb, bkOf_ge _ _, hx.hy.B.nonneg, hM0, ?_⟩
    have := Cover.Bd_mono hx.hy.B.nonneg hx.bo.len
    omega
  rcases np_all (hx.ff e) hyF (dd.layers.length - l) l p n3 (by omega) hn hdl h hH with g | g | g
  · omega
  · -- cut by the cache, strictly deeper (the node itself is not pruned)
    right
    obtain ⟨l', p', m3, t', v', h', hll, hpp, hm3, _, hcm, hlook, hv't, hw', hH', hxle⟩ := g
    have hlt : l < l' := by
      rcases Nat.lt_or_ge l l' with h1 | h1
      · exact h1
      · have hl' : l' = l := by omega
        subst hl'
        rw [hpp rfl, hn] at hm3
        cases hm3
        rw [hcl] at hcm; cases hcm
    obtain ⟨hu1, hget⟩ := lookup_some hlook
    have hdm := hx.depth e l' p' m3 hm3
    refine ⟨hu1, m3.state, m3.depth, t', v', h', hget, by rw [hdep, hdm]; omega, ?_, hv't, by rw [hdm]; exact hH', ?_⟩
    · rw [hdm, Nat.add_sub_cancel_left]; exact hw'
    · omega
  · -- a potential-preserving path to the terminal layer
    left
    obtain ⟨n3', hn3', _, hvb⟩ := hx.good e l p n3 hn hcut l p h _ g
    rw [hn] at hn3'; cases hn3'
    obtain ⟨hrub, _⟩ := hx.liveN e l p n3 hn hdl hcl hl
    have hrle : h ≤ n3.rub := by rw [hrub]; exact hR _ _ _ hH
    obtain ⟨n0, hn0, hs0⟩ := (finalize_layers_xEq cfg (finalizeLayers fin) e).getNode_some hn
    have hpLS := g.of_xEq (finalize_layers_xEq cfg (finalizeLayers fin) e).symm
    obtain ⟨pt, tn, _, htmem, hv⟩ := hx.path_end hpLS (by omega) n0 hn0
    obtain ⟨bv', hbv', hle⟩ := hx.best_ge e tn htmem
    have hbveq : bv' = bv := by
      have : (finalize cfg (finalizeLayers fin) e).1.bestValue = some bv := hbv
      rw [this] at hbv'; exact (Option.some.inj hbv').symm
    subst hbveq
    have hval : n0.value = n3.value := (stripB_fields hs0).2.1
    have hrng := hx.bo.inv.rngN tn htmem
    have hsm := Cover.Bd_small hx.hy.B.toDom hx.bo.len
    have hyle : y ≤ iMax := by
      unfold Cover.Within at hrng
      simp only [iMax]
      omega
    have h1 : y ≤ satAdd n3.value n3.rub := le_satAdd (by omega) hyle
    have h2 : y ≤ satAdd n3.value n3.vbot := le_satAdd (by omega) hyle
    omega

/-- **the field `fresh`, the consulted cache**: a sub-problem of the cut-set survived `_filter_with_cache` -/
theorem Ctx.cut_fresh_cache (hx : Ctx cfg H B cache p0 fin Live dd) (hk : KFacts cfg cache (finalizeLayers fin).layers)
    (e : Bool) (c : SubP S) (hc : c ∈ (finalize cfg (finalizeLayers fin) e).1.cutset)
    (huse : cfg.useCache = true) (t : Thr) (ht : cache.get c.state c.depth = some (some t)) : c.value > t.value := by
  obtain ⟨bv, l, p, n3, hbv, hne, hn, hl1, hl, hmk, hcut, hex, hcl, hdl, rfl⟩ := hx.cut_node hk e c hc
  obtain ⟨n0, n1, n2, hn0, _, _, hco⟩ := corr_of_L3 cfg (finalizeLayers fin) e hn
  simp only [subOf] at ht ⊢
  have hlen := hx.lenLS hne
  have hfr : n0.fRelaxed = false := by
    have : n0.isExact = true := by rw [← hco.isExact]; exact hex
    unfold Node.isExact at this
    cases h : n0.fRelaxed with
    | false => rfl
    | true => rw [h] at this; simp at this
  have hlook : lookup cfg cache n0 = some t := by
    unfold lookup
    rw [if_pos huse, ← hco.state, ← hco.depth, ht]
    rfl
  have := hk.filt l p n0 t hl1 (by omega) hn0 (by rw [← hco.cache]; exact hcl) (by rw [← hco.deleted]; exact hdl) hfr hlook
  rw [hco.value]; exact this

theorem satAdd_gt_of_min {a b c bk : Int} (h : min (min a b) c > bk) : a > bk ∧ b > bk := by omega

/-- **the field `fresh`, the updates of the compilation itself**: the only threshold recorded for the `(state, depth)` of a
    sub-problem of the cut-set whose bound beats the incumbent is its own value, not explored -/
theorem Ctx.cut_fresh_ups (hx : Ctx cfg H B cache p0 fin Live dd) (hk : KFacts cfg cache (finalizeLayers fin).layers)
    (e : Bool) (c : SubP S) (hc : c ∈ (finalize cfg (finalizeLayers fin) e).1.cutset)
    (hub : c.ub > bkOf cfg.lb (finalize cfg (finalizeLayers fin) e).1.bestExactValue)
    (u : S × Nat × Int × Bool) (hu : u ∈ (finalize cfg (finalizeLayers fin) e).1.cacheUpdates)
    (hs : u.1 = c.state) (hd : u.2.1 = c.depth) : u.2.2.1 = c.value ∧ u.2.2.2 = false := by
  obtain ⟨bv, l, p, n3, hbv, hne, hn, hl1, hl, hmk, hcut, hex, hcl, hdl, rfl⟩ := hx.cut_node hk e c hc
  obtain ⟨l', p', m3, hm, hmd, hmc, _, t, hth, rfl⟩ := (hx.spec e).2 u hu
  simp only [subOf] at hs hd hub ⊢
  have hdep := hx.depth e l p n3 hn
  have hdep' := hx.depth e l' p' m3 hm
  have hll : l' = l := by omega
  subst hll
  obtain ⟨n0, _, _, hn0, _, _, hco⟩ := corr_of_L3 cfg (finalizeLayers fin) e hn
  obtain ⟨m0, _, _, hm0, _, _, hcm⟩ := corr_of_L3 cfg (finalizeLayers fin) e hm
  have hpp : p' = p := hk.distinct l' p' p m0 n0 hm0 hn0 (by rw [← hcm.cache]; exact hmc) (by rw [← hcm.deleted]; exact hmd)
    (by rw [← hco.cache]; exact hcl) (by rw [← hco.deleted]; exact hdl) (by rw [← hcm.state, ← hco.state]; exact hs)
  subst hpp
  rw [hn] at hm
  cases hm
  obtain ⟨θp, hθ, _, _⟩ := hx.thetaF e l' p' n3 hn hdl
  obtain ⟨hr, hv⟩ := satAdd_gt_of_min hub
  unfold ownTheta at hθ
  rw [hcl] at hθ
  simp only [Bool.false_eq_true, if_false] at hθ
  rw [if_neg (by omega), hcut] at hθ
  simp only [if_true] at hθ
  rw [if_neg (by omega), hth] at hθ
  exact ⟨Option.some.inj hθ, by rw [hcut]; rfl⟩

/-- **the field `exactCut`**: the cut-set of a diagram that claims exactness holds nothing that beats the incumbent -/
theorem Ctx.cut_exact_le (hx : Ctx cfg H B cache p0 fin Live dd) (e : Bool)
    (hex : (finalize cfg (finalizeLayers fin) e).1.isExact = true)
    (c : SubP S) (hc : c ∈ (finalize cfg (finalizeLayers fin) e).1.cutset) :
    c.ub ≤ bkOf cfg.lb (finalize cfg (finalizeLayers fin) e).1.bestExactValue := by
  obtain ⟨bv, lp, n3, hbv, hlp, hn, hmk, rfl⟩ := (finalize_cutset_iff cfg _ e c).1 hc
  have hex' : ((finalizeLayers fin).isExactField || e) = true := hex
  cases he : e with
  | true =>
    rw [finalize_bestExactValue]
    simp only [if_true, hbv, bkOf, subOf]
    omega
  | false =>
    exfalso
    rw [he, Bool.or_false, finalizeLayers_isExactField] at hex'
    have hnone : fin.lel = none := by
      cases hl : fin.lel with
      | none => rfl
      | some k => rw [hl] at hex'; cases hex'
    have hlel : (finalizeLayers fin).lel = (finalizeLayers fin).layers.length := by
      rw [finalizeLayers_lel, hnone]; rfl
    have := fCs_sub cfg _ _ hlp
    rw [hx.wf.cutset_nil (by rw [hlel]; exact Nat.le_refl _)] at this
    exact absurd this List.not_mem_nil

/-- a recorded threshold belongs to an exact node: its `(state, depth)` is reached exactly -/
theorem Ctx.ups_reach (hx : Ctx cfg H B cache p0 fin Live dd) (e : Bool)
    (u : S × Nat × Int × Bool) (hu : u ∈ (finalize cfg (finalizeLayers fin) e).1.cacheUpdates) :
    ∃ (v : Int) (q : List Dec), Reach cfg.P u.2.1 u.1 v (p0 ++ q) := by
  obtain ⟨l, p, n3, hn, _, _, hab, t, _, rfl⟩ := (hx.spec e).2 u hu
  obtain ⟨n0, n1, n2, hn0, hn1, _, hco⟩ := corr_of_L3 cfg (finalizeLayers fin) e hn
  rw [hco.above] at hab
  rw [fLayers1_relaxed cfg _ hx.hy.rel] at hn1
  have hex : n0.isExact = true := by
    cases hkd : cfg.kind with
    | lel =>
      rw [hkd] at hn1
      exact hx.wf.exactUpTo l p n0 hn0 ((computeCutset_lel_flags _ _ hx.flags0 l p n1 hn1).1.mp hab)
    | frontier =>
      rw [hkd] at hn1
      rw [← hco.isExact1]
      exact ((computeCutset_frontier_flags (finalizeLayers fin).lel _ hx.flags0).1 l p n1 hn1).1.mp hab
  obtain ⟨q, _, hr, _⟩ := hx.wf.node l p n0 hn0 hex
  exact ⟨n0.value, q, by dsimp only; rw [hco.state, hco.depth]; exact hr⟩

end
end Ddo.Theta

#print axioms Ddo.Theta.Ctx.marked_clean
#print axioms Ddo.Theta.Ctx.cut_node
#print axioms Ddo.Theta.Ctx.cut_ub
#print axioms Ddo.Theta.Ctx.cut_fresh_cache
#print axioms Ddo.Theta.Ctx.cut_fresh_ups
#print axioms Ddo.Theta.Ctx.cut_exact_le
#print axioms Ddo.Theta.Ctx.ups_reach
