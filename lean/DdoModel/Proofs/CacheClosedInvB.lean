import DdoModel.Proofs.Theta
/-! Two structural facts about the diagram BUILT by a relaxed compilation (no dominance rule, width ≥ 1, with or without
    cache, whatever the cache holds, any `stopAt`):

* `built_distinct` (B1): in every layer, the nodes that are neither deleted nor pruned by the cache have pairwise
  distinct states.  The states of the layer under construction are distinct because `_branch_on` keys the children by
  their state; `_filter_with_cache` keeps the states; `_relax` deletes the nodes of `rest` and creates a merged node only
  when no kept node has the merged state (`recycled = none`) — that node may share its state with a deleted node or with
  a node pruned by the cache, hence the two exclusions; the expansion only writes `rub`.
* `built_filtered` (B2): a node of a layer `1 ≤ l` other than the last one, not pruned by the cache and not flagged
  relaxed, has a value strictly above the threshold the cache holds for its `(state, depth)`, if any: it survived
  `_filter_with_cache`, and `_relax` only raises values (through `append_edge_to!` on the merged node).

Both are read off an invariant `KInv` of the compilation loop (`buildLoop_kinv`). -/
set_option linter.unusedSectionVars false
set_option linter.unusedVariables false
namespace Ddo.CacheClosedB
open Ddo Ddo.Bounds Ddo.Theta
variable {S K : Type} [DecidableEq S] [DecidableEq K]

/-! ## `_branch_on` keeps the states of the layer under construction pairwise distinct -/

theorem go_states (parent : Node S) (dst : S) (c : Int) (a : Arc) (nx : List (Node S)) :
    (branchOn.go parent dst c a nx).map (·.state) = nx.map (·.state) ∨
    (dst ∉ nx.map (·.state) ∧ (branchOn.go parent dst c a nx).map (·.state) = nx.map (·.state) ++ [dst]) := by
  induction nx with
  | nil =>
    right
    refine ⟨List.not_mem_nil, ?_⟩
    rw [Cover.go_nil]
    simp only [List.map_cons, List.map_nil, Cover.appendEdge_state, Cover.freshNode, List.nil_append]
  | cons n r ih =>
    rw [Cover.go_cons]
    by_cases h : n.state = dst
    · left
      rw [if_pos h]
      simp only [List.map_cons, Cover.appendEdge_state]
    · rw [if_neg h]
      rcases ih with ih | ⟨ih1, ih2⟩
      · left
        simp only [List.map_cons, ih]
      · right
        refine ⟨?_, by simp only [List.map_cons, ih2, List.cons_append]⟩
        intro hm
        simp only [List.map_cons] at hm
        rcases List.mem_cons.mp hm with hm | hm
        · exact h hm.symm
        · exact ih1 hm

theorem go_nodup (parent : Node S) (dst : S) (c : Int) (a : Arc) (nx : List (Node S))
    (h : (nx.map (·.state)).Nodup) : ((branchOn.go parent dst c a nx).map (·.state)).Nodup := by
  rcases go_states parent dst c a nx with e | ⟨hn, e⟩
  · rw [e]; exact h
  · rw [e]
    refine List.nodup_append.mpr ⟨h, List.nodup_cons.mpr ⟨List.not_mem_nil, List.nodup_nil⟩, ?_⟩
    intro x hx y hy hxy
    rw [List.mem_singleton] at hy
    exact hn (hy ▸ hxy ▸ hx)

theorem branchAll_nodup (cfg : Cfg S K) (var lidx p : Nat) (n' : Node S) (ds : List Int)
    (acc : List (Node S) × List (Call S)) (h : (acc.1.map (·.state)).Nodup) :
    ((Cover.branchAll cfg var lidx p n' ds acc).1.map (·.state)).Nodup := by
  induction ds generalizing acc with
  | nil => exact h
  | cons d ds ih =>
    obtain ⟨nx, lg⟩ := acc
    rw [Cover.branchAll_cons]
    apply ih
    rw [Cover.branchOn_eq]
    exact go_nodup _ _ _ _ _ h

theorem expandOne_nodup (cfg : Cfg S K) (var lidx : Nat) (acc : List (Node S) × List (Node S) × List (Call S)) (p : Nat)
    (hh : (acc.2.1.map (·.state)).Nodup) : ((expandOne cfg var lidx acc p).2.1.map (·.state)).Nodup := by
  obtain ⟨ly, nx, lg⟩ := acc
  cases h : ly[p]? with
  | none => rw [Cover.expandOne_none _ _ _ _ _ _ _ h]; exact hh
  | some n =>
    rw [Cover.expandOne_some _ _ _ _ _ _ _ n h]
    split
    · exact branchAll_nodup _ _ _ _ _ _ (nx, _) hh
    · exact hh

theorem fold_nodup (cfg : Cfg S K) (var lidx : Nat) (cur : List Nat) (acc : List (Node S) × List (Node S) × List (Call S))
    (hh : (acc.2.1.map (·.state)).Nodup) : ((cur.foldl (expandOne cfg var lidx) acc).2.1.map (·.state)).Nodup :=
  Ddo.foldl_inv (fun b => (b.2.1.map (·.state)).Nodup) _ cur acc hh
    (fun b q _ hb => expandOne_nodup cfg var lidx b q hb)

/-- position-wise reading of `Nodup` of an image -/
theorem pos_of_nodup {α β : Type} (f : α → β) (l : List α) (h : (l.map f).Nodup) {p q : Nat} {n m : α}
    (hp : l[p]? = some n) (hq : l[q]? = some m) (e : f n = f m) : p = q := by
  have hlt : p < (l.map f).length := by rw [List.length_map]; exact Cover.lt_of_getElem?_some hp
  apply (List.getElem?_inj hlt h).mp
  rw [List.getElem?_map, List.getElem?_map, hp, hq, Option.map_some, Option.map_some, e]

/-! ## the two facts, layer-wise -/

/-- (B1) the nodes of the layer that are neither deleted nor pruned by the cache have pairwise distinct states -/
def DistL (ly : List (Node S)) : Prop :=
  ∀ (p q : Nat) (n m : Node S), ly[p]? = some n → ly[q]? = some m →
    n.cache = false → n.deleted = false → m.cache = false → m.deleted = false → n.state = m.state → p = q

/-- (B2) a node that is neither pruned by the cache nor flagged relaxed beats the cached threshold, if any -/
def Filt (cfg : Cfg S K) (cache : Cache S) (n : Node S) : Prop :=
  n.cache = false → n.fRelaxed = false → ∀ t, lookup cfg cache n = some t → n.value > t.value

theorem strip_flds {a b : Node S} (h : stripRub a = stripRub b) :
    a.state = b.state ∧ a.value = b.value ∧ a.depth = b.depth ∧ a.cache = b.cache ∧ a.deleted = b.deleted ∧
    a.fRelaxed = b.fRelaxed := by
  have h1 := congrArg Node.state h
  have h2 := congrArg Node.value h
  have h3 := congrArg Node.depth h
  have h4 := congrArg Node.cache h
  have h5 := congrArg Node.deleted h
  have h6 := congrArg Node.fRelaxed h
  simp only [stripRub] at h1 h2 h3 h4 h5 h6
  exact ⟨h1, h2, h3, h4, h5, h6⟩

theorem Filt.of_strip {cfg : Cfg S K} {cache : Cache S} {a b : Node S} (h : stripRub a = stripRub b)
    (ha : Filt cfg cache a) : Filt cfg cache b := by
  obtain ⟨h1, h2, h3, h4, _, h6⟩ := strip_flds h
  have hlk : lookup cfg cache a = lookup cfg cache b := by unfold lookup; rw [h1, h3]
  intro hc hr t ht
  rw [← h2]
  exact ha (h4 ▸ hc) (h6 ▸ hr) t (hlk ▸ ht)

theorem DistL.of_rubEq {ly ly0 : List (Node S)} (h : RubEq ly ly0) (h0 : DistL ly0) : DistL ly := by
  intro p q n m hn hm hnc hnd hmc hmd hs
  obtain ⟨n0, hn0, sn⟩ := h.get hn
  obtain ⟨m0, hm0, sm⟩ := h.get hm
  obtain ⟨a1, _, _, a4, a5, _⟩ := strip_flds sn
  obtain ⟨b1, _, _, b4, b5, _⟩ := strip_flds sm
  exact h0 p q n0 m0 hn0 hm0 (a4 ▸ hnc) (a5 ▸ hnd) (b4 ▸ hmc) (b5 ▸ hmd) (by rw [a1, b1]; exact hs)

/-! ## `_filter_with_cache` -/

theorem fcNode_filt (cfg : Cfg S K) (cache : Cache S) (m : Node S) : Filt cfg cache (fcNode cfg cache m) := by
  unfold Filt fcNode
  cases hl : lookup cfg cache m with
  | none =>
    dsimp only
    intro _ _ t ht
    rw [hl] at ht
    cases ht
  | some t0 =>
    dsimp only
    by_cases hv : m.value > t0.value
    · rw [if_pos hv]
      intro _ _ t ht
      rw [hl] at ht
      cases ht
      exact hv
    · rw [if_neg hv]
      intro hc
      cases hc

/-! ## `_relax` -/

theorem appendEdge_fRelaxed (p c : Node S) (a : Arc) : (appendEdge p c a).fRelaxed = c.fRelaxed := by
  unfold appendEdge; dsimp only; split <;> rfl

/-- (B2) through `_relax`: the values only go up, and only on the merged node -/
theorem relaxLayer_filt (cfg : Cfg S K) (cache : Cache S) (layers : List (List (Node S))) (layer : List (Node S))
    (cur : List Nat) (log : List (Call S)) (h : ∀ n ∈ layer, Filt cfg cache n) :
    ∀ n ∈ (relaxLayer cfg layers layer cur log).1, Filt cfg cache n := by
  refine relaxLayer_forallD (Filt cfg cache) cfg layers layer cur log ?_ ?_ ?_ ?_ h
  · intro _ hr; cases hr
  · intro n _ _ hr; cases hr
  · intro n b hn; exact hn
  · intro dropN _ e _ src m hm hc hr t ht
    obtain ⟨f1, _, _, _, f5, _, _⟩ := appendEdge_flds src m
      ⟨e.fromL, e.fromP, e.dec, cfg.R.relax src.state dropN.state (Cover.mergedOf cfg layer cur) e.dec e.cost⟩
    have hlk : lookup cfg cache (appendEdge src m
        ⟨e.fromL, e.fromP, e.dec, cfg.R.relax src.state dropN.state (Cover.mergedOf cfg layer cur) e.dec e.cost⟩) =
        lookup cfg cache m := by
      unfold lookup; rw [Cover.appendEdge_state, f1]
    rw [hlk] at ht
    rw [f5] at hc
    rw [appendEdge_fRelaxed] at hr
    have := hm hc hr t ht
    have := Cover.appendEdge_ge_old src m
      ⟨e.fromL, e.fromP, e.dec, cfg.R.relax src.state dropN.state (Cover.mergedOf cfg layer cur) e.dec e.cost⟩
    omega

/-- either `_relax` recycled a kept node (the layer keeps its length), or it created the merged node: then no kept node
    has the merged state, and the kept positions plus the new one are handed to the expansion -/
theorem relaxLayer_shape (cfg : Cfg S K) (layers : List (List (Node S))) (layer : List (Node S)) (cur : List Nat)
    (log : List (Call S)) :
    (relaxLayer cfg layers layer cur log).1.length = layer.length ∨
    (Cover.recycledOf cfg layer cur = none ∧
      (relaxLayer cfg layers layer cur log).2.1 = Cover.keepOf cfg layer cur ++ [layer.length]) := by
  refine relaxLayer_elimD cfg layers layer cur log (fun r => r.1.length = layer.length ∨
    (Cover.recycledOf cfg layer cur = none ∧ r.2.1 = Cover.keepOf cfg layer cur ++ [layer.length])) ?_ ?_
  · intro h lg
    exact .inr ⟨h, rfl⟩
  · intro mp _ lg
    left
    dsimp only
    rw [(Cover.undelete_ext mp _ _).len, (Cover.outer_ext cfg layers _ mp _ _).len]
    dsimp only
    rw [(Cover.markRelaxed_ext mp layer mp).len]

/-- (B1) through `_relax` -/
theorem relaxLayer_dist (cfg : Cfg S K) (layers : List (List (Node S))) (layer : List (Node S)) (cur : List Nat)
    (log : List (Call S)) (hW : 1 ≤ cfg.width) (hlen : cur.length > cfg.width) (hcur : ∀ p ∈ cur, p < layer.length)
    (hnd : cur.Nodup) (hdel : ∀ q ∈ cur, ∀ n, layer[q]? = some n → n.deleted = false)
    (hout : ∀ q, q ∉ cur → ∀ n, layer[q]? = some n → n.cache = true)
    (hD : ∀ (p q : Nat) (n m : Node S), layer[p]? = some n → layer[q]? = some m → n.state = m.state → p = q) :
    DistL (relaxLayer cfg layers layer cur log).1 := by
  obtain ⟨p1, p2, p3⟩ := relaxLayer_pos cfg layers layer cur log hW hlen hcur hnd hdel
  have hfS := relaxLayer_fld Node.state (fun src m a => Cover.appendEdge_state src m a) (fun _ => rfl) (fun _ _ => rfl)
    cfg layers layer cur log
  have mixed : ∀ (q q0 : Nat) (m n m0 : Node S), (relaxLayer cfg layers layer cur log).1[q]? = some m →
      m.cache = false → m.deleted = false → layer[q]? = some m0 → m.state = m0.state →
      (relaxLayer cfg layers layer cur log).1[q0]? = some n → q0 = layer.length →
      n.state = Cover.mergedOf cfg layer cur → m.state = n.state → False := by
    intro q q0 m n m0 hm hmc hmd hm0 hsm hn hq0 hsn hs
    have hql : q < layer.length := Cover.lt_of_getElem?_some hm0
    have hq0l := Cover.lt_of_getElem?_some hn
    rcases relaxLayer_shape cfg layers layer cur log with hsh | ⟨hrec, hc'⟩
    · omega
    · rcases p3 q m hm hmd with hq | ⟨hq, _⟩
      · rw [hc'] at hq
        rcases List.mem_append.mp hq with hk | hk
        · have := List.find?_eq_none.mp hrec q hk
          rw [hm0] at this
          apply this
          dsimp only
          rw [decide_eq_true_eq, ← hsm, hs, hsn]
        · rw [List.mem_singleton] at hk; omega
      · rw [p1 q hq hql] at hm
        have := hout q hq m hm
        rw [hmc] at this
        cases this
  intro p q n m hn hm hnc hnd' hmc hmd hs
  rcases hfS p n hn with ⟨n0, hn0, hsn⟩ | ⟨hpL, hsn⟩ <;> rcases hfS q m hm with ⟨m0, hm0, hsm⟩ | ⟨hqL, hsm⟩
  · exact hD p q n0 m0 hn0 hm0 (by rw [← hsn, ← hsm]; exact hs)
  · exact (mixed p q n m n0 hn hnc hnd' hn0 hsn hm hqL hsm hs).elim
  · exact (mixed q p m n m0 hm hmc hmd hm0 hsm hn hpL hsn hs.symm).elim
  · rw [hpL, hqL]

/-! ## the invariant of the compilation loop -/

structure KInv (cfg : Cfg S K) (cache : Cache S) (dd : DD S K) : Prop where
  cacheEq : dd.cache = cache
  nextD : (dd.next.map (·.state)).Nodup
  baseN : ∀ n ∈ dd.next, n.cache = false ∧ n.deleted = false
  distL : ∀ (i : Nat) ly, dd.layers[i]? = some ly → DistL ly
  filtL : ∀ (i : Nat) ly, 1 ≤ i → dd.layers[i]? = some ly → ∀ n ∈ ly, Filt cfg cache n

theorem KInv.congr {cfg : Cfg S K} {cache : Cache S} {dd dd' : DD S K} (h : KInv cfg cache dd)
    (h1 : dd'.layers = dd.layers) (h2 : dd'.next = dd.next) (h4 : dd'.cache = dd.cache) : KInv cfg cache dd' := by
  obtain ⟨a1, a2, a3, a4, a5⟩ := h
  exact ⟨by rw [h4]; exact a1, by rw [h2]; exact a2, by rw [h2]; exact a3, by rw [h1]; exact a4, by rw [h1]; exact a5⟩

/-- the loop stops on an empty layer: an empty layer is pushed -/
theorem KInv.pushEmpty {cfg : Cfg S K} {cache : Cache S} {dd dd' : DD S K} (h : KInv cfg cache dd)
    (h1 : dd'.layers = dd.layers ++ [[]]) (h2 : dd'.next = dd.next) (h4 : dd'.cache = dd.cache) : KInv cfg cache dd' := by
  obtain ⟨a1, a2, a3, a4, a5⟩ := h
  refine ⟨by rw [h4]; exact a1, by rw [h2]; exact a2, by rw [h2]; exact a3, ?_, ?_⟩
  · intro i ly hi
    rw [h1] at hi
    rcases getElem?_append_singleton_cases hi with hi | ⟨_, rfl⟩
    · exact a4 i ly hi
    · intro p q n m hn; simp at hn
  · intro i ly h1i hi
    rw [h1] at hi
    rcases getElem?_append_singleton_cases hi with hi | ⟨_, rfl⟩
    · exact a5 i ly h1i hi
    · intro n hn; cases hn

/-- what the invariant gives on the filtered layer -/
theorem fc_facts (cfg : Cfg S K) (cache : Cache S) (dd : DD S K) (layer : List (Node S)) (cur : List Nat)
    (hI : KInv cfg cache dd) (hfc : FcDesc cfg cache dd layer cur) :
    (layer.map (·.state)).Nodup ∧ cur.Nodup ∧ (∀ p ∈ cur, p < layer.length) ∧
    (∀ q ∈ cur, ∀ n, layer[q]? = some n → n.deleted = false) ∧
    (∀ q, q ∉ cur → ∀ n, layer[q]? = some n → n.cache = true) := by
  obtain ⟨g, keep, hlay, hcur, hnd, hg, _⟩ := hfc
  have hget : ∀ (q : Nat) n, layer[q]? = some n → ∃ m, dd.next[q]? = some m ∧ n = g m := by
    intro q n hn
    rw [hlay, List.getElem?_map] at hn
    cases h1 : dd.next[q]? with
    | none => rw [h1] at hn; cases hn
    | some m =>
      rw [h1] at hn
      simp only [Option.map_some, Option.some.injEq] at hn
      exact ⟨m, rfl, hn.symm⟩
  have hsame : ∀ m, (g m).state = m.state ∧ (g m).deleted = m.deleted := by
    intro m
    rcases hg m with ⟨_, h⟩ | ⟨_, t, _, _, h⟩
    · rw [h]; exact ⟨rfl, rfl⟩
    · rw [h]; exact ⟨rfl, rfl⟩
  have hlen : layer.length = dd.next.length := by rw [hlay, List.length_map]
  refine ⟨?_, hnd, ?_, ?_, ?_⟩
  · have e : layer.map (·.state) = dd.next.map (·.state) := by
      rw [hlay, List.map_map]
      apply List.map_congr_left
      intro m _
      exact (hsame m).1
    rw [e]; exact hI.nextD
  · intro p hp
    obtain ⟨n, hn, _⟩ := (hcur p).mp hp
    rw [hlen]; exact Cover.lt_of_getElem?_some hn
  · intro q _ n hn
    obtain ⟨m, hm, rfl⟩ := hget q n hn
    rw [(hsame m).2]
    exact (hI.baseN m (List.mem_of_getElem? hm)).2
  · intro q hq n hn
    obtain ⟨m, hm, rfl⟩ := hget q n hn
    rcases hg m with ⟨hk, _⟩ | ⟨_, t, _, _, h⟩
    · exact absurd ((hcur q).mpr ⟨m, hm, hk⟩) hq
    · rw [h]

/-- a layer that is not the first one went through `_filter_with_cache` -/
theorem fc_filt (cfg : Cfg S K) (cache : Cache S) (dd : DD S K) (hI : KInv cfg cache dd) (hne : dd.layers ≠ []) :
    ∀ n ∈ (fcOf cfg dd).1, Filt cfg cache n := by
  have hemp : dd.layers.isEmpty = false := by
    cases h : dd.layers with
    | nil => exact absurd h hne
    | cons _ _ => rfl
  unfold fcOf
  rw [hemp]
  simp only [Bool.false_eq_true, if_false]
  rw [(filterCache_spec cfg dd.cache dd.next).1, hI.cacheEq]
  intro n hn
  obtain ⟨m, _, rfl⟩ := List.mem_map.mp hn
  exact fcNode_filt cfg cache m

/-! ## the expansion -/

theorem expand_kinv (cfg : Cfg S K) (cache : Cache S) (dd dd' : DD S K) (var : Nat) (layer' : List (Node S))
    (cur' : List Nat) (lg : List (Call S)) (hI : KInv cfg cache dd) (hD : DistL layer')
    (hF : dd.layers ≠ [] → ∀ n ∈ layer', Filt cfg cache n)
    (hl : dd'.layers = dd.layers ++ [(expandAll cfg var dd.layers.length layer' cur' lg).1])
    (hn : dd'.next = (expandAll cfg var dd.layers.length layer' cur' lg).2.1)
    (hc : dd'.cache = dd.cache) : KInv cfg cache dd' := by
  unfold expandAll at hl hn
  have hrub : RubEq (cur'.foldl (expandOne cfg var dd.layers.length) (layer', [], lg)).1 layer' :=
    fold_rubEq cfg var dd.layers.length cur' (layer', [], lg)
  refine ⟨by rw [hc]; exact hI.cacheEq, ?_, ?_, ?_, ?_⟩
  · rw [hn]
    exact fold_nodup cfg var dd.layers.length cur' (layer', [], lg) List.nodup_nil
  · rw [hn]
    refine fold_childrenP (fun m => m.cache = false ∧ m.deleted = false) (fun _ => True)
      cfg var dd.layers.length cur' (layer', [], lg) (fun _ _ h => h) ?_ ?_ (fun _ _ => True.intro)
      (fun m hm => absurd hm List.not_mem_nil)
    · intro q par d n _ ⟨q1, q2⟩
      obtain ⟨_, _, _, _, f5, f6, _⟩ := appendEdge_flds par n (Cover.arcOf cfg var dd.layers.length q par d)
      exact ⟨f5 ▸ q1, f6 ▸ q2⟩
    · intro q par d _
      obtain ⟨_, _, _, _, f5, f6, _⟩ := appendEdge_flds par (Cover.freshNode par (cfg.P.trans par.state ⟨var, d⟩)
        (cfg.P.cost par.state (cfg.P.trans par.state ⟨var, d⟩) ⟨var, d⟩)) (Cover.arcOf cfg var dd.layers.length q par d)
      exact ⟨by rw [f5]; rfl, by rw [f6]; rfl⟩
  · intro i ly hi
    rw [hl] at hi
    rcases getElem?_append_singleton_cases hi with hi | ⟨_, rfl⟩
    · exact hI.distL i ly hi
    · exact DistL.of_rubEq hrub hD
  · intro i ly h1i hi
    rw [hl] at hi
    rcases getElem?_append_singleton_cases hi with hi | ⟨hil, rfl⟩
    · exact hI.filtL i ly h1i hi
    · have hne : dd.layers ≠ [] := by
        intro h; rw [h] at hil; simp only [List.length_nil] at hil; omega
      intro n hnm
      obtain ⟨q, hq⟩ := List.mem_iff_getElem?.mp hnm
      obtain ⟨n0, h0, hs⟩ := hrub.get hq
      exact (hF hne n0 (List.mem_of_getElem? h0)).of_strip hs

/-! ## `stepLayer`, `buildLoop` -/

/-- one layer step of a relaxed compilation (cache or not) on a non-empty layer succeeds and preserves the invariant -/
theorem stepLayer_kinv (cfg : Cfg S K) (cache : Cache S) (hrel : cfg.ctype = .relaxed) (hdom : cfg.dom = none)
    (hW : 1 ≤ cfg.width) (dd : DD S K) (var : Nat) (hne : dd.next ≠ []) (hI : KInv cfg cache dd) :
    ∃ dd', stepLayer cfg dd var = (some dd', .ok) ∧ KInv cfg cache dd' := by
  have hdesc := fcOf_desc cfg dd
  rw [hI.cacheEq] at hdesc
  obtain ⟨f1, f2, f3, f4, f5⟩ := fc_facts cfg cache dd _ _ hI hdesc
  have hD0 : DistL (fcOf cfg dd).1 := fun p q n m hn hm _ _ _ _ hs => pos_of_nodup (·.state) _ f1 hn hm hs
  have hF0 : dd.layers ≠ [] → ∀ n ∈ (fcOf cfg dd).1, Filt cfg cache n := fc_filt cfg cache dd hI
  rcases squash_cases cfg dd (fcOf cfg dd).1 (fcOf cfg dd).2 hrel hW with ⟨_, hsq⟩ | ⟨c1, c2, hsq⟩
  · obtain ⟨dd', hst, hl, hn, _, hc, _⟩ := stepLayer_okT cfg dd var hne hdom _ hsq
    dsimp only at hl hn
    exact ⟨dd', hst, expand_kinv cfg cache dd dd' var _ _ dd.log hI hD0 hF0 hl hn hc⟩
  · obtain ⟨dd', hst, hl, hn, _, hc, _⟩ := stepLayer_okT cfg dd var hne hdom _ hsq
    dsimp only at hl hn
    refine ⟨dd', hst, expand_kinv cfg cache dd dd' var _ _ _ hI ?_ ?_ hl hn hc⟩
    · exact relaxLayer_dist cfg dd.layers _ _ dd.log hW c1 f3 f2 f4 f5
        (fun p q n m hn hm hs => pos_of_nodup (·.state) _ f1 hn hm hs)
    · intro hne'
      exact relaxLayer_filt cfg cache dd.layers _ _ dd.log (hF0 hne')

/-- the invariant holds on whatever diagram the loop returns (whatever the outcome) -/
theorem buildLoop_kinv (cfg : Cfg S K) (cache : Cache S) (hrel : cfg.ctype = .relaxed) (hdom : cfg.dom = none)
    (hW : 1 ≤ cfg.width) (stopAt : Option Nat) :
    ∀ (fuel : Nat) (dd : DD S K), KInv cfg cache dd → KInv cfg cache (buildLoop cfg stopAt fuel dd).1 := by
  cases stopAt <;> intro fuel <;> induction fuel with
  | zero => intro dd hI; exact hI
  | succ fuel ih =>
    intro dd hI
    unfold buildLoop
    dsimp only
    split
    · exact hI.congr rfl rfl rfl
    · rename_i var hvar
      split
      · exact hI.congr rfl rfl rfl
      · generalize hdd1 : (DD.mk dd.layers dd.next dd.depth dd.lel dd.cache dd.store _ dd.cacheLog _ dd.ndom) = dd1
        have hI1 : KInv cfg cache dd1 := by rw [← hdd1]; exact hI.congr rfl rfl rfl
        by_cases hne : dd1.next = []
        · rw [stepLayer_empty cfg dd1 var hne]
          exact hI1.pushEmpty rfl rfl rfl
        · obtain ⟨dd', hst, hI'⟩ := stepLayer_kinv cfg cache hrel hdom hW dd1 var hne hI1
          rw [hst]
          exact ih dd' hI'

theorem init_kinv (cfg : Cfg S K) (cache : Cache S) (store : DomStore S K) (polls : Nat) :
    KInv cfg cache (initDD cfg cache store polls) := by
  have hnext : (initDD cfg cache store polls).next =
      [{ state := cfg.root.state, value := cfg.root.value, depth := cfg.root.depth }] := rfl
  have hlay : (initDD cfg cache store polls).layers = [] := rfl
  refine ⟨rfl, ?_, ?_, ?_, ?_⟩
  · rw [hnext]
    exact List.nodup_cons.mpr ⟨List.not_mem_nil, List.nodup_nil⟩
  · intro n hn
    rw [hnext, List.mem_singleton] at hn
    subst hn
    exact ⟨rfl, rfl⟩
  · intro i ly hi; rw [hlay] at hi; simp at hi
  · intro i ly _ hi; rw [hlay] at hi; simp at hi

/-! ## reading on the built diagram -/

theorem fin_view (fin : DD S K) :
    (finalizeLayers fin).layers = fin.layers ++ [fin.next] ∨ ((finalizeLayers fin).layers = fin.layers ∧ fin.next = []) := by
  by_cases hne : fin.next = []
  · right
    refine ⟨?_, hne⟩
    unfold finalizeLayers; simp only [hne, List.isEmpty_nil, if_true]
  · exact .inl (finalizeLayers_nonempty fin hne).1

/-- **(B1)** in every layer of the built diagram, the nodes that are neither deleted nor pruned by the cache have pairwise
    distinct states -/
theorem built_distinct (cfg : Cfg S K) (cache : Cache S) (store : DomStore S K) (polls : Nat) (stopAt : Option Nat)
    (hrel : cfg.ctype = .relaxed) (hdom : cfg.dom = none) (hW : 1 ≤ cfg.width)
    (hok : (buildLoop cfg stopAt (cfg.P.nbVars + 2) (initDD cfg cache store polls)).2 = .ok) :
    ∀ (l p q : Nat) (n m : Node S),
      getNode (finalizeLayers (buildLoop cfg stopAt (cfg.P.nbVars + 2) (initDD cfg cache store polls)).1).layers l p = some n →
      getNode (finalizeLayers (buildLoop cfg stopAt (cfg.P.nbVars + 2) (initDD cfg cache store polls)).1).layers l q = some m →
      n.cache = false → n.deleted = false → m.cache = false → m.deleted = false → n.state = m.state → p = q := by
  have hK := buildLoop_kinv cfg cache hrel hdom hW stopAt (cfg.P.nbVars + 2) (initDD cfg cache store polls)
    (init_kinv cfg cache store polls)
  generalize (buildLoop cfg stopAt (cfg.P.nbVars + 2) (initDD cfg cache store polls)).1 = fin at hK ⊢
  intro l p q n m hn hm hnc hnd hmc hmd hs
  have hv := fin_view fin
  rcases view_at hv l p n hn with ⟨ly, hly, hp⟩ | ⟨hl1, hp⟩ <;>
    rcases view_at hv l q m hm with ⟨ly', hly', hq⟩ | ⟨hl2, hq⟩
  · rw [hly] at hly'; cases hly'
    exact hK.distL l ly hly p q n m hp hq hnc hnd hmc hmd hs
  · have := Cover.lt_of_getElem?_some hly; omega
  · have := Cover.lt_of_getElem?_some hly'; omega
  · exact pos_of_nodup (·.state) _ hK.nextD hp hq hs

/-- **(B2)** a node of a layer `1 ≤ l` of the built diagram other than the last one, neither pruned by the cache nor
    flagged relaxed (nor deleted), has a value strictly above the threshold the cache holds for it, if any -/
theorem built_filtered (cfg : Cfg S K) (cache : Cache S) (store : DomStore S K) (polls : Nat) (stopAt : Option Nat)
    (hrel : cfg.ctype = .relaxed) (hdom : cfg.dom = none) (hW : 1 ≤ cfg.width)
    (hok : (buildLoop cfg stopAt (cfg.P.nbVars + 2) (initDD cfg cache store polls)).2 = .ok) :
    ∀ (l p : Nat) (n : Node S) (t : Thr), 1 ≤ l →
      l + 1 < (finalizeLayers (buildLoop cfg stopAt (cfg.P.nbVars + 2) (initDD cfg cache store polls)).1).layers.length →
      getNode (finalizeLayers (buildLoop cfg stopAt (cfg.P.nbVars + 2) (initDD cfg cache store polls)).1).layers l p = some n →
      n.cache = false → n.deleted = false → n.fRelaxed = false → Ddo.Theta.lookup cfg cache n = some t → n.value > t.value := by
  have hK := buildLoop_kinv cfg cache hrel hdom hW stopAt (cfg.P.nbVars + 2) (initDD cfg cache store polls)
    (init_kinv cfg cache store polls)
  generalize (buildLoop cfg stopAt (cfg.P.nbVars + 2) (initDD cfg cache store polls)).1 = fin at hK ⊢
  intro l p n t h1 hlen hn hc _ hr ht
  have hv := fin_view fin
  have hle : (finalizeLayers fin).layers.length ≤ fin.layers.length + 1 := by
    rcases hv with h | ⟨h, _⟩
    · rw [h, List.length_append, List.length_singleton]; exact Nat.le_refl _
    · rw [h]; omega
  rcases view_at hv l p n hn with ⟨ly, hly, hp⟩ | ⟨hl1, _⟩
  · exact hK.filtL l ly h1 hly n (List.mem_of_getElem? hp) hc hr t ht
  · omega

end Ddo.CacheClosedB

#print axioms Ddo.CacheClosedB.built_distinct
#print axioms Ddo.CacheClosedB.built_filtered
