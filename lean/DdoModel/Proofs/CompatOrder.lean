import DdoModel.Proofs.CompatSound
/-! C10d — **the order-theoretic half of the joint invariant** for the solver with cache **and** dominance checker, under
`SimAll` + static order + `MergeCompat` (`Props/C10c.lean`), and the reduction of the joint statement to ONE named obligation.

`Good D P opt k s v` (`Proofs/DomSim.lean`) is the protected family of a simulation-admissible rule: exactly reached, undominated,
on an undominated optimal path.  Relaxed nodes are not exactly reached; what a relaxed node *is*, under `MergeCompat`, is
**`GAbove`**: an item `(s, v)` — any state, reached or not — that is at least as good, in the rule's order, as a `Good` item of
its depth.  This file proves that `GAbove`

* is upward closed (`GAbove.up`), contains `Good` (`GAbove.of_good`), and on exactly reached items **is** `Good` (`GAbove.good`);
* is never dominated by an exactly reached item (`GAbove.undom`) — so the checker never drops it, and **the threshold of a
  `dominated` verdict never applies to it** (`GAbove.not_below_threshold`: mechanism 1 of `Props/C10c.lean` — a dominance-derived
  threshold applied to a relaxed node — cannot hit the image of a protected item);
* is closed under the simulating decision (`GAbove.step`), under `merge` and under arc relaxation (`GAbove.merge`,
  `GAbove.relaxed_arc`): **the relaxed image of a protected path is a `GAbove` path** (what `Twin.not_mergeCompat` breaks:
  mechanism 3, the cache deferring the image of `E` to a node that `E` dominates, needs an image the rule ranks below `E`);
* at the terminal depth has a value `≥ opt` (`GAbove.term`);
* has a potential `≥ opt` and is therefore never cut by the rough upper bound while the incumbent is below the optimum —
  **provided the potential is monotone in the rule's order on all states** (`PotMono`, `GAbove.pot`, `GAbove.rub`).  This
  hypothesis is not in `Ddo.C10c.CachingDominanceCompat`, and it is **necessary**: `Ddo.C10d.Shadow` (`Props/C10d.lean`).

Then the joint invariant `CompatInv` is stated (an open node on the protected family that `must_explore` accepts and whose
bound is at least the optimum — `Solid` — exists unless the incumbent is optimal; every cache entry that applies to a `GAbove`
item is backed by a `Solid` node that is at least as deep; the checker holds exactly reached items), it is proved to hold
initially (`init_compatInv`) and to give the optimum at the empty fringe, and with `Ddo.C10c.jointSound` the joint statement
is reduced to its preservation by one turn: `jointCorrect_of_turn` — the named missing obligation is `CompatTurn`. -/
set_option linter.unusedSectionVars false
set_option linter.unusedVariables false
namespace Ddo.C10d
open Ddo Ddo.C01 Ddo.Closed Ddo.C09 Ddo.C10 Ddo.C10c

section order
variable {S K : Type}

/-- the potential is monotone in the rule's order **on all states** (exactly reached or not): an item at least as good has at least
    the potential.  True of a value-to-go defined on every state when the rule satisfies `SimAll`; it makes the rough upper bound
    (`RubOk`) valid for the relaxed images of protected items. -/
def PotMono (D : DomRule S K) (n : Nat) (H : Nat → S → EInt) : Prop :=
  ∀ k a va b vb, GeItem D n a va b vb → (H k b).addI vb ≤ (H k a).addI va

/-- `(s, v)` — any state — is at least as good as a `Good` item of depth `k` -/
def GAbove (D : DomRule S K) (P : Problem S) (n : Nat) (opt : Int) (k : Nat) (s : S) (v : Int) : Prop :=
  ∃ g vg, C10.Good D P opt k g vg ∧ GeItem D n s v g vg

theorem geItem_mono_left {D : DomRule S K} {n : Nat} {a b : S} {va va' vb : Int} (h : GeItem D n a va b vb) (hv : va ≤ va') :
    GeItem D n a va' b vb := by
  rcases h with ⟨rfl, h⟩ | ⟨hk, hge⟩
  · exact Or.inl ⟨rfl, by omega⟩
  · refine Or.inr ⟨hk, ?_⟩
    simp only [geEnt, DomRule.ent, Bool.and_eq_true, Bool.or_eq_true, Bool.not_eq_true'] at hge ⊢
    obtain ⟨h1, h2⟩ := hge
    refine ⟨h1, ?_⟩
    rcases h2 with h | h
    · exact Or.inl h
    · right
      have h' : vb ≤ va := of_decide_eq_true h
      exact decide_eq_true (by omega)

variable {D : DomRule S K} {P : Problem S} {H : Nat → S → EInt} {n : Nat} {opt : Int}

theorem GAbove.of_good {k : Nat} {s : S} {v : Int} (h : C10.Good D P opt k s v) : GAbove D P n opt k s v :=
  ⟨s, v, h, GeItem.refl D n s v⟩

theorem GAbove.up {k : Nat} {a b : S} {va vb : Int} (h : GAbove D P n opt k b vb) (hg : GeItem D n a va b vb) :
    GAbove D P n opt k a va := by
  obtain ⟨g, vg, hgood, hge⟩ := h
  exact ⟨g, vg, hgood, GeItem.trans hg hge⟩

/-- **never dominated by an exactly reached item** -/
theorem GAbove.undom (hdim : ∀ s, D.dims s = n) {k : Nat} {s : S} {v : Int} (h : GAbove D P n opt k s v) : Undom D P k s v := by
  obtain ⟨g, vg, hgood, hge⟩ := h
  exact hgood.undom.up hdim hge

/-- **an exactly reached `GAbove` item is `Good`** -/
theorem GAbove.good (hdim : ∀ s, D.dims s = n) (hP : Potential P H) (hstat : StaticOrder P) (hsim : SimAll D P n)
    (hopt : (H 0 P.init).addI P.initVal = some opt) {k : Nat} {s : S} {v : Int} {p : List Dec} (hr : Reach P k s v p)
    (h : GAbove D P n opt k s v) : C10.Good D P opt k s v := by
  obtain ⟨g, vg, hgood, hge⟩ := h
  exact good_up hdim hP hstat hsim.sim hopt hgood s v p hr hge

/-- **closed under the simulating decision** -/
theorem GAbove.step (hstat : StaticOrder P) (hsim : SimAll D P n) {k : Nat} {s : S} {v : Int} {x : Nat}
    (h : GAbove D P n opt k s v) (hnv : nvar P k = some x) :
    ∃ d ∈ P.domain x s, GAbove D P n opt (k + 1) (P.trans s ⟨x, d⟩) (v + P.cost s (P.trans s ⟨x, d⟩) ⟨x, d⟩) := by
  obtain ⟨g, vg, hgood, hge⟩ := h
  cases hgood with
  | term _ _ _ p hr hnv' _ _ => rw [hnv'] at hnv; cases hnv
  | step _ _ _ p x' dg hr hnv' hdg _ hgc =>
    rw [hnv'] at hnv
    cases hnv
    obtain ⟨da, hda, hgc'⟩ :=
      hsim.step k s v g vg [g] x hge (by rw [nv_one hstat]; exact hnv') List.mem_cons_self dg hdg
    exact ⟨da, hda, _, _, hgc, hgc'⟩

/-- at the terminal depth the value is at least the optimum -/
theorem GAbove.term (hsim : SimAll D P n) {k : Nat} {s : S} {v : Int} (h : GAbove D P n opt k s v) (hnv : nvar P k = none) :
    opt ≤ v := by
  obtain ⟨g, vg, hgood, hge⟩ := h
  have hv := hsim.value s v g vg hge
  cases hgood with
  | term _ _ _ p hr _ hvo _ => omega
  | step _ _ _ p x' dg hr hnv' _ _ _ => rw [hnv'] at hnv; cases hnv

/-- **closed under `merge`** (rule-maximal merge operator), with any value at least as large -/
theorem GAbove.merge {R : Relax S} (hmc : MergeCompat D R n) {k : Nat} {X : List S} {u : S} {v v' : Int} (hu : u ∈ X)
    (h : GAbove D P n opt k u v) (hv : v ≤ v') : GAbove D P n opt k (R.merge X) v' :=
  h.up (geItem_mono_left (hmc.merge X u v hu) hv)

/-- **the relaxed image of a protected arc**: from a `GAbove` item some decision of its domain leads, whatever set `X` its child is
    merged into, whatever (larger) value the parent node carries, through the relaxed arc to a `GAbove` item -/
theorem GAbove.relaxed_arc {R : Relax S} (hmc : MergeCompat D R n) (hstat : StaticOrder P) (hsim : SimAll D P n) {k : Nat} {s : S}
    {v : Int} {x : Nat} (h : GAbove D P n opt k s v) (hnv : nvar P k = some x) :
    ∃ d ∈ P.domain x s,
      GAbove D P n opt (k + 1) (P.trans s ⟨x, d⟩) (v + P.cost s (P.trans s ⟨x, d⟩) ⟨x, d⟩) ∧
      ∀ X, P.trans s ⟨x, d⟩ ∈ X → ∀ w, v ≤ w →
        GAbove D P n opt (k + 1) (R.merge X)
          (w + R.relax s (P.trans s ⟨x, d⟩) (R.merge X) ⟨x, d⟩ (P.cost s (P.trans s ⟨x, d⟩) ⟨x, d⟩)) := by
  obtain ⟨d, hd, hc⟩ := h.step hstat hsim hnv
  refine ⟨d, hd, hc, fun X hX w hw => hc.merge hmc hX ?_⟩
  have := hmc.relax s (P.trans s ⟨x, d⟩) (R.merge X) ⟨x, d⟩ (P.cost s (P.trans s ⟨x, d⟩) ⟨x, d⟩)
  omega

/-- with a potential that is monotone in the rule's order, a `GAbove` item has a potential at least the optimum … -/
theorem GAbove.pot (hP : Potential P H) (hstat : StaticOrder P) (hopt : (H 0 P.init).addI P.initVal = some opt)
    (hmono : PotMono D n H) {k : Nat} {s : S} {v : Int} (h : GAbove D P n opt k s v) : (some opt : EInt) ≤ (H k s).addI v := by
  obtain ⟨g, vg, hgood, hge⟩ := h
  have := hmono k s v g vg hge
  rw [hgood.opt hP hstat hopt] at this
  exact this

/-- … hence is **never cut by the rough upper bound** while the incumbent is below the optimum -/
theorem GAbove.rub {R : Relax S} (hP : Potential P H) (hstat : StaticOrder P) (hopt : (H 0 P.init).addI P.initVal = some opt)
    (hmono : PotMono D n H) (hrub : RubOk R H) {k : Nat} {s : S} {v : Int} (h : GAbove D P n opt k s v) : opt ≤ v + R.rub s := by
  have hp := h.pot hP hstat hopt hmono
  cases hH : H k s with
  | none => rw [hH] at hp; exact absurd hp (by simp [EInt.addI])
  | some h0 =>
    rw [hH] at hp
    simp only [EInt.addI, Option.map_some, EInt.some_le_some] at hp
    have := hrub k s h0 hH
    omega

/-- **the threshold of a `dominated` verdict never applies to a `GAbove` item**: if the bucket holds exactly reached items of the
    key of `s` and reports `(s, v)` dominated, the threshold `t` it returns is `≥ v` and no `(s, v')` with `v' ≤ t` is `GAbove` -/
theorem GAbove.not_below_threshold (hdim : ∀ s, D.dims s = n) {d : Nat} {kk : K} (b : Bucket S) (s : S) (v : Int) (hv : InI v)
    (hvals : ∀ o ∈ b, InI o.2) (hb : ∀ o ∈ b, D.key o.1 = some kk ∧ ∃ p, Reach P d o.1 o.2 p) (hks : D.key s = some kk)
    (hd : (D.bucketQuery s v b).2.1 = true) :
    ∃ t, (D.bucketQuery s v b).2.2 = some t ∧ v ≤ t ∧ ∀ v', v' ≤ t → ¬ GAbove D P n opt d s v' := by
  obtain ⟨t, ht, hvt, hall⟩ := threshold_sound D b s v hv hvals hd
  refine ⟨t, ht, hvt, fun v' hv' hga => ?_⟩
  have h1 := hall v' hv'
  rw [D.bucketQuery_dom, (D.retain_char s v' b).1] at h1
  obtain ⟨o, ho, hoq⟩ := List.any_eq_true.mp h1
  obtain ⟨hko, p, hr⟩ := hb o ho
  exact hga.undom hdim o.1 o.2 p hr ⟨⟨kk, hko, hks⟩, hoq⟩

end order

/-! ## the joint invariant, and the reduction of the joint statement to its preservation by one turn -/

section solver
variable {S K : Type} [DecidableEq S] [DecidableEq K]

/-- a **solid** open sub-problem: on the protected family, accepted by `must_explore`, with a bound at least the optimum -/
def Solid (dv : DSolverCfg S K) (opt : Int) (s : KDSt S K) (q : SubP S) : Prop :=
  q ∈ s.st.fringe ∧ C10.Good dv.D dv.sv.P opt q.depth q.state q.value ∧ opt ≤ q.ub ∧ ¬ prunM (viewOf s.cache) q

/-- **the joint invariant** -/
structure CompatInv (dv : DSolverCfg S K) (n : Nat) (opt : Int) (s : KDSt S K) : Prop where
  /-- the incumbent is optimal, or a solid open sub-problem exists -/
  main : opt ≤ s.st.bestLb ∨ ∃ q, Solid dv opt s q
  /-- every threshold that applies to (the image of) a protected item is backed by a solid open sub-problem at least as deep -/
  entries : ∀ (x : S) (d : Nat) (t : Thr), viewOf s.cache x d = some t → ∀ v', v' ≤ t.value →
    GAbove dv.D dv.sv.P n opt d x v' → opt ≤ s.st.bestLb ∨ ∃ q, Solid dv opt s q ∧ d ≤ q.depth
  /-- the checker holds exactly reached items -/
  store : StoreReach dv.D dv.sv.P s.store

/-- **the named missing obligation**: one best-first turn of the solver with cache and checker preserves the joint invariant —
    for `SimAll` rules, a static order, a rule-maximal merge and a potential that is monotone in the rule's order.  Not proved
    (argument: header of `Props/C10d.lean`); no counter-example in the search of `Proofs/CompatSearch.lean`. -/
def CompatTurn : Prop :=
  ∀ (S K : Type) [DecidableEq S] [DecidableEq K] (dv : DSolverCfg S K) (H : Nat → S → EInt) (B0 B opt : Int) (n : Nat),
    WellFormed dv.sv H B0 B → (H 0 dv.sv.P.init).addI dv.sv.P.initVal = some opt → (∀ s, dv.D.dims s = n) →
    StaticOrder dv.sv.P → SimAll dv.D dv.sv.P n → MergeCompat dv.D dv.sv.R n → PotMono dv.D n H →
    ∀ s t, KDRun dv (KDSt.init dv) s → CompatInv dv n opt s → KDStep dv s t → CompatInv dv n opt t

/-- **the repaired open statement**: `Ddo.C10c.CachingDominanceCompat` with the potential monotone in the rule's order (which makes
    the rough upper bound valid for the relaxed images of protected items) -/
def CachingDominanceCompatMono : Prop :=
  ∀ (S K : Type) [DecidableEq S] [DecidableEq K] (dv : DSolverCfg S K) (H : Nat → S → EInt) (B0 B opt : Int) (n : Nat),
    WellFormed dv.sv H B0 B → (H 0 dv.sv.P.init).addI dv.sv.P.initVal = some opt → (∀ s, dv.D.dims s = n) →
    StaticOrder dv.sv.P → SimAll dv.D dv.sv.P n → MergeCompat dv.D dv.sv.R n → PotMono dv.D n H → JointCorrect dv opt

variable {dv : DSolverCfg S K} {H : Nat → S → EInt} {B0 B opt : Int} {n : Nat}

/-- the root is `Good` -/
theorem good_root (hwf : WellFormed dv.sv H B0 B) (hopt : (H 0 dv.sv.P.init).addI dv.sv.P.initVal = some opt)
    (hdim : ∀ s, dv.D.dims s = n) (hstat : StaticOrder dv.sv.P) (hsim : SimAll dv.D dv.sv.P n) :
    C10.Good dv.D dv.sv.P opt 0 dv.sv.P.init dv.sv.P.initVal := by
  obtain ⟨s0, v0, hg0⟩ := exists_good hdim hwf.pot hwf.nv hstat hsim.sim hopt dv.sv.P.nbVars 0 dv.sv.P.init dv.sv.P.initVal []
    (by omega) Reach.root hopt
  obtain ⟨p0, hr0⟩ := hg0.reach
  obtain ⟨rfl, rfl⟩ := reach_zero hr0
  exact hg0

/-- **the joint invariant holds initially**: the root is solid, the cache is empty, the checker is empty -/
theorem init_compatInv (hwf : WellFormed dv.sv H B0 B) (hopt : (H 0 dv.sv.P.init).addI dv.sv.P.initVal = some opt)
    (hdim : ∀ s, dv.D.dims s = n) (hstat : StaticOrder dv.sv.P) (hsim : SimAll dv.D dv.sv.P n) :
    CompatInv dv n opt (KDSt.init dv) := by
  have hfr : (SeqSt.init dv.sv.P none dv.sv.dedup).fringe = [⟨dv.sv.P.init, dv.sv.P.initVal, [], iMax, 0⟩] := by
    cases hd : dv.sv.dedup <;> rfl
  have hview : viewOf (KDSt.init dv).cache = fun _ _ => none := C09.viewOf_init dv.sv.P.nbVars
  refine ⟨Or.inr ⟨⟨dv.sv.P.init, dv.sv.P.initVal, [], iMax, 0⟩, ?_, good_root hwf hopt hdim hstat hsim, ?_, ?_⟩, ?_, ?_⟩
  · show _ ∈ (SeqSt.init dv.sv.P none dv.sv.dedup).fringe
    rw [hfr]; exact List.mem_cons_self
  · have hb := opt_bound hwf.pot hwf.nv hwf.bound hopt
    have hBs := hwf.bound.B_small
    show opt ≤ iMax
    simp only [iMax]; omega
  · rintro ⟨t, ht, _⟩
    rw [hview] at ht
    cases ht
  · intro x d t ht
    rw [hview] at ht
    cases ht
  · exact storeReach_init dv.D dv.sv.P dv.sv.P.nbVars

/-- **at the empty fringe the joint invariant gives the optimum** -/
theorem compatInv_end {s : KDSt S K} (hI : CompatInv dv n opt s) (hend : s.st.fringe = []) : opt ≤ s.st.bestLb := by
  rcases hI.main with h | ⟨q, hq, _⟩
  · exact h
  · rw [hend] at hq; cases hq

/-- **the reduction**: if one turn preserves the joint invariant (`CompatTurn`), the solver with cache and checker is correct for
    `SimAll` rules with a static order, a rule-maximal merge and a potential monotone in the rule's order.  Termination, progress,
    absence of panics and the soundness of the reported value come from `Ddo.C10c.jointSound` (any rule). -/
theorem jointCorrect_of_turn (hturn : CompatTurn) : CachingDominanceCompatMono := by
  intro S K _ _ dv H B0 B opt n hwf hopt hdim hstat hsim hmc hmono
  have hwfd : WellFounded (fun t s : KDSt S K => KDRun dv (KDSt.init dv) s ∧ KDStep dv s t) :=
    (jointSound S K dv H B0 B hwf).1
  have hinv : ∀ t, KDRun dv (KDSt.init dv) t → CompatInv dv n opt t := by
    intro t ht
    induction ht with
    | refl => exact init_compatInv hwf hopt hdim hstat hsim
    | tail hrun hstep ih => exact hturn S K dv H B0 B opt n hwf hopt hdim hstat hsim hmc hmono _ _ hrun ih hstep
  refine ⟨hwfd, ?_, fun t ht => ?_⟩
  · intro run h0 hrun
    have hreach : ∀ m, KDRun dv (KDSt.init dv) (run m) := by
      intro m
      induction m with
      | zero => rw [h0]; exact KDRun.refl _
      | succ m ih => exact KDRun.tail ih (hrun m)
    exact no_infinite_chain hwfd run (fun m => ⟨hreach m, hrun m⟩)
  · have hJ := kdrun_inv hwf ht (init_jsinv hwf)
    refine ⟨fun hne => kdstep_progress hwf hJ hne, hJ.lay.2, fun hend => ?_⟩
    have hge := compatInv_end (hinv t ht) hend
    obtain ⟨hle, hsol⟩ := hJ.snd opt hopt
    have heq : t.st.bestLb = opt := by omega
    have hb := opt_bound hwf.pot hwf.nv hwf.bound hopt
    have hBs := hwf.bound.B_small
    cases hs : t.st.bestSol with
    | none =>
      have := hJ.solLb hs
      simp only [iMin] at this
      omega
    | some p =>
      refine ⟨heq, ⟨p, rfl, heq ▸ hsol p hs⟩, ?_⟩
      unfold SeqSt.completion
      rw [hJ.noAbort, hs, heq]; rfl

end solver

end Ddo.C10d

#print axioms Ddo.C10d.GAbove.good
#print axioms Ddo.C10d.GAbove.step
#print axioms Ddo.C10d.GAbove.relaxed_arc
#print axioms Ddo.C10d.GAbove.rub
#print axioms Ddo.C10d.GAbove.not_below_threshold
#print axioms Ddo.C10d.init_compatInv
#print axioms Ddo.C10d.jointCorrect_of_turn
