import DdoModel.Proofs.Theta
/-! Two structural facts about the diagram built by a RELAXED compilation without dominance rule, with or without cache
    (any content of the cache, any `stopAt`, whatever the outcome of the loop):

* `built_unmarked`: no node of the built diagram is `marked` (the top-down build never touches the flag);
* `built_arcs_live`: every inbound arc of a node of the built diagram comes from a node that was handed to the expansion,
  hence neither pruned by the cache (`cache = false`) nor deleted (`deleted = false`).

`KInvA` is the invariant of the compilation loop behind both facts. -/
set_option linter.unusedSectionVars false
set_option linter.unusedVariables false
namespace Ddo.CacheClosed
open Ddo Ddo.Bounds Ddo.Theta
variable {S K : Type} [DecidableEq S] [DecidableEq K]

/-! ## the node predicate -/

/-- the source of the arc `a` exists in `L` and is neither pruned by the cache nor deleted -/
def SrcLive (L : List (List (Node S))) (a : Arc) : Prop :=
  ∃ par, getNode L a.fromL a.fromP = some par ∧ par.cache = false ∧ par.deleted = false

/-- the node is not marked and all its inbound arcs come from live nodes of `L` -/
def Good (L : List (List (Node S))) (n : Node S) : Prop :=
  n.marked = false ∧ ∀ a ∈ n.inb, SrcLive L a

theorem SrcLive.mono {L : List (List (Node S))} (more : List (List (Node S))) {a : Arc} (h : SrcLive L a) :
    SrcLive (L ++ more) a := by
  obtain ⟨par, hp, hc, hd⟩ := h
  exact ⟨par, getNode_append_left _ _ _ _ _ hp, hc, hd⟩

theorem Good.mono {L : List (List (Node S))} (more : List (List (Node S))) {n : Node S} (h : Good L n) :
    Good (L ++ more) n :=
  ⟨h.1, fun a ha => (h.2 a ha).mono more⟩

theorem appendEdge_marked (p c : Node S) (a : Arc) : (appendEdge p c a).marked = c.marked := by
  unfold appendEdge; dsimp only; split <;> rfl

theorem Good.appendEdge {L : List (List (Node S))} {m : Node S} (src : Node S) {a : Arc} (hm : Good L m)
    (ha : SrcLive L a) : Good L (appendEdge src m a) := by
  refine ⟨by rw [appendEdge_marked]; exact hm.1, fun b hb => ?_⟩
  rw [Cover.appendEdge_inb] at hb
  rcases List.mem_cons.mp hb with rfl | hb
  · exact ha
  · exact hm.2 b hb

theorem Good.of_strip {L : List (List (Node S))} {a b : Node S} (h : stripRub a = stripRub b) (ha : Good L a) :
    Good L b := by
  have h1 := congrArg Node.marked h
  have h2 := congrArg Node.inb h
  simp only [stripRub] at h1 h2
  exact ⟨h1 ▸ ha.1, h2 ▸ ha.2⟩

/-! ## the invariant -/

/-- invariant of the compilation loop -/
structure KInvA (dd : DD S K) : Prop where
  goodN : ∀ n ∈ dd.next, Good dd.layers n
  goodL : ∀ ly ∈ dd.layers, ∀ n ∈ ly, Good dd.layers n
  cleanN : ∀ n ∈ dd.next, n.cache = false ∧ n.deleted = false

theorem KInvA.congr {dd dd' : DD S K} (h : KInvA dd) (h1 : dd'.layers = dd.layers) (h2 : dd'.next = dd.next) :
    KInvA dd' := by
  obtain ⟨a1, a2, a3⟩ := h
  exact ⟨by rw [h1, h2]; exact a1, by rw [h1]; exact a2, by rw [h2]; exact a3⟩

/-- what the expansion needs from the filtered / squashed layer: every node is good, the positions handed to the expansion
    hold nodes that are neither pruned nor deleted -/
structure PostK (L : List (List (Node S))) (layer : List (Node S)) (cur : List Nat) : Prop where
  good : ∀ n ∈ layer, Good L n
  live : ∀ q ∈ cur, ∃ n, layer[q]? = some n ∧ n.cache = false ∧ n.deleted = false

/-! ## `_filter_with_cache` -/

theorem postK_fc (cfg : Cfg S K) (cache : Cache S) (dd : DD S K) (hI : KInvA dd) (layer : List (Node S)) (cur : List Nat)
    (hfc : FcDesc cfg cache dd layer cur) : PostK dd.layers layer cur ∧ cur.Nodup := by
  obtain ⟨g, keep, hlay, hcur, hnd, hg, _⟩ := hfc
  refine ⟨⟨?_, ?_⟩, hnd⟩
  · intro n hn
    rw [hlay] at hn
    obtain ⟨m, hm, rfl⟩ := List.mem_map.mp hn
    rcases hg m with ⟨_, h⟩ | ⟨_, t, _, _, h⟩
    · rw [h]; exact hI.goodN m hm
    · rw [h]; exact hI.goodN m hm
  · intro q hq
    obtain ⟨m, hm, hk⟩ := (hcur q).mp hq
    rcases hg m with ⟨_, h⟩ | ⟨hk', _⟩
    · refine ⟨m, ?_, hI.cleanN m (List.mem_of_getElem? hm)⟩
      rw [hlay, List.getElem?_map, hm, Option.map_some, h]
    · rw [hk] at hk'; cases hk'

/-! ## `_relax` -/

theorem postK_relax (cfg : Cfg S K) (L : List (List (Node S))) (layer : List (Node S)) (cur : List Nat)
    (lg : List (Call S)) (hW : 1 ≤ cfg.width) (hlen : cur.length > cfg.width) (hnd : cur.Nodup)
    (hp : PostK L layer cur) :
    PostK L (relaxLayer cfg L layer cur lg).1 (relaxLayer cfg L layer cur lg).2.1 := by
  have hcur : ∀ p ∈ cur, p < layer.length := fun p hpc => by
    obtain ⟨n, hn, _⟩ := hp.live p hpc
    exact Cover.lt_of_getElem?_some hn
  have hdel : ∀ q ∈ cur, ∀ n, layer[q]? = some n → n.deleted = false := fun q hq n hn => by
    obtain ⟨n', hn', _, hd⟩ := hp.live q hq
    rw [hn] at hn'; cases hn'; exact hd
  obtain ⟨_, p2, _⟩ := relaxLayer_pos cfg L layer cur lg hW hlen hcur hnd hdel
  have hsub := (relaxLayer_map Node.cache (fun src m a => (appendEdge_flds src m a).2.2.2.2.1) (fun _ => rfl) (fun _ _ => rfl)
    cfg L layer cur lg).2
  have hfld := relaxLayer_fld Node.cache (fun src m a => (appendEdge_flds src m a).2.2.2.2.1) (fun _ => rfl) (fun _ _ => rfl)
    cfg L layer cur lg
  refine ⟨?_, ?_⟩
  · refine relaxLayer_forallD (Good L) cfg L layer cur lg ?_ ?_ ?_ ?_ hp.good
    · exact ⟨rfl, fun a ha => absurd ha List.not_mem_nil⟩
    · intro n hn; exact hn
    · intro n b hn; exact hn
    · intro dropN hd e he src m hm
      exact hm.appendEdge src (hd.2 e he)
  · intro q hq
    obtain ⟨n', hn', hd'⟩ := p2 q hq
    refine ⟨n', hn', ?_, hd'⟩
    rcases hfld q n' hn' with ⟨n, hn, hc⟩ | ⟨_, hc⟩
    · have hlt := Cover.lt_of_getElem?_some hn
      rcases hsub q hq with hqc | hqc
      · obtain ⟨n0, hn0, hc0, _⟩ := hp.live q hqc
        rw [hn] at hn0; cases hn0
        rw [hc]; exact hc0
      · omega
    · rw [hc]; rfl

/-! ## the expansion -/

/-- `fold_childrenP` with the membership of the expanded position in `cur` -/
theorem fold_childrenM (Q : Node S → Prop) (cfg : Cfg S K) (var lidx : Nat) (cur : List Nat)
    (acc : List (Node S) × List (Node S) × List (Call S))
    (hold : ∀ q ∈ cur, ∀ (par : Node S) d n, Q n → Q (appendEdge par n (Cover.arcOf cfg var lidx q par d)))
    (hfresh : ∀ q ∈ cur, ∀ (par : Node S) d, Q (appendEdge par (Cover.freshNode par (cfg.P.trans par.state ⟨var, d⟩)
        (cfg.P.cost par.state (cfg.P.trans par.state ⟨var, d⟩) ⟨var, d⟩)) (Cover.arcOf cfg var lidx q par d)))
    (hall : ∀ m ∈ acc.2.1, Q m) :
    ∀ m ∈ (cur.foldl (expandOne cfg var lidx) acc).2.1, Q m :=
  (Ddo.foldl_inv (fun acc => (∀ n ∈ acc.1, True) ∧ ∀ m ∈ acc.2.1, Q m) _ cur acc ⟨fun _ _ => True.intro, hall⟩
    (fun b q hq hb => expandOne_childrenP Q (fun _ => True) cfg var lidx b q (fun _ _ _ => True.intro)
      (fun par d n _ hn => hold q hq par d n hn) (fun par d _ => hfresh q hq par d) hb)).2

theorem expand_kinv (cfg : Cfg S K) (var : Nat) (L : List (List (Node S))) (layer' : List (Node S)) (cur' : List Nat)
    (lg : List (Call S)) (hp : PostK L layer' cur') (hL : ∀ ly ∈ L, ∀ n ∈ ly, Good L n) :
    (∀ ly ∈ L ++ [(expandAll cfg var L.length layer' cur' lg).1], ∀ n ∈ ly,
      Good (L ++ [(expandAll cfg var L.length layer' cur' lg).1]) n) ∧
    (∀ n ∈ (expandAll cfg var L.length layer' cur' lg).2.1,
      Good (L ++ [(expandAll cfg var L.length layer' cur' lg).1]) n ∧ n.cache = false ∧ n.deleted = false) := by
  unfold expandAll
  generalize hlyF : (cur'.foldl (expandOne cfg var L.length) (layer', [], lg)).1 = lyF
  generalize hnx : (cur'.foldl (expandOne cfg var L.length) (layer', [], lg)).2.1 = nx
  have hrub : RubEq lyF layer' := by rw [← hlyF]; exact fold_rubEq cfg var L.length cur' (layer', [], lg)
  have hkid : ∀ m ∈ nx, m.marked = false ∧ m.cache = false ∧ m.deleted = false ∧
      ∀ a ∈ m.inb, a.fromL = L.length ∧ a.fromP ∈ cur' := by
    rw [← hnx]
    refine fold_childrenM (fun m => m.marked = false ∧ m.cache = false ∧ m.deleted = false ∧
        ∀ a ∈ m.inb, a.fromL = L.length ∧ a.fromP ∈ cur') cfg var L.length cur' (layer', [], lg) ?_ ?_
      (fun m hm => absurd hm List.not_mem_nil)
    · intro q hq par d n ⟨q1, q2, q3, q4⟩
      obtain ⟨_, _, _, _, f5, f6, _⟩ := appendEdge_flds par n (Cover.arcOf cfg var L.length q par d)
      refine ⟨by rw [appendEdge_marked]; exact q1, f5 ▸ q2, f6 ▸ q3, ?_⟩
      intro a ha
      rw [Cover.appendEdge_inb] at ha
      rcases List.mem_cons.mp ha with ha | ha
      · rw [ha]; exact ⟨rfl, hq⟩
      · exact q4 a ha
    · intro q hq par d
      obtain ⟨_, _, _, _, f5, f6, _⟩ := appendEdge_flds par (Cover.freshNode par (cfg.P.trans par.state ⟨var, d⟩)
        (cfg.P.cost par.state (cfg.P.trans par.state ⟨var, d⟩) ⟨var, d⟩)) (Cover.arcOf cfg var L.length q par d)
      refine ⟨by rw [appendEdge_marked]; rfl, by rw [f5]; rfl, by rw [f6]; rfl, ?_⟩
      intro a ha
      rw [Cover.appendEdge_inb] at ha
      rcases List.mem_cons.mp ha with ha | ha
      · rw [ha]; exact ⟨rfl, hq⟩
      · simp only [Cover.freshNode] at ha; exact absurd ha List.not_mem_nil
  refine ⟨?_, ?_⟩
  · intro ly hly n hn
    rcases List.mem_append.mp hly with hly | hly
    · exact (hL ly hly n hn).mono _
    · rw [List.mem_singleton] at hly
      subst hly
      obtain ⟨q, hq⟩ := List.mem_iff_getElem?.mp hn
      obtain ⟨n0, h0, hs⟩ := hrub.get hq
      exact ((hp.good n0 (List.mem_of_getElem? h0)).of_strip hs).mono _
  · intro m hm
    obtain ⟨k1, k2, k3, k4⟩ := hkid m hm
    refine ⟨⟨k1, fun a ha => ?_⟩, k2, k3⟩
    obtain ⟨a1, a2⟩ := k4 a ha
    obtain ⟨n0, h0, c0, d0⟩ := hp.live a.fromP a2
    obtain ⟨n, hn, hs⟩ := hrub.get' h0
    have h8 := congrArg Node.cache hs
    have h9 := congrArg Node.deleted hs
    simp only [stripRub] at h8 h9
    refine ⟨n, ?_, h8 ▸ c0, h9 ▸ d0⟩
    rw [a1, Cover.getNode_last]; exact hn

/-! ## `stepLayer`, `buildLoop` -/

/-- one layer step of a relaxed compilation without dominance rule (cache or not) preserves the invariant, whatever it
    returns -/
theorem stepLayer_kinv (cfg : Cfg S K) (dd dd' : DD S K) (var : Nat) (oc : Outcome)
    (hrel : cfg.ctype = .relaxed) (hdom : cfg.dom = none) (hW : 1 ≤ cfg.width) (hI : KInvA dd)
    (hst : stepLayer cfg dd var = (some dd', oc)) : KInvA dd' := by
  by_cases hne : dd.next = []
  · rw [stepLayer_empty cfg dd var hne] at hst
    simp only [Prod.mk.injEq, Option.some.injEq] at hst
    obtain ⟨hdd, _⟩ := hst
    rw [← hdd]
    refine ⟨?_, ?_, ?_⟩
    · intro n hn; exact (hI.goodN n hn).mono _
    · intro ly hly n hn
      rcases List.mem_append.mp hly with hly | hly
      · exact (hI.goodL ly hly n hn).mono _
      · rw [List.mem_singleton] at hly
        rw [hly] at hn
        exact absurd hn List.not_mem_nil
    · exact hI.cleanN
  · obtain ⟨hpost, hnd⟩ := postK_fc cfg dd.cache dd hI _ _ (fcOf_desc cfg dd)
    have key : ∀ sq, squash cfg dd (fcOf cfg dd).1 (fcOf cfg dd).2 = some sq → PostK dd.layers sq.1 sq.2.1 →
        KInvA dd' := by
      intro sq hsq hp
      obtain ⟨dd'', hst', hl, hn, _⟩ := stepLayer_okT cfg dd var hne hdom sq hsq
      rw [hst'] at hst
      simp only [Prod.mk.injEq, Option.some.injEq] at hst
      obtain ⟨hdd, _⟩ := hst
      rw [← hdd]
      obtain ⟨e1, e2⟩ := expand_kinv cfg var dd.layers sq.1 sq.2.1 sq.2.2.1 hp hI.goodL
      exact ⟨by rw [hn, hl]; exact fun n hn => (e2 n hn).1, by rw [hl]; exact e1,
        by rw [hn]; exact fun n hn => (e2 n hn).2⟩
    rcases squash_cases cfg dd (fcOf cfg dd).1 (fcOf cfg dd).2 hrel hW with ⟨_, hsq⟩ | ⟨c1, _, hsq⟩
    · exact key _ hsq hpost
    · exact key _ hsq (postK_relax cfg dd.layers _ _ dd.log hW c1 hnd hpost)

/-- the invariant holds on whatever the loop returns -/
theorem buildLoop_kinv (cfg : Cfg S K) (stopAt : Option Nat)
    (hrel : cfg.ctype = .relaxed) (hdom : cfg.dom = none) (hW : 1 ≤ cfg.width) :
    ∀ (fuel : Nat) (dd : DD S K), KInvA dd → KInvA (buildLoop cfg stopAt fuel dd).1 := by
  cases stopAt <;> intro fuel <;> induction fuel with
  | zero => intro dd hI; exact hI
  | succ fuel ih =>
    intro dd hI
    unfold buildLoop
    dsimp only
    split
    · exact hI.congr rfl rfl
    · rename_i var hvar
      split
      · exact hI.congr rfl rfl
      · generalize hdd1 : (DD.mk dd.layers dd.next dd.depth dd.lel dd.cache dd.store _ dd.cacheLog _ dd.ndom) = dd1
        have hI1 : KInvA dd1 := by rw [← hdd1]; exact hI.congr rfl rfl
        split
        · exact hI1
        · rename_i dd' hst; exact stepLayer_kinv cfg dd1 dd' var _ hrel hdom hW hI1 hst
        · rename_i dd' hst; exact stepLayer_kinv cfg dd1 dd' var _ hrel hdom hW hI1 hst
        · rename_i dd' hst; exact ih dd' (stepLayer_kinv cfg dd1 dd' var _ hrel hdom hW hI1 hst)

theorem init_kinv (cfg : Cfg S K) (cache : Cache S) (store : DomStore S K) (polls : Nat) :
    KInvA (initDD cfg cache store polls) := by
  have hnext : (initDD cfg cache store polls).next =
      [{ state := cfg.root.state, value := cfg.root.value, depth := cfg.root.depth }] := rfl
  have hlay : (initDD cfg cache store polls).layers = [] := rfl
  refine ⟨?_, ?_, ?_⟩
  · intro n hn
    rw [hnext, List.mem_singleton] at hn
    subst hn
    exact ⟨rfl, fun a ha => absurd ha List.not_mem_nil⟩
  · intro ly hly; rw [hlay] at hly; exact absurd hly List.not_mem_nil
  · intro n hn
    rw [hnext, List.mem_singleton] at hn
    subst hn
    exact ⟨rfl, rfl⟩

/-! ## reading on the built diagram -/

theorem kinv_final (dd : DD S K) (hI : KInvA dd) :
    ∀ (l p : Nat) (n : Node S), getNode (finalizeLayers dd).layers l p = some n → Good (finalizeLayers dd).layers n := by
  intro l p n hget
  by_cases hne : dd.next = []
  · have hlay : (finalizeLayers dd).layers = dd.layers := by
      unfold finalizeLayers; simp only [hne, List.isEmpty_nil, if_true]
    rw [hlay] at hget ⊢
    obtain ⟨ly, hly, hp⟩ := Cover.getNode_lt hget
    exact hI.goodL ly (List.mem_of_getElem? hly) n (List.mem_of_getElem? hp)
  · obtain ⟨h1, _⟩ := finalizeLayers_nonempty dd hne
    rw [h1] at hget ⊢
    rcases view_at (.inl rfl) l p n hget with ⟨ly, hly, hp⟩ | ⟨_, hp⟩
    · exact (hI.goodL ly (List.mem_of_getElem? hly) n (List.mem_of_getElem? hp)).mono _
    · exact (hI.goodN n (List.mem_of_getElem? hp)).mono _

/-- every node of the built diagram is good -/
theorem built_good (cfg : Cfg S K) (cache : Cache S) (store : DomStore S K) (polls : Nat) (stopAt : Option Nat)
    (hrel : cfg.ctype = .relaxed) (hdom : cfg.dom = none) (hW : 1 ≤ cfg.width) :
    ∀ (l p : Nat) (n : Node S),
      getNode (finalizeLayers (buildLoop cfg stopAt (cfg.P.nbVars + 2) (initDD cfg cache store polls)).1).layers l p = some n →
      Good (finalizeLayers (buildLoop cfg stopAt (cfg.P.nbVars + 2) (initDD cfg cache store polls)).1).layers n :=
  kinv_final _ (buildLoop_kinv cfg stopAt hrel hdom hW _ _ (init_kinv cfg cache store polls))

/-- **(A1)** no node of the built diagram is marked -/
theorem built_unmarked (cfg : Cfg S K) (cache : Cache S) (store : DomStore S K) (polls : Nat) (stopAt : Option Nat)
    (hrel : cfg.ctype = .relaxed) (hdom : cfg.dom = none) (hW : 1 ≤ cfg.width)
    (hok : (buildLoop cfg stopAt (cfg.P.nbVars + 2) (initDD cfg cache store polls)).2 = .ok) :
    ∀ (l p : Nat) (n : Node S),
      getNode (finalizeLayers (buildLoop cfg stopAt (cfg.P.nbVars + 2) (initDD cfg cache store polls)).1).layers l p = some n →
      n.marked = false :=
  fun l p n h => (built_good cfg cache store polls stopAt hrel hdom hW l p n h).1

/-- **(A2)** every inbound arc of a node of the built diagram comes from a node that is neither pruned by the cache nor
    deleted -/
theorem built_arcs_live (cfg : Cfg S K) (cache : Cache S) (store : DomStore S K) (polls : Nat) (stopAt : Option Nat)
    (hrel : cfg.ctype = .relaxed) (hdom : cfg.dom = none) (hW : 1 ≤ cfg.width)
    (hok : (buildLoop cfg stopAt (cfg.P.nbVars + 2) (initDD cfg cache store polls)).2 = .ok) :
    ∀ (l p : Nat) (n : Node S) (a : Arc),
      getNode (finalizeLayers (buildLoop cfg stopAt (cfg.P.nbVars + 2) (initDD cfg cache store polls)).1).layers l p = some n →
      a ∈ n.inb →
      ∃ par, getNode (finalizeLayers (buildLoop cfg stopAt (cfg.P.nbVars + 2) (initDD cfg cache store polls)).1).layers
          a.fromL a.fromP = some par ∧ par.cache = false ∧ par.deleted = false :=
  fun l p n a h ha => (built_good cfg cache store polls stopAt hrel hdom hW l p n h).2 a ha

end Ddo.CacheClosed

#print axioms Ddo.CacheClosed.built_unmarked
#print axioms Ddo.CacheClosed.built_arcs_live
