import DdoModel.ParSysExec
import DdoModel.Props.C03b
/-! Soundness of the executable step function `Sys.exec` (`DdoModel/ParSysExec.lean`) with respect to the
    transition system `ParSys.StepG` — the checked link between the run-time trace validator
    (`Engines/Par.lean`, which advances a `Sys Int` by `Sys.exec` next to its own state for every section of a
    recorded run of the real `ParallelSolver`) and the theorems of `Props/C03b.lean`.

    * `exec_sound`: an accepted action is a `Step`, for any contracts `okR` / `okX` that hold of the
      compilation the action carries (`Sys.compR` / `Sys.compX`: at most one triple);
    * `execRun_sound`: an accepted schedule is a `Run`, for any contracts that hold of the compilations the
      schedule performs (`Sys.compsR` / `Sys.compsX`);  `execRun_sound_free` (unconstrained system) and
      `execRun_sound_mem` (the contracts being *exactly* "is one of the recorded compilations") are instances;
    * `execRun_inv`, `execRun_final`: hence `C03b.sys_inv` / `C03b.sys_final` apply to the state the validator
      reached: if the recorded compilations meet the diagram contracts, the coverage invariant holds there, and
      if every worker has left the reported outcome is the optimum (or brackets it after a cut-off). -/
set_option linter.unusedSectionVars false
set_option linter.unusedVariables false
namespace Ddo.ParSys
variable {S : Type} [DecidableEq S]

/-! ### the decidable side conditions -/

theorem popMax?_sound {fr rest : List (SubP S)} {N : SubP S} (h : popMax? fr N = some rest) : PopMax fr N rest := by
  unfold popMax? at h
  split at h
  · next hm =>
    split at h
    · next ha =>
      injection h with h
      subst h
      refine ⟨List.perm_cons_erase hm, fun c hc => ?_⟩
      have := (List.all_eq_true.mp ha) c hc
      exact of_decide_eq_true this
    · cases h
  · cases h

theorem abortTop?_sound {fr : List (SubP S)} {top : Option Int} (h : abortTop? fr top = true) : AbortTop fr top := by
  cases top with
  | none =>
    refine Or.inl ⟨?_, rfl⟩
    have h : fr.isEmpty = true := h
    exact List.isEmpty_iff.mp h
  | some u =>
    have h : (fr.any (fun t => decide (t.ub = u)) && fr.all (fun c => decide (c.ub ≤ u))) = true := h
    rw [Bool.and_eq_true] at h
    obtain ⟨t, ht, htu⟩ := List.any_eq_true.mp h.1
    have htu : t.ub = u := of_decide_eq_true htu
    refine Or.inr ⟨t, ht, by rw [htu], fun c hc => ?_⟩
    rw [htu]
    exact of_decide_eq_true ((List.all_eq_true.mp h.2) c hc)

theorem popped_sound {s : Sys S} {N : SubP S} {x : ParCrit S × Option (Option (SubP S)) × Nat}
    (h : s.popped N = some x) :
    s.crit.base.abort = false ∧ ∃ rest, PopMax s.crit.base.fringe N rest ∧
      popLoop (setFringe s.crit rest) [(N, true)] 0 = x := by
  unfold Sys.popped at h
  split at h
  · cases h
  · next ha =>
    split at h
    · cases h
    · next rest hp =>
      injection h with h
      exact ⟨by simpa using ha, rest, popMax?_sound hp, h⟩

/-! ### one step -/

/-- **`exec_sound`**: whatever `Sys.exec` accepts is a step of the parallel solver's transition system, for every
    pair of contracts that the compilation carried by the action (if it is one and succeeds) meets -/
theorem exec_sound {okR okX : SubP S → Int → DDOut S → Prop} {dedup : Bool} {s t : Sys S} {i : Nat} {a : Action S}
    (h : s.exec dedup i a = some t)
    (hR : ∀ x ∈ s.compR i a, okR x.1 x.2.1 x.2.2) (hX : ∀ x ∈ s.compX i a, okX x.1 x.2.1 x.2.2) :
    Step dedup okR okX s t := by
  cases a with
  | gwAborted =>
    simp only [Sys.exec] at h
    split at h
    · next hw =>
      split at h
      · next ha => injection h with h; subst h; exact StepG.gwAborted s i hw ha
      · cases h
    · cases h
  | gwComplete =>
    simp only [Sys.exec] at h
    split at h
    · next hw =>
      split at h
      · next hc =>
        injection h with h; subst h
        simp only [Bool.and_eq_true, Bool.not_eq_true', beq_iff_eq, List.isEmpty_iff] at hc
        exact StepG.gwComplete s i hw hc.1.1 hc.1.2 hc.2
      · cases h
    · cases h
  | gwWait =>
    simp only [Sys.exec] at h
    split at h
    · next hw =>
      split at h
      · next hc =>
        injection h with h; subst h
        simp only [Bool.and_eq_true, Bool.not_eq_true', bne_iff_ne, List.isEmpty_iff] at hc
        exact StepG.gwWait s i hw hc.1.1 hc.1.2 hc.2
      · cases h
    · cases h
  | gwStarve N =>
    simp only [Sys.exec] at h
    split at h
    · next hw =>
      split at h
      · next c' k hp =>
        injection h with h; subst h
        obtain ⟨ha, rest, hpm, hl⟩ := popped_sound hp
        exact StepG.gwStarve s i N rest c' k hw ha hpm hl
      · cases h
    · cases h
  | gwItem N =>
    simp only [Sys.exec] at h
    split at h
    · next hw =>
      split at h
      · next c' nn k hp =>
        obtain ⟨ha, rest, hpm, hl⟩ := popped_sound hp
        split at h
        · next c'' ht => injection h with h; subst h; exact StepG.gwItem s i N rest c' nn k c'' hw ha hpm hl ht
        · cases h
      · cases h
    · cases h
  | gwCrash N =>
    simp only [Sys.exec] at h
    split at h
    · next hw =>
      split at h
      · next c' nn k hp =>
        obtain ⟨ha, rest, hpm, hl⟩ := popped_sound hp
        split at h
        · cases h
        · next ht => injection h with h; subst h; exact StepG.gwCrash s i N rest c' nn k hw ha hpm hl ht
      · cases h
    · cases h
  | readLbR =>
    simp only [Sys.exec] at h
    split at h
    · next n hw => injection h with h; subst h; exact StepG.readLbR s i n hw
    · cases h
  | compileR r =>
    simp only [Sys.exec] at h
    split at h
    · next n lb hw =>
      injection h with h; subst h
      refine StepG.compileR s i n lb r hw (fun o ho => ?_)
      subst ho
      exact hR (n, lb, o) (by simp only [Sys.compR, hw]; exact List.mem_singleton.mpr rfl)
    · cases h
  | updateR =>
    simp only [Sys.exec] at h
    split at h
    · next n lb o hw => injection h with h; subst h; exact StepG.updateR s i n lb o hw
    · cases h
  | readLbX =>
    simp only [Sys.exec] at h
    split at h
    · next n hw => injection h with h; subst h; exact StepG.readLbX s i n hw
    · cases h
  | compileX r =>
    simp only [Sys.exec] at h
    split at h
    · next n lb hw =>
      injection h with h; subst h
      refine StepG.compileX s i n lb r hw (fun o ho => ?_)
      subst ho
      exact hX (n, lb, o) (by simp only [Sys.compX, hw]; exact List.mem_singleton.mpr rfl)
    · cases h
  | updateX =>
    simp only [Sys.exec] at h
    split at h
    · next n lb o hw => injection h with h; subst h; exact StepG.updateX s i n lb o hw
    · cases h
  | enqueue =>
    simp only [Sys.exec] at h
    split at h
    · next n lb o hw => injection h with h; subst h; exact StepG.enqueue s i n lb o hw
    · cases h
  | abort top =>
    simp only [Sys.exec] at h
    split at h
    · next n hw =>
      split at h
      · next ht => injection h with h; subst h; exact StepG.abort s i n top hw (abortTop?_sound ht)
      · cases h
    · cases h
  | notify =>
    simp only [Sys.exec] at h
    split at h
    · next n te hw =>
      split at h
      · next c' hn => injection h with h; subst h; exact StepG.notify s i n te c' hw hn
      · cases h
    · cases h

/-- the unconstrained system: every accepted action is a step -/
theorem exec_sound_free {dedup : Bool} {s t : Sys S} {i : Nat} {a : Action S} (h : s.exec dedup i a = some t) :
    Step dedup (fun _ _ _ => True) (fun _ _ _ => True) s t :=
  exec_sound h (fun _ _ => trivial) (fun _ _ => trivial)

/-! ### schedules -/

/-- **`execRun_sound`**: a schedule accepted by iterated `exec` is a run of the parallel solver's transition
    system, for every pair of contracts met by the compilations the schedule performs -/
theorem execRun_sound {okR okX : SubP S → Int → DDOut S → Prop} {dedup : Bool} {as : Sched S} :
    ∀ {s t : Sys S}, s.execRun dedup as = some t →
      (∀ x ∈ s.compsR dedup as, okR x.1 x.2.1 x.2.2) → (∀ x ∈ s.compsX dedup as, okX x.1 x.2.1 x.2.2) →
      Run dedup okR okX s t := by
  induction as with
  | nil =>
    intro s t h _ _
    have h : some s = some t := h
    injection h with h
    subst h
    exact RunG.refl _
  | cons ia r ih =>
    obtain ⟨i, a⟩ := ia
    intro s t h hR hX
    simp only [Sys.execRun] at h
    simp only [Sys.compsR, Sys.compsX] at hR hX
    cases he : s.exec dedup i a with
    | none => rw [he] at h; cases h
    | some u =>
      rw [he] at h hR hX
      have hst : Step dedup okR okX s u :=
        exec_sound he (fun x hx => hR x (List.mem_append_left _ hx)) (fun x hx => hX x (List.mem_append_left _ hx))
      exact StepG.head hst
        (ih h (fun x hx => hR x (List.mem_append_right _ hx)) (fun x hx => hX x (List.mem_append_right _ hx)))

/-- the unconstrained system -/
theorem execRun_sound_free {dedup : Bool} {as : Sched S} {s t : Sys S} (h : s.execRun dedup as = some t) :
    Run dedup (fun _ _ _ => True) (fun _ _ _ => True) s t :=
  execRun_sound h (fun _ _ => trivial) (fun _ _ => trivial)

/-- the system whose compilations answer exactly what the schedule recorded -/
theorem execRun_sound_mem {dedup : Bool} {as : Sched S} {s t : Sys S} (h : s.execRun dedup as = some t) :
    Run dedup (fun n lb o => (n, lb, o) ∈ s.compsR dedup as) (fun n lb o => (n, lb, o) ∈ s.compsX dedup as) s t :=
  execRun_sound h (fun _ hx => hx) (fun _ hx => hx)

/-! ### what the theorems of `C03b` say about an accepted schedule -/

section
variable (Phi : SubP S → EInt) (opt : Int) (Sol : List Dec → Int → Prop)

/-- **`execRun_inv`**: the state reached by an accepted schedule whose recorded compilations meet the diagram
    contracts (relative to the node compiled and the incumbent the worker had read) satisfies the coverage
    invariant `SysInv` -/
theorem execRun_inv (dedup : Bool) (hphi : PhiOk Phi dedup) {as : Sched S} {s t : Sys S}
    (h : s.execRun dedup as = some t)
    (hR : ∀ x ∈ s.compsR dedup as, OkR Phi opt Sol x.1 x.2.1 x.2.2)
    (hX : ∀ x ∈ s.compsX dedup as, OkX Phi opt Sol x.1 x.2.1 x.2.2)
    (hi : SysInv Phi opt Sol s) : SysInv Phi opt Sol t :=
  C03b.sys_inv Phi opt Sol dedup hphi (fun _ _ _ h => h) (fun _ _ _ h => h) (execRun_sound h hR hX) hi

/-- **`execRun_final`**: if moreover the schedule starts in the initial state and every worker has left at its
    end (`maximize()` returns; at least one thread), then what the shared record holds is what `C03b.sys_final`
    says: the optimum with `best_ub = best_lb` and `is_exact` when the abort flag is down, `best_lb ≤ opt ≤
    best_ub` and not exact when it is up, and a feasible stored solution of value `best_lb` in both cases -/
theorem execRun_final (dedup : Bool) (hphi : PhiOk Phi dedup) (P : Problem S) (primal : Option (Int × List Dec))
    (U : Nat) {as : Sched S} {t : Sys S}
    (h : (Sys.init P primal dedup U).execRun dedup as = some t)
    (hR : ∀ x ∈ (Sys.init P primal dedup U).compsR dedup as, OkR Phi opt Sol x.1 x.2.1 x.2.2)
    (hX : ∀ x ∈ (Sys.init P primal dedup U).compsX dedup as, OkX Phi opt Sol x.1 x.2.1 x.2.2)
    (hi : SysInv Phi opt Sol (Sys.init P primal dedup U)) (hd : AllDone t) (hne : t.ws ≠ []) :
    (t.crit.base.abort = false → t.crit.base.bestLb = opt ∧ t.crit.base.bestUb = opt ∧
        t.crit.base.completion = (true, t.crit.base.bestSol.map (fun _ => opt))) ∧
    (t.crit.base.abort = true → t.crit.base.bestLb ≤ opt ∧ opt ≤ t.crit.base.bestUb ∧ t.crit.base.completion.1 = false) ∧
    (∀ p, t.crit.base.bestSol = some p → Sol p t.crit.base.bestLb) :=
  C03b.sys_final Phi opt Sol dedup hphi (fun _ _ _ h => h) (fun _ _ _ h => h) P primal U hi
    (execRun_sound h hR hX) hd hne

end

end Ddo.ParSys

#print axioms Ddo.ParSys.popMax?_sound
#print axioms Ddo.ParSys.abortTop?_sound
#print axioms Ddo.ParSys.exec_sound
#print axioms Ddo.ParSys.exec_sound_free
#print axioms Ddo.ParSys.execRun_sound
#print axioms Ddo.ParSys.execRun_sound_free
#print axioms Ddo.ParSys.execRun_sound_mem
#print axioms Ddo.ParSys.execRun_inv
#print axioms Ddo.ParSys.execRun_final
