import DdoModel.Proofs.CacheDomDefs
/-! # `CrossSim` — cache + dominance lose the optimum with a **simulation-admissible** rule (finding **D16**, second form)

`Proofs/CacheDomCross.lean` refutes the joint statement for rules with a protected optimal strategy (`UndomOpt`) that are
admissible in the potential form for all pairs of values.  Here the rule satisfies the *simulation condition*
`Ddo.C10.SimAdmissible` (with a static variable order: the hypotheses of `Ddo.C10.undomOpt_of_sim`, the sufficient
condition `Props/C10b.lean` offers for `dominance_solver_optimal`), the optimal solution is **unique**, and the solver with
cache and checker still ends with `is_exact = true` and a wrong value: **10 instead of 15**.

## the model (family `Ddo.C09.Layered`)

6 binary variables in static order, 7 states `0 … 6`, initial state `0`, value `0`.  Tables (`state: (next, cost) for decision
0 | decision 1`; rows that are never reached copy a neighbour):

```
x0:  every state: (4,0)|(5,0)                                                R=0 → a=4 | b=5
x1:  0–4: (4,5)|(4,5)       5, 6: (6,0)|(5,1)                                 a=4 → a2=4 (cost 5);  b=5 → x=6 | y=5 (cost 1)
x2:  0–4: (4,0)|(4,0)       5: (6,-1)|(6,-1)     6: (5,5)|(5,5)               a2=4 → a3=4;  y=5 → y3=6 (cost -1);  x=6 → x3=5 (cost 5)
x3:  0–4: (0,0)|(1,-5)      5: (4,0)|(4,0)       6: (1,0)|(1,0)               a3=4 → J=0 | s*=1 (cost -5);  x3=5 → g=4;  y3=6 → s*=1
x4:  0: (2,0)|(2,0)   1: (3,0)|(3,0)   2–6: (4,0)|(4,0)                       J=0 → J5=2;  s*=1 → s5=3;  g=4 → g5=4
x5:  0–2: (4,5)|(4,0)       3–6: (4,10)|(4,0)                                 J5=2 earns 5;  s5=3 and g5=4 earn 10
```

Exactly reached items `(state, value)` by depth (`table`): 0 `{(0,0)}`; 1 `{a=(4,0), b=(5,0)}`; 2 `{a2=(4,5), x=(6,0), y=(5,1)}`;
3 `{a3=(4,5), x3=(5,5), y3=(6,0)}`; 4 `{J=(0,5), s*=(1,0), g=(4,5)}`; 5 `{J5=(2,5), s5=(3,0), g5=(4,5)}`; 6 `{(4,10), (4,5),
(4,0), (4,15)}`.  **Optimum 15**, reached only by `σ1 = R, b, x, x3, g, g5`; `R, a, a2, a3, J, J5` and the paths through `s*`
are worth 10.  Relaxation: `merge` = largest state, `relax` = identity, `fast_upper_bound` = 30; ranking: larger state better;
`FixedWidth(1)`.

**The rule**: key `0` for the states `0, 1`, key `1` for `2, 3`, none for `4, 5, 6`; one coordinate, `1` for the states `0, 2`
and `0` otherwise; the value is used.  On the reached items it says: `J = (0, value 5)` dominates `s* = (1, value 0)` at depth 4,
`J5 = (2, 5)` dominates `s5 = (3, 0)` at depth 5 — and indeed `J` is worth `5 + 5 = 10 ≥ 0 + 10`, its child `J5` is at least as
good as `s5`, and so on to the terminal layer: the rule is **simulation-admissible** (`simAdmissible`: every decision of the
dominated item is matched by a decision of the dominating item, on all exactly reached pairs), hence admissible in the
potential form (`admissible`) and it has a protected optimal strategy (`undomOpt`).  What the rule is *not*: admissible for
pairs of values that are never reached together (`not_admissibleAll`: `(1, value 5)` would be worth 15).

## the run (three turns, every configuration)

```
turn 1  pop R.  Restricted: b, y, y3, s* = (1, depth 4, 0), s5, terminal: 10.  Incumbent 10.  Relaxed: cut-set {a (ub 20), b (ub 16)}.
turn 2  pop a (ub 20 > 16).  Restricted: a2, a3, {J = (0, 5), s* = (1, 0)}: J is presented first and recorded, s* is dominated by J
        with **threshold 5** (`is_dominated_or_insert`: the dominator's value).  J, J5, terminal 10: exact diagram, nothing new.
        `_compute_thresholds` records (1, depth 4) ↦ (5, explored) in the cache.
turn 3  pop b.  Restricted: keeps y (value 1 > 0), y3, s* = (1, depth 4, value 0) exact: pruned by the cache.  Relaxed: {x3 = (5, value 5),
        y3 = (6, value 0)} merged into M = (state 6, value 5, inexact); its only child is (state 1, depth 4, **value 5**), inexact: it
        stands for g = (4, depth 4, 5) — value-to-go 10, the optimum — and `_filter_with_cache` prunes it: 5 ≤ 5.  No exact item
        (1, depth 4, 5) exists; the checker is never asked about relaxed nodes.  Empty layer, no terminal, `is_exact() = true`.
        fringe [], incumbent 10: `is_exact = true`, `best_value = Some(10)`; the optimum is 15.
```

The threshold `5` is correct as a statement about the rule ("state 1 with a value ≤ 5 is dominated by the stored `J`"), and
harmless for the checker, which only sees exactly reached values of state 1 (here only `0`).  The cache applies it to a relaxed
node whose value `5` is the value of *another* state (`x3`, merged into `M`).

Replay on the real library (crate `/tmp/agent_cachedom/rs`): same numbers — `Some(10)` with cache + checker (sequential LEL /
frontier, both fringes, parallel with one thread, `DefaultCachingSolver`), `Some(15)` with either mechanism alone. -/
set_option linter.unusedSectionVars false
set_option linter.unusedVariables false
namespace Ddo.C10c.CrossSim
open Ddo Ddo.C01 Ddo.Closed Ddo.C09 Ddo.C10 Ddo.C10c Ddo.C09.Layered

def T : Tab :=
  { n := 6, m := 7,
    --      s0      s1      s2      s3      s4      s5      s6
    trl := [4,5,    4,5,    4,5,    4,5,    4,5,    4,5,    4,5,
            4,4,    4,4,    4,4,    4,4,    4,4,    6,5,    6,5,
            4,4,    4,4,    4,4,    4,4,    4,4,    6,6,    5,5,
            0,1,    0,1,    0,1,    0,1,    0,1,    4,4,    1,1,
            2,2,    3,3,    4,4,    4,4,    4,4,    4,4,    4,4,
            4,4,    4,4,    4,4,    4,4,    4,4,    4,4,    4,4],
    cl :=  [0,0,    0,0,    0,0,    0,0,    0,0,    0,0,    0,0,
            5,5,    5,5,    5,5,    5,5,    5,5,    0,1,    0,1,
            0,0,    0,0,    0,0,    0,0,    0,0,    -1,-1,  5,5,
            0,-5,   0,-5,   0,-5,   0,-5,   0,-5,   0,0,    0,0,
            0,0,    0,0,    0,0,    0,0,    0,0,    0,0,    0,0,
            5,0,    5,0,    5,0,    10,0,   10,0,   10,0,   10,0],
    rub := 30 }

/-- `FixedWidth(1)` -/
def ws : List Nat := List.replicate 49 1

/-- key 0 = {0, 1}, key 1 = {2, 3}, no key for 4, 5, 6; one coordinate: 1 for the states 0 and 2, 0 otherwise; the value is used -/
def rule : DomRule Int Int :=
  { key := fun s => if s = 0 ∨ s = 1 then some 0 else if s = 2 ∨ s = 3 then some 1 else none,
    dims := fun _ => 1, coord := fun s _ => if s = 0 ∨ s = 2 then 1 else 0, useValue := true }

def sv (dedup : Bool) (kind : CutsetKind) : SolverCfg Int := Layered.sv T ws dedup kind
def dv (dedup : Bool) (kind : CutsetKind) : DSolverCfg Int Int := ⟨sv dedup kind, rule⟩

/-! ## the model is well formed, its optimum is 15 -/

theorem checked : check T 10 = true := by decide

theorem wellFormed (dedup : Bool) (kind : CutsetKind) : WellFormed (dv dedup kind).sv (H T) 10 80 :=
  wellFormed_ofTables T 10 80 ws dedup kind checked (by decide) (by decide)

theorem opt15 : (H T 0 (prob T).init).addI (prob T).initVal = some 15 := by decide

theorem staticOrder : StaticOrder (prob T) := fun _ _ _ _ _ => rfl

/-! ## the exactly reached items -/

/-- `(depth, state, value)` of every exactly reached item -/
def table : List (Nat × Int × Int) :=
  [(0, 0, 0), (1, 4, 0), (1, 5, 0), (2, 4, 5), (2, 6, 0), (2, 5, 1), (3, 4, 5), (3, 5, 5), (3, 6, 0),
   (4, 0, 5), (4, 1, 0), (4, 4, 5), (5, 2, 5), (5, 3, 0), (5, 4, 5), (6, 4, 10), (6, 4, 5), (6, 4, 0), (6, 4, 15)]

theorem step_table : ∀ e ∈ table, ∀ d ∈ [(0 : Int), 1], e.1 < 6 →
    (e.1 + 1, (prob T).trans e.2.1 ⟨e.1, d⟩, e.2.2 + (prob T).cost e.2.1 ((prob T).trans e.2.1 ⟨e.1, d⟩) ⟨e.1, d⟩) ∈ table := by
  decide

theorem reach_table {k : Nat} {s v : Int} {p : List Dec} (h : Reach (prob T) k s v p) : (k, s, v) ∈ table := by
  induction h with
  | root => decide
  | step k s v p L x d _ hnv _ hd ih =>
    obtain ⟨hk, rfl⟩ := nv_some hnv
    have hd' : d ∈ [(0 : Int), 1] := hd
    exact step_table (_, s, v) ih d hd' hk

/-! ## the rule is simulation-admissible -/

instance (a va b vb : Int) : Decidable (GeItem rule 1 a va b vb) := by
  unfold GeItem
  have : Decidable (∃ k, rule.key a = some k ∧ rule.key b = some k) :=
    match ha : rule.key a, hb : rule.key b with
    | some k, some k' => if h : k = k' then isTrue ⟨k, rfl, by rw [h]⟩ else isFalse (by
        rintro ⟨k2, h1, h2⟩; cases h1; cases h2; exact h rfl)
    | none, _ => isFalse (by rintro ⟨k2, h1, _⟩; cases h1)
    | some _, none => isFalse (by rintro ⟨k2, _, h2⟩; cases h2)
  exact inferInstance

/-- the simulation step, checked on every pair of exactly reached items of the same depth -/
theorem sim_table : ∀ e1 ∈ table, ∀ e2 ∈ table, e1.1 = e2.1 → e1.1 < 6 → GeItem rule 1 e1.2.1 e1.2.2 e2.2.1 e2.2.2 →
    ∀ db ∈ [(0 : Int), 1], ∃ da ∈ [(0 : Int), 1],
      GeItem rule 1 ((prob T).trans e1.2.1 ⟨e1.1, da⟩)
        (e1.2.2 + (prob T).cost e1.2.1 ((prob T).trans e1.2.1 ⟨e1.1, da⟩) ⟨e1.1, da⟩)
        ((prob T).trans e2.2.1 ⟨e1.1, db⟩)
        (e2.2.2 + (prob T).cost e2.2.1 ((prob T).trans e2.2.1 ⟨e1.1, db⟩) ⟨e1.1, db⟩) := by
  decide

/-- with the value in use, "at least as good" includes the value -/
theorem geItem_value {a va b vb : Int} (h : GeItem rule 1 a va b vb) : vb ≤ va := by
  have := h.ge
  have hu : rule.useValue = true := rfl
  rw [hu] at this
  simp only [geEnt, Bool.not_true, Bool.false_or, Bool.and_eq_true, decide_eq_true_eq] at this
  exact this.2

/-- **the rule satisfies the simulation condition** (consistency with the transition system, on exactly reached items) -/
theorem simAdmissible : SimAdmissible rule (prob T) 1 := by
  constructor
  · intro d a va b vb pa pb L x hra hrb hge hnv _ db hdb
    obtain ⟨hk, hx⟩ := nv_some hnv
    rw [hx]
    have hdb' : db ∈ [(0 : Int), 1] := by rw [hx] at hdb; exact hdb
    obtain ⟨da, hda, hg⟩ := sim_table (d, a, va) (reach_table hra) (d, b, vb) (reach_table hrb) rfl hk hge db hdb'
    exact ⟨da, hda, hg⟩
  · intro d a va b vb pa pb L _ _ hge _ _
    exact geItem_value hge

/-- hence it has a protected optimal strategy … -/
theorem undomOpt : UndomOpt rule (prob T) (H T) 15 :=
  undomOpt_of_sim rule (prob T) (H T) 1 15 (fun _ => rfl) (potential T) (nvBound T) staticOrder simAdmissible opt15

/-- … and is admissible in the potential form on exactly reached items -/
theorem admissible : Admissible rule (prob T) (H T) :=
  admissible_of_sim rule (prob T) (H T) 1 (fun _ => rfl) (potential T) (nvBound T) staticOrder simAdmissible

/-- it is **not** admissible for pairs of values that are not reached together: state 1 with value 5 at depth 4 (never reached
    exactly) would be worth 15, its "dominator" `(0, value 5)` is worth 10 -/
theorem not_admissibleAll : ¬ AdmissibleAll rule (H T) := by
  intro h
  have := h 4 0 5 1 5 (by decide)
  exact absurd this (by decide)

/-! ## the runs -/

/-- the state after `j` best-first turns of the solver with cache **and** checker -/
def after (dedup : Bool) (kind : CutsetKind) (j : Nat) : KDSt Int Int :=
  (dv dedup kind).kdsolveLoop j (KDSt.init (dv dedup kind))

def viewKD (s : KDSt Int Int) : List (Int × Int × Int × Nat) × Int :=
  (s.st.fringe.map (fun c => (c.state, c.value, c.ub, c.depth)), s.st.bestLb)
def cacheAtKD (s : KDSt Int Int) (d : Nat) : List (Int × Int × Bool) :=
  (s.cache.layers.getD d []).map (fun e => (e.1, e.2.value, e.2.explored))
/-- the cache the compilations of the next turn consult: the cache of the state after the cache-cleaning loop of `get_workload` -/
def cacheIn (s : KDSt Int Int) : Cache Int :=
  (cleanCache T.n s.st.openByLayer T.n s.st.firstActive s.cache).getD s.cache
/-- the checker as the restricted compilation of `N` (plain fringe, last-exact-layer cut-set) leaves it: what the relaxed compilation
    of the same turn starts from -/
def storeR (s : KDSt Int Int) (N : SubP Int) : DomStore Int Int :=
  ((dv false .lel).kdcompR (cacheIn s) s.store N s.st.bestLb).2.2.2.store
def storeAt (s : KDSt Int Int) (d : Nat) : List (Int × List (Int × Int)) := s.store.layers.getD d []
def cachePruned (dd : DD Int Int) : List (Int × Int × Nat × Bool) :=
  (dd.layers.flatMap id).filterMap (fun n => if n.cache then some (n.state, n.value, n.depth, n.isExact) else none)

set_option maxRecDepth 100000 in
/-- **cache + dominance: three turns, empty fringe, `is_exact = true`, `best_value = Some(10)`**; the optimum is 15 -/
theorem joint_value : ∀ dedup ∈ [false, true], ∀ kind ∈ [CutsetKind.lel, CutsetKind.frontier],
    (after dedup kind 6).st.fringe.length = 0 ∧ (after dedup kind 6).st.completion = (true, some 10) ∧
    (after dedup kind 6).st.explored = 3 ∧ (after dedup kind 6).st.crashed = false := by decide

set_option maxRecDepth 100000 in
/-- the checker alone: the optimum -/
theorem dom_only : ∀ dedup ∈ [false, true], ∀ kind ∈ [CutsetKind.lel, CutsetKind.frontier],
    ((dv dedup kind).solveLoop 12 (dv dedup kind).init).st.fringe.length = 0 ∧
    ((dv dedup kind).solveLoop 12 (dv dedup kind).init).st.completion = (true, some 15) := by decide

set_option maxRecDepth 100000 in
/-- the cache alone: the optimum -/
theorem cache_only : ∀ dedup ∈ [false, true], ∀ kind ∈ [CutsetKind.lel, CutsetKind.frontier],
    ((sv dedup kind).ksolveLoop 12 (KSt.init (sv dedup kind))).st.fringe.length = 0 ∧
    ((sv dedup kind).ksolveLoop 12 (KSt.init (sv dedup kind))).st.completion = (true, some 15) := by decide

set_option maxRecDepth 100000 in
/-- after turn 1: incumbent 10, `a` (ub 20) and `b` (ub 16) open; the restricted compilation of `a` (turn 2) receives one `dominated`
    verdict: `s*` by `J` -/
theorem stage1 : viewKD (after false .lel 1) = ([(5, 0, 16, 1), (4, 0, 20, 1)], 10) ∧
    ((dv false .lel).kdcompR (cacheIn (after false .lel 1)) (after false .lel 1).store ⟨4, 0, [⟨0, 0⟩], 20, 1⟩ 10).2.2.2.ndom = 1 := by
  decide

set_option maxRecDepth 100000 in
/-- after turn 2 (`a`) the cache holds the verdict `(1, depth 4) ↦ (5, explored)` — the threshold is the value of the dominator
    `J = (0, 5)`, now the only entry of the checker at depth 4 -/
theorem stage2 : viewKD (after false .lel 2) = ([(5, 0, 16, 1)], 10) ∧
    cacheAtKD (after false .lel 2) 4 = [(0, 5, true), (1, 5, true)] ∧ storeAt (after false .lel 2) 4 = [(0, [(0, 5)])] := by
  decide

set_option maxRecDepth 100000 in
/-- turn 3 pops `b`: the restricted compilation loses the exact node `(1, depth 4, value 0)` to the cache; the relaxed one loses the
    **inexact** node `(1, depth 4, value 5)` — no exactly reached item has that state and value — to the same threshold, has no
    terminal node, reports `is_exact = true`, an empty cut-set, and receives no `dominated` verdict -/
theorem stage3 :
    cachePruned ((dv false .lel).kdcompR (cacheIn (after false .lel 2)) (after false .lel 2).store ⟨5, 0, [⟨0, 1⟩], 16, 1⟩ 10).2.2.2 =
      [(1, 0, 4, true)] ∧
    cachePruned ((dv false .lel).kdcompX (cacheIn (after false .lel 2)) (storeR (after false .lel 2) ⟨5, 0, [⟨0, 1⟩], 16, 1⟩) ⟨5, 0, [⟨0, 1⟩], 16, 1⟩ 10).2.2.2 =
      [(1, 5, 4, false)] ∧
    (4, (1 : Int), (5 : Int)) ∉ table ∧
    ((dv false .lel).kdcompX (cacheIn (after false .lel 2)) (storeR (after false .lel 2) ⟨5, 0, [⟨0, 1⟩], 16, 1⟩) ⟨5, 0, [⟨0, 1⟩], 16, 1⟩ 10).2.1.bestValue = none ∧
    ((dv false .lel).kdcompX (cacheIn (after false .lel 2)) (storeR (after false .lel 2) ⟨5, 0, [⟨0, 1⟩], 16, 1⟩) ⟨5, 0, [⟨0, 1⟩], 16, 1⟩ 10).2.1.isExact = true ∧
    ((dv false .lel).kdcompX (cacheIn (after false .lel 2)) (storeR (after false .lel 2) ⟨5, 0, [⟨0, 1⟩], 16, 1⟩) ⟨5, 0, [⟨0, 1⟩], 16, 1⟩ 10).2.2.2.ndom = 0 := by
  decide

set_option maxRecDepth 100000 in
/-- after turn 3 the fringe is empty and the incumbent is still 10 -/
theorem stage_end : viewKD (after false .lel 3) = ([], 10) := by decide

end Ddo.C10c.CrossSim
