import DdoModel.Proofs.PooledBounds
import DdoModel.Proofs.PooledTruth
import DdoModel.Proofs.PooledProgress
/-! # The repair of D5: the root of a pooled diagram never stands in its own cut-set

`finalizePOld` / `compilePOld` model `pooled.rs` before the repair, `finalizeP` / `compileP` the repaired code: the top-down
build is the same (it records the arcs that leave the root when it is expanded, `PD.rootKids` — `root_edges` in the Rust
code), and when the frontier contains the root (the only node of the layer of index 0), `_drain_cutset` hands out the
children of the root — exact state, value `root.value ⊕ cost`, path `root path ++ [decision]`, depth `root depth + 1`, the
bound of the root — instead of the root.  Every theorem about the old cut-set (`Proofs/Pooled*.lean`, at the level of
`finalizePOld`) is reused; what is new is

* §1 `KInv`: what `rootKids` holds — exactly the transitions of the model out of the root state on the variable the root was
  expanded with (sound for every configuration; complete for a relaxed compilation without dominance rule whose root passes
  the rough-bound test);
* §2 `finalizeP_cutset_cases` / `_of_old` / `_of_root`: the new cut-set in terms of the old one;
* §3 the four clauses of C08 for the repaired `compileP`, long arcs allowed: (i) `cutset_rel_pooled` (in `PathRel` form),
  **(ii) `cutset_progress_pooled` — now a theorem, no structural hypothesis**, (iii) `cutset_ub_valid_pooled'`,
  (iv) `cutset_cover_pooled`. -/
set_option linter.unusedSectionVars false
set_option linter.unusedVariables false
namespace Ddo.PFix
open Ddo Ddo.Pooled Ddo.PProgress Ddo.PBounds Ddo.Bounds
variable {S K : Type} [DecidableEq S] [DecidableEq K]

/-! ## 1. what `rootKids` holds -/

theorem mem_kidsOf {pool : List (Node S)} {kid : S × Dec × Int} :
    kid ∈ kidsOf pool ↔ ∃ m ∈ pool, ∃ b ∈ m.inb, kid = (m.state, b.dec, b.cost) := by
  unfold kidsOf
  rw [List.mem_flatMap]
  constructor
  · rintro ⟨m, hm, h⟩
    obtain ⟨b, hb, rfl⟩ := List.mem_map.1 h
    exact ⟨m, hm, b, hb, rfl⟩
  · rintro ⟨m, hm, b, hb, rfl⟩
    exact ⟨m, hm, List.mem_map.2 ⟨b, hb, rfl⟩⟩

/-- `branchOn.go`: a property of the pairs (state of the node, inbound arc) -/
theorem go_pairs (QP : S → Arc → Prop) (parent : Node S) (dst : S) (c : Int) (a : Arc) (hnew : QP dst a) :
    ∀ nx : List (Node S), (∀ m ∈ nx, ∀ b ∈ m.inb, QP m.state b) →
      ∀ m ∈ branchOn.go parent dst c a nx, ∀ b ∈ m.inb, QP m.state b := by
  intro nx
  induction nx with
  | nil =>
    intro _ m hm b hb
    rw [Cover.go_nil] at hm
    rw [List.mem_singleton] at hm
    subst hm
    rw [Cover.appendEdge_inb] at hb
    rw [Cover.appendEdge_state]
    rcases List.mem_cons.1 hb with hb | hb
    · rw [hb]; exact hnew
    · simp only [Cover.freshNode] at hb; cases hb
  | cons n r ih =>
    intro hall m hm b hb
    rw [Cover.go_cons] at hm
    split at hm
    · rename_i hst
      rcases List.mem_cons.1 hm with hm | hm
      · subst hm
        rw [Cover.appendEdge_inb] at hb
        rw [Cover.appendEdge_state]
        rcases List.mem_cons.1 hb with hb | hb
        · rw [hb, hst]; exact hnew
        · exact hall n List.mem_cons_self b hb
      · exact hall m (List.mem_cons_of_mem _ hm) b hb
    · rcases List.mem_cons.1 hm with hm | hm
      · subst hm; exact hall _ List.mem_cons_self b hb
      · exact ih (fun m hm => hall m (List.mem_cons_of_mem _ hm)) m hm b hb

/-- `branchOn.go` loses no (state, decision, cost) triple and adds the new one -/
theorem go_kids (parent : Node S) (dst : S) (c : Int) (a : Arc) :
    ∀ nx : List (Node S), (∀ kid ∈ kidsOf nx, kid ∈ kidsOf (branchOn.go parent dst c a nx)) ∧
      (dst, a.dec, a.cost) ∈ kidsOf (branchOn.go parent dst c a nx) := by
  intro nx
  induction nx with
  | nil =>
    refine ⟨fun kid hk => ?_, ?_⟩
    · simp [kidsOf] at hk
    · rw [Cover.go_nil]
      exact mem_kidsOf.2 ⟨_, List.mem_singleton.2 rfl, a, by rw [Cover.appendEdge_inb]; exact List.mem_cons_self,
        by rw [Cover.appendEdge_state]; rfl⟩
  | cons n r ih =>
    rw [Cover.go_cons]
    split
    · rename_i hst
      refine ⟨fun kid hk => ?_, ?_⟩
      · obtain ⟨m, hm, b, hb, rfl⟩ := mem_kidsOf.1 hk
        rcases List.mem_cons.1 hm with hm | hm
        · subst hm
          exact mem_kidsOf.2 ⟨_, List.mem_cons_self, b, by rw [Cover.appendEdge_inb]; exact List.mem_cons_of_mem _ hb,
            by rw [Cover.appendEdge_state]⟩
        · exact mem_kidsOf.2 ⟨m, List.mem_cons_of_mem _ hm, b, hb, rfl⟩
      · exact mem_kidsOf.2 ⟨_, List.mem_cons_self, a, by rw [Cover.appendEdge_inb]; exact List.mem_cons_self,
          by rw [Cover.appendEdge_state, hst]⟩
    · refine ⟨fun kid hk => ?_, ?_⟩
      · obtain ⟨m, hm, b, hb, rfl⟩ := mem_kidsOf.1 hk
        rcases List.mem_cons.1 hm with hm | hm
        · subst hm; exact mem_kidsOf.2 ⟨_, List.mem_cons_self, b, hb, rfl⟩
        · obtain ⟨m', hm', b', hb', e⟩ := mem_kidsOf.1 (ih.1 _ (mem_kidsOf.2 ⟨m, hm, b, hb, rfl⟩))
          exact mem_kidsOf.2 ⟨m', List.mem_cons_of_mem _ hm', b', hb', e⟩
      · obtain ⟨m', hm', b', hb', e⟩ := mem_kidsOf.1 ih.2
        exact mem_kidsOf.2 ⟨m', List.mem_cons_of_mem _ hm', b', hb', e⟩

theorem branchOn_eq (cfg : Cfg S K) (parent : Node S) (pl pp : Nat) (d : Dec) (next : List (Node S)) :
    branchOn cfg parent pl pp d next =
      branchOn.go parent (cfg.P.trans parent.state d) (cfg.P.cost parent.state (cfg.P.trans parent.state d) d)
        ⟨pl, pp, d, cfg.P.cost parent.state (cfg.P.trans parent.state d) d⟩ next := rfl

/-- the triple of the model for the decision `v` on `var` in state `s` -/
def mkKid (cfg : Cfg S K) (s : S) (var : Nat) (v : Int) : S × Dec × Int :=
  (cfg.P.trans s ⟨var, v⟩, ⟨var, v⟩, cfg.P.cost s (cfg.P.trans s ⟨var, v⟩) ⟨var, v⟩)

/-- `branchAll`: soundness (every pair is an old one or a transition from `n'` on `var`) and completeness -/
theorem branchAll_pairs (QP : S → Arc → Prop) (cfg : Cfg S K) (var lidx p : Nat) (n' : Node S) :
    ∀ (ds : List Int) (acc : List (Node S) × List (Call S)),
      (∀ d ∈ ds, QP (cfg.P.trans n'.state ⟨var, d⟩)
        ⟨lidx, p, ⟨var, d⟩, cfg.P.cost n'.state (cfg.P.trans n'.state ⟨var, d⟩) ⟨var, d⟩⟩) →
      (∀ m ∈ acc.1, ∀ b ∈ m.inb, QP m.state b) →
      ∀ m ∈ (Cover.branchAll cfg var lidx p n' ds acc).1, ∀ b ∈ m.inb, QP m.state b := by
  intro ds
  induction ds with
  | nil => intro acc _ h; exact h
  | cons d ds ih =>
    intro acc hnew hall
    obtain ⟨nx, lg⟩ := acc
    rw [Cover.branchAll_cons]
    refine ih _ (fun d' hd' => hnew d' (List.mem_cons_of_mem _ hd')) ?_
    dsimp only
    rw [branchOn_eq]
    exact go_pairs QP _ _ _ _ (hnew d List.mem_cons_self) nx hall

theorem branchAll_kids (cfg : Cfg S K) (var lidx p : Nat) (n' : Node S) :
    ∀ (ds : List Int) (acc : List (Node S) × List (Call S)),
      (∀ kid ∈ kidsOf acc.1, kid ∈ kidsOf (Cover.branchAll cfg var lidx p n' ds acc).1) ∧
      ∀ d ∈ ds, mkKid cfg n'.state var d ∈ kidsOf (Cover.branchAll cfg var lidx p n' ds acc).1 := by
  intro ds
  induction ds with
  | nil => intro acc; exact ⟨fun kid h => h, fun d hd => by cases hd⟩
  | cons d ds ih =>
    intro acc
    obtain ⟨nx, lg⟩ := acc
    rw [Cover.branchAll_cons]
    obtain ⟨h1, h2⟩ := ih (branchOn cfg n' lidx p ⟨var, d⟩ nx,
      Call.cost n'.state (cfg.P.trans n'.state ⟨var, d⟩) ⟨var, d⟩ :: Call.trans n'.state ⟨var, d⟩ :: lg)
    have hg := go_kids n' (cfg.P.trans n'.state ⟨var, d⟩) (cfg.P.cost n'.state (cfg.P.trans n'.state ⟨var, d⟩) ⟨var, d⟩)
      ⟨lidx, p, ⟨var, d⟩, cfg.P.cost n'.state (cfg.P.trans n'.state ⟨var, d⟩) ⟨var, d⟩⟩ nx
    rw [← branchOn_eq] at hg
    refine ⟨fun kid hk => h1 kid (hg.1 kid hk), fun d' hd' => ?_⟩
    rcases List.mem_cons.1 hd' with rfl | hd'
    · exact h1 _ hg.2
    · exact h2 d' hd'

/-- `expF`, soundness: the pairs (state, arc) of the new pool are those of the skipped nodes, or transitions on `var` out of
    a state of the layer -/
theorem expF_pairs (QP : S → Arc → Prop) (cfg : Cfg S K) (var lidx : Nat) (layer rest : List (Node S)) (cur : List Nat)
    (log : List (Call S))
    (hrest : ∀ m ∈ rest, ∀ b ∈ m.inb, QP m.state b)
    (hnew : ∀ q ∈ cur, ∀ n, layer[q]? = some n → ∀ d ∈ cfg.P.domain var n.state,
      QP (cfg.P.trans n.state ⟨var, d⟩) ⟨lidx, q, ⟨var, d⟩, cfg.P.cost n.state (cfg.P.trans n.state ⟨var, d⟩) ⟨var, d⟩⟩) :
    ∀ m ∈ (expF cfg var lidx layer rest cur log).2.1, ∀ b ∈ m.inb, QP m.state b := by
  unfold expF
  refine (Ddo.foldl_inv (fun acc : List (Node S) × List (Node S) × List (Call S) =>
    acc.1.map Cover.key = layer.map Cover.key ∧ ∀ m ∈ acc.2.1, ∀ b ∈ m.inb, QP m.state b) _ cur _ ⟨rfl, hrest⟩ ?_).2
  intro acc q hq ⟨hk, hall⟩
  refine ⟨by rw [Cover.expandOne_keys]; exact hk, ?_⟩
  obtain ⟨ly, nx, lg⟩ := acc
  cases h : ly[q]? with
  | none => rw [Cover.expandOne_none _ _ _ _ _ _ _ h]; exact hall
  | some n =>
    rw [Cover.expandOne_some _ _ _ _ _ _ _ n h]
    -- the state of the layer at position `q` is unchanged
    have hk2 : (layer[q]?).map Cover.key = some (Cover.key n) := by
      have := Cover.getElem?_of_map_key ly _ hk q
      rw [Cover.getElem?_of_map_key layer _ rfl q, h] at this
      exact this
    cases hl : layer[q]? with
    | none => rw [hl] at hk2; cases hk2
    | some n0 =>
      rw [hl] at hk2
      simp only [Option.map_some, Option.some.injEq, Cover.key, Prod.mk.injEq] at hk2
      split
      · dsimp only at hall ⊢
        refine branchAll_pairs QP cfg var lidx q _ _ _ ?_ hall
        intro d hd
        have := hnew q hq n0 hl d (hk2.1 ▸ hd)
        rw [hk2.1] at this
        exact this
      · exact hall

/-- `expF`, completeness: the triples of the skipped nodes stay, and every transition on `var` out of an expanded position
    that passes the rough-bound test is there -/
theorem expF_kids (cfg : Cfg S K) (var lidx : Nat) (layer rest : List (Node S)) (cur : List Nat) (log : List (Call S)) :
    ∀ q ∈ cur, ∀ n, layer[q]? = some n → satAdd (cfg.R.rub n.state) n.value > cfg.lb →
      ∀ d ∈ cfg.P.domain var n.state, mkKid cfg n.state var d ∈ kidsOf (expF cfg var lidx layer rest cur log).2.1 := by
  unfold expF
  suffices h : ∀ (cur : List Nat) (acc : List (Node S) × List (Node S) × List (Call S)),
      acc.1.map Cover.key = layer.map Cover.key →
      (∀ kid ∈ kidsOf acc.2.1, kid ∈ kidsOf (cur.foldl (expandOne cfg var lidx) acc).2.1) ∧
      ∀ q ∈ cur, ∀ n, layer[q]? = some n → satAdd (cfg.R.rub n.state) n.value > cfg.lb →
        ∀ d ∈ cfg.P.domain var n.state, mkKid cfg n.state var d ∈ kidsOf (cur.foldl (expandOne cfg var lidx) acc).2.1 from
    (h cur _ rfl).2
  intro cur
  induction cur with
  | nil => intro acc _; exact ⟨fun kid h => h, fun q hq => by cases hq⟩
  | cons p ps ih =>
    intro acc hk
    rw [List.foldl_cons]
    obtain ⟨h1, h2⟩ := ih (expandOne cfg var lidx acc p) (by rw [Cover.expandOne_keys]; exact hk)
    -- one expansion
    have hone : (∀ kid ∈ kidsOf acc.2.1, kid ∈ kidsOf (expandOne cfg var lidx acc p).2.1) ∧
        ∀ n, layer[p]? = some n → satAdd (cfg.R.rub n.state) n.value > cfg.lb →
          ∀ d ∈ cfg.P.domain var n.state, mkKid cfg n.state var d ∈ kidsOf (expandOne cfg var lidx acc p).2.1 := by
      obtain ⟨ly, nx, lg⟩ := acc
      cases h : ly[p]? with
      | none =>
        rw [Cover.expandOne_none _ _ _ _ _ _ _ h]
        refine ⟨fun kid h => h, fun n hn => ?_⟩
        have := Cover.getElem?_of_map_key ly _ hk p
        rw [Cover.getElem?_of_map_key layer _ rfl p, h, hn] at this
        cases this
      | some n1 =>
        rw [Cover.expandOne_some _ _ _ _ _ _ _ n1 h]
        have hk2 := Cover.getElem?_of_map_key ly _ hk p
        rw [Cover.getElem?_of_map_key layer _ rfl p, h] at hk2
        split
        · rename_i hrub
          dsimp only
          obtain ⟨b1, b2⟩ := branchAll_kids cfg var lidx p { n1 with rub := cfg.R.rub n1.state }
            (cfg.P.domain var n1.state) (nx, Call.domain var n1.state :: Call.rub n1.state :: lg)
          refine ⟨b1, fun n hn _ d hd => ?_⟩
          rw [hn] at hk2
          simp only [Option.map_some, Option.some.injEq, Cover.key, Prod.mk.injEq] at hk2
          have := b2 d (hk2.1 ▸ hd)
          dsimp only at this
          rw [show n.state = n1.state from hk2.1]
          exact this
        · rename_i hrub
          refine ⟨fun kid h => h, fun n hn hgt => ?_⟩
          rw [hn] at hk2
          simp only [Option.map_some, Option.some.injEq, Cover.key, Prod.mk.injEq] at hk2
          rw [hk2.1, hk2.2] at hgt
          exact absurd hgt hrub
    refine ⟨fun kid hkid => h1 kid (hone.1 kid hkid), fun q hq n hn hgt d hd => ?_⟩
    rcases List.mem_cons.1 hq with rfl | hq
    · exact h1 _ (hone.2 n hn hgt d hd)
    · exact h2 q hq n hn hgt d hd

/-- **what `rootKids` holds** (relaxed compilations): nothing as long as no layer is materialised; then — `dp` being the depth
    of the layer of index 0, i.e. the depth at which the root was expanded, on the variable `x` — transitions of the model
    out of the root state on `x` only, and all of them when the root passes the rough-bound test (no dominance rule) -/
structure KInv (cfg : Cfg S K) (pd : PD S K) : Prop where
  nil : pd.layers = [] → pd.rootKids = [] ∧ ∀ n ∈ pd.pool, n.inb = []
  kids : ∀ (dp : Nat) (ly : List (Node S)), pd.layers[0]? = some (dp, ly) →
    ∃ (x : Nat) (L : List S), cfg.P.nextVar dp L = some x ∧ cfg.root.state ∈ L ∧
      (∀ kid ∈ pd.rootKids, ∃ v ∈ cfg.P.domain x cfg.root.state, kid = mkKid cfg cfg.root.state x v) ∧
      (cfg.dom = none → satAdd (cfg.R.rub cfg.root.state) cfg.root.value > cfg.lb →
        ∀ v ∈ cfg.P.domain x cfg.root.state, mkKid cfg cfg.root.state x v ∈ pd.rootKids)

theorem initPD_kinv (cfg : Cfg S K) (cache : Cache S) (store : DomStore S K) (polls : Nat) :
    KInv cfg (initPD cfg cache store polls) := by
  refine ⟨fun _ => ⟨rfl, fun n hn => ?_⟩, fun dp ly hl => ?_⟩
  · simp only [initPD, List.mem_singleton] at hn; subst hn; rfl
  · simp only [initPD, List.getElem?_nil] at hl; cases hl

theorem fdOf_first (cfg : Cfg S K) (pd : PD S K) (var : Nat) (hemp : pd.layers = []) (hd : cfg.dom = none) :
    fdOf cfg pd var = (curNodes cfg pd var, List.range (curNodes cfg pd var).length, pd.store, true) := by
  have h2 : fcOf cfg pd var = (curNodes cfg pd var, List.range (curNodes cfg pd var).length) := by
    unfold fcOf
    rw [hemp]
    rfl
  unfold fdOf
  rw [h2]
  simp only [filterDom, hd]

theorem stepLayerP_kinv (cfg : Cfg S K) (hrel : cfg.ctype = .relaxed) (pd pd' : PD S K) (var : Nat)
    (hnv : cfg.P.nextVar pd.depth (pd.pool.map (·.state)) = some var) (hne : pd.pool ≠ [])
    (hR : PProgress.RInv cfg pd) (hK : KInv cfg pd) (h : stepLayerP cfg pd var = some pd') : KInv cfg pd' := by
  obtain ⟨layer, cur, ief, log, hs⟩ := stepLayerP_elim cfg pd pd' var h
  have hlayers := hs.layers
  have hpool := hs.pool
  have hkids := hs.kids
  by_cases hemp : pd.layers = []
  · -- nothing materialised so far: the pool holds copies of the root, without inbound arc
    obtain ⟨_, hinb⟩ := hK.nil hemp
    have hroot := hR.root0 hemp
    rw [hemp] at hkids hlayers
    simp only [List.isEmpty_nil, if_true, List.length_nil, List.nil_append] at hkids hlayers
    rw [hemp] at hpool
    simp only [List.length_nil] at hpool
    have hrestinb : ∀ m ∈ restNodes cfg pd var, m.inb = [] := fun m hm => hinb m (List.mem_filter.1 hm).1
    have hrub := expF_rubEq cfg var 0 layer (restNodes cfg pd var) cur log
    by_cases hE : (expF cfg var 0 layer (restNodes cfg pd var) cur log).1.isEmpty = true
    · -- no layer
      have hnil : layer = [] := by
        have h4 := hrub.length
        rw [List.isEmpty_iff.1 hE] at h4
        exact List.eq_nil_of_length_eq_zero h4.symm
      rw [if_pos hE] at hlayers
      rw [hnil, expF_nil] at hpool hkids
      dsimp only at hpool hkids
      refine ⟨fun _ => ⟨?_, fun n hn => hrestinb n (by rw [hpool] at hn; exact hn)⟩, fun dp ly hl => ?_⟩
      · rw [hkids]
        cases hk : kidsOf (restNodes cfg pd var) with
        | nil => rfl
        | cons kid r =>
          exfalso
          have : kid ∈ kidsOf (restNodes cfg pd var) := by rw [hk]; exact List.mem_cons_self
          obtain ⟨m, hm, b, hb, _⟩ := mem_kidsOf.1 this
          rw [hrestinb m hm] at hb; cases hb
      · rw [hlayers] at hl; simp only [List.getElem?_nil] at hl; cases hl
    · -- the first layer: the root is expanded
      rw [if_neg hE] at hlayers
      have hLC := layer_core cfg hrel pd var layer cur ief log hs.sq (by rw [hemp]; exact Nat.zero_lt_two)
      have hlay : ∀ (q : Nat) (n : Node S), layer[q]? = some n → n.state = cfg.root.state ∧ n.value = cfg.root.value := by
        intro q n hn
        obtain ⟨m, hm, _, _, h2, h3, _⟩ := hLC n (List.mem_of_getElem? hn)
        obtain ⟨r1, r2, _⟩ := hroot m hm
        exact ⟨h2.symm.trans r1, h3.symm.trans r2⟩
      refine ⟨fun h0 => (by rw [hlayers] at h0; cases h0), fun dp ly hl => ?_⟩
      rw [hlayers] at hl
      simp only [List.getElem?_cons_zero, Option.some.injEq, Prod.mk.injEq] at hl
      obtain ⟨rfl, _⟩ := hl
      have hmemL : cfg.root.state ∈ pd.pool.map (·.state) := by
        cases hp : pd.pool with
        | nil => exact absurd hp hne
        | cons m r =>
          have := (hroot m (by rw [hp]; exact List.mem_cons_self)).1
          rw [← this]
          exact List.mem_map_of_mem (by exact List.mem_cons_self)
      refine ⟨var, pd.pool.map (·.state), hnv, hmemL, ?_, ?_⟩
      · -- soundness
        intro kid hkid
        rw [hkids] at hkid
        obtain ⟨m, hm, b, hb, rfl⟩ := mem_kidsOf.1 hkid
        exact expF_pairs (fun s b => ∃ v ∈ cfg.P.domain var cfg.root.state, (s, b.dec, b.cost) = mkKid cfg cfg.root.state var v)
          cfg var 0 layer (restNodes cfg pd var) cur log
          (fun m hm b hb => by rw [hrestinb m hm] at hb; cases hb)
          (fun q _ n hn d hd => by
            obtain ⟨e1, _⟩ := hlay q n hn
            rw [e1] at hd ⊢
            exact ⟨d, hd, rfl⟩) m hm b hb
      · -- completeness
        intro hd hgt v hv
        rw [hkids]
        have hfd := fdOf_first cfg pd var hemp hd
        have hshape : layer = curNodes cfg pd var ∧ cur = List.range (curNodes cfg pd var).length := by
          cases hs.sq with
          | restrict hc _ _ _ _ _ => rw [hrel] at hc; cases hc
          | relax _ _ h2 _ _ _ _ _ => rw [hemp] at h2; simp at h2
          | keep _ _ hl hc _ _ => rw [hfd] at hl hc; exact ⟨hl, hc⟩
        have hlne : layer ≠ [] := by
          intro h0
          apply hE
          have h4 := hrub.length
          have h5 : layer.length = 0 := by rw [h0]; rfl
          exact List.isEmpty_iff.2 (List.eq_nil_of_length_eq_zero (h4.trans h5))
        obtain ⟨n0, r, hl0⟩ : ∃ n0 r, layer = n0 :: r := by
          cases hl0 : layer with
          | nil => exact absurd hl0 hlne
          | cons n0 r => exact ⟨n0, r, rfl⟩
        · have hn0 : layer[0]? = some n0 := by rw [hl0]; rfl
          obtain ⟨e1, e2⟩ := hlay 0 n0 hn0
          have h0cur : 0 ∈ cur := by
            rw [hshape.2, ← hshape.1, hl0]
            exact List.mem_range.2 (by simp)
          have := expF_kids cfg var 0 layer (restNodes cfg pd var) cur log 0 h0cur n0 hn0 (by rw [e1, e2]; exact hgt) v
            (by rw [e1]; exact hv)
          rw [e1] at this
          exact this
  · -- the root was expanded before: nothing changes
    have hne0 : pd.layers.isEmpty = false := by
      cases hl : pd.layers with
      | nil => exact absurd hl hemp
      | cons _ _ => rfl
    rw [hne0] at hkids
    simp only [Bool.false_eq_true, if_false] at hkids
    have h0 : pd'.layers[0]? = pd.layers[0]? := by
      rw [hlayers]
      split
      · rfl
      · cases hl : pd.layers with
        | nil => exact absurd hl hemp
        | cons a r => rfl
    refine ⟨fun hnil => ?_, fun dp ly hl => ?_⟩
    · exfalso
      rw [hlayers] at hnil
      split at hnil
      · exact hemp hnil
      · cases hl : pd.layers with
        | nil => exact absurd hl hemp
        | cons a r => rw [hl] at hnil; cases hnil
    · rw [h0] at hl
      rw [hkids]
      exact hK.kids dp ly hl

/-- `RInv` and `KInv` at the exit of the top-down build of a relaxed compilation -/
theorem buildLoopP_kinv (cfg : Cfg S K) (hrel : cfg.ctype = .relaxed) (stopAt : Option Nat) :
    ∀ (fuel : Nat) (pd : PD S K), PProgress.RInv cfg pd → KInv cfg pd →
      PProgress.RInv cfg (buildLoopP cfg stopAt fuel pd).1 ∧ KInv cfg (buildLoopP cfg stopAt fuel pd).1 := by
  intro fuel
  induction fuel with
  | zero => intro pd h1 h2; exact ⟨h1, h2⟩
  | succ fuel ih =>
    intro pd hR hK
    have hcongr : ∀ pd' : PD S K, pd'.layers = pd.layers → pd'.pool = pd.pool → pd'.depth = pd.depth →
        pd'.rootKids = pd.rootKids → PProgress.RInv cfg pd' ∧ KInv cfg pd' := by
      intro pd' hl hn hd hk
      refine ⟨hR.congr hl hn hd, ?_⟩
      obtain ⟨k1, k2⟩ := hK
      exact ⟨hl ▸ hn ▸ hk ▸ k1, hl ▸ hk ▸ k2⟩
    cases buildLoopP_cases cfg stopAt fuel pd with
    | none _ hb => rw [hb]; exact hcongr _ rfl rfl rfl rfl
    | cutoff _ _ hb => rw [hb]; exact hcongr _ rfl rfl rfl rfl
    | empty _ _ _ hb => rw [hb]; exact hcongr _ rfl rfl rfl rfl
    | crash _ _ _ hb => rw [hb]; exact hcongr _ rfl rfl rfl rfl
    | step var pd' hnv hne hst hb =>
      rw [hb]
      obtain ⟨hR2, hK2⟩ := hcongr (polled cfg pd) rfl rfl rfl rfl
      exact ih pd' (stepLayerP_rinv cfg hrel _ pd' var hR2 hst)
        (stepLayerP_kinv cfg hrel (polled cfg pd) pd' var hnv hne hR2 hK2 hst)


/-! ## 2. the cut-set of the repaired `finalizeP` in terms of the cut-set of `finalizePOld` -/

theorem subP_eq (cfg : Cfg S K) (L3 : List (List (Node S))) (bv : Int) (n : Node S) :
    subP cfg L3 bv n = subOf cfg L3 bv n := rfl

/-- a sub-problem of the new cut-set comes from a frontier position `lp`: it is what the old code hands out for it, unless
    `lp` lies in the layer of index 0 (the root) — then it is a child of the root -/
theorem finalizeP_cutset_cases (cfg : Cfg S K) (pd : PD S K) (e : Bool) (c : SubP S)
    (hc : c ∈ (finalizeP cfg pd e).cutset) :
    ∃ (bv : Int) (lp : Nat × Nat) (n : Node S), maxValue (termsP pd) = some bv ∧
      lp ∈ (if pd.isExactField then [] else cs0P cfg pd) ∧
      getNode (layers3P cfg pd e) lp.1 lp.2 = some n ∧ n.marked = true ∧
      subOf cfg (layers3P cfg pd e) bv n ∈ (finalizePOld cfg pd e).cutset ∧
      ((lp.1 ≠ 0 ∧ c = subOf cfg (layers3P cfg pd e) bv n) ∨
       (lp.1 = 0 ∧ ∃ kid ∈ pd.rootKids, c = kidSub cfg (subOf cfg (layers3P cfg pd e) bv n) kid)) := by
  rw [finalizeP_cutset_new] at hc
  split at hc
  · cases hc
  · rename_i bv hbv
    obtain ⟨lp, hlp, hin⟩ := List.mem_flatMap.1 hc
    split at hin
    · rename_i n hn
      split at hin
      · rename_i hmk
        have hold : subOf cfg (layers3P cfg pd e) bv n ∈ (finalizePOld cfg pd e).cutset :=
          (finalizeP_cutset_iff cfg pd e _).2 ⟨bv, lp, n, hbv, hlp, hn, hmk, rfl⟩
        refine ⟨bv, lp, n, hbv, hlp, hn, hmk, hold, ?_⟩
        split at hin
        · rename_i h0
          obtain ⟨kid, hkid, rfl⟩ := List.mem_map.1 hin
          exact .inr ⟨h0, kid, hkid, rfl⟩
        · rename_i h0
          rw [List.mem_singleton] at hin
          exact .inl ⟨h0, hin⟩
      · cases hin
    · cases hin

/-- conversely -/
theorem finalizeP_cutset_of (cfg : Cfg S K) (pd : PD S K) (e : Bool)
    (bv : Int) (lp : Nat × Nat) (n : Node S) (hbv : maxValue (termsP pd) = some bv)
    (hlp : lp ∈ (if pd.isExactField then [] else cs0P cfg pd))
    (hn : getNode (layers3P cfg pd e) lp.1 lp.2 = some n) (hmk : n.marked = true) :
    (lp.1 ≠ 0 → subOf cfg (layers3P cfg pd e) bv n ∈ (finalizeP cfg pd e).cutset) ∧
    (lp.1 = 0 → ∀ kid ∈ pd.rootKids,
      kidSub cfg (subOf cfg (layers3P cfg pd e) bv n) kid ∈ (finalizeP cfg pd e).cutset) := by
  rw [finalizeP_cutset_new, hbv]
  dsimp only
  refine ⟨fun h0 => List.mem_flatMap.2 ⟨lp, hlp, ?_⟩, fun h0 kid hkid => List.mem_flatMap.2 ⟨lp, hlp, ?_⟩⟩
  · rw [hn]
    dsimp only
    rw [if_pos hmk, if_neg h0]
    exact List.mem_singleton.2 rfl
  · rw [hn]
    dsimp only
    rw [if_pos hmk, if_pos h0]
    exact List.mem_map.2 ⟨kid, hkid, rfl⟩

/-- the node behind a frontier position of a relaxed pooled diagram: it sits in a materialised layer, at the depth of that
    layer; in the layer of index 0 it is the root, with an empty best path -/
theorem frontier_node (cfg : Cfg S K) (pd : PD S K) (e : Bool) (hR : PProgress.RInv cfg pd)
    (hdep : ∀ (l dp : Nat) (ly : List (Node S)), pd.layers[l]? = some (dp, ly) → ∀ n ∈ ly, n.isExact = true → n.depth = dp)
    (lp : Nat × Nat) (hlp : lp ∈ (computeCutset .frontier 0 (pd.plain ++ [termsP pd])).2) (n : Node S)
    (hn : getNode (layers3P cfg pd e) lp.1 lp.2 = some n) :
    ∃ (dp : Nat) (ly : List (Node S)), pd.layers[lp.1]? = some (dp, ly) ∧ n.depth = dp ∧ cfg.root.depth + lp.1 ≤ dp ∧
      (lp.1 = 0 → n.state = cfg.root.state ∧ n.value = cfg.root.value ∧
        bestPath (layers3P cfg pd e) ((layers3P cfg pd e).length + 1) n = []) := by
  obtain ⟨n0, hn0, hex, l', p', m, a, hm, hmex, ha, hal, _⟩ := computeCutset_frontier 0 _ lp hlp
  have hx := layers3P_xEq cfg pd e
  obtain ⟨n0', hn0', hsn⟩ := hx.getNode_some hn
  rw [hn0] at hn0'
  cases hn0'
  obtain ⟨e1, e2, _, _, e5, e6⟩ := stripB_fields hsn
  rcases getNode_layers0 pd hn0 with ⟨dp, ly, hl, hmem', _⟩ | ⟨hl, m0, hm0, rfl⟩
  · have hd : n0.depth = dp := hdep lp.1 dp ly hl n0 hmem' hex
    refine ⟨dp, ly, hl, by rw [← e5]; exact hd, hR.depths lp.1 dp ly hl, fun h0 => ?_⟩
    rw [h0] at hl
    obtain ⟨r1, r2, r3, _⟩ := hR.rootL dp ly hl n0 hmem'
    refine ⟨e1.symm.trans r1, e2.symm.trans r2, ?_⟩
    have hnil := (BestChainP.root (layers := layers3P cfg pd e) 0).bestPath_eq n (e6.symm.trans r3)
      ((layers3P cfg pd e).length + 1) (Nat.zero_le _)
    rw [List.reverse_eq_nil_iff] at hnil
    exact hnil
  · -- a terminal node has no outgoing arc
    exfalso
    rcases getNode_layers0 pd hm with ⟨dp, ly, hl', hmem', _⟩ | ⟨hl', m1, hm1, rfl⟩
    · have h1 := hR.arcL l' dp ly hl' m hmem' a ha
      have h2 := Cover.lt_of_getElem?_some hl'
      omega
    · have h1 := hR.arcP m1 hm1 a ha
      omega

/-- outside relaxed compilations both cut-sets are empty -/
theorem finalizeP_cutset_nonrelaxed (cfg : Cfg S K) (pd : PD S K) (e : Bool) (hrel : cfg.ctype ≠ .relaxed) :
    (finalizeP cfg pd e).cutset = [] := by
  rw [List.eq_nil_iff_forall_not_mem]
  intro c hc
  obtain ⟨bv, lp, n, _, hlp, _⟩ := finalizeP_cutset_cases cfg pd e c hc
  split at hlp
  · cases hlp
  · rename_i hief
    unfold cs0P at hlp
    have : ((cfg.ctype == .relaxed) || pd.isExactField) = false := by
      cases hct : cfg.ctype <;> simp_all
    rw [this] at hlp
    simp at hlp


/-! ## 3. the four clauses of C08 for the repaired `compileP` -/

theorem satAdd_root_cost {cfg : Cfg S K} {B : Int} (hB : NoClamp cfg.P cfg.R cfg.root.value B) (s s' : S) (d : Dec) :
    satAdd cfg.root.value (cfg.P.cost s s' d) = cfg.root.value + cfg.P.cost s s' d := by
  have h1 := hB.root
  have h2 := hB.cost s s' d
  have h3 := hB.small
  have h4 := hB.nonneg
  have h5 : 2 * B ≤ ((cfg.P.nbVars : Int) + 2) * B := by
    have : (0 : Int) ≤ (cfg.P.nbVars : Int) := Int.natCast_nonneg _
    have := Int.mul_le_mul_of_nonneg_right (show (2 : Int) ≤ (cfg.P.nbVars : Int) + 2 by omega) h4
    exact this
  apply Cover.satAdd_eq
  · simp only [iMin]; omega
  · simp only [iMax]; omega

/-- what the root entry and one of the recorded children give, at the level of `finalizeP` -/
theorem kid_facts (cfg : Cfg S K) (pd : PD S K) (e : Bool) (hR : PProgress.RInv cfg pd) (hK : KInv cfg pd)
    (hdep : ∀ (l dp : Nat) (ly : List (Node S)), pd.layers[l]? = some (dp, ly) → ∀ n ∈ ly, n.isExact = true → n.depth = dp)
    (lp : Nat × Nat) (hlp : lp ∈ (computeCutset .frontier 0 (pd.plain ++ [termsP pd])).2) (n : Node S)
    (hn : getNode (layers3P cfg pd e) lp.1 lp.2 = some n) (h0 : lp.1 = 0) :
    ∃ (x : Nat) (L : List S), cfg.P.nextVar n.depth L = some x ∧ cfg.root.state ∈ L ∧
      n.state = cfg.root.state ∧ n.value = cfg.root.value ∧ cfg.root.depth ≤ n.depth ∧
      bestPath (layers3P cfg pd e) ((layers3P cfg pd e).length + 1) n = [] ∧
      (∀ kid ∈ pd.rootKids, ∃ v ∈ cfg.P.domain x cfg.root.state, kid = mkKid cfg cfg.root.state x v) ∧
      (cfg.dom = none → satAdd (cfg.R.rub cfg.root.state) cfg.root.value > cfg.lb →
        ∀ v ∈ cfg.P.domain x cfg.root.state, mkKid cfg cfg.root.state x v ∈ pd.rootKids) := by
  obtain ⟨dp, ly, hl, hd, hge, hroot⟩ := frontier_node cfg pd e hR hdep lp hlp n hn
  obtain ⟨r1, r2, r3⟩ := hroot h0
  rw [h0] at hl
  obtain ⟨x, L, hnv, hmem, hs, hc⟩ := hK.kids dp ly hl
  exact ⟨x, L, by rw [hd]; exact hnv, hmem, r1, r2, by omega, r3, hs, hc⟩

end Ddo.PFix

namespace Ddo.PTruth
open Ddo Ddo.Pooled Ddo.Truth Ddo.PFix Ddo.Bounds
variable {S K : Type} [DecidableEq S] [DecidableEq K]

/-- C08 (i) for the (repaired) pooled diagram in `PathRel` form: any compilation type, any cache / dominance configuration,
    any cutoff, both results -/
theorem cutset_rel_pooled (cfg : Cfg S K) (B : Int) (R : Nat → S → Int → List Dec → Prop)
    (hR : PathRel cfg.P R) (hroot : R cfg.root.depth cfg.root.state cfg.root.value [])
    (hB : NoClamp cfg.P cfg.R cfg.root.value B)
    (cache : Cache S) (store : DomStore S K) (polls : Nat) (stopAt : Option Nat)
    (hok : (compileP cfg cache store polls stopAt).1 = .ok) (r : Result S)
    (hr : r = (compileP cfg cache store polls stopAt).2.1 ∨ (compileP cfg cache store polls stopAt).2.2.1 = some r) :
    ∀ c ∈ r.cutset, ∃ q, R c.depth c.state c.value q ∧ c.path = cfg.root.path ++ q.reverse := by
  obtain ⟨e, rfl⟩ := Ddo.C08.compileP_results_ok cfg cache store polls stopAt hok r hr
  obtain ⟨k, _, hinv, _⟩ := buildLoopP_invR cfg B R hR hB stopAt (cfg.P.nbVars + 2) (initPD cfg cache store polls) 0
    (initPD_invR cfg B R hB hroot cache store polls) (by omega)
  intro c hc
  by_cases hrel : cfg.ctype = .relaxed
  case neg => rw [finalizeP_cutset_nonrelaxed cfg _ e hrel] at hc; cases hc
  obtain ⟨hRI, hKI⟩ := buildLoopP_kinv cfg hrel stopAt (cfg.P.nbVars + 2) (initPD cfg cache store polls)
    (PProgress.initPD_rinv cfg cache store polls) (initPD_kinv cfg cache store polls)
  generalize (buildLoopP cfg stopAt (cfg.P.nbVars + 2) (initPD cfg cache store polls)).1 = fin at hc hinv hRI hKI
  obtain ⟨bv, lp, n, hbv, hlp, hn, hmk, hold, hcase⟩ := finalizeP_cutset_cases cfg fin e c hc
  obtain ⟨q, hq, hpath⟩ := finalizeP_cutset_rel cfg B R fin k e hinv _ hold
  rcases hcase with ⟨_, rfl⟩ | ⟨h0, kid, hkid, rfl⟩
  · exact ⟨q, hq, hpath⟩
  · have hlp' : lp ∈ (computeCutset .frontier 0 (fin.plain ++ [termsP fin])).2 := by
      split at hlp
      · cases hlp
      · rw [PBounds.cs0P_relaxed cfg fin hrel] at hlp; exact hlp
    obtain ⟨x, L, hnv, hmem, r1, r2, _, r3, hs, _⟩ := kid_facts cfg fin e hRI hKI
      (fun l dp ly hl n hn hex => by obtain ⟨_, _, _, hok'⟩ := hinv.layers l dp ly hl; exact (hok' n hn).2 hex)
      lp hlp' n hn h0
    obtain ⟨v, hv, rfl⟩ := hs kid hkid
    simp only [subOf] at hq hpath
    rw [r3, List.append_nil] at hpath
    have hqnil : q = [] := by
      have := List.append_cancel_left (hpath.symm.trans (List.append_nil _).symm)
      exact List.reverse_eq_nil_iff.1 this
    rw [hqnil, r1, r2] at hq
    have hstep := hR.step n.depth cfg.root.state cfg.root.value [] L x v hq hnv hmem hv
    refine ⟨[⟨x, v⟩], ?_, ?_⟩
    · simp only [kidSub, subOf, mkKid]
      rw [r2, satAdd_root_cost hB]
      exact hstep
    · simp only [kidSub, mkKid, List.reverse_cons, List.reverse_nil, List.nil_append]

end Ddo.PTruth

namespace Ddo.PFix
open Ddo Ddo.Pooled Ddo.PProgress Ddo.PBounds Ddo.Bounds
variable {S K : Type} [DecidableEq S] [DecidableEq K]

/-- **C08 (ii) for the repaired pooled diagram — a theorem for every model, long arcs allowed**: the sub-problems of the
    cut-set of a relaxed pooled compilation are strictly deeper than the root sub-problem.  No structural hypothesis
    (`AllImpacted`, `SiblingsAlike`), any cache / dominance configuration, any cutoff, both results. -/
theorem cutset_progress_pooled (cfg : Cfg S K) (B : Int) (p0 : List Dec) (cache : Cache S)
    (store : DomStore S K) (polls : Nat) (stopAt : Option Nat) (hrel : cfg.ctype = .relaxed)
    (hroot : ReachSkip cfg.P cfg.root.depth cfg.root.state cfg.root.value p0)
    (hB : NoClamp cfg.P cfg.R cfg.root.value B)
    (hok : (compileP cfg cache store polls stopAt).1 = .ok) (r : Result S)
    (hr : r = (compileP cfg cache store polls stopAt).2.1 ∨ (compileP cfg cache store polls stopAt).2.2.1 = some r) :
    ∀ c ∈ r.cutset, cfg.root.depth < c.depth := by
  obtain ⟨e, rfl⟩ := C08.compileP_results_ok cfg cache store polls stopAt hok r hr
  obtain ⟨k, hinv, _⟩ := buildLoopP_inv cfg B p0 hB stopAt (cfg.P.nbVars + 2) (initPD cfg cache store polls) 0
    (initPD_inv cfg B p0 hB hroot cache store polls) (by omega)
  obtain ⟨hRI, hKI⟩ := buildLoopP_kinv cfg hrel stopAt (cfg.P.nbVars + 2) (initPD cfg cache store polls)
    (PProgress.initPD_rinv cfg cache store polls) (initPD_kinv cfg cache store polls)
  intro c hc
  generalize (buildLoopP cfg stopAt (cfg.P.nbVars + 2) (initPD cfg cache store polls)).1 = fin at hc hinv hRI hKI
  obtain ⟨bv, lp, n, hbv, hlp, hn, hmk, hold, hcase⟩ := finalizeP_cutset_cases cfg fin e c hc
  have hlp' : lp ∈ (computeCutset .frontier 0 (fin.plain ++ [termsP fin])).2 := by
    split at hlp
    · cases hlp
    · rw [cs0P_relaxed cfg fin hrel] at hlp; exact hlp
  obtain ⟨dp, ly, hl, hd, hge, _⟩ := frontier_node cfg fin e hRI
    (fun l dp ly hl n hn hex => by obtain ⟨_, _, _, hok'⟩ := hinv.layers l dp ly hl; exact (hok' n hn).2 hex)
    lp hlp' n hn
  rcases hcase with ⟨h0, rfl⟩ | ⟨h0, kid, hkid, rfl⟩
  · simp only [subOf]
    omega
  · simp only [kidSub, subOf]
    omega

end Ddo.PFix

namespace Ddo.PBounds
open Ddo Ddo.Pooled Ddo.Bounds Ddo.PFix
variable {S K : Type} [DecidableEq S] [DecidableEq K]

/-- the cut-set of the repaired `finalizeP` is empty when the old one is -/
theorem finalizeP_cutset_nil_of_old (cfg : Cfg S K) (pd : PD S K) (e : Bool) (h : (finalizePOld cfg pd e).cutset = []) :
    (finalizeP cfg pd e).cutset = [] := by
  rw [List.eq_nil_iff_forall_not_mem]
  intro c hc
  obtain ⟨_, _, _, _, _, _, _, hold, _⟩ := finalizeP_cutset_cases cfg pd e c hc
  rw [h] at hold
  cases hold

/-- **C08 (iii), (repaired) pooled diagram, long arcs allowed**: the upper bound of a cut-set sub-problem is valid.
    No hypothesis `cfg.lb < iMax`: with `lb = isize::MAX` the cut-set is empty (`compileP_lbmax_cutset`).  A child of the
    root handed out in place of the root carries the bound of the root, which dominates the potential of the root, hence
    (`SkipWf.le`) that of the child. -/
theorem cutset_ub_valid_pooled' (cfg : Cfg S K) (H : Nat → S → EInt) (B : Int) (p0 : List Dec) (cache : Cache S)
    (store : DomStore S K) (polls : Nat) (stopAt : Option Nat)
    (hrel : cfg.ctype = .relaxed) (hcache : cfg.useCache = false) (hdom : cfg.dom = none) (hW : 1 ≤ cfg.width)
    (hP : Potential cfg.P H) (hS : SkipWf cfg.P H) (hR : RubOk cfg.R H) (hM : MergeOk cfg.R H)
    (hAM : Cover.AttMerge cfg.P cfg.R H)
    (hB : NoClamp cfg.P cfg.R cfg.root.value B) (hlb : InI cfg.lb)
    (hroot : ReachSkip cfg.P cfg.root.depth cfg.root.state cfg.root.value p0)
    (hok : (compileP cfg cache store polls stopAt).1 = .ok) (r : Result S)
    (hr : r = (compileP cfg cache store polls stopAt).2.1 ∨ (compileP cfg cache store polls stopAt).2.2.1 = some r) :
    ∀ c ∈ r.cutset, ∀ x, (H c.depth c.state).addI c.value = some x → x > cfg.lb → x ≤ c.ub := by
  intro c hc x hΦ hx
  -- with `lb = isize::MAX` every node is pruned and the cut-set is empty
  by_cases hlb' : cfg.lb < iMax
  case neg =>
    exfalso
    have hlbeq : cfg.lb = iMax := by unfold InI at hlb; omega
    obtain ⟨e, rfl⟩ := C08.compileP_results_ok cfg cache store polls stopAt hok r hr
    rw [finalizeP_cutset_nil_of_old cfg _ e
      (compileP_lbmax_cutset cfg hlbeq hrel hW hcache hdom cache store polls stopAt e)] at hc
    cases hc
  have hclamp : ∀ y, x ≤ y → clamp y > cfg.lb := by
    intro y hy
    unfold InI at hlb
    unfold clamp
    simp only [iMin, iMax] at *
    omega
  have hy : HypP cfg H B x := ⟨hrel, hcache, hdom, hW, hP, hS, hR, hM, hAM, hB, hclamp⟩
  obtain ⟨e, rfl⟩ := C08.compileP_results_ok cfg cache store polls stopAt hok r hr
  obtain ⟨k', hinv, _⟩ := buildLoopP_inv cfg B p0 hB stopAt (cfg.P.nbVars + 2) (initPD cfg cache store polls) 0
    (initPD_inv cfg B p0 hB hroot cache store polls) (by omega)
  obtain ⟨hRI, hKI⟩ := buildLoopP_kinv cfg hrel stopAt (cfg.P.nbVars + 2) (initPD cfg cache store polls)
    (PProgress.initPD_rinv cfg cache store polls) (initPD_kinv cfg cache store polls)
  obtain ⟨Live, k, hI, hk, hterm⟩ := compileP_done cfg H B x hy cache store polls stopAt hok
  generalize (buildLoopP cfg stopAt (cfg.P.nbVars + 2) (initPD cfg cache store polls)).1 = fin at hc hinv hI hterm hRI hKI
  have hdep : ∀ (l dp : Nat) (ly : List (Node S)), fin.layers[l]? = some (dp, ly) → ∀ n ∈ ly, n.isExact = true →
      n.depth = dp := fun l dp ly hl n hn hex => by
    obtain ⟨_, _, _, hok'⟩ := hinv.layers l dp ly hl
    exact (hok' n hn).2 hex
  obtain ⟨bv, lp, n, hbv, hlp, hn, hmk, hold, hcase⟩ := finalizeP_cutset_cases cfg fin e c hc
  rcases hterm with hemp | hnone
  · rw [finalizeP_cutset_of_empty cfg fin e hemp] at hold; cases hold
  have hf : FinP cfg H B x Live fin k := ⟨hI, hnone, hk, hdep⟩
  rcases hcase with ⟨_, rfl⟩ | ⟨h0, kid, hkid, rfl⟩
  · exact FinP.cutset_ub hf hy hlb e _ hold x hΦ (Int.le_refl _) hx
  · have hlp' : lp ∈ (computeCutset .frontier 0 (fin.plain ++ [termsP fin])).2 := by
      split at hlp
      · cases hlp
      · rw [cs0P_relaxed cfg fin hrel] at hlp; exact hlp
    obtain ⟨x0, L, hnv, hmem, r1, r2, _, r3, hs, _⟩ := kid_facts cfg fin e hRI hKI hdep lp hlp' n hn h0
    obtain ⟨v, hv, rfl⟩ := hs kid hkid
    -- the root entry is reached by `p0`
    obtain ⟨q, hq, hpath⟩ := finalizeP_cutset_exact cfg B p0 fin k' e hinv _ hold
    simp only [subOf] at hq hpath
    rw [r3, List.append_nil] at hpath
    have hqnil : q = [] := by
      have := List.append_cancel_left (hpath.symm.trans (List.append_nil _).symm)
      exact List.reverse_eq_nil_iff.1 this
    rw [hqnil, r1, r2] at hq
    have hle := Truth.addI_step (v := cfg.root.value) (hS.le n.depth L x0 cfg.root.state cfg.root.value _ v hq hnv hmem hv)
    simp only [kidSub, subOf, mkKid] at hΦ ⊢
    rw [r2, satAdd_root_cost hB] at hΦ
    rw [hΦ] at hle
    cases hH0 : (H n.depth cfg.root.state).addI cfg.root.value with
    | none => rw [hH0] at hle; exact absurd hle (by simp)
    | some y =>
      rw [hH0] at hle
      have hxy : x ≤ y := by simpa using hle
      have := FinP.cutset_ub hf hy hlb e _ hold y (by simp only [subOf]; rw [r1, r2]; exact hH0) hxy (by omega)
      simp only [subOf] at this
      omega

/-- **C08 (iii), pooled diagram, long arcs allowed**, as first stated (with the redundant hypothesis `cfg.lb < iMax`) -/
theorem cutset_ub_valid_pooled (cfg : Cfg S K) (H : Nat → S → EInt) (B : Int) (p0 : List Dec) (cache : Cache S)
    (store : DomStore S K) (polls : Nat) (stopAt : Option Nat)
    (hrel : cfg.ctype = .relaxed) (hcache : cfg.useCache = false) (hdom : cfg.dom = none) (hW : 1 ≤ cfg.width)
    (hP : Potential cfg.P H) (hS : SkipWf cfg.P H) (hR : RubOk cfg.R H) (hM : MergeOk cfg.R H)
    (hAM : Cover.AttMerge cfg.P cfg.R H)
    (hB : NoClamp cfg.P cfg.R cfg.root.value B) (hlb : InI cfg.lb) (hlb' : cfg.lb < iMax)
    (hroot : ReachSkip cfg.P cfg.root.depth cfg.root.state cfg.root.value p0)
    (hok : (compileP cfg cache store polls stopAt).1 = .ok) (r : Result S)
    (hr : r = (compileP cfg cache store polls stopAt).2.1 ∨ (compileP cfg cache store polls stopAt).2.2.1 = some r) :
    ∀ c ∈ r.cutset, ∀ x, (H c.depth c.state).addI c.value = some x → x > cfg.lb → x ≤ c.ub :=
  cutset_ub_valid_pooled' cfg H B p0 cache store polls stopAt hrel hcache hdom hW hP hS hR hM hAM hB hlb hroot hok r hr

/-- **C08 (iv), (repaired) pooled diagram, long arcs allowed**: the cut-set covers the root sub-problem, in potential form.
    When the old cut-set covers it with the root itself, the child of the root that attains the potential of the root
    (`Potential.att`) is among the children handed out in its place. -/
theorem cutset_cover_pooled (cfg : Cfg S K) (H : Nat → S → EInt) (B : Int) (p0 : List Dec) (cache : Cache S)
    (store : DomStore S K) (polls : Nat) (stopAt : Option Nat)
    (hrel : cfg.ctype = .relaxed) (hcache : cfg.useCache = false) (hdom : cfg.dom = none) (hW : 1 ≤ cfg.width)
    (hP : Potential cfg.P H) (hS : SkipWf cfg.P H) (hR : RubOk cfg.R H) (hM : MergeOk cfg.R H)
    (hAM : Cover.AttMerge cfg.P cfg.R H)
    (hB : NoClamp cfg.P cfg.R cfg.root.value B) (hlb : InI cfg.lb)
    (hroot : ReachSkip cfg.P cfg.root.depth cfg.root.state cfg.root.value p0)
    (o : Int) (ho : optOf H cfg.root = some o) (hgt : o > cfg.lb) (hO : o ≤ iMax ∨ cfg.lb < iMax)
    (hok : (compileP cfg cache store polls stopAt).1 = .ok) (r : Result S)
    (hr : r = (compileP cfg cache store polls stopAt).2.1 ∨ (compileP cfg cache store polls stopAt).2.2.1 = some r)
    (hbe : ∀ be, r.bestExactValue = some be → be < o) :
    ∃ c ∈ r.cutset, ∃ y, (H c.depth c.state).addI c.value = some y ∧ o ≤ y := by
  have hclamp : ∀ y, o ≤ y → clamp y > cfg.lb := by
    intro y hy
    unfold InI at hlb
    unfold clamp
    simp only [iMin, iMax] at *
    omega
  have hy : HypP cfg H B o := ⟨hrel, hcache, hdom, hW, hP, hS, hR, hM, hAM, hB, hclamp⟩
  obtain ⟨h0, hH0, ho0⟩ := addI_some ho
  have ht : o ≤ cfg.root.value + h0 := by omega
  obtain ⟨e, rfl⟩ := C08.compileP_results_ok cfg cache store polls stopAt hok r hr
  obtain ⟨k', hinv, _⟩ := buildLoopP_inv cfg B p0 hB stopAt (cfg.P.nbVars + 2) (initPD cfg cache store polls) 0
    (initPD_inv cfg B p0 hB hroot cache store polls) (by omega)
  obtain ⟨hRI, hKI⟩ := buildLoopP_kinv cfg hrel stopAt (cfg.P.nbVars + 2) (initPD cfg cache store polls)
    (PProgress.initPD_rinv cfg cache store polls) (initPD_kinv cfg cache store polls)
  obtain ⟨Live, k, hI, hk, hterm⟩ := compileP_done cfg H B o hy cache store polls stopAt hok
  generalize (buildLoopP cfg stopAt (cfg.P.nbVars + 2) (initPD cfg cache store polls)).1 = fin at hbe hinv hI hterm hRI hKI ⊢
  have hdep : ∀ (l dp : Nat) (ly : List (Node S)), fin.layers[l]? = some (dp, ly) → ∀ n ∈ ly, n.isExact = true →
      n.depth = dp := fun l dp ly hl n hn hex => by
    obtain ⟨_, _, _, hok'⟩ := hinv.layers l dp ly hl
    exact (hok' n hn).2 hex
  rcases hterm with hemp | hnone
  · exfalso
    obtain ⟨m, hm, _⟩ := hI.cover_root h0 hH0 ht
    rw [hemp] at hm; cases hm
  have hf : FinP cfg H B o Live fin k := ⟨hI, hnone, hk, hdep⟩
  obtain ⟨c0, hc0, y, hy0, hoy⟩ := FinP.cutset_cover hf hy e h0 hH0 ht hbe
  obtain ⟨bv, lp, n, hbv, hlp, hn, hmk, rfl⟩ := (finalizeP_cutset_iff cfg fin e c0).1 hc0
  obtain ⟨hA, hBk⟩ := finalizeP_cutset_of cfg fin e bv lp n hbv hlp hn hmk
  by_cases hz : lp.1 = 0
  case neg => exact ⟨_, hA hz, y, hy0, hoy⟩
  have hlp' : lp ∈ (computeCutset .frontier 0 (fin.plain ++ [termsP fin])).2 := by
    split at hlp
    · cases hlp
    · rw [cs0P_relaxed cfg fin hrel] at hlp; exact hlp
  obtain ⟨x0, L, hnv, hmem, r1, r2, _, r3, _, hfull⟩ := kid_facts cfg fin e hRI hKI hdep lp hlp' n hn hz
  simp only [subOf] at hy0
  rw [r1, r2] at hy0
  obtain ⟨h, hH, hyh⟩ := addI_some hy0
  obtain ⟨v, hv, h', hH', hle⟩ := hP.att n.depth L x0 cfg.root.state h hnv hmem hH
  have hrub := hR _ _ _ hH
  have hgt' : satAdd (cfg.R.rub cfg.root.state) cfg.root.value > cfg.lb := by
    unfold satAdd
    exact hclamp _ (by omega)
  refine ⟨_, hBk hz _ (hfull hdom hgt' v hv), h' + (cfg.root.value + cfg.P.cost cfg.root.state
    (cfg.P.trans cfg.root.state ⟨x0, v⟩) ⟨x0, v⟩), ?_, by omega⟩
  simp only [kidSub, subOf, mkKid]
  rw [r2, satAdd_root_cost hB, hH']
  rfl

end Ddo.PBounds

/-! ## non-vacuity: the tiny model **with a long arc** of `Proofs/PooledBounds.lean`

Before the repair its cut-set was the root and its child of depth 1 (`compilePOld`); the repaired code hands out the two
children of the root in place of the root. -/
namespace Ddo.PBounds.TinyLong
open Ddo Ddo.Pooled

example : (compilePOld cfg (Cache.init 4) (DomStore.init 4) 0 none).2.1.cutset.map
    (fun c => (c.state, c.value, c.ub, c.depth)) = [(0, 0, 3, 0), (1, 1, 3, 1)] := by decide

/-- the cut-set `(state, value, ub, depth)`; potentials `2`, `3`, `3`: the bounds are valid (and tight for the child `1`) -/
example : (compileP cfg (Cache.init 4) (DomStore.init 4) 0 none).2.1.cutset.map
    (fun c => (c.state, c.value, c.ub, c.depth)) = [(0, 0, 3, 1), (1, 1, 3, 1), (1, 1, 3, 1)] := by decide

example : ∀ c ∈ (compileP cfg (Cache.init 4) (DomStore.init 4) 0 none).2.1.cutset, 0 < c.depth :=
  PFix.cutset_progress_pooled cfg 1 [] (Cache.init 4) (DomStore.init 4) 0 none rfl ReachSkip.root noClamp (by decide) _
    (.inl rfl)

example : ∀ c ∈ (compileP cfg (Cache.init 4) (DomStore.init 4) 0 none).2.1.cutset, ∀ x,
    (H c.depth c.state).addI c.value = some x → x > cfg.lb → x ≤ c.ub :=
  cutset_ub_valid_pooled cfg H 1 [] (Cache.init 4) (DomStore.init 4) 0 none rfl rfl rfl (by decide)
    potential skipWf rubOk mergeOk attMerge noClamp (by decide) (by decide) ReachSkip.root (by decide) _ (.inl rfl)

example : ∃ c ∈ (compileP cfg (Cache.init 4) (DomStore.init 4) 0 none).2.1.cutset, ∃ y,
    (H c.depth c.state).addI c.value = some y ∧ 3 ≤ y :=
  cutset_cover_pooled cfg H 1 [] (Cache.init 4) (DomStore.init 4) 0 none rfl rfl rfl (by decide)
    potential skipWf rubOk mergeOk attMerge noClamp (by decide) ReachSkip.root 3 rfl (by decide)
    (.inl (by decide)) (by decide) _ (.inl rfl)
    (by
      have h : (compileP cfg (Cache.init 4) (DomStore.init 4) 0 none).2.1.bestExactValue = none := by decide
      intro be hbe; rw [h] at hbe; cases hbe)

end Ddo.PBounds.TinyLong


#print axioms Ddo.PTruth.cutset_rel_pooled
#print axioms Ddo.PFix.cutset_progress_pooled
#print axioms Ddo.PBounds.cutset_ub_valid_pooled'
#print axioms Ddo.PBounds.cutset_cover_pooled
