import DdoModel.Proofs.ParCacheModel
import DdoModel.Proofs.ParClosed
import DdoModel.Proofs.NoCapSearch
import DdoModel.Props.C01d
/-! # The parallel caching solver, executed: a deterministic scheduler for `KPStep`, evaluated runs, a schedule search

* `nextK sv pick s i`: the next step of worker `i` in `s` as a function (`none`: not enabled — parked, gone, crashed, needs
  the mutex while somebody is inside `get_workload`, or the operation would panic / the compilation does not end normally).
  The pop is `popMax`; a compilation that ends reads **the `pick`-th admissible snapshot** of the shared cache, i.e.
  `(s.log.take (s.log.length + 1 - k0))[pick]?`: `pick = 0` is the current content, a larger `pick` an OLDER content (a
  stale read of the whole cache); `nextK_step`: it only takes steps of `KPStep sv`.
* `runSchedK`: run along a list of `(worker, pick)`; `runSchedK_run`.
* evaluated runs (kernel, `decide`): `Trap` (two workers, one compiles against a stale snapshot, optimum 4 at `Complete`).
* a search harness over the D14 family (`Layered.Counter` and mutated tables). -/
set_option linter.unusedSectionVars false
set_option linter.unusedVariables false
namespace Ddo.ParCache
open Ddo Ddo.C01 Ddo.C09 Ddo.ParSys Ddo.Closed
variable {S : Type} [DecidableEq S]

/-! ## 1. the scheduler -/

/-- decidable `LockFree` -/
def lockFreeB (s : KSys S) : Bool := s.ws.all (fun w => !w.inGw)

theorem lockFreeB_iff (s : KSys S) : lockFreeB s = true ↔ LockFree s := by
  unfold lockFreeB LockFree
  rw [List.all_eq_true]
  constructor
  · intro h w hw
    have := h w hw
    cases hh : w.inGw
    · rfl
    · rw [hh] at this; cases this
  · intro h w hw
    rw [h w hw]; rfl

/-- every content among the `m` newest ones is an admissible virtual cache -/
theorem fromLog_mem {c : Cache S} {log : List (Cache S)} {m : Nat} (h : c ∈ log.take m) : FromLog c log m :=
  fun _ _ t ht => ⟨c, h, ht⟩

/-- the `pick`-th admissible snapshot for a compilation begun when the log had length `k0` (0 = newest) -/
def snapshot (s : KSys S) (k0 pick : Nat) : Option (Cache S) := (s.log.take (s.log.length + 1 - k0))[pick]?

theorem snapshot_fromLog {s : KSys S} {k0 pick : Nat} {cv : Cache S} (h : snapshot s k0 pick = some cv) :
    FromLog cv s.log (s.log.length + 1 - k0) :=
  fromLog_mem (List.mem_of_getElem? h)

/-- **the next step of worker `i`** -/
def nextK (sv : SolverCfg S) (pick : Nat) (s : KSys S) (i : Nat) : Option (KSys S) :=
  match s.ws[i]? with
  | none => none
  | some .idle => if lockFreeB s then some { s with ws := s.ws.set i .gwC } else none
  | some .waiting => none
  | some .done => none
  | some .crashed => none
  | some .gwC =>
    if cleanCond sv.P.nbVars s.crit then
      match s.cache.clearLayer s.crit.base.firstActive with
      | some c' => some { s with crit := bumpFirst s.crit, cache := c', log := c' :: s.log }
      | none => none
    else
      match s.crit.base.fringe with
      | [] =>
        if s.crit.ongoing = 0 then some { s with crit := s.crit.complete, ws := s.ws.set i .done }
        else some { s with ws := s.ws.set i .waiting }
      | _ :: _ => some { s with ws := s.ws.set i .gwP }
  | some .gwP =>
    match popMax s.crit.base.fringe with
    | none => some { s with ws := s.ws.set i .idle }
    | some (N, rest) =>
      if N.ub ≤ s.crit.base.bestLb then some { s with crit := starve s.crit, ws := s.ws.set i .idle }
      else
        match s.cache.mustExplore N.state N.depth N.value with
        | none => none
        | some false =>
          match dropOne s.crit N rest with
          | some c' => some { s with crit := c' }
          | none => none
        | some true => some { s with crit := setFringe s.crit rest, ws := s.ws.set i (.gwW N) }
  | some (.gwW n) =>
    match s.cache.update n.state n.depth ⟨n.value, true⟩ with
    | none => none
    | some c' =>
      match s.crit.take i n with
      | none => none
      | some crit' => some { crit := crit', cache := c', log := c' :: s.log, ws := s.ws.set i (.readR n) }
  | some (.readR n) =>
    if lockFreeB s then
      some { s with ws := s.ws.set i (if n.ub ≤ s.crit.readLb then .fin n else .compR n s.crit.readLb s.log.length) }
    else none
  | some (.compR n lb k0) =>
    match snapshot s k0 pick with
    | none => none
    | some cv =>
      if sv.coutR cv n lb = .ok then
        some { s with ws := s.ws.set i (.wrR n lb (toOut (sv.cresR cv n lb)) cv (sv.cresR cv n lb).cacheUpdates.reverse
                                          (sv.cresR cv n lb).cacheUpdates.reverse) }
      else none
  | some (.wrR n lb o cv ups (u :: todo)) =>
    match s.cache.update u.1 u.2.1 (upThr u) with
    | none => none
    | some c' => some { s with cache := c', log := c' :: s.log, ws := s.ws.set i (.wrR n lb o cv ups todo) }
  | some (.wrR n lb o cv ups []) =>
    if lockFreeB s then
      some { s with crit := s.crit.updateBest o, ws := s.ws.set i (if o.isExact then .fin n else .readX n) }
    else none
  | some (.readX n) =>
    if lockFreeB s then some { s with ws := s.ws.set i (.compX n s.crit.readLb s.log.length) } else none
  | some (.compX n lb k0) =>
    match snapshot s k0 pick with
    | none => none
    | some cv =>
      if sv.coutX cv n lb = .ok then
        some { s with ws := s.ws.set i (.wrX n lb (toOut (sv.cresX cv n lb)) cv (sv.cresX cv n lb).cacheUpdates.reverse
                                          (sv.cresX cv n lb).cacheUpdates.reverse) }
      else none
  | some (.wrX n lb o cv ups (u :: todo)) =>
    match s.cache.update u.1 u.2.1 (upThr u) with
    | none => none
    | some c' => some { s with cache := c', log := c' :: s.log, ws := s.ws.set i (.wrX n lb o cv ups todo) }
  | some (.wrX n lb o cv ups []) =>
    if lockFreeB s then
      some { s with crit := s.crit.updateBest o, ws := s.ws.set i (if o.isExact then .fin n else .enq n lb o cv ups) }
    else none
  | some (.enq n lb o cv ups) =>
    if lockFreeB s then some { s with crit := s.crit.enqueue sv.dedup o.cutset, ws := s.ws.set i (.fin n) } else none
  | some (.fin n) =>
    if lockFreeB s then
      match s.crit.notifyFinished i n.depth with
      | some c' => some { s with crit := c', ws := (s.ws.map KW.wake).set i .idle }
      | none => none
    else none

/-- **the scheduler only takes steps of the system** -/
theorem nextK_step {sv : SolverCfg S} {pick : Nat} {s t : KSys S} {i : Nat} (h : nextK sv pick s i = some t) :
    KPStep sv s t := by
  unfold nextK at h
  split at h
  · cases h
  · next hw =>
    split at h
    · next hl => injection h with h; subst h; exact .gwEnter s i hw ((lockFreeB_iff s).mp hl)
    · cases h
  · cases h
  · cases h
  · cases h
  · next hw =>
    split at h
    · next hc =>
      split at h
      · next c' hcl => injection h with h; subst h; exact .gwClear s i c' hw hc hcl
      · cases h
    · next hc =>
      split at h
      · next hf =>
        split at h
        · next ho => injection h with h; subst h; exact .gwComplete s i hw hc ho hf
        · next ho => injection h with h; subst h; exact .gwWait s i hw hc ho hf
      · next a l hf =>
        injection h with h; subst h
        exact .gwToPop s i hw hc (by rw [hf]; exact List.cons_ne_nil _ _)
  · next hw =>
    split at h
    · next hp =>
      injection h with h; subst h
      exact .gwEmpty s i hw (ParClosed.popMax_none hp)
    · next N rest hp =>
      have hpm := ParClosed.popMax_popMax hp
      split at h
      · next hub => injection h with h; subst h; exact .gwStarve s i N rest hw hpm hub
      · next hub =>
        split at h
        · cases h
        · next hme =>
          split at h
          · next c' hd => injection h with h; subst h; exact .gwDrop s i N rest c' hw hpm hub hme hd
          · cases h
        · next hme => injection h with h; subst h; exact .gwKeep s i N rest hw hpm hub hme
  · next n hw =>
    split at h
    · cases h
    · next c' hu =>
      split at h
      · cases h
      · next crit' ht => injection h with h; subst h; exact .gwTake s i n c' crit' hw hu ht
  · next n hw =>
    split at h
    · next hl => injection h with h; subst h; exact .readLbR s i n hw ((lockFreeB_iff s).mp hl)
    · cases h
  · next n lb k0 hw =>
    split at h
    · cases h
    · next cv hcv =>
      split at h
      · next hok =>
        injection h with h; subst h
        exact .compileR s i n lb k0 cv _ _ hw (snapshot_fromLog hcv) ⟨hok, rfl, rfl⟩
      · cases h
  · next n lb o cv ups u todo hw =>
    split at h
    · cases h
    · next c' hu => injection h with h; subst h; exact .writeR s i n lb o cv ups u todo c' hw hu
  · next n lb o cv ups hw =>
    split at h
    · next hl => injection h with h; subst h; exact .updateR s i n lb o cv ups hw ((lockFreeB_iff s).mp hl)
    · cases h
  · next n hw =>
    split at h
    · next hl => injection h with h; subst h; exact .readLbX s i n hw ((lockFreeB_iff s).mp hl)
    · cases h
  · next n lb k0 hw =>
    split at h
    · cases h
    · next cv hcv =>
      split at h
      · next hok =>
        injection h with h; subst h
        exact .compileX s i n lb k0 cv _ _ hw (snapshot_fromLog hcv) ⟨hok, rfl, rfl⟩
      · cases h
  · next n lb o cv ups u todo hw =>
    split at h
    · cases h
    · next c' hu => injection h with h; subst h; exact .writeX s i n lb o cv ups u todo c' hw hu
  · next n lb o cv ups hw =>
    split at h
    · next hl => injection h with h; subst h; exact .updateX s i n lb o cv ups hw ((lockFreeB_iff s).mp hl)
    · cases h
  · next n lb o cv ups hw =>
    split at h
    · next hl => injection h with h; subst h; exact .enqueue s i n lb o cv ups hw ((lockFreeB_iff s).mp hl)
    · cases h
  · next n hw =>
    split at h
    · next hl =>
      split at h
      · next c' hn => injection h with h; subst h; exact .notify s i n c' hw ((lockFreeB_iff s).mp hl) hn
      · cases h
    · cases h

/-- the scheduler run along a list of `(worker, pick)` (a step that is not enabled is skipped) -/
def runSchedK (sv : SolverCfg S) : KSys S → List (Nat × Nat) → KSys S
  | s, [] => s
  | s, (i, pick) :: is =>
    match nextK sv pick s i with
    | some t => runSchedK sv t is
    | none => runSchedK sv s is

theorem runSchedK_run' (sv : SolverCfg S) : ∀ (sched : List (Nat × Nat)) (s : KSys S), KPRun sv s (runSchedK sv s sched) := by
  intro sched
  induction sched with
  | nil => intro s; exact KRun.refl s
  | cons ip is ih =>
    intro s
    obtain ⟨i, pick⟩ := ip
    unfold runSchedK
    cases h : nextK sv pick s i with
    | none => exact ih s
    | some t => exact KRun.head (nextK_step h) (ih t)

/-- **every scheduled state is reachable in the system** -/
theorem runSchedK_run (sv : SolverCfg S) (s : KSys S) (sched : List (Nat × Nat)) : KPRun sv s (runSchedK sv s sched) :=
  runSchedK_run' sv sched s

/-! ## 2. observing runs -/

/-- observable summary of a worker state (for `decide`) -/
def tagK : KW S → Nat
  | .idle => 0 | .waiting => 1 | .done => 2 | .crashed => 3 | .gwC => 4 | .gwP => 5 | .gwW _ => 6 | .readR _ => 7
  | .compR _ _ _ => 8 | .wrR _ _ _ _ _ _ => 9 | .readX _ => 10 | .compX _ _ _ => 11 | .wrX _ _ _ _ _ _ => 12
  | .enq _ _ _ _ _ => 13 | .fin _ => 14

theorem tagK_done {w : KW S} (h : tagK w = 2) : w = .done := by cases w <;> simp_all [tagK]
theorem tagK_gwC {w : KW S} (h : tagK w = 4) : w = .gwC := by cases w <;> simp_all [tagK]

/-- what is observed of a state: (the stage of every worker, `ongoing`, the size of the fringe), (the incumbent, the length
    of the log = 1 + number of cache writes so far, the number of entries of the shared cache per layer) -/
def obsK (t : KSys S) : (List Nat × Nat × Nat) × (Int × Nat × List Nat) :=
  ((t.ws.map tagK, t.crit.ongoing, t.crit.base.fringe.length),
   (t.crit.base.bestLb, t.log.length, t.cache.layers.map List.length))

/-- decidable `AllDone` -/
def allDoneB (s : KSys S) : Bool := s.ws.all (fun w => tagK w == 2)

theorem allDoneB_iff (s : KSys S) : allDoneB s = true ↔ AllDone s := by
  unfold allDoneB AllDone
  rw [List.all_eq_true]
  constructor
  · intro h w hw; exact tagK_done (by simpa using h w hw)
  · intro h w hw; rw [h w hw]; rfl

/-- decidable `CompletesAt` -/
def completesAtB (nbVars : Nat) (s : KSys S) (i : Nat) : Bool :=
  ((s.ws[i]?.map tagK) == some 4) && !decide (cleanCond nbVars s.crit) && (s.crit.ongoing == 0) && s.crit.base.fringe.isEmpty

theorem completesAtB_sound {nbVars : Nat} {s : KSys S} {i : Nat} (h : completesAtB nbVars s i = true) :
    CompletesAt nbVars s i := by
  unfold completesAtB at h
  simp only [Bool.and_eq_true, beq_iff_eq, Bool.not_eq_true', decide_eq_false_iff_not, List.isEmpty_iff] at h
  obtain ⟨⟨⟨h1, h2⟩, h3⟩, h4⟩ := h
  refine ⟨?_, h2, h3, h4⟩
  cases hw : s.ws[i]? with
  | none => rw [hw] at h1; cases h1
  | some w =>
    rw [hw] at h1
    simp only [Option.map_some, Option.some.injEq] at h1
    rw [tagK_gwC h1]

/-- the log length recorded when worker `i` entered the compilation it is in -/
def k0At (s : KSys S) (i : Nat) : Option Nat :=
  match s.ws[i]? with
  | some (.compR _ _ k0) => some k0
  | some (.compX _ _ k0) => some k0
  | _ => none

/-- the number of entries per layer -/
def sizes (c : Cache S) : List Nat := c.layers.map List.length

/-! ### `Trap` (optimum 4), two workers, one compilation against a stale snapshot -/
namespace TrapK
open Ddo.C01.Trap

def s0 : KSys Int := KSys.init prob false 2

/-- steps 1–15: thread 0 enters `get_workload`, pops the root, `must_explore` says yes, takes it (first cache write), reads
    the incumbent, restricted compilation (trapped: value 1), `maybe_update_best` (incumbent 1), relaxed compilation, its
    three `update_threshold` calls one per step, `maybe_update_best`, `enqueue_cutset` (two nodes), `notify`.
    steps 16–21: thread 1 enters `get_workload`, `clear_layer(0)`, pops the node of bound 4, takes it, reads the incumbent 1
    and **enters its restricted compilation** (`compR`, the log has length 7).
    steps 22–32: thread 0 takes the node of bound 3 and processes it completely — four more contents of the shared cache —
    while thread 1 is still inside its compilation (after step 27 both hold a node, `ongoing = 2`).
    step 33: **the compilation of thread 1 ends; its reads were answered by the oldest of the 5 admissible snapshots**
    (`pick = 4`: the content of the shared cache when the compilation began — the current one has two more entries).
    steps 34–38: thread 1 writes its thresholds, publishes the incumbent 4, acknowledges.  steps 39–42: thread 1 enters
    `get_workload`, the cleaning loop clears two layers, `Complete`.  steps 43–44: thread 0 gets `Complete` -/
def sched : List (Nat × Nat) :=
  List.replicate 15 (0, 0) ++ List.replicate 6 (1, 0) ++ List.replicate 11 (0, 0) ++ [(1, 4)] ++ List.replicate 9 (1, 0) ++
    [(0, 0), (0, 0)]

def at_ (k : Nat) : KSys Int := runSchedK (sv false .lel) s0 (sched.take k)

theorem reach (k : Nat) : KPRun (sv false .lel) s0 (at_ k) := runSchedK_run _ _ _

/-- after step 15 thread 0 has branched on the root: two cut-set nodes in the fringe, incumbent 1 -/
theorem root_obs : obsK (at_ 15) = (([0, 0], 0, 2), 1, 5, [1, 2, 0, 0]) := by decide

/-- after step 27 **both threads hold a cut-set node**: thread 0 is writing thresholds (`wrR`), thread 1 is inside its
    restricted compilation (`compR`) -/
theorem mid_obs : obsK (at_ 27) = (([9, 8], 2, 0), 1, 8, [0, 2, 0, 0]) := by decide

/-- before step 33: thread 1 is still inside the compilation it entered when the log had length 7; the log has length 11
    now, so 5 snapshots are admissible; the oldest one (`pick = 4`) has the entries `[0, 2, 0, 0]` per layer, the current
    content of the shared cache `[0, 2, 1, 1]` — **the read of step 33 is stale** -/
theorem stale_obs : obsK (at_ 32) = (([0, 8], 1, 0), 1, 11, [0, 2, 1, 1]) ∧ k0At (at_ 32) 1 = some 7 ∧
    (snapshot (at_ 32) 7 4).map sizes = some [0, 2, 0, 0] ∧ (snapshot (at_ 32) 7 0).map sizes = some [0, 2, 1, 1] ∧
    snapshot (at_ 32) 7 5 = none := by decide

/-- step 33 is taken (the stale compilation ends normally) -/
theorem stale_step_obs : obsK (at_ 33) = (([0, 9], 1, 0), 1, 11, [0, 2, 1, 1]) := by decide

/-- after step 41 `get_workload` answers `Complete` to thread 1, the incumbent is the optimum 4 -/
theorem completes : CompletesAt 3 (at_ 41) 1 ∧ (at_ 41).crit.base.bestLb = 4 :=
  ⟨completesAtB_sound (by decide), by decide⟩

/-- at the end every worker has left, nothing panicked, `best_lb = 4` -/
theorem end_obs : obsK (at_ 44) = (([2, 2], 0, 0), 4, 16, [0, 0, 0, 2]) ∧ (at_ 44).crit.base.crashed = false ∧
    (at_ 44).crit.base.completion = (true, some 4) := by decide

/-- **a complete two-thread run of the caching parallel solver over the diagram model, with a stale snapshot read, reaches
    `Complete` and then `AllDone` with the optimum** -/
theorem complete_run :
    (∃ t, KPRun (sv false .lel) s0 t ∧ CompletesAt (sv false .lel).P.nbVars t 1 ∧ t.crit.base.bestLb = 4) ∧
    (∃ t, KPRun (sv false .lel) s0 t ∧ AllDone t ∧ NoPanic t ∧ t.crit.base.bestLb = 4) := by
  refine ⟨⟨at_ 41, reach 41, completes.1, completes.2⟩, at_ 44, reach 44, ?_, ?_, ?_⟩
  · exact (allDoneB_iff _).mp (by decide)
  · have hd : AllDone (at_ 44) := (allDoneB_iff _).mp (by decide)
    exact ⟨fun w hw e => (by rw [hd w hw] at e; cases e), end_obs.2.1⟩
  · decide

end TrapK

/-! ### `Layered.Counter` (optimum 10, the table of the D14 finding): one worker delayed between its pop and the end of its
compilation, which then reads the oldest admissible snapshot -/
namespace CounterK
open Ddo.C09.Layered

def s0 : KSys Int := KSys.init (prob Counter.T) false 2

/-- steps 1–15: thread 0 branches on the root (incumbent 3, two cut-set nodes).  steps 16–21: thread 1 takes the best node,
    reads the incumbent 3 and enters its restricted compilation — **and is delayed there**.  steps 22–77: thread 0 alone
    takes and processes the four other nodes that appear (incumbent 3 → 4 → 10), 18 more contents of the shared cache,
    then parks (`waiting`: the fringe is empty, thread 1 still holds a node).  step 78: the compilation of thread 1 ends,
    answered by **the oldest of its 19 admissible snapshots** (`pick = 18`) and with the stale incumbent 3.  steps 79–85:
    thread 1 finishes its node, `notify` wakes thread 0.  steps 86–93: thread 1 enters `get_workload`, clears six layers,
    `Complete`.  steps 94–95: thread 0 gets `Complete` -/
def sched : List (Nat × Nat) :=
  List.replicate 15 (0, 0) ++ List.replicate 6 (1, 0) ++ List.replicate 56 (0, 0) ++ [(1, 18)] ++ List.replicate 15 (1, 0) ++
    [(0, 0), (0, 0)]

def at_ (k : Nat) : KSys Int := runSchedK (Counter.sv false .lel) s0 (sched.take k)

theorem reach (k : Nat) : KPRun (Counter.sv false .lel) s0 (at_ k) := runSchedK_run _ _ _

/-- thread 1 has just entered its compilation (log length 7), thread 0 is idle -/
theorem freeze_obs : obsK (at_ 21) = (([0, 8], 1, 1), 3, 7, [0, 2, 0, 0, 0, 0, 0, 0]) ∧ k0At (at_ 21) 1 = some 7 := by decide

/-- 56 steps of thread 0 later: thread 0 parked, incumbent 10, the log has length 25: 19 admissible snapshots, the oldest
    one has 2 entries, the current content 11 -/
theorem stale_obs : obsK (at_ 77) = (([1, 8], 1, 0), 10, 25, [0, 2, 1, 1, 1, 2, 3, 1]) ∧ k0At (at_ 77) 1 = some 7 ∧
    (snapshot (at_ 77) 7 18).map sizes = some [0, 2, 0, 0, 0, 0, 0, 0] ∧ snapshot (at_ 77) 7 19 = none := by decide

/-- the stale compilation ends normally -/
theorem stale_step_obs : obsK (at_ 78) = (([1, 9], 1, 0), 10, 25, [0, 2, 1, 1, 1, 2, 3, 1]) := by decide

set_option maxRecDepth 4096 in
/-- `Complete` for thread 1 with the optimum 10 -/
theorem completes : CompletesAt 7 (at_ 92) 1 ∧ (at_ 92).crit.base.bestLb = 10 :=
  ⟨completesAtB_sound (by decide), by decide⟩

set_option maxRecDepth 4096 in
/-- every worker has left, nothing panicked, `best_lb = 10 = optimum` -/
theorem end_obs : obsK (at_ 95) = (([2, 2], 0, 0), 10, 33, [0, 0, 0, 0, 0, 0, 0, 1]) ∧ (at_ 95).crit.base.crashed = false ∧
    (at_ 95).crit.base.completion = (true, some 10) ∧ optimum Counter.T = 10 := by decide

end CounterK

/-! ## 3. a schedule search (executable code only; no theorem depends on it)

`Search.ksearchMain` is the entry point of a small driver (a scratch executable `def main := Ddo.ParCache.Search.ksearchMain`
that imports this module, built natively by `lake`).  Tables: the three instances of `Proofs/AnyOrderLayered.lean` on which
the pre-fix solver lost the optimum (`NoCapSearch.bases`), point mutants of them (`NoCapSearch.mutate`, accepted by
`Layered.check`, hence `WellFormed`), random tables (`NoCapSearch.genTab`, `genWs`).  Per table: 4 configurations (fringe ×
cut-set kind) × `U ∈ {2, 3}` workers × (240 delayed-worker schedules `delayed` + `4 · nrand` pseudo-random schedules
`Drv.random`, bursts 0 / 2 / 8 / 30); every run goes on until every worker has left (`allDoneB`), nobody is enabled
(`stuck`: covers an operation that would panic, `nextK` never takes it) or a step bound (`timeout`); the final `best_lb` is
compared with `Layered.optimum`.  `d14sensitive`: tables on which the pre-fix capped *sequential* solver loses the optimum
for some pop order (`NoCapSearch.oneModel`).

Recorded results (native executable, `nrand = 25`, i.e. 2720 runs per table):

* `ksearch 0 1 3 5 4 3` (the three base tables, `nrand = 5`): 6240 runs, 6240 `AllDone`, **0 bad**, 0 stuck, 0 timeout.
* `ksearch 1 1 450 25 6 3` (mutants, up to 6 point mutations): 450 tables (366 distinct, 253 d14-sensitive), 1 224 000 runs,
  1 224 000 `AllDone`, **0 with `best_lb ≠ optimum`**, 0 stuck, 0 timeout; 136 730 317 steps; 561 854 compilations answered
  from a snapshot that was not the newest one, 526 363 of them from a content different from the current one.
* `ksearch 1 2 120 25 8 3` (mutants, up to 8 point mutations, another seed): 120 tables (106 distinct, 68 d14-sensitive),
  326 400 runs, 326 400 `AllDone`, **0 bad**, 0 stuck, 0 timeout; 36 585 600 steps; 151 807 stale reads (142 299 different).
* `ksearch 2 7 250 25 4 3` (random tables, 4–7 variables, 2–4 states): 250 tables (250 distinct, 0 d14-sensitive), 680 000
  runs, 680 000 `AllDone`, **0 bad**, 0 stuck, 0 timeout; 23 502 965 steps; 17 453 stale reads (16 319 different).
* CALIBRATION (`capped = 1`: the driver replaces the effect of `enqueue` by the pre-fix `SeqSt.enqueueCapped`; this is NOT
  a step of `KPStep`): `ksearch 0 1 3 5 4 3 1`: 216 of 6240 runs end `AllDone` with `best_lb ≠ optimum` (e.g. `Counter`,
  `delayed e=2 fz=7 k=2`: `best_lb = 4`, optimum 10 — the parallel form of D14, found by the delayed family and by the
  random schedules alike), all 3 tables fail; `ksearch 1 1 60 25 6 3 1`: 35 of 60 mutant tables fail (35 are d14-sensitive),
  4703 of 163 200 runs.  The harness finds D14 where it exists and nothing in the system as it is now. -/
namespace Search
open Ddo.C09.Layered Ddo.C09.NoCapSearch

/-- the number of admissible snapshots for the compilation worker `i` is in (0: it is not in a compilation) -/
def avail (s : KSys Int) (i : Nat) : Nat :=
  match s.ws[i]? with
  | some (.compR _ _ k0) => min s.log.length (s.log.length + 1 - k0)
  | some (.compX _ _ k0) => min s.log.length (s.log.length + 1 - k0)
  | _ => 0

/-- which snapshot a compilation reads -/
inductive Pick
  | newest
  | oldest
  | idx (k : Nat)   -- clamped to the admissible range

def Pick.eval (p : Pick) (s : KSys Int) (i : Nat) : Nat :=
  match p with
  | .newest => 0
  | .oldest => avail s i - 1
  | .idx k => min k (avail s i - 1)

/-- a run under construction: the state, the schedule so far (newest first), counters -/
structure Drv where
  s : KSys Int
  rev : List (Nat × Nat) := []
  steps : Nat := 0
  notifies : Nat := 0      -- nodes acknowledged
  stale : Nat := 0         -- compilations answered from a snapshot that is not the newest one …
  staleDiff : Nat := 0     -- … and whose content differs from the current content of the shared cache
  /-- CALIBRATION ONLY (not a step of `KPStep`): `enqueue_cutset` caps the bounds by the bound of the node processed, as the
      code did before the repair of D14 -/
  capped : Bool := false

def Drv.step (sv : SolverCfg Int) (d : Drv) (i : Nat) (p : Pick) : Option Drv :=
  let k := p.eval d.s i
  match nextK sv k d.s i with
  | none => none
  | some t =>
    let fin := match d.s.ws[i]? with | some (.fin _) => 1 | _ => 0
    let diff := if k = 0 then 0 else
      match snapshot d.s (match d.s.ws[i]? with | some (.compR _ _ k0) => k0 | some (.compX _ _ k0) => k0 | _ => 0) k with
      | some c => if c.layers = d.s.cache.layers then 0 else 1
      | none => 0
    let t := if d.capped then
        match d.s.ws[i]? with
        | some (.enq n _ o _ _) =>
          { t with crit := { d.s.crit with base := d.s.crit.base.enqueueCapped sv.dedup n.ub o.cutset } }
        | _ => t
      else t
    some { d with s := t, rev := (i, k) :: d.rev, steps := d.steps + 1, notifies := d.notifies + fin,
                  stale := d.stale + (if k = 0 then 0 else 1), staleDiff := d.staleDiff + diff }

def tagAt (s : KSys Int) (i : Nat) : Nat := (s.ws[i]?.map tagK).getD 99

/-- worker `i` alone, until `stop` holds or it is not enabled -/
def Drv.runW (sv : SolverCfg Int) (i : Nat) (p : Pick) (stop : Drv → Bool) : Nat → Drv → Drv
  | 0, d => d
  | f + 1, d => if stop d then d else
    match d.step sv i p with
    | some d' => Drv.runW sv i p stop f d'
    | none => d

/-- round robin, one step each, until everybody has left; `true`: stuck (nobody enabled, not all done) -/
def Drv.finish (sv : SolverCfg Int) (U : Nat) (p : Pick) : Nat → Nat → Drv → Drv × Bool
  | 0, _, d => (d, false)
  | f + 1, last, d =>
    if allDoneB d.s then (d, false) else
    match (List.range U).findSome? (fun j => let i := (last + 1 + j) % U; (d.step sv i p).map (fun d' => (i, d'))) with
    | some (i, d') => Drv.finish sv U p f i d'
    | none => (d, true)

def lcg (x : Nat) : Nat := (x * 6364136223846793005 + 1442695040888963407) % 18446744073709551616

/-- pseudo-random schedule over `(worker, pick)`, `pick ∈ {0, 1, 2, 5}` (clamped); `burst`: the same worker is kept with
    probability `burst / (burst + 1)` -/
def Drv.random (sv : SolverCfg Int) (U burst : Nat) : Nat → Nat → Nat → Drv → Drv × Bool × Nat
  | 0, g, _, d => (d, false, g)
  | f + 1, g, cur, d =>
    if allDoneB d.s then (d, false, g) else
    let g := lcg g
    let keep := (g >>> 33) % (burst + 1) != 0
    let g := lcg g
    let w := if keep then cur else (g >>> 33) % U
    let g := lcg g
    let pk := [0, 1, 2, 5].getD ((g >>> 33) % 4) 0
    match d.step sv w (.idx pk) with
    | some d' => Drv.random sv U burst f g w d'
    | none =>
      match (List.range U).findSome? (fun j => let i := (w + 1 + j) % U; (d.step sv i (.idx pk)).map (fun d' => (i, d'))) with
      | some (i, d') => Drv.random sv U burst f g i d'
      | none => (d, true, g)

/-- the delayed-worker schedules of the D14 finding: worker 0 alone for `e` nodes; workers `1 … U-1` pop and run up to the
    stage `fz` (7 `readR`, 8 `compR`, 10 `readX`, 11 `compX`) and are frozen; worker 0 completes `k` more nodes; the frozen
    workers complete their node reading the snapshot `pk`; round robin with `pf` to the end -/
def delayed (sv : SolverCfg Int) (cap : Bool) (U e fz k : Nat) (pk pf : Pick) (s0 : KSys Int) : Drv × Bool :=
  let d : Drv := { s := s0, capped := cap }
  let d := Drv.runW sv 0 .newest (fun d => d.notifies ≥ e) 2000 d
  let d := (List.range (U - 1)).foldl (fun d j => Drv.runW sv (j + 1) .newest (fun d => tagAt d.s (j + 1) == fz) 2000 d) d
  let n0 := d.notifies
  let d := Drv.runW sv 0 .newest (fun d => d.notifies ≥ n0 + k) 4000 d
  let d := (List.range (U - 1)).foldl (fun d j => let n1 := d.notifies; Drv.runW sv (j + 1) pk (fun d => d.notifies ≥ n1 + 1) 2000 d) d
  Drv.finish sv U pf 20000 0 d

structure KTally where
  runs : Nat := 0
  allDone : Nat := 0
  bad : Nat := 0           -- all done, `best_lb ≠ optimum`
  stuck : Nat := 0         -- nobody enabled, not all done (covers: an operation that would panic)
  timeout : Nat := 0
  steps : Nat := 0
  stale : Nat := 0
  staleDiff : Nat := 0
  deriving Repr

def KTally.add (a b : KTally) : KTally :=
  { runs := a.runs + b.runs, allDone := a.allDone + b.allDone, bad := a.bad + b.bad, stuck := a.stuck + b.stuck,
    timeout := a.timeout + b.timeout, steps := a.steps + b.steps, stale := a.stale + b.stale,
    staleDiff := a.staleDiff + b.staleDiff }

def showCfg (T : Tab) (ws : List Nat) (dedup : Bool) (kind : CutsetKind) (U : Nat) : String :=
  s!"U={U} dedup={dedup} kind={repr kind} ws={ws} {showTab T}"

/-- account for one run -/
def record (opt : Int) (what : String) (r : Drv × Bool) (acc : KTally × Array String) : KTally × Array String :=
  let (d, stuck) := r
  let done := allDoneB d.s
  let bad := done && d.s.crit.base.bestLb != opt
  let t := acc.1
  let t := { t with runs := t.runs + 1, allDone := t.allDone + (if done then 1 else 0), bad := t.bad + (if bad then 1 else 0),
                    stuck := t.stuck + (if stuck then 1 else 0), timeout := t.timeout + (if !done && !stuck then 1 else 0),
                    steps := t.steps + d.steps, stale := t.stale + d.stale, staleDiff := t.staleDiff + d.staleDiff }
  let log := if bad then acc.2.push s!"BAD lb={d.s.crit.base.bestLb} opt={opt} {what} sched={d.rev.reverse}"
    else if stuck then acc.2.push s!"STUCK tags={d.s.ws.map tagK} lb={d.s.crit.base.bestLb} opt={opt} {what} sched={d.rev.reverse}"
    else if !done then acc.2.push s!"TIMEOUT tags={d.s.ws.map tagK} steps={d.steps} {what}"
    else acc.2
  (t, log)

/-- all runs on one configuration: the delayed family, `nrand` random schedules per burst length -/
def oneConfig (cap : Bool) (T : Tab) (ws : List Nat) (dedup : Bool) (kind : CutsetKind) (U nrand seed : Nat)
    (acc : KTally × Array String) : KTally × Array String := Id.run do
  let sv := Layered.sv T ws dedup kind
  let opt := optimum T
  let s0 := KSys.init (prob T) dedup U
  let what := showCfg T ws dedup kind U
  let mut acc := acc
  for e in [1, 2, 3] do
    for fz in [7, 8, 10, 11] do
      for k in [1, 2, 3, 5, 1000] do
        for (pk, pkn) in [(Pick.oldest, "oldest"), (Pick.newest, "newest")] do
          for (pf, pfn) in [(Pick.newest, "newest"), (Pick.oldest, "oldest")] do
            acc := record opt s!"delayed e={e} fz={fz} k={k} pk={pkn} pf={pfn} {what}" (delayed sv cap U e fz k pk pf s0) acc
  let mut g := lcg (seed + 17)
  for burst in [0, 2, 8, 30] do
    for _ in List.range nrand do
      let (d, stuck, g') := Drv.random sv U burst 20000 g 0 { s := s0, capped := cap }
      g := lcg g'
      acc := record opt s!"random burst={burst} {what}" (d, stuck) acc
  return acc

def configs : List (Bool × CutsetKind) :=
  [(false, CutsetKind.lel), (false, CutsetKind.frontier), (true, CutsetKind.lel), (true, CutsetKind.frontier)]

/-- all four configurations, `U ∈ Us` -/
def oneTable (cap : Bool) (T : Tab) (ws : List Nat) (Us : List Nat) (nrand seed : Nat) (acc : KTally × Array String) :
    KTally × Array String := Id.run do
  let mut acc := acc
  for (dedup, kind) in configs do
    for U in Us do
      acc := oneConfig cap T ws dedup kind U nrand seed acc
  return acc

/-- does the pre-fix (capped) sequential solver lose the optimum on this table for some pop order? (the D14 regime) -/
def d14Sensitive (T : Tab) (ws : List Nat) : Bool :=
  let (_, t, _) := oneModel ⟨1⟩ T (some ws) 60 5 true {} #[]
  t.capBadModels > 0

/-- `args = [mode (0: the three base tables, 1: mutants of them, 2: random tables), seed, count, nrand, kmax, maxU,
    capped (1: CALIBRATION, the pre-fix capped `enqueue_cutset`)]` -/
def ksearchMain (args : List String) : IO UInt32 := do
  let a := args.map String.toNat!
  let mode := a.getD 0 0
  let seed := a.getD 1 1
  let count := a.getD 2 10
  let nrand := a.getD 3 10
  let kmax := a.getD 4 4
  let maxU := a.getD 5 3
  let Us := if maxU ≥ 3 then [2, 3] else [2]
  let cap := a.getD 6 0 != 0
  let mut badTables := 0
  let mut r : Rng := ⟨seed.toUInt64 * 0x2545F4914F6CDD1D + 99⟩
  let mut tally : KTally := {}
  let mut tables := 0
  let mut sensitive := 0
  let mut rejected := 0
  let mut tries := 0
  let mut seen : List (List Nat × List Int × List Nat) := []
  let mut distinct := 0
  while tables < count && tries < count * 400 do
    tries := tries + 1
    let mut cand : Option (Tab × List Nat) := none
    if mode = 0 then
      cand := bases[tables]?
      if cand.isNone then break
    else if mode = 1 then
      let (r1, b) := r.below bases.length
      let (T0, ws0) := bases.getD b (Layered.Counter.T, Layered.Counter.ws)
      let (r2, k) := r1.below kmax
      let (r3, T, ws) := mutate r2 T0 ws0 (k + 1)
      r := r3
      let hmax := (List.range (T.n + 1)).foldl (fun a j => (List.range T.m).foldl (fun a s => max a (hfrom T j s)) a) 0
      cand := some ({ T with rub := max T.rub hmax }, ws)
    else
      let (r1, n) := r.below 4
      let (r2, m) := r1.below 3
      let (r3, md) := r2.below 3
      let (r4, mo) := r3.below 3
      let (r5, T) := genTab r4 (n + 4) (m + 2) md (mo = 0)
      let (r6, ws) := genWs r5 T
      r := r6
      cand := some (T, ws)
    match cand with
    | none => pure ()
    | some (T, ws) =>
      if check T (costBound T) then
        tables := tables + 1
        let key := (T.trl, T.cl ++ [T.rub], ws)
        if !seen.contains key then
          seen := key :: seen
          distinct := distinct + 1
        if d14Sensitive T ws then sensitive := sensitive + 1
        let (t2, log) := oneTable cap T ws Us nrand (seed * 1000 + tables) ({}, #[])
        for l in log.toList.take 3 do IO.println l
        if t2.bad > 0 || t2.stuck > 0 || t2.timeout > 0 then badTables := badTables + 1
        tally := tally.add t2
        if tables % 5 = 0 || mode = 0 then
          IO.println s!"progress mode={mode} capped={cap} failingTables={badTables} seed={seed} tables={tables} distinct={distinct} d14sensitive={sensitive} rejected={rejected} | {repr tally}"
          (← IO.getStdout).flush
      else rejected := rejected + 1
  IO.println s!"FINAL mode={mode} capped={cap} failingTables={badTables} seed={seed} tables={tables} distinct={distinct} d14sensitive={sensitive} rejected={rejected} | runs={tally.runs} allDone={tally.allDone} bad={tally.bad} stuck={tally.stuck} timeout={tally.timeout} steps={tally.steps} staleReads={tally.stale} staleReadsDifferent={tally.staleDiff}"
  return 0

end Search

end Ddo.ParCache

#print axioms Ddo.ParCache.lockFreeB_iff
#print axioms Ddo.ParCache.fromLog_mem
#print axioms Ddo.ParCache.nextK_step
#print axioms Ddo.ParCache.runSchedK_run
#print axioms Ddo.ParCache.allDoneB_iff
#print axioms Ddo.ParCache.completesAtB_sound
#print axioms Ddo.ParCache.TrapK.root_obs
#print axioms Ddo.ParCache.TrapK.mid_obs
#print axioms Ddo.ParCache.TrapK.stale_obs
#print axioms Ddo.ParCache.TrapK.stale_step_obs
#print axioms Ddo.ParCache.TrapK.completes
#print axioms Ddo.ParCache.TrapK.end_obs
#print axioms Ddo.ParCache.TrapK.complete_run
#print axioms Ddo.ParCache.CounterK.freeze_obs
#print axioms Ddo.ParCache.CounterK.stale_obs
#print axioms Ddo.ParCache.CounterK.stale_step_obs
#print axioms Ddo.ParCache.CounterK.completes
#print axioms Ddo.ParCache.CounterK.end_obs
