import DdoModel.Proofs.ParCacheInvC
/-! # The parallel caching solver — the invariant `KPInv` step by step (2): local steps, threshold writes, `maybe_update_best` -/
set_option linter.unusedSectionVars false
set_option linter.unusedVariables false
namespace Ddo.ParCache
open Ddo Ddo.C09 Ddo.ParSys Ddo.Theta
variable {S : Type} [DecidableEq S]

section
variable (H : Nat → S → EInt) (opt : Int) (Sol : List Dec → Int → Prop) (Rg : Nat → Int → Prop)

/-! ## a worker-local step: the open node stays, pending data may be added (end of a compilation) -/

theorem kpinv_local {s : KSys S} {i : Nat} {w0 a : KW S} (hI : KPInv H opt Sol Rg s)
    (hw : s.ws[i]? = some w0) (ho : a.openNode = w0.openNode) (hpc : ∀ c ∈ w0.pendCut, c ∈ a.pendCut)
    (hpv : ∀ v, w0.pendVal = some v → a.pendVal = some v)
    (hnf : ∀ c, a ≠ .gwW c ∧ a ≠ .readR c)
    (hwok : WOk H opt Sol Rg s.crit.base.bestLb s.log a) (hnd : a ≠ .done)
    (hnew : ∀ c ∈ a.pendCut, c ∈ w0.pendCut ∨ (Good (optOf H) opt c ∧ Rg c.depth c.value ∧
      ∀ y, optOf H c = some y → Beats ({ s with ws := s.ws.set i a } : KSys S) y → y ≤ c.ub ∨ Live H s y (c.depth + 1))) :
    KPInv H opt Sol Rg { s with ws := s.ws.set i a } := by
  have hB : ∀ x, Beats ({ s with ws := s.ws.set i a } : KSys S) x → Beats s x :=
    fun x hb => beatsC_of_set hw hb (Int.le_refl _) (fun v hv => hb.2 i a v (get_set_self hw) (hpv v hv))
  have hT : ∀ x d, Beats ({ s with ws := s.ws.set i a } : KSys S) x → Live H s x d →
      Live H ({ s with ws := s.ws.set i a } : KSys S) x d := by
    intro x d _ hl
    refine liveC_cases H (i := i) hl (fun c hc hcc hp => liveC_of_F H hc hcc hp) (fun w1 hw1 hl1 => ?_)
      (fun j w hj hwj hl1 => liveC_of_other H hj hwj hl1)
    rw [hw] at hw1; cases hw1
    rcases hl1 with ⟨n, hn, hcc⟩ | ⟨c, hc, hcc, hp⟩
    · exact liveC_of_self H hw (.inl ⟨n, by rw [ho]; exact hn, hcc⟩)
    · exact liveC_of_self H hw (.inr ⟨c, hpc c hc, hcc, hp⟩)
  have hpr : ∀ c, Prunable ({ s with ws := s.ws.set i a } : KSys S) c → Prunable s c ∨ (c ∈ a.pendCut ∧ c ∉ w0.pendCut) := by
    intro c h
    rcases prunable_set h with h | h | ⟨j, w, _, hj, hc⟩
    · exact .inl (.inl h)
    · by_cases hc : c ∈ w0.pendCut
      · exact .inl (.inr ⟨i, w0, hw, hc⟩)
      · exact .inr ⟨h, hc⟩
    · exact .inl (.inr ⟨j, w, hj, hc⟩)
  refine kpinv_step H opt Sol Rg hI hB hT ?_ ?_ hI.lbOk hI.solOk hI.cur (fun c hc => .inl hc) ?_ ?_ ?_ ?_
  · rintro c (hc | hc)
    · rcases hpr c hc with h | ⟨h1, h2⟩
      · exact hI.good c (.inl h)
      · rcases hnew c h1 with h3 | h3
        · exact absurd h3 h2
        · exact h3.1
    · exact hI.good c (.inr (held_back hw (fun c hc => by rw [← ho]; exact hc) hc))
  · intro c hc
    rcases hpr c hc with h | ⟨h1, h2⟩
    · exact hI.rng c h
    · rcases hnew c h1 with h3 | h3
      · exact absurd h3 h2
      · exact h3.2.1
  · rintro c (hc | hc)
    · rcases hpr c hc with h | ⟨h1, h2⟩
      · exact .inl (.inl h)
      · rcases hnew c h1 with h3 | h3
        · exact absurd h3 h2
        · right
          intro y hy hb
          rcases h3.2.2 y hy hb with h4 | h4
          · exact .inl h4
          · exact .inr (hT _ _ hb h4)
    · exact .inl (.inr (fresh_back hw (fun c hc => by rcases hc with e | e; exact absurd e (hnf c).1; exact absurd e (hnf c).2) hc))
  · exact popmax_set H opt Sol Rg hI (fun c hc => hc) (fun n e => absurd e (hnf n).1)
  · exact wok_set H opt Sol Rg hI (Int.le_refl _) (fun c hc => hc) hwok
  · exact done_set H opt Sol Rg hI (Int.le_refl _) hI.lbOk (fun e => absurd e hnd)

/-! ## `process_one_node`: `node.ub <= best_lb` -/

theorem kpinv_readLbR_drop {s : KSys S} (hI : KPInv H opt Sol Rg s) {i : Nat} {n : SubP S}
    (hw : s.ws[i]? = some (.readR n)) (hub : n.ub ≤ s.crit.base.bestLb) :
    KPInv H opt Sol Rg { s with ws := s.ws.set i (.fin n) } := by
  have hB : ∀ x, Beats ({ s with ws := s.ws.set i (.fin n) } : KSys S) x → Beats s x :=
    fun x hb => beatsC_of_set hw hb (Int.le_refl _) (fun v hv => by cases hv)
  have hT : ∀ x d, Beats ({ s with ws := s.ws.set i (.fin n) } : KSys S) x → Live H s x d →
      Live H ({ s with ws := s.ws.set i (.fin n) } : KSys S) x d := by
    apply tp_of_local
    intro x d hb hl
    refine liveC_cases H (i := i) hl (fun c hc hcc hp => .inl (liveC_of_F H hc hcc hp)) (fun w1 hw1 hl1 => ?_)
      (fun j w hj hwj hl1 => .inl (liveC_of_other H hj hwj hl1))
    rw [hw] at hw1; cases hw1
    rcases hl1 with ⟨m, hm, hcc⟩ | ⟨c, hc, _⟩
    · cases hm
      right
      obtain ⟨hd, y, hy, hxy⟩ := hcc
      rcases hI.ub n (.inr ⟨i, .inr hw⟩) y hy ((hB x hb).up hxy) with h1 | h1
      · have := (hB x hb).1; omega
      · exact ⟨y, n.depth + 1, hxy, by omega, h1⟩
    · cases hc
  have hpb : ∀ c, Prunable ({ s with ws := s.ws.set i (.fin n) } : KSys S) c → Prunable s c :=
    fun c h => prunable_back hw (fun c hc => by cases hc) (fun c hc => hc) h
  refine kpinv_step H opt Sol Rg hI hB hT ?_ (fun c hc => hI.rng c (hpb c hc)) hI.lbOk hI.solOk hI.cur
    (fun c hc => .inl hc) ?_ ?_ ?_ ?_
  · rintro c (hc | hc)
    · exact hI.good c (.inl (hpb c hc))
    · exact hI.good c (.inr (held_back (w0 := .readR n) (a := .fin n) hw (fun c hc => by cases hc) hc))
  · rintro c (hc | hc)
    · exact .inl (.inl (hpb c hc))
    · exact .inl (.inr (fresh_back (w0 := .readR n) (a := .fin n) hw (fun c hc => by rcases hc with e | e <;> cases e) hc))
  · exact popmax_set H opt Sol Rg hI (fun c hc => hc) (fun m e => by cases e)
  · exact wok_set H opt Sol Rg hI (a := .fin n) (Int.le_refl _) (fun c hc => hc) trivial
  · exact done_set H opt Sol Rg hI (Int.le_refl _) hI.lbOk (fun e => by cases e)

/-! ## one `update_threshold` of a finished compilation -/

/-- **a threshold write** by worker `i` (stage `w0 → a`, same carried data) of `u ∈ ups`, thresholds of a compilation with
    virtual cache `cv`, answer `o`, `bk = max lb best_exact`: every witness the write makes the cache refuse is dominated —
    by a node of the writer's own pending cut-set that its writes do not refuse (`fresh1`), or strictly deeper -/
theorem kpinv_write {s : KSys S} (hI : KPInv H opt Sol Rg s) {i : Nat} {w0 a : KW S} {u : Up S} {c' : Cache S}
    {cv : Cache S} {o : DDOut S} {ups : List (Up S)} {bk : Int}
    (hw : s.ws[i]? = some w0) (hs : SameW w0 a) (hnf : ∀ c, a ≠ .gwW c ∧ a ≠ .readR c) (hnd : a ≠ .done)
    (hwok : WOk H opt Sol Rg s.crit.base.bestLb (c' :: s.log) a)
    (hu : s.cache.update u.1 u.2.1 (upThr u) = some c')
    (hth : ThetaStrict H Rg (viewOf cv) o ups bk) (huu : u ∈ ups)
    (hbk : ∀ y, Beats s y → bk < y) (hcov : CvOk s.log cv)
    (hcut : ∀ c1 ∈ o.cutset, ∀ y1, optOf H c1 = some y1 → Beats s y1 →
      (c1 ∈ w0.pendCut ∧ (c1.ub > bk → ¬ prunM ((viewOf cv).upd u) c1)) ∨
      ∃ x' d', y1 ≤ x' ∧ c1.depth < d' ∧ Live H s x' d') :
    KPInv H opt Sol Rg { s with cache := c', log := c' :: s.log, ws := s.ws.set i a } := by
  have hv : viewOf c' = (viewOf s.cache).upd u := viewOf_update s.cache c' u.1 u.2.1 u.2.2.1 u.2.2.2 hu
  have hB : ∀ x, Beats ({ s with cache := c', log := c' :: s.log, ws := s.ws.set i a } : KSys S) x → Beats s x :=
    fun x hb => (beatsC_set_same hw hs).mp hb
  have hB' : ∀ x, Beats s x → Beats ({ s with cache := c', log := c' :: s.log, ws := s.ws.set i a } : KSys S) x :=
    fun x hb => (beatsC_set_same hw hs).mpr hb
  -- the heart: a prunable witness that the write refuses
  have hnew : ∀ (c : SubP S) (x : Int) (d : Nat), Prunable s c → Carries H c x d → ¬ prunM (viewOf s.cache) c →
      prunM (viewOf c') c → Beats s x →
      Live H ({ s with cache := c', log := c' :: s.log, ws := s.ws.set i a } : KSys S) x d ∨
        ∃ x' d', x ≤ x' ∧ d < d' ∧ Live H s x' d' := by
    intro c x d hpc hcc hnp hp hb
    rw [hv] at hp
    obtain ⟨a1, a2, a3, a4⟩ := prunM_upd_new _ _ c hnp hp
    obtain ⟨hd, y, hy, hxy⟩ := hcc
    obtain ⟨hh, hH, hyh⟩ := optOf_some H c y hy
    have hby : Beats s y := hb.up hxy
    have hvle : c.value ≤ u.2.2.1 := by
      unfold prunBy upThr at a3; dsimp only at a3; omega
    rcases hth u huu c.value hh (by rw [a2]; exact hI.rng c hpc) hvle (by rw [a1, a2]; exact hH) with
      h1 | ⟨c1, hc1, hpos, y1, hy1, hyy1⟩ | h3
    · have := hbk y hby; omega
    · have hby1 : Beats s y1 := hby.up (by omega)
      rcases hcut c1 hc1 y1 hy1 hby1 with ⟨hpend, hfresh⟩ | ⟨x', d', hx', hd', hl'⟩
      · have hpr1 : Prunable s c1 := .inr ⟨i, w0, hw, hpend⟩
        rcases hpos with hlt | ⟨hdeq, hseq⟩
        · right
          exact ⟨y1, c1.depth, by omega, by omega, prunable_live H opt Sol Rg hI hpr1 hy1 hby1⟩
        · by_cases hgt : c1.ub > bk
          · left
            have hcell : (viewOf c') c1.state c1.depth = some (upThr u) := by
              rw [hv, hseq, hdeq, a1, a2]; exact a4
            have hnp1 : ¬ prunM (viewOf c') c1 := by
              apply not_prun_of_cell _ _ _ hcell
              intro hpb
              apply hfresh hgt
              obtain ⟨t', ht', hle, _, _⟩ := upd_cell_ge (viewOf cv) u
              exact ⟨t', by rw [hseq, hdeq]; exact ht', prunBy_mono hle hpb⟩
            exact liveC_of_self H hw (.inr ⟨c1, by rw [hs.2.2]; exact hpend, ⟨by omega, y1, hy1, by omega⟩, hnp1⟩)
          · right
            rcases hI.ub c1 (.inl hpr1) y1 hy1 hby1 with h4 | h4
            · have := hbk y1 hby1; omega
            · exact ⟨y1, c1.depth + 1, by omega, by omega, h4⟩
      · right
        have : u.2.1 ≤ c1.depth := by rcases hpos with h | ⟨h, _⟩ <;> omega
        exact ⟨x', d', by omega, by omega, hl'⟩
    · right
      obtain ⟨x', d', hx', hd', hl'⟩ := cov_live H opt Sol Rg hI hcov h3 (by rw [← hyh]; exact hby)
      exact ⟨x', d', by omega, by omega, hl'⟩
  have hT : ∀ x d, Beats ({ s with cache := c', log := c' :: s.log, ws := s.ws.set i a } : KSys S) x → Live H s x d →
      Live H ({ s with cache := c', log := c' :: s.log, ws := s.ws.set i a } : KSys S) x d := by
    apply tp_of_local
    intro x d hb hl
    refine liveC_cases H (i := i) hl (fun c hc hcc hnp => ?_) (fun w1 hw1 hl1 => ?_) (fun j w hj hwj hl1 => ?_)
    · by_cases hp : prunM (viewOf c') c
      · exact hnew c x d (.inl hc) hcc hnp hp (hB x hb)
      · exact .inl (liveC_of_F H hc hcc hp)
    · rw [hw] at hw1; cases hw1
      rcases hl1 with ⟨m, hm, hcc⟩ | ⟨c, hc, hcc, hnp⟩
      · exact .inl (liveC_of_self H hw (.inl ⟨m, by rw [hs.1]; exact hm, hcc⟩))
      · by_cases hp : prunM (viewOf c') c
        · exact hnew c x d (.inr ⟨i, w0, hw, hc⟩) hcc hnp hp (hB x hb)
        · exact .inl (liveC_of_self H hw (.inr ⟨c, by rw [hs.2.2]; exact hc, hcc, hp⟩))
    · rcases hl1 with ⟨m, hm, hcc⟩ | ⟨c, hc, hcc, hnp⟩
      · exact .inl (liveC_of_other H hj hwj (.inl ⟨m, hm, hcc⟩))
      · by_cases hp : prunM (viewOf c') c
        · exact hnew c x d (.inr ⟨j, w, hwj, hc⟩) hcc hnp hp (hB x hb)
        · exact .inl (liveC_of_other H hj hwj (.inr ⟨c, hc, hcc, hp⟩))
  have hpb : ∀ c, Prunable ({ s with cache := c', log := c' :: s.log, ws := s.ws.set i a } : KSys S) c → Prunable s c :=
    fun c h => prunable_back hw (fun c hc => by rw [← hs.2.2]; exact hc) (fun c hc => hc) h
  refine kpinv_step H opt Sol Rg hI hB hT ?_ (fun c hc => hI.rng c (hpb c hc)) hI.lbOk hI.solOk List.mem_cons_self ?_ ?_ ?_ ?_ ?_
  · rintro c (hc | hc)
    · exact hI.good c (.inl (hpb c hc))
    · exact hI.good c (.inr (held_back hw (fun c hc => by rw [← hs.1]; exact hc) hc))
  · -- the new content of the cache is justified
    intro c hc
    rcases List.mem_cons.mp hc with e | e
    · right
      subst e
      intro st d tt htt
      rw [hv] at htt
      rcases upd_get _ _ st d tt htt with h1 | ⟨b1, b2, b3⟩
      · exact (hI.jst s.cache hI.cur st d tt h1).transfer H Rg hB hT
      · subst b1; subst b2; subst b3
        intro v h hrg hvt hH hb
        dsimp only at hvt
        have hbs := hB _ hb
        rcases hth u huu v h hrg hvt hH with h1 | ⟨c1, hc1, hpos, y1, hy1, hyy1⟩ | h3
        · have := hbk _ hbs; omega
        · have hle : u.2.1 ≤ c1.depth := by rcases hpos with h | ⟨h, _⟩ <;> omega
          have hby1 : Beats s y1 := hbs.up hyy1
          rcases hcut c1 hc1 y1 hy1 hby1 with ⟨hpend, _⟩ | ⟨x', d', hx', hd', hl'⟩
          · have := prunable_live H opt Sol Rg hI (.inr ⟨i, w0, hw, hpend⟩) hy1 hby1
            exact (hT _ _ (hB' _ hby1) this).mono H hyy1 hle
          · exact (hT _ _ (hB' _ (hby1.up hx')) hl').mono H (by omega) (by omega)
        · obtain ⟨x', d', hx', hd', hl'⟩ := cov_live H opt Sol Rg hI hcov h3 hbs
          exact (hT _ _ (hB' _ (hbs.up hx')) hl').mono H hx' (by omega)
    · exact .inl e
  · rintro c (hc | hc)
    · exact .inl (.inl (hpb c hc))
    · exact .inl (.inr (fresh_back hw (fun c hc => by rcases hc with e | e; exact absurd e (hnf c).1; exact absurd e (hnf c).2) hc))
  · exact popmax_set H opt Sol Rg hI (fun c hc => hc) (fun n e => absurd e (hnf n).1)
  · exact wok_set H opt Sol Rg hI (Int.le_refl _) (fun c hc => List.mem_cons_of_mem _ hc) hwok
  · exact done_set H opt Sol Rg hI (Int.le_refl _) hI.lbOk (fun e => absurd e hnd)

/-! ## `maybe_update_best` -/

/-- **publication** of the exact value of a finished compilation (`w0.pendVal = o.bestExact`); the open node stays
    (`hopen` left) or is closed because everything it carries that still beats is carried strictly deeper (`hopen` right) -/
theorem kpinv_publish {s : KSys S} (hI : KPInv H opt Sol Rg s) {i : Nat} {w0 a : KW S} {o : DDOut S}
    (hw : s.ws[i]? = some w0) (hpv : w0.pendVal = o.bestExact) (hapv : a.pendVal = none) (hpc : a.pendCut = w0.pendCut)
    (hsound : ∀ w, o.bestExact = some w → ∃ p, o.bestExactSol = some p ∧ Sol p w ∧ w ≤ opt)
    (hnf : ∀ c, a ≠ .gwW c ∧ a ≠ .readR c) (hnd : a ≠ .done)
    (hwok : WOk H opt Sol Rg (s.crit.updateBest o).base.bestLb s.log a)
    (hopen : a.openNode = w0.openNode ∨ (a.openNode = none ∧ ∀ n, w0.openNode = some n → ∀ x d, Carries H n x d →
      Beats ({ s with crit := s.crit.updateBest o, ws := s.ws.set i a } : KSys S) x →
      ∃ x' d', x ≤ x' ∧ d < d' ∧ Live H s x' d')) :
    KPInv H opt Sol Rg { s with crit := s.crit.updateBest o, ws := s.ws.set i a } := by
  obtain ⟨f1, _⟩ := updateBest_fringe s.crit.base o
  have hge := updateBest_lb_ge s.crit.base o
  obtain ⟨hlb', hsol'⟩ := Ddo.C09.updateBest_ok' opt Sol s.crit.base o hI.lbOk hI.solOk hsound
  have hB : ∀ x, Beats ({ s with crit := s.crit.updateBest o, ws := s.ws.set i a } : KSys S) x → Beats s x := by
    intro x hb
    refine beatsC_of_set hw hb hge (fun v hv => ?_)
    rw [hpv] at hv
    have h1 := updateBest_lb_ge_val s.crit.base o v hv
    have h2 : (s.crit.base.updateBest o).bestLb < x := hb.1
    omega
  have hT : ∀ x d, Beats ({ s with crit := s.crit.updateBest o, ws := s.ws.set i a } : KSys S) x → Live H s x d →
      Live H ({ s with crit := s.crit.updateBest o, ws := s.ws.set i a } : KSys S) x d := by
    apply tp_of_local
    intro x d hb hl
    have hgoal : ∀ {F : List (SubP S)} (h : F = s.crit.base.fringe),
        LiveC H F (viewOf s.cache) (s.ws.set i a) x d →
        Live H ({ s with crit := s.crit.updateBest o, ws := s.ws.set i a } : KSys S) x d := by
      intro F h hl
      show LiveC H (s.crit.base.updateBest o).fringe (viewOf s.cache) (s.ws.set i a) x d
      rw [f1, ← h]; exact hl
    refine liveC_cases H (i := i) hl (fun c hc hcc hp => .inl (hgoal rfl (liveC_of_F H hc hcc hp))) (fun w1 hw1 hl1 => ?_)
      (fun j w hj hwj hl1 => .inl (hgoal rfl (liveC_of_other H hj hwj hl1)))
    rw [hw] at hw1; cases hw1
    rcases hl1 with ⟨m, hm, hcc⟩ | ⟨c, hc, hcc, hp⟩
    · rcases hopen with ho | ⟨_, ho⟩
      · exact .inl (hgoal rfl (liveC_of_self H hw (.inl ⟨m, by rw [ho]; exact hm, hcc⟩)))
      · exact .inr (ho m hm x d hcc hb)
    · exact .inl (hgoal rfl (liveC_of_self H hw (.inr ⟨c, by rw [hpc]; exact hc, hcc, hp⟩)))
  have hpb : ∀ c, Prunable ({ s with crit := s.crit.updateBest o, ws := s.ws.set i a } : KSys S) c → Prunable s c :=
    fun c h => prunable_back hw (fun c hc => by rw [← hpc]; exact hc)
      (fun c hc => by have : c ∈ (s.crit.base.updateBest o).fringe := hc; rw [f1] at this; exact this) h
  have hob : ∀ c, a.openNode = some c → w0.openNode = some c := by
    intro c hc
    rcases hopen with ho | ⟨ho, _⟩
    · rw [← ho]; exact hc
    · rw [ho] at hc; cases hc
  refine kpinv_step H opt Sol Rg hI hB hT ?_ (fun c hc => hI.rng c (hpb c hc)) hlb' hsol' hI.cur
    (fun c hc => .inl hc) ?_ ?_ ?_ ?_
  · rintro c (hc | hc)
    · exact hI.good c (.inl (hpb c hc))
    · exact hI.good c (.inr (held_back hw hob hc))
  · rintro c (hc | hc)
    · exact .inl (.inl (hpb c hc))
    · exact .inl (.inr (fresh_back hw (fun c hc => by rcases hc with e | e; exact absurd e (hnf c).1; exact absurd e (hnf c).2) hc))
  · intro j n hj
    show ∀ c ∈ (s.crit.base.updateBest o).fringe, c.ub ≤ n.ub
    rw [f1]
    exact popmax_set H opt Sol Rg hI (fun c hc => hc) (fun n e => absurd e (hnf n).1) j n hj
  · exact wok_set H opt Sol Rg hI hge (fun c hc => hc) hwok
  · exact done_set H opt Sol Rg hI hge hlb' (fun e => absurd e hnd)

end
end Ddo.ParCache
