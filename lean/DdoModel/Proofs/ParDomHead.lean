import DdoModel.Proofs.ParDomGen
import DdoModel.Proofs.ParDomInv
/-! # The parallel solver with the dominance checker, generic in the answer relations — the headline

`GAll`: everything that holds in every reachable state of `GStep` (side conditions `GPCInv`, bookkeeping `LayInv`, nothing cut off
`NoCut`, the coverage invariant `DSysInv` for the protected family); `parallel_dominance_of`: termination, no panic, no deadlock,
the optimum at `Complete` and when `maximize()` returns — for any answer relations `okR` / `okX` meeting `AnsOk`. -/
set_option linter.unusedSectionVars false
set_option linter.unusedVariables false
namespace Ddo.ParDom
open Ddo Ddo.Truth Ddo.Closed Ddo.ParSys Ddo.ParClosed Ddo.C10
open Ddo.C01 (SolverCfg WellFormed toOut SolOf)
variable {S K : Type} [DecidableEq S] [DecidableEq K]

/-- everything that holds in every reachable state -/
structure GAll (dv : DSolverCfg S K) (H : Nat → S → EInt) (okR okX : SubP S → Int → DDOut S → Prop) (B opt : Int)
    (Prot : Nat → S → Int → Prop) (s : Sys S) : Prop where
  pc : GPCInv dv H okR okX B s
  lay : LayInv dv.sv s
  noCut : NoCut s
  cov : DSysInv (OnP Prot) opt (SolOf dv.sv.P) s

theorem init_gall {dv : DSolverCfg S K} {H : Nat → S → EInt} {B0 B opt : Int} {Prot : Nat → S → Int → Prop}
    {okR okX : SubP S → Int → DDOut S → Prop} (hwf : WellFormed dv.sv H B0 B)
    (hopt : (H 0 dv.sv.P.init).addI dv.sv.P.initVal = some opt) (hPr : Protected dv.D dv.sv.P H opt Prot) (U : Nat) :
    GAll dv H okR okX B opt Prot (Sys.init dv.sv.P none dv.sv.dedup U) := by
  have hb := opt_bound hwf.pot hwf.nv hwf.bound hopt
  have hBs := hwf.bound.B_small
  have h1 : opt ≤ iMax := by simp only [iMax]; omega
  have h2 : iMin ≤ opt := by simp only [iMin]; omega
  refine ⟨init_gpcinv okR okX hwf U, init_layinv dv.sv none U, init_noCut dv.sv.P none dv.sv.dedup U, ?_⟩
  exact init_dinv (OnP Prot) opt (SolOf dv.sv.P) dv.sv.P dv.sv.dedup U ⟨dv.sv.P.initVal, Int.le_refl _, hPr.root⟩ h1 h2

/-- a step of the generic system is a step of the system whose answers carry the side conditions -/
theorem gstep_lift {dv : DSolverCfg S K} {H : Nat → S → EInt} {B : Int} {okR okX : SubP S → Int → DDOut S → Prop} {s t : Sys S}
    (h : Step dv.sv.dedup okR okX s t) (hI : GPCInv dv H okR okX B s) :
    Step dv.sv.dedup (fun n lb o => okR n lb o ∧ C01.NodeOk dv.sv.P n ∧ iMin ≤ lb ∧ lb ≤ B)
      (fun n lb o => okX n lb o ∧ C01.NodeOk dv.sv.P n ∧ iMin ≤ lb ∧ lb ≤ B) s t :=
  step_mono h
    (fun i n lb o hw hok => ⟨hok, (hI.ws _ (List.mem_of_getElem? hw)).node n rfl, (hI.ws _ (List.mem_of_getElem? hw)).stage⟩)
    (fun i n lb o hw hok => ⟨hok, (hI.ws _ (List.mem_of_getElem? hw)).node n rfl, (hI.ws _ (List.mem_of_getElem? hw)).stage⟩)

theorem gstep_gall {dv : DSolverCfg S K} {H : Nat → S → EInt} {B0 B opt : Int} {Prot : Nat → S → Int → Prop}
    {okR okX : SubP S → Int → DDOut S → Prop} (hwf : WellFormed dv.sv H B0 B)
    (hopt : (H 0 dv.sv.P.init).addI dv.sv.P.initVal = some opt) (hPr : Protected dv.D dv.sv.P H opt Prot)
    (hA : AnsOk dv B opt Prot okR okX) {s t : Sys S} (h : GStep dv.sv.dedup okR okX s t)
    (hI : GAll dv H okR okX B opt Prot s) : GAll dv H okR okX B opt Prot t := by
  refine ⟨gstep_pcinv hwf hopt hA h.1 hI.pc, gstep_layinv hwf hA h.1 hI.pc hI.lay, step_noCut h.1 hI.noCut h.2, ?_⟩
  exact step_dinv (OnP Prot) opt (SolOf dv.sv.P) dv.sv.dedup (onP_mono Prot)
    (fun n lb o h hle => hA.contractR n lb o h.2.1 h.2.2.1 h.2.2.2 hle h.1)
    (fun n lb o h hle => hA.contractX n lb o h.2.1 h.2.2.1 h.2.2.2 hle h.1)
    (gstep_lift h.1 hI.pc) hI.cov

theorem grun_gall_of {dv : DSolverCfg S K} {H : Nat → S → EInt} {B0 B opt : Int} {Prot : Nat → S → Int → Prop}
    {okR okX : SubP S → Int → DDOut S → Prop} (hwf : WellFormed dv.sv H B0 B)
    (hopt : (H 0 dv.sv.P.init).addI dv.sv.P.initVal = some opt) (hPr : Protected dv.D dv.sv.P H opt Prot)
    (hA : AnsOk dv B opt Prot okR okX) {s t : Sys S} (h : GRun dv.sv.dedup okR okX s t)
    (hI : GAll dv H okR okX B opt Prot s) : GAll dv H okR okX B opt Prot t := by
  induction h with
  | refl => exact hI
  | tail _ hst ih => exact gstep_gall hwf hopt hPr hA hst ih

theorem grun_gall {dv : DSolverCfg S K} {H : Nat → S → EInt} {B0 B opt : Int} {Prot : Nat → S → Int → Prop}
    {okR okX : SubP S → Int → DDOut S → Prop} (hwf : WellFormed dv.sv H B0 B)
    (hopt : (H 0 dv.sv.P.init).addI dv.sv.P.initVal = some opt) (hPr : Protected dv.D dv.sv.P H opt Prot)
    (hA : AnsOk dv B opt Prot okR okX) {U : Nat} {t : Sys S}
    (h : GRun dv.sv.dedup okR okX (Sys.init dv.sv.P none dv.sv.dedup U) t) : GAll dv H okR okX B opt Prot t :=
  grun_gall_of hwf hopt hPr hA h (init_gall hwf hopt hPr U)

theorem grun_head {dedup : Bool} {okR okX : SubP S → Int → DDOut S → Prop} {s t u : Sys S}
    (h : GStep dedup okR okX s t) (r : GRun dedup okR okX t u) : GRun dedup okR okX s u := by
  induction r with
  | refl => exact GRun.tail (GRun.refl _) h
  | tail _ hst ih => exact GRun.tail ih hst

theorem grun_trans {dedup : Bool} {okR okX : SubP S → Int → DDOut S → Prop} {s t u : Sys S}
    (h1 : GRun dedup okR okX s t) (h2 : GRun dedup okR okX t u) : GRun dedup okR okX s u := by
  induction h2 with
  | refl => exact h1
  | tail _ hst ih => exact GRun.tail ih hst

/-- the number of workers never changes -/
theorem grun_length {dedup : Bool} {okR okX : SubP S → Int → DDOut S → Prop} {s u : Sys S}
    (h : GRun dedup okR okX s u) : u.ws.length = s.ws.length := by
  induction h with
  | refl => rfl
  | tail _ hst ih =>
    rw [← ih]
    have hst := hst.1
    cases hst <;> simp [List.length_set, List.length_map]

/-! ## termination -/

theorem gpar_terminates {dv : DSolverCfg S K} {H : Nat → S → EInt} {B0 B opt : Int} {Prot : Nat → S → Int → Prop}
    {okR okX : SubP S → Int → DDOut S → Prop} (hwf : WellFormed dv.sv H B0 B)
    (hopt : (H 0 dv.sv.P.init).addI dv.sv.P.initVal = some opt) (hPr : Protected dv.D dv.sv.P H opt Prot)
    (hA : AnsOk dv B opt Prot okR okX) (U : Nat) :
    WellFounded (fun t s : Sys S =>
      GRun dv.sv.dedup okR okX (Sys.init dv.sv.P none dv.sv.dedup U) s ∧ GStep dv.sv.dedup okR okX s t) :=
  Subrelation.wf (fun {_ _} h => ⟨h.2.1, gpcinv_progOk hA (grun_gall hwf hopt hPr hA h.1).pc⟩)
    (C03b.sys_terminates dv.sv.P.nbVars dv.sv.dedup okR okX)

theorem gpar_no_infinite_run {dv : DSolverCfg S K} {H : Nat → S → EInt} {B0 B opt : Int} {Prot : Nat → S → Int → Prop}
    {okR okX : SubP S → Int → DDOut S → Prop} (hwf : WellFormed dv.sv H B0 B)
    (hopt : (H 0 dv.sv.P.init).addI dv.sv.P.initVal = some opt) (hPr : Protected dv.D dv.sv.P H opt Prot)
    (hA : AnsOk dv B opt Prot okR okX) (U : Nat)
    (run : Nat → Sys S) (h0 : run 0 = Sys.init dv.sv.P none dv.sv.dedup U) :
    ¬ ∀ k, GStep dv.sv.dedup okR okX (run k) (run (k + 1)) := by
  intro hrun
  have hreach : ∀ k, GRun dv.sv.dedup okR okX (Sys.init dv.sv.P none dv.sv.dedup U) (run k) := by
    intro k
    induction k with
    | zero => rw [h0]; exact GRun.refl _
    | succ k ih => exact GRun.tail ih (hrun k)
  exact no_infinite_chain (gpar_terminates hwf hopt hPr hA U) run (fun k => ⟨hreach k, hrun k⟩)

/-! ## completion -/

/-- a stored solution exists once the incumbent is the optimum -/
theorem gsol_some {dv : DSolverCfg S K} {H : Nat → S → EInt} {B0 B opt : Int}
    {okR okX : SubP S → Int → DDOut S → Prop} (hwf : WellFormed dv.sv H B0 B)
    (hopt : (H 0 dv.sv.P.init).addI dv.sv.P.initVal = some opt) {t : Sys S} (hI : GPCInv dv H okR okX B t)
    (hlb : t.crit.base.bestLb = opt) : ∃ p, t.crit.base.bestSol = some p := by
  have hb := opt_bound hwf.pot hwf.nv hwf.bound hopt
  have hBs := hwf.bound.B_small
  cases hs : t.crit.base.bestSol with
  | none =>
    have := hI.base.solLb hs
    simp only [iMin] at this
    omega
  | some p => exact ⟨p, rfl⟩

/-- when a worker's `get_workload` answers `Complete` the incumbent is the optimum, with a stored feasible solution -/
theorem gpar_complete_optimal {dv : DSolverCfg S K} {H : Nat → S → EInt} {B0 B opt : Int} {Prot : Nat → S → Int → Prop}
    {okR okX : SubP S → Int → DDOut S → Prop} (hwf : WellFormed dv.sv H B0 B)
    (hopt : (H 0 dv.sv.P.init).addI dv.sv.P.initVal = some opt) {t : Sys S}
    (hI : GAll dv H okR okX B opt Prot t) {i : Nat} (hc : CompletesAt t i) :
    t.crit.base.bestLb = opt ∧ (∃ p, t.crit.base.bestSol = some p ∧ SolOf dv.sv.P p opt) ∧
    t.crit.complete.base.bestUb = opt ∧ t.crit.complete.base.completion = (true, some opt) := by
  obtain ⟨h1, h2⟩ := dcomplete_optimal (OnP Prot) opt (SolOf dv.sv.P) hI.cov hc
  obtain ⟨p, hs⟩ := gsol_some hwf hopt hI.pc h1
  refine ⟨h1, ⟨p, hs, h2 p hs⟩, h1, ?_⟩
  show (!t.crit.base.abort, t.crit.base.bestSol.map (fun _ => t.crit.base.bestLb)) = _
  rw [hc.2.1, h1, hs]; rfl

/-- when `maximize()` returns (every worker has left), `U ≥ 1` -/
theorem gpar_final {dv : DSolverCfg S K} {H : Nat → S → EInt} {B0 B opt : Int} {Prot : Nat → S → Int → Prop}
    {okR okX : SubP S → Int → DDOut S → Prop} (hwf : WellFormed dv.sv H B0 B)
    (hopt : (H 0 dv.sv.P.init).addI dv.sv.P.initVal = some opt) (hPr : Protected dv.D dv.sv.P H opt Prot)
    (hA : AnsOk dv B opt Prot okR okX) (U : Nat) (hU : 1 ≤ U) {t : Sys S}
    (ht : GRun dv.sv.dedup okR okX (Sys.init dv.sv.P none dv.sv.dedup U) t) (hd : AllDone t) :
    t.crit.base.bestLb = opt ∧ (∃ p, t.crit.base.bestSol = some p ∧ SolOf dv.sv.P p opt) ∧
    t.crit.base.completion = (true, some opt) := by
  have hI := grun_gall hwf hopt hPr hA ht
  have hlen : t.ws.length = U := by
    rw [grun_length ht]; simp [Sys.init]
  have hne : t.ws ≠ [] := by
    intro e; rw [e] at hlen; simp at hlen; omega
  have ha : t.crit.base.abort = false := hI.noCut.1
  have h1 := dfinal_optimal (OnP Prot) opt (SolOf dv.sv.P) hI.cov hd hne ha
  obtain ⟨p, hs⟩ := gsol_some hwf hopt hI.pc h1
  refine ⟨h1, ⟨p, hs, h1 ▸ hI.cov.solOk p hs⟩, ?_⟩
  show (!t.crit.base.abort, t.crit.base.bestSol.map (fun _ => t.crit.base.bestLb)) = _
  rw [ha, h1, hs]; rfl

/-! ## the headline -/

/-- **the generic headline**: for every well-formed model, every protected family of the dominance rule, every pair of answer
    relations meeting `AnsOk` and every number of threads `U ≥ 1`, the parallel solver (no compilation cut off), in every
    interleaving: terminates; in every reachable state: `GAll`; no panic, no deadlock; the optimum with a feasible solution at
    `Complete` and when `maximize()` returns; always `best_lb ≤ opt` with a feasible stored solution of value `best_lb`. -/
theorem parallel_dominance_of (dv : DSolverCfg S K) (H : Nat → S → EInt) (B0 B opt : Int) (Prot : Nat → S → Int → Prop)
    (okR okX : SubP S → Int → DDOut S → Prop)
    (hwf : WellFormed dv.sv H B0 B) (hopt : (H 0 dv.sv.P.init).addI dv.sv.P.initVal = some opt)
    (hPr : Protected dv.D dv.sv.P H opt Prot) (hA : AnsOk dv B opt Prot okR okX) (U : Nat) (hU : 1 ≤ U) :
    WellFounded (fun t s : Sys S =>
      GRun dv.sv.dedup okR okX (Sys.init dv.sv.P none dv.sv.dedup U) s ∧ GStep dv.sv.dedup okR okX s t) ∧
    (∀ run : Nat → Sys S, run 0 = Sys.init dv.sv.P none dv.sv.dedup U →
      ¬ ∀ k, GStep dv.sv.dedup okR okX (run k) (run (k + 1))) ∧
    ∀ t, GRun dv.sv.dedup okR okX (Sys.init dv.sv.P none dv.sv.dedup U) t →
      GAll dv H okR okX B opt Prot t ∧
      (NoCrash t ∧ t.crit.base.crashed = false ∧ (¬ AllDone t → ∃ u, GStep dv.sv.dedup okR okX t u)) ∧
      (∀ i, CompletesAt t i →
        t.crit.base.bestLb = opt ∧ (∃ p, t.crit.base.bestSol = some p ∧ SolOf dv.sv.P p opt) ∧
        t.crit.complete.base.bestUb = opt ∧ t.crit.complete.base.completion = (true, some opt)) ∧
      (AllDone t →
        t.crit.base.bestLb = opt ∧ (∃ p, t.crit.base.bestSol = some p ∧ SolOf dv.sv.P p opt) ∧
        t.crit.base.completion = (true, some opt)) ∧
      t.crit.base.bestLb ≤ opt ∧ (∀ p, t.crit.base.bestSol = some p → SolOf dv.sv.P p t.crit.base.bestLb) := by
  refine ⟨gpar_terminates hwf hopt hPr hA U, gpar_no_infinite_run hwf hopt hPr hA U, fun t ht => ?_⟩
  have hI := grun_gall hwf hopt hPr hA ht
  exact ⟨hI, ⟨hI.lay.hand.noCrash, hI.lay.crit.noPanic, fun hlive => gstep_progress hwf hA hI.pc hI.lay hI.noCut hlive⟩,
    fun i hc => gpar_complete_optimal hwf hopt hI hc, fun hd => gpar_final hwf hopt hPr hA U hU ht hd,
    hI.cov.lbOk, hI.cov.solOk⟩

/-- every run can be continued until every worker has left -/
theorem grun_to_end {dv : DSolverCfg S K} {H : Nat → S → EInt} {B0 B opt : Int} {Prot : Nat → S → Int → Prop}
    {okR okX : SubP S → Int → DDOut S → Prop} (hwf : WellFormed dv.sv H B0 B)
    (hopt : (H 0 dv.sv.P.init).addI dv.sv.P.initVal = some opt) (hPr : Protected dv.D dv.sv.P H opt Prot)
    (hA : AnsOk dv B opt Prot okR okX) (U : Nat) {s : Sys S}
    (hs : GRun dv.sv.dedup okR okX (Sys.init dv.sv.P none dv.sv.dedup U) s) :
    ∃ t, GRun dv.sv.dedup okR okX (Sys.init dv.sv.P none dv.sv.dedup U) t ∧ GRun dv.sv.dedup okR okX s t ∧ AllDone t := by
  refine (gpar_terminates hwf hopt hPr hA U).induction
    (C := fun s => GRun dv.sv.dedup okR okX (Sys.init dv.sv.P none dv.sv.dedup U) s →
      ∃ t, GRun dv.sv.dedup okR okX (Sys.init dv.sv.P none dv.sv.dedup U) t ∧ GRun dv.sv.dedup okR okX s t ∧ AllDone t) s ?_ hs
  intro s ih hs
  by_cases hd : AllDone s
  · exact ⟨s, hs, GRun.refl _, hd⟩
  · have hI := grun_gall hwf hopt hPr hA hs
    obtain ⟨u, hu⟩ := gstep_progress hwf hA hI.pc hI.lay hI.noCut hd
    obtain ⟨t, h1, h2, h3⟩ := ih u ⟨hs, hu⟩ (GRun.tail hs hu)
    exact ⟨t, h1, grun_head hu h2, h3⟩

/-- a run from `initialize()` to the return of `maximize()` exists, and every such run reports the optimum -/
theorem parallel_dominance_total (dv : DSolverCfg S K) (H : Nat → S → EInt) (B0 B opt : Int) (Prot : Nat → S → Int → Prop)
    (okR okX : SubP S → Int → DDOut S → Prop)
    (hwf : WellFormed dv.sv H B0 B) (hopt : (H 0 dv.sv.P.init).addI dv.sv.P.initVal = some opt)
    (hPr : Protected dv.D dv.sv.P H opt Prot) (hA : AnsOk dv B opt Prot okR okX) (U : Nat) (hU : 1 ≤ U) :
    (∃ t, GRun dv.sv.dedup okR okX (Sys.init dv.sv.P none dv.sv.dedup U) t ∧ AllDone t) ∧
    ∀ t, GRun dv.sv.dedup okR okX (Sys.init dv.sv.P none dv.sv.dedup U) t → AllDone t →
      t.crit.base.completion = (true, some opt) ∧ t.crit.base.bestLb = opt ∧
      ∃ p, t.crit.base.bestSol = some p ∧ SolOf dv.sv.P p opt := by
  refine ⟨?_, fun t ht hd => ?_⟩
  · obtain ⟨t, h1, _, h3⟩ := grun_to_end hwf hopt hPr hA U (GRun.refl _)
    exact ⟨t, h1, h3⟩
  · obtain ⟨h1, h2, h3⟩ := gpar_final hwf hopt hPr hA U hU ht hd
    exact ⟨h3, h1, h2⟩

end Ddo.ParDom

#print axioms Ddo.ParDom.init_gall
#print axioms Ddo.ParDom.gstep_gall
#print axioms Ddo.ParDom.grun_gall
#print axioms Ddo.ParDom.parallel_dominance_of
#print axioms Ddo.ParDom.grun_to_end
#print axioms Ddo.ParDom.parallel_dominance_total
