import DdoModel.Proofs.MddCover
import DdoModel.Proofs.MddCutset
/-! Truthful exactness (second sentence of C06, remaining clauses of C07): a compilation that declares itself
    exact reports the optimum of its root sub-problem.  Property theorems: `DdoModel/Props/C06b.lean`,
    `DdoModel/Props/C07b.lean`.

Structure:

* `Reach.det`, `reach_le` — a path that extends the path of the root sub-problem cannot beat `optOf H root`
  (`Potential.le` along the extension): the *lower* direction `best ≤ o`.
* `squash_lel_none`, `stepLayer_lel`, `buildLoop_lel` — `dd.lel` is monotone (`none → some`), and a step that leaves it
  unset did not squash the layer.
* `buildLoop_cover_x` — the coverage invariant `Ddo.Cover.Inv` is preserved by the steps that do not squash, for **every**
  compilation type and width, without `MergeOk` / `AttMerge`: the *upper* direction `best ≥ o` when `lel` is unset at
  the end (exact mode; restricted compilation that dropped nothing; relaxed compilation that merged nothing).
* `G2` — third invariant of the top-down build (relaxed, in isolation): every inbound arc of a node that is not flagged
  relaxed is a genuine transition of the model, its `best` arc attains its value; `ebpAll_reach` / `ebpSome_reach`: a
  node with an exact best path is reached exactly (`Reach`) with its value.
* `finalize_*` — what `finalize` reports (`bestSol`, `bestExactSol`, `bestExactValue`) in terms of the built diagram. -/
set_option linter.unusedSectionVars false
set_option linter.unusedVariables false
namespace Ddo.Truth
open Ddo
variable {S K : Type} [DecidableEq S] [DecidableEq K]

/-! ## `Reach` is a function of the decision list; extensions lose potential -/

omit [DecidableEq S] in
theorem Reach.nil_inv {P : Problem S} {k : Nat} {s : S} {v : Int} (h : Reach P k s v []) :
    k = 0 ∧ s = P.init ∧ v = P.initVal := by
  generalize hp : ([] : List Dec) = p at h
  cases h with
  | root => exact ⟨rfl, rfl, rfl⟩
  | step k s v p L x d _ _ _ _ => exact absurd hp (by simp)

omit [DecidableEq S] in
theorem Reach.det {P : Problem S} {k : Nat} {s : S} {v : Int} {p : List Dec} (h : Reach P k s v p) :
    ∀ {k' : Nat} {s' : S} {v' : Int}, Reach P k' s' v' p → k = k' ∧ s = s' ∧ v = v' := by
  induction h with
  | root => intro k' s' v' h'; obtain ⟨a, b, c⟩ := Reach.nil_inv h'; exact ⟨a.symm, b.symm, c.symm⟩
  | step k s v p L x d h hnv hs hd ih =>
    intro k' s' v' h'
    generalize hp : p ++ [(⟨x, d⟩ : Dec)] = r at h'
    cases h' with
    | root => exact absurd hp (by simp)
    | step k2 s2 v2 p2 L2 x2 d2 h2 _ _ _ =>
      obtain ⟨e1, e2⟩ := List.append_inj' hp rfl
      subst e1
      simp only [List.cons.injEq, Dec.mk.injEq, and_true] at e2
      obtain ⟨rfl, rfl⟩ := e2
      obtain ⟨rfl, rfl, rfl⟩ := ih h2
      exact ⟨rfl, rfl, rfl⟩

/-- the part of a well-formed model that bounds the value of *feasible* paths (lower direction), relative to a
    layer-validity predicate `V` (closed under expansion): `Potential.le` and `Potential.term` on valid states -/
structure LowRel (P : Problem S) (H : Nat → S → EInt) (V : Nat → S → Prop) : Prop where
  vstep : ∀ k L x s d, P.nextVar k L = some x → s ∈ L → V k s → d ∈ P.domain x s → V (k + 1) (P.trans s ⟨x, d⟩)
  le : ∀ k L x s v p d, Reach P k s v p → V k s → P.nextVar k L = some x → s ∈ L → d ∈ P.domain x s →
      (H (k + 1) (P.trans s ⟨x, d⟩)).addI (P.cost s (P.trans s ⟨x, d⟩) ⟨x, d⟩) ≤ H k s
  term : ∀ k L s, P.nextVar k L = none → s ∈ L → V k s → ∃ h, H k s = some h ∧ 0 ≤ h

omit [DecidableEq S] in
theorem lowRel_of_potential {P : Problem S} {H : Nat → S → EInt} (hP : Potential P H) : LowRel P H (fun _ _ => True) where
  vstep := fun _ _ _ _ _ _ _ _ _ => trivial
  le := fun k L x s v p d hr _ hnv hs hd => hP.le k L x s v p d hr hnv hs hd
  term := fun k L s hnv hs _ => ⟨0, hP.term k L s hnv hs, Int.le_refl _⟩

omit [DecidableEq S] in
theorem addI_step {a b : EInt} {c v : Int} (h : a.addI c ≤ b) : a.addI (v + c) ≤ b.addI v := by
  cases a with
  | none => exact EInt.none_le _
  | some x =>
    cases b with
    | none => exact absurd h (by simp [EInt.addI])
    | some y =>
      simp only [EInt.addI, Option.map_some, EInt.some_le_some] at h ⊢
      omega

omit [DecidableEq S] in
/-- a path `p ++ q` that extends the path `p` of a valid reached state cannot gain potential -/
theorem reach_le {P : Problem S} {H : Nat → S → EInt} {V : Nat → S → Prop} (hL : LowRel P H V)
    {k : Nat} {s : S} {v : Int} {p : List Dec} (h0 : Reach P k s v p) (hV : V k s) :
    ∀ {k' : Nat} {s' : S} {v' : Int} {r : List Dec}, Reach P k' s' v' r → ∀ q, r = p ++ q →
      V k' s' ∧ (H k' s').addI v' ≤ (H k s).addI v := by
  intro k' s' v' r h
  induction h with
  | root =>
    intro q hq
    have hp : p = [] := by
      cases p with
      | nil => rfl
      | cons _ _ => cases hq
    subst hp
    obtain ⟨rfl, rfl, rfl⟩ := Reach.nil_inv h0
    exact ⟨hV, EInt.le_refl _⟩
  | step k1 s1 v1 r1 L x d h1 hnv hs hd ih =>
    intro q hq
    rcases List.eq_nil_or_concat q with rfl | ⟨q', e, rfl⟩
    · rw [List.append_nil] at hq
      subst hq
      obtain ⟨rfl, rfl, rfl⟩ := Reach.det h0 (Reach.step k1 s1 v1 r1 L x d h1 hnv hs hd)
      exact ⟨hV, EInt.le_refl _⟩
    · rw [List.concat_eq_append, ← List.append_assoc] at hq
      obtain ⟨e1, e2⟩ := List.append_inj' hq rfl
      obtain ⟨hV1, hle1⟩ := ih q' e1
      refine ⟨hL.vstep k1 L x s1 d hnv hs hV1 hd, ?_⟩
      exact EInt.le_trans (addI_step (hL.le k1 L x s1 v1 r1 d h1 hV1 hnv hs hd)) hle1

omit [DecidableEq S] in
/-- the value of a complete path through the root sub-problem is at most the optimum of the root sub-problem
    (in particular that optimum is not `−∞`) -/
theorem complete_le_opt {P : Problem S} {H : Nat → S → EInt} {V : Nat → S → Prop} (hL : LowRel P H V)
    {N : SubP S} {p0 : List Dec} (h0 : Reach P N.depth N.state N.value p0) (hV : V N.depth N.state)
    {k : Nat} {s : S} {w : Int} {q : List Dec} {L : List S} (h : Reach P k s w (p0 ++ q))
    (hs : s ∈ L) (hnv : P.nextVar k L = none) : ∃ x, optOf H N = some x ∧ w ≤ x := by
  obtain ⟨hVs, hle⟩ := reach_le hL h0 hV h q rfl
  obtain ⟨h', hH, h0'⟩ := hL.term k L s hnv hs hVs
  unfold optOf
  rw [hH] at hle
  cases hN : H N.depth N.state with
  | none => rw [hN] at hle; exact absurd hle (by simp [EInt.addI])
  | some y =>
    rw [hN] at hle
    simp only [EInt.addI, Option.map_some, EInt.some_le_some] at hle
    exact ⟨y + N.value, rfl, by omega⟩

/-! ## `lel` is monotone; a step that leaves it unset does not squash -/

theorem squash_lel_none (cfg : Cfg S K) (dd : DD S K) (layer : List (Node S)) (cur : List Nat)
    (sq : List (Node S) × List Nat × List (Call S) × Option Nat)
    (h : squash cfg dd layer cur = some sq) (hn : sq.2.2.2 = none) :
    sq.1 = layer ∧ sq.2.1 = cur ∧ dd.lel = none := by
  unfold squash at h
  dsimp only at h
  split at h
  · cases h
  · split at h
    · cases h
    · split at h
      · rename_i hres
        simp only [Option.some.injEq] at h
        subst h
        simp only [hres, Bool.true_or, Bool.true_and] at hn
        split at hn
        · cases hn
        · rename_i hx
          simp only [Bool.not_eq_true, Option.isNone_eq_false_iff, Option.isSome_iff_exists] at hx
          obtain ⟨k, hk⟩ := hx; rw [hk] at hn; cases hn
      · rename_i hnres
        split at h
        · rename_i hrel
          simp only [Option.some.injEq] at h
          subst h
          simp only [hrel, Bool.or_true, Bool.true_and] at hn
          split at hn
          · cases hn
          · rename_i hx
            simp only [Bool.not_eq_true, Option.isNone_eq_false_iff, Option.isSome_iff_exists] at hx
            obtain ⟨k, hk⟩ := hx; rw [hk] at hn; cases hn
        · rename_i hnrel
          simp only [Option.some.injEq] at h
          subst h
          simp only [hnres, hnrel, Bool.or_self, Bool.false_and, Bool.false_eq_true, if_false] at hn
          exact ⟨rfl, rfl, hn⟩

/-- in exact mode `squash` is the identity -/
theorem squash_exact (cfg : Cfg S K) (dd : DD S K) (layer : List (Node S)) (cur : List Nat) (hx : cfg.ctype = .exact) :
    squash cfg dd layer cur = some (layer, cur, dd.log, dd.lel) := by
  unfold squash
  have e1 : (cfg.ctype == CompType.restricted) = false := by rw [hx]; decide
  have e2 : (cfg.ctype == CompType.relaxed) = false := by rw [hx]; decide
  simp only [e1, e2, Bool.false_and, Bool.false_or, Bool.false_eq_true, if_false]

theorem stepLayer_lel (cfg : Cfg S K) (dd dd' : DD S K) (var : Nat) (oc : Outcome)
    (h : stepLayer cfg dd var = (some dd', oc)) (hn : dd'.lel = none) : dd.lel = none := by
  unfold stepLayer at h
  split at h
  · simp only [Prod.mk.injEq, Option.some.injEq] at h
    obtain ⟨rfl, _⟩ := h
    exact hn
  · dsimp only at h
    generalize (if dd.layers.isEmpty = true then (dd.next, List.range dd.next.length)
        else filterCache cfg dd.cache dd.next (List.range dd.next.length)) = fc at h
    generalize filterDom cfg dd.store fc.1 fc.2 = fd at h
    split at h
    · cases h
    · split at h
      · cases h
      · rename_i lsq csq lgsq lel hsq
        simp only [Prod.mk.injEq, Option.some.injEq] at h
        obtain ⟨rfl, _⟩ := h
        exact (squash_lel_none cfg dd fd.1 fd.2.1 _ hsq hn).2.2

theorem buildLoop_lel (cfg : Cfg S K) (stopAt : Option Nat) :
    ∀ (fuel : Nat) (dd : DD S K), (buildLoop cfg stopAt fuel dd).1.lel = none → dd.lel = none := by
  cases stopAt <;> intro fuel <;> induction fuel with
  | zero => intro dd h; exact h
  | succ fuel ih =>
    intro dd h
    unfold buildLoop at h
    dsimp only at h
    split at h
    · exact h
    · rename_i var hvar
      split at h
      · exact h
      · split at h
        · exact h
        · rename_i dd' heq
          have := stepLayer_lel cfg _ dd' var _ heq h; exact this
        · rename_i dd' heq
          have := stepLayer_lel cfg _ dd' var _ heq h; exact this
        · rename_i dd' heq
          have := stepLayer_lel cfg _ dd' var _ heq (ih dd' h); exact this

/-- in exact mode `lel` is never set -/
theorem stepLayer_lel_exact (cfg : Cfg S K) (hx : cfg.ctype = .exact) (dd dd' : DD S K) (var : Nat) (oc : Outcome)
    (h : stepLayer cfg dd var = (some dd', oc)) (hn : dd.lel = none) : dd'.lel = none := by
  unfold stepLayer at h
  split at h
  · simp only [Prod.mk.injEq, Option.some.injEq] at h
    obtain ⟨rfl, _⟩ := h
    exact hn
  · dsimp only at h
    generalize (if dd.layers.isEmpty = true then (dd.next, List.range dd.next.length)
        else filterCache cfg dd.cache dd.next (List.range dd.next.length)) = fc at h
    generalize filterDom cfg dd.store fc.1 fc.2 = fd at h
    rw [squash_exact cfg dd _ _ hx] at h
    split at h
    · cases h
    · simp only [Prod.mk.injEq, Option.some.injEq] at h
      obtain ⟨rfl, _⟩ := h
      exact hn

theorem buildLoop_lel_exact (cfg : Cfg S K) (hx : cfg.ctype = .exact) (stopAt : Option Nat) :
    ∀ (fuel : Nat) (dd : DD S K), dd.lel = none → (buildLoop cfg stopAt fuel dd).1.lel = none := by
  cases stopAt <;> intro fuel <;> induction fuel with
  | zero => intro dd h; exact h
  | succ fuel ih =>
    intro dd h
    unfold buildLoop
    dsimp only
    split
    · exact h
    · rename_i var hvar
      split
      · exact h
      · split
        · exact h
        · rename_i dd' heq
          exact stepLayer_lel_exact cfg hx _ dd' var _ heq (by exact h)
        · rename_i dd' heq
          exact stepLayer_lel_exact cfg hx _ dd' var _ heq (by exact h)
        · rename_i dd' heq
          exact ih dd' (stepLayer_lel_exact cfg hx _ dd' var _ heq (by exact h))

/-! ## one step of the loop, in isolation (no cache, no dominance) -/

/-- the diagram on which `buildLoop` calls `stepLayer` -/
def tick (dd : DD S K) (var : Nat) : DD S K :=
  { dd with log := Call.nextVar dd.depth (dd.next.map (·.state)) (some var) :: dd.log, polls := dd.polls + 1 }

theorem buildLoop_step (cfg : Cfg S K) (fuel : Nat) (dd : DD S K) (var : Nat)
    (h : cfg.P.nextVar dd.depth (dd.next.map (·.state)) = some var) :
    buildLoop cfg none (fuel + 1) dd =
      match stepLayer cfg (tick dd var) var with
      | (none, _) => (tick dd var, .crash)
      | (some dd', .cutoff) => (dd', .ok)
      | (some dd', .crash) => (dd', .crash)
      | (some dd', .ok) => buildLoop cfg none fuel dd' := by
  conv => lhs; unfold buildLoop
  simp only [h]
  rfl

theorem stepLayer_iso_none (cfg : Cfg S K) (dd : DD S K) (var : Nat) (hne : dd.next ≠ [])
    (hc : cfg.useCache = false) (hd : cfg.dom = none)
    (hsq : squash cfg dd dd.next (List.range dd.next.length) = none) :
    stepLayer cfg dd var = (none, .crash) := by
  unfold stepLayer
  have h1 : dd.next.isEmpty = false := by
    cases h : dd.next with
    | nil => exact absurd h hne
    | cons _ _ => rfl
  have h2 : (if dd.layers.isEmpty then (dd.next, List.range dd.next.length)
      else filterCache cfg dd.cache dd.next (List.range dd.next.length)) = (dd.next, List.range dd.next.length) := by
    split
    · rfl
    · exact Cover.filterCache_id cfg dd.cache dd.next _ hc (fun p hp => List.mem_range.mp hp)
  simp only [h1, h2, filterDom, hd, hsq]
  rfl

theorem stepLayer_iso_some (cfg : Cfg S K) (dd : DD S K) (var : Nat) (hne : dd.next ≠ [])
    (hc : cfg.useCache = false) (hd : cfg.dom = none)
    (sq : List (Node S) × List Nat × List (Call S) × Option Nat)
    (hsq : squash cfg dd dd.next (List.range dd.next.length) = some sq) :
    ∃ dd', stepLayer cfg dd var = (some dd', .ok) ∧
      dd'.layers = dd.layers ++ [(expandAll cfg var dd.layers.length sq.1 sq.2.1 sq.2.2.1).1] ∧
      dd'.next = (expandAll cfg var dd.layers.length sq.1 sq.2.1 sq.2.2.1).2.1 ∧
      dd'.depth = dd.depth + 1 ∧ dd'.lel = sq.2.2.2 := by
  unfold stepLayer
  have h1 : dd.next.isEmpty = false := by
    cases h : dd.next with
    | nil => exact absurd h hne
    | cons _ _ => rfl
  have h2 : (if dd.layers.isEmpty then (dd.next, List.range dd.next.length)
      else filterCache cfg dd.cache dd.next (List.range dd.next.length)) = (dd.next, List.range dd.next.length) := by
    split
    · rfl
    · exact Cover.filterCache_id cfg dd.cache dd.next _ hc (fun p hp => List.mem_range.mp hp)
  simp only [h1, h2, filterDom, hd, hsq]
  exact ⟨_, rfl, rfl, rfl, rfl, rfl⟩

theorem stepLayer_empty (cfg : Cfg S K) (dd : DD S K) (var : Nat) (he : dd.next = []) :
    stepLayer cfg dd var = (some { dd with layers := dd.layers ++ [[]] }, .cutoff) := by
  unfold stepLayer
  simp only [he, List.isEmpty_nil, if_true]

/-! ## the coverage invariant when nothing is squashed (any compilation type, any width) -/

/-- the hypotheses the un-squashed loop needs: the part of `WfRel` that does not mention merges -/
structure HypX (cfg : Cfg S K) (H : Nat → S → EInt) (V : Nat → S → Prop) (B o : Int) : Prop where
  cache : cfg.useCache = false
  dom : cfg.dom = none
  vstep : ∀ k L x s d, cfg.P.nextVar k L = some x → s ∈ L → V k s → d ∈ cfg.P.domain x s → V (k + 1) (cfg.P.trans s ⟨x, d⟩)
  att : ∀ k L x s h, cfg.P.nextVar k L = some x → s ∈ L → V k s → H k s = some h →
      ∃ d ∈ cfg.P.domain x s, ∃ h', H (k + 1) (cfg.P.trans s ⟨x, d⟩) = some h' ∧
        h ≤ cfg.P.cost s (cfg.P.trans s ⟨x, d⟩) ⟨x, d⟩ + h'
  term : ∀ k L s h, cfg.P.nextVar k L = none → s ∈ L → V k s → H k s = some h → h ≤ 0
  rub : ∀ k s h, V k s → H k s = some h → h ≤ cfg.R.rub s
  B : NoClampDom cfg.P cfg.R cfg.root.value B
  clamp : ∀ x, o ≤ x → clamp x > cfg.lb

theorem sqpost_id_x (cfg : Cfg S K) (H : Nat → S → EInt) (V : Nat → S → Prop) (B o : Int) (dd : DD S K) (var : Nat)
    (hy : HypX cfg H V B o) (hnv : cfg.P.nextVar dd.depth (dd.next.map (·.state)) = some var)
    (hI : Cover.Inv H V B o dd) : Cover.SqPost cfg H V B o dd var dd.next (List.range dd.next.length) := by
  constructor
  · obtain ⟨n, hn, h, hH, hle⟩ := hI.cover
    obtain ⟨q, hq⟩ := List.mem_iff_getElem?.mp hn
    refine ⟨q, Cover.mem_of_getElem?_range hq, n, hq, hI.valid n hn, h, hH, hle, ?_⟩
    intro h1 hH1
    exact hy.att dd.depth _ var n.state h1 hnv (List.mem_map_of_mem hn) (hI.valid n hn) hH1
  · intro q _ n hq d hd
    have hn := List.mem_of_getElem? hq
    exact hy.vstep dd.depth _ var n.state d hnv (List.mem_map_of_mem hn) (hI.valid n hn) hd
  · exact hI.rngN

/-- **upper direction**: if `lel` is still unset when the loop ends normally, the terminal layer still carries the optimum -/
theorem buildLoop_cover_x (cfg : Cfg S K) (H : Nat → S → EInt) (V : Nat → S → Prop) (B o : Int) (hy : HypX cfg H V B o) :
    ∀ (fuel : Nat) (dd : DD S K), Cover.Inv H V B o dd → dd.layers.length + fuel ≤ cfg.P.nbVars + 2 →
      (buildLoop cfg none fuel dd).2 = .ok → (buildLoop cfg none fuel dd).1.lel = none →
      ∃ n ∈ (buildLoop cfg none fuel dd).1.next, o ≤ n.value := by
  intro fuel
  induction fuel with
  | zero => intro dd _ _ h; simp [buildLoop] at h
  | succ fuel ih =>
    intro dd hI hlen hok hlel
    cases hnv : cfg.P.nextVar dd.depth (dd.next.map (·.state)) with
    | none =>
      rw [(Cover.buildLoop_none cfg fuel dd hnv).2]
      obtain ⟨n, hn, h, hH, hle⟩ := hI.cover
      have := hy.term dd.depth _ n.state h hnv (List.mem_map_of_mem hn) (hI.valid n hn) hH
      exact ⟨n, hn, by omega⟩
    | some var =>
      have hI1 : Cover.Inv H V B o (tick dd var) := hI.congr rfl rfl rfl
      have hne : (tick dd var).next ≠ [] := by
        obtain ⟨n, hn, _⟩ := hI1.cover
        exact List.ne_nil_of_mem hn
      rw [buildLoop_step cfg fuel dd var hnv] at hok hlel ⊢
      cases hsq : squash cfg (tick dd var) (tick dd var).next (List.range (tick dd var).next.length) with
      | none =>
        rw [stepLayer_iso_none cfg _ var hne hy.cache hy.dom hsq] at hok
        cases hok
      | some sq =>
        obtain ⟨dd', hst, hl, hn, hd, hll⟩ := stepLayer_iso_some cfg _ var hne hy.cache hy.dom sq hsq
        rw [hst] at hok hlel ⊢
        dsimp only at hok hlel ⊢
        cases fuel with
        | zero => simp [buildLoop] at hok
        | succ fuel' =>
          have hl0 : dd'.lel = none := buildLoop_lel cfg none _ dd' hlel
          obtain ⟨e1, e2, _⟩ := squash_lel_none cfg _ _ _ sq hsq (hll ▸ hl0)
          have hpost : Cover.SqPost cfg H V B o (tick dd var) var sq.1 sq.2.1 := by
            rw [e1, e2]
            exact sqpost_id_x cfg H V B o (tick dd var) var hy hnv hI1
          have hI' : Cover.Inv H V B o dd' :=
            Cover.expand_inv cfg H V B o (tick dd var) dd' var sq.1 sq.2.1 sq.2.2.1 hy.rub hy.B hy.clamp
              (by show dd.layers.length ≤ cfg.P.nbVars; omega) hI1 hpost hl hn hd
          refine ih dd' hI' ?_ hok hlel
          rw [hl, List.length_append, List.length_singleton]
          show dd.layers.length + 1 + (fuel' + 1) ≤ cfg.P.nbVars + 2
          omega

/-! ## what `finalize` reports, any compilation type -/

theorem stripB_value {a b : Node S} (h : stripB a = stripB b) : a.value = b.value := by
  have := congrArg Node.value h
  simpa only [stripB] using this

theorem stripB_best {a b : Node S} (h : stripB a = stripB b) : a.best = b.best := by
  have := congrArg Node.best h
  simpa only [stripB] using this

theorem find?_stripB (f : Node S → Bool) (hf : ∀ a b, stripB a = stripB b → f a = f b) :
    ∀ (l l' : List (Node S)), l.map stripB = l'.map stripB →
      (l.find? f).map stripB = (l'.find? f).map stripB := by
  intro l
  induction l with
  | nil =>
    intro l' h
    cases l' with
    | nil => rfl
    | cons _ _ => cases h
  | cons x r ih =>
    intro l' h
    cases l' with
    | nil => cases h
    | cons y r' =>
      simp only [List.map_cons, List.cons.injEq] at h
      simp only [List.find?_cons, hf x y h.1]
      cases f y with
      | true => simp only [Option.map_some, h.1]
      | false => exact ih r' h.2

/-- the path reported for the first node of the terminal layer selected by `f` -/
theorem find_chain (cfg : Cfg S K) (dd : DD S K) (L3 : List (List (Node S))) (hk : XEq L3 (dd.layers ++ [dd.next]))
    (f : Node S → Bool) (hf : ∀ a b, stripB a = stripB b → f a = f b) (n : Node S) (hfind : dd.next.find? f = some n)
    (q : List Dec) (hq : BestChain (dd.layers ++ [dd.next]) dd.layers.length n.best q) :
    ((L3[dd.layers.length]?.getD []).find? f).map (fun n => cfg.root.path ++ bestPath L3 (L3.length + 1) n)
      = some (cfg.root.path ++ q.reverse) := by
  have hlayer := hk.layer dd.layers.length
  rw [List.getElem?_concat_length, Option.getD_some] at hlayer
  have hf3 := find?_stripB f hf _ _ hlayer
  rw [hfind] at hf3
  cases h3 : (L3[dd.layers.length]?.getD []).find? f with
  | none => rw [h3] at hf3; cases hf3
  | some n3 =>
    rw [h3] at hf3
    simp only [Option.map_some, Option.some.injEq] at hf3
    have hchain : BestChain L3 dd.layers.length n3.best q := by
      rw [stripB_best hf3]; exact hq.of_xEq hk
    have := hchain.bestPath_eq n3 rfl (L3.length + 1) (by
      rw [hk.length, List.length_append, List.length_singleton]; omega)
    simp only [Option.map_some, Option.some.injEq, List.append_cancel_left_eq]
    rw [← this, List.reverse_reverse]

theorem finalize_isExact (cfg : Cfg S K) (b : Built S K) (e : Bool) :
    (finalize cfg b e).1.isExact = (b.isExactField || e) := rfl

theorem finalize_bestExactValue (cfg : Cfg S K) (b : Built S K) (e : Bool) :
    (finalize cfg b e).1.bestExactValue = if e then b.bestValue else maxValue (b.terminals.filter (·.isExact)) := rfl

theorem finalize_bestExactSol (cfg : Cfg S K) (b : Built S K) (e : Bool) :
    (finalize cfg b e).1.bestExactSol =
      (if e then
        (match b.bestValue with
          | none => none
          | some v => b.termL.bind (fun l => ((finalize cfg b e).2[l]?.getD []).find? (fun (n : Node S) => decide (n.value = v))))
       else
        (match (if e then b.bestValue else maxValue (b.terminals.filter (·.isExact))) with
          | none => none
          | some v => b.termL.bind (fun l => ((finalize cfg b e).2[l]?.getD []).find?
              (fun (n : Node S) => n.isExact && decide (n.value = v))))).map
        (fun n => cfg.root.path ++ bestPath (finalize cfg b e).2 ((finalize cfg b e).2.length + 1) n) := rfl

/-- a complete feasible path of value `w` through the root sub-problem, reported as `sol` -/
def IsSol (cfg : Cfg S K) (p0 : List Dec) (w : Int) (sol : Option (List Dec)) : Prop :=
  ∃ (k : Nat) (s : S) (q : List Dec) (L : List S), Reach cfg.P k s w (p0 ++ q) ∧ s ∈ L ∧ cfg.P.nextVar k L = none ∧
    sol = some (cfg.root.path ++ q.reverse)

/-- what a truthful result reports: the optimum `o`, as best and best exact value, with feasible solutions -/
structure Truthful (cfg : Cfg S K) (p0 : List Dec) (o : Int) (r : Result S) : Prop where
  bestValue : r.bestValue = some o
  bestExactValue : r.bestExactValue = some o
  sol : IsSol cfg p0 o r.bestSol
  exactSol : IsSol cfg p0 o r.bestExactSol

theorem find?_of_maxValue_f {l : List (Node S)} {w : Int} (g : Node S → Bool)
    (h : maxValue (l.filter g) = some w) :
    ∃ n, l.find? (fun n => g n && decide (n.value = w)) = some n ∧ n ∈ l ∧ g n = true ∧ n.value = w := by
  obtain ⟨m, hm, hmv⟩ := maxValue_mem h
  rw [List.mem_filter] at hm
  cases hf : l.find? (fun n => g n && decide (n.value = w)) with
  | none =>
    rw [List.find?_eq_none] at hf
    exact absurd (by simp [hm.2, hmv]) (hf m hm.1)
  | some n =>
    have h1 := List.find?_some hf
    simp only [Bool.and_eq_true, decide_eq_true_eq] at h1
    exact ⟨n, rfl, List.mem_of_find?_eq_some hf, h1.1, h1.2⟩

/-- assembly: from facts about the terminal layer of the built diagram to the reported result -/
theorem finalize_truthful (cfg : Cfg S K) (p0 : List Dec) (o : Int) (dd : DD S K) (e : Bool)
    (hmax : maxValue dd.next = some o)
    (hnv : cfg.P.nextVar dd.depth (dd.next.map (·.state)) = none)
    (hbest : ∀ n, dd.next.find? (fun n => decide (n.value = o)) = some n →
      ∃ q, BestChain (dd.layers ++ [dd.next]) dd.layers.length n.best q ∧ Reach cfg.P dd.depth n.state n.value (p0 ++ q))
    (hex : e = false → maxValue (dd.next.filter (·.isExact)) = some o ∧
      ∀ n ∈ dd.next, n.isExact = true →
        ∃ q, BestChain (dd.layers ++ [dd.next]) dd.layers.length n.best q ∧ Reach cfg.P dd.depth n.state n.value (p0 ++ q)) :
    Truthful cfg p0 o (finalize cfg (finalizeLayers dd) e).1 := by
  obtain ⟨n1, hfind1, hn1, hv1⟩ := find?_of_maxValue hmax
  have hne : dd.next ≠ [] := List.ne_nil_of_mem hn1
  obtain ⟨hlayers, hterm⟩ := finalizeLayers_nonempty dd hne
  have hbv : (finalizeLayers dd).bestValue = some o := by
    unfold Built.bestValue; rw [terminals_finalizeLayers]; exact hmax
  have hk := finalize_layers_xEq cfg (finalizeLayers dd) e
  rw [hlayers] at hk
  have hf1 : ∀ a b : Node S, stripB a = stripB b → decide (a.value = o) = decide (b.value = o) :=
    fun a b h => by rw [stripB_value h]
  obtain ⟨q1, hq1, hr1⟩ := hbest n1 hfind1
  have hsol1 : IsSol cfg p0 o (finalize cfg (finalizeLayers dd) e).1.bestSol := by
    refine ⟨dd.depth, n1.state, q1, _, hv1 ▸ hr1, List.mem_map_of_mem hn1, hnv, ?_⟩
    rw [finalize_bestSol, hbv, hterm]
    dsimp only [Option.bind_some]
    exact find_chain cfg dd _ hk _ hf1 n1 hfind1 q1 hq1
  cases e with
  | true =>
    refine ⟨hbv, ?_, hsol1, ?_⟩
    · rw [finalize_bestExactValue]; exact hbv
    · refine ⟨dd.depth, n1.state, q1, _, hv1 ▸ hr1, List.mem_map_of_mem hn1, hnv, ?_⟩
      rw [finalize_bestExactSol, hbv, hterm]
      dsimp only [Option.bind_some, if_true]
      exact find_chain cfg dd _ hk _ hf1 n1 hfind1 q1 hq1
  | false =>
    obtain ⟨hmx, hall⟩ := hex rfl
    have hbe : (finalize cfg (finalizeLayers dd) false).1.bestExactValue = some o := by
      rw [finalize_bestExactValue, terminals_finalizeLayers]; exact hmx
    obtain ⟨n2, hfind2, hn2, hx2, hv2⟩ := find?_of_maxValue_f (fun n : Node S => n.isExact) hmx
    obtain ⟨q2, hq2, hr2⟩ := hall n2 hn2 hx2
    refine ⟨hbv, hbe, hsol1, ?_⟩
    refine ⟨dd.depth, n2.state, q2, _, hv2 ▸ hr2, List.mem_map_of_mem hn2, hnv, ?_⟩
    rw [finalize_bestExactSol, terminals_finalizeLayers, hterm]
    simp only [Bool.false_eq_true, if_false, hmx]
    dsimp only [Option.bind_some]
    refine find_chain cfg dd _ hk _ ?_ n2 hfind2 q2 hq2
    intro a b h
    rw [stripB_value h, stripB_isExact h]

/-! ## the un-squashed case: `lel` unset at the end ⇒ the result is truthful -/

theorem compile_results' (cfg : Cfg S K) (cache : Cache S) (store : DomStore S K) (polls : Nat) (stopAt : Option Nat)
    (hok : (compile cfg cache store polls stopAt).1 = .ok) (r : Result S)
    (hr : r = (compile cfg cache store polls stopAt).2.1 ∨ (compile cfg cache store polls stopAt).2.2.1 = some r) :
    (buildLoop cfg stopAt (cfg.P.nbVars + 2) (initDD cfg cache store polls)).2 = .ok ∧
    (compile cfg cache store polls stopAt).2.2.2 = (buildLoop cfg stopAt (cfg.P.nbVars + 2) (initDD cfg cache store polls)).1 ∧
    ∃ e, (e = (finalizeLayers (buildLoop cfg stopAt (cfg.P.nbVars + 2) (initDD cfg cache store polls)).1).ebpMust (cfg.ctype == .relaxed) ∨
          e = (finalizeLayers (buildLoop cfg stopAt (cfg.P.nbVars + 2) (initDD cfg cache store polls)).1).ebpMay (cfg.ctype == .relaxed)) ∧
      r = (finalize cfg (finalizeLayers (buildLoop cfg stopAt (cfg.P.nbVars + 2) (initDD cfg cache store polls)).1) e).1 := by
  unfold compile at hok hr ⊢
  generalize buildLoop cfg stopAt (cfg.P.nbVars + 2) (initDD cfg cache store polls) = bl at hok hr ⊢
  obtain ⟨dd, oc⟩ := bl
  dsimp only at hok hr ⊢
  cases oc
  · dsimp only at hr ⊢
    refine ⟨rfl, rfl, ?_⟩
    rcases hr with hr | hr
    · exact ⟨_, .inl rfl, hr⟩
    · split at hr
      · simp only [Option.some.injEq] at hr
        exact ⟨_, .inr rfl, hr.symm⟩
      · cases hr
  · cases hok
  · cases hok

theorem ebp_not_relaxed (b : Built S K) : b.ebpMust false = false ∧ b.ebpMay false = false := ⟨rfl, rfl⟩

theorem maxValue_eq_of {l : List (Node S)} {o : Int} (h1 : ∃ n ∈ l, o ≤ n.value) (h2 : ∀ n ∈ l, n.value ≤ o) :
    maxValue l = some o := by
  obtain ⟨n, hn, hle⟩ := h1
  obtain ⟨bv, hbv, hge⟩ := Cover.maxValue_ge l n hn
  obtain ⟨m, hm, hmv⟩ := maxValue_mem hbv
  have := h2 m hm
  rw [hbv]; congr 1; omega

/-- **the un-squashed case**: in isolation, if the loop ends normally with `lel` unset (no restriction dropped a node, no
    merge happened — always so in exact mode), the result built with either value of the `hasEBP` bit reports the
    optimum of the root sub-problem together with feasible solutions attaining it -/
theorem unsquashed_truthful (cfg : Cfg S K) (H : Nat → S → EInt) (V : Nat → S → Prop) (B o : Int) (p0 : List Dec)
    (hy : HypX cfg H V B o) (hL : LowRel cfg.P H V) (hV : V cfg.root.depth cfg.root.state)
    (hB : NoClamp cfg.P cfg.R cfg.root.value B)
    (hroot : Reach cfg.P cfg.root.depth cfg.root.state cfg.root.value p0)
    (ho : optOf H cfg.root = some o) (cache : Cache S) (store : DomStore S K) (polls : Nat)
    (hok : (buildLoop cfg none (cfg.P.nbVars + 2) (initDD cfg cache store polls)).2 = .ok)
    (hlel : (buildLoop cfg none (cfg.P.nbVars + 2) (initDD cfg cache store polls)).1.lel = none) (e : Bool) :
    Truthful cfg p0 o (finalize cfg (finalizeLayers (buildLoop cfg none (cfg.P.nbVars + 2) (initDD cfg cache store polls)).1) e).1 := by
  have hcov := buildLoop_cover_x cfg H V B o hy (cfg.P.nbVars + 2) (initDD cfg cache store polls)
    (Cover.init_inv cfg H V B o cache store polls hV hy.B ho) (by simp [initDD]) hok hlel
  obtain ⟨hinv, hinv2⟩ := buildLoop_inv2 cfg B p0 hB none (cfg.P.nbVars + 2) (initDD cfg cache store polls)
    (initDD_inv cfg B p0 hB hroot cache store polls) (initDD_inv2 cfg cache store polls) rfl
    (by simp only [initDD, List.length_nil]; omega)
  have hterm := (buildLoop_inv cfg B p0 hB none (cfg.P.nbVars + 2) (initDD cfg cache store polls)
    (initDD_inv cfg B p0 hB hroot cache store polls) rfl (by simp only [initDD, List.length_nil]; omega)).2 hok
  generalize (buildLoop cfg none (cfg.P.nbVars + 2) (initDD cfg cache store polls)).1 = dd at *
  rcases hterm with hnil | ⟨hnv, hdepth⟩
  · obtain ⟨n, hn, _⟩ := hcov; rw [hnil] at hn; cases hn
  · have hallx := (hinv2.lelNone hlel).2
    have hreach : ∀ n ∈ dd.next, ∃ q, BestChain (dd.layers ++ [dd.next]) dd.layers.length n.best q ∧
        Reach cfg.P dd.depth n.state n.value (p0 ++ q) := by
      intro n hn
      obtain ⟨q, hq, hr, hd, _⟩ := hinv.next n hn (hallx n hn)
      exact ⟨q, hq.mono _, by rw [hdepth, ← hd]; exact hr⟩
    have hle : ∀ n ∈ dd.next, n.value ≤ o := by
      intro n hn
      obtain ⟨q, _, hr⟩ := hreach n hn
      obtain ⟨x, hx, hwx⟩ := complete_le_opt hL hroot hV hr (List.mem_map_of_mem hn) hnv
      rw [ho] at hx; cases hx; exact hwx
    have hmax : maxValue dd.next = some o := maxValue_eq_of hcov hle
    refine finalize_truthful cfg p0 o dd e hmax hnv (fun n hf => hreach n (List.mem_of_find?_eq_some hf)) ?_
    intro _
    have hfil : dd.next.filter (·.isExact) = dd.next := List.filter_eq_self.mpr hallx
    rw [hfil]
    exact ⟨hmax, fun n hn _ => hreach n hn⟩

/-! ## `relaxLayer` leaves the nodes it does not flag relaxed untouched (up to `deleted`) -/

def stripD (n : Node S) : Node S := { n with deleted := false }

/-- every node of `ly` that is not flagged relaxed is a node of `ly0` up to the `deleted` flag -/
def SubN (ly ly0 : List (Node S)) : Prop := ∀ n ∈ ly, n.fRelaxed = false → ∃ n0 ∈ ly0, stripD n0 = stripD n

theorem SubN.refl (ly : List (Node S)) : SubN ly ly := fun n hn _ => ⟨n, hn, rfl⟩

theorem stripD_fRelaxed {a b : Node S} (h : stripD a = stripD b) : a.fRelaxed = b.fRelaxed := by
  have := congrArg Node.fRelaxed h
  simpa only [stripD] using this

/-- invariant of the redirection loop: `SubN`, and the node at `mpos` is flagged relaxed -/
def RN (layer : List (Node S)) (mpos : Nat) (ly : List (Node S)) : Prop :=
  SubN ly layer ∧ ∀ m, ly[mpos]? = some m → m.fRelaxed = true

theorem RN.set {layer ly : List (Node S)} {mpos : Nat} (h : RN layer mpos ly) {p : Nat} {n n' : Node S}
    (hp : ly[p]? = some n) (hs : stripD n' = stripD n) : RN layer mpos (ly.set p n') := by
  refine ⟨fun m hm hr => ?_, fun m hm => ?_⟩
  · rcases List.mem_or_eq_of_mem_set hm with hm | rfl
    · exact h.1 m hm hr
    · obtain ⟨n0, h0, hs0⟩ := h.1 n (List.mem_of_getElem? hp) (by rw [← stripD_fRelaxed hs]; exact hr)
      exact ⟨n0, h0, hs0.trans hs.symm⟩
  · rw [List.getElem?_set] at hm
    split at hm
    · rename_i hpm
      split at hm
      · cases hm; rw [stripD_fRelaxed hs]; exact h.2 n (hpm ▸ hp)
      · cases hm
    · exact h.2 m hm

theorem RN.of_set_mpos {layer ly : List (Node S)} {mpos : Nat} (h : SubN ly layer) {n' : Node S}
    (hr : n'.fRelaxed = true) : RN layer mpos (ly.set mpos n') := by
  refine ⟨fun m hm hrm => ?_, fun m hm => ?_⟩
  · rcases List.mem_or_eq_of_mem_set hm with hm | rfl
    · exact h m hm hrm
    · rw [hr] at hrm; cases hrm
  · rw [List.getElem?_set] at hm
    simp only [if_true] at hm
    split at hm
    · cases hm; exact hr
    · cases hm

theorem RN.set_mpos {layer ly : List (Node S)} {mpos : Nat} (h : RN layer mpos ly) {n' : Node S}
    (hr : n'.fRelaxed = true) : RN layer mpos (ly.set mpos n') := RN.of_set_mpos h.1 hr

theorem redirStep_rn (cfg : Cfg S K) (layers : List (List (Node S))) (merged : S) (mpos : Nat) (dropN : Node S)
    (layer : List (Node S)) (acc : List (Node S) × List (Call S)) (e : Arc) (h : RN layer mpos acc.1) :
    RN layer mpos (Cover.redirStep cfg layers merged mpos dropN acc e).1 := by
  rcases Cover.redirStep_cases cfg layers merged mpos dropN acc e with ⟨h1, _⟩ | ⟨src, m, _, hm, h1⟩
  · rw [h1]; exact h
  · rw [h1]
    exact h.set_mpos (by rw [appendEdge_fRelaxed]; exact h.2 m hm)

theorem dropStep_rn (cfg : Cfg S K) (layers : List (List (Node S))) (merged : S) (mpos : Nat)
    (layer : List (Node S)) (acc : List (Node S) × List (Call S)) (p : Nat) (h : RN layer mpos acc.1) :
    RN layer mpos (Cover.dropStep cfg layers merged mpos acc p).1 := by
  unfold Cover.dropStep
  cases h1 : acc.1[p]? with
  | none => exact h
  | some dropN =>
    dsimp only
    refine Cover.foldl_inv (β := List (Node S) × List (Call S)) (fun b => RN layer mpos b.1) _ dropN.inb _ (h.set h1 rfl) ?_
    intro b e _ hb
    exact redirStep_rn cfg layers merged mpos _ layer b e hb

theorem outer_rn (cfg : Cfg S K) (layers : List (List (Node S))) (merged : S) (mpos : Nat)
    (layer : List (Node S)) (rest : List Nat) (acc : List (Node S) × List (Call S)) (h : RN layer mpos acc.1) :
    RN layer mpos (rest.foldl (Cover.dropStep cfg layers merged mpos) acc).1 :=
  Cover.foldl_inv (β := List (Node S) × List (Call S)) (fun b => RN layer mpos b.1) _ rest acc h
    (fun b p _ hb => dropStep_rn cfg layers merged mpos layer b p hb)

theorem markRelaxed_rn (layer l : List (Node S)) (mpos : Nat) (h : SubN l layer) : RN layer mpos (Cover.markRelaxed l mpos) := by
  unfold Cover.markRelaxed
  cases h1 : l[mpos]? with
  | none => exact ⟨h, fun m hm => by rw [h1] at hm; cases hm⟩
  | some n =>
    dsimp only
    exact RN.of_set_mpos h rfl

theorem undelete_subN (layer l : List (Node S)) (c : List Nat) (h : SubN l layer) : SubN (Cover.undelete l c) layer := by
  unfold Cover.undelete
  cases c.getLast? with
  | none => exact h
  | some sp =>
    dsimp only
    cases h1 : l[sp]? with
    | none => exact h
    | some n =>
      dsimp only
      exact (RN.set (mpos := l.length) (layer := layer) (n' := { n with deleted := false }) ⟨h, fun m hm => by
        rw [List.getElem?_eq_none (Nat.le_refl _)] at hm; cases hm⟩ h1 rfl).1

theorem relaxLayer_subN (cfg : Cfg S K) (layers : List (List (Node S))) (layer : List (Node S)) (cur : List Nat)
    (log : List (Call S)) : SubN (relaxLayer cfg layers layer cur log).1 layer := by
  apply Cover.relaxLayer_elim cfg layers layer cur log (fun r => SubN r.1 layer)
  · intro _ d0 lg
    dsimp only
    refine (outer_rn cfg layers _ layer.length layer _ _ (markRelaxed_rn layer _ layer.length ?_)).1
    intro n hn hr
    rcases List.mem_append.mp hn with hn | hn
    · exact ⟨n, hn, rfl⟩
    · rw [List.mem_singleton] at hn; subst hn; cases hr
  · intro mp _ lg
    dsimp only
    exact undelete_subN layer _ _ (outer_rn cfg layers _ mp layer _ _ (markRelaxed_rn layer layer mp (SubN.refl _))).1

theorem squash_subN (cfg : Cfg S K) (dd : DD S K) (layer : List (Node S)) (cur : List Nat)
    (hrel : cfg.ctype = .relaxed) (hW : 1 ≤ cfg.width)
    (sq : List (Node S) × List Nat × List (Call S) × Option Nat) (h : squash cfg dd layer cur = some sq) :
    SubN sq.1 layer := by
  revert sq
  apply Cover.squash_elim cfg dd layer cur hrel hW (fun r => ∀ sq, r = some sq → SubN sq.1 layer)
  · intro _ _ lel sq hsq
    simp only [Option.some.injEq] at hsq
    subst hsq
    exact relaxLayer_subN cfg dd.layers layer cur dd.log
  · intro lel sq hsq
    simp only [Option.some.injEq] at hsq
    subst hsq
    exact SubN.refl _

/-! ## third invariant of the top-down build: the arcs into nodes not flagged relaxed are genuine -/

/-- the arc `a` into `c` is the transition of the model from `par` by the decision `a.dec` on variable `var` -/
def ArcGen (cfg : Cfg S K) (var : Nat) (par c : Node S) (a : Arc) : Prop :=
  a.dec.var = var ∧ a.dec.val ∈ cfg.P.domain var par.state ∧ c.state = cfg.P.trans par.state a.dec ∧
    a.cost = cfg.P.cost par.state c.state a.dec

/-- a node of the layer under construction, children of the layer `ly0` (index `lidx`), branched on `var` -/
def ChildGen (cfg : Cfg S K) (lidx var : Nat) (ly0 : List (Node S)) (c : Node S) : Prop :=
  c.fRelaxed = false ∧
  (∃ a par, c.best = some a ∧ a ∈ c.inb ∧ ly0[a.fromP]? = some par ∧ c.value = satAdd par.value a.cost) ∧
  ∀ a ∈ c.inb, a.fromL = lidx ∧ ∃ par, ly0[a.fromP]? = some par ∧ ArcGen cfg var par c a

theorem freshNode_fields (cfg : Cfg S K) (par : Node S) (d : Dec) :
    (freshNode cfg par d).fRelaxed = false ∧ (freshNode cfg par d).inb = [] ∧
    (freshNode cfg par d).value = satAdd par.value (cfg.P.cost par.state (cfg.P.trans par.state d) d) := ⟨rfl, rfl, rfl⟩

theorem childGen_appendEdge (cfg : Cfg S K) (lidx var : Nat) (ly0 : List (Node S))
    (p : Nat) (n0 par : Node S) (h0 : ly0[p]? = some n0) (hs : stripRub n0 = stripRub par)
    (d : Int) (hd : d ∈ cfg.P.domain var par.state)
    (m : Node S) (hm : ChildGen cfg lidx var ly0 m ∨ m = freshNode cfg par ⟨var, d⟩)
    (hms : m.state = cfg.P.trans par.state ⟨var, d⟩) :
    ChildGen cfg lidx var ly0 (appendEdge par m
      ⟨lidx, p, ⟨var, d⟩, cfg.P.cost par.state (cfg.P.trans par.state ⟨var, d⟩) ⟨var, d⟩⟩) := by
  obtain ⟨_, hst, hv, _, _⟩ := stripRub_core hs
  refine ⟨?_, ?_, ?_⟩
  · rw [appendEdge_fRelaxed]
    rcases hm with hm | hm
    · exact hm.1
    · rw [hm]; rfl
  · rcases appendEdge_best_value par m
      ⟨lidx, p, ⟨var, d⟩, cfg.P.cost par.state (cfg.P.trans par.state ⟨var, d⟩) ⟨var, d⟩⟩ with ⟨_, hbest, hval⟩ | ⟨hlt, hbest, hval⟩
    · refine ⟨_, n0, hbest, ?_, h0, ?_⟩
      · rw [appendEdge_inb]; exact List.mem_cons_self
      · rw [hval, hv]
    · rcases hm with hm | hm
      · obtain ⟨a, pa, hb, ha, hp, hvv⟩ := hm.2.1
        refine ⟨a, pa, by rw [hbest]; exact hb, ?_, hp, by rw [hval]; exact hvv⟩
        rw [appendEdge_inb]; exact List.mem_cons_of_mem _ ha
      · exfalso
        apply hlt
        rw [hm]
        exact Int.le_refl _
  · intro a ha
    rw [appendEdge_inb] at ha
    rcases List.mem_cons.mp ha with rfl | ha
    · refine ⟨rfl, n0, h0, rfl, ?_, ?_, ?_⟩
      · rw [hst]; exact hd
      · rw [appendEdge_state, hms, hst]
      · rw [appendEdge_state, hms, hst]
    · rcases hm with hm | hm
      · obtain ⟨hl, pa, hp, h1, h2, h3, h4⟩ := hm.2.2 a ha
        exact ⟨hl, pa, hp, h1, h2, by rw [appendEdge_state]; exact h3, by rw [appendEdge_state]; exact h4⟩
      · rw [hm] at ha; cases ha

/-- invariant of `expandAll`: the layer changes in the `rub` fields only, the children have genuine arcs -/
structure GInv (cfg : Cfg S K) (lidx var : Nat) (ly0 : List (Node S))
    (acc : List (Node S) × List (Node S) × List (Call S)) : Prop where
  rub : RubEq acc.1 ly0
  child : ∀ c ∈ acc.2.1, ChildGen cfg lidx var ly0 c

theorem expandOne_ginv (cfg : Cfg S K) (lidx var : Nat) (ly0 : List (Node S))
    (acc : List (Node S) × List (Node S) × List (Call S)) (p : Nat) (h : GInv cfg lidx var ly0 acc) :
    GInv cfg lidx var ly0 (expandOne cfg var lidx acc p) := by
  obtain ⟨ly, nx, lg⟩ := acc
  unfold expandOne
  dsimp only
  split
  · exact h
  · rename_i n hn
    obtain ⟨n0, h0, hs⟩ := h.rub.get hn
    have hrub : RubEq (ly.set p { n with rub := cfg.R.rub n.state }) ly0 := h.rub.set hn rfl
    split
    · have hs' : stripRub n0 = stripRub { n with rub := cfg.R.rub n.state } := hs
      generalize hpar' : ({ n with rub := cfg.R.rub n.state } : Node S) = par at hs' hrub ⊢
      have hst : n.state = par.state := by rw [← hpar']
      simp only [hst]
      refine ⟨hrub, ?_⟩
      refine foldl_inv (β := List (Node S) × List (Call S))
        (fun acc => ∀ c ∈ acc.1, ChildGen cfg lidx var ly0 c) _ _ _ h.child ?_
      rintro ⟨nx', lg'⟩ d hd ih1
      dsimp only at ih1 ⊢
      intro c hc
      rcases branchOn_mem cfg par lidx p ⟨var, d⟩ nx' c hc with hc | ⟨m, hm, hms, rfl⟩
      · exact ih1 c hc
      · refine childGen_appendEdge cfg lidx var ly0 p n0 par h0 hs' d hd m ?_ hms
        rcases hm with hm | hm
        · exact .inl (ih1 m hm)
        · exact .inr hm
    · exact ⟨hrub, h.child⟩

theorem expandAll_ginv (cfg : Cfg S K) (lidx var : Nat) (ly0 : List (Node S)) (cur : List Nat) (log : List (Call S)) :
    GInv cfg lidx var ly0 (expandAll cfg var lidx ly0 cur log) := by
  unfold expandAll
  refine foldl_inv (GInv cfg lidx var ly0) _ _ _ ⟨RubEq.refl _, ?_⟩ ?_
  · intro c hc; cases hc
  · intro acc p _ h
    exact expandOne_ginv cfg lidx var ly0 acc p h

/-- a node of layer `l = l' + 1` all of whose inbound arcs are genuine transitions from layer `l'`, and whose `best`
    arc attains its value; `L`, `var`: the states handed to `nextVar` for layer `l'` and its answer -/
def NodeGen (cfg : Cfg S K) (layers : List (List (Node S))) (l : Nat) (n : Node S) : Prop :=
  ∃ (l' : Nat) (L : List S) (var : Nat), l = l' + 1 ∧ cfg.P.nextVar (cfg.root.depth + l') L = some var ∧
    (∃ a par, n.best = some a ∧ a ∈ n.inb ∧ getNode layers l' a.fromP = some par ∧ n.value = satAdd par.value a.cost) ∧
    ∀ a ∈ n.inb, a.fromL = l' ∧ ∃ par, getNode layers l' a.fromP = some par ∧
      (par.fRelaxed = false → par.state ∈ L) ∧ ArcGen cfg var par n a

/-- a node not flagged relaxed is exact or has genuine arcs -/
def GOk (cfg : Cfg S K) (layers : List (List (Node S))) (l : Nat) (n : Node S) : Prop :=
  n.fRelaxed = false → n.isExact = true ∨ NodeGen cfg layers l n

theorem NodeGen.mono {cfg : Cfg S K} {layers : List (List (Node S))} {l : Nat} {n : Node S}
    (h : NodeGen cfg layers l n) (more : List (List (Node S))) : NodeGen cfg (layers ++ more) l n := by
  obtain ⟨l', L, var, hl, hnv, ⟨a, par, h1, h2, h3, h4⟩, harcs⟩ := h
  refine ⟨l', L, var, hl, hnv, ⟨a, par, h1, h2, getNode_append_left _ _ _ _ _ h3, h4⟩, fun a ha => ?_⟩
  obtain ⟨e1, par, e2, e3, e4⟩ := harcs a ha
  exact ⟨e1, par, getNode_append_left _ _ _ _ _ e2, e3, e4⟩

theorem GOk.mono {cfg : Cfg S K} {layers : List (List (Node S))} {l : Nat} {n : Node S}
    (h : GOk cfg layers l n) (more : List (List (Node S))) : GOk cfg (layers ++ more) l n :=
  fun hr => (h hr).imp id (fun g => g.mono more)

/-- the fields `GOk` reads -/
def Ess (a b : Node S) : Prop :=
  a.state = b.state ∧ a.value = b.value ∧ a.best = b.best ∧ a.inb = b.inb ∧ a.fRelaxed = b.fRelaxed ∧ a.fExact = b.fExact

theorem Ess.trans {a b c : Node S} (h1 : Ess a b) (h2 : Ess b c) : Ess a c :=
  ⟨h1.1.trans h2.1, h1.2.1.trans h2.2.1, h1.2.2.1.trans h2.2.2.1, h1.2.2.2.1.trans h2.2.2.2.1,
   h1.2.2.2.2.1.trans h2.2.2.2.2.1, h1.2.2.2.2.2.trans h2.2.2.2.2.2⟩

theorem ess_of_stripD {a b : Node S} (h : stripD a = stripD b) : Ess a b := by
  have h1 := congrArg Node.state h
  have h2 := congrArg Node.value h
  have h3 := congrArg Node.best h
  have h4 := congrArg Node.inb h
  have h5 := congrArg Node.fRelaxed h
  have h6 := congrArg Node.fExact h
  simp only [stripD] at h1 h2 h3 h4 h5 h6
  exact ⟨h1, h2, h3, h4, h5, h6⟩

theorem ess_of_stripRub {a b : Node S} (h : stripRub a = stripRub b) : Ess a b := by
  have h1 := congrArg Node.state h
  have h2 := congrArg Node.value h
  have h3 := congrArg Node.best h
  have h4 := congrArg Node.inb h
  have h5 := congrArg Node.fRelaxed h
  have h6 := congrArg Node.fExact h
  simp only [stripRub] at h1 h2 h3 h4 h5 h6
  exact ⟨h1, h2, h3, h4, h5, h6⟩

theorem GOk.of_ess {cfg : Cfg S K} {layers : List (List (Node S))} {l : Nat} {n0 n : Node S}
    (h : GOk cfg layers l n0) (he : Ess n0 n) : GOk cfg layers l n := by
  obtain ⟨e1, e2, e3, e4, e5, e6⟩ := he
  intro hr
  rcases h (e5.trans hr) with hx | hg
  · left
    simp only [Node.isExact, ← e5, ← e6]
    exact hx
  · right
    obtain ⟨l', L, var, hl, hnv, ⟨a, par, h1, h2, h3, h4⟩, harcs⟩ := hg
    refine ⟨l', L, var, hl, hnv, ⟨a, par, e3 ▸ h1, e4 ▸ h2, h3, e2 ▸ h4⟩, fun a ha => ?_⟩
    obtain ⟨x1, par, x2, x3, y1, y2, y3, y4⟩ := harcs a (e4 ▸ ha)
    exact ⟨x1, par, x2, x3, y1, y2, e1 ▸ y3, e1 ▸ y4⟩

/-- the third invariant of the top-down build -/
structure G2 (cfg : Cfg S K) (dd : DD S K) : Prop where
  layers : ∀ (l : Nat) (ly : List (Node S)), dd.layers[l]? = some ly → ∀ n ∈ ly, GOk cfg dd.layers l n
  next : ∀ n ∈ dd.next, GOk cfg dd.layers dd.layers.length n

theorem G2.congr {cfg : Cfg S K} {dd dd' : DD S K} (h : G2 cfg dd) (hl : dd'.layers = dd.layers) (hn : dd'.next = dd.next) :
    G2 cfg dd' := by
  obtain ⟨h1, h2⟩ := h
  exact ⟨hl ▸ h1, hl ▸ hn ▸ h2⟩

theorem gOk_append_layer {cfg : Cfg S K} {layers : List (List (Node S))} {lyF : List (Node S)}
    (hold : ∀ (l : Nat) (ly : List (Node S)), layers[l]? = some ly → ∀ n ∈ ly, GOk cfg layers l n)
    (hnew : ∀ n ∈ lyF, GOk cfg layers layers.length n) :
    ∀ (l : Nat) (ly : List (Node S)), (layers ++ [lyF])[l]? = some ly → ∀ n ∈ ly, GOk cfg (layers ++ [lyF]) l n := by
  intro l ly hl n hn
  rcases getElem?_append_singleton_cases hl with hl | ⟨rfl, rfl⟩
  · exact (hold l ly hl n hn).mono _
  · exact (hnew n hn).mono _

theorem initDD_g2 (cfg : Cfg S K) (cache : Cache S) (store : DomStore S K) (polls : Nat) :
    G2 cfg (initDD cfg cache store polls) := by
  refine ⟨?_, ?_⟩
  · intro l ly hl
    simp only [initDD, List.getElem?_nil] at hl
    cases hl
  · intro n hn
    simp only [initDD, List.mem_singleton] at hn
    subst hn
    intro _
    exact .inl rfl

theorem stepLayer_g2 (cfg : Cfg S K) (hrel : cfg.ctype = .relaxed) (hW : 1 ≤ cfg.width)
    (dd dd' : DD S K) (var : Nat) (hG : G2 cfg dd) (hdepth : dd.depth = cfg.root.depth + dd.layers.length)
    (hnv : cfg.P.nextVar dd.depth (dd.next.map (·.state)) = some var)
    (sq : List (Node S) × List Nat × List (Call S) × Option Nat)
    (hsq : squash cfg dd dd.next (List.range dd.next.length) = some sq)
    (hl : dd'.layers = dd.layers ++ [(expandAll cfg var dd.layers.length sq.1 sq.2.1 sq.2.2.1).1])
    (hn : dd'.next = (expandAll cfg var dd.layers.length sq.1 sq.2.1 sq.2.2.1).2.1) : G2 cfg dd' := by
  have hsub := squash_subN cfg dd dd.next _ hrel hW sq hsq
  have hE := expandAll_ginv cfg dd.layers.length var sq.1 sq.2.1 sq.2.2.1
  generalize expandAll cfg var dd.layers.length sq.1 sq.2.1 sq.2.2.1 = ex at hE hl hn
  obtain ⟨hrub, hchild⟩ := hE
  -- a node of the squashed layer that is not flagged relaxed comes from `dd.next`
  have hback : ∀ m ∈ sq.1, m.fRelaxed = false → ∃ n00 ∈ dd.next, Ess n00 m := by
    intro m hm hr
    obtain ⟨n00, h00, hs⟩ := hsub m hm hr
    exact ⟨n00, h00, ess_of_stripD hs⟩
  have hlen' : dd'.layers.length = dd.layers.length + 1 := by rw [hl, List.length_append, List.length_singleton]
  refine ⟨?_, ?_⟩
  · rw [hl]
    refine gOk_append_layer hG.layers ?_
    intro n hn' hr
    obtain ⟨i, hi⟩ := List.mem_iff_getElem?.1 hn'
    obtain ⟨n0, h0, hs⟩ := hrub.get hi
    have e0 := ess_of_stripRub hs
    obtain ⟨n00, h00, e00⟩ := hback n0 (List.mem_of_getElem? h0) (e0.2.2.2.2.1.trans hr)
    exact ((hG.next n00 h00).of_ess (e00.trans e0)) hr
  · rw [hn, hlen', hl]
    intro c hc _
    right
    obtain ⟨_, ⟨a, par, hb, ha, hp, hv⟩, harcs⟩ := hchild c hc
    refine ⟨dd.layers.length, dd.next.map (·.state), var, rfl, hdepth ▸ hnv, ?_, ?_⟩
    · obtain ⟨parF, hpF, hsF⟩ := hrub.get' hp
      refine ⟨a, parF, hb, ha, ?_, ?_⟩
      · rw [Cover.getNode_last]; exact hpF
      · rw [hv, (ess_of_stripRub hsF).2.1]
    · intro a ha
      obtain ⟨hfl, par, hp, h1, h2, h3, h4⟩ := harcs a ha
      obtain ⟨parF, hpF, hsF⟩ := hrub.get' hp
      have eF := ess_of_stripRub hsF
      refine ⟨hfl, parF, by rw [Cover.getNode_last]; exact hpF, ?_, h1, ?_, ?_, ?_⟩
      · intro hr
        obtain ⟨n00, h00, e00⟩ := hback par (List.mem_of_getElem? hp) (eF.2.2.2.2.1.trans hr)
        rw [← eF.1, ← e00.1]
        exact List.mem_map_of_mem h00
      · rw [← eF.1]; exact h2
      · rw [← eF.1]; exact h3
      · rw [← eF.1]; exact h4

theorem buildLoop_g2 (cfg : Cfg S K) (hrel : cfg.ctype = .relaxed) (hW : 1 ≤ cfg.width)
    (hc : cfg.useCache = false) (hd : cfg.dom = none) :
    ∀ (fuel : Nat) (dd : DD S K), G2 cfg dd → dd.depth = cfg.root.depth + dd.layers.length →
      G2 cfg (buildLoop cfg none fuel dd).1 ∧
      (buildLoop cfg none fuel dd).1.layers.length ≤ dd.layers.length + fuel := by
  intro fuel
  induction fuel with
  | zero => intro dd hG _; exact ⟨hG, Nat.le_refl _⟩
  | succ fuel ih =>
    intro dd hG hdepth
    cases hnv : cfg.P.nextVar dd.depth (dd.next.map (·.state)) with
    | none =>
      have : buildLoop cfg none (fuel + 1) dd =
          ({ dd with log := Call.nextVar dd.depth (dd.next.map (·.state)) none :: dd.log }, .ok) := by
        conv => lhs; unfold buildLoop
        simp only [hnv]
      rw [this]
      exact ⟨hG.congr rfl rfl, by dsimp only; omega⟩
    | some var =>
      have hG1 : G2 cfg (tick dd var) := hG.congr rfl rfl
      rw [buildLoop_step cfg fuel dd var hnv]
      by_cases hne : (tick dd var).next = []
      · rw [stepLayer_empty cfg _ var hne]
        dsimp only
        refine ⟨⟨?_, ?_⟩, ?_⟩
        · exact gOk_append_layer hG1.layers (fun n hn => by cases hn)
        · intro n hn; rw [hne] at hn; cases hn
        · rw [List.length_append, List.length_singleton]; show dd.layers.length + 1 ≤ _; omega
      · cases hsq : squash cfg (tick dd var) (tick dd var).next (List.range (tick dd var).next.length) with
        | none =>
          rw [stepLayer_iso_none cfg _ var hne hc hd hsq]
          exact ⟨hG1, by show dd.layers.length ≤ _; omega⟩
        | some sq =>
          obtain ⟨dd', hst, hl, hn, hdd, _⟩ := stepLayer_iso_some cfg _ var hne hc hd sq hsq
          rw [hst]
          dsimp only
          have hlen' : dd'.layers.length = dd.layers.length + 1 := by
            rw [hl, List.length_append, List.length_singleton]; rfl
          have hG' : G2 cfg dd' := stepLayer_g2 cfg hrel hW (tick dd var) dd' var hG1 hdepth hnv sq hsq hl hn
          obtain ⟨h1, h2⟩ := ih dd' hG' (by rw [hdd, hlen']; show dd.depth + 1 = _; omega)
          exact ⟨h1, by omega⟩

/-! ## a node with an exact best path is reached exactly -/

theorem mem_argmaxParents {layers : List (List (Node S))} {n p : Node S} :
    p ∈ argmaxParents layers n ↔
      ∃ a ∈ n.inb, getNode layers a.fromL a.fromP = some p ∧ satAdd p.value a.cost = n.value := by
  unfold argmaxParents
  rw [List.mem_filterMap]
  constructor
  · rintro ⟨a, ha, h⟩
    cases hg : getNode layers a.fromL a.fromP with
    | none => rw [hg] at h; cases h
    | some p' =>
      rw [hg] at h
      dsimp only at h
      split at h
      · rename_i hv
        simp only [Option.some.injEq] at h
        rw [h] at hg hv
        exact ⟨a, ha, hg, hv⟩
      · cases h
  · rintro ⟨a, ha, hg, hv⟩
    exact ⟨a, ha, by rw [hg]; dsimp only; rw [if_pos hv]⟩

theorem ebpSome_fRelaxed {layers : List (List (Node S))} {fuel : Nat} {n : Node S}
    (h : ebpSome layers fuel n = true) : n.fRelaxed = false := by
  cases hr : n.fRelaxed with
  | false => rfl
  | true =>
    cases fuel with
    | zero => simp [ebpSome, Node.isExact, hr] at h
    | succ f => simp [ebpSome, Node.isExact, hr] at h

theorem ebpAll_fRelaxed {layers : List (List (Node S))} {fuel : Nat} {n : Node S}
    (h : ebpAll layers fuel n = true) : n.fRelaxed = false := by
  cases hr : n.fRelaxed with
  | false => rfl
  | true =>
    cases fuel with
    | zero => simp [ebpAll, Node.isExact, hr] at h
    | succ f => simp [ebpAll, Node.isExact, hr] at h

/-- the facts about the finished diagram `LS` (all layers, terminal layer included) used below -/
structure FinOk (cfg : Cfg S K) (B : Int) (p0 : List Dec) (LS : List (List (Node S))) : Prop where
  ex : ∀ (l : Nat) (ly : List (Node S)), LS[l]? = some ly → ∀ n ∈ ly, NodeOk cfg B p0 LS l n
  gen : ∀ (l : Nat) (ly : List (Node S)), LS[l]? = some ly → ∀ n ∈ ly, GOk cfg LS l n
  len : LS.length ≤ cfg.P.nbVars + 3

theorem getNode_mem {LS : List (List (Node S))} {l p : Nat} {n : Node S} (h : getNode LS l p = some n) :
    ∃ ly, LS[l]? = some ly ∧ n ∈ ly := by
  obtain ⟨ly, h1, h2⟩ := Cover.getNode_lt h
  exact ⟨ly, h1, List.mem_of_getElem? h2⟩

/-- one genuine arc: from a reached parent to its child -/
theorem reach_arc (cfg : Cfg S K) (B : Int) (p0 : List Dec) (hB : NoClamp cfg.P cfg.R cfg.root.value B)
    (l' : Nat) (hl' : l' + 1 ≤ cfg.P.nbVars + 2) (L : List S) (var : Nat)
    (hnv : cfg.P.nextVar (cfg.root.depth + l') L = some var) (par n : Node S) (a : Arc)
    (hL : par.state ∈ L) (hg : ArcGen cfg var par n a) (hv : n.value = satAdd par.value a.cost)
    (q : List Dec) (hr : Reach cfg.P (cfg.root.depth + l') par.state par.value (p0 ++ q)) (hb : Bnd B l' par.value) :
    Reach cfg.P (cfg.root.depth + (l' + 1)) n.state n.value (p0 ++ (q ++ [a.dec])) ∧ Bnd B (l' + 1) n.value := by
  obtain ⟨h1, h2, h3, h4⟩ := hg
  have hstep := Reach.step _ _ _ _ L var a.dec.val hr hnv hL h2
  have hdec : (⟨var, a.dec.val⟩ : Dec) = a.dec := by rw [← h1]
  rw [hdec, ← h3, ← h4] at hstep
  have hbnd' : Bnd B (l' + 1) (par.value + a.cost) := hb.step (h4 ▸ hB.cost _ _ _)
  have hsat : satAdd par.value a.cost = par.value + a.cost := clamp_of_in (satAdd_of_bnd hB hl' hbnd')
  rw [hv, hsat, ← List.append_assoc]
  exact ⟨hstep, hbnd'⟩

/-- **some** resolution of the ties gives an exact best path ⇒ the node is reached exactly with its value -/
theorem ebpSome_reach (cfg : Cfg S K) (B : Int) (p0 : List Dec) (hB : NoClamp cfg.P cfg.R cfg.root.value B)
    (LS : List (List (Node S))) (hF : FinOk cfg B p0 LS) :
    ∀ (fuel l : Nat) (ly : List (Node S)) (n : Node S), LS[l]? = some ly → n ∈ ly → ebpSome LS fuel n = true →
      ∃ q, Reach cfg.P (cfg.root.depth + l) n.state n.value (p0 ++ q) ∧ Bnd B l n.value := by
  have hexact : ∀ (l : Nat) (ly : List (Node S)) (n : Node S), LS[l]? = some ly → n ∈ ly → n.isExact = true →
      ∃ q, Reach cfg.P (cfg.root.depth + l) n.state n.value (p0 ++ q) ∧ Bnd B l n.value := by
    intro l ly n hly hn hx
    obtain ⟨q, _, hr, hd, hb⟩ := hF.ex l ly hly n hn hx
    exact ⟨q, hd ▸ hr, hb⟩
  intro fuel
  induction fuel with
  | zero =>
    intro l ly n hly hn h
    exact hexact l ly n hly hn (by simpa [ebpSome] using h)
  | succ fuel ih =>
    intro l ly n hly hn h
    by_cases hx : n.isExact = true
    · exact hexact l ly n hly hn hx
    · have hr := ebpSome_fRelaxed h
      rcases hF.gen l ly hly n hn hr with hx' | ⟨l', L, var, rfl, hnv, ⟨a0, par0, hb0, _, _, _⟩, harcs⟩
      · exact absurd hx' hx
      · simp only [ebpSome, hb0, Bool.or_eq_true, Bool.and_eq_true, List.any_eq_true] at h
        rcases h with h | ⟨_, p, hp, hpe⟩
        · exact absurd h hx
        · obtain ⟨a, ha, hg, hv⟩ := mem_argmaxParents.mp hp
          obtain ⟨hfl, par, hgp, hinL, hgen⟩ := harcs a ha
          rw [hfl, hgp] at hg
          have hpp : par = p := Option.some.inj hg
          rw [← hpp] at hpe hv
          obtain ⟨lyp, hlyp, hpm⟩ := getNode_mem hgp
          obtain ⟨q, hq, hbq⟩ := ih l' lyp par hlyp hpm hpe
          have hlt := Cover.lt_of_getElem?_some hly
          obtain ⟨h1, h2⟩ := reach_arc cfg B p0 hB l' (by have := hF.len; omega) L var hnv par n a
            (hinL (ebpSome_fRelaxed hpe)) hgen hv.symm q hq hbq
          exact ⟨_, h1, h2⟩

/-- **every** resolution of the ties gives an exact best path ⇒ the `best` chain of the node reaches it exactly -/
theorem ebpAll_reach (cfg : Cfg S K) (B : Int) (p0 : List Dec) (hB : NoClamp cfg.P cfg.R cfg.root.value B)
    (LS : List (List (Node S))) (hF : FinOk cfg B p0 LS) :
    ∀ (fuel l : Nat) (ly : List (Node S)) (n : Node S), LS[l]? = some ly → n ∈ ly → ebpAll LS fuel n = true →
      ∃ q, BestChain LS l n.best q ∧ Reach cfg.P (cfg.root.depth + l) n.state n.value (p0 ++ q) ∧ Bnd B l n.value := by
  have hexact : ∀ (l : Nat) (ly : List (Node S)) (n : Node S), LS[l]? = some ly → n ∈ ly → n.isExact = true →
      ∃ q, BestChain LS l n.best q ∧ Reach cfg.P (cfg.root.depth + l) n.state n.value (p0 ++ q) ∧ Bnd B l n.value := by
    intro l ly n hly hn hx
    obtain ⟨q, hc, hr, hd, hb⟩ := hF.ex l ly hly n hn hx
    exact ⟨q, hc, hd ▸ hr, hb⟩
  intro fuel
  induction fuel with
  | zero =>
    intro l ly n hly hn h
    exact hexact l ly n hly hn (by simpa [ebpAll] using h)
  | succ fuel ih =>
    intro l ly n hly hn h
    by_cases hx : n.isExact = true
    · exact hexact l ly n hly hn hx
    · have hr := ebpAll_fRelaxed h
      rcases hF.gen l ly hly n hn hr with hx' | ⟨l', L, var, rfl, hnv, ⟨a0, par0, hb0, ha0, hg0, hv0⟩, harcs⟩
      · exact absurd hx' hx
      · simp only [ebpAll, hb0, Bool.or_eq_true, Bool.and_eq_true, List.all_eq_true] at h
        rcases h with h | ⟨_, hall⟩
        · exact absurd h hx
        · obtain ⟨hfl, par, hgp, hinL, hgen⟩ := harcs a0 ha0
          rw [hg0] at hgp
          cases hgp
          have hpe := hall par0 (mem_argmaxParents.mpr ⟨a0, ha0, by rw [hfl]; exact hg0, hv0.symm⟩)
          obtain ⟨lyp, hlyp, hpm⟩ := getNode_mem hg0
          obtain ⟨q, hc, hq, hbq⟩ := ih l' lyp par0 hlyp hpm hpe
          have hlt := Cover.lt_of_getElem?_some hly
          obtain ⟨h1, h2⟩ := reach_arc cfg B p0 hB l' (by have := hF.len; omega) L var hnv par0 n a0
            (hinL (ebpAll_fRelaxed hpe)) hgen hv0 q hq hbq
          refine ⟨q ++ [a0.dec], ?_, h1, h2⟩
          rw [hb0]
          exact BestChain.step l' a0 par0 q hfl hg0 hc

/-! ## relaxed compilations that have an exact best path -/

/-- the value part of `Truthful`: the optimum is reported, and it is the value of a complete feasible path -/
structure TruthfulVal (cfg : Cfg S K) (p0 : List Dec) (o : Int) (r : Result S) : Prop where
  bestValue : r.bestValue = some o
  bestExactValue : r.bestExactValue = some o
  wit : ∃ (k : Nat) (s : S) (q : List Dec) (L : List S), Reach cfg.P k s o (p0 ++ q) ∧ s ∈ L ∧ cfg.P.nextVar k L = none

theorem Truthful.toVal {cfg : Cfg S K} {p0 : List Dec} {o : Int} {r : Result S} (h : Truthful cfg p0 o r) :
    TruthfulVal cfg p0 o r := by
  obtain ⟨k, s, q, L, h1, h2, h3, _⟩ := h.sol
  exact ⟨h.bestValue, h.bestExactValue, k, s, q, L, h1, h2, h3⟩

theorem bestTerminals_finalizeLayers (dd : DD S K) (bv : Int) (h : maxValue dd.next = some bv) :
    (finalizeLayers dd).bestTerminals = dd.next.filter (fun n => decide (n.value = bv)) := by
  unfold Built.bestTerminals Built.bestValue
  rw [terminals_finalizeLayers, h]

/-- **the exact-best-path case**: a relaxed compilation in isolation, `hasEBP` = the `must` bit (`Truthful`, the reported
    solutions are the `best` chain of the best terminal node) or the `may` bit (`TruthfulVal`) -/
theorem ebp_truthful (cfg : Cfg S K) (H : Nat → S → EInt) (V : Nat → S → Prop) (B o : Int) (p0 : List Dec)
    (hy : Cover.Hyp cfg H V B o) (hL : LowRel cfg.P H V) (hV : V cfg.root.depth cfg.root.state)
    (hB : NoClamp cfg.P cfg.R cfg.root.value B)
    (hroot : Reach cfg.P cfg.root.depth cfg.root.state cfg.root.value p0)
    (ho : optOf H cfg.root = some o) (cache : Cache S) (store : DomStore S K) (polls : Nat)
    (hok : (buildLoop cfg none (cfg.P.nbVars + 2) (initDD cfg cache store polls)).2 = .ok) :
    ((finalizeLayers (buildLoop cfg none (cfg.P.nbVars + 2) (initDD cfg cache store polls)).1).ebpMust true = true →
      Truthful cfg p0 o (finalize cfg (finalizeLayers (buildLoop cfg none (cfg.P.nbVars + 2) (initDD cfg cache store polls)).1) true).1) ∧
    ((finalizeLayers (buildLoop cfg none (cfg.P.nbVars + 2) (initDD cfg cache store polls)).1).ebpMay true = true →
      TruthfulVal cfg p0 o (finalize cfg (finalizeLayers (buildLoop cfg none (cfg.P.nbVars + 2) (initDD cfg cache store polls)).1) true).1) := by
  have hcov := Cover.buildLoop_cover cfg H V B o hy (cfg.P.nbVars + 2) (initDD cfg cache store polls)
    (Cover.init_inv cfg H V B o cache store polls hV hy.B ho) (by simp [initDD]) hok
  obtain ⟨hinv, hinv2⟩ := buildLoop_inv2 cfg B p0 hB none (cfg.P.nbVars + 2) (initDD cfg cache store polls)
    (initDD_inv cfg B p0 hB hroot cache store polls) (initDD_inv2 cfg cache store polls) rfl
    (by simp only [initDD, List.length_nil]; omega)
  have hterm := (buildLoop_inv cfg B p0 hB none (cfg.P.nbVars + 2) (initDD cfg cache store polls)
    (initDD_inv cfg B p0 hB hroot cache store polls) rfl (by simp only [initDD, List.length_nil]; omega)).2 hok
  obtain ⟨hG, hlen⟩ := buildLoop_g2 cfg hy.rel hy.W hy.cache hy.dom (cfg.P.nbVars + 2) (initDD cfg cache store polls)
    (initDD_g2 cfg cache store polls) rfl
  have hlen0 : (initDD cfg cache store polls).layers.length = 0 := rfl
  rw [hlen0] at hlen
  generalize (buildLoop cfg none (cfg.P.nbVars + 2) (initDD cfg cache store polls)).1 = dd at *
  rcases hterm with hnil | ⟨hnv, hdepth⟩
  · obtain ⟨n, hn, _⟩ := hcov; rw [hnil] at hn; cases hn
  · obtain ⟨n0, hn0, hle0⟩ := hcov
    have hne : dd.next ≠ [] := List.ne_nil_of_mem hn0
    obtain ⟨bv, hbv, hge⟩ := Cover.maxValue_ge dd.next n0 hn0
    obtain ⟨hlayers, _⟩ := finalizeLayers_nonempty dd hne
    have hbt := bestTerminals_finalizeLayers dd bv hbv
    have hF : FinOk cfg B p0 (dd.layers ++ [dd.next]) :=
      ⟨MInv.append_layer hinv.layers hinv.next, gOk_append_layer hG.layers hG.next, by
        rw [List.length_append, List.length_singleton]; omega⟩
    have hlast : (dd.layers ++ [dd.next])[dd.layers.length]? = some dd.next := List.getElem?_concat_length
    -- a reached terminal node of value `bv` forces `bv = o`
    have hkey : ∀ n ∈ dd.next, n.value = bv → (∃ q, Reach cfg.P (cfg.root.depth + dd.layers.length) n.state n.value (p0 ++ q)) →
        bv = o := by
      intro n hn hv ⟨q, hr⟩
      rw [← hdepth] at hr
      obtain ⟨x, hx, hwx⟩ := complete_le_opt hL hroot hV hr (List.mem_map_of_mem hn) hnv
      rw [ho] at hx; cases hx; omega
    obtain ⟨n1, hfind1, hn1, hv1⟩ := find?_of_maxValue hbv
    constructor
    · intro hmust
      simp only [Built.ebpMust, Bool.true_and, hbt, hlayers, List.all_eq_true, List.mem_filter, decide_eq_true_eq] at hmust
      have hall : ∀ n ∈ dd.next, n.value = bv →
          ∃ q, BestChain (dd.layers ++ [dd.next]) dd.layers.length n.best q ∧
            Reach cfg.P (cfg.root.depth + dd.layers.length) n.state n.value (p0 ++ q) := by
        intro n hn hv
        obtain ⟨q, h1, h2, _⟩ := ebpAll_reach cfg B p0 hB _ hF _ _ _ n hlast hn (hmust n ⟨hn, hv⟩)
        exact ⟨q, h1, h2⟩
      have hbo : bv = o := by
        obtain ⟨q, _, hr⟩ := hall n1 hn1 hv1
        exact hkey n1 hn1 hv1 ⟨q, hr⟩
      subst hbo
      refine finalize_truthful cfg p0 bv dd true hbv hnv ?_ (fun h => by cases h)
      intro n hf
      have h1 := List.find?_some hf
      simp only [decide_eq_true_eq] at h1
      rw [hdepth]
      exact hall n (List.mem_of_find?_eq_some hf) h1
    · intro hmay
      simp only [Built.ebpMay, Bool.true_and, hbt, hlayers, Bool.or_eq_true, List.isEmpty_iff, List.any_eq_true,
        List.mem_filter, decide_eq_true_eq] at hmay
      rcases hmay with hemp | ⟨n, ⟨hn, hv⟩, hs⟩
      · have : n1 ∈ dd.next.filter (fun n => decide (n.value = bv)) := by
          rw [List.mem_filter]; exact ⟨hn1, by simpa using hv1⟩
        rw [hemp] at this; cases this
      · obtain ⟨q, hr, _⟩ := ebpSome_reach cfg B p0 hB _ hF _ _ _ n hlast hn hs
        have hbo : bv = o := hkey n hn hv ⟨q, hr⟩
        subst hbo
        have hbvF : (finalizeLayers dd).bestValue = some bv := by
          unfold Built.bestValue; rw [terminals_finalizeLayers]; exact hbv
        refine ⟨hbvF, ?_, dd.depth, n.state, q, _, ?_, List.mem_map_of_mem hn, hnv⟩
        · rw [finalize_bestExactValue]; exact hbvF
        · rw [hdepth, ← hv]; exact hr

/-! ## compile-level statements (relative to a layer-validity predicate) -/

/-- the merge-free part of `WfRel`: what the un-squashed coverage argument needs -/
structure WfX (P : Problem S) (R : Relax S) (H : Nat → S → EInt) (V : Nat → S → Prop) : Prop where
  vstep : ∀ k L x s d, P.nextVar k L = some x → s ∈ L → V k s → d ∈ P.domain x s → V (k + 1) (P.trans s ⟨x, d⟩)
  att : ∀ k L x s h, P.nextVar k L = some x → s ∈ L → V k s → H k s = some h →
      ∃ d ∈ P.domain x s, ∃ h', H (k + 1) (P.trans s ⟨x, d⟩) = some h' ∧
        h ≤ P.cost s (P.trans s ⟨x, d⟩) ⟨x, d⟩ + h'
  term : ∀ k L s h, P.nextVar k L = none → s ∈ L → V k s → H k s = some h → h ≤ 0
  rub : ∀ k s h, V k s → H k s = some h → h ≤ R.rub s

omit [DecidableEq S] in
theorem WfX.of_rel {P : Problem S} {R : Relax S} {H : Nat → S → EInt} {V : Nat → S → Prop} (h : WfRel P R H V) :
    WfX P R H V := ⟨h.vstep, h.att, h.term, h.rub⟩

omit [DecidableEq S] in
theorem wfX_of_potential {P : Problem S} {R : Relax S} {H : Nat → S → EInt} (hP : Potential P H) (hR : RubOk R H) :
    WfX P R H (fun _ _ => True) where
  vstep := fun _ _ _ _ _ _ _ _ _ => trivial
  att := fun k L x s h hnv hs _ hH => hP.att k L x s h hnv hs hH
  term := fun k L s h hnv hs _ hH => by
    rw [hP.term k L s hnv hs] at hH; cases hH; exact Int.le_refl _
  rub := fun k s h _ hH => hR k s h hH

theorem clamp_gt {lb o : Int} (hlb : InI lb) (hgt : o > lb) (hO : o ≤ iMax ∨ lb < iMax) :
    ∀ x, o ≤ x → clamp x > lb := by
  intro x hx
  unfold InI at hlb
  unfold clamp
  simp only [iMin, iMax] at *
  omega

/-- **lower direction, any cache / dominance configuration**: the best value of a restricted or exact compilation never
    exceeds the optimum of the root sub-problem (which is then not `−∞`) -/
theorem nonrelaxed_le_opt (cfg : Cfg S K) (H : Nat → S → EInt) (V : Nat → S → Prop) (B : Int) (p0 : List Dec)
    (cache : Cache S) (store : DomStore S K) (polls : Nat) (stopAt : Option Nat)
    (hty : cfg.ctype = .restricted ∨ cfg.ctype = .exact)
    (hL : LowRel cfg.P H V) (hV : V cfg.root.depth cfg.root.state)
    (hroot : Reach cfg.P cfg.root.depth cfg.root.state cfg.root.value p0)
    (hB : NoClamp cfg.P cfg.R cfg.root.value B)
    (hok : (compile cfg cache store polls stopAt).1 = .ok) (w : Int)
    (hw : (compile cfg cache store polls stopAt).2.1.bestValue = some w) :
    ∃ x, optOf H cfg.root = some x ∧ w ≤ x := by
  obtain ⟨hoc, hdd, hres⟩ := compile_ok cfg cache store polls stopAt hok
  rw [hres, finalize_bestValue] at hw
  obtain ⟨hinv, hterm⟩ := buildLoop_inv cfg B p0 hB stopAt (cfg.P.nbVars + 2) (initDD cfg cache store polls)
    (initDD_inv cfg B p0 hB hroot cache store polls) rfl (by simp only [initDD, List.length_nil]; omega)
  generalize (buildLoop cfg stopAt (cfg.P.nbVars + 2) (initDD cfg cache store polls)) = bl at *
  obtain ⟨dd, oc⟩ := bl
  dsimp only at hoc hw hinv hterm
  have hne : cfg.ctype ≠ .relaxed := by
    rcases hty with h | h <;> rw [h] <;> decide
  have hw' : maxValue dd.next = some w := by
    unfold Built.bestValue at hw; rwa [terminals_finalizeLayers] at hw
  obtain ⟨n, hn, hv⟩ := maxValue_mem hw'
  obtain ⟨q, _, hreach, hd, _⟩ := hinv.next n hn (hinv.allEx hne n hn)
  rcases hterm hoc with hnil | ⟨hnone, hdepth⟩
  · rw [hnil] at hn; cases hn
  · rw [← hd.trans hdepth.symm] at hnone
    exact complete_le_opt hL hroot hV (hv ▸ hreach) (List.mem_map_of_mem hn) hnone

/-- **the un-squashed case at the level of `compile`**: in isolation, if `lel` is unset in the final diagram, either result
    is truthful (and declares itself exact) -/
theorem compile_unsquashed (cfg : Cfg S K) (H : Nat → S → EInt) (V : Nat → S → Prop) (B o : Int) (p0 : List Dec)
    (cache : Cache S) (store : DomStore S K) (polls : Nat)
    (hcache : cfg.useCache = false) (hdom : cfg.dom = none)
    (hwf : WfX cfg.P cfg.R H V) (hL : LowRel cfg.P H V) (hV : V cfg.root.depth cfg.root.state)
    (hB : NoClamp cfg.P cfg.R cfg.root.value B) (hlb : InI cfg.lb)
    (hroot : Reach cfg.P cfg.root.depth cfg.root.state cfg.root.value p0)
    (ho : optOf H cfg.root = some o) (hgt : o > cfg.lb) (hO : o ≤ iMax ∨ cfg.lb < iMax)
    (hok : (compile cfg cache store polls none).1 = .ok)
    (hlel : (compile cfg cache store polls none).2.2.2.lel = none) (r : Result S)
    (hr : r = (compile cfg cache store polls none).2.1 ∨ (compile cfg cache store polls none).2.2.1 = some r) :
    r.isExact = true ∧ Truthful cfg p0 o r := by
  obtain ⟨hbl, hdd, e, _, rfl⟩ := compile_results' cfg cache store polls none hok r hr
  rw [hdd] at hlel
  have hy : HypX cfg H V B o :=
    ⟨hcache, hdom, hwf.vstep, hwf.att, hwf.term, hwf.rub, hB.toDom, clamp_gt hlb hgt hO⟩
  refine ⟨?_, unsquashed_truthful cfg H V B o p0 hy hL hV hB hroot ho cache store polls hbl hlel e⟩
  rw [finalize_isExact]
  have : (finalizeLayers (buildLoop cfg none (cfg.P.nbVars + 2) (initDD cfg cache store polls)).1).isExactField = true := by
    show Option.isNone _ = true
    rw [hlel]; rfl
  rw [this]; rfl

/-! ## soundness of the reported exact value, without any assumption on the incumbent (for the solver contracts) -/

/-- `hasEBP = false`: the best exact value is the value of the first exact terminal node attaining it, whose `best` chain is
    reported -/
theorem finalize_exactSol_false (cfg : Cfg S K) (p0 : List Dec) (w : Int) (dd : DD S K)
    (hnv : cfg.P.nextVar dd.depth (dd.next.map (·.state)) = none)
    (hmx : maxValue (dd.next.filter (·.isExact)) = some w)
    (hall : ∀ n ∈ dd.next, n.isExact = true →
      ∃ q, BestChain (dd.layers ++ [dd.next]) dd.layers.length n.best q ∧ Reach cfg.P dd.depth n.state n.value (p0 ++ q)) :
    IsSol cfg p0 w (finalize cfg (finalizeLayers dd) false).1.bestExactSol := by
  obtain ⟨n2, hfind2, hn2, hx2, hv2⟩ := find?_of_maxValue_f (fun n : Node S => n.isExact) hmx
  have hne : dd.next ≠ [] := List.ne_nil_of_mem hn2
  obtain ⟨hlayers, hterm⟩ := finalizeLayers_nonempty dd hne
  have hk := finalize_layers_xEq cfg (finalizeLayers dd) false
  rw [hlayers] at hk
  obtain ⟨q2, hq2, hr2⟩ := hall n2 hn2 hx2
  refine ⟨dd.depth, n2.state, q2, _, hv2 ▸ hr2, List.mem_map_of_mem hn2, hnv, ?_⟩
  rw [finalize_bestExactSol, terminals_finalizeLayers, hterm]
  simp only [Bool.false_eq_true, if_false, hmx]
  dsimp only [Option.bind_some]
  refine find_chain cfg dd _ hk _ ?_ n2 hfind2 q2 hq2
  intro a b h
  rw [stripB_value h, stripB_isExact h]

/-- any compilation type, any cache / dominance configuration, any cutoff: with `hasEBP = false` a reported best exact
    value is the value of the reported best exact solution, a complete feasible path through the root sub-problem -/
theorem bestExact_sol_false (cfg : Cfg S K) (B : Int) (p0 : List Dec) (hB : NoClamp cfg.P cfg.R cfg.root.value B)
    (hroot : Reach cfg.P cfg.root.depth cfg.root.state cfg.root.value p0)
    (cache : Cache S) (store : DomStore S K) (polls : Nat) (stopAt : Option Nat)
    (hok : (buildLoop cfg stopAt (cfg.P.nbVars + 2) (initDD cfg cache store polls)).2 = .ok) (w : Int)
    (hw : (finalize cfg (finalizeLayers (buildLoop cfg stopAt (cfg.P.nbVars + 2) (initDD cfg cache store polls)).1) false).1.bestExactValue
      = some w) :
    IsSol cfg p0 w
      (finalize cfg (finalizeLayers (buildLoop cfg stopAt (cfg.P.nbVars + 2) (initDD cfg cache store polls)).1) false).1.bestExactSol := by
  obtain ⟨hinv, hterm⟩ := buildLoop_inv cfg B p0 hB stopAt (cfg.P.nbVars + 2) (initDD cfg cache store polls)
    (initDD_inv cfg B p0 hB hroot cache store polls) rfl (by simp only [initDD, List.length_nil]; omega)
  have hterm := hterm hok
  generalize (buildLoop cfg stopAt (cfg.P.nbVars + 2) (initDD cfg cache store polls)).1 = dd at *
  rw [finalize_bestExactValue, terminals_finalizeLayers] at hw
  simp only [Bool.false_eq_true, if_false] at hw
  rcases hterm with hnil | ⟨hnv, hdepth⟩
  · rw [hnil] at hw; cases hw
  · refine finalize_exactSol_false cfg p0 w dd hnv hw ?_
    intro n hn hx
    obtain ⟨q, hq, hr, hd, _⟩ := hinv.next n hn hx
    exact ⟨q, hq.mono _, by rw [hdepth, ← hd]; exact hr⟩

/-- relaxed compilation in isolation, `must` bit set: whatever the incumbent, the reported best (exact) value is the value of
    the reported best (exact) solution, a complete feasible path through the root sub-problem -/
theorem ebpMust_sound (cfg : Cfg S K) (B : Int) (p0 : List Dec)
    (hrel : cfg.ctype = .relaxed) (hW : 1 ≤ cfg.width) (hc : cfg.useCache = false) (hd : cfg.dom = none)
    (hB : NoClamp cfg.P cfg.R cfg.root.value B)
    (hroot : Reach cfg.P cfg.root.depth cfg.root.state cfg.root.value p0)
    (cache : Cache S) (store : DomStore S K) (polls : Nat)
    (hok : (buildLoop cfg none (cfg.P.nbVars + 2) (initDD cfg cache store polls)).2 = .ok)
    (hmust : (finalizeLayers (buildLoop cfg none (cfg.P.nbVars + 2) (initDD cfg cache store polls)).1).ebpMust true = true)
    (w : Int)
    (hw : (finalize cfg (finalizeLayers (buildLoop cfg none (cfg.P.nbVars + 2) (initDD cfg cache store polls)).1) true).1.bestExactValue
      = some w) :
    Truthful cfg p0 w (finalize cfg (finalizeLayers (buildLoop cfg none (cfg.P.nbVars + 2) (initDD cfg cache store polls)).1) true).1 := by
  obtain ⟨hinv, hinv2⟩ := buildLoop_inv2 cfg B p0 hB none (cfg.P.nbVars + 2) (initDD cfg cache store polls)
    (initDD_inv cfg B p0 hB hroot cache store polls) (initDD_inv2 cfg cache store polls) rfl
    (by simp only [initDD, List.length_nil]; omega)
  have hterm := (buildLoop_inv cfg B p0 hB none (cfg.P.nbVars + 2) (initDD cfg cache store polls)
    (initDD_inv cfg B p0 hB hroot cache store polls) rfl (by simp only [initDD, List.length_nil]; omega)).2 hok
  obtain ⟨hG, hlen⟩ := buildLoop_g2 cfg hrel hW hc hd (cfg.P.nbVars + 2) (initDD cfg cache store polls)
    (initDD_g2 cfg cache store polls) rfl
  have hlen0 : (initDD cfg cache store polls).layers.length = 0 := rfl
  rw [hlen0] at hlen
  generalize (buildLoop cfg none (cfg.P.nbVars + 2) (initDD cfg cache store polls)).1 = dd at *
  rw [finalize_bestExactValue] at hw
  simp only [if_true] at hw
  have hbv : maxValue dd.next = some w := by
    unfold Built.bestValue at hw; rwa [terminals_finalizeLayers] at hw
  obtain ⟨n1, _, hn1, _⟩ := find?_of_maxValue hbv
  rcases hterm with hnil | ⟨hnv, hdepth⟩
  · rw [hnil] at hn1; cases hn1
  · have hne : dd.next ≠ [] := List.ne_nil_of_mem hn1
    obtain ⟨hlayers, _⟩ := finalizeLayers_nonempty dd hne
    have hbt := bestTerminals_finalizeLayers dd w hbv
    have hF : FinOk cfg B p0 (dd.layers ++ [dd.next]) :=
      ⟨MInv.append_layer hinv.layers hinv.next, gOk_append_layer hG.layers hG.next, by
        rw [List.length_append, List.length_singleton]; omega⟩
    have hlast : (dd.layers ++ [dd.next])[dd.layers.length]? = some dd.next := List.getElem?_concat_length
    simp only [Built.ebpMust, Bool.true_and, hbt, hlayers, List.all_eq_true, List.mem_filter, decide_eq_true_eq] at hmust
    refine finalize_truthful cfg p0 w dd true hbv hnv ?_ (fun h => by cases h)
    intro n hf
    have h1 := List.find?_some hf
    simp only [decide_eq_true_eq] at h1
    have hn := List.mem_of_find?_eq_some hf
    obtain ⟨q, c1, c2, _⟩ := ebpAll_reach cfg B p0 hB _ hF _ _ _ n hlast hn (hmust n ⟨hn, h1⟩)
    exact ⟨q, c1, hdepth ▸ c2⟩

end Ddo.Truth
