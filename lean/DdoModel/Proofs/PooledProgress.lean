import DdoModel.Proofs.PooledInv
import DdoModel.Proofs.MddBounds
import DdoModel.Props.C08p
/-! # Cut-set progress of the pooled diagram with long arcs: when D5 strikes, and when it cannot

`Ddo.C08.not_cutset_progress_pooled` (finding D5): with long arcs a relaxed pooled compilation may hand out its own root
in its cut-set.  `Ddo.C08.cutset_progress_pooled_allImpacted` rules this out when there are no long arcs at all.  Here:

* `d5_only_root`: D5 is the **only** way C08 (ii) fails — a cut-set sub-problem that is not strictly deeper than the root
  sub-problem *is* the root sub-problem (state, value, depth, path).  No structural hypothesis.
* `cutset_progress_pooled_siblings`: C08 (ii) holds, long arcs allowed, as soon as the children of one node are impacted
  by the same variables (`SiblingsAlike`, strictly weaker than `AllImpacted`: `siblingsAlike_of_allImpacted`, `Witness`).
  Then the children of the root leave the pool *together*: the layer of index 1 holds all of them, it is never relaxed
  (fewer than two layers are materialised when it is squashed), and from then on every arc comes from a layer of index
  `≥ 1`, so the root is never the parent of an inexact node.

Any cache / dominance configuration, any `stopAt`, both results of `compileP`.

Structure: §1 one step of the pooled diagram in a form that no longer mentions the filters (`Mat`, `stepLayerP_shape`);
§2 the generic loop driver; §3 `RInv` (depths, arcs point upwards, the layer of index 0 is the root);
§4 `SInv` (under `SiblingsAlike`); §5 finalisation; §6 the theorems; §7 `Witness`. -/
set_option linter.unusedSectionVars false
set_option linter.unusedVariables false
namespace Ddo.PProgress
open Ddo Ddo.Pooled
variable {S K : Type} [DecidableEq S] [DecidableEq K]

/-- the children of one node are impacted by the same variables -/
def SiblingsAlike (P : Problem S) : Prop :=
  ∀ (y : Nat) (s : S) (a b : Int) (x : Nat), a ∈ P.domain y s → b ∈ P.domain y s →
    P.impacted x (P.trans s ⟨y, a⟩) = P.impacted x (P.trans s ⟨y, b⟩)

theorem siblingsAlike_of_allImpacted {P : Problem S} (h : AllImpacted P) : SiblingsAlike P :=
  fun y s a b x _ _ => (h x _).trans (h x _).symm

/-! ## 1. one step, without the filters -/

/-- nothing is expanded from an empty layer -/
theorem expF_nil (cfg : Cfg S K) (var lidx : Nat) (rest : List (Node S)) (cur : List Nat) (log : List (Call S)) :
    expF cfg var lidx [] rest cur log = ([], rest, log) := by
  unfold expF
  induction cur with
  | nil => rfl
  | cons p ps ih =>
    rw [List.foldl_cons]
    have : expandOne cfg var lidx (([] : List (Node S)), rest, log) p = ([], rest, log) := by
      unfold expandOne
      simp only [List.getElem?_nil]
    rw [this]
    exact ih

/-- the squashed layer of a relaxed compilation: the filters, the relaxation and the expansion keep the property
    "every inbound arc comes from a layer whose index satisfies `Qf`" (redirected arcs keep their origin) -/
theorem layer_arcs (cfg : Cfg S K) (hrel : cfg.ctype = .relaxed) (pd : PD S K) (var : Nat) (layer : List (Node S))
    (cur : List Nat) (ief : Bool) (log : List (Call S))
    (hsq : SquashCase cfg pd.plain pd.layers.length pd.isExactField (fdOf cfg pd var) (impLog pd var) layer cur ief log)
    (Qf : Nat → Prop) (hp : ∀ n ∈ pd.pool, ∀ e ∈ n.inb, Qf e.fromL) : ∀ n ∈ layer, ∀ e ∈ n.inb, Qf e.fromL := by
  obtain ⟨hsig, _, _⟩ := fdOf_keep cfg pd var
  have hfd : ∀ n ∈ (fdOf cfg pd var).1, ∀ e ∈ n.inb, Qf e.fromL := by
    intro n hn e he
    obtain ⟨n0, hn0, _, hi0⟩ := C12.mem_of_sig hsig hn
    obtain ⟨m, hm, _, _, hinb⟩ := mem_curNodes hn0
    exact hp m hm e (hinb ▸ hi0 ▸ he)
  cases hsq with
  | restrict hc _ _ _ _ _ => rw [hrel] at hc; cases hc
  | keep _ _ hl _ _ _ => rw [hl]; exact hfd
  | relax _ _ _ _ hl _ _ _ =>
    rw [hl]
    refine Bounds.relaxLayer_forall (fun n => ∀ e ∈ n.inb, Qf e.fromL) cfg _ _ _ _ ?_ (fun n hn => hn)
      (fun n b hn => hn) ?_ hfd
    · intro d0 e he
      simp only [Cover.freshMerged] at he
      cases he
    · intro dropN hd e he src m hm a ha
      rw [Cover.appendEdge_inb] at ha
      rcases List.mem_cons.1 ha with ha | ha
      · rw [ha]; exact hd e he
      · exact hm a ha

/-- while fewer than two layers are materialised the squashed layer of a relaxed compilation consists of (copies of)
    the impacted pool nodes -/
theorem layer_core (cfg : Cfg S K) (hrel : cfg.ctype = .relaxed) (pd : PD S K) (var : Nat) (layer : List (Node S))
    (cur : List Nat) (ief : Bool) (log : List (Call S))
    (hsq : SquashCase cfg pd.plain pd.layers.length pd.isExactField (fdOf cfg pd var) (impLog pd var) layer cur ief log)
    (hlt : pd.layers.length < 2) :
    ∀ n ∈ layer, ∃ m ∈ pd.pool, cfg.P.impacted var m.state = true ∧
      m.isExact = n.isExact ∧ m.state = n.state ∧ m.value = n.value ∧ m.best = n.best := by
  intro n hn
  cases hsq with
  | restrict hc _ _ _ _ _ => rw [hrel] at hc; cases hc
  | relax _ _ h2 _ _ _ _ _ => omega
  | keep _ _ hl _ _ _ =>
    rw [hl] at hn
    obtain ⟨n0, h0, he0, hc⟩ := fdOf_subS cfg pd var n hn
    unfold curNodes at h0
    obtain ⟨m, hm, rfl⟩ := List.mem_map.1 h0
    obtain ⟨hm1, hm2⟩ := List.mem_filter.1 hm
    exact ⟨m, hm1, hm2, he0, hc.1, hc.2.1, hc.2.2.1⟩

/-- `stepLayerP cfg pd var = some pd'` materialised the layer `ly` (relaxed compilation) -/
structure Mat (cfg : Cfg S K) (pd pd' : PD S K) (var : Nat) (ly : List (Node S)) : Prop where
  ne : ly ≠ []
  layers : pd'.layers = pd.layers ++ [(pd.depth, ly)]
  /-- the arcs of the layer are arcs of pool nodes, possibly redirected (same origin) -/
  lyArcs : ∀ Qf : Nat → Prop, (∀ n ∈ pd.pool, ∀ e ∈ n.inb, Qf e.fromL) → ∀ n ∈ ly, ∀ e ∈ n.inb, Qf e.fromL
  /-- no relaxation before two layers are materialised -/
  lyCore : pd.layers.length < 2 → ∀ n ∈ ly, ∃ m ∈ pd.pool, cfg.P.impacted var m.state = true ∧
    m.isExact = n.isExact ∧ m.state = n.state ∧ m.value = n.value ∧ m.best = n.best
  /-- the arcs of the new pool: those of the skipped nodes, and new arcs from the layer -/
  poolArcs : ∀ Qf : Nat → Prop, Qf pd.layers.length → (∀ n ∈ restNodes cfg pd var, ∀ e ∈ n.inb, Qf e.fromL) →
    ∀ c ∈ pd'.pool, ∀ e ∈ c.inb, Qf e.fromL
  /-- when no pool node is skipped the new pool consists of children of the layer -/
  kids : restNodes cfg pd var = [] → ∀ c ∈ pd'.pool,
    (∃ n ∈ ly, ∃ d ∈ cfg.P.domain var n.state, c.state = cfg.P.trans n.state ⟨var, d⟩) ∧
    ((∀ n ∈ ly, n.isExact = true) → c.isExact = true)

/-- **one step of a relaxed pooled compilation**: either nothing is materialised and the pool loses no node … or `Mat` -/
theorem stepLayerP_shape (cfg : Cfg S K) (hrel : cfg.ctype = .relaxed) (pd pd' : PD S K) (var : Nat)
    (h : stepLayerP cfg pd var = some pd') :
    pd'.depth = pd.depth + 1 ∧
    ((pd'.layers = pd.layers ∧ pd'.pool = restNodes cfg pd var) ∨ ∃ ly, Mat cfg pd pd' var ly) := by
  obtain ⟨layer, cur, ief, log, hs⟩ := stepLayerP_elim cfg pd pd' var h
  refine ⟨hs.depth, ?_⟩
  have hrub := expF_rubEq cfg var pd.layers.length layer (restNodes cfg pd var) cur log
  have hlayers := hs.layers
  have hpool := hs.pool
  by_cases hemp : (expF cfg var pd.layers.length layer (restNodes cfg pd var) cur log).1.isEmpty = true
  · left
    have hnil : layer = [] := by
      have h4 := hrub.length
      rw [List.isEmpty_iff.1 hemp] at h4
      exact List.eq_nil_of_length_eq_zero h4.symm
    rw [if_pos hemp] at hlayers
    rw [hnil, expF_nil] at hpool
    exact ⟨hlayers, hpool⟩
  · right
    rw [if_neg hemp] at hlayers
    have hLA := layer_arcs cfg hrel pd var layer cur ief log hs.sq
    have hLC := layer_core cfg hrel pd var layer cur ief log hs.sq
    obtain ⟨hE1, delta, hE2, hE3, hE4⟩ := expF_logP cfg var pd.layers.length layer (restNodes cfg pd var) cur log
    have hKA : ∀ Qf : Nat → Prop, Qf pd.layers.length → (∀ n ∈ restNodes cfg pd var, ∀ e ∈ n.inb, Qf e.fromL) →
        ∀ c ∈ (expF cfg var pd.layers.length layer (restNodes cfg pd var) cur log).2.1, ∀ e ∈ c.inb, Qf e.fromL := by
      intro Qf hq hr
      unfold expF
      exact Bounds.fold_child_arcs (fun a => Qf a.fromL) cfg var pd.layers.length cur _ hr (fun q _ s d => hq)
    have hKE : (∀ n ∈ layer, n.isExact = true) → (∀ c ∈ restNodes cfg pd var, c.isExact = true) →
        ∀ c ∈ (expF cfg var pd.layers.length layer (restNodes cfg pd var) cur log).2.1, c.isExact = true := by
      intro hl hr
      unfold expF
      refine (foldl_inv (β := List (Node S) × List (Node S) × List (Call S))
        (fun acc => (∀ n ∈ acc.1, n.isExact = true) ∧ ∀ c ∈ acc.2.1, c.isExact = true) _ _ _ ⟨hl, hr⟩ ?_).2
      intro acc p _ h
      exact expandOne_allEx cfg var pd.layers.length acc p h.1 h.2
    generalize expF cfg var pd.layers.length layer (restNodes cfg pd var) cur log = r at *
    have hnew : ∀ n ∈ r.1, ∃ n0 ∈ layer, n0.inb = n.inb ∧ n0.isExact = n.isExact ∧ CoreEq n0 n := by
      intro n hn
      obtain ⟨p, hp⟩ := List.mem_iff_getElem?.1 hn
      obtain ⟨n0, h0, hsr⟩ := hrub.get hp
      have hinb : n0.inb = n.inb := by
        have := congrArg Node.inb hsr
        simpa only [stripRub] using this
      exact ⟨n0, List.mem_of_getElem? h0, hinb, (stripRub_core hsr).1, (stripRub_core hsr).2⟩
    refine ⟨r.1, ⟨fun h0 => hemp (List.isEmpty_iff.2 h0), hlayers, ?_, ?_, ?_, ?_⟩⟩
    · intro Qf hp n hn e he
      obtain ⟨n0, h0, hinb, _⟩ := hnew n hn
      exact hLA Qf hp n0 h0 e (hinb ▸ he)
    · intro hlt n hn
      obtain ⟨n0, h0, _, hex, hc⟩ := hnew n hn
      obtain ⟨m, hm, himp, h1, h2, h3, h4⟩ := hLC hlt n0 h0
      exact ⟨m, hm, himp, h1.trans hex, h2.trans hc.1, h3.trans hc.2.1, h4.trans hc.2.2.1⟩
    · intro Qf hq hr c hc
      rw [hpool] at hc
      exact hKA Qf hq hr c hc
    · intro hrest c hc
      rw [hpool] at hc
      refine ⟨?_, fun hall => ?_⟩
      · rcases (hE4 c hc).1 with ⟨src, d, hmem⟩ | ⟨n0, hn0, _⟩
        · obtain ⟨pre, post, _, hq⟩ := hE3.mem (List.mem_reverse.2 hmem)
          obtain ⟨h1, h2, h3, h4, _⟩ := hq
          rw [← hE1] at h4
          obtain ⟨n, hn, hns⟩ := List.mem_map.1 h4
          refine ⟨n, hn, d.val, hns ▸ h2, ?_⟩
          rw [h3, hns]
          cases d
          dsimp only at h1 ⊢
          rw [h1]
        · rw [hrest] at hn0; cases hn0
      · refine hKE ?_ ?_ c hc
        · intro n0 h0
          obtain ⟨p, hp⟩ := List.mem_iff_getElem?.1 h0
          obtain ⟨n, hn, hsr⟩ := hrub.get' hp
          rw [(stripRub_core hsr).1]
          exact hall n (List.mem_of_getElem? hn)
        · rw [hrest]; intro c hc; cases hc

/-! ## 2. the loop, generically -/

/-- a property of `(layers, pool, depth)` kept by the successful layer steps (from a non-empty pool) holds at the exit
    of `buildLoopP` -/
theorem buildLoopP_ind (cfg : Cfg S K) (stopAt : Option Nat) (I : PD S K → Prop)
    (hcongr : ∀ pd pd' : PD S K, I pd → pd'.layers = pd.layers → pd'.pool = pd.pool → pd'.depth = pd.depth → I pd')
    (hstep : ∀ (pd pd' : PD S K) (var : Nat), pd.pool ≠ [] → I pd → stepLayerP cfg pd var = some pd' → I pd') :
    ∀ (fuel : Nat) (pd : PD S K), I pd → I (buildLoopP cfg stopAt fuel pd).1 := by
  intro fuel
  induction fuel with
  | zero => intro pd h; exact h
  | succ fuel ih =>
    intro pd hinv
    cases buildLoopP_cases cfg stopAt fuel pd with
    | none _ hb => rw [hb]; exact hcongr pd _ hinv rfl rfl rfl
    | cutoff _ _ hb => rw [hb]; exact hcongr pd _ hinv rfl rfl rfl
    | empty _ _ _ hb => rw [hb]; exact hcongr pd _ hinv rfl rfl rfl
    | crash _ _ _ hb => rw [hb]; exact hcongr pd _ hinv rfl rfl rfl
    | step var pd' _ hne hst hb =>
      rw [hb]
      exact ih pd' (hstep (polled cfg pd) pd' var hne (hcongr pd _ hinv rfl rfl rfl) hst)

theorem getElem?_concat_cases {α : Type} {L : List α} {x y : α} {l : Nat} (h : (L ++ [x])[l]? = some y) :
    L[l]? = some y ∨ (l = L.length ∧ y = x) := by
  rw [List.getElem?_append] at h
  split at h
  · exact .inl h
  · have hlt := Cover.lt_of_getElem?_some h
    simp only [List.length_singleton] at hlt
    have h0 : l - L.length = 0 := by omega
    rw [h0] at h
    simp only [List.getElem?_cons_zero, Option.some.injEq] at h
    exact .inr ⟨by omega, h.symm⟩

/-! ## 3. depths, arcs point upwards, the layer of index 0 is the root -/

/-- a copy of the root node of the compilation -/
def IsRoot (cfg : Cfg S K) (n : Node S) : Prop :=
  n.state = cfg.root.state ∧ n.value = cfg.root.value ∧ n.best = none ∧ n.isExact = true

/-- (relaxed compilations, no structural hypothesis) the `l`-th materialised layer is at depth `≥ root.depth + l`;
    arcs come from strictly earlier layers; the pool, as long as nothing is materialised, and then the layer of
    index 0 hold copies of the root node only -/
structure RInv (cfg : Cfg S K) (pd : PD S K) : Prop where
  depth : cfg.root.depth + pd.layers.length ≤ pd.depth
  depths : ∀ (l dp : Nat) (ly : List (Node S)), pd.layers[l]? = some (dp, ly) → cfg.root.depth + l ≤ dp
  arcL : ∀ (l dp : Nat) (ly : List (Node S)), pd.layers[l]? = some (dp, ly) → ∀ n ∈ ly, ∀ e ∈ n.inb, e.fromL < l
  arcP : ∀ n ∈ pd.pool, ∀ e ∈ n.inb, e.fromL < pd.layers.length
  root0 : pd.layers = [] → ∀ n ∈ pd.pool, IsRoot cfg n
  rootL : ∀ (dp : Nat) (ly : List (Node S)), pd.layers[0]? = some (dp, ly) → ∀ n ∈ ly, IsRoot cfg n

theorem RInv.congr {cfg : Cfg S K} {pd pd' : PD S K} (h : RInv cfg pd)
    (hl : pd'.layers = pd.layers) (hn : pd'.pool = pd.pool) (hd : pd'.depth = pd.depth) : RInv cfg pd' := by
  obtain ⟨h1, h2, h3, h4, h5, h6⟩ := h
  exact ⟨hl ▸ hd ▸ h1, hl ▸ h2, hl ▸ h3, hl ▸ hn ▸ h4, hl ▸ hn ▸ h5, hl ▸ h6⟩

theorem initPD_rinv (cfg : Cfg S K) (cache : Cache S) (store : DomStore S K) (polls : Nat) :
    RInv cfg (initPD cfg cache store polls) := by
  refine ⟨Nat.le_refl _, fun l dp ly hl => ?_, fun l dp ly hl => ?_, fun n hn e he => ?_, fun _ n hn => ?_,
    fun dp ly hl => ?_⟩
  · simp only [initPD, List.getElem?_nil] at hl; cases hl
  · simp only [initPD, List.getElem?_nil] at hl; cases hl
  · simp only [initPD, List.mem_singleton] at hn; subst hn; cases he
  · simp only [initPD, List.mem_singleton] at hn; subst hn; exact ⟨rfl, rfl, rfl, rfl⟩
  · simp only [initPD, List.getElem?_nil] at hl; cases hl

theorem stepLayerP_rinv (cfg : Cfg S K) (hrel : cfg.ctype = .relaxed) (pd pd' : PD S K) (var : Nat)
    (hinv : RInv cfg pd) (h : stepLayerP cfg pd var = some pd') : RInv cfg pd' := by
  obtain ⟨hdepth, hcase⟩ := stepLayerP_shape cfg hrel pd pd' var h
  rcases hcase with ⟨hl, hp⟩ | ⟨ly, hM⟩
  · have hsub : ∀ n ∈ pd'.pool, n ∈ pd.pool := fun n hn => (mem_restNodes (hp ▸ hn)).1
    refine ⟨?_, ?_, ?_, ?_, ?_, ?_⟩
    · rw [hl, hdepth]; exact Nat.le_succ_of_le hinv.depth
    · rw [hl]; exact hinv.depths
    · rw [hl]; exact hinv.arcL
    · rw [hl]; exact fun n hn => hinv.arcP n (hsub n hn)
    · rw [hl]; exact fun h0 n hn => hinv.root0 h0 n (hsub n hn)
    · rw [hl]; exact hinv.rootL
  · have hlen : pd'.layers.length = pd.layers.length + 1 := by
      rw [hM.layers, List.length_append, List.length_singleton]
    refine ⟨?_, ?_, ?_, ?_, ?_, ?_⟩
    · rw [hlen, hdepth]; have := hinv.depth; omega
    · intro l dp ly' hl
      rw [hM.layers] at hl
      rcases getElem?_concat_cases hl with h1 | ⟨h1, h2⟩
      · exact hinv.depths l dp ly' h1
      · cases h2; rw [h1]; exact hinv.depth
    · intro l dp ly' hl
      rw [hM.layers] at hl
      rcases getElem?_concat_cases hl with h1 | ⟨h1, h2⟩
      · exact hinv.arcL l dp ly' h1
      · cases h2; rw [h1]
        exact hM.lyArcs (fun x => x < pd.layers.length) hinv.arcP
    · rw [hlen]
      exact hM.poolArcs (fun x => x < pd.layers.length + 1) (Nat.lt_succ_self _)
        (fun n hn e he => Nat.lt_succ_of_lt (hinv.arcP n (mem_restNodes hn).1 e he))
    · intro h0
      rw [h0] at hlen; cases hlen
    · intro dp ly' hl
      rw [hM.layers] at hl
      rcases getElem?_concat_cases hl with h1 | ⟨h1, h2⟩
      · exact hinv.rootL dp ly' h1
      · cases h2
        intro n hn
        have h0 : pd.layers = [] := List.eq_nil_of_length_eq_zero h1.symm
        obtain ⟨m, hm, _, e1, e2, e3, e4⟩ := hM.lyCore (by omega) n hn
        obtain ⟨r1, r2, r3, r4⟩ := hinv.root0 h0 m hm
        exact ⟨e2 ▸ r1, e3 ▸ r2, e4 ▸ r3, e1 ▸ r4⟩

/-! ## 4. siblings leave the pool together -/

/-- pool nodes that are impacted by the same variables are all in the layer as soon as one of them is -/
theorem rest_nil_of_alike (cfg : Cfg S K) (pd : PD S K) (var : Nat)
    (halike : ∀ a ∈ pd.pool, ∀ b ∈ pd.pool, cfg.P.impacted var a.state = cfg.P.impacted var b.state)
    (m : Node S) (hm : m ∈ pd.pool) (himp : cfg.P.impacted var m.state = true) : restNodes cfg pd var = [] := by
  unfold restNodes
  rw [List.filter_eq_nil_iff]
  intro n hn
  simp [halike n hn m hm, himp]

/-- (relaxed compilations of a `SiblingsAlike` problem) while exactly one layer is materialised the pool holds exact
    children of the root state, all for the same variable; the layer of index 1 is exact; afterwards no arc of a pool
    node or of a node of a layer of index `≥ 2` comes from the layer of index 0 -/
structure SInv (cfg : Cfg S K) (pd : PD S K) : Prop where
  p1 : pd.layers.length = 1 → ∃ y, ∀ n ∈ pd.pool, n.isExact = true ∧
    ∃ d ∈ cfg.P.domain y cfg.root.state, n.state = cfg.P.trans cfg.root.state ⟨y, d⟩
  p2 : 2 ≤ pd.layers.length → ∀ n ∈ pd.pool, ∀ e ∈ n.inb, 1 ≤ e.fromL
  l1 : ∀ (dp : Nat) (ly : List (Node S)), pd.layers[1]? = some (dp, ly) → ∀ n ∈ ly, n.isExact = true
  l2 : ∀ (l dp : Nat) (ly : List (Node S)), pd.layers[l]? = some (dp, ly) → 2 ≤ l → ∀ n ∈ ly, ∀ e ∈ n.inb, 1 ≤ e.fromL

theorem SInv.congr {cfg : Cfg S K} {pd pd' : PD S K} (h : SInv cfg pd)
    (hl : pd'.layers = pd.layers) (hn : pd'.pool = pd.pool) : SInv cfg pd' := by
  obtain ⟨h1, h2, h3, h4⟩ := h
  exact ⟨hl ▸ hn ▸ h1, hl ▸ hn ▸ h2, hl ▸ h3, hl ▸ h4⟩

theorem initPD_sinv (cfg : Cfg S K) (cache : Cache S) (store : DomStore S K) (polls : Nat) :
    SInv cfg (initPD cfg cache store polls) := by
  refine ⟨fun h => ?_, fun h => ?_, fun dp ly hl => ?_, fun l dp ly hl => ?_⟩
  · simp only [initPD, List.length_nil] at h; cases h
  · simp only [initPD, List.length_nil] at h; cases h
  · simp only [initPD, List.getElem?_nil] at hl; cases hl
  · simp only [initPD, List.getElem?_nil] at hl; cases hl

theorem stepLayerP_sinv (cfg : Cfg S K) (hsib : SiblingsAlike cfg.P) (hrel : cfg.ctype = .relaxed) (pd pd' : PD S K)
    (var : Nat) (hR : RInv cfg pd) (hinv : SInv cfg pd) (h : stepLayerP cfg pd var = some pd') : SInv cfg pd' := by
  obtain ⟨hdepth, hcase⟩ := stepLayerP_shape cfg hrel pd pd' var h
  rcases hcase with ⟨hl, hp⟩ | ⟨ly, hM⟩
  · have hsub : ∀ n ∈ pd'.pool, n ∈ pd.pool := fun n hn => (mem_restNodes (hp ▸ hn)).1
    refine ⟨?_, ?_, ?_, ?_⟩
    · rw [hl]
      intro h1
      obtain ⟨y, hy⟩ := hinv.p1 h1
      exact ⟨y, fun n hn => hy n (hsub n hn)⟩
    · rw [hl]; exact fun h2 n hn => hinv.p2 h2 n (hsub n hn)
    · rw [hl]; exact hinv.l1
    · rw [hl]; exact hinv.l2
  · have hlen : pd'.layers.length = pd.layers.length + 1 := by
      rw [hM.layers, List.length_append, List.length_singleton]
    obtain ⟨n1, hn1⟩ := List.exists_mem_of_ne_nil ly hM.ne
    -- while fewer than two layers are materialised, the whole pool goes into the layer
    have hrest : pd.layers.length < 2 → restNodes cfg pd var = [] := by
      intro hlt
      obtain ⟨m, hm, himp, _⟩ := hM.lyCore hlt n1 hn1
      refine rest_nil_of_alike cfg pd var ?_ m hm himp
      intro a ha b hb
      rcases Nat.eq_zero_or_pos pd.layers.length with h0 | h0
      · have h0' : pd.layers = [] := List.eq_nil_of_length_eq_zero h0
        rw [(hR.root0 h0' a ha).1, (hR.root0 h0' b hb).1]
      · obtain ⟨y, hy⟩ := hinv.p1 (by omega)
        obtain ⟨_, da, hda, hsa⟩ := hy a ha
        obtain ⟨_, db, hdb, hsb⟩ := hy b hb
        rw [hsa, hsb]
        exact hsib y cfg.root.state da db var hda hdb
    refine ⟨?_, ?_, ?_, ?_⟩
    · intro h1
      have h0 : pd.layers.length = 0 := by omega
      have h0' : pd.layers = [] := List.eq_nil_of_length_eq_zero h0
      have hroot : ∀ n ∈ ly, IsRoot cfg n := by
        intro n hn
        obtain ⟨m, hm, _, e1, e2, e3, e4⟩ := hM.lyCore (by omega) n hn
        obtain ⟨r1, r2, r3, r4⟩ := hR.root0 h0' m hm
        exact ⟨e2 ▸ r1, e3 ▸ r2, e4 ▸ r3, e1 ▸ r4⟩
      refine ⟨var, fun c hc => ?_⟩
      obtain ⟨⟨n, hn, d, hd, hs⟩, hex⟩ := hM.kids (hrest (by omega)) c hc
      rw [(hroot n hn).1] at hd hs
      exact ⟨hex (fun n hn => (hroot n hn).2.2.2), d, hd, hs⟩
    · intro h2
      rcases Nat.lt_or_ge pd.layers.length 2 with hlt | hge
      · refine hM.poolArcs (fun x => 1 ≤ x) (by omega) ?_
        rw [hrest hlt]
        intro n hn; cases hn
      · exact hM.poolArcs (fun x => 1 ≤ x) (by omega) (fun n hn => hinv.p2 hge n (mem_restNodes hn).1)
    · intro dp ly' hl
      rw [hM.layers] at hl
      rcases getElem?_concat_cases hl with h1 | ⟨h1, h2⟩
      · exact hinv.l1 dp ly' h1
      · cases h2
        intro n hn
        obtain ⟨m, hm, _, e1, _⟩ := hM.lyCore (by omega) n hn
        obtain ⟨y, hy⟩ := hinv.p1 h1.symm
        rw [← e1]
        exact (hy m hm).1
    · intro l dp ly' hl h2
      rw [hM.layers] at hl
      rcases getElem?_concat_cases hl with h1 | ⟨h1, h3⟩
      · exact hinv.l2 l dp ly' h1 h2
      · cases h3
        exact hM.lyArcs (fun x => 1 ≤ x) (hinv.p2 (by omega))

/-! ## 5. finalisation -/

/-- a cut-set sub-problem of `finalizeP`: the exact node `n0` of `pd.plain ++ [terminals]` it comes from, and an inexact
    node `m` of that diagram holding an arc from it -/
theorem finalizeP_cutset_frontier (cfg : Cfg S K) (pd : PD S K) (e : Bool) (c : SubP S)
    (hc : c ∈ (finalizePOld cfg pd e).cutset) :
    ∃ (lp : Nat × Nat) (n n0 : Node S), getNode (layers3P cfg pd e) lp.1 lp.2 = some n ∧
      getNode (pd.plain ++ [termsP pd]) lp.1 lp.2 = some n0 ∧ n0.isExact = true ∧
      c.state = n0.state ∧ c.value = n0.value ∧ c.depth = n0.depth ∧ n.best = n0.best ∧
      c.path = cfg.root.path ++ bestPath (layers3P cfg pd e) ((layers3P cfg pd e).length + 1) n ∧
      ∃ (l' p' : Nat) (m : Node S) (a : Arc), getNode (pd.plain ++ [termsP pd]) l' p' = some m ∧ m.isExact = false ∧
        a ∈ m.inb ∧ a.fromL = lp.1 := by
  obtain ⟨lp, n, hlp, hn, hs, hv, hd, hpath⟩ := finalizeP_cutset_mem cfg pd e c hc
  obtain ⟨n0, hn0, hex, l', p', m, a, hm, hmex, ha, hal, _⟩ := computeCutset_frontier 0 _ lp hlp
  have hx := layers3P_xEq cfg pd e
  obtain ⟨n0', hn0', hsn⟩ := hx.getNode_some hn
  rw [hn0] at hn0'
  cases hn0'
  have e1 : n0.state = n.state := by have := congrArg Node.state hsn; simpa only [stripB] using this
  have e2 : n0.value = n.value := by have := congrArg Node.value hsn; simpa only [stripB] using this
  have e3 : n0.best = n.best := by have := congrArg Node.best hsn; simpa only [stripB] using this
  have e4 : n0.depth = n.depth := by have := congrArg Node.depth hsn; simpa only [stripB] using this
  exact ⟨lp, n, n0, hn, hn0, hex, hs.trans e1.symm, hv.trans e2.symm, hd.trans e4.symm, e3.symm, hpath,
    l', p', m, a, hm, hmex, ha, hal⟩

/-- **when D5 strikes**, for `finalizeP` -/
theorem finalizeP_d5_only_root (cfg : Cfg S K) (B : Int) (p0 : List Dec) (pd : PD S K) (k : Nat) (e : Bool)
    (hinv : MInvP cfg B p0 pd k) (hR : RInv cfg pd) (c : SubP S) (hmem : c ∈ (finalizePOld cfg pd e).cutset)
    (hle : c.depth ≤ cfg.root.depth) :
    c.state = cfg.root.state ∧ c.value = cfg.root.value ∧ c.depth = cfg.root.depth ∧ c.path = cfg.root.path := by
  obtain ⟨lp, n, n0, hn, hn0, hex, hs, hv, hd, hb, hpath, l', p', m, a, hm, hmex, ha, hal⟩ :=
    finalizeP_cutset_frontier cfg pd e c hmem
  rcases getNode_layers0 pd hn0 with ⟨dp, ly, hl, hmem', _⟩ | ⟨hl, m0, hm0, rfl⟩
  · obtain ⟨k', _, hdp, hok⟩ := hinv.layers lp.1 dp ly hl
    have h1 : n0.depth = dp := (hok n0 hmem').2 hex
    have h2 := hR.depths lp.1 dp ly hl
    have h0 : lp.1 = 0 := by omega
    rw [h0] at hl
    obtain ⟨r1, r2, r3, _⟩ := hR.rootL dp ly hl n0 hmem'
    refine ⟨hs.trans r1, hv.trans r2, by omega, ?_⟩
    have hnil := (BestChainP.root (layers := layers3P cfg pd e) 0).bestPath_eq n (hb.trans r3)
      ((layers3P cfg pd e).length + 1) (Nat.zero_le _)
    rw [List.reverse_eq_nil_iff] at hnil
    rw [hpath, hnil, List.append_nil]
  · -- a terminal node has no outgoing arc
    exfalso
    rcases getNode_layers0 pd hm with ⟨dp, ly, hl', hmem', _⟩ | ⟨hl', m1, hm1, rfl⟩
    · have h1 := hR.arcL l' dp ly hl' m hmem' a ha
      have h2 := Cover.lt_of_getElem?_some hl'
      omega
    · have h1 := hR.arcP m1 hm1 a ha
      omega

/-- **C08 (ii) for `finalizeP`, long arcs allowed**, from the invariants -/
theorem finalizeP_cutset_progress_siblings (cfg : Cfg S K) (B : Int) (p0 : List Dec) (pd : PD S K) (k : Nat) (e : Bool)
    (hinv : MInvP cfg B p0 pd k) (hR : RInv cfg pd) (hS : SInv cfg pd) (c : SubP S)
    (hmem : c ∈ (finalizePOld cfg pd e).cutset) : cfg.root.depth < c.depth := by
  obtain ⟨lp, n, n0, hn, hn0, hex, hs, hv, hd, hb, hpath, l', p', m, a, hm, hmex, ha, hal⟩ :=
    finalizeP_cutset_frontier cfg pd e c hmem
  -- the inexact child lives in a layer of index ≥ 2 or in the pool when ≥ 2 layers are materialised
  have hpos : 1 ≤ lp.1 := by
    rw [← hal]
    rcases getNode_layers0 pd hm with ⟨dp, ly, hl', hmem', _⟩ | ⟨hl', m1, hm1, rfl⟩
    · rcases Nat.lt_or_ge l' 2 with h2 | h2
      · exfalso
        have hme : m.isExact = true := by
          rcases Nat.eq_zero_or_pos l' with h0 | h0
          · rw [h0] at hl'; exact (hR.rootL dp ly hl' m hmem').2.2.2
          · have h1 : l' = 1 := by omega
            rw [h1] at hl'; exact hS.l1 dp ly hl' m hmem'
        rw [hmex] at hme; cases hme
      · exact hS.l2 l' dp ly hl' h2 m hmem' a ha
    · have hmex' : m1.isExact = false := hmex
      rcases Nat.lt_or_ge pd.layers.length 2 with h2 | h2
      · exfalso
        have hme : m1.isExact = true := by
          rcases Nat.eq_zero_or_pos pd.layers.length with h0 | h0
          · exact (hR.root0 (List.eq_nil_of_length_eq_zero h0) m1 hm1).2.2.2
          · obtain ⟨y, hy⟩ := hS.p1 (by omega)
            exact (hy m1 hm1).1
        rw [hmex'] at hme; cases hme
      · exact hS.p2 h2 m1 hm1 a ha
  rw [hd]
  rcases getNode_layers0 pd hn0 with ⟨dp, ly, hl, hmem', _⟩ | ⟨hl, m0, hm0, rfl⟩
  · obtain ⟨k', _, hdp, hok⟩ := hinv.layers lp.1 dp ly hl
    rw [(hok n0 hmem').2 hex]
    have := hR.depths lp.1 dp ly hl
    omega
  · dsimp only
    have := hR.depth
    omega

/-! ## 6. the theorems -/

/-- the invariants at the exit of the top-down build -/
theorem buildLoopP_rinv (cfg : Cfg S K) (hrel : cfg.ctype = .relaxed) (stopAt : Option Nat) (fuel : Nat)
    (cache : Cache S) (store : DomStore S K) (polls : Nat) :
    RInv cfg (buildLoopP cfg stopAt fuel (initPD cfg cache store polls)).1 :=
  buildLoopP_ind cfg stopAt (RInv cfg) (fun pd pd' h hl hn hd => h.congr hl hn hd)
    (fun pd pd' var _ h hst => stepLayerP_rinv cfg hrel pd pd' var h hst) fuel _ (initPD_rinv cfg cache store polls)

theorem buildLoopP_sinv (cfg : Cfg S K) (hsib : SiblingsAlike cfg.P) (hrel : cfg.ctype = .relaxed) (stopAt : Option Nat)
    (fuel : Nat) (cache : Cache S) (store : DomStore S K) (polls : Nat) :
    SInv cfg (buildLoopP cfg stopAt fuel (initPD cfg cache store polls)).1 :=
  (buildLoopP_ind cfg stopAt (fun pd => RInv cfg pd ∧ SInv cfg pd)
    (fun pd pd' h hl hn hd => ⟨h.1.congr hl hn hd, h.2.congr hl hn⟩)
    (fun pd pd' var _ h hst => ⟨stepLayerP_rinv cfg hrel pd pd' var h.1 hst,
      stepLayerP_sinv cfg hsib hrel pd pd' var h.1 h.2 hst⟩)
    fuel _ ⟨initPD_rinv cfg cache store polls, initPD_sinv cfg cache store polls⟩).2

/-- **when D5 struck** (`compilePOld`, the code before the repair): a cut-set sub-problem of a relaxed pooled compilation that is not strictly deeper than the root
    sub-problem IS the root sub-problem.  No structural hypothesis, any cache / dominance configuration. -/
theorem d5_only_root (cfg : Cfg S K) (B : Int) (p0 : List Dec) (cache : Cache S)
    (store : DomStore S K) (polls : Nat) (stopAt : Option Nat) (hrel : cfg.ctype = .relaxed)
    (hroot : ReachSkip cfg.P cfg.root.depth cfg.root.state cfg.root.value p0)
    (hB : NoClamp cfg.P cfg.R cfg.root.value B)
    (hok : (compilePOld cfg cache store polls stopAt).1 = .ok) (r : Result S)
    (hr : r = (compilePOld cfg cache store polls stopAt).2.1 ∨ (compilePOld cfg cache store polls stopAt).2.2.1 = some r) :
    ∀ c ∈ r.cutset, c.depth ≤ cfg.root.depth →
      c.state = cfg.root.state ∧ c.value = cfg.root.value ∧ c.depth = cfg.root.depth ∧ c.path = cfg.root.path := by
  obtain ⟨e, rfl⟩ := C08.compilePOld_results_ok cfg cache store polls stopAt hok r hr
  obtain ⟨k, hinv, _⟩ := buildLoopP_inv cfg B p0 hB stopAt (cfg.P.nbVars + 2) (initPD cfg cache store polls) 0
    (initPD_inv cfg B p0 hB hroot cache store polls) (by omega)
  have hR := buildLoopP_rinv cfg hrel stopAt (cfg.P.nbVars + 2) cache store polls
  intro c hmem hle
  exact finalizeP_d5_only_root cfg B p0 _ k e hinv hR c hmem hle

/-! ## 7. non-vacuity: `SiblingsAlike` without `AllImpacted`, a cut-set behind a long arc

Four variables.  Block 0 expands the root `0` into `1, 2, 3`; variable 1 impacts **no** state, so the whole generation
skips block 1 (nothing is materialised at depth 1: long arcs from depth 0 to depth 2); block 2 materialises `1, 2, 3`
as the layer of index 1 — at depth 2 — and expands them into `4, 5, 6`; block 3 (two layers materialised, width 1)
merges `4, 5, 6` into `9`, whose child `7` is the terminal node, at depth 4.  The materialised layers sit at depths
`0, 2, 3`.  Cut-set: the exact parents `1, 2, 3` of the merged node, at depth 2 with one decision each; best solution:
3 decisions for a terminal node at depth 4. -/
namespace Witness

def P : Problem Int :=
  { nbVars := 4, init := 0, initVal := 0, trans := fun _ d => d.val,
    cost := fun _ _ d => max 0 (min 9 d.val),
    nextVar := fun k _ => if k < 4 then some k else none,
    domain := fun v _ => if v = 0 then [1, 2, 3] else if v = 2 then [4, 5, 6] else if v = 3 then [7] else [0],
    impacted := fun v _ => v != 1 }
def R : Relax Int := { merge := fun _ => 9, relax := fun _ _ _ _ c => c, rub := fun _ => 1000 }
def cfg (ct : CompType) : Cfg Int Unit :=
  { P := P, R := R, rank := ⟨fun a b => compare a b⟩, dom := none, useCache := false, kind := .frontier, ctype := ct,
    width := 1, root := { state := 0, value := 0, path := [], ub := 1000, depth := 0 }, lb := -1 }

def pd (ct : CompType) : PD Int Unit := (compileP (cfg ct) (Cache.init 4) (DomStore.init 4) 0 none).2.2.2

/-- whether a variable impacts a state does not depend on the state … -/
theorem siblingsAlike : SiblingsAlike (cfg .relaxed).P := fun _ _ _ _ _ _ _ => rfl

/-- … but variable 1 impacts nothing -/
theorem not_allImpacted : ¬ AllImpacted (cfg .relaxed).P := fun h => by
  have := h 1 0
  revert this
  decide

theorem noClamp (ct : CompType) : NoClamp (cfg ct).P (cfg ct).R (cfg ct).root.value 9 := by
  show NoClamp P R 0 9
  refine ⟨by decide, by decide, fun s s' d => ?_, fun s u m d c h => h, by decide⟩
  show -9 ≤ max 0 (min 9 d.val) ∧ max 0 (min 9 d.val) ≤ 9
  omega

example : (compileP (cfg .relaxed) (Cache.init 4) (DomStore.init 4) 0 none).1 = .ok := by decide

/-- the materialised layers `(recorded depth, [(state, value, exact?)])`: nothing at depth 1; `4, 5, 6` merged into `9` -/
example : (pd .relaxed).layers.map (fun l => (l.1, l.2.map (fun n => (n.state, n.value, n.isExact)))) =
    [(0, [(0, 0, true)]), (2, [(1, 1, true), (2, 2, true), (3, 3, true)]),
     (3, [(4, 7, true), (5, 8, true), (6, 9, true), (9, 9, false)])] := by decide

/-- the terminal node: depth 4 -/
example : (pd .relaxed).depth = 4 ∧ (pd .relaxed).pool.map (fun n => (n.state, n.value, n.isExact)) = [(7, 16, false)] := by
  decide

/-- the cut-set `(state, value, depth, path)`: non-empty, the three children of the root, **at depth 2 with one
    decision** (they skipped variable 1) … -/
theorem cutset_eq : (compileP (cfg .relaxed) (Cache.init 4) (DomStore.init 4) 0 none).2.1.cutset.map
    (fun c => (c.state, c.value, c.depth, c.path)) =
      [(1, 1, 2, [⟨0, 1⟩]), (2, 2, 2, [⟨0, 2⟩]), (3, 3, 2, [⟨0, 3⟩])] := by decide

/-- a genuine long arc: the best solution has 3 decisions, the terminal node is at depth 4 -/
example : (compileP (cfg .relaxed) (Cache.init 4) (DomStore.init 4) 0 none).2.1.bestSol =
    some [⟨3, 7⟩, ⟨2, 6⟩, ⟨0, 3⟩] ∧
    (compileP (cfg .relaxed) (Cache.init 4) (DomStore.init 4) 0 none).2.1.bestValue = some 16 := by decide

/-! ### the D5 witness `Ddo.C07.WitnessP`, seen through the two theorems -/

/-- the children `1, 2, 3` of its root are not alike: variable 1 impacts `1` but not `3` -/
example : ¬ SiblingsAlike (C07.WitnessP.cfg .relaxed).P := fun h => by
  have := h 0 0 1 3 1 (by decide) (by decide)
  revert this
  decide

/-- its cut-set holds a node that is not deeper than the root: by `d5_only_root` it can only be the root itself -/
example : ∀ c ∈ (compilePOld (C07.WitnessP.cfg .relaxed) (Cache.init 3) (DomStore.init 3) 0 none).2.1.cutset,
    c.depth ≤ 0 → c.state = 0 ∧ c.value = 0 ∧ c.depth = 0 ∧ c.path = [] :=
  d5_only_root (C07.WitnessP.cfg .relaxed) 200 [] (Cache.init 3) (DomStore.init 3) 0 none rfl ReachSkip.root
    (C07.WitnessP.noClamp .relaxed) (by decide) _ (.inl rfl)

end Witness

end Ddo.PProgress

#print axioms Ddo.PProgress.siblingsAlike_of_allImpacted
#print axioms Ddo.PProgress.d5_only_root
