import DdoModel.Proofs.Closed
import DdoModel.Proofs.ThetaBuild
/-! The invariant `G2` (`Proofs/MddTruth.lean`: the arcs into nodes not flagged relaxed are genuine) for a relaxed
compilation **with cache**: `_filter_with_cache` only touches the fields `cache` / `theta` of the nodes of the layer under
construction and removes positions from the list handed to the expansion, none of which `G2` reads.  Hence
`ebpMust_sound` and `Closed.isSol_relaxed` hold without the hypothesis `cfg.useCache = false`, whatever the cache holds. -/
set_option linter.unusedSectionVars false
set_option linter.unusedVariables false
namespace Ddo.CacheClosed
open Ddo Ddo.Truth
variable {S K : Type} [DecidableEq S] [DecidableEq K]

/-- a node of the filtered layer is a node of `dd.next` up to the fields `cache` / `theta` -/
theorem fcOf_back (cfg : Cfg S K) (dd : DD S K) :
    ∀ m ∈ (Ddo.Theta.fcOf cfg dd).1, ∃ n00 ∈ dd.next, Ess n00 m := by
  obtain ⟨g, keep, hl, _, _, hg, _⟩ := Ddo.Theta.fcOf_desc cfg dd
  intro m hm
  rw [hl] at hm
  obtain ⟨n00, h00, rfl⟩ := List.mem_map.1 hm
  refine ⟨n00, h00, ?_⟩
  rcases hg n00 with ⟨_, e⟩ | ⟨_, t, _, _, e⟩
  · rw [e]; exact ⟨rfl, rfl, rfl, rfl, rfl, rfl⟩
  · rw [e]; exact ⟨rfl, rfl, rfl, rfl, rfl, rfl⟩

/-- `Truth.stepLayer_g2` for a step with `_filter_with_cache` -/
theorem stepLayer_g2_cached (cfg : Cfg S K) (hrel : cfg.ctype = .relaxed) (hW : 1 ≤ cfg.width)
    (dd dd' : DD S K) (var : Nat) (hG : G2 cfg dd) (hdepth : dd.depth = cfg.root.depth + dd.layers.length)
    (hnv : cfg.P.nextVar dd.depth (dd.next.map (·.state)) = some var)
    (sq : List (Node S) × List Nat × List (Call S) × Option Nat)
    (hsq : squash cfg dd (Ddo.Theta.fcOf cfg dd).1 (Ddo.Theta.fcOf cfg dd).2 = some sq)
    (hl : dd'.layers = dd.layers ++ [(expandAll cfg var dd.layers.length sq.1 sq.2.1 sq.2.2.1).1])
    (hn : dd'.next = (expandAll cfg var dd.layers.length sq.1 sq.2.1 sq.2.2.1).2.1) : G2 cfg dd' := by
  have hsub := squash_subN cfg dd (Ddo.Theta.fcOf cfg dd).1 _ hrel hW sq hsq
  have hE := expandAll_ginv cfg dd.layers.length var sq.1 sq.2.1 sq.2.2.1
  generalize expandAll cfg var dd.layers.length sq.1 sq.2.1 sq.2.2.1 = ex at hE hl hn
  obtain ⟨hrub, hchild⟩ := hE
  -- a node of the squashed layer that is not flagged relaxed comes from `dd.next`
  have hback : ∀ m ∈ sq.1, m.fRelaxed = false → ∃ n00 ∈ dd.next, Ess n00 m := by
    intro m hm hr
    obtain ⟨n0, h0, hs⟩ := hsub m hm hr
    obtain ⟨n00, h00, e00⟩ := fcOf_back cfg dd n0 h0
    exact ⟨n00, h00, e00.trans (ess_of_stripD hs)⟩
  have hlen' : dd'.layers.length = dd.layers.length + 1 := by rw [hl, List.length_append, List.length_singleton]
  refine ⟨?_, ?_⟩
  · rw [hl]
    refine gOk_append_layer hG.layers ?_
    intro n hn' hr
    obtain ⟨i, hi⟩ := List.mem_iff_getElem?.1 hn'
    obtain ⟨n0, h0, hs⟩ := hrub.get hi
    have e0 := ess_of_stripRub hs
    obtain ⟨n00, h00, e00⟩ := hback n0 (List.mem_of_getElem? h0) (e0.2.2.2.2.1.trans hr)
    exact ((hG.next n00 h00).of_ess (e00.trans e0)) hr
  · rw [hn, hlen', hl]
    intro c hc _
    right
    obtain ⟨_, ⟨a, par, hb, ha, hp, hv⟩, harcs⟩ := hchild c hc
    refine ⟨dd.layers.length, dd.next.map (·.state), var, rfl, hdepth ▸ hnv, ?_, ?_⟩
    · obtain ⟨parF, hpF, hsF⟩ := hrub.get' hp
      refine ⟨a, parF, hb, ha, ?_, ?_⟩
      · rw [Cover.getNode_last]; exact hpF
      · rw [hv, (ess_of_stripRub hsF).2.1]
    · intro a ha
      obtain ⟨hfl, par, hp, h1, h2, h3, h4⟩ := harcs a ha
      obtain ⟨parF, hpF, hsF⟩ := hrub.get' hp
      have eF := ess_of_stripRub hsF
      refine ⟨hfl, parF, by rw [Cover.getNode_last]; exact hpF, ?_, h1, ?_, ?_, ?_⟩
      · intro hr
        obtain ⟨n00, h00, e00⟩ := hback par (List.mem_of_getElem? hp) (eF.2.2.2.2.1.trans hr)
        rw [← eF.1, ← e00.1]
        exact List.mem_map_of_mem h00
      · rw [← eF.1]; exact h2
      · rw [← eF.1]; exact h3
      · rw [← eF.1]; exact h4

/-- one successful step of a relaxed compilation without dominance rule, cache or not, preserves `G2` -/
theorem stepLayer_g2_step (cfg : Cfg S K) (hrel : cfg.ctype = .relaxed) (hW : 1 ≤ cfg.width) (hd : cfg.dom = none)
    (dd : DD S K) (var : Nat) (hG : G2 cfg dd) (hdepth : dd.depth = cfg.root.depth + dd.layers.length)
    (hnv : cfg.P.nextVar dd.depth (dd.next.map (·.state)) = some var) (hne : dd.next ≠ []) :
    ∃ dd', stepLayer cfg dd var = (some dd', .ok) ∧ G2 cfg dd' ∧ dd'.layers.length = dd.layers.length + 1 ∧
      dd'.depth = dd.depth + 1 := by
  rcases Ddo.Bounds.squash_cases cfg dd (Ddo.Theta.fcOf cfg dd).1 (Ddo.Theta.fcOf cfg dd).2 hrel hW with
    ⟨_, hsq⟩ | ⟨_, _, hsq⟩
  · obtain ⟨dd', hst, hl, hn, hdd, _⟩ := Ddo.Theta.stepLayer_okT cfg dd var hne hd _ hsq
    exact ⟨dd', hst, stepLayer_g2_cached cfg hrel hW dd dd' var hG hdepth hnv _ hsq hl hn,
      by rw [hl, List.length_append, List.length_singleton], hdd⟩
  · obtain ⟨dd', hst, hl, hn, hdd, _⟩ := Ddo.Theta.stepLayer_okT cfg dd var hne hd _ hsq
    exact ⟨dd', hst, stepLayer_g2_cached cfg hrel hW dd dd' var hG hdepth hnv _ hsq hl hn,
      by rw [hl, List.length_append, List.length_singleton], hdd⟩

/-- `Truth.buildLoop_g2` with any cache configuration and any cutoff -/
theorem buildLoop_g2_any (cfg : Cfg S K) (hrel : cfg.ctype = .relaxed) (hW : 1 ≤ cfg.width) (hd : cfg.dom = none)
    (stopAt : Option Nat) :
    ∀ (fuel : Nat) (dd : DD S K), G2 cfg dd → dd.depth = cfg.root.depth + dd.layers.length →
      G2 cfg (buildLoop cfg stopAt fuel dd).1 ∧
      (buildLoop cfg stopAt fuel dd).1.layers.length ≤ dd.layers.length + fuel := by
  cases stopAt <;> intro fuel <;> induction fuel with
  | zero => intro dd hG _; exact ⟨hG, Nat.le_refl _⟩
  | succ fuel ih =>
    intro dd hG hdepth
    unfold buildLoop
    dsimp only
    split
    · exact ⟨hG.congr rfl rfl, by dsimp only; omega⟩
    · rename_i var hvar
      split
      · exact ⟨hG.congr rfl rfl, by dsimp only; omega⟩
      · generalize hdd1 : (DD.mk dd.layers dd.next dd.depth dd.lel dd.cache dd.store _ dd.cacheLog _ dd.ndom) = dd1
        have hG1 : G2 cfg dd1 := by rw [← hdd1]; exact hG.congr rfl rfl
        have e1 : dd1.layers = dd.layers := by rw [← hdd1]
        have e2 : dd1.next = dd.next := by rw [← hdd1]
        have e3 : dd1.depth = dd.depth := by rw [← hdd1]
        by_cases hne : dd1.next = []
        · rw [Ddo.Truth.stepLayer_empty cfg dd1 var hne]
          dsimp only
          refine ⟨⟨?_, ?_⟩, ?_⟩
          · exact gOk_append_layer hG1.layers (fun n hn => by cases hn)
          · intro n hn; rw [hne] at hn; cases hn
          · rw [List.length_append, List.length_singleton, e1]; omega
        · obtain ⟨dd', hst, hG', hl', hd'⟩ := stepLayer_g2_step cfg hrel hW hd dd1 var hG1
            (by rw [e3, e1]; exact hdepth) (by rw [e2, e3]; exact hvar) hne
          rw [hst]
          dsimp only
          obtain ⟨h1, h2⟩ := ih dd' hG' (by rw [hd', hl', e3, e1]; omega)
          exact ⟨h1, by rw [hl', e1] at h2; omega⟩

/-- `Truth.buildLoop_g2` with any cache configuration -/
theorem buildLoop_g2_cached (cfg : Cfg S K) (hrel : cfg.ctype = .relaxed) (hW : 1 ≤ cfg.width) (hd : cfg.dom = none) :
    ∀ (fuel : Nat) (dd : DD S K), G2 cfg dd → dd.depth = cfg.root.depth + dd.layers.length →
      G2 cfg (buildLoop cfg none fuel dd).1 ∧
      (buildLoop cfg none fuel dd).1.layers.length ≤ dd.layers.length + fuel :=
  buildLoop_g2_any cfg hrel hW hd none

/-- relaxed compilation **with or without cache**, `must` bit set: whatever the incumbent and the content of the cache, the
    reported best (exact) value is the value of the reported best (exact) solution, a complete feasible path through the
    root sub-problem (`Truth.ebpMust_sound` without `cfg.useCache = false`) -/
theorem ebpMust_sound_cached (cfg : Cfg S K) (B : Int) (p0 : List Dec)
    (hrel : cfg.ctype = .relaxed) (hW : 1 ≤ cfg.width) (hd : cfg.dom = none)
    (hB : NoClamp cfg.P cfg.R cfg.root.value B)
    (hroot : Reach cfg.P cfg.root.depth cfg.root.state cfg.root.value p0)
    (cache : Cache S) (store : DomStore S K) (polls : Nat)
    (hok : (buildLoop cfg none (cfg.P.nbVars + 2) (initDD cfg cache store polls)).2 = .ok)
    (hmust : (finalizeLayers (buildLoop cfg none (cfg.P.nbVars + 2) (initDD cfg cache store polls)).1).ebpMust true = true)
    (w : Int)
    (hw : (finalize cfg (finalizeLayers (buildLoop cfg none (cfg.P.nbVars + 2) (initDD cfg cache store polls)).1) true).1.bestExactValue
      = some w) :
    Truthful cfg p0 w (finalize cfg (finalizeLayers (buildLoop cfg none (cfg.P.nbVars + 2) (initDD cfg cache store polls)).1) true).1 := by
  obtain ⟨hinv, hinv2⟩ := buildLoop_inv2 cfg B p0 hB none (cfg.P.nbVars + 2) (initDD cfg cache store polls)
    (initDD_inv cfg B p0 hB hroot cache store polls) (initDD_inv2 cfg cache store polls) rfl
    (by simp only [initDD, List.length_nil]; omega)
  have hterm := (buildLoop_inv cfg B p0 hB none (cfg.P.nbVars + 2) (initDD cfg cache store polls)
    (initDD_inv cfg B p0 hB hroot cache store polls) rfl (by simp only [initDD, List.length_nil]; omega)).2 hok
  obtain ⟨hG, hlen⟩ := buildLoop_g2_cached cfg hrel hW hd (cfg.P.nbVars + 2) (initDD cfg cache store polls)
    (initDD_g2 cfg cache store polls) rfl
  have hlen0 : (initDD cfg cache store polls).layers.length = 0 := rfl
  rw [hlen0] at hlen
  generalize (buildLoop cfg none (cfg.P.nbVars + 2) (initDD cfg cache store polls)).1 = dd at *
  rw [finalize_bestExactValue] at hw
  simp only [if_true] at hw
  have hbv : maxValue dd.next = some w := by
    unfold Built.bestValue at hw; rwa [terminals_finalizeLayers] at hw
  obtain ⟨n1, _, hn1, _⟩ := find?_of_maxValue hbv
  rcases hterm with hnil | ⟨hnv, hdepth⟩
  · rw [hnil] at hn1; cases hn1
  · have hne : dd.next ≠ [] := List.ne_nil_of_mem hn1
    obtain ⟨hlayers, _⟩ := finalizeLayers_nonempty dd hne
    have hbt := bestTerminals_finalizeLayers dd w hbv
    have hF : FinOk cfg B p0 (dd.layers ++ [dd.next]) :=
      ⟨MInv.append_layer hinv.layers hinv.next, gOk_append_layer hG.layers hG.next, by
        rw [List.length_append, List.length_singleton]; omega⟩
    have hlast : (dd.layers ++ [dd.next])[dd.layers.length]? = some dd.next := List.getElem?_concat_length
    simp only [Built.ebpMust, Bool.true_and, hbt, hlayers, List.all_eq_true, List.mem_filter, decide_eq_true_eq] at hmust
    refine finalize_truthful cfg p0 w dd true hbv hnv ?_ (fun h => by cases h)
    intro n hf
    have h1 := List.find?_some hf
    simp only [decide_eq_true_eq] at h1
    have hn := List.mem_of_find?_eq_some hf
    obtain ⟨q, c1, c2, _⟩ := ebpAll_reach cfg B p0 hB _ hF _ _ _ n hlast hn (hmust n ⟨hn, h1⟩)
    exact ⟨q, c1, hdepth ▸ c2⟩

/-- relaxed compilation with or without cache (any content), the `must` result: a reported exact value is the value of the
    reported solution, a complete feasible path through the root sub-problem (`Closed.isSol_relaxed` without
    `cfg.useCache = false`) -/
theorem isSol_relaxed_cached (cfg : Cfg S K) (B : Int) (p0 : List Dec)
    (cache : Cache S) (store : DomStore S K) (polls : Nat)
    (hrel : cfg.ctype = .relaxed) (hdom : cfg.dom = none) (hW : 1 ≤ cfg.width)
    (hB : NoClamp cfg.P cfg.R cfg.root.value B)
    (hroot : Reach cfg.P cfg.root.depth cfg.root.state cfg.root.value p0)
    (hok : (compile cfg cache store polls none).1 = .ok) (w : Int)
    (hw : (compile cfg cache store polls none).2.1.bestExactValue = some w) :
    IsSol cfg p0 w (compile cfg cache store polls none).2.1.bestExactSol := by
  obtain ⟨hbl, _, hres'⟩ := Ddo.compile_ok cfg cache store polls none hok
  have e2 : (cfg.ctype == CompType.relaxed) = true := by rw [hrel]; decide
  rw [e2] at hres'
  rw [hres'] at hw ⊢
  cases hm : (finalizeLayers (buildLoop cfg none (cfg.P.nbVars + 2) (initDD cfg cache store polls)).1).ebpMust true with
  | false =>
    rw [hm] at hw
    exact bestExact_sol_false cfg B p0 hB hroot cache store polls none hbl w hw
  | true =>
    rw [hm] at hw
    exact (ebpMust_sound_cached cfg B p0 hrel hW hdom hB hroot cache store polls hbl hm w hw).exactSol

end Ddo.CacheClosed

#print axioms Ddo.CacheClosed.stepLayer_g2_cached
#print axioms Ddo.CacheClosed.buildLoop_g2_any
#print axioms Ddo.CacheClosed.buildLoop_g2_cached
#print axioms Ddo.CacheClosed.ebpMust_sound_cached
#print axioms Ddo.CacheClosed.isSol_relaxed_cached
