import DdoModel.Proofs.MddExact
/-! Cut-sets of the clean diagram model (property C08, clauses (i) and (ii)): helper lemmas.

* `XEq` — position-wise equality of diagrams up to the fields the bottom-up passes write (`vbot`, `theta`,
  `marked`, `cutset`, `above`); `computeCutset_xEq`, `computeLocalBounds_xEq`, `computeThresholds_xEq`,
  `finalize_layers_xEq`.
* `Inv2` — second invariant of the top-down build: every inbound arc of a node of layer `l` comes from
  layer `l - 1`; while `dd.lel` is unset every node is exact; once set to `k`, `k < dd.layers.length`, the
  nodes of the layers `≤ k` are exact and (relaxed compilations) `1 ≤ k`.
* `CutWF` — what these invariants say of the finalized layers; `computeCutset_lel` / `computeCutset_frontier` — what the positions of the
  cut-set are; `finalize_cutset_sound` — the sub-problems handed out. -/
set_option linter.unusedSectionVars false
namespace Ddo
variable {S K : Type} [DecidableEq S] [DecidableEq K]

/-! ## diagrams up to the fields written by the bottom-up passes -/

/-- a node without the fields the bottom-up passes write -/
def stripB (n : Node S) : Node S := { n with vbot := 0, theta := none, marked := false, cutset := false, above := false }

/-- position-wise equality up to `vbot`, `theta`, `marked`, `cutset`, `above` -/
def XEq (ls ls' : List (List (Node S))) : Prop := ls.map (List.map stripB) = ls'.map (List.map stripB)

theorem XEq.refl (ls : List (List (Node S))) : XEq ls ls := rfl
theorem XEq.trans {a b c : List (List (Node S))} (h1 : XEq a b) (h2 : XEq b c) : XEq a c := Eq.trans h1 h2

theorem XEq.set_layer {ls ls0 : List (List (Node S))} (h : XEq ls ls0) (l : Nat) (ly' : List (Node S))
    (hl : ∀ ly, ls[l]? = some ly → ly'.map stripB = ly.map stripB) : XEq (ls.set l ly') ls0 := by
  unfold XEq at *
  rw [List.map_set, ← h]
  cases hls : ls[l]? with
  | none =>
    have : ls.length ≤ l := by
      rcases Nat.lt_or_ge l ls.length with h' | h'
      · rw [List.getElem?_eq_getElem h'] at hls; cases hls
      · exact h'
    exact List.set_eq_of_length_le (by rw [List.length_map]; exact this)
  | some ly =>
    rw [hl ly hls]
    exact List.set_self' (by rw [List.getElem?_map, hls]; rfl)

theorem XEq.set_map {ls ls0 : List (List (Node S))} (h : XEq ls ls0) (l : Nat) (f : Node S → Node S)
    (hf : ∀ n, stripB (f n) = stripB n) : XEq (ls.set l ((ls[l]?.getD []).map f)) ls0 := by
  refine h.set_layer l _ (fun ly hly => ?_)
  rw [hly, Option.getD_some, List.map_map]
  exact List.map_congr_left (fun n _ => hf n)

theorem XEq.modNode {ls ls0 : List (List (Node S))} (h : XEq ls ls0) (l p : Nat) (f : Node S → Node S)
    (hf : ∀ n, getNode ls l p = some n → stripB (f n) = stripB n) : XEq (Ddo.modNode ls l p f) ls0 := by
  unfold Ddo.modNode
  split
  · exact h
  · rename_i ly hly
    split
    · exact h
    · rename_i n hn
      refine h.set_layer l _ (fun ly' hly' => ?_)
      rw [hly] at hly'
      cases hly'
      rw [List.map_set, hf n (by unfold getNode; rw [hly]; exact hn)]
      exact List.set_self' (by rw [List.getElem?_map, hn]; rfl)

theorem XEq.length {ls ls0 : List (List (Node S))} (h : XEq ls ls0) : ls.length = ls0.length := by
  have := congrArg List.length h
  simpa using this

theorem XEq.layer {ls ls0 : List (List (Node S))} (h : XEq ls ls0) (l : Nat) :
    (ls[l]?.getD []).map stripB = (ls0[l]?.getD []).map stripB := by
  have := congrArg (fun x => (x[l]?).getD []) h
  simp only [List.getElem?_map] at this
  cases h1 : ls[l]? <;> cases h2 : ls0[l]? <;> simp only [h1, h2, Option.map_none, Option.map_some, Option.getD_none,
    Option.getD_some, List.map_nil] at this ⊢ <;> exact this

theorem XEq.getNode {ls ls0 : List (List (Node S))} (h : XEq ls ls0) (l p : Nat) :
    (Ddo.getNode ls l p).map stripB = (Ddo.getNode ls0 l p).map stripB := by
  have h1 : ∀ (xs : List (List (Node S))), (Ddo.getNode xs l p).map stripB = ((xs[l]?.getD []).map stripB)[p]? := by
    intro xs
    unfold Ddo.getNode
    cases xs[l]? with
    | none => rfl
    | some ly => simp only [Option.getD_some, List.getElem?_map]
  rw [h1, h1, h.layer l]

theorem computeCutset_xEq (kind : CutsetKind) (lel : Nat) (layers : List (List (Node S))) :
    XEq (computeCutset kind lel layers).1 layers := by
  unfold computeCutset
  cases kind with
  | lel =>
    dsimp only
    refine foldl_inv (β := List (List (Node S))) (fun ls => XEq ls layers) _ _ _ (XEq.refl _) ?_
    intro ls l _ h
    split
    · exact h.set_map l _ (fun _ => rfl)
    · split
      · exact h.set_map l _ (fun _ => rfl)
      · exact h
  | frontier =>
    dsimp only
    refine foldl_inv (β := List (List (Node S)) × List (Nat × Nat)) (fun acc => XEq acc.1 layers) _ _ _ (XEq.refl _) ?_
    rintro ⟨ls, cs⟩ l _ h
    dsimp only at h ⊢
    refine foldl_inv (β := List (List (Node S)) × List (Nat × Nat)) (fun acc => XEq acc.1 layers) _ _ _ h ?_
    rintro ⟨ls, cs⟩ p _ h
    dsimp only at h ⊢
    split
    · exact h
    · rename_i n _
      split
      · exact h.modNode l p _ (fun _ _ => rfl)
      · refine foldl_inv (β := List (List (Node S)) × List (Nat × Nat)) (fun acc => XEq acc.1 layers) _ _ _ h ?_
        rintro ⟨ls, cs⟩ e _ h
        dsimp only at h ⊢
        split
        · split
          · exact h.modNode _ _ _ (fun _ _ => rfl)
          · exact h
        · exact h

theorem computeThresholds_xEq (kind : CutsetKind) (isExactField : Bool) (lb : Int) (bestExact : Option Int)
    (termL : Option Nat) (layers : List (List (Node S))) :
    XEq (computeThresholds kind isExactField lb bestExact termL layers).1 layers := by
  unfold computeThresholds
  extract_lets bk layers0
  have h0 : XEq layers0 layers := by
    show XEq (match bestExact, termL with | some _, some tl => _ | _, _ => _) layers
    split
    · refine (XEq.refl _).set_map _ _ (fun n => ?_)
      split <;> rfl
    · exact XEq.refl _
  clear_value layers0
  refine foldl_inv (β := List (List (Node S)) × List (S × Nat × Int × Bool)) (fun acc => XEq acc.1 layers) _ _ _ h0 ?_
  rintro ⟨ls, ups⟩ l _ h
  dsimp only at h ⊢
  refine foldl_inv (β := List (List (Node S)) × List (S × Nat × Int × Bool)) (fun acc => XEq acc.1 layers) _ _ _ h ?_
  rintro ⟨ls, ups⟩ p _ h
  dsimp -zeta only at h ⊢
  split
  · exact h
  · rename_i n hn
    split
    · exact h
    · generalize heq : (ite ((!n.cache) = true) _ _ : Node S × List (S × Nat × Int × Bool)) = r
      obtain ⟨n1, ups1⟩ := r
      have hkey : stripB n1 = stripB n := by
        have e : Prod.fst _ = n1 := congrArg Prod.fst heq
        rw [← e]
        split
        · dsimp only
          repeat' split
          all_goals rfl
        · rfl
      clear heq
      dsimp -zeta only
      have h1 : XEq (modNode ls l p (fun _ => n1)) layers :=
        h.modNode l p _ (fun m hm => by rw [hn] at hm; cases hm; exact hkey)
      split
      · dsimp only
        refine foldl_inv (β := List (List (Node S))) (fun acc => XEq acc layers) _ _ _ h1 ?_
        intro ls2 e _ h2
        exact h2.modNode _ _ _ (fun _ _ => rfl)
      · exact h1

theorem computeLocalBounds_xEq (layers : List (List (Node S))) : XEq (computeLocalBounds layers) layers := by
  unfold computeLocalBounds
  extract_lets last layers0
  have h0 : XEq layers0 layers := (XEq.refl _).set_map _ _ (fun _ => rfl)
  clear_value layers0
  refine foldl_inv (β := List (List (Node S))) (fun acc => XEq acc layers) _ _ _ h0 ?_
  intro ls l _ h
  refine foldl_inv (β := List (List (Node S))) (fun acc => XEq acc layers) _ _ _ h ?_
  intro ls p _ h
  split
  · exact h
  · split
    · refine foldl_inv (β := List (List (Node S))) (fun acc => XEq acc layers) _ _ _ h ?_
      intro ls e _ h
      exact h.modNode _ _ _ (fun _ _ => rfl)
    · exact h

theorem finalize_layers_xEq (cfg : Cfg S K) (b : Built S K) (e : Bool) : XEq (finalize cfg b e).2 b.layers := by
  unfold finalize
  extract_lets relaxed terms bestValue exactTerms bestExactValue doCut
  have h1 : XEq (if doCut = true then computeCutset cfg.kind b.lel b.layers else (b.layers, [])).1 b.layers := by
    split
    · exact computeCutset_xEq _ _ _
    · exact XEq.refl _
  generalize (if doCut = true then computeCutset cfg.kind b.lel b.layers else (b.layers, [])) = r1 at h1 ⊢
  obtain ⟨layers1, cs⟩ := r1
  dsimp only at h1 ⊢
  have h2 : XEq (if (decide (b.lel < b.layers.length) && relaxed) = true then computeLocalBounds layers1 else layers1) b.layers := by
    split
    · exact (computeLocalBounds_xEq _).trans h1
    · exact h1
  generalize (if (decide (b.lel < b.layers.length) && relaxed) = true then computeLocalBounds layers1 else layers1) = layers2 at h2 ⊢
  split
  · exact (computeThresholds_xEq _ _ _ _ _ _).trans h2
  · exact h2

/-! ## the positions of the cut-set -/

theorem XEq.getNode_some {ls ls0 : List (List (Node S))} (h : XEq ls ls0) {l p : Nat} {n : Node S}
    (hn : Ddo.getNode ls l p = some n) : ∃ n0, Ddo.getNode ls0 l p = some n0 ∧ stripB n0 = stripB n := by
  have := h.getNode l p
  rw [hn] at this
  cases h0 : Ddo.getNode ls0 l p with
  | none => rw [h0] at this; cases this
  | some n0 =>
    rw [h0] at this
    simp only [Option.map_some, Option.some.injEq] at this
    exact ⟨n0, rfl, this.symm⟩

theorem XEq.symm {a b : List (List (Node S))} (h : XEq a b) : XEq b a := Eq.symm h

theorem stripB_isExact {a b : Node S} (h : stripB a = stripB b) : a.isExact = b.isExact := by
  have h5 := congrArg Node.fExact h
  have h6 := congrArg Node.fRelaxed h
  simp only [stripB] at h5 h6
  simp only [Node.isExact, h5, h6]

theorem stripB_inb {a b : Node S} (h : stripB a = stripB b) : a.inb = b.inb := by
  have := congrArg Node.inb h
  simpa only [stripB] using this

/-- `lp` is the position of an exact node that is the source of an inbound arc of an inexact node -/
def FrontierOk (layers : List (List (Node S))) (lp : Nat × Nat) : Prop :=
  ∃ n0, getNode layers lp.1 lp.2 = some n0 ∧ n0.isExact = true ∧
    ∃ (l' p' : Nat) (m : Node S) (e : Arc), getNode layers l' p' = some m ∧ m.isExact = false ∧
      e ∈ m.inb ∧ e.fromL = lp.1 ∧ e.fromP = lp.2

theorem computeCutset_frontier (lel : Nat) (layers : List (List (Node S))) :
    ∀ lp ∈ (computeCutset .frontier lel layers).2, FrontierOk layers lp := by
  unfold computeCutset
  dsimp only
  refine (foldl_inv (β := List (List (Node S)) × List (Nat × Nat))
    (fun acc => XEq acc.1 layers ∧ ∀ lp ∈ acc.2, FrontierOk layers lp) _ _ _ ⟨XEq.refl _, ?_⟩ ?_).2
  · intro lp h; cases h
  rintro ⟨ls, cs⟩ l _ h
  dsimp only at h ⊢
  refine foldl_inv (β := List (List (Node S)) × List (Nat × Nat))
    (fun acc => XEq acc.1 layers ∧ ∀ lp ∈ acc.2, FrontierOk layers lp) _ _ _ h ?_
  rintro ⟨ls, cs⟩ p _ h
  dsimp only at h ⊢
  split
  · exact h
  · rename_i n hn
    split
    · exact ⟨h.1.modNode l p _ (fun _ _ => rfl), h.2⟩
    · rename_i hnex
      obtain ⟨m, hm, hsm⟩ := h.1.getNode_some hn
      have hmex : m.isExact = false := by rw [stripB_isExact hsm]; simpa using hnex
      refine foldl_inv (β := List (List (Node S)) × List (Nat × Nat))
        (fun acc => XEq acc.1 layers ∧ ∀ lp ∈ acc.2, FrontierOk layers lp) _ _ _ h ?_
      rintro ⟨ls, cs⟩ e he h
      dsimp only at h ⊢
      split
      · rename_i par hpar
        split
        · rename_i hcond
          refine ⟨h.1.modNode _ _ _ (fun _ _ => rfl), fun lp hlp => ?_⟩
          rcases List.mem_append.1 hlp with hlp | hlp
          · exact h.2 lp hlp
          · rw [List.mem_singleton] at hlp
            subst hlp
            obtain ⟨par0, hpar0, hsp⟩ := h.1.getNode_some hpar
            simp only [Bool.and_eq_true] at hcond
            exact ⟨par0, hpar0, by rw [stripB_isExact hsp]; exact hcond.1,
              l, p, m, e, hm, hmex, by rw [stripB_inb hsm]; exact he, rfl, rfl⟩
        · exact h
      · exact h

theorem getNode_of_lt {layers : List (List (Node S))} {l p : Nat} (hp : p < (layers[l]?.getD []).length) :
    ∃ n, getNode layers l p = some n := by
  unfold getNode
  cases h : layers[l]? with
  | none => rw [h] at hp; simp at hp
  | some ly =>
    rw [h] at hp
    simp only [Option.getD_some] at hp
    exact ⟨ly[p], List.getElem?_eq_getElem hp⟩

theorem computeCutset_lel (lel : Nat) (layers : List (List (Node S))) :
    ∀ lp ∈ (computeCutset .lel lel layers).2, lp.1 = lel ∧ lel < layers.length ∧ ∃ n, getNode layers lp.1 lp.2 = some n := by
  unfold computeCutset
  dsimp only
  intro lp hlp
  split at hlp
  · rename_i hlt
    obtain ⟨p, hp, rfl⟩ := List.mem_map.1 hlp
    exact ⟨rfl, hlt, getNode_of_lt (List.mem_range.1 hp)⟩
  · cases hlp

/-! ## the sub-problems handed out -/

theorem finalize_cutset (cfg : Cfg S K) (b : Built S K) (e : Bool) :
    (finalize cfg b e).1.cutset =
      match b.bestValue with
      | none => []
      | some bv =>
        (if ((cfg.ctype == .relaxed) || b.isExactField) = true then computeCutset cfg.kind b.lel b.layers
          else (b.layers, [])).2.filterMap (fun (lp : Nat × Nat) =>
          match getNode (finalize cfg b e).2 lp.1 lp.2 with
          | some n => if n.marked then
              some { state := n.state, value := n.value,
                     path := cfg.root.path ++ bestPath (finalize cfg b e).2 ((finalize cfg b e).2.length + 1) n,
                     ub := min (min (satAdd n.value n.rub) (satAdd n.value n.vbot)) bv, depth := n.depth }
            else none
          | none => none) := rfl

/-- every sub-problem of the cut-set comes from a position computed by `computeCutset`; the node found
    there in the final layers gives its state, value, depth and path -/
theorem finalize_cutset_mem (cfg : Cfg S K) (b : Built S K) (e : Bool) (c : SubP S)
    (hc : c ∈ (finalize cfg b e).1.cutset) :
    ∃ (lp : Nat × Nat) (n : Node S), lp ∈ (computeCutset cfg.kind b.lel b.layers).2 ∧
      getNode (finalize cfg b e).2 lp.1 lp.2 = some n ∧
      c.state = n.state ∧ c.value = n.value ∧ c.depth = n.depth ∧
      c.path = cfg.root.path ++ bestPath (finalize cfg b e).2 ((finalize cfg b e).2.length + 1) n := by
  rw [finalize_cutset] at hc
  split at hc
  · cases hc
  · obtain ⟨lp, hlp, hsome⟩ := List.mem_filterMap.1 hc
    have hlp' : lp ∈ (computeCutset cfg.kind b.lel b.layers).2 := by
      split at hlp
      · exact hlp
      · cases hlp
    split at hsome
    · rename_i n hn
      split at hsome
      · simp only [Option.some.injEq] at hsome
        subst hsome
        exact ⟨lp, n, hlp', hn, rfl, rfl, rfl, rfl⟩
      · cases hsome
    · cases hsome

theorem BestChain.of_xEq {ls ls' : List (List (Node S))} {l : Nat} {b : Option Arc} {q : List Dec}
    (h : BestChain ls l b q) (hk : XEq ls' ls) : BestChain ls' l b q := by
  induction h with
  | root => exact .root
  | step l a p q hl hg _ ih =>
    obtain ⟨p', hp', hs⟩ := hk.symm.getNode_some hg
    have hb : p'.best = p.best := by
      have := congrArg Node.best hs
      simpa only [stripB] using this
    exact .step l a p' q hl hp' (hb ▸ ih)

theorem getNode_lt {layers : List (List (Node S))} {l p : Nat} {n : Node S} (h : getNode layers l p = some n) :
    l < layers.length := by
  unfold getNode at h
  rcases Nat.lt_or_ge l layers.length with h' | h'
  · exact h'
  · rw [List.getElem?_eq_none h'] at h; cases h

/-- what the invariants of the top-down build say of the finalized layers `LS` (`lel` = `Built.lel`) -/
structure CutWF (cfg : Cfg S K) (p0 : List Dec) (LS : List (List (Node S))) (lel : Nat) : Prop where
  node : ∀ (l p : Nat) (n : Node S), getNode LS l p = some n → n.isExact = true →
    ∃ q, BestChain LS l n.best q ∧ Reach cfg.P n.depth n.state n.value (p0 ++ q) ∧ n.depth = cfg.root.depth + l
  arcs : ∀ (l p : Nat) (n : Node S), getNode LS l p = some n → ∀ e ∈ n.inb, e.fromL + 1 = l
  exactUpTo : ∀ (l p : Nat) (n : Node S), getNode LS l p = some n → l ≤ lel → n.isExact = true
  lelPos : cfg.ctype = .relaxed → lel < LS.length → 1 ≤ lel

/-- the positions of the cut-set are exact nodes, of a layer of index `≥ 1` in a relaxed compilation -/
theorem CutWF.cutset_pos {cfg : Cfg S K} {p0 : List Dec} {LS : List (List (Node S))} {lel : Nat}
    (h : CutWF cfg p0 LS lel) (lp : Nat × Nat) (hlp : lp ∈ (computeCutset cfg.kind lel LS).2) :
    ∃ n0, getNode LS lp.1 lp.2 = some n0 ∧ n0.isExact = true ∧ (cfg.ctype = .relaxed → 1 ≤ lp.1) := by
  cases hk : cfg.kind with
  | lel =>
    rw [hk] at hlp
    obtain ⟨h1, h2, n, hn⟩ := computeCutset_lel lel LS lp hlp
    exact ⟨n, hn, h.exactUpTo _ _ n hn (by omega), fun hr => by have := h.lelPos hr h2; omega⟩
  | frontier =>
    rw [hk] at hlp
    obtain ⟨n0, hn0, hex, l', p', m, e, hm, hmex, he, hl, _⟩ := computeCutset_frontier lel LS lp hlp
    refine ⟨n0, hn0, hex, fun hr => ?_⟩
    have harc := h.arcs l' p' m hm e he
    have hlt := getNode_lt hm
    have hl' : lel < l' := by
      rcases Nat.lt_or_ge lel l' with h' | h'
      · exact h'
      · have := h.exactUpTo l' p' m hm h'; rw [hmex] at this; cases this
    have := h.lelPos hr (by omega)
    omega

/-- **C08 (i) + (ii)** for `finalize`, any `hasEBP` bit -/
theorem finalize_cutset_sound (cfg : Cfg S K) (p0 : List Dec) (b : Built S K) (e : Bool)
    (hwf : CutWF cfg p0 b.layers b.lel) (c : SubP S) (hc : c ∈ (finalize cfg b e).1.cutset) :
    (∃ q, Reach cfg.P c.depth c.state c.value (p0 ++ q) ∧ c.path = cfg.root.path ++ q.reverse) ∧
    (cfg.ctype = .relaxed → cfg.root.depth < c.depth) := by
  obtain ⟨lp, n, hlp, hn, hs, hv, hd, hpath⟩ := finalize_cutset_mem cfg b e c hc
  obtain ⟨n0, hn0, hex, hpos⟩ := hwf.cutset_pos lp hlp
  have hx := finalize_layers_xEq cfg b e
  obtain ⟨n0', hn0', hsn⟩ := hx.getNode_some hn
  rw [hn0] at hn0'
  cases hn0'
  obtain ⟨q, hq, hreach, hdepth⟩ := hwf.node _ _ n0 hn0 hex
  have e1 : n0.state = n.state := by have := congrArg Node.state hsn; simpa only [stripB] using this
  have e2 : n0.value = n.value := by have := congrArg Node.value hsn; simpa only [stripB] using this
  have e3 : n0.best = n.best := by have := congrArg Node.best hsn; simpa only [stripB] using this
  have e4 : n0.depth = n.depth := by have := congrArg Node.depth hsn; simpa only [stripB] using this
  refine ⟨⟨q, ?_, ?_⟩, fun hr => ?_⟩
  · rw [hs, hv, hd, ← e1, ← e2, ← e4]; exact hreach
  · have hchain : BestChain (finalize cfg b e).2 lp.1 n.best q := e3 ▸ hq.of_xEq hx
    have := hchain.bestPath_eq n rfl ((finalize cfg b e).2.length + 1) (by
      have := getNode_lt hn; omega)
    rw [hpath, ← this, List.reverse_reverse]
  · have := hpos hr
    rw [hd, ← e4, hdepth]; omega

/-! ## second invariant of the top-down build: arcs and the last exact layer -/

/-- every inbound arc of `n` (a node of layer `l`) comes from layer `l - 1` -/
def ArcOk (l : Nat) (n : Node S) : Prop := ∀ e ∈ n.inb, e.fromL + 1 = l

theorem forall_mem_set {α : Type} {Q : α → Prop} {ly : List α} (h : ∀ n ∈ ly, Q n) (p : Nat) {n' : α} (hn' : Q n') :
    ∀ n ∈ ly.set p n', Q n := fun n hn => by
  rcases List.mem_or_eq_of_mem_set hn with hn | rfl
  · exact h n hn
  · exact hn'

theorem filterCache_arcs (cfg : Cfg S K) (cache : Cache S) (layer : List (Node S)) (cur : List Nat) (l : Nat)
    (h : ∀ n ∈ layer, ArcOk l n) : ∀ n ∈ (filterCache cfg cache layer cur).1, ArcOk l n := by
  unfold filterCache
  refine foldl_inv (β := List (Node S) × List Nat) (fun acc => ∀ n ∈ acc.1, ArcOk l n) _ _ _ h ?_
  rintro ⟨ly, keep⟩ p _ h
  dsimp only at h ⊢
  split
  · exact h
  · rename_i n hn
    split
    · split
      · exact h
      · exact forall_mem_set h p (h n (List.mem_of_getElem? hn))
    · exact h

theorem filterDom_arcs (cfg : Cfg S K) (store : DomStore S K) (layer : List (Node S)) (cur : List Nat) (l : Nat)
    (h : ∀ n ∈ layer, ArcOk l n) : ∀ n ∈ (filterDom cfg store layer cur).1, ArcOk l n := by
  unfold filterDom
  split
  · exact h
  · rename_i D _
    refine foldl_inv (β := List (Node S) × List Nat × DomStore S K × Bool) (fun acc => ∀ n ∈ acc.1, ArcOk l n) _ _ _ h ?_
    rintro ⟨ly, keep, st, ok⟩ p _ h
    dsimp only at h ⊢
    split
    · exact h
    · rename_i n hn
      split
      · split
        · exact h
        · split
          · exact forall_mem_set h p (h n (List.mem_of_getElem? hn))
          · exact h
      · exact h

theorem restrictLayer_arcs (cfg : Cfg S K) (layer : List (Node S)) (cur : List Nat) (l : Nat)
    (h : ∀ n ∈ layer, ArcOk l n) : ∀ n ∈ (restrictLayer cfg layer cur).1, ArcOk l n := by
  unfold restrictLayer
  dsimp only
  refine foldl_inv (β := List (Node S)) (fun acc => ∀ n ∈ acc, ArcOk l n) _ _ _ h ?_
  intro ly p _ h
  split
  · rename_i n hn
    exact forall_mem_set h p (h n (List.mem_of_getElem? hn))
  · exact h

theorem appendEdge_inb (p c : Node S) (a : Arc) : (appendEdge p c a).inb = a :: c.inb := by
  unfold appendEdge; dsimp only; split <;> rfl

/-- the redirection loop of `relaxLayer` preserves `∀ n ∈ ly, ArcOk l n` -/
local macro "relax_fold_arcs" h2:term : tactic => `(tactic| (
    refine foldl_inv (β := List (Node S) × List (Call S)) (fun acc => ∀ n ∈ acc.1, ArcOk _ n) _ _ _ $h2 ?_
    rintro ⟨ly, lg⟩ p _ h
    dsimp only at h ⊢
    split
    · exact h
    · rename_i dropN hd
      have hdrop := h dropN (List.mem_of_getElem? hd)
      refine foldl_inv (β := List (Node S) × List (Call S)) (fun acc => ∀ n ∈ acc.1, ArcOk _ n) _ _ _
        (forall_mem_set h p hdrop) ?_
      rintro ⟨ly2, lg2⟩ e he h2
      dsimp only at h2 ⊢
      split
      · rename_i src m _ hm
        refine forall_mem_set h2 _ ?_
        intro a ha
        rw [appendEdge_inb] at ha
        rcases List.mem_cons.1 ha with ha | ha
        · rw [ha]; exact hdrop e he
        · exact h2 m (List.mem_of_getElem? hm) a ha
      · exact h2))

theorem relaxLayer_arcs (cfg : Cfg S K) (layers : List (List (Node S))) (layer : List (Node S)) (cur : List Nat)
    (log : List (Call S)) (l : Nat) (h : ∀ n ∈ layer, ArcOk l n) :
    ∀ n ∈ (relaxLayer cfg layers layer cur log).1, ArcOk l n := by
  unfold relaxLayer
  extract_lets sorted keep rest restStates merged log' recycled depth0 cur'
  clear_value recycled depth0 merged log' cur' keep rest
  have hA : ∀ (layer1 : List (Node S)) (mpos : Nat), (∀ n ∈ layer1, ArcOk l n) →
      ∀ n ∈ (match layer1[mpos]? with
        | some n => layer1.set mpos { n with fRelaxed := true }
        | none => layer1), ArcOk l n := by
    intro layer1 mpos h1
    split
    · rename_i n hn
      exact forall_mem_set h1 mpos (h1 n (List.mem_of_getElem? hn))
    · exact h1
  cases recycled with
  | some p =>
    dsimp only
    generalize hr : List.foldl _ _ rest = r
    have h3 : ∀ n ∈ r.1, ArcOk l n := by
      rw [← hr]
      relax_fold_arcs (hA layer p h)
    split
    · split
      · rename_i n hn
        exact forall_mem_set h3 _ (h3 n (List.mem_of_getElem? hn))
      · exact h3
    · exact h3
  | none =>
    dsimp only
    relax_fold_arcs (hA _ layer.length (by
      intro n hn
      rcases List.mem_append.1 hn with hn | hn
      · exact h n hn
      · rw [List.mem_singleton] at hn; subst hn; intro e he; cases he))

theorem expandOne_arcs (cfg : Cfg S K) (var lidx : Nat) (acc : List (Node S) × List (Node S) × List (Call S)) (p : Nat)
    (h : ∀ c ∈ acc.2.1, ArcOk (lidx + 1) c) : ∀ c ∈ (expandOne cfg var lidx acc p).2.1, ArcOk (lidx + 1) c := by
  obtain ⟨ly, nx, lg⟩ := acc
  unfold expandOne
  dsimp only at h ⊢
  split
  · exact h
  · rename_i n hn
    split
    · refine foldl_inv (β := List (Node S) × List (Call S)) (fun acc => ∀ c ∈ acc.1, ArcOk (lidx + 1) c) _ _ _ h ?_
      rintro ⟨nx', lg'⟩ d _ ih
      dsimp only at ih ⊢
      intro c hc
      rcases branchOn_mem cfg _ lidx p ⟨var, d⟩ nx' c hc with hc | ⟨m, hm, _, hceq⟩
      · exact ih c hc
      · rw [hceq]
        intro a ha
        rw [appendEdge_inb] at ha
        rcases List.mem_cons.1 ha with ha | ha
        · rw [ha]
        · rcases hm with hm | hm
          · exact ih m hm a ha
          · rw [hm] at ha; simp only [freshNode] at ha; cases ha
    · exact h

theorem expandAll_arcs (cfg : Cfg S K) (var lidx : Nat) (layer : List (Node S)) (cur : List Nat) (log : List (Call S)) :
    ∀ c ∈ (expandAll cfg var lidx layer cur log).2.1, ArcOk (lidx + 1) c := by
  unfold expandAll
  refine foldl_inv (β := List (Node S) × List (Node S) × List (Call S)) (fun acc => ∀ c ∈ acc.2.1, ArcOk (lidx + 1) c)
    _ _ _ ?_ ?_
  · intro c hc; cases hc
  · intro acc p _ h
    exact expandOne_arcs cfg var lidx acc p h

/-- what `squash` does to `lel` and to the arcs -/
theorem squash_lel (cfg : Cfg S K) (dd : DD S K) (layer : List (Node S)) (cur : List Nat)
    (l : List (Node S)) (c : List Nat) (lg : List (Call S)) (lel : Option Nat)
    (h : squash cfg dd layer cur = some (l, c, lg, lel)) :
    (lel = none → l = layer ∧ dd.lel = none) ∧
    (∀ k, lel = some k → dd.lel = some k ∨
      (dd.lel = none ∧ k + 1 = dd.layers.length ∧ (cfg.ctype = .relaxed → 2 ≤ dd.layers.length))) ∧
    (∀ lidx, (∀ n ∈ layer, ArcOk lidx n) → ∀ n ∈ l, ArcOk lidx n) := by
  unfold squash at h
  dsimp only at h
  split at h
  · cases h
  · split at h
    · cases h
    · rename_i hnotempty
      split at h
      · rename_i hres
        simp only [Option.some.injEq, Prod.mk.injEq] at h
        obtain ⟨rfl, _, _, rfl⟩ := h
        simp only [hres, Bool.true_and, Bool.true_or] at hnotempty ⊢
        have hne : 1 ≤ dd.layers.length := by
          cases hl : dd.layers with
          | nil => rw [hl] at hnotempty; simp at hnotempty
          | cons _ _ => simp
        have hres' : cfg.ctype = .restricted := by
          simp only [Bool.and_eq_true, beq_iff_eq] at hres; exact hres.1
        refine ⟨?_, ?_, fun lidx => restrictLayer_arcs cfg layer cur lidx⟩
        · intro hnone
          split at hnone
          · cases hnone
          · rename_i hn; simp only [Bool.not_eq_true, Option.isNone_eq_false_iff, Option.isSome_iff_exists] at hn
            obtain ⟨k, hk⟩ := hn; rw [hk] at hnone; cases hnone
        · intro k hk
          split at hk
          · rename_i hn
            simp only [Option.isNone_iff_eq_none] at hn
            simp only [Option.some.injEq] at hk
            exact .inr ⟨hn, by omega, fun hr => by rw [hr] at hres'; cases hres'⟩
          · exact .inl hk
      · rename_i hnres
        split at h
        · rename_i hrel
          simp only [Option.some.injEq, Prod.mk.injEq] at h
          obtain ⟨rfl, _, _, rfl⟩ := h
          simp only [hrel, Bool.or_true, Bool.true_and] at ⊢
          simp only [Bool.and_eq_true, beq_iff_eq, decide_eq_true_eq] at hrel
          refine ⟨?_, ?_, fun lidx => relaxLayer_arcs cfg dd.layers layer cur dd.log lidx⟩
          · intro hnone
            split at hnone
            · cases hnone
            · rename_i hn; simp only [Bool.not_eq_true, Option.isNone_eq_false_iff, Option.isSome_iff_exists] at hn
              obtain ⟨k, hk⟩ := hn; rw [hk] at hnone; cases hnone
          · intro k hk
            split at hk
            · rename_i hn
              simp only [Option.isNone_iff_eq_none] at hn
              simp only [Option.some.injEq] at hk
              exact .inr ⟨hn, by omega, fun _ => by omega⟩
            · exact .inl hk
        · rename_i hnrel
          simp only [Option.some.injEq, Prod.mk.injEq] at h
          obtain ⟨rfl, _, _, rfl⟩ := h
          simp only [hnres, hnrel, Bool.or_self, Bool.false_and, Bool.false_eq_true, if_false]
          exact ⟨fun hn => ⟨True.intro, hn⟩, fun k hk => .inl hk, fun _ h => h⟩

theorem getElem?_append_singleton_cases {α : Type} {layers : List α} {lyF ly : α} {l : Nat}
    (hl : (layers ++ [lyF])[l]? = some ly) : layers[l]? = some ly ∨ (l = layers.length ∧ ly = lyF) := by
  rw [List.getElem?_append] at hl
  split at hl
  · exact .inl hl
  · rename_i hge
    have hlt : l - layers.length < 1 := by
      rcases Nat.lt_or_ge (l - layers.length) 1 with h' | h'
      · exact h'
      · rw [List.getElem?_eq_none (by simpa using h')] at hl; cases hl
    have : l = layers.length := by omega
    subst this
    simp only [Nat.sub_self, List.getElem?_cons_zero, Option.some.injEq] at hl
    exact .inr ⟨rfl, hl.symm⟩

theorem getElem?_lt_of_some {α : Type} {xs : List α} {l : Nat} {x : α} (h : xs[l]? = some x) : l < xs.length := by
  rcases Nat.lt_or_ge l xs.length with h' | h'
  · exact h'
  · rw [List.getElem?_eq_none h'] at h; cases h

/-- the second invariant of the top-down build (see the header) -/
structure Inv2 (cfg : Cfg S K) (dd : DD S K) : Prop where
  arcsL : ∀ (l : Nat) (ly : List (Node S)), dd.layers[l]? = some ly → ∀ n ∈ ly, ArcOk l n
  arcsN : ∀ n ∈ dd.next, ArcOk dd.layers.length n
  lelNone : dd.lel = none → (∀ ly ∈ dd.layers, ∀ n ∈ ly, n.isExact = true) ∧ ∀ n ∈ dd.next, n.isExact = true
  lelSome : ∀ k, dd.lel = some k → k < dd.layers.length ∧ (cfg.ctype = .relaxed → 1 ≤ k) ∧
    ∀ (l : Nat) (ly : List (Node S)), l ≤ k → dd.layers[l]? = some ly → ∀ n ∈ ly, n.isExact = true

theorem Inv2.congr {cfg : Cfg S K} {dd dd' : DD S K} (h : Inv2 cfg dd)
    (hl : dd'.layers = dd.layers) (hn : dd'.next = dd.next) (hlel : dd'.lel = dd.lel) : Inv2 cfg dd' := by
  obtain ⟨h1, h2, h3, h4⟩ := h
  exact ⟨hl ▸ h1, hl ▸ hn ▸ h2, hl ▸ hn ▸ hlel ▸ h3, hl ▸ hlel ▸ h4⟩

theorem initDD_inv2 (cfg : Cfg S K) (cache : Cache S) (store : DomStore S K) (polls : Nat) :
    Inv2 cfg (initDD cfg cache store polls) := by
  refine ⟨?_, ?_, ?_, ?_⟩
  · intro l ly hl
    simp only [initDD, List.getElem?_nil] at hl
    cases hl
  · intro n hn
    simp only [initDD, List.mem_singleton] at hn
    subst hn
    intro e he; cases he
  · intro _
    refine ⟨(fun ly hly => by simp only [initDD] at hly; cases hly), fun n hn => ?_⟩
    simp only [initDD, List.mem_singleton] at hn
    subst hn
    rfl
  · intro k hk
    simp only [initDD] at hk
    cases hk

theorem stepLayer_inv2 (cfg : Cfg S K) (B : Int) (p0 : List Dec) (hB : NoClamp cfg.P cfg.R cfg.root.value B)
    (dd : DD S K) (var : Nat) (hinv : MInv cfg B p0 dd) (hinv2 : Inv2 cfg dd)
    (hdepth : dd.depth = cfg.root.depth + dd.layers.length)
    (hnv : cfg.P.nextVar dd.depth (dd.next.map (·.state)) = some var)
    (hlen : dd.layers.length ≤ cfg.P.nbVars + 1) (dd' : DD S K) (oc : Outcome)
    (h : stepLayer cfg dd var = (some dd', oc)) : Inv2 cfg dd' := by
  unfold stepLayer at h
  split at h
  · rename_i hempty
    simp only [Prod.mk.injEq, Option.some.injEq] at h
    obtain ⟨rfl, rfl⟩ := h
    have hnil : dd.next = [] := List.isEmpty_iff.1 hempty
    refine ⟨?_, ?_, ?_, ?_⟩
    · intro l ly hl
      dsimp only at hl
      rcases getElem?_append_singleton_cases hl with hl | ⟨_, rfl⟩
      · exact hinv2.arcsL l ly hl
      · intro n hn; cases hn
    · dsimp only; rw [hnil]; intro n hn; cases hn
    · dsimp only
      intro hnone
      refine ⟨fun ly hly n hn => ?_, (hinv2.lelNone hnone).2⟩
      rcases List.mem_append.1 hly with hly | hly
      · exact (hinv2.lelNone hnone).1 ly hly n hn
      · rw [List.mem_singleton] at hly; subst hly; cases hn
    · dsimp only
      intro k hk
      obtain ⟨h1, h2, h3⟩ := hinv2.lelSome k hk
      refine ⟨by rw [List.length_append]; omega, h2, fun l ly hlk hl n hn => ?_⟩
      rcases getElem?_append_singleton_cases hl with hl | ⟨_, rfl⟩
      · exact h3 l ly hlk hl n hn
      · cases hn
  · have hfc : SubS (if dd.layers.isEmpty = true then (dd.next, List.range dd.next.length)
        else filterCache cfg dd.cache dd.next (List.range dd.next.length)).1 dd.next := by
      split
      · exact SubS.refl _
      · exact filterCache_subS _ _ _ _
    have hfcA : ∀ n ∈ (if dd.layers.isEmpty = true then (dd.next, List.range dd.next.length)
        else filterCache cfg dd.cache dd.next (List.range dd.next.length)).1, ArcOk dd.layers.length n := by
      split
      · exact hinv2.arcsN
      · exact filterCache_arcs _ _ _ _ _ hinv2.arcsN
    dsimp only at h
    generalize (if dd.layers.isEmpty = true then (dd.next, List.range dd.next.length)
        else filterCache cfg dd.cache dd.next (List.range dd.next.length)) = fc at h hfc hfcA
    have hfd := filterDom_subS cfg dd.store fc.1 fc.2
    have hfdA := filterDom_arcs cfg dd.store fc.1 fc.2 _ hfcA
    generalize filterDom cfg dd.store fc.1 fc.2 = fd at h hfd hfdA
    split at h
    · cases h
    · split at h
      · cases h
      · rename_i lsq csq lgsq lel hsq
        simp only [Prod.mk.injEq, Option.some.injEq] at h
        obtain ⟨rfl, rfl⟩ := h
        obtain ⟨hsub, _⟩ := squash_sub cfg dd fd.1 fd.2.1 lsq csq lgsq lel hsq
        obtain ⟨hlelN, hlelS, hsqA⟩ := squash_lel cfg dd fd.1 fd.2.1 lsq csq lgsq lel hsq
        have hsub0 : SubE lsq dd.next := hsub.trans (hfd.trans hfc).toSub
        have hpar0 : ∀ n ∈ dd.next, ParOk cfg B p0 dd.layers (dd.next.map (·.state)) n := fun n hn =>
          ⟨hinv.next n hn, fun _ => List.mem_map.2 ⟨n, hn, rfl⟩⟩
        have hpar : ∀ n ∈ lsq, ParOk cfg B p0 dd.layers (dd.next.map (·.state)) n := ParOk.of_sub hsub0 hpar0
        have hE := expandAll_inv cfg B p0 hB dd.layers hlen lsq (dd.next.map (·.state)) var (hdepth ▸ hnv) hpar csq lgsq
        have hEA := expandAll_arcs cfg var dd.layers.length lsq csq lgsq
        generalize expandAll cfg var dd.layers.length lsq csq lgsq = ex at hE hEA
        obtain ⟨hrub, _, hallEx⟩ := hE
        have hlsqA : ∀ n ∈ lsq, ArcOk dd.layers.length n := hsqA _ hfdA
        -- the appended layer
        have hFA : ∀ n ∈ ex.1, ArcOk dd.layers.length n := by
          intro n hn
          obtain ⟨i, hi⟩ := List.mem_iff_getElem?.1 hn
          obtain ⟨n0, h0, hs⟩ := hrub.get hi
          have : n0.inb = n.inb := by have := congrArg Node.inb hs; simpa only [stripRub] using this
          intro e he
          exact hlsqA n0 (List.mem_of_getElem? h0) e (this ▸ he)
        have hFE : (∀ n ∈ lsq, n.isExact = true) → ∀ n ∈ ex.1, n.isExact = true := by
          intro hall n hn
          obtain ⟨n0, h0, he0, _⟩ := hrub.subS n hn
          rw [← he0]; exact hall n0 h0
        refine ⟨?_, ?_, ?_, ?_⟩
        · intro l ly hl
          dsimp only at hl
          rcases getElem?_append_singleton_cases hl with hl | ⟨rfl, rfl⟩
          · exact hinv2.arcsL l ly hl
          · exact hFA
        · dsimp only
          rw [List.length_append, List.length_singleton]
          exact hEA
        · dsimp only
          intro hnone
          obtain ⟨rfl, hdn⟩ := hlelN hnone
          obtain ⟨hLs, hNx⟩ := hinv2.lelNone hdn
          have hall : ∀ n ∈ fd.1, n.isExact = true := by
            intro n hn
            obtain ⟨n0, h0, he0, _⟩ := (hfd.trans hfc) n hn
            rw [← he0]; exact hNx n0 h0
          refine ⟨fun ly hly n hn => ?_, hallEx hall⟩
          rcases List.mem_append.1 hly with hly | hly
          · exact hLs ly hly n hn
          · rw [List.mem_singleton] at hly; subst hly; exact hFE hall n hn
        · dsimp only
          intro k hk
          rw [List.length_append, List.length_singleton]
          rcases hlelS k hk with hold | ⟨hdn, hkL, hrel⟩
          · obtain ⟨h1, h2, h3⟩ := hinv2.lelSome k hold
            refine ⟨by omega, h2, fun l ly hlk hl n hn => ?_⟩
            rcases getElem?_append_singleton_cases hl with hl | ⟨rfl, _⟩
            · exact h3 l ly hlk hl n hn
            · omega
          · obtain ⟨hLs, _⟩ := hinv2.lelNone hdn
            refine ⟨by omega, fun hr => by have := hrel hr; omega, fun l ly hlk hl n hn => ?_⟩
            rcases getElem?_append_singleton_cases hl with hl | ⟨rfl, _⟩
            · exact hLs ly (List.mem_of_getElem? hl) n hn
            · omega

theorem buildLoop_inv2 (cfg : Cfg S K) (B : Int) (p0 : List Dec) (hB : NoClamp cfg.P cfg.R cfg.root.value B)
    (stopAt : Option Nat) :
    ∀ (fuel : Nat) (dd : DD S K), MInv cfg B p0 dd → Inv2 cfg dd → dd.depth = cfg.root.depth + dd.layers.length →
      dd.layers.length + fuel ≤ cfg.P.nbVars + 2 →
      MInv cfg B p0 (buildLoop cfg stopAt fuel dd).1 ∧ Inv2 cfg (buildLoop cfg stopAt fuel dd).1 := by
  cases stopAt <;> intro fuel <;> induction fuel with
  | zero =>
    intro dd hinv hinv2 _ _
    exact ⟨hinv, hinv2⟩
  | succ fuel ih =>
    intro dd hinv hinv2 hdepth hfuel
    unfold buildLoop
    dsimp only
    split
    · exact ⟨hinv.congr rfl rfl, hinv2.congr rfl rfl rfl⟩
    · rename_i var hvar
      split
      · exact ⟨hinv.congr rfl rfl, hinv2.congr rfl rfl rfl⟩
      · have hstep := stepLayer_inv cfg B p0 hB
          { dd with log := Call.nextVar dd.depth (dd.next.map (·.state)) (some var) :: dd.log, polls := dd.polls + 1 }
          var (hinv.congr rfl rfl) hdepth hvar (by dsimp only; omega)
        have hstep2 := stepLayer_inv2 cfg B p0 hB
          { dd with log := Call.nextVar dd.depth (dd.next.map (·.state)) (some var) :: dd.log, polls := dd.polls + 1 }
          var (hinv.congr rfl rfl) (hinv2.congr rfl rfl rfl) hdepth hvar (by dsimp only; omega)
        rw [hvar]
        split
        · exact ⟨hinv.congr rfl rfl, hinv2.congr rfl rfl rfl⟩
        · rename_i dd' heq
          exact ⟨(hstep dd' _ heq).1, hstep2 dd' _ heq⟩
        · rename_i dd' heq
          exact ⟨(hstep dd' _ heq).1, hstep2 dd' _ heq⟩
        · rename_i dd' heq
          obtain ⟨h1, h2, _⟩ := hstep dd' _ heq
          obtain ⟨h2a, h2b⟩ := h2 rfl
          exact ih dd' h1 (hstep2 dd' _ heq) h2a (by rw [h2b]; dsimp only; omega)

/-- nodes of layer `l` of the diagram under construction (`dd.next` = layer `dd.layers.length`) -/
def AtLayer (dd : DD S K) (l : Nat) (n : Node S) : Prop :=
  (∃ ly, dd.layers[l]? = some ly ∧ n ∈ ly) ∨ (l = dd.layers.length ∧ n ∈ dd.next)

theorem finalizeLayers_at (dd : DD S K) {l p : Nat} {n : Node S}
    (h : getNode (finalizeLayers dd).layers l p = some n) : AtLayer dd l n := by
  by_cases hne : dd.next = []
  · have : (finalizeLayers dd).layers = dd.layers := by
      unfold finalizeLayers; simp only [hne, List.isEmpty_nil, if_true]
    rw [this] at h
    unfold getNode at h
    split at h
    · cases h
    · rename_i ly hly
      exact .inl ⟨ly, hly, List.mem_of_getElem? h⟩
  · rw [(finalizeLayers_nonempty dd hne).1] at h
    unfold getNode at h
    split at h
    · cases h
    · rename_i ly hly
      rcases getElem?_append_singleton_cases hly with hly | ⟨rfl, rfl⟩
      · exact .inl ⟨ly, hly, List.mem_of_getElem? h⟩
      · exact .inr ⟨rfl, List.mem_of_getElem? h⟩

theorem finalizeLayers_chain (dd : DD S K) {l : Nat} {b : Option Arc} {q : List Dec}
    (h : BestChain dd.layers l b q) : BestChain (finalizeLayers dd).layers l b q := by
  by_cases hne : dd.next = []
  · have : (finalizeLayers dd).layers = dd.layers := by
      unfold finalizeLayers; simp only [hne, List.isEmpty_nil, if_true]
    rw [this]; exact h
  · rw [(finalizeLayers_nonempty dd hne).1]; exact h.mono _

theorem finalizeLayers_length (dd : DD S K) : dd.layers.length ≤ (finalizeLayers dd).layers.length := by
  by_cases hne : dd.next = []
  · have : (finalizeLayers dd).layers = dd.layers := by
      unfold finalizeLayers; simp only [hne, List.isEmpty_nil, if_true]
    rw [this]; exact Nat.le_refl _
  · rw [(finalizeLayers_nonempty dd hne).1, List.length_append]; omega

theorem finalizeLayers_lel (dd : DD S K) : (finalizeLayers dd).lel = dd.lel.getD (finalizeLayers dd).layers.length := by
  unfold finalizeLayers
  split <;> rfl

theorem finalizeLayers_wf (cfg : Cfg S K) (B : Int) (p0 : List Dec) (dd : DD S K)
    (hinv : MInv cfg B p0 dd) (hinv2 : Inv2 cfg dd) :
    CutWF cfg p0 (finalizeLayers dd).layers (finalizeLayers dd).lel := by
  refine ⟨?_, ?_, ?_, ?_⟩
  · intro l p n hn hex
    rcases finalizeLayers_at dd hn with ⟨ly, hly, hmem⟩ | ⟨rfl, hmem⟩
    · obtain ⟨q, h1, h2, h3, _⟩ := hinv.layers l ly hly n hmem hex
      exact ⟨q, finalizeLayers_chain dd h1, h2, h3⟩
    · obtain ⟨q, h1, h2, h3, _⟩ := hinv.next n hmem hex
      exact ⟨q, finalizeLayers_chain dd h1, h2, h3⟩
  · intro l p n hn
    rcases finalizeLayers_at dd hn with ⟨ly, hly, hmem⟩ | ⟨rfl, hmem⟩
    · exact hinv2.arcsL l ly hly n hmem
    · exact hinv2.arcsN n hmem
  · intro l p n hn hle
    rw [finalizeLayers_lel] at hle
    cases hlel : dd.lel with
    | none =>
      obtain ⟨h1, h2⟩ := hinv2.lelNone hlel
      rcases finalizeLayers_at dd hn with ⟨ly, hly, hmem⟩ | ⟨_, hmem⟩
      · exact h1 ly (List.mem_of_getElem? hly) n hmem
      · exact h2 n hmem
    | some k =>
      rw [hlel, Option.getD_some] at hle
      obtain ⟨h1, _, h3⟩ := hinv2.lelSome k hlel
      rcases finalizeLayers_at dd hn with ⟨ly, hly, hmem⟩ | ⟨rfl, _⟩
      · exact h3 l ly hle hly n hmem
      · omega
  · intro hr hlt
    rw [finalizeLayers_lel] at hlt ⊢
    cases hlel : dd.lel with
    | none => rw [hlel, Option.getD_none] at hlt; omega
    | some k =>
      rw [Option.getD_some]
      exact (hinv2.lelSome k hlel).2.1 hr

/-! ## `compile` -/

/-- both results of a compilation that ends normally are `finalize` of the built diagram, for some
    value of the `hasEBP` bit -/
theorem compile_results (cfg : Cfg S K) (cache : Cache S) (store : DomStore S K) (polls : Nat) (stopAt : Option Nat)
    (hok : (compile cfg cache store polls stopAt).1 = .ok) (r : Result S)
    (hr : r = (compile cfg cache store polls stopAt).2.1 ∨ (compile cfg cache store polls stopAt).2.2.1 = some r) :
    (compile cfg cache store polls stopAt).2.2.2 = (buildLoop cfg stopAt (cfg.P.nbVars + 2) (initDD cfg cache store polls)).1 ∧
    ∃ e, r = (finalize cfg (finalizeLayers (buildLoop cfg stopAt (cfg.P.nbVars + 2) (initDD cfg cache store polls)).1) e).1 := by
  unfold compile at hok hr ⊢
  generalize buildLoop cfg stopAt (cfg.P.nbVars + 2) (initDD cfg cache store polls) = bl at hok hr ⊢
  obtain ⟨dd, oc⟩ := bl
  dsimp only at hok hr ⊢
  cases oc
  · dsimp only at hr ⊢
    refine ⟨rfl, ?_⟩
    rcases hr with hr | hr
    · exact ⟨_, hr⟩
    · split at hr
      · simp only [Option.some.injEq] at hr
        exact ⟨_, hr.symm⟩
      · cases hr
  · cases hok
  · cases hok

theorem CutWF.cutset_nil {cfg : Cfg S K} {p0 : List Dec} {LS : List (List (Node S))} {lel : Nat}
    (h : CutWF cfg p0 LS lel) (hlel : LS.length ≤ lel) : (computeCutset cfg.kind lel LS).2 = [] := by
  rw [List.eq_nil_iff_forall_not_mem]
  intro lp hlp
  cases hk : cfg.kind with
  | lel =>
    rw [hk] at hlp
    obtain ⟨_, h2, _⟩ := computeCutset_lel lel LS lp hlp
    omega
  | frontier =>
    rw [hk] at hlp
    obtain ⟨_, _, _, l', p', m, e, hm, hmex, _⟩ := computeCutset_frontier lel LS lp hlp
    have := h.exactUpTo l' p' m hm (by have := getNode_lt hm; omega)
    rw [hmex] at this; cases this

theorem finalize_cutset_nil (cfg : Cfg S K) (p0 : List Dec) (b : Built S K) (e : Bool)
    (hwf : CutWF cfg p0 b.layers b.lel) (hlel : b.layers.length ≤ b.lel) : (finalize cfg b e).1.cutset = [] := by
  rw [List.eq_nil_iff_forall_not_mem]
  intro c hc
  obtain ⟨lp, _, hlp, _⟩ := finalize_cutset_mem cfg b e c hc
  rw [hwf.cutset_nil hlel] at hlp
  cases hlp

/-- the invariants and the well-formedness of the finalized layers, for a whole compilation -/
theorem compile_wf (cfg : Cfg S K) (B : Int) (p0 : List Dec) (hB : NoClamp cfg.P cfg.R cfg.root.value B)
    (hroot : Reach cfg.P cfg.root.depth cfg.root.state cfg.root.value p0)
    (cache : Cache S) (store : DomStore S K) (polls : Nat) (stopAt : Option Nat) :
    CutWF cfg p0 (finalizeLayers (buildLoop cfg stopAt (cfg.P.nbVars + 2) (initDD cfg cache store polls)).1).layers
      (finalizeLayers (buildLoop cfg stopAt (cfg.P.nbVars + 2) (initDD cfg cache store polls)).1).lel := by
  obtain ⟨h1, h2⟩ := buildLoop_inv2 cfg B p0 hB stopAt (cfg.P.nbVars + 2) (initDD cfg cache store polls)
    (initDD_inv cfg B p0 hB hroot cache store polls) (initDD_inv2 cfg cache store polls) rfl
    (by simp only [initDD, List.length_nil]; omega)
  exact finalizeLayers_wf cfg B p0 _ h1 h2

end Ddo
