import DdoModel.Proofs.ParDomOp
/-! # Sanity of the operation-wise compilation: with the compilation's OWN thread as oracle it is the plain compilation

`SelfThreaded D st0 τ ops`: `τ k` is the store obtained from `st0` after the first `k` operations of `ops`.
When `τ` is self-threaded along the operations the operation-wise filter / layer step / build loop / compilation performs itself,
it computes what `filterDom` / `stepLayer` / `buildLoop` / `compile` compute from the store `st0`. -/
set_option linter.unusedSectionVars false
set_option linter.unusedVariables false
namespace Ddo.ParDom
open Ddo Ddo.Truth Ddo.Closed Ddo.C10
variable {S K : Type} [DecidableEq S] [DecidableEq K]

/-- `τ` is self-threaded from `st0` along `ops`: `τ k` is the store after the first `k` operations -/
def SelfThreaded (D : DomRule S K) (st0 : DomStore S K) (τ : Nat → DomStore S K) (ops : List (Op S)) : Prop :=
  ∀ k, k ≤ ops.length → runOps D st0 (ops.take k) = some (τ k)

theorem SelfThreaded.prefix {D : DomRule S K} {st0 : DomStore S K} {τ : Nat → DomStore S K} {l ops : List (Op S)}
    (h : SelfThreaded D st0 τ ops) (hp : l <+: ops) : SelfThreaded D st0 τ l := by
  intro k hk
  obtain ⟨t, rfl⟩ := hp
  have := h k (by rw [List.length_append]; omega)
  rwa [List.take_append_of_le_length hk] at this

theorem SelfThreaded.at_len {D : DomRule S K} {st0 : DomStore S K} {τ : Nat → DomStore S K} {ops : List (Op S)}
    (h : SelfThreaded D st0 τ ops) : runOps D st0 ops = some (τ ops.length) := by
  have := h ops.length (Nat.le_refl _)
  rwa [List.take_length] at this

theorem runOps_cons (D : DomRule S K) (st : DomStore S K) (op : Op S) (r : List (Op S)) :
    runOps D st (op :: r) = match applyOp D st op with
      | none => none
      | some (st', _, _) => runOps D st' r := by
  rw [runOps]
  cases applyOp D st op with
  | none => rfl
  | some x => obtain ⟨s', d, t⟩ := x; rfl

theorem runOps_append (D : DomRule S K) (a b : List (Op S)) :
    ∀ st0, runOps D st0 (a ++ b) = (runOps D st0 a).bind (fun s => runOps D s b) := by
  induction a with
  | nil => intro st0; rfl
  | cons op r ih =>
    intro st0
    rw [List.cons_append, runOps_cons, runOps_cons]
    cases applyOp D st0 op with
    | none => rfl
    | some x =>
      obtain ⟨s', d, t⟩ := x
      exact ih s'

theorem runOps_snoc (D : DomRule S K) (ops : List (Op S)) (st0 st : DomStore S K) (op : Op S)
    (h : runOps D st0 ops = some st) :
    runOps D st0 (ops ++ [op]) = match applyOp D st op with
      | none => none
      | some (st', _, _) => some st' := by
  rw [runOps_append, h]
  show runOps D st [op] = _
  rw [runOps_cons]
  cases applyOp D st op with
  | none => rfl
  | some x => obtain ⟨s', d, t⟩ := x; rfl

/-! ## the filter -/

theorem fdStepO_ops (D : DomRule S K) (τ : Nat → DomStore S K)
    (acc : List (Node S) × List Nat × Nat × Bool × List (Op S)) (p : Nat) :
    acc.2.2.2.2 <+: (fdStepO D τ acc p).2.2.2.2 := by
  unfold fdStepO
  cases hn : acc.1[p]? with
  | none => exact List.prefix_refl _
  | some n =>
    simp only
    by_cases he : n.isExact = true
    · rw [if_pos he]
      cases hq : DomStore.query D (τ acc.2.2.1) n.state n.depth n.value with
      | none => exact ⟨[⟨n.state, n.depth, n.value⟩], rfl⟩
      | some x =>
        obtain ⟨st', dom, thr⟩ := x
        cases dom
        · exact ⟨[⟨n.state, n.depth, n.value⟩], rfl⟩
        · exact ⟨[⟨n.state, n.depth, n.value⟩], rfl⟩
    · rw [if_neg he]; exact List.prefix_refl _

theorem fdStepO_ops_exact (D : DomRule S K) (τ : Nat → DomStore S K)
    (acc : List (Node S) × List Nat × Nat × Bool × List (Op S)) (p : Nat) (n : Node S) (hn : acc.1[p]? = some n)
    (he : n.isExact = true) :
    (fdStepO D τ acc p).2.2.2.2 = acc.2.2.2.2 ++ [⟨n.state, n.depth, n.value⟩] := by
  unfold fdStepO
  rw [hn]
  simp only
  rw [if_pos he]
  cases hq : DomStore.query D (τ acc.2.2.1) n.state n.depth n.value with
  | none => rfl
  | some x =>
    obtain ⟨st', dom, thr⟩ := x
    cases dom
    · rfl
    · rfl

theorem foldO_ops_prefix (D : DomRule S K) (τ : Nat → DomStore S K) (ps : List Nat) :
    ∀ acc : List (Node S) × List Nat × Nat × Bool × List (Op S),
      acc.2.2.2.2 <+: (ps.foldl (fdStepO D τ) acc).2.2.2.2 := by
  induction ps with
  | nil => intro acc; exact List.prefix_refl _
  | cons p ps ih =>
    intro acc
    rw [List.foldl_cons]
    exact List.IsPrefix.trans (fdStepO_ops D τ acc p) (ih _)

/-- one step: the oracle answers the current operation with the store threaded so far -/
theorem fdStepO_self (D : DomRule S K) (τ : Nat → DomStore S K) (st0 : DomStore S K) (pre : List (Op S))
    (acc : List (Node S) × List Nat × Nat × Bool × List (Op S)) (st : DomStore S K) (p : Nat)
    (hself : SelfThreaded D st0 τ (pre ++ (fdStepO D τ acc p).2.2.2.2))
    (hk : acc.2.2.1 = pre.length + acc.2.2.2.2.length)
    (hrun : runOps D st0 (pre ++ acc.2.2.2.2) = some st) :
    ∃ st1, fdStep D (acc.1, acc.2.1, st, acc.2.2.2.1) p =
        ((fdStepO D τ acc p).1, (fdStepO D τ acc p).2.1, st1, (fdStepO D τ acc p).2.2.2.1) ∧
      (fdStepO D τ acc p).2.2.1 = pre.length + (fdStepO D τ acc p).2.2.2.2.length ∧
      runOps D st0 (pre ++ (fdStepO D τ acc p).2.2.2.2) = some st1 := by
  have h0 : SelfThreaded D st0 τ (pre ++ acc.2.2.2.2) := by
    obtain ⟨t, ht⟩ := fdStepO_ops D τ acc p
    exact hself.prefix ⟨t, by rw [← ht, List.append_assoc]⟩
  have hτk : τ acc.2.2.1 = st := by
    have := h0.at_len
    rw [hrun, List.length_append, ← hk] at this
    exact (Option.some.inj this).symm
  cases hn : acc.1[p]? with
  | none =>
    have e : fdStepO D τ acc p = acc := by unfold fdStepO; rw [hn]
    rw [e]
    refine ⟨st, ?_, hk, hrun⟩
    unfold fdStep
    simp only [hn]
  | some n =>
    by_cases he : n.isExact = true
    · have hops := fdStepO_ops_exact D τ acc p n hn he
      have hself' := hself.at_len
      rw [hops, ← List.append_assoc, runOps_snoc D _ st0 st _ hrun] at hself'
      rw [hops]
      unfold applyOp at hself'
      simp only at hself'
      unfold fdStepO fdStep
      simp only [hn, if_pos he, hτk]
      cases hq : DomStore.query D st n.state n.depth n.value with
      | none => rw [hq] at hself'; cases hself'
      | some x =>
        obtain ⟨st', dom, thr⟩ := x
        refine ⟨st', ?_, ?_, ?_⟩
        · cases dom <;> simp
        · cases dom <;> simp [hk] <;> omega
        · rw [← List.append_assoc, runOps_snoc D _ st0 st _ hrun]
          unfold applyOp
          simp only [hq]
    · have e : fdStepO D τ acc p = (acc.1, acc.2.1 ++ [p], acc.2.2.1, acc.2.2.2.1, acc.2.2.2.2) := by
        unfold fdStepO; rw [hn]; simp only; rw [if_neg he]
      rw [e]
      refine ⟨st, ?_, hk, hrun⟩
      unfold fdStep
      simp only [hn, if_neg he]

/-- the fold of the operation-wise filter against the fold of the plain filter -/
theorem foldO_self (D : DomRule S K) (τ : Nat → DomStore S K) (st0 : DomStore S K) (pre : List (Op S)) (ps : List Nat) :
    ∀ (acc : List (Node S) × List Nat × Nat × Bool × List (Op S)) (st : DomStore S K),
      SelfThreaded D st0 τ (pre ++ (ps.foldl (fdStepO D τ) acc).2.2.2.2) →
      acc.2.2.1 = pre.length + acc.2.2.2.2.length →
      runOps D st0 (pre ++ acc.2.2.2.2) = some st →
      (ps.foldl (fdStepO D τ) acc).1 = (ps.foldl (fdStep D) (acc.1, acc.2.1, st, acc.2.2.2.1)).1 ∧
      (ps.foldl (fdStepO D τ) acc).2.1 = (ps.foldl (fdStep D) (acc.1, acc.2.1, st, acc.2.2.2.1)).2.1 ∧
      (ps.foldl (fdStepO D τ) acc).2.2.2.1 = (ps.foldl (fdStep D) (acc.1, acc.2.1, st, acc.2.2.2.1)).2.2.2 ∧
      (ps.foldl (fdStepO D τ) acc).2.2.1 = pre.length + (ps.foldl (fdStepO D τ) acc).2.2.2.2.length ∧
      runOps D st0 (pre ++ (ps.foldl (fdStepO D τ) acc).2.2.2.2) =
        some (ps.foldl (fdStep D) (acc.1, acc.2.1, st, acc.2.2.2.1)).2.2.1 := by
  induction ps with
  | nil => intro acc st _ hk hrun; exact ⟨rfl, rfl, rfl, hk, hrun⟩
  | cons p ps ih =>
    intro acc st hself hk hrun
    rw [List.foldl_cons] at hself
    have hs1 : SelfThreaded D st0 τ (pre ++ (fdStepO D τ acc p).2.2.2.2) := by
      obtain ⟨t, ht⟩ := foldO_ops_prefix D τ ps (fdStepO D τ acc p)
      exact hself.prefix ⟨t, by rw [← ht, List.append_assoc]⟩
    obtain ⟨st1, e1, e2, e3⟩ := fdStepO_self D τ st0 pre acc st p hs1 hk hrun
    rw [List.foldl_cons, List.foldl_cons, e1]
    exact ih (fdStepO D τ acc p) st1 hself e2 e3

/-- **target 1**: `filterDomO` answered by its own thread is `filterDom`.  `pre`: the operations of the compilation before this
    call; `st`: the store they lead to from `st0`. -/
theorem filterDomO_self (cfg : Cfg S K) (D : DomRule S K) (hD : ∀ D', cfg.dom = some D' → D' = D)
    (τ : Nat → DomStore S K) (st0 : DomStore S K) (pre : List (Op S)) (k : Nat) (st : DomStore S K)
    (layer : List (Node S)) (cur : List Nat)
    (hself : SelfThreaded D st0 τ (pre ++ (filterDomO cfg τ k layer cur).2.2.2.2))
    (hk : k = pre.length) (hrun : runOps D st0 pre = some st) :
    (filterDomO cfg τ k layer cur).1 = (filterDom cfg st layer cur).1 ∧
    (filterDomO cfg τ k layer cur).2.1 = (filterDom cfg st layer cur).2.1 ∧
    (filterDomO cfg τ k layer cur).2.2.2.1 = (filterDom cfg st layer cur).2.2.2 ∧
    (filterDomO cfg τ k layer cur).2.2.1 = pre.length + (filterDomO cfg τ k layer cur).2.2.2.2.length ∧
    runOps D st0 (pre ++ (filterDomO cfg τ k layer cur).2.2.2.2) = some (filterDom cfg st layer cur).2.2.1 := by
  cases hd : cfg.dom with
  | none =>
    have e1 : filterDomO cfg τ k layer cur = (layer, cur, k, true, []) := by unfold filterDomO; rw [hd]
    have e2 : filterDom cfg st layer cur = (layer, cur, st, true) := by unfold filterDom; rw [hd]
    rw [e1, e2]
    refine ⟨rfl, rfl, rfl, by simpa using hk, by simpa using hrun⟩
  | some D' =>
    have := hD D' hd
    subst this
    have e1 : filterDomO cfg τ k layer cur = (fdSorted D' layer cur).foldl (fdStepO D' τ) (layer, [], k, true, []) := by
      unfold filterDomO; rw [hd]
    rw [e1] at hself ⊢
    rw [filterDom_eq cfg D' hd st layer cur]
    exact foldO_self D' τ st0 pre (fdSorted D' layer cur) (layer, [], k, true, []) st hself (by simpa using hk)
      (by simpa using hrun)

/-! ## one layer -/

/-- what the cache filter leaves of `next` -/
def fcOf (cfg : Cfg S K) (dd : DD S K) : List (Node S) × List Nat :=
  if dd.layers.isEmpty then (dd.next, List.range dd.next.length)
  else filterCache cfg dd.cache dd.next (List.range dd.next.length)

/-- `stepLayer` after `_filter_with_dominance` (any `useCache`) -/
def stepTailG (cfg : Cfg S K) (dd : DD S K) (var : Nat) (fc : List (Node S) × List Nat)
    (r : List (Node S) × List Nat × DomStore S K × Bool) : Option (DD S K) × Outcome :=
  if (!r.2.2.2) = true then (none, .crash) else
  match squash cfg dd r.1 r.2.1 with
  | none => (none, .crash)
  | some (layer, cur, log, lel) =>
    (some { dd with layers := dd.layers ++ [(expandAll cfg var dd.layers.length layer cur log).1],
                    next := (expandAll cfg var dd.layers.length layer cur log).2.1, depth := dd.depth + 1, lel := lel,
                    store := r.2.2.1, log := (expandAll cfg var dd.layers.length layer cur log).2.2,
                    ndom := dd.ndom + (fc.2.length - r.2.1.length) }, .ok)

/-- `stepLayerO` after the operation-wise filter -/
def stepTailO (cfg : Cfg S K) (dd : DD S K) (ops : List (Op S)) (var : Nat) (fc : List (Node S) × List Nat)
    (r : List (Node S) × List Nat × Nat × Bool × List (Op S)) : Option (DD S K × Nat × List (Op S)) × Outcome :=
  if (!r.2.2.2.1) = true then (none, .crash) else
  match squash cfg dd r.1 r.2.1 with
  | none => (none, .crash)
  | some (layer, cur, log, lel) =>
    (some ({ dd with layers := dd.layers ++ [(expandAll cfg var dd.layers.length layer cur log).1],
                     next := (expandAll cfg var dd.layers.length layer cur log).2.1, depth := dd.depth + 1, lel := lel,
                     log := (expandAll cfg var dd.layers.length layer cur log).2.2,
                     ndom := dd.ndom + (fc.2.length - r.2.1.length) }, r.2.2.1, ops ++ r.2.2.2.2), .ok)

theorem stepLayer_unfoldG (cfg : Cfg S K) (dd : DD S K) (var : Nat) (hne : dd.next.isEmpty = false) :
    stepLayer cfg dd var =
      stepTailG cfg dd var (fcOf cfg dd) (filterDom cfg dd.store (fcOf cfg dd).1 (fcOf cfg dd).2) := by
  unfold stepLayer stepTailG fcOf
  simp only [hne, Bool.false_eq_true, if_false]
  rfl

theorem stepLayerO_unfold (cfg : Cfg S K) (τ : Nat → DomStore S K) (dd : DD S K) (k : Nat) (ops : List (Op S)) (var : Nat)
    (hne : dd.next.isEmpty = false) :
    stepLayerO cfg τ dd k ops var =
      stepTailO cfg dd ops var (fcOf cfg dd) (filterDomO cfg τ k (fcOf cfg dd).1 (fcOf cfg dd).2) := by
  unfold stepLayerO stepTailO fcOf
  simp only [hne, Bool.false_eq_true, if_false]
  rfl

theorem stepTailO_ops (cfg : Cfg S K) (dd : DD S K) (ops : List (Op S)) (var : Nat) (fc : List (Node S) × List Nat)
    (r : List (Node S) × List Nat × Nat × Bool × List (Op S)) (dd' : DD S K) (k' : Nat) (ops' : List (Op S)) (oc : Outcome)
    (hs : stepTailO cfg dd ops var fc r = (some (dd', k', ops'), oc)) : ops' = ops ++ r.2.2.2.2 := by
  unfold stepTailO at hs
  by_cases ho : (!r.2.2.2.1) = true
  · rw [if_pos ho] at hs; cases hs
  · rw [if_neg ho] at hs
    cases hsq : squash cfg dd r.1 r.2.1 with
    | none => rw [hsq] at hs; cases hs
    | some sq =>
      obtain ⟨l', c', lg, lel⟩ := sq
      rw [hsq] at hs
      simp only [Prod.mk.injEq, Option.some.injEq] at hs
      exact hs.1.2.2.symm

theorem stepLayerO_ops_prefix (cfg : Cfg S K) (τ : Nat → DomStore S K) (dd : DD S K) (k : Nat) (ops : List (Op S)) (var : Nat)
    (dd' : DD S K) (k' : Nat) (ops' : List (Op S)) (oc : Outcome)
    (hs : stepLayerO cfg τ dd k ops var = (some (dd', k', ops'), oc)) : ops <+: ops' := by
  by_cases hne : dd.next.isEmpty = true
  · unfold stepLayerO at hs
    rw [if_pos hne] at hs
    simp only [Prod.mk.injEq, Option.some.injEq] at hs
    rw [← hs.1.2.2]
    exact List.prefix_refl _
  · have hne' : dd.next.isEmpty = false := by simpa using hne
    rw [stepLayerO_unfold cfg τ dd k ops var hne'] at hs
    rw [stepTailO_ops cfg dd ops var _ _ dd' k' ops' oc hs]
    exact List.prefix_append _ _

/-- **one layer**: if `stepLayerO` succeeds and the oracle is self-threaded along the operations performed so far, `stepLayer`
    from the threaded store does the same (the diagrams agree up to the `store` field, which `stepLayerO` does not maintain) -/
theorem stepLayerO_self (cfg : Cfg S K) (D : DomRule S K) (hD : ∀ D', cfg.dom = some D' → D' = D)
    (τ : Nat → DomStore S K) (st0 : DomStore S K) (dd : DD S K) (k : Nat) (ops : List (Op S)) (var : Nat) (st : DomStore S K)
    (hk : k = ops.length) (hrun : runOps D st0 ops = some st)
    (dd' : DD S K) (k' : Nat) (ops' : List (Op S)) (oc : Outcome)
    (hs : stepLayerO cfg τ dd k ops var = (some (dd', k', ops'), oc))
    (hself : SelfThreaded D st0 τ ops') :
    ∃ st', stepLayer cfg (withStore dd st) var = (some (withStore dd' st'), oc) ∧ k' = ops'.length ∧
      runOps D st0 ops' = some st' := by
  by_cases hne : dd.next.isEmpty = true
  · unfold stepLayerO at hs
    rw [if_pos hne] at hs
    simp only [Prod.mk.injEq, Option.some.injEq] at hs
    obtain ⟨⟨ha, hb, hc⟩, h2⟩ := hs
    subst ha hb hc h2
    refine ⟨st, ?_, hk, hrun⟩
    unfold stepLayer
    rw [if_pos (show (withStore dd st).next.isEmpty = true from hne)]
    rfl
  · have hne' : dd.next.isEmpty = false := by simpa using hne
    rw [stepLayerO_unfold cfg τ dd k ops var hne'] at hs
    have hops := stepTailO_ops cfg dd ops var _ _ dd' k' ops' oc hs
    rw [stepLayer_unfoldG cfg (withStore dd st) var hne']
    show ∃ st', stepTailG cfg (withStore dd st) var (fcOf cfg dd) (filterDom cfg st (fcOf cfg dd).1 (fcOf cfg dd).2) = _ ∧ _
    have key := filterDomO_self cfg D hD τ st0 ops k st (fcOf cfg dd).1 (fcOf cfg dd).2 (by rw [← hops]; exact hself) hk hrun
    generalize filterDomO cfg τ k (fcOf cfg dd).1 (fcOf cfg dd).2 = r at hs key hops
    generalize filterDom cfg st (fcOf cfg dd).1 (fcOf cfg dd).2 = r2 at key ⊢
    obtain ⟨l1, c1, k1, o1, p1⟩ := r
    obtain ⟨l2, c2, s2, o2⟩ := r2
    simp only at key hops
    obtain ⟨f1, f2, f3, f4, f5⟩ := key
    subst f1 f2 f3
    unfold stepTailO at hs
    simp only at hs
    unfold stepTailG
    simp only
    rw [squash_withStore]
    cases o1 with
    | false => simp at hs
    | true =>
      simp only [Bool.not_true, Bool.false_eq_true, if_false] at hs ⊢
      cases hsq : squash cfg dd l1 c1 with
      | none => rw [hsq] at hs; cases hs
      | some sq =>
        obtain ⟨l', c', lg, lel⟩ := sq
        rw [hsq] at hs
        simp only [Prod.mk.injEq, Option.some.injEq] at hs
        obtain ⟨⟨ha, hb, hc⟩, h2⟩ := hs
        subst ha hb h2
        refine ⟨s2, rfl, ?_, ?_⟩
        · rw [f4, hops, List.length_append]
        · rw [hops]; exact f5

/-! ## the loop -/

theorem buildLoopO_stop (cfg : Cfg S K) (τ : Nat → DomStore S K) (fuel : Nat) (dd : DD S K) (k : Nat) (ops : List (Op S))
    (h : cfg.P.nextVar dd.depth (dd.next.map (·.state)) = none) :
    buildLoopO cfg τ (fuel + 1) dd k ops =
      (({ dd with log := Call.nextVar dd.depth (dd.next.map (·.state)) none :: dd.log }, ops), .ok) := by
  conv => lhs; unfold buildLoopO
  simp only [h]

theorem buildLoopO_step (cfg : Cfg S K) (τ : Nat → DomStore S K) (fuel : Nat) (dd : DD S K) (k : Nat) (ops : List (Op S))
    (var : Nat) (h : cfg.P.nextVar dd.depth (dd.next.map (·.state)) = some var) :
    buildLoopO cfg τ (fuel + 1) dd k ops =
      match stepLayerO cfg τ (tick dd var) k ops var with
      | (none, _) => ((tick dd var, ops), .crash)
      | (some (dd', _, ops'), .cutoff) => ((dd', ops'), .ok)
      | (some (dd', _, ops'), .crash) => ((dd', ops'), .crash)
      | (some (dd', k', ops'), .ok) => buildLoopO cfg τ fuel dd' k' ops' := by
  conv => lhs; unfold buildLoopO
  simp only [h]
  cases stepLayerO cfg τ (tick dd var) k ops var with
  | mk o oc =>
    cases o with
    | none => rfl
    | some x => obtain ⟨dd', k', ops'⟩ := x; cases oc <;> rfl

theorem buildLoop_stop' (cfg : Cfg S K) (fuel : Nat) (dd : DD S K)
    (h : cfg.P.nextVar dd.depth (dd.next.map (·.state)) = none) :
    buildLoop cfg none (fuel + 1) dd =
      ({ dd with log := Call.nextVar dd.depth (dd.next.map (·.state)) none :: dd.log }, .ok) := by
  conv => lhs; unfold buildLoop
  simp only [h]

theorem buildLoopO_ops_prefix (cfg : Cfg S K) (τ : Nat → DomStore S K) :
    ∀ (fuel : Nat) (dd : DD S K) (k : Nat) (ops : List (Op S)), ops <+: (buildLoopO cfg τ fuel dd k ops).1.2 := by
  intro fuel
  induction fuel with
  | zero => intro dd k ops; exact List.prefix_refl _
  | succ fuel ih =>
    intro dd k ops
    cases hnv : cfg.P.nextVar dd.depth (dd.next.map (·.state)) with
    | none => rw [buildLoopO_stop cfg τ fuel dd k ops hnv]; exact List.prefix_refl _
    | some var =>
      rw [buildLoopO_step cfg τ fuel dd k ops var hnv]
      cases hs : stepLayerO cfg τ (tick dd var) k ops var with
      | mk o oc =>
        cases o with
        | none => exact List.prefix_refl _
        | some x =>
          obtain ⟨dd', k', ops'⟩ := x
          have hp := stepLayerO_ops_prefix cfg τ (tick dd var) k ops var dd' k' ops' oc hs
          cases oc with
          | ok => exact List.IsPrefix.trans hp (ih dd' k' ops')
          | cutoff => exact hp
          | crash => exact hp

/-- **the loop**: an operation-wise loop that ends well, answered by its own thread, is the plain loop from the threaded store -/
theorem buildLoopO_self (cfg : Cfg S K) (D : DomRule S K) (hD : ∀ D', cfg.dom = some D' → D' = D)
    (τ : Nat → DomStore S K) (st0 : DomStore S K) :
    ∀ (fuel : Nat) (dd : DD S K) (k : Nat) (ops : List (Op S)) (st : DomStore S K),
      k = ops.length → runOps D st0 ops = some st →
      (buildLoopO cfg τ fuel dd k ops).2 = .ok →
      SelfThreaded D st0 τ (buildLoopO cfg τ fuel dd k ops).1.2 →
      ∃ st', buildLoop cfg none fuel (withStore dd st) = (withStore (buildLoopO cfg τ fuel dd k ops).1.1 st', .ok) ∧
        runOps D st0 (buildLoopO cfg τ fuel dd k ops).1.2 = some st' := by
  intro fuel
  induction fuel with
  | zero => intro dd k ops st _ _ hok _; cases hok
  | succ fuel ih =>
    intro dd k ops st hk hrun hok hself
    cases hnv : cfg.P.nextVar dd.depth (dd.next.map (·.state)) with
    | none =>
      rw [buildLoopO_stop cfg τ fuel dd k ops hnv]
      rw [buildLoop_stop' cfg fuel (withStore dd st) hnv]
      exact ⟨st, rfl, hrun⟩
    | some var =>
      rw [buildLoop_step cfg fuel (withStore dd st) var hnv]
      rw [buildLoopO_step cfg τ fuel dd k ops var hnv] at hok hself ⊢
      cases hs : stepLayerO cfg τ (tick dd var) k ops var with
      | mk o oc =>
        rw [hs] at hok hself
        cases o with
        | none => cases hok
        | some x =>
          obtain ⟨dd', k', ops'⟩ := x
          have hstep := stepLayerO_self cfg D hD τ st0 (tick dd var) k ops var st hk hrun dd' k' ops' oc hs
          cases oc with
          | ok =>
            simp only at hok hself ⊢
            obtain ⟨st1, e1, e2, e3⟩ := hstep (hself.prefix (buildLoopO_ops_prefix cfg τ fuel dd' k' ops'))
            have e1' : stepLayer cfg (tick (withStore dd st) var) var = (some (withStore dd' st1), .ok) := e1
            rw [e1']
            exact ih dd' k' ops' st1 e2 e3 hok hself
          | cutoff =>
            simp only at hok hself ⊢
            obtain ⟨st1, e1, e2, e3⟩ := hstep hself
            have e1' : stepLayer cfg (tick (withStore dd st) var) var = (some (withStore dd' st1), .cutoff) := e1
            rw [e1']
            exact ⟨st1, rfl, e3⟩
          | crash => cases hok

/-! ## the compilation -/

/-- **target 2**: an operation-wise compilation that ends well and is answered by its OWN thread from `st0` (`τ k` = the store
    after its first `k` operations) is the plain compilation from `st0`: same outcome, same result; the operations it logged lead
    from `st0` to the final store of the plain compilation. -/
theorem compileOp_self (cfg : Cfg S K) (D : DomRule S K) (hD : ∀ D', cfg.dom = some D' → D' = D) (cache : Cache S)
    (τ : Nat → DomStore S K) (st0 : DomStore S K) (polls : Nat)
    (hok : (compileOp cfg cache τ polls).1 = .ok)
    (hself : SelfThreaded D st0 τ (compileOp cfg cache τ polls).2.2) :
    (compile cfg cache st0 polls none).1 = .ok ∧
    (compile cfg cache st0 polls none).2.1 = (compileOp cfg cache τ polls).2.1 ∧
    runOps D st0 (compileOp cfg cache τ polls).2.2 = some (compile cfg cache st0 polls none).2.2.2.store := by
  obtain ⟨st', hb, hr⟩ := buildLoopO_self cfg D hD τ st0 (cfg.P.nbVars + 2) (initDD cfg cache (τ 0) polls) 0 [] st0 rfl rfl
    hok hself
  have hb' : buildLoop cfg none (cfg.P.nbVars + 2) (initDD cfg cache st0 polls) =
      (withStore (buildLoopO cfg τ (cfg.P.nbVars + 2) (initDD cfg cache (τ 0) polls) 0 []).1.1 st', .ok) := hb
  have hc1 : (compile cfg cache st0 polls none).1 = .ok := by
    unfold compile
    rw [hb']
  obtain ⟨_, c2, c3⟩ := compile_ok cfg cache st0 polls none hc1
  refine ⟨hc1, ?_, ?_⟩
  · rw [c3, hb']
    rfl
  · rw [c2, hb']
    exact hr

/-- `compileOp_self` with the checker on (`cfg.dom = some D`), the self-threading spelled out -/
theorem compileOp_self_some (cfg : Cfg S K) (D : DomRule S K) (hD : cfg.dom = some D) (cache : Cache S)
    (τ : Nat → DomStore S K) (st0 : DomStore S K) (polls : Nat)
    (hok : (compileOp cfg cache τ polls).1 = .ok)
    (hself : ∀ k, k ≤ (compileOp cfg cache τ polls).2.2.length →
      runOps D st0 ((compileOp cfg cache τ polls).2.2.take k) = some (τ k)) :
    (compile cfg cache st0 polls none).1 = .ok ∧
    (compile cfg cache st0 polls none).2.1 = (compileOp cfg cache τ polls).2.1 :=
  have h := compileOp_self cfg D (fun D' h => by rw [hD] at h; exact (Option.some.inj h).symm) cache τ st0 polls hok hself
  ⟨h.1, h.2.1⟩

end Ddo.ParDom
