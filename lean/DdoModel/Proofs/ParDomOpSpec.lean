import DdoModel.Proofs.ParDomOp
/-! # The oracle forms of `filterDom_spec` / `filterDom_protected` for the operation-wise dominance filter `filterDomO` -/
set_option linter.unusedSectionVars false
set_option linter.unusedVariables false
namespace Ddo.ParDom
open Ddo Ddo.Truth Ddo.Closed Ddo.C10
variable {S K : Type} [DecidableEq S] [DecidableEq K]

/-- the invariant of the operation-wise fold (`proc` = the positions processed so far) -/
structure FdInvO (D : DomRule S K) (P : Problem S) (layer : List (Node S)) (proc : List Nat)
    (acc : List (Node S) × List Nat × Nat × Bool × List (Op S)) : Prop where
  th : ThEq acc.1 layer
  sub : ∀ p ∈ acc.2.1, p ∈ proc
  ok : acc.2.2.2.1 = true
  pruned : ∀ p ∈ proc, p ∉ acc.2.1 → ∃ m, layer[p]? = some m ∧ m.isExact = true ∧
    ∃ a va pa, Reach P m.depth a va pa ∧ Dominates D a va m.state m.value
  ops : ∀ op ∈ acc.2.2.2.2, ∃ m ∈ layer, m.isExact = true ∧
    op.state = m.state ∧ op.depth = m.depth ∧ op.value = m.value

theorem fdStepO_inv (D : DomRule S K) (P : Problem S) (τ : Nat → DomStore S K) (hτ : ∀ k, StoreReach D P (τ k))
    (n : Nat) (hlen : ∀ k, (τ k).layers.length = n + 1) (layer : List (Node S))
    (hdepth : ∀ m ∈ layer, m.isExact = true → m.depth ≤ n)
    (proc : List Nat) (acc : List (Node S) × List Nat × Nat × Bool × List (Op S)) (p : Nat) (hp : p < layer.length)
    (h : FdInvO D P layer proc acc) : FdInvO D P layer (proc ++ [p]) (fdStepO D τ acc p) := by
  obtain ⟨ly, keep, j, ok, ops⟩ := acc
  obtain ⟨hth, hsub, hok, hpr, hops⟩ := h
  dsimp only at hth hsub hok hpr hops
  have hp' : p < ly.length := by rw [hth.length]; exact hp
  unfold fdStepO
  dsimp only
  rw [List.getElem?_eq_getElem hp']
  dsimp only
  obtain ⟨n0, hn0, hs0⟩ := hth.get (List.getElem?_eq_getElem hp')
  obtain ⟨es, ev, ed, ee, _, _⟩ := stripT_all hs0
  have hsubApp : ∀ q ∈ keep ++ [p], q ∈ proc ++ [p] := by
    intro q hq
    rcases List.mem_append.mp hq with hq | hq
    · exact List.mem_append_left _ (hsub q hq)
    · exact List.mem_append_right _ hq
  have hprApp : ∀ q ∈ proc ++ [p], q ∉ keep ++ [p] → ∃ m, layer[q]? = some m ∧ m.isExact = true ∧
      ∃ a va pa, Reach P m.depth a va pa ∧ Dominates D a va m.state m.value := by
    intro q hq hnq
    rcases List.mem_append.mp hq with hq | hq
    · exact hpr q hq (fun hqk => hnq (List.mem_append_left _ hqk))
    · exact absurd (List.mem_append_right _ hq) hnq
  by_cases hex : ly[p].isExact = true
  · rw [if_pos hex]
    have hex0 : n0.isExact = true := by rw [← ee]; exact hex
    have hopsApp : ∀ op ∈ ops ++ [(⟨ly[p].state, ly[p].depth, ly[p].value⟩ : Op S)], ∃ m ∈ layer, m.isExact = true ∧
        op.state = m.state ∧ op.depth = m.depth ∧ op.value = m.value := by
      intro op hop
      rcases List.mem_append.mp hop with hop | hop
      · exact hops op hop
      · have : op = ⟨ly[p].state, ly[p].depth, ly[p].value⟩ := by simpa using hop
        subst this
        exact ⟨n0, List.mem_of_getElem? hn0, hex0, es, ed, ev⟩
    have hd : ly[p].depth < (τ j).layers.length := by
      rw [hlen, ed]
      exact Nat.lt_succ_of_le (hdepth n0 (List.mem_of_getElem? hn0) hex0)
    cases hq : DomStore.query D (τ j) ly[p].state ly[p].depth ly[p].value with
    | none => exact absurd hq (query_ne_none D (τ j) _ _ _ hd)
    | some r =>
      obtain ⟨st', dom, thr⟩ := r
      dsimp only
      cases dom with
      | true =>
        rw [if_pos rfl]
        obtain ⟨a, va, ⟨pa, hra⟩, hda⟩ := query_dominated D _ (τ j) st' _ _ _ thr hq (hτ j)
        refine ⟨hth.set (List.getElem?_eq_getElem hp') rfl, fun q hq => List.mem_append_left _ (hsub q hq), hok, ?_,
          hopsApp⟩
        intro q hq hnq
        rcases List.mem_append.mp hq with hq | hq
        · exact hpr q hq hnq
        · have : q = p := by simpa using hq
          subst this
          refine ⟨n0, hn0, hex0, a, va, pa, ?_, ?_⟩
          · rw [← ed]; exact hra
          · rw [← es, ← ev]; exact hda
      | false =>
        rw [if_neg (by simp)]
        exact ⟨hth, hsubApp, hok, hprApp, hopsApp⟩
  · rw [if_neg hex]
    exact ⟨hth, hsubApp, hok, hprApp, hops⟩

theorem fdFoldO_inv (D : DomRule S K) (P : Problem S) (τ : Nat → DomStore S K) (hτ : ∀ k, StoreReach D P (τ k))
    (n : Nat) (hlen : ∀ k, (τ k).layers.length = n + 1) (layer : List (Node S))
    (hdepth : ∀ m ∈ layer, m.isExact = true → m.depth ≤ n) :
    ∀ (l proc : List Nat) (acc : List (Node S) × List Nat × Nat × Bool × List (Op S)), (∀ p ∈ l, p < layer.length) →
      FdInvO D P layer proc acc → FdInvO D P layer (proc ++ l) (l.foldl (fdStepO D τ) acc) := by
  intro l
  induction l with
  | nil => intro proc acc _ h; simpa using h
  | cons p ps ih =>
    intro proc acc hl h
    rw [List.foldl_cons]
    have := ih (proc ++ [p]) _ (fun q hq => hl q (List.mem_cons_of_mem _ hq))
      (fdStepO_inv D P τ hτ n hlen layer hdepth proc acc p (hl p List.mem_cons_self) h)
    simpa using this

theorem filterDomO_eq (cfg : Cfg S K) (D : DomRule S K) (hD : cfg.dom = some D) (τ : Nat → DomStore S K) (k : Nat)
    (layer : List (Node S)) (cur : List Nat) :
    filterDomO cfg τ k layer cur = (fdSorted D layer cur).foldl (fdStepO D τ) (layer, [], k, true, []) := by
  unfold filterDomO
  rw [hD]

/-- **`filterDomO_spec`**: whatever stores of exactly reached items answer the operations — the layer changes in `theta` only,
    the survivors are positions of `cur`, no operation panics (depths in range), every position of `cur` that does not survive
    holds an exact node dominated (`Dominates D`) by an exactly reached item of its depth, and every logged operation presents an
    exact node of the layer -/
theorem filterDomO_spec (cfg : Cfg S K) (D : DomRule S K) (hD : cfg.dom = some D) (P : Problem S)
    (τ : Nat → DomStore S K) (hτ : ∀ k, StoreReach D P (τ k)) (n : Nat) (hlen : ∀ k, (τ k).layers.length = n + 1)
    (k : Nat) (layer : List (Node S)) (cur : List Nat) (hcur : ∀ p ∈ cur, p < layer.length)
    (hdepth : ∀ m ∈ layer, m.isExact = true → m.depth ≤ n) :
    ThEq (filterDomO cfg τ k layer cur).1 layer ∧
    (∀ p ∈ (filterDomO cfg τ k layer cur).2.1, p ∈ cur) ∧
    (filterDomO cfg τ k layer cur).2.2.2.1 = true ∧
    (∀ p ∈ cur, p ∉ (filterDomO cfg τ k layer cur).2.1 → ∃ m, layer[p]? = some m ∧ m.isExact = true ∧
      ∃ a va pa, Reach P m.depth a va pa ∧ Dominates D a va m.state m.value) ∧
    (∀ op ∈ (filterDomO cfg τ k layer cur).2.2.2.2, ∃ m ∈ layer, m.isExact = true ∧
      op.state = m.state ∧ op.depth = m.depth ∧ op.value = m.value) := by
  rw [filterDomO_eq cfg D hD]
  have hmem : ∀ p, p ∈ fdSorted D layer cur ↔ p ∈ cur := fun p => Cover.mem_sortBy _ _ _
  have hinit : FdInvO D P layer [] (layer, [], k, true, []) :=
    ⟨ThEq.refl _, (fun p hp => by cases hp), rfl, (fun p hp => by cases hp), (fun op hop => by cases hop)⟩
  have h := fdFoldO_inv D P τ hτ n hlen layer hdepth (fdSorted D layer cur) [] _
    (fun p hp => hcur p ((hmem p).mp hp)) hinit
  rw [List.nil_append] at h
  exact ⟨h.th, fun p hp => (hmem p).mp (h.sub p hp), h.ok, fun p hp hn => h.pruned p ((hmem p).mpr hp) hn, h.ops⟩

/-! ## the protected family -/

/-- one step keeps the layer up to `theta` and never removes a survivor (no hypothesis on the oracle) -/
theorem fdStepO_mono (D : DomRule S K) (τ : Nat → DomStore S K) (layer : List (Node S))
    (acc : List (Node S) × List Nat × Nat × Bool × List (Op S)) (p : Nat) (hth : ThEq acc.1 layer) :
    ThEq (fdStepO D τ acc p).1 layer ∧ ∀ q ∈ acc.2.1, q ∈ (fdStepO D τ acc p).2.1 := by
  obtain ⟨ly, keep, j, ok, ops⟩ := acc
  dsimp only at hth
  unfold fdStepO
  dsimp only
  cases hn : ly[p]? with
  | none => exact ⟨hth, fun q hq => hq⟩
  | some m =>
    dsimp only
    by_cases hex : m.isExact = true
    · rw [if_pos hex]
      cases hq : DomStore.query D (τ j) m.state m.depth m.value with
      | none => exact ⟨hth, fun q hq => List.mem_append_left _ hq⟩
      | some r =>
        obtain ⟨st', dom, thr⟩ := r
        dsimp only
        cases dom with
        | true =>
          rw [if_pos rfl]
          exact ⟨hth.set hn rfl, fun q hq => hq⟩
        | false =>
          rw [if_neg (by simp)]
          exact ⟨hth, fun q hq => List.mem_append_left _ hq⟩
    · rw [if_neg hex]
      exact ⟨hth, fun q hq => List.mem_append_left _ hq⟩

theorem fdFoldO_protected (D : DomRule S K) (P : Problem S) (H : Nat → S → EInt) (opt : Int) (Prot : Nat → S → Int → Prop)
    (hPr : Protected D P H opt Prot) (τ : Nat → DomStore S K) (hτ : ∀ k, StoreReach D P (τ k)) (layer : List (Node S))
    (p : Nat) (m : Node S) (hm : layer[p]? = some m) (hprot : m.isExact = true → Prot m.depth m.state m.value) :
    ∀ (l : List Nat) (acc : List (Node S) × List Nat × Nat × Bool × List (Op S)), ThEq acc.1 layer →
      (p ∈ l ∨ p ∈ acc.2.1) → p ∈ (l.foldl (fdStepO D τ) acc).2.1 := by
  intro l
  induction l with
  | nil =>
    intro acc _ h
    rcases h with h | h
    · cases h
    · exact h
  | cons q qs ih =>
    intro acc hth h
    rw [List.foldl_cons]
    obtain ⟨hth', hmono⟩ := fdStepO_mono D τ layer acc q hth
    refine ih _ hth' ?_
    rcases h with h | h
    · rcases List.mem_cons.mp h with h | h
      · subst h
        obtain ⟨n1, hn1, hs1⟩ := hth.symm.get hm
        obtain ⟨es, ev, ed, ee, _, _⟩ := stripT_all hs1
        have hp1 : n1.isExact = true → Prot n1.depth n1.state n1.value := by
          intro he
          rw [← es, ← ev, ← ed]
          exact hprot (by rw [ee]; exact he)
        obtain ⟨hk, _⟩ := fdStepO_protected D P H opt Prot hPr τ hτ acc p n1 hn1 hp1
        right
        rw [hk]
        exact List.mem_append_right _ (List.mem_singleton.mpr rfl)
      · exact Or.inl h
    · exact Or.inr (hmono p h)

/-- **`filterDomO_protected`**: a node that is inexact or protected is never dropped, whatever the oracle -/
theorem filterDomO_protected (cfg : Cfg S K) (D : DomRule S K) (hD : cfg.dom = some D) (P : Problem S) (H : Nat → S → EInt)
    (opt : Int) (Prot : Nat → S → Int → Prop) (hPr : Protected D P H opt Prot)
    (τ : Nat → DomStore S K) (hτ : ∀ k, StoreReach D P (τ k)) (k : Nat) (layer : List (Node S)) (cur : List Nat)
    (p : Nat) (hp : p ∈ cur) (m : Node S) (hm : layer[p]? = some m)
    (hprot : m.isExact = true → Prot m.depth m.state m.value) :
    p ∈ (filterDomO cfg τ k layer cur).2.1 := by
  rw [filterDomO_eq cfg D hD]
  exact fdFoldO_protected D P H opt Prot hPr τ hτ layer p m hm hprot (fdSorted D layer cur) _ (ThEq.refl _)
    (Or.inl ((Cover.mem_sortBy _ _ _).mpr hp))

end Ddo.ParDom
