import DdoModel.Props.C10c
import DdoModel.Proofs.CompatSoundA
/-! # C09 + C10 together — `JointSound`: the sequential solver with the threshold cache **and** the dominance checker, for
**every** rule: termination, no panic, soundness of what is reported

`Props/C10c.lean` shows that the joint solver does not return the optimum in general (finding D16) and states, without proof,
`JointSound`.  It is proved here (`jointSound`), with no hypothesis on the rule: both filters only remove nodes of the diagram
(`Proofs/CompatSoundA.lean`: no compilation crashes, the store keeps its shape, every `update_threshold` is in range, a
reported exact value is the value of the reported solution, a feasible complete path), so the order-free invariant
`Ddo.C09.KInvAny` of the caching solver — plus "the store has `nb_variables + 1` layers" — is kept by every turn (`kdturn_inv`),
and the sequential state makes a `Step` of `Props/C01t.lean` (termination measure). -/
set_option linter.unusedSectionVars false
set_option linter.unusedVariables false
namespace Ddo.C10c
open Ddo Ddo.C01 Ddo.Closed Ddo.C09 Ddo.C10 Ddo.Truth
variable {S K : Type} [DecidableEq S] [DecidableEq K]

/-- **the soundness invariant of the solver with cache and checker**: every open sub-problem is reached exactly; the incumbent is
    `isize::MIN` or the value of the stored solution, a feasible complete path (hence `≤` the optimum); nothing is reported for an
    infeasible problem; no abort; cache and store have `nb_variables + 1` layers; the `open_by_layer` bookkeeping is exact and
    nothing crashed.  Nothing is said of the contents of the cache or of the store. -/
structure JSInv (dv : DSolverCfg S K) (H : Nat → S → EInt) (s : KDSt S K) : Prop where
  nodes : ∀ c ∈ s.st.fringe, C01.NodeOk dv.sv.P c
  lbLo : iMin ≤ s.st.bestLb
  solLb : s.st.bestSol = none → s.st.bestLb = iMin
  noAbort : s.st.abort = false
  snd : ∀ opt, (H 0 dv.sv.P.init).addI dv.sv.P.initVal = some opt →
    s.st.bestLb ≤ opt ∧ ∀ p, s.st.bestSol = some p → SolOf dv.sv.P p s.st.bestLb
  infeas : (H 0 dv.sv.P.init).addI dv.sv.P.initVal = none → s.st.bestLb = iMin ∧ s.st.bestSol = none
  clen : s.cache.layers.length = dv.sv.P.nbVars + 1
  slen : s.store.layers.length = dv.sv.P.nbVars + 1
  lay : LInv dv.sv s.st

theorem isSol_some {cfg : Cfg S K} {p0 : List Dec} {w : Int} {sol : Option (List Dec)} (h : IsSol cfg p0 w sol) :
    ∃ p, sol = some p := by
  obtain ⟨k, s, q, L, _, _, _, hsol⟩ := h
  exact ⟨_, hsol⟩

/-- **`process_one_node` with cache and checker, any popped node, any rule**: no panic, the invariant is preserved -/
theorem kdprocess_inv {dv : DSolverCfg S K} {H : Nat → S → EInt} {B0 B : Int} (hwf : WellFormed dv.sv H B0 B)
    (st : SeqSt S) (c0 : Cache S) (d0 : DomStore S K) (N : SubP S)
    (hN : C01.NodeOk dv.sv.P N) (hnodes : ∀ c ∈ st.fringe, C01.NodeOk dv.sv.P c) (hlbLo : iMin ≤ st.bestLb)
    (hsolLb : st.bestSol = none → st.bestLb = iMin) (hab : st.abort = false)
    (hsnd : ∀ opt, (H 0 dv.sv.P.init).addI dv.sv.P.initVal = some opt →
      st.bestLb ≤ opt ∧ ∀ p, st.bestSol = some p → SolOf dv.sv.P p st.bestLb)
    (hinf : (H 0 dv.sv.P.init).addI dv.sv.P.initVal = none → st.bestLb = iMin ∧ st.bestSol = none)
    (hclen : c0.layers.length = dv.sv.P.nbVars + 1) (hslen : d0.layers.length = dv.sv.P.nbVars + 1)
    (hlay : LayersOk dv.sv.P.nbVars st.openByLayer st.fringe) (hcr : st.crashed = false) :
    ∃ (t : KDSt S K) (me : Bool) (r x : DDRes S), dv.kdprocess st c0 d0 N = some t ∧
      t.st = (st.process dv.sv.dedup N me r x).1 ∧
      (∀ o, x = .ok o → ∀ c ∈ o.cutset, N.depth < c.depth ∧ c.depth ≤ dv.sv.P.nbVars) ∧ JSInv dv H t := by
  obtain ⟨p0, hroot, hperm⟩ := hN
  have hdN : N.depth ≤ dv.sv.P.nbVars := reach_depth_le hwf.nv hroot
  have hBN : NoClamp dv.sv.P dv.sv.R N.value B := hwf.bound.noClamp_at hwf.nv hroot
  have hme := mustExplore_view c0 N (by omega)
  have hsame : JSInv dv H ⟨st, c0, d0⟩ := ⟨hnodes, hlbLo, hsolLb, hab, hsnd, hinf, hclen, hslen, ⟨hlay, hcr⟩⟩
  by_cases hub : N.ub ≤ st.bestLb
  · refine ⟨⟨st, c0, d0⟩, true, .cutoff, .cutoff, ?_, (process_skip_ub dv.sv.dedup st N true _ _ hub).symm,
      (fun o ho => by cases ho), hsame⟩
    unfold DSolverCfg.kdprocess; rw [if_pos hub]
  by_cases hp : prunM (viewOf c0) N
  · refine ⟨⟨st, c0, d0⟩, false, .cutoff, .cutoff, ?_, (process_skip_me dv.sv.dedup st N _ _).symm,
      (fun o ho => by cases ho), hsame⟩
    unfold DSolverCfg.kdprocess
    rw [if_neg hub, hme, decide_eq_false (fun hn => hn hp)]
  have hmeT : c0.mustExplore N.state N.depth N.value = some true := by rw [hme, decide_eq_true hp]
  -- the restricted compilation
  obtain ⟨hokR', hsR'⟩ := compile_no_crash_joint (dv.kdcfg .restricted N st.bestLb) B p0 c0 d0 0 (hwf.width N) hwf.nv hBN
    hroot hslen
  have hokR : (dv.kdcompR c0 d0 N st.bestLb).1 = .ok := hokR'
  have hsR : (dv.kdcompR c0 d0 N st.bestLb).2.2.2.store.layers.length = dv.sv.P.nbVars + 1 := hsR'
  have hdepR : ∀ u ∈ (dv.kdcompR c0 d0 N st.bestLb).2.1.cacheUpdates, u.2.1 ≤ dv.sv.P.nbVars :=
    ups_depth_joint (dv.kdcfg .restricted N st.bestLb) B p0 c0 d0 0 hBN hwf.nv hroot hokR'
  obtain ⟨c1, hc1, hl1, _⟩ := applyUps_spec (dv.kdcompR c0 d0 N st.bestLb).2.1.cacheUpdates.reverse c0 (by
    intro u hu
    have := hdepR u (List.mem_reverse.mp hu)
    rw [hclen]; exact Nat.lt_succ_of_le this)
  have sR : ∀ w, (toOut (dv.kdcompR c0 d0 N st.bestLb).2.1).bestExact = some w →
      IsSol (dv.kdcfg .restricted N st.bestLb) p0 w (toOut (dv.kdcompR c0 d0 N st.bestLb).2.1).bestExactSol :=
    fun w hw => isSol_restricted (dv.kdcfg .restricted N st.bestLb) B p0 c0 d0 0 none rfl hBN hroot hokR' w hw
  generalize hr : dv.kdcompR c0 d0 N st.bestLb = cR at *
  have eR : ∀ w, (toOut cR.2.1).bestExact = some w → ∃ p, (toOut cR.2.1).bestExactSol = some p :=
    fun w hw => isSol_some (sR w hw)
  -- the relaxed compilation (consulting `c1` and the store left by the restricted compilation)
  obtain ⟨hokX', hsX'⟩ := compile_no_crash_joint (dv.kdcfg .relaxed N (st.updateBest (toOut cR.2.1)).bestLb) B p0 c1
    cR.2.2.2.store 0 (hwf.width N) hwf.nv hBN hroot hsR
  have hokX : (dv.kdcompX c1 cR.2.2.2.store N (st.updateBest (toOut cR.2.1)).bestLb).1 = .ok := hokX'
  have hsX : (dv.kdcompX c1 cR.2.2.2.store N (st.updateBest (toOut cR.2.1)).bestLb).2.2.2.store.layers.length =
      dv.sv.P.nbVars + 1 := hsX'
  have hdepX : ∀ u ∈ (dv.kdcompX c1 cR.2.2.2.store N (st.updateBest (toOut cR.2.1)).bestLb).2.1.cacheUpdates,
      u.2.1 ≤ dv.sv.P.nbVars :=
    ups_depth_joint (dv.kdcfg .relaxed N (st.updateBest (toOut cR.2.1)).bestLb) B p0 c1 cR.2.2.2.store 0 hBN hwf.nv hroot hokX'
  obtain ⟨c2, hc2, hl2, _⟩ := applyUps_spec
    (dv.kdcompX c1 cR.2.2.2.store N (st.updateBest (toOut cR.2.1)).bestLb).2.1.cacheUpdates.reverse c1 (by
    intro u hu
    have := hdepX u (List.mem_reverse.mp hu)
    rw [hl1, hclen]; exact Nat.lt_succ_of_le this)
  have sX : ∀ w, (toOut (dv.kdcompX c1 cR.2.2.2.store N (st.updateBest (toOut cR.2.1)).bestLb).2.1).bestExact = some w →
      IsSol (dv.kdcfg .relaxed N (st.updateBest (toOut cR.2.1)).bestLb) p0 w
        (toOut (dv.kdcompX c1 cR.2.2.2.store N (st.updateBest (toOut cR.2.1)).bestLb).2.1).bestExactSol :=
    fun w hw => isSol_relaxed_joint (dv.kdcfg .relaxed N (st.updateBest (toOut cR.2.1)).bestLb) B p0 c1 cR.2.2.2.store 0 rfl
      (hwf.width N) hBN hroot hokX' w hw
  have hcsX : ∀ c ∈ (dv.kdcompX c1 cR.2.2.2.store N (st.updateBest (toOut cR.2.1)).bestLb).2.1.cutset,
      C01.NodeOk dv.sv.P c ∧ N.depth < c.depth ∧ c.depth ≤ dv.sv.P.nbVars := by
    intro c hc
    obtain ⟨q, hq, hpath⟩ := C08.cutset_exact (dv.kdcfg .relaxed N (st.updateBest (toOut cR.2.1)).bestLb)
      B p0 c1 cR.2.2.2.store 0 none hroot hBN hokX' _ (.inl rfl) c hc
    have hdeep := C08.cutset_progress (dv.kdcfg .relaxed N (st.updateBest (toOut cR.2.1)).bestLb)
      B p0 c1 cR.2.2.2.store 0 none rfl hroot hBN hokX' _ (.inl rfl) c hc
    refine ⟨⟨p0 ++ q, hq, ?_⟩, hdeep, reach_depth_le hwf.nv hq⟩
    rw [hpath]
    exact List.Perm.append hperm (List.reverse_perm q)
  generalize hx : dv.kdcompX c1 cR.2.2.2.store N (st.updateBest (toOut cR.2.1)).bestLb = cX at *
  have eX : ∀ w, (toOut cX.2.1).bestExact = some w → ∃ p, (toOut cX.2.1).bestExactSol = some p :=
    fun w hw => isSol_some (sX w hw)
  -- the state the turn ends in
  have hkp : dv.kdprocess st c0 d0 N = some ⟨(st.process dv.sv.dedup N true (.ok (toOut cR.2.1)) (.ok (toOut cX.2.1))).1,
      if cR.2.1.isExact then c1 else c2, if cR.2.1.isExact then cR.2.2.2.store else cX.2.2.2.store⟩ := by
    unfold DSolverCfg.kdprocess
    rw [if_neg hub, hmeT]
    simp only [hr, hokR, ne_eq, not_true_eq_false, if_false, hc1]
    rw [process_main dv.sv.dedup st N (toOut cR.2.1) (toOut cX.2.1) hub]
    have e1 : (toOut cR.2.1).isExact = cR.2.1.isExact := rfl
    have e2 : (toOut cX.2.1).isExact = cX.2.1.isExact := rfl
    have e3 : (toOut cX.2.1).cutset = cX.2.1.cutset := rfl
    rw [e1, e2, e3]
    cases hre : cR.2.1.isExact with
    | true => simp only [if_true]
    | false =>
      simp only [Bool.false_eq_true, if_false, hx, hokX, not_true_eq_false, hc2]
      cases hxe : cX.2.1.isExact <;> simp only [Bool.false_eq_true, if_false, if_true]
  refine ⟨_, true, .ok (toOut cR.2.1), .ok (toOut cX.2.1), hkp, rfl, ?_, ?_⟩
  · intro o ho c hc
    injection ho with ho
    subst ho
    exact (hcsX c hc).2
  · refine ⟨?_, ?_, ?_, ?_, ?_, ?_, ?_, ?_, ?_⟩
    · refine process_forall (C01.NodeOk dv.sv.P) (nodeOk_ub dv.sv.P) dv.sv.dedup st N true _ _ hnodes ?_
      intro o ho c hc
      injection ho with ho
      subst ho
      exact (hcsX c hc).1
    · have h1 := updateBest_lb_ge st (toOut cR.2.1)
      have h2 := updateBest_lb_ge (st.updateBest (toOut cR.2.1)) (toOut cX.2.1)
      rcases process_lb_sol dv.sv.dedup st N true (toOut cR.2.1) (toOut cX.2.1) with ⟨e, _⟩ | ⟨e, _⟩ | ⟨e, _⟩ <;>
      · show iMin ≤ (st.process dv.sv.dedup N true (.ok (toOut cR.2.1)) (.ok (toOut cX.2.1))).1.bestLb
        rw [e]; omega
    · have a1 := updateBest_solLb st _ eR hsolLb
      have a2 := updateBest_solLb (st.updateBest (toOut cR.2.1)) _ eX a1
      show (st.process dv.sv.dedup N true (.ok (toOut cR.2.1)) (.ok (toOut cX.2.1))).1.bestSol = none →
        (st.process dv.sv.dedup N true (.ok (toOut cR.2.1)) (.ok (toOut cX.2.1))).1.bestLb = iMin
      rcases process_lb_sol dv.sv.dedup st N true (toOut cR.2.1) (toOut cX.2.1) with ⟨e1, e2⟩ | ⟨e1, e2⟩ | ⟨e1, e2⟩
      · rw [e1, e2]; exact hsolLb
      · rw [e1, e2]; exact a1
      · rw [e1, e2]; exact a2
    · show (st.process dv.sv.dedup N true (.ok (toOut cR.2.1)) (.ok (toOut cX.2.1))).1.abort = false
      rw [process_abort]; exact hab
    · -- soundness of the incumbent
      intro opt hopt
      obtain ⟨hl0, hs0⟩ := hsnd opt hopt
      have hrs : ∀ w, (toOut cR.2.1).bestExact = some w →
          ∃ p, (toOut cR.2.1).bestExactSol = some p ∧ SolOf dv.sv.P p w ∧ w ≤ opt := by
        intro w hw
        exact (isSol_facts (dv.kdcfg .restricted N st.bestLb) H opt p0 hwf.pot hroot hperm hopt w _ (sR w hw)).1
      have hxs : ∀ w, (toOut cX.2.1).bestExact = some w →
          ∃ p, (toOut cX.2.1).bestExactSol = some p ∧ SolOf dv.sv.P p w ∧ w ≤ opt := by
        intro w hw
        exact (isSol_facts (dv.kdcfg .relaxed N (st.updateBest (toOut cR.2.1)).bestLb) H opt p0 hwf.pot hroot hperm hopt w _
          (sX w hw)).1
      obtain ⟨hl1', hs1⟩ := Ddo.C09.updateBest_ok' opt (SolOf dv.sv.P) st (toOut cR.2.1) hl0 hs0 hrs
      obtain ⟨hl2', hs2⟩ := Ddo.C09.updateBest_ok' opt (SolOf dv.sv.P) (st.updateBest (toOut cR.2.1)) (toOut cX.2.1) hl1' hs1 hxs
      show (st.process dv.sv.dedup N true (.ok (toOut cR.2.1)) (.ok (toOut cX.2.1))).1.bestLb ≤ opt ∧
        ∀ p, (st.process dv.sv.dedup N true (.ok (toOut cR.2.1)) (.ok (toOut cX.2.1))).1.bestSol = some p →
          SolOf dv.sv.P p (st.process dv.sv.dedup N true (.ok (toOut cR.2.1)) (.ok (toOut cX.2.1))).1.bestLb
      rcases process_lb_sol dv.sv.dedup st N true (toOut cR.2.1) (toOut cX.2.1) with ⟨e1, e2⟩ | ⟨e1, e2⟩ | ⟨e1, e2⟩
      · rw [e1, e2]; exact ⟨hl0, hs0⟩
      · rw [e1, e2]; exact ⟨hl1', hs1⟩
      · rw [e1, e2]; exact ⟨hl2', hs2⟩
    · intro hinf'
      have hdead : optOf H N = none := reach_dead hwf.pot hinf' hroot
      have nR : (toOut cR.2.1).bestExact = none := by
        cases hb : (toOut cR.2.1).bestExact with
        | none => rfl
        | some w =>
          obtain ⟨y, hy, _⟩ := within_of_isSol (dv.kdcfg .restricted N st.bestLb) H p0 hwf.pot hroot w _ (sR w hb)
          rw [show optOf H (dv.kdcfg .restricted N st.bestLb).root = optOf H N from rfl, hdead] at hy
          cases hy
      have nX : (toOut cX.2.1).bestExact = none := by
        cases hb : (toOut cX.2.1).bestExact with
        | none => rfl
        | some w =>
          obtain ⟨y, hy, _⟩ := within_of_isSol (dv.kdcfg .relaxed N (st.updateBest (toOut cR.2.1)).bestLb) H p0 hwf.pot hroot
            w _ (sX w hb)
          rw [show optOf H (dv.kdcfg .relaxed N (st.updateBest (toOut cR.2.1)).bestLb).root = optOf H N from rfl, hdead] at hy
          cases hy
      have u1 := updateBest_none st _ nR
      have u2 := updateBest_none (st.updateBest (toOut cR.2.1)) _ nX
      show (st.process dv.sv.dedup N true (.ok (toOut cR.2.1)) (.ok (toOut cX.2.1))).1.bestLb = iMin ∧
        (st.process dv.sv.dedup N true (.ok (toOut cR.2.1)) (.ok (toOut cX.2.1))).1.bestSol = none
      rcases process_lb_sol dv.sv.dedup st N true (toOut cR.2.1) (toOut cX.2.1) with ⟨e1, e2⟩ | ⟨e1, e2⟩ | ⟨e1, e2⟩
      · rw [e1, e2]; exact hinf hinf'
      · rw [e1, e2, u1]; exact hinf hinf'
      · rw [e1, e2, u2, u1]; exact hinf hinf'
    · show (if cR.2.1.isExact then c1 else c2).layers.length = dv.sv.P.nbVars + 1
      split
      · rw [hl1]; exact hclen
      · rw [hl2, hl1]; exact hclen
    · show (if cR.2.1.isExact then cR.2.2.2.store else cX.2.2.2.store).layers.length = dv.sv.P.nbVars + 1
      split
      · exact hsR
      · exact hsX
    · obtain ⟨h3, h4⟩ := process_layers dv.sv.P.nbVars dv.sv.dedup st N true (toOut cR.2.1) (toOut cX.2.1)
        (fun c hc => (hcsX c hc).2.2) hlay
      exact ⟨h3, h4.trans hcr⟩

/-- **one turn of the solver with cache and checker, any popped node, any rule**: no panic, the invariant is preserved, the
    sequential state makes a `Step` of `Props/C01t.lean` -/
theorem kdturn_inv {dv : DSolverCfg S K} {H : Nat → S → EInt} {B0 B : Int} (hwf : WellFormed dv.sv H B0 B)
    (s : KDSt S K) (N : SubP S) (rest : List (SubP S)) (hpop : s.st.fringe.Perm (N :: rest)) (hI : JSInv dv H s) :
    ∃ t, dv.kdturn s N rest = some t ∧ JSInv dv H t ∧ C01t.Step dv.sv.P.nbVars dv.sv.dedup s.st t.st := by
  obtain ⟨c0, hc0, hl0, _⟩ := cleanCache_spec dv.sv.P.nbVars s.st.openByLayer dv.sv.P.nbVars s.st.firstActive s.cache hI.clen
  generalize hfa : cleanLoop dv.sv.P.nbVars s.st.openByLayer dv.sv.P.nbVars s.st.firstActive = fa
  obtain ⟨f1, f2, f3⟩ := popped_fields s.st N rest fa
  have hNok : C01.NodeOk dv.sv.P N := hI.nodes N (hpop.mem_iff.mpr List.mem_cons_self)
  obtain ⟨p0, hroot, _⟩ := hNok
  have hdN := reach_depth_le hwf.nv hroot
  obtain ⟨g1, g2⟩ := afterPop_layers dv.sv.P.nbVars s.st N rest fa hdN hpop hI.lay.1
  obtain ⟨t, me, r, x, hk, hst, hprog, hT⟩ := kdprocess_inv hwf (popped s.st N rest fa) c0 s.store N
    (hI.nodes N (hpop.mem_iff.mpr List.mem_cons_self))
    (by rw [f1]; exact fun c hc => hI.nodes c (hpop.mem_iff.mpr (List.mem_cons_of_mem _ hc)))
    (by rw [f2]; exact hI.lbLo) (by rw [f2, f3]; exact hI.solLb) (by rw [popped_more]; exact hI.noAbort)
    (by rw [f2, f3]; exact hI.snd) (by rw [f2, f3]; exact hI.infeas) hl0 hI.slen g1 (g2.trans hI.lay.2)
  refine ⟨t, ?_, hT, ?_⟩
  · unfold DSolverCfg.kdturn
    rw [hc0, hfa]
    exact hk
  · rw [hst]
    exact C01t.Step.pop s.st N rest fa me r x hpop hprog

/-! ## the invariant holds initially, and along the runs -/

theorem init_jsinv {dv : DSolverCfg S K} {H : Nat → S → EInt} {B0 B : Int} (hwf : WellFormed dv.sv H B0 B) :
    JSInv dv H (KDSt.init dv) := by
  have hfr : (SeqSt.init dv.sv.P none dv.sv.dedup).fringe = [⟨dv.sv.P.init, dv.sv.P.initVal, [], iMax, 0⟩] := by
    cases hd : dv.sv.dedup <;> rfl
  refine ⟨?_, Int.le_refl _, fun _ => rfl, rfl, ?_, fun _ => ⟨rfl, rfl⟩, ?_, ?_, init_linv dv.sv⟩
  · intro c hc
    rw [show (KDSt.init dv).st.fringe = _ from hfr] at hc
    rcases List.mem_cons.mp hc with e | e
    · subst e; exact ⟨[], Reach.root, List.Perm.refl _⟩
    · cases e
  · intro opt hopt
    have hb := opt_bound hwf.pot hwf.nv hwf.bound hopt
    have hBs := hwf.bound.B_small
    refine ⟨?_, fun p hp => by cases hp⟩
    show iMin ≤ opt
    simp only [iMin]; omega
  · show (Cache.init dv.sv.P.nbVars : Cache S).layers.length = dv.sv.P.nbVars + 1
    simp [Cache.init]
  · show (DomStore.init dv.sv.P.nbVars : DomStore S K).layers.length = dv.sv.P.nbVars + 1
    simp [DomStore.init]

theorem kdstep_inv {dv : DSolverCfg S K} {H : Nat → S → EInt} {B0 B : Int} (hwf : WellFormed dv.sv H B0 B) {s t : KDSt S K}
    (h : KDStep dv s t) (hI : JSInv dv H s) : JSInv dv H t ∧ C01t.Step dv.sv.P.nbVars dv.sv.dedup s.st t.st := by
  cases h with
  | pop N rest hpop hmax hturn =>
    obtain ⟨t', ht', hT, hS⟩ := kdturn_inv hwf s N rest hpop hI
    rw [hturn] at ht'
    cases ht'
    exact ⟨hT, hS⟩

theorem kdrun_inv {dv : DSolverCfg S K} {H : Nat → S → EInt} {B0 B : Int} (hwf : WellFormed dv.sv H B0 B) {s t : KDSt S K}
    (h : KDRun dv s t) (hI : JSInv dv H s) : JSInv dv H t := by
  induction h with
  | refl => exact hI
  | tail _ hstep ih => exact (kdstep_inv hwf hstep ih).1

/-- termination: the step relation, on the states that satisfy the invariant, is well-founded -/
theorem kdstep_terminates {dv : DSolverCfg S K} {H : Nat → S → EInt} {B0 B : Int} (hwf : WellFormed dv.sv H B0 B) :
    WellFounded (fun t s : KDSt S K => JSInv dv H s ∧ KDStep dv s t) :=
  Subrelation.wf (r := InvImage (fun t s : SeqSt S => C01t.Step dv.sv.P.nbVars dv.sv.dedup s t) KDSt.st)
    (fun {_ _} h => (kdstep_inv hwf h.2 h.1).2) (InvImage.wf _ (C01t.seq_terminates dv.sv.P.nbVars dv.sv.dedup))

/-- progress: from a state that satisfies the invariant and still has open sub-problems a best-first turn is possible -/
theorem kdstep_progress {dv : DSolverCfg S K} {H : Nat → S → EInt} {B0 B : Int} (hwf : WellFormed dv.sv H B0 B) {s : KDSt S K}
    (hI : JSInv dv H s) (hne : s.st.fringe ≠ []) : ∃ t, KDStep dv s t := by
  obtain ⟨N, rest, hp⟩ := popMax_some s.st.fringe hne
  obtain ⟨hpop, hmax⟩ := popMax_spec s.st.fringe N rest hp
  obtain ⟨t, ht, _, _⟩ := kdturn_inv hwf s N rest hpop hI
  exact ⟨t, KDStep.pop s t N rest hpop hmax ht⟩

/-- **`JointSound`** (stated, not proved, in `Props/C10c.lean`): for every well-formed model and **every** dominance rule, the
    sequential solver with the threshold cache and the dominance checker terminates, never panics, is never aborted, and only
    ever reports the value of a stored solution that is a feasible complete path (so `best_lb ≤ optimum`; nothing is reported
    for an infeasible problem) -/
theorem jointSound : JointSound := by
  intro S K _ _ dv H B0 B hwf
  refine ⟨?_, fun t ht => ?_⟩
  · exact Subrelation.wf (fun {_ _} h => ⟨kdrun_inv hwf h.1 (init_jsinv hwf), h.2⟩) (kdstep_terminates hwf)
  · have hI := kdrun_inv hwf ht (init_jsinv hwf)
    exact ⟨fun hne => kdstep_progress hwf hI hne, hI.lay.2, hI.noAbort, hI.snd, fun hinf => (hI.infeas hinf).2⟩

end Ddo.C10c

#print axioms Ddo.C10c.kdprocess_inv
#print axioms Ddo.C10c.kdturn_inv
#print axioms Ddo.C10c.jointSound
