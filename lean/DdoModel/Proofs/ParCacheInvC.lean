import DdoModel.Proofs.ParCacheInvB
/-! # The parallel caching solver — the invariant `KPInv` step by step (1): `get_workload` -/
set_option linter.unusedSectionVars false
set_option linter.unusedVariables false
namespace Ddo.ParCache
open Ddo Ddo.C09 Ddo.ParSys Ddo.Theta
variable {S : Type} [DecidableEq S]

section
variable (H : Nat → S → EInt) (opt : Int) (Sol : List Dec → Int → Prop) (Rg : Nat → Int → Prop)

/-! ## going back from the state after a `set` -/

theorem prunable_back {s : KSys S} {crit' : ParCrit S} {cache' : Cache S} {log' : List (Cache S)} {i : Nat} {w0 a : KW S}
    {c : SubP S} (hw : s.ws[i]? = some w0) (hpc : ∀ c ∈ a.pendCut, c ∈ w0.pendCut)
    (hF : ∀ c ∈ crit'.base.fringe, c ∈ s.crit.base.fringe)
    (h : Prunable ({ crit := crit', cache := cache', log := log', ws := s.ws.set i a } : KSys S) c) : Prunable s c := by
  rcases prunable_set h with h | h | ⟨j, w, _, hj, hc⟩
  · exact .inl (hF c h)
  · exact .inr ⟨i, w0, hw, hpc c h⟩
  · exact .inr ⟨j, w, hj, hc⟩

theorem held_back {s : KSys S} {crit' : ParCrit S} {cache' : Cache S} {log' : List (Cache S)} {i : Nat} {w0 a : KW S}
    {c : SubP S} (hw : s.ws[i]? = some w0) (ho : ∀ c, a.openNode = some c → w0.openNode = some c)
    (h : Held ({ crit := crit', cache := cache', log := log', ws := s.ws.set i a } : KSys S) c) : Held s c := by
  rcases held_set h with h | ⟨j, w, _, hj, hc⟩
  · exact ⟨i, w0, hw, ho c h⟩
  · exact ⟨j, w, hj, hc⟩

theorem fresh_back {s : KSys S} {crit' : ParCrit S} {cache' : Cache S} {log' : List (Cache S)} {i : Nat} {w0 a : KW S}
    {c : SubP S} (hw : s.ws[i]? = some w0) (hnf : ∀ c, (a = .gwW c ∨ a = .readR c) → (w0 = .gwW c ∨ w0 = .readR c))
    (h : Fresh ({ crit := crit', cache := cache', log := log', ws := s.ws.set i a } : KSys S) c) : Fresh s c := by
  rcases fresh_set h with h | ⟨j, _, hj⟩
  · rcases hnf c h with e | e
    · exact ⟨i, .inl (by rw [hw, e])⟩
    · exact ⟨i, .inr (by rw [hw, e])⟩
  · exact ⟨j, hj⟩

theorem wok_set {s : KSys S} (hI : KPInv H opt Sol Rg s) {i : Nat} {a : KW S} {lb' : Int} {log' : List (Cache S)}
    (hlb : s.crit.base.bestLb ≤ lb') (hlog : ∀ c ∈ s.log, c ∈ log') (ha : WOk H opt Sol Rg lb' log' a)
    (j : Nat) (w : KW S) (hj : (s.ws.set i a)[j]? = some w) : WOk H opt Sol Rg lb' log' w := by
  rcases get_set_split hj with ⟨_, rfl⟩ | ⟨_, hj'⟩
  · exact ha
  · exact (hI.wok j w hj').mono H opt Sol Rg hlb hlog

theorem popmax_set {s : KSys S} (hI : KPInv H opt Sol Rg s) {i : Nat} {a : KW S} {F' : List (SubP S)}
    (hF : ∀ c ∈ F', c ∈ s.crit.base.fringe) (ha : ∀ n, a = .gwW n → ∀ c ∈ F', c.ub ≤ n.ub)
    (j : Nat) (n : SubP S) (hj : (s.ws.set i a)[j]? = some (.gwW n)) : ∀ c ∈ F', c.ub ≤ n.ub := by
  rcases get_set_split hj with ⟨_, e⟩ | ⟨_, hj'⟩
  · exact ha n e.symm
  · exact fun c hc => hI.popmax j n hj' c (hF c hc)

theorem done_set {s : KSys S} (hI : KPInv H opt Sol Rg s) {i : Nat} {a : KW S} {lb' : Int}
    (hlb : s.crit.base.bestLb ≤ lb') (hle : lb' ≤ opt) (ha : a = .done → lb' = opt)
    (h : ∃ j : Nat, (s.ws.set i a)[j]? = some .done) : lb' = opt := by
  obtain ⟨j, hj⟩ := h
  rcases get_set_split hj with ⟨_, e⟩ | ⟨_, hj'⟩
  · exact ha e.symm
  · have := hI.doneOk ⟨j, hj'⟩; omega

/-! ## steps that change nothing that is carried -/

theorem kpinv_same {s : KSys S} {crit' : ParCrit S} {i : Nat} {w0 a : KW S} (hI : KPInv H opt Sol Rg s)
    (hw : s.ws[i]? = some w0) (hs : SameW w0 a)
    (hF : crit'.base.fringe = s.crit.base.fringe) (hlb : crit'.base.bestLb = s.crit.base.bestLb)
    (hsol : crit'.base.bestSol = s.crit.base.bestSol)
    (hnf : ∀ c, a ≠ .gwW c ∧ a ≠ .readR c)
    (hwok : WOk H opt Sol Rg s.crit.base.bestLb s.log a)
    (hdone : a = .done → s.crit.base.bestLb = opt) :
    KPInv H opt Sol Rg { crit := crit', cache := s.cache, log := s.log, ws := s.ws.set i a } := by
  have hB : ∀ x, Beats ({ crit := crit', cache := s.cache, log := s.log, ws := s.ws.set i a } : KSys S) x → Beats s x := by
    intro x hb
    have hb' : BeatsC crit'.base.bestLb (s.ws.set i a) x := hb
    rw [hlb] at hb'
    exact (beatsC_set_same hw hs).mp hb'
  have hT : ∀ x d, Beats ({ crit := crit', cache := s.cache, log := s.log, ws := s.ws.set i a } : KSys S) x →
      Live H s x d → Live H ({ crit := crit', cache := s.cache, log := s.log, ws := s.ws.set i a } : KSys S) x d := by
    intro x d _ hl
    show LiveC H crit'.base.fringe (viewOf s.cache) (s.ws.set i a) x d
    rw [hF]
    exact (liveC_set_same H hw hs.toL).mpr hl
  have hpb : ∀ c, Prunable ({ crit := crit', cache := s.cache, log := s.log, ws := s.ws.set i a } : KSys S) c → Prunable s c :=
    fun c h => prunable_back hw (fun c hc => by rw [← hs.2.2]; exact hc) (fun c hc => by rw [← hF]; exact hc) h
  refine kpinv_step H opt Sol Rg hI hB hT ?_ (fun c hc => hI.rng c (hpb c hc)) (by show crit'.base.bestLb ≤ opt; rw [hlb]; exact hI.lbOk)
    (by show ∀ p, crit'.base.bestSol = some p → Sol p crit'.base.bestLb; rw [hlb, hsol]; exact hI.solOk) hI.cur
    (fun c hc => .inl hc) ?_ ?_ ?_ ?_
  · rintro c (hc | hc)
    · exact hI.good c (.inl (hpb c hc))
    · exact hI.good c (.inr (held_back hw (fun c hc => by rw [← hs.1]; exact hc) hc))
  · rintro c (hc | hc)
    · exact .inl (.inl (hpb c hc))
    · exact .inl (.inr (fresh_back hw (fun c hc => by rcases hc with e | e; exact absurd e (hnf c).1; exact absurd e (hnf c).2) hc))
  · intro j n hj
    show ∀ c ∈ crit'.base.fringe, c.ub ≤ n.ub
    rw [hF]
    exact popmax_set H opt Sol Rg hI (fun c hc => hc) (fun n e => absurd e (hnf n).1) j n hj
  · intro j w hj
    show WOk H opt Sol Rg crit'.base.bestLb s.log w
    rw [hlb]
    exact wok_set H opt Sol Rg hI (Int.le_refl _) (fun c hc => hc) hwok j w hj
  · intro h
    show crit'.base.bestLb = opt
    rw [hlb]
    exact done_set H opt Sol Rg hI (Int.le_refl _) hI.lbOk hdone h

/-! ## `clear_layer` -/

theorem view_clear_sub {c c' : Cache S} {d : Nat} (h : c.clearLayer d = some c') (st : S) (d' : Nat) (t : Thr)
    (ht : viewOf c' st d' = some t) : viewOf c st d' = some t := by
  rcases viewOf_clearLayer c c' d h st d' with e | e
  · rw [← e]; exact ht
  · rw [e] at ht; cases ht

theorem prunM_sub {T T' : CView S} (hsub : ∀ st d t, T' st d = some t → T st d = some t) {c : SubP S} (h : prunM T' c) :
    prunM T c := by
  obtain ⟨t, ht, hp⟩ := h
  exact ⟨t, hsub _ _ _ ht, hp⟩

theorem kpinv_gwClear {s : KSys S} (hI : KPInv H opt Sol Rg s) {c' : Cache S}
    (hcl : s.cache.clearLayer s.crit.base.firstActive = some c') :
    KPInv H opt Sol Rg { s with crit := bumpFirst s.crit, cache := c', log := c' :: s.log } := by
  have hsub := view_clear_sub hcl
  have hB : ∀ x, Beats ({ s with crit := bumpFirst s.crit, cache := c', log := c' :: s.log } : KSys S) x → Beats s x :=
    fun x hb => hb
  have hT : ∀ x d, Beats ({ s with crit := bumpFirst s.crit, cache := c', log := c' :: s.log } : KSys S) x →
      Live H s x d → Live H ({ s with crit := bumpFirst s.crit, cache := c', log := c' :: s.log } : KSys S) x d := by
    intro x d _ hl
    rcases hl with ⟨c, hc, hcc, hp⟩ | ⟨j, w, hw, ⟨n, hn, hcc⟩ | ⟨c, hc, hcc, hp⟩⟩
    · exact .inl ⟨c, hc, hcc, fun h => hp (prunM_sub hsub h)⟩
    · exact .inr ⟨j, w, hw, .inl ⟨n, hn, hcc⟩⟩
    · exact .inr ⟨j, w, hw, .inr ⟨c, hc, hcc, fun h => hp (prunM_sub hsub h)⟩⟩
  refine kpinv_step H opt Sol Rg hI hB hT (fun c hc => hI.good c hc) (fun c hc => hI.rng c hc) hI.lbOk hI.solOk
    List.mem_cons_self ?_ (fun c hc => .inl hc) hI.popmax ?_ hI.doneOk
  · intro c hc
    rcases List.mem_cons.mp hc with e | e
    · right
      subst e
      intro st d tt htt
      exact (hI.jst s.cache hI.cur st d tt (hsub st d tt htt)).transfer H Rg hB hT
    · exact .inl e
  · intro j w hj
    exact (hI.wok j w hj).mono H opt Sol Rg (Int.le_refl _) (fun c hc => List.mem_cons_of_mem _ hc)

/-! ## the pop loop -/

theorem mustExplore_prun {c : Cache S} {N : SubP S} {b : Bool} (h : c.mustExplore N.state N.depth N.value = some b) :
    b = false ↔ prunM (viewOf c) N := by
  unfold Cache.mustExplore at h
  cases hg : c.get N.state N.depth with
  | none => rw [hg] at h; cases h
  | some cell =>
    rw [hg] at h
    simp only [Option.map_some, Option.some.injEq] at h
    have hv : viewOf c N.state N.depth = cell := by unfold viewOf; rw [hg]; rfl
    rw [prunM_iff, hv, h]

/-- `nn.ub <= best_lb` at a best-first pop: nothing in the fringe carries anything that beats, unless strictly deeper -/
theorem kpinv_gwStarve {s : KSys S} (hI : KPInv H opt Sol Rg s) {i : Nat} {N : SubP S} {rest : List (SubP S)}
    (hw : s.ws[i]? = some .gwP) (hp : PopMax s.crit.base.fringe N rest) (hub : N.ub ≤ s.crit.base.bestLb) :
    KPInv H opt Sol Rg { s with crit := starve s.crit, ws := s.ws.set i .idle } := by
  have hs : SameW (.gwP : KW S) .idle := ⟨rfl, rfl, rfl⟩
  have hB : ∀ x, Beats ({ s with crit := starve s.crit, ws := s.ws.set i .idle } : KSys S) x → Beats s x :=
    fun x hb => (beatsC_set_same hw hs).mp hb
  have hle : ∀ c ∈ s.crit.base.fringe, c.ub ≤ s.crit.base.bestLb := by
    intro c hc
    rcases (mem_of_popMax hp c).mp hc with e | e
    · subst e; exact hub
    · have := hp.2 c e; omega
  have hT : ∀ x d, Beats ({ s with crit := starve s.crit, ws := s.ws.set i .idle } : KSys S) x →
      Live H s x d → Live H ({ s with crit := starve s.crit, ws := s.ws.set i .idle } : KSys S) x d := by
    apply tp_of_local
    intro x d hb hl
    refine liveC_cases H (i := i) hl (fun c hc hcc _ => ?_) (fun w1 hw1 hl1 => ?_) (fun j w hj hwj hl1 => ?_)
    · right
      obtain ⟨hd, y, hy, hxy⟩ := hcc
      rcases hI.ub c (.inl (.inl hc)) y hy ((hB x hb).up hxy) with h1 | h1
      · have := hle c hc; have := (hB x hb).1; omega
      · exact ⟨y, c.depth + 1, hxy, by omega, h1⟩
    · rw [hw] at hw1; cases hw1
      left
      exact liveC_of_self H hw ((wlive_same H hs.toL).mpr hl1)
    · left
      exact liveC_of_other H hj hwj hl1
  have hpb : ∀ c, Prunable ({ s with crit := starve s.crit, ws := s.ws.set i .idle } : KSys S) c → Prunable s c :=
    fun c h => prunable_back hw (fun c hc => by cases hc) (fun c hc => by cases hc) h
  refine kpinv_step H opt Sol Rg hI hB hT ?_ (fun c hc => hI.rng c (hpb c hc)) hI.lbOk hI.solOk hI.cur
    (fun c hc => .inl hc) ?_ ?_ ?_ ?_
  · rintro c (hc | hc)
    · exact hI.good c (.inl (hpb c hc))
    · exact hI.good c (.inr (held_back hw (fun c hc => by cases hc) hc))
  · rintro c (hc | hc)
    · exact .inl (.inl (hpb c hc))
    · exact .inl (.inr (fresh_back hw (fun c hc => by rcases hc with e | e <;> cases e) hc))
  · intro j n hj c hc
    cases hc
  · exact wok_set H opt Sol Rg hI (Int.le_refl _) (fun c hc => hc) trivial
  · exact done_set H opt Sol Rg hI (Int.le_refl _) hI.lbOk (fun e => by cases e)

theorem dropOne_spec {c c' : ParCrit S} {N : SubP S} {rest : List (SubP S)} (h : dropOne c N rest = some c') :
    c'.base.fringe = rest ∧ c'.base.bestLb = c.base.bestLb ∧ c'.base.bestSol = c.base.bestSol := by
  unfold dropOne at h
  split at h
  · cases h; exact ⟨rfl, rfl, rfl⟩
  · cases h

/-- a node refused by `must_explore` carried nothing -/
theorem kpinv_gwDrop {s : KSys S} (hI : KPInv H opt Sol Rg s) {N : SubP S} {rest : List (SubP S)} {c' : ParCrit S}
    (hp : PopMax s.crit.base.fringe N rest)
    (hme : s.cache.mustExplore N.state N.depth N.value = some false) (hd : dropOne s.crit N rest = some c') :
    KPInv H opt Sol Rg { s with crit := c' } := by
  obtain ⟨e1, e2, e3⟩ := dropOne_spec hd
  have hprun : prunM (viewOf s.cache) N := (mustExplore_prun hme).mp rfl
  have hsubF : ∀ c ∈ c'.base.fringe, c ∈ s.crit.base.fringe := by
    intro c hc; rw [e1] at hc; exact (mem_of_popMax hp c).mpr (.inr hc)
  have hB : ∀ x, Beats ({ s with crit := c' } : KSys S) x → Beats s x := by
    intro x hb
    have hb' : BeatsC c'.base.bestLb s.ws x := hb
    rw [e2] at hb'; exact hb'
  have hT : ∀ x d, Beats ({ s with crit := c' } : KSys S) x → Live H s x d → Live H ({ s with crit := c' } : KSys S) x d := by
    intro x d _ hl
    rcases hl with ⟨c, hc, hcc, hnp⟩ | h
    · rcases (mem_of_popMax hp c).mp hc with e | e
      · subst e; exact absurd hprun hnp
      · exact .inl ⟨c, by rw [e1]; exact e, hcc, hnp⟩
    · exact .inr h
  have hpb : ∀ c, Prunable ({ s with crit := c' } : KSys S) c → Prunable s c := by
    rintro c (h | h)
    · exact .inl (hsubF c h)
    · exact .inr h
  refine kpinv_step H opt Sol Rg hI hB hT ?_ (fun c hc => hI.rng c (hpb c hc))
    (by show c'.base.bestLb ≤ opt; rw [e2]; exact hI.lbOk)
    (by show ∀ p, c'.base.bestSol = some p → Sol p c'.base.bestLb; rw [e2, e3]; exact hI.solOk) hI.cur
    (fun c hc => .inl hc) ?_ ?_ ?_ ?_
  · rintro c (hc | hc)
    · exact hI.good c (.inl (hpb c hc))
    · exact hI.good c (.inr hc)
  · rintro c (hc | hc)
    · exact .inl (.inl (hpb c hc))
    · exact .inl (.inr hc)
  · intro j n hj c hc
    exact hI.popmax j n hj c (hsubF c hc)
  · intro j w hj
    show WOk H opt Sol Rg c'.base.bestLb s.log w
    rw [e2]; exact hI.wok j w hj
  · intro h
    show c'.base.bestLb = opt
    rw [e2]; exact hI.doneOk h

/-- `must_explore(nn) = true`: the node goes from the fringe to the hand -/
theorem kpinv_gwKeep {s : KSys S} (hI : KPInv H opt Sol Rg s) {i : Nat} {N : SubP S} {rest : List (SubP S)}
    (hw : s.ws[i]? = some .gwP) (hp : PopMax s.crit.base.fringe N rest) :
    KPInv H opt Sol Rg { s with crit := setFringe s.crit rest, ws := s.ws.set i (.gwW N) } := by
  have hsubF : ∀ c ∈ rest, c ∈ s.crit.base.fringe := fun c hc => (mem_of_popMax hp c).mpr (.inr hc)
  have hNF : N ∈ s.crit.base.fringe := (mem_of_popMax hp N).mpr (.inl rfl)
  have hB : ∀ x, Beats ({ s with crit := setFringe s.crit rest, ws := s.ws.set i (.gwW N) } : KSys S) x → Beats s x :=
    fun x hb => beatsC_of_set hw hb (Int.le_refl _) (fun v hv => by cases hv)
  have hT : ∀ x d, Beats ({ s with crit := setFringe s.crit rest, ws := s.ws.set i (.gwW N) } : KSys S) x →
      Live H s x d → Live H ({ s with crit := setFringe s.crit rest, ws := s.ws.set i (.gwW N) } : KSys S) x d := by
    intro x d _ hl
    refine liveC_cases H (i := i) hl (fun c hc hcc hnp => ?_) (fun w1 hw1 hl1 => ?_) (fun j w hj hwj hl1 => ?_)
    · rcases (mem_of_popMax hp c).mp hc with e | e
      · subst e
        exact liveC_of_self H hw (.inl ⟨c, rfl, hcc⟩)
      · exact liveC_of_F H (F := rest) e hcc hnp
    · rw [hw] at hw1; cases hw1
      rcases hl1 with ⟨n, hn, _⟩ | ⟨c, hc, _⟩
      · cases hn
      · cases hc
    · exact liveC_of_other H hj hwj hl1
  have hpb : ∀ c, Prunable ({ s with crit := setFringe s.crit rest, ws := s.ws.set i (.gwW N) } : KSys S) c → Prunable s c :=
    fun c h => prunable_back hw (fun c hc => by cases hc) hsubF h
  refine kpinv_step H opt Sol Rg hI hB hT ?_ (fun c hc => hI.rng c (hpb c hc)) hI.lbOk hI.solOk hI.cur
    (fun c hc => .inl hc) ?_ ?_ ?_ ?_
  · rintro c (hc | hc)
    · exact hI.good c (.inl (hpb c hc))
    · rcases held_set hc with h | ⟨j, w, _, hj, hc'⟩
      · cases h; exact hI.good _ (.inl (.inl hNF))
      · exact hI.good c (.inr ⟨j, w, hj, hc'⟩)
  · rintro c (hc | hc)
    · exact .inl (.inl (hpb c hc))
    · rcases fresh_set hc with (e | e) | ⟨j, _, hj⟩
      · cases e; exact .inl (.inl (.inl hNF))
      · cases e
      · exact .inl (.inr ⟨j, hj⟩)
  · exact popmax_set H opt Sol Rg hI hsubF (fun n e => by cases e; exact hp.2)
  · exact wok_set H opt Sol Rg hI (Int.le_refl _) (fun c hc => hc) trivial
  · exact done_set H opt Sol Rg hI (Int.le_refl _) hI.lbOk (fun e => by cases e)

/-- the pop-time write `update_threshold(nn.state, nn.depth, nn.value, explored = true)`: whatever it makes the cache refuse
    is carried by the node in hand -/
theorem kpinv_gwTake {s : KSys S} (hI : KPInv H opt Sol Rg s) {i : Nat} {n : SubP S} {c' : Cache S} {crit' : ParCrit S}
    (hw : s.ws[i]? = some (.gwW n)) (hu : s.cache.update n.state n.depth ⟨n.value, true⟩ = some c')
    (ht : s.crit.take i n = some crit') :
    KPInv H opt Sol Rg { crit := crit', cache := c', log := c' :: s.log, ws := s.ws.set i (.readR n) } := by
  obtain ⟨e1, e2, e3, _⟩ := take_spec ht
  have hv : viewOf c' = (viewOf s.cache).upd (n.state, n.depth, n.value, true) := viewOf_update s.cache c' _ _ _ _ hu
  have hs : SameW (.gwW n : KW S) (.readR n) := ⟨rfl, rfl, rfl⟩
  have hB : ∀ x, Beats ({ crit := crit', cache := c', log := c' :: s.log, ws := s.ws.set i (.readR n) } : KSys S) x → Beats s x := by
    intro x hb
    have hb' : BeatsC crit'.base.bestLb (s.ws.set i (.readR n)) x := hb
    rw [e2] at hb'
    exact (beatsC_set_same hw hs).mp hb'
  -- a prunable witness that the write refuses is dominated by the node in hand
  have hnew : ∀ (c : SubP S) (x : Int) (d : Nat), Carries H c x d → ¬ prunM (viewOf s.cache) c → prunM (viewOf c') c →
      Carries H n x d := by
    intro c x d hcc hnp hp
    rw [hv] at hp
    obtain ⟨a1, a2, a3, _⟩ := prunM_upd_new _ _ c hnp hp
    dsimp only at a1 a2
    refine carries_cell H hcc a1 a2 ?_
    unfold prunBy upThr at a3
    dsimp only at a3
    omega
  have hT : ∀ x d, Beats ({ crit := crit', cache := c', log := c' :: s.log, ws := s.ws.set i (.readR n) } : KSys S) x →
      Live H s x d → Live H ({ crit := crit', cache := c', log := c' :: s.log, ws := s.ws.set i (.readR n) } : KSys S) x d := by
    intro x d _ hl
    show LiveC H crit'.base.fringe (viewOf c') (s.ws.set i (.readR n)) x d
    rw [e1]
    refine liveC_cases H (i := i) hl (fun c hc hcc hnp => ?_) (fun w1 hw1 hl1 => ?_) (fun j w hj hwj hl1 => ?_)
    · by_cases hp : prunM (viewOf c') c
      · exact liveC_of_self H hw (.inl ⟨n, rfl, hnew c x d hcc hnp hp⟩)
      · exact liveC_of_F H hc hcc hp
    · rw [hw] at hw1; cases hw1
      rcases hl1 with ⟨m, hm, hcc⟩ | ⟨c, hc, _⟩
      · exact liveC_of_self H hw (.inl ⟨m, hm, hcc⟩)
      · cases hc
    · rcases hl1 with ⟨m, hm, hcc⟩ | ⟨c, hc, hcc, hnp⟩
      · exact liveC_of_other H hj hwj (.inl ⟨m, hm, hcc⟩)
      · by_cases hp : prunM (viewOf c') c
        · exact liveC_of_self H hw (.inl ⟨n, rfl, hnew c x d hcc hnp hp⟩)
        · exact liveC_of_other H hj hwj (.inr ⟨c, hc, hcc, hp⟩)
  have hpb : ∀ c, Prunable ({ crit := crit', cache := c', log := c' :: s.log, ws := s.ws.set i (.readR n) } : KSys S) c →
      Prunable s c :=
    fun c h => prunable_back hw (fun c hc => by cases hc) (fun c hc => by rw [← e1]; exact hc) h
  refine kpinv_step H opt Sol Rg hI hB hT ?_ (fun c hc => hI.rng c (hpb c hc))
    (by show crit'.base.bestLb ≤ opt; rw [e2]; exact hI.lbOk)
    (by show ∀ p, crit'.base.bestSol = some p → Sol p crit'.base.bestLb; rw [e2, e3]; exact hI.solOk)
    List.mem_cons_self ?_ ?_ ?_ ?_ ?_
  · rintro c (hc | hc)
    · exact hI.good c (.inl (hpb c hc))
    · exact hI.good c (.inr (held_back (w0 := .gwW n) (a := .readR n) hw (fun c hc => hc) hc))
  · -- the new content of the cache is justified
    intro c hc
    rcases List.mem_cons.mp hc with e | e
    · right
      subst e
      intro st d tt htt
      rw [hv] at htt
      rcases upd_get _ _ st d tt htt with h1 | ⟨a1, a2, a3⟩
      · exact (hI.jst s.cache hI.cur st d tt h1).transfer H Rg hB hT
      · dsimp only at a1 a2 a3
        subst a1; subst a2; subst a3
        intro v h hrg hvt hH _
        dsimp only at hvt
        refine liveC_of_self H hw (.inl ⟨n, rfl, Nat.le_refl _, n.value + h, ?_, by omega⟩)
        unfold optOf EInt.addI
        rw [hH]
        simp only [Option.map_some]
        congr 1
        omega
    · exact .inl e
  · rintro c (hc | hc)
    · exact .inl (.inl (hpb c hc))
    · exact .inl (.inr (fresh_back hw (fun c hc => by
        rcases hc with e | e
        · cases e
        · cases e; exact .inl rfl) hc))
  · intro j m hj
    show ∀ c ∈ crit'.base.fringe, c.ub ≤ m.ub
    rw [e1]
    exact popmax_set H opt Sol Rg hI (fun c hc => hc) (fun m e => by cases e) j m hj
  · intro j w hj
    show WOk H opt Sol Rg crit'.base.bestLb (c' :: s.log) w
    rw [e2]
    exact wok_set H opt Sol Rg hI (a := .readR n) (Int.le_refl _) (fun c hc => List.mem_cons_of_mem _ hc) trivial j w hj
  · intro h
    show crit'.base.bestLb = opt
    rw [e2]
    exact done_set H opt Sol Rg hI (Int.le_refl _) hI.lbOk (fun e => by cases e) h

end
end Ddo.ParCache
