import DdoModel.SeqSolver
/-! The coverage invariant of the sequential branch-and-bound and its preservation by
    `process_one_node`, under exactly the diagram contracts of DESIGN.md §5.3.

Setting (abstract, so that it applies to any well-formed model): `Phi c : EInt` is the value of the
best completion of sub-problem `c` (`none` = no completion; for a model with potential `H` it is
`c.value + H c.depth c.state`), `opt` the optimum of the whole problem, `Sol p w` = "`p` is a
genuinely feasible solution of value `w`". -/
set_option linter.unusedSectionVars false
namespace Ddo
variable {S : Type} [DecidableEq S]

section
variable (Phi : SubP S → EInt) (opt : Int) (Sol : List Dec → Int → Prop)

/-- an open sub-problem is *good*: whatever it can be completed to is a feasible value, hence `≤ opt` -/
def Good (c : SubP S) : Prop := ∀ x, Phi c = some x → x ≤ opt

/-- ub validity relative to an incumbent: the node's potential, if it beats `lb`, is below its ub -/
def UbOk (lb : Int) (c : SubP S) : Prop := ∀ x, Phi c = some x → x > lb → x ≤ c.ub

/-- contract of a compilation of `N` run with incumbent `lb` (restricted or relaxed):
    a reported exact value is that of the reported feasible solution (so it is `≤ opt`) and belongs to
    a completion of `N`; a diagram that claims exactness finds the optimum of `N` when it beats `lb`. -/
structure CompileOk (N : SubP S) (lb : Int) (o : DDOut S) : Prop where
  sound : ∀ w, o.bestExact = some w → ∃ p, o.bestExactSol = some p ∧ Sol p w ∧ w ≤ opt
  within : ∀ w, o.bestExact = some w → ∃ x, Phi N = some x ∧ w ≤ x
  exact : o.isExact = true → ∀ x, Phi N = some x → x > lb → o.bestExact = some x

/-- contract of the cut-set of a relaxed diagram of `N` that is not exact (C08 (i), (iii), (iv)) -/
structure CutsetOk (N : SubP S) (lb : Int) (o : DDOut S) : Prop where
  good : ∀ c ∈ o.cutset, Good Phi opt c
  ub : ∀ c ∈ o.cutset, UbOk Phi lb c
  cover : ∀ x, Phi N = some x → x > lb → (∀ w, o.bestExact = some w → w < x) →
      ∃ c ∈ o.cutset, ∃ y, Phi c = some y ∧ x ≤ y
  sub : ∀ c ∈ o.cutset, ∀ y, Phi c = some y → ∃ x, Phi N = some x ∧ y ≤ x

/-- the invariant: `open_` is the set of open sub-problems (the fringe, plus the node in hand) -/
structure Inv (open_ : List (SubP S)) (lb : Int) (sol : Option (List Dec)) : Prop where
  good : ∀ c ∈ open_, Good Phi opt c
  ubOk : ∀ c ∈ open_, UbOk Phi lb c
  lbOk : lb ≤ opt
  solOk : ∀ p, sol = some p → Sol p lb
  cover : opt > lb → ∃ c ∈ open_, Phi c = some opt ∧ opt ≤ c.ub

theorem ubOk_mono {lb lb' : Int} (h : lb ≤ lb') {c : SubP S} (hc : UbOk Phi lb c) : UbOk Phi lb' c :=
  fun x hx hgt => hc x hx (by omega)

/-! ### `maybe_update_best` -/
theorem updateBest_lb_ge (st : SeqSt S) (o : DDOut S) : st.bestLb ≤ (st.updateBest o).bestLb := by
  unfold SeqSt.updateBest
  split
  · split
    · simp only; omega
    · exact Int.le_refl _
  · exact Int.le_refl _

theorem updateBest_lb_ge_val (st : SeqSt S) (o : DDOut S) (w : Int) (h : o.bestExact = some w) :
    w ≤ (st.updateBest o).bestLb := by
  unfold SeqSt.updateBest
  rw [h]; simp only
  split
  · exact Int.le_refl _
  · omega

theorem updateBest_fringe (st : SeqSt S) (o : DDOut S) :
    (st.updateBest o).fringe = st.fringe ∧ (st.updateBest o).bestUb = st.bestUb ∧
    (st.updateBest o).abort = st.abort ∧ (st.updateBest o).openByLayer = st.openByLayer ∧
    (st.updateBest o).explored = st.explored := by
  unfold SeqSt.updateBest
  split
  · split <;> simp
  · simp

/-- the incumbent after an update is still `≤ opt` and still the value of the stored solution -/
theorem updateBest_ok (st : SeqSt S) (N : SubP S) (lb0 : Int) (o : DDOut S)
    (hlb : st.bestLb ≤ opt) (hsol : ∀ p, st.bestSol = some p → Sol p st.bestLb)
    (hc : CompileOk Phi opt Sol N lb0 o) :
    (st.updateBest o).bestLb ≤ opt ∧ ∀ p, (st.updateBest o).bestSol = some p → Sol p (st.updateBest o).bestLb := by
  unfold SeqSt.updateBest
  cases hb : o.bestExact with
  | none => exact ⟨hlb, hsol⟩
  | some w =>
    obtain ⟨p, hp, hS, hw⟩ := hc.sound w hb
    simp only
    split
    · refine ⟨hw, fun p' hp' => ?_⟩
      simp only at hp'
      rw [hp] at hp'; injection hp' with hp'; subst hp'; exact hS
    · exact ⟨hlb, hsol⟩

/-! ### `enqueue_cutset` with the plain multiset fringe (`SimpleFringe`) -/

/-- one iteration of the `drain_cutset` closure -/
def enqOne (dedup : Bool) (st : SeqSt S) (c : SubP S) : SeqSt S :=
  if c.ub > st.bestLb then
    let fr := pushSpec dedup st.fringe c
    let delta := fr.length - st.fringe.length
    match bumpLayer st.openByLayer c.depth delta with
    | some l => { st with fringe := fr, openByLayer := l }
    | none => { st with fringe := fr, crashed := true }
  else st

theorem enqueue_eq_foldl (dedup : Bool) (st : SeqSt S) (cs : List (SubP S)) :
    st.enqueue dedup cs = cs.foldl (enqOne dedup) st := rfl

theorem enqOne_false_spec (st : SeqSt S) (c0 : SubP S) :
    (enqOne false st c0).bestLb = st.bestLb ∧ (enqOne false st c0).bestSol = st.bestSol ∧
    (enqOne false st c0).bestUb = st.bestUb ∧ (enqOne false st c0).abort = st.abort ∧
    ∀ c, c ∈ (enqOne false st c0).fringe ↔
      (c ∈ st.fringe ∨ (c = c0 ∧ c0.ub > st.bestLb)) := by
  unfold enqOne
  by_cases hgt : c0.ub > st.bestLb
  · have hm : ∀ c : SubP S, c ∈ pushSpec false st.fringe c0 ↔
        (c ∈ st.fringe ∨ (c = c0 ∧ c0.ub > st.bestLb)) := by
      intro c
      show c ∈ (c0 :: st.fringe) ↔ _
      rw [List.mem_cons]
      constructor
      · rintro (h | h)
        · exact Or.inr ⟨h, hgt⟩
        · exact Or.inl h
      · rintro (h | ⟨h, _⟩)
        · exact Or.inr h
        · exact Or.inl h
    rw [if_pos hgt]
    simp only
    cases bumpLayer st.openByLayer c0.depth
        ((pushSpec false st.fringe c0).length - st.fringe.length) with
    | some l => exact ⟨rfl, rfl, rfl, rfl, hm⟩
    | none => exact ⟨rfl, rfl, rfl, rfl, hm⟩
  · rw [if_neg hgt]
    refine ⟨rfl, rfl, rfl, rfl, fun c => ?_⟩
    constructor
    · intro h; exact Or.inl h
    · rintro (h | ⟨_, h⟩)
      · exact h
      · exact absurd h hgt

theorem enqueue_false_spec (st : SeqSt S) (cs : List (SubP S)) :
    (st.enqueue false cs).bestLb = st.bestLb ∧ (st.enqueue false cs).bestSol = st.bestSol ∧
    (st.enqueue false cs).bestUb = st.bestUb ∧ (st.enqueue false cs).abort = st.abort ∧
    ∀ c, c ∈ (st.enqueue false cs).fringe ↔
      (c ∈ st.fringe ∨ ∃ c0 ∈ cs, c = c0 ∧ c0.ub > st.bestLb) := by
  rw [enqueue_eq_foldl]
  induction cs generalizing st with
  | nil => simp
  | cons c0 cs ih =>
    simp only [List.foldl_cons]
    obtain ⟨h1, h2, h3, h4, h5⟩ := enqOne_false_spec st c0
    obtain ⟨i1, i2, i3, i4, i5⟩ := ih (enqOne false st c0)
    refine ⟨i1.trans h1, i2.trans h2, i3.trans h3, i4.trans h4, fun c => ?_⟩
    rw [i5 c, h5 c, h1]
    constructor
    · rintro ((h | ⟨h, hg⟩) | ⟨c1, hc1, h, hg⟩)
      · exact Or.inl h
      · exact Or.inr ⟨c0, List.mem_cons_self, h, hg⟩
      · exact Or.inr ⟨c1, List.mem_cons_of_mem _ hc1, h, hg⟩
    · rintro (h | ⟨c1, hc1, h, hg⟩)
      · exact Or.inl (Or.inl h)
      · rcases List.mem_cons.mp hc1 with e | e
        · subst e; exact Or.inl (Or.inr ⟨h, hg⟩)
        · exact Or.inr ⟨c1, e, h, hg⟩

/-! ### the pre-fix (capped) `enqueue_cutset(ub)` and its relation to the repaired one -/

/-- one iteration of the pre-fix `drain_cutset` closure (`cutset_node.ub = ub.min(cutset_node.ub)`) -/
def enqOneCapped (dedup : Bool) (ub : Int) (st : SeqSt S) (c : SubP S) : SeqSt S :=
  let c' := { c with ub := min ub c.ub }
  if c'.ub > st.bestLb then
    let fr := pushSpec dedup st.fringe c'
    let delta := fr.length - st.fringe.length
    match bumpLayer st.openByLayer c'.depth delta with
    | some l => { st with fringe := fr, openByLayer := l }
    | none => { st with fringe := fr, crashed := true }
  else st

theorem enqueueCapped_eq_foldl (dedup : Bool) (st : SeqSt S) (ub : Int) (cs : List (SubP S)) :
    st.enqueueCapped dedup ub cs = cs.foldl (enqOneCapped dedup ub) st := rfl

theorem enqOne_eq_capped (dedup : Bool) (U : Int) (st : SeqSt S) (c : SubP S) (h : c.ub ≤ U) :
    enqOne dedup st c = enqOneCapped dedup U st c := by
  have hm : min U c.ub = c.ub := by omega
  unfold enqOne enqOneCapped
  simp only [hm]

/-- **the repaired enqueue is the pre-fix enqueue with a cap that dominates the cut-set** -/
theorem enqueue_eq_capped (dedup : Bool) (U : Int) (cs : List (SubP S)) (hU : ∀ c ∈ cs, c.ub ≤ U) :
    ∀ st : SeqSt S, st.enqueue dedup cs = st.enqueueCapped dedup U cs := by
  induction cs with
  | nil => intro st; rfl
  | cons c0 cs ih =>
    intro st
    rw [enqueue_eq_foldl, enqueueCapped_eq_foldl, List.foldl_cons, List.foldl_cons,
      enqOne_eq_capped dedup U st c0 (hU c0 List.mem_cons_self), ← enqueue_eq_foldl, ← enqueueCapped_eq_foldl]
    exact ih (fun c h => hU c (List.mem_cons_of_mem _ h)) _

end
end Ddo
