import DdoModel.Proofs.CompatProcessGlue
/-! C10e — **`CompatProcessME` from the contract of a single compilation with both filters** (`JointContract`), and the split of
that contract into named fields.

`Proofs/CompatProcessAbs.lean` (`step_me`) and `Proofs/CompatProcessGlue.lean` (`processME_of_contract`) carry the joint invariant over
a compiled turn from the contract `JCompC` of the compilation that matters; `Proofs/CompatProcessPot.lean` provides the
pseudo-potential `gpot` whose level `opt` is `GAbove` (`gpot_spec`).  Here:

* `JointContract` — the contract for **every** compilation with cache and checker (relaxed, or restricted and exact) of an exactly
  reached sub-problem, from a checker that holds exactly reached items, *while the incumbent stays below the optimum*, read with
  `gpot`;
* `compatProcessME_of_jointContract : JointContract → CompatProcessME`, hence (`Proofs/CompatStore.lean`, `Proofs/CompatTurn.lean`,
  `Proofs/CompatOrder.lean`) `cachingDominanceCompatMono_of_jointContract : JointContract → CachingDominanceCompatMono`;
* the fields of the contract as separate statements about ONE compilation: `JCEasy` (`exactCut`, `rng`, `deeper`) and the four that
  carry the argument — `JCTheta` (the dominance-aware `theta_sound`), `JCRoot` (`exact` / `cover`), `JCUb`, `JCFresh`;
  `jointContract_of_fields`. -/
set_option linter.unusedSectionVars false
set_option linter.unusedVariables false
namespace Ddo.C10d
open Ddo Ddo.C01 Ddo.Closed Ddo.C09 Ddo.C10 Ddo.C10c Ddo.Truth

/-- the hypotheses of the repaired joint statement, bundled -/
structure MonoHyp {S K : Type} [DecidableEq S] [DecidableEq K] (dv : DSolverCfg S K) (H : Nat → S → EInt) (B0 B opt : Int) (n : Nat) :
    Prop where
  wf : WellFormed dv.sv H B0 B
  opt : (H 0 dv.sv.P.init).addI dv.sv.P.initVal = some opt
  dim : ∀ s, dv.D.dims s = n
  stat : StaticOrder dv.sv.P
  sim : SimAll dv.D dv.sv.P n
  mc : MergeCompat dv.D dv.sv.R n
  mono : PotMono dv.D n H

theorem MonoHyp.ghyp {S K : Type} [DecidableEq S] [DecidableEq K] {dv : DSolverCfg S K} {H : Nat → S → EInt} {B0 B opt : Int} {n : Nat}
    (h : MonoHyp dv H B0 B opt n) : GHyp dv.D dv.sv.P dv.sv.R H n opt B0 B :=
  ⟨h.dim, h.wf.pot, h.wf.nv, h.stat, h.sim, h.opt, h.wf.bound⟩

/-- the compilations the solver reads thresholds and cut-sets from: every relaxed one, and the restricted ones that are exact -/
def Counts {S : Type} (ct : CompType) (r : Result S) : Prop := ct = .relaxed ∨ (ct = .restricted ∧ r.isExact = true)

/-- the premises under which a single compilation with cache and checker is considered -/
structure CompPre {S K : Type} [DecidableEq S] [DecidableEq K] (dv : DSolverCfg S K) (opt : Int) (ct : CompType) (N : SubP S) (lb : Int)
    (cache : Cache S) (store : DomStore S K) (p0 : List Dec) : Prop where
  root : Reach dv.sv.P N.depth N.state N.value p0
  sreach : StoreReach dv.D dv.sv.P store
  slen : store.layers.length = dv.sv.P.nbVars + 1
  clen : cache.layers.length = dv.sv.P.nbVars + 1
  ok : (compile (dv.kdcfg ct N lb) cache store 0 none).1 = .ok
  /-- the incumbent stays below the optimum -/
  bk : Theta.bkOf lb (compile (dv.kdcfg ct N lb) cache store 0 none).2.1.bestExactValue < opt
  counts : Counts ct (compile (dv.kdcfg ct N lb) cache store 0 none).2.1

/-- **the contract of a single compilation with cache and checker**, at the level `opt` of the pseudo-potential -/
def JointContract : Prop :=
  ∀ (S K : Type) [DecidableEq S] [DecidableEq K] (dv : DSolverCfg S K) (H : Nat → S → EInt) (B0 B opt : Int) (n : Nat),
    MonoHyp dv H B0 B opt n →
    ∀ (ct : CompType) (N : SubP S) (lb : Int) (cache : Cache S) (store : DomStore S K) (p0 : List Dec),
      CompPre dv opt ct N lb cache store p0 →
      JCompC (gpot dv.D dv.sv.P n opt B) opt (RgB B) N (viewOf cache)
        (toOut (compile (dv.kdcfg ct N lb) cache store 0 none).2.1)
        (compile (dv.kdcfg ct N lb) cache store 0 none).2.1.cacheUpdates.reverse

/-- **one turn — any popped node — preserves the joint invariant**, from the contract of a single compilation -/
theorem compatInv_turn (hJC : JointContract) {S K : Type} [DecidableEq S] [DecidableEq K] {dv : DSolverCfg S K} {H : Nat → S → EInt}
    {B0 B opt : Int} {n : Nat} (hM : MonoHyp dv H B0 B opt n) {s t : KDSt S K} {N : SubP S} {rest : List (SubP S)}
    (hJ : JSInv dv H s) (hI : CompatInv dv n opt s) (hpop : s.st.fringe.Perm (N :: rest)) (hturn : dv.kdturn s N rest = some t) :
    CompatInv dv n opt t := by
  have hwf := hM.wf
  obtain ⟨c0, hc0, hl0, hv0⟩ :=
    cleanCache_spec dv.sv.P.nbVars s.st.openByLayer dv.sv.P.nbVars s.st.firstActive s.cache hJ.clen
  obtain ⟨p0, hroot, _⟩ := hJ.nodes N (hpop.mem_iff.mpr List.mem_cons_self)
  have hdN := reach_depth_le hwf.nv hroot
  have hBN : NoClamp dv.sv.P dv.sv.R N.value B := hwf.bound.noClamp_at hwf.nv hroot
  have hstore := kdturn_storeReach hwf s t N rest hJ hI.store hpop hturn
  have hturn0 := hturn
  generalize hfa : cleanLoop dv.sv.P.nbVars s.st.openByLayer dv.sv.P.nbVars s.st.firstActive = fa at *
  obtain ⟨_, f2, _⟩ := popped_fields s.st N rest fa
  unfold DSolverCfg.kdturn at hturn
  rw [hc0, hfa] at hturn
  dsimp only at hturn
  unfold DSolverCfg.kdprocess at hturn
  by_cases hub : N.ub ≤ (popped s.st N rest fa).bestLb
  · rw [if_pos hub] at hturn
    cases hturn
    refine compatInv_skip hI hpop hv0 (fun hs => ?_)
    rw [f2] at hub
    have := hs.2.2.1
    omega
  · rw [if_neg hub] at hturn
    have hme := mustExplore_view c0 N (by rw [hl0]; omega)
    by_cases hp : prunM (viewOf c0) N
    · have e : c0.mustExplore N.state N.depth N.value = some false := by
        rw [hme]; congr 1; exact decide_eq_false (fun hn => hn hp)
      rw [e] at hturn
      dsimp only at hturn
      cases hturn
      exact compatInv_skip hI hpop hv0 (fun hs => absurd (prunM_of_forget hv0 hp) hs.2.2.2)
    · have e : c0.mustExplore N.state N.depth N.value = some true := by
        rw [hme]; congr 1; exact decide_eq_true hp
      rw [f2] at hub
      by_cases hlt : t.st.bestLb < opt
      · have hGA : ∀ d x v, GAbove dv.D dv.sv.P n opt d x v ↔ Hot (gpot dv.D dv.sv.P n opt B) opt d x v :=
          fun d x v => gpot_spec hM.ghyp
        obtain ⟨h1, h2⟩ := processME_of_contract hwf hM.opt hM.dim hM.stat hM.sim (gpot dv.D dv.sv.P n opt B) hGA s t N rest c0 hJ hI
          hpop hc0 hub e hturn0 hlt
          (by
            intro lb cR elb eR hex hbk
            subst eR
            have hok := (compile_no_crash_joint (dv.kdcfg .restricted N lb) B p0 c0 s.store 0 (hwf.width N) hwf.nv hBN hroot hJ.slen).1
            exact hJC S K dv H B0 B opt n hM .restricted N lb c0 s.store p0
              ⟨hroot, hI.store, hJ.slen, hl0, hok, hbk, Or.inr ⟨rfl, hex⟩⟩)
          (by
            intro lb lb1 c1 cR cX elb eR hex hv1 hl1 hle hlb1 eX hbk
            subst eR
            subst eX
            have hokR := compile_no_crash_joint (dv.kdcfg .restricted N lb) B p0 c0 s.store 0 (hwf.width N) hwf.nv hBN hroot hJ.slen
            have hsR : StoreReach dv.D dv.sv.P (dv.kdcompR c0 s.store N lb).2.2.2.store :=
              compile_storeReach_joint (dv.kdcfg .restricted N lb) dv.D rfl hwf.nv B hBN p0 c0 s.store 0 hroot hI.store hJ.slen hokR.1
            have hokX := compile_no_crash_joint (dv.kdcfg .relaxed N lb1) B p0 c1 (dv.kdcompR c0 s.store N lb).2.2.2.store 0
              (hwf.width N) hwf.nv hBN hroot hokR.2
            have := hJC S K dv H B0 B opt n hM .relaxed N lb1 c1 (dv.kdcompR c0 s.store N lb).2.2.2.store p0
              ⟨hroot, hsR, hokR.2, hl1, hokX.1, hbk, Or.inl rfl⟩
            rw [hv1] at this
            exact this)
        exact ⟨Or.inr h1, fun x d th hT v' hv' hga => Or.inr (h2 x d th hT v' hv' hga), hstore⟩
      · have hge : opt ≤ t.st.bestLb := by omega
        exact ⟨Or.inl hge, fun _ _ _ _ _ _ _ => Or.inl hge, hstore⟩

/-- **`CompatProcessME` from the contract of a single compilation** -/
theorem compatProcessME_of_jointContract (hJC : JointContract) : CompatProcessME := by
  intro S K _ _ dv H B0 B opt n hwf hopt hdim hstat hsim hmc hmono s t N rest c0 hrun hI hpop hmax hc0 hub hme hturn
  have hI' := compatInv_turn hJC ⟨hwf, hopt, hdim, hstat, hsim, hmc, hmono⟩ (kdrun_inv hwf hrun (init_jsinv hwf)) hI hpop hturn
  exact ⟨hI'.main, hI'.entries⟩

/-- **the repaired joint statement from the contract of a single compilation** -/
theorem cachingDominanceCompatMono_of_jointContract (hJC : JointContract) : CachingDominanceCompatMono :=
  jointCorrect_of_me (compatProcessME_of_jointContract hJC)

/-! ## the fields of the contract, one statement each -/

section fields
variable (F : ∀ {S K : Type} [DecidableEq S] [DecidableEq K] (dv : DSolverCfg S K) (B opt : Int) (n : Nat) (N : SubP S) (T : CView S)
  (o : DDOut S) (ups : List (S × Nat × Int × Bool)), Prop)

/-- "the field `F` of the contract holds of every compilation that counts" -/
def FieldHolds : Prop :=
  ∀ (S K : Type) [DecidableEq S] [DecidableEq K] (dv : DSolverCfg S K) (H : Nat → S → EInt) (B0 B opt : Int) (n : Nat),
    MonoHyp dv H B0 B opt n →
    ∀ (ct : CompType) (N : SubP S) (lb : Int) (cache : Cache S) (store : DomStore S K) (p0 : List Dec),
      CompPre dv opt ct N lb cache store p0 →
      F dv B opt n N (viewOf cache) (toOut (compile (dv.kdcfg ct N lb) cache store 0 none).2.1)
        (compile (dv.kdcfg ct N lb) cache store 0 none).2.1.cacheUpdates.reverse

end fields

/-- the easy fields: the cut-set of an exact diagram holds nothing whose bound reaches `opt`; the cut-set nodes are in range and
    strictly deeper than the root -/
def JCEasy : Prop :=
  FieldHolds (fun {S K} _ _ dv B opt n N T o ups =>
    (o.isExact = true → ∀ c ∈ o.cutset, c.ub < opt) ∧ (∀ c ∈ o.cutset, RgB B c.depth c.value) ∧ ∀ c ∈ o.cutset, N.depth < c.depth)

/-- **the dominance-aware `theta_sound`**: a recorded threshold that applies to a hot (`GAbove`) item is justified by a hot cut-set
    node at least as deep, or by a strictly deeper entry of the consulted cache that applies to a hot item.  (Single-mechanism
    version: `Ddo.Theta.theta_sound`, `cfg.dom = none`.  New base case: the threshold of a `dominated` verdict never applies to a hot
    item — `GAbove.not_below_threshold`, `gpot_dominated`.) -/
def JCTheta : Prop :=
  FieldHolds (fun {S K} _ _ dv B opt n N T o ups =>
    ∀ u ∈ ups, ∀ v, RgB B u.2.1 v → v ≤ u.2.2.1 → Hot (gpot dv.D dv.sv.P n opt B) opt u.2.1 u.1 v →
      (∃ c ∈ o.cutset, u.2.1 ≤ c.depth ∧ HotN (gpot dv.D dv.sv.P n opt B) opt c) ∨
      HitO (gpot dv.D dv.sv.P n opt B) opt (RgB B) T u.2.1)

/-- **a hot root is covered**: by a deeper entry of the consulted cache that applies to a hot item when the diagram is exact (it did
    not find `opt`: the incumbent stays below), by a hot cut-set node or such an entry when it is not.  (Single-mechanism version:
    `Proofs/ThetaCover.lean`.) -/
def JCRoot : Prop :=
  FieldHolds (fun {S K} _ _ dv B opt n N T o ups =>
    HotN (gpot dv.D dv.sv.P n opt B) opt N →
      (o.isExact = true → HitO (gpot dv.D dv.sv.P n opt B) opt (RgB B) T N.depth) ∧
      (o.isExact = false → (∃ c ∈ o.cutset, HotN (gpot dv.D dv.sv.P n opt B) opt c) ∨
        HitO (gpot dv.D dv.sv.P n opt B) opt (RgB B) T N.depth))

/-- **the bound of a hot cut-set node reaches `opt`**, unless the consulted cache cut the diagram below it with an entry that applies
    to a hot item.  (Single-mechanism version: `ub_contract_of_model`, `Proofs/CacheClosedCut.lean`.) -/
def JCUb : Prop :=
  FieldHolds (fun {S K} _ _ dv B opt n N T o ups =>
    ∀ c ∈ o.cutset, HotN (gpot dv.D dv.sv.P n opt B) opt c → opt ≤ c.ub ∨ HitO (gpot dv.D dv.sv.P n opt B) opt (RgB B) T c.depth)

/-- **a cut-set node worth enqueuing is accepted by `must_explore`** once the updates of its compilation are applied.  No potential
    involved.  (Single-mechanism version: `fresh_contract_of_model`, `Proofs/CacheClosedInvA/B.lean`.) -/
def JCFresh : Prop :=
  FieldHolds (fun {S K} _ _ dv B opt n N T o ups => ∀ c ∈ o.cutset, opt ≤ c.ub → ¬ prunM (T.upds ups) c)

theorem jointContract_of_fields (hE : JCEasy) (hT : JCTheta) (hR : JCRoot) (hU : JCUb) (hF : JCFresh) : JointContract := by
  intro S K _ _ dv H B0 B opt n hM ct N lb cache store p0 hpre
  obtain ⟨e1, e2, e3⟩ := hE S K dv H B0 B opt n hM ct N lb cache store p0 hpre
  have t1 := hT S K dv H B0 B opt n hM ct N lb cache store p0 hpre
  have r1 := hR S K dv H B0 B opt n hM ct N lb cache store p0 hpre
  have u1 := hU S K dv H B0 B opt n hM ct N lb cache store p0 hpre
  have f1 := hF S K dv H B0 B opt n hM ct N lb cache store p0 hpre
  exact ⟨fun hex hot => (r1 hot).1 hex, e1, fun hex hot => (r1 hot).2 hex, t1, e2, e3, u1, f1⟩

end Ddo.C10d

#print axioms Ddo.C10d.compatProcessME_of_jointContract
#print axioms Ddo.C10d.cachingDominanceCompatMono_of_jointContract
#print axioms Ddo.C10d.jointContract_of_fields
#print axioms Ddo.C10d.compatInv_turn
