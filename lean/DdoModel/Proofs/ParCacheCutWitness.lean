import DdoModel.Proofs.ParCacheCutInv
import DdoModel.Proofs.ParCacheExec
/-! # FINDING (model level, evaluated): with the cache, `abort_search` can record `best_ub < opt` — and `best_lb > best_ub`

A well-formed layered model (`CutWitness.T`: a point mutant of `Layered.Hand.T` — 7 binary variables, 4 states, optimum 6;
`check T 5 = true`, hence `WellFormed`), **two workers**, plain fringe, last-exact-layer cut-sets, and a schedule of the
deterministic scheduler `nextK` of `Proofs/ParCacheExec.lean` (`nextK_step`: it only takes steps of `KPStep`) in which **every
compilation reads the newest content of the shared cache** (`pick = 0` throughout: no stale read is involved).  After 80 steps
(`CutWitness.obs`, by `decide`):

* worker 1 holds `(state 0, depth 2, value 1, ub 4)`.  Its bound 4 was computed in a relaxed diagram **cut by the cache** (the
  potential of the node is 6).  Its own restricted compilation has since FOUND the value 6 — the optimum — below it, all its
  thresholds are written, `maybe_update_best` is its next step: the value is not yet published, `best_lb = 2`;
* worker 0 holds `(state 1, depth 2, value 0, ub 3)` and is inside its restricted compilation; the fringe is empty;
  `upper_bounds = [3, 4]`; nobody is inside `get_workload`.

The compilation of worker 0 is cut off there: `abort_search(reason, 3)` records
`best_ub = max(3, upper_bounds = [3, 4], best_lb = 2) = 4 < 6 = opt` (`ub_below_opt`).  Worker 1 then publishes:
`best_lb = 6 > best_ub = 4` (`lb_above_ub`).  Both are reachable states of `KPStepC`; `AbortBoundOk` is false
(`abortBoundOk_false`).

Why the cache-less argument fails: `abort_search` takes `upper_bounds[j]` as a valid bound of everything below the node worker `j`
holds.  Without the cache that is `UbOk`.  With the cache the bound of a cut-set node only accounts for what the diagram that
produced it did not prune (`CompC.ub`: `pot ≤ ub ∨ CacheCov`), and the worker that later compiles the node can find more below
it than that bound (here 6 > 4) — what was pruned was "carried elsewhere", but *elsewhere* can have been closed since by this
very worker's thresholds (they are justified by its pending value), so that the only trace of the optimum is a value in a
worker's hand that `abort_search` does not see. -/
set_option linter.unusedSectionVars false
set_option linter.unusedVariables false
namespace Ddo.ParCache

/-- worker `i` is inside a restricted compilation -/
def compRAt {S : Type} (s : KSys S) (i : Nat) : Option (SubP S × Int × Nat) :=
  match (s.ws[i]? : Option (KW S)) with
  | some (KW.compR n lb k0) => some (n, lb, k0)
  | _ => none

theorem compRAt_sound {S : Type} {s : KSys S} {i : Nat} {x : SubP S × Int × Nat} (h : compRAt s i = some x) :
    s.ws[i]? = some (.compR x.1 x.2.1 x.2.2) := by
  unfold compRAt at h
  split at h
  · next n lb k0 hw => cases h; exact hw
  · cases h

/-- worker `i` has finished a restricted compilation and written all its thresholds; `maybe_update_best` is next -/
def wrRDoneAt {S : Type} (s : KSys S) (i : Nat) : Option (SubP S × Int × DDOut S × Cache S × List (Up S)) :=
  match (s.ws[i]? : Option (KW S)) with
  | some (KW.wrR n lb o cv ups []) => some (n, lb, o, cv, ups)
  | _ => none

theorem wrRDoneAt_sound {S : Type} {s : KSys S} {i : Nat} {y : SubP S × Int × DDOut S × Cache S × List (Up S)}
    (h : wrRDoneAt s i = some y) : s.ws[i]? = some (.wrR y.1 y.2.1 y.2.2.1 y.2.2.2.1 y.2.2.2.2 []) := by
  unfold wrRDoneAt at h
  split at h
  · next n lb o cv ups hw => cases h; exact hw
  · cases h

namespace CutWitness
open Ddo Ddo.C01 Ddo.C09 Ddo.C09.Layered Ddo.ParSys Ddo.Closed

/-- `Layered.Hand.T` with three point mutations (`trl[13]`, `trl[16]`, `cl[54]`) -/
def T : Tab :=
  { n := 7, m := 4,
    trl := [1,0, 1,0, 1,0, 1,0,   2,2, 1,0, 1,1, 1,0,   2,0, 1,1, 2,2, 2,2,   0,2, 1,3, 3,3, 3,3,   0,0, 1,1, 0,2, 0,2,
            0,0, 2,2, 1,3, 1,3,   0,0, 0,0, 0,0, 0,0],
    cl :=  [0,1, 0,1, 0,1, 0,1,   0,0, 0,1, 0,1, 0,1,   0,0, 0,0, 0,0, 0,0,   1,0, 0,0, 0,0, 0,0,   0,0, 0,0, 0,0, 1,0,
            0,0, 0,0, 1,0, 1,0,   0,0, 0,2, 3,3, 1,5],
    rub := 100 }

def ws : List Nat := [1,1,1,1, 1,1,1,1, 3] ++ List.replicate 23 2
def sv : SolverCfg Int := Layered.sv T ws false .lel

theorem checked : check T 5 = true := by decide

theorem wellFormed : WellFormed sv (H T) 5 40 :=
  wellFormed_ofTables T 5 40 ws false .lel checked (by decide) (by decide)

theorem opt6 : (H T 0 sv.P.init).addI sv.P.initVal = some 6 := by
  have h : optimum T = 6 := by decide
  rw [← h]; exact optimum_eq T

def s0 : KSys Int := KSys.init sv.P sv.dedup 2

/-- worker 0: the root (6 steps up to its restricted compilation); worker 1 enters `get_workload` and parks; worker 0 finishes
    the root (incumbent 2, two cut-set nodes) and processes … (24 steps); worker 1 pops `(0, 2, 1, ub 4)`, compiles it
    (restricted: finds 6) and writes all its thresholds (31 steps); worker 0 acknowledges, pops `(1, 2, 0, ub 3)` and enters its
    restricted compilation (17 steps).  Every compilation reads the newest content of the cache. -/
def sched : List (Nat × Nat) :=
  List.replicate 6 (0, 0) ++ List.replicate 2 (1, 0) ++ List.replicate 24 (0, 0) ++ List.replicate 31 (1, 0) ++
    List.replicate 17 (0, 0)

def cut : KSys Int := runSchedK sv s0 sched

theorem reach : KPRun sv s0 cut := runSchedK_run _ _ _

/-- **the state in which the cut-off happens** -/
theorem obs : lockFreeB cut = true ∧ cut.crit.base.fringe = [] ∧ cut.crit.base.bestLb = 2 ∧
    cut.crit.upperBounds = [3, 4] ∧ cut.ws.map tagK = [8, 9] ∧
    (compRAt cut 0).map (fun x => (x.1.state, x.1.depth, x.1.value, x.1.ub)) = some (1, 2, 0, 3) ∧
    (compRAt cut 0).map (fun x => (cut.crit.abortSearch x.1.ub none).base.bestUb) = some 4 ∧
    (wrRDoneAt cut 1).map (fun y => (y.1.state, y.1.depth, y.1.value, y.1.ub, y.2.2.1.bestExact)) =
      some (0, 2, 1, 4, some 6) := by decide

/-- **`AbortBoundOk` is false** for this well-formed model and two workers -/
theorem abort_bound_below_opt :
    ∃ (s : KSys Int) (i : Nat) (n : SubP Int) (lb : Int) (k0 : Nat), KPRun sv (KSys.init sv.P sv.dedup 2) s ∧
      s.ws[i]? = some (.compR n lb k0) ∧ LockFree s ∧ AbortTop s.crit.base.fringe none ∧
      (s.crit.abortSearch n.ub none).base.bestUb = 4 := by
  obtain ⟨h1, h2, _, _, _, _, h7, _⟩ := obs
  cases hx : compRAt cut 0 with
  | none => rw [hx] at h7; cases h7
  | some x =>
    rw [hx] at h7
    exact ⟨cut, 0, x.1, x.2.1, x.2.2, reach, compRAt_sound hx, (lockFreeB_iff _).mp h1, .inl ⟨h2, rfl⟩, Option.some.inj h7⟩

/-- a run of the system without cut-off is a run of the system with cut-off in which no cut-off happens -/
theorem krun_toC {s : KSys Int} (hs : KPRun sv (KSys.init sv.P sv.dedup 2) s) :
    KPRunC sv (KSysC.init sv.P sv.dedup 2) ⟨s, []⟩ := by
  induction hs with
  | refl => exact KRunC.refl _
  | tail hr hst ih =>
    have ha := (kprun_inv wellFormed 2 hr).lay.opn.noAbort
    refine KRunC.tail ih ?_
    cases hst with
    | gwEnter i hw hl => exact .gwEnter _ [] i hw hl
    | gwClear i c' hw hc hcl => exact .gwClear _ [] i c' hw hc hcl
    | gwComplete i hw hc ho hf => exact .gwComplete _ [] i hw hc ha ho hf
    | gwWait i hw hc ho hf => exact .gwWait _ [] i hw hc ha ho hf
    | gwToPop i hw hc hf => exact .gwToPop _ [] i hw hc ha hf
    | gwEmpty i hw hf => exact .gwEmpty _ [] i hw hf
    | gwStarve i N rest hw hp hub => exact .gwStarve _ [] i N rest hw hp hub
    | gwDrop i N rest c' hw hp hub hme hd => exact .gwDrop _ [] i N rest c' hw hp hub hme hd
    | gwKeep i N rest hw hp hub hme => exact .gwKeep _ [] i N rest hw hp hub hme
    | gwTake i n c' crit' hw hu ht => exact .gwTake _ [] i n c' crit' hw hu ht
    | readLbR i n hw hl => exact .readLbR _ [] i n hw hl
    | compileR i n lb k0 cv o ups hw hcv hok => exact .compileR _ [] i n lb k0 cv o ups hw hcv hok
    | writeR i n lb o cv ups u todo c' hw hu => exact .writeR _ [] i n lb o cv ups u todo c' hw hu
    | updateR i n lb o cv ups hw hl => exact .updateR _ [] i n lb o cv ups hw hl
    | readLbX i n hw hl => exact .readLbX _ [] i n hw hl
    | compileX i n lb k0 cv o ups hw hcv hok => exact .compileX _ [] i n lb k0 cv o ups hw hcv hok
    | writeX i n lb o cv ups u todo c' hw hu => exact .writeX _ [] i n lb o cv ups u todo c' hw hu
    | updateX i n lb o cv ups hw hl => exact .updateX _ [] i n lb o cv ups hw hl
    | enqueue i n lb o cv ups hw hl => exact .enqueue _ [] i n lb o cv ups hw hl
    | notify i n c' hw hl hn => exact .notify _ [] i n c' hw hl (fun hi => by cases hi) hn
    | crash i w hw hp => exact .crash _ [] i w hw hp

/-- the two steps after the cut-off point, for any state `c` with the observed properties -/
theorem cutoff_general {c : KSys Int} (hpre : KPRunC sv (KSysC.init sv.P sv.dedup 2) ⟨c, []⟩)
    {x : SubP Int × Int × Nat} {y : SubP Int × Int × DDOut Int × Cache Int × List (Up Int)}
    (hw0 : c.ws[0]? = some (.compR x.1 x.2.1 x.2.2))
    (hw1 : c.ws[1]? = some (.wrR y.1 y.2.1 y.2.2.1 y.2.2.2.1 y.2.2.2.2 []))
    (hl : LockFree c) (hf : c.crit.base.fringe = []) (hlb : c.crit.base.bestLb = 2)
    (hub : (c.crit.abortSearch x.1.ub none).base.bestUb = 4) (hbe : y.2.2.1.bestExact = some 6) :
    ∃ s1 s2 : KSysC Int, KPRunC sv (KSysC.init sv.P sv.dedup 2) s1 ∧ KPStepC sv s1 s2 ∧
      s1.k.crit.base.abort = true ∧ s1.k.crit.base.bestUb = 4 ∧ s1.k.crit.base.bestLb = 2 ∧
      s2.k.crit.base.abort = true ∧ s2.k.crit.base.bestUb = 4 ∧ 6 ≤ s2.k.crit.base.bestLb := by
  -- the cut-off
  have hstep1 : KPStepC sv ⟨c, []⟩ ⟨abortK c 0 x.1 none, [0]⟩ :=
    KStepC.abortR c [] 0 x.1 x.2.1 x.2.2 none hw0 hl (.inl ⟨hf, rfl⟩)
  -- worker 1 publishes
  have hw1' : (abortK c 0 x.1 none).ws[1]? = some (.wrR y.1 y.2.1 y.2.2.1 y.2.2.2.1 y.2.2.2.2 []) := by
    show (c.ws.set 0 (.fin x.1))[1]? = _
    rw [List.getElem?_set_ne (by decide)]; exact hw1
  have hl' : LockFree (abortK c 0 x.1 none) := by
    intro w hw
    have hw : w ∈ c.ws.set 0 (.fin x.1) := hw
    rcases List.mem_or_eq_of_mem_set hw with h | h
    · exact hl w h
    · rw [h]; rfl
  have hstep2 := KStepC.updateR (nbVars := sv.P.nbVars) (dedup := sv.dedup) (okR := okRk sv) (okX := okXk sv)
    (abortK c 0 x.1 none) [0] 1 y.1 y.2.1 y.2.2.1 y.2.2.2.1 y.2.2.2.2 hw1' hl'
  refine ⟨_, _, KRunC.tail hpre hstep1, hstep2, rfl, hub, hlb, ?_, ?_, ?_⟩
  · exact (updateBest_fringe (c.crit.abortSearch x.1.ub none).base y.2.2.1).2.2.1
  · exact (updateBest_fringe (c.crit.abortSearch x.1.ub none).base y.2.2.1).2.1.trans hub
  · exact updateBest_lb_ge_val (c.crit.abortSearch x.1.ub none).base y.2.2.1 6 hbe

/-- **the cut-off run**: a reachable state of the system with cut-off in which `abort_proof` is set and `best_ub = 4 < 6 = opt`,
    and one step later (`maybe_update_best` of the other worker) `best_lb ≥ 6 > 4 = best_ub` -/
theorem cutoff_run :
    ∃ s1 s2 : KSysC Int, KPRunC sv (KSysC.init sv.P sv.dedup 2) s1 ∧ KPStepC sv s1 s2 ∧
      s1.k.crit.base.abort = true ∧ s1.k.crit.base.bestUb = 4 ∧ s1.k.crit.base.bestLb = 2 ∧
      s2.k.crit.base.abort = true ∧ s2.k.crit.base.bestUb = 4 ∧ 6 ≤ s2.k.crit.base.bestLb := by
  obtain ⟨h1, h2, h3, _, _, _, h7, h8⟩ := obs
  cases hx : compRAt cut 0 with
  | none => rw [hx] at h7; cases h7
  | some x =>
  cases hy : wrRDoneAt cut 1 with
  | none => rw [hy] at h8; cases h8
  | some y =>
    rw [hx] at h7
    rw [hy] at h8
    have hbe : y.2.2.1.bestExact = some 6 := by
      have := Option.some.inj h8
      exact (Prod.mk.inj (Prod.mk.inj (Prod.mk.inj (Prod.mk.inj this).2).2).2).2
    exact cutoff_general (krun_toC reach) (compRAt_sound hx) (wrRDoneAt_sound hy) ((lockFreeB_iff _).mp h1) h2 h3
      (Option.some.inj h7) hbe

/-! ## … to the return of `maximize()`

An executable stepper for the handful of `KStepC` steps the tail of the run needs (`tailStep_sound`: it only takes steps of
`KPStepC`), and the run evaluated to the end: worker 0 `abort_search`, worker 1 `maybe_update_best`, worker 1
`notify_node_finished` (its restricted diagram was exact), worker 0 `notify_node_finished` and `break`, worker 1 `get_workload`
(cleaning loop, then `Aborted`). -/

def tailStep (s : KSysC Int) (i : Nat) : Option (KSysC Int) :=
  match (s.k.ws[i]? : Option (KW Int)) with
  | some (KW.compR n _ _) =>
    if lockFreeB s.k = true ∧ s.k.crit.base.fringe = [] then some ⟨abortK s.k i n none, i :: s.exits⟩ else none
  | some (KW.wrR n _ o _ _ []) =>
    if lockFreeB s.k = true then
      some ⟨{ s.k with crit := s.k.crit.updateBest o, ws := s.k.ws.set i (if o.isExact then .fin n else .readX n) }, s.exits⟩
    else none
  | some (KW.fin n) =>
    if lockFreeB s.k = true then
      match s.k.crit.notifyFinished i n.depth with
      | some c' =>
        if i ∈ s.exits then some ⟨{ s.k with crit := c', ws := (s.k.ws.map KW.wake).set i .done }, s.exits⟩
        else some ⟨{ s.k with crit := c', ws := (s.k.ws.map KW.wake).set i .idle }, s.exits⟩
      | none => none
    else none
  | some KW.idle => if lockFreeB s.k = true then some ⟨{ s.k with ws := s.k.ws.set i .gwC }, s.exits⟩ else none
  | some KW.gwC =>
    if cleanCond sv.P.nbVars s.k.crit then
      match s.k.cache.clearLayer s.k.crit.base.firstActive with
      | some c' => some ⟨{ s.k with crit := bumpFirst s.k.crit, cache := c', log := c' :: s.k.log }, s.exits⟩
      | none => none
    else if s.k.crit.base.abort = true then some ⟨{ s.k with ws := s.k.ws.set i .done }, s.exits⟩
    else none
  | _ => none

theorem tailStep_sound {s t : KSysC Int} {i : Nat} (h : tailStep s i = some t) : KPStepC sv s t := by
  obtain ⟨k, e⟩ := s
  unfold tailStep at h
  split at h
  · next n lb k0 hw =>
    split at h
    · next hc =>
      cases h
      exact KStepC.abortR k e i n lb k0 none hw ((lockFreeB_iff _).mp hc.1) (.inl ⟨hc.2, rfl⟩)
    · cases h
  · next n lb o cv ups hw =>
    split at h
    · next hc => cases h; exact KStepC.updateR k e i n lb o cv ups hw ((lockFreeB_iff _).mp hc)
    · cases h
  · next n hw =>
    split at h
    · next hc =>
      split at h
      · next c' hn =>
        split at h
        · next hi => cases h; exact KStepC.notifyExit k e i n c' hw ((lockFreeB_iff _).mp hc) hi hn
        · next hi => cases h; exact KStepC.notify k e i n c' hw ((lockFreeB_iff _).mp hc) hi hn
      · cases h
    · cases h
  · next hw =>
    split at h
    · next hc => cases h; exact KStepC.gwEnter k e i hw ((lockFreeB_iff _).mp hc)
    · cases h
  · next hw =>
    split at h
    · next hc =>
      split at h
      · next c' hcl => cases h; exact KStepC.gwClear k e i c' hw hc hcl
      · cases h
    · next hc =>
      split at h
      · next ha => cases h; exact KStepC.gwAborted k e i hw hc ha
      · cases h
  · cases h

/-- the stepper along a list of workers (a step that is not enabled is skipped) -/
def runTail : KSysC Int → List Nat → KSysC Int
  | s, [] => s
  | s, i :: is =>
    match tailStep s i with
    | some t => runTail t is
    | none => runTail s is

theorem runTail_run : ∀ (is : List Nat) (s : KSysC Int), KPRunC sv s (runTail s is) := by
  intro is
  induction is with
  | nil => intro s; exact KRunC.refl s
  | cons i is ih =>
    intro s
    unfold runTail
    cases h : tailStep s i with
    | none => exact ih s
    | some t =>
      exact KRunC.trans (KRunC.tail (KRunC.refl _) (tailStep_sound h)) (ih t)

/-- the end of the run -/
def fin_ : KSysC Int := runTail ⟨cut, []⟩ ([0, 1, 1, 0] ++ List.replicate 12 1)

/-- **when `maximize()` returns**: every worker has left, `abort_proof` is set, the report is `(is_exact = false, Some(6))`,
    `best_lb = 6`, `best_ub = 4`, nothing panicked -/
theorem end_obs : allDoneB fin_.k = true ∧ fin_.k.crit.base.abort = true ∧ fin_.k.crit.base.completion = (false, some 6) ∧
    fin_.k.crit.base.bestLb = 6 ∧ fin_.k.crit.base.bestUb = 4 ∧ fin_.k.crit.base.crashed = false ∧ fin_.exits = [0] := by
  decide

/-- **a complete run with one cut-off that returns `best_lb = 6 > best_ub = 4`** (the optimum is 6) -/
theorem complete_cutoff_run :
    ∃ t : KSysC Int, KPRunC sv (KSysC.init sv.P sv.dedup 2) t ∧ AllDone t.k ∧ t.k.crit.base.abort = true ∧
      t.k.crit.base.completion = (false, some 6) ∧ t.k.crit.base.bestLb = 6 ∧ t.k.crit.base.bestUb = 4 := by
  obtain ⟨h1, h2, h3, h4, h5, _, _⟩ := end_obs
  have hrun : KPRunC sv (KSysC.init sv.P sv.dedup 2) fin_ :=
    KRunC.trans (krun_toC reach) (runTail_run ([0, 1, 1, 0] ++ List.replicate 12 1) ⟨cut, []⟩)
  exact ⟨fin_, hrun, (allDoneB_iff _).mp h1, h2, h3, h4, h5⟩

end CutWitness
end Ddo.ParCache

#print axioms Ddo.ParCache.CutWitness.wellFormed
#print axioms Ddo.ParCache.CutWitness.obs
#print axioms Ddo.ParCache.CutWitness.abort_bound_below_opt
#print axioms Ddo.ParCache.CutWitness.cutoff_run
#print axioms Ddo.ParCache.CutWitness.tailStep_sound
#print axioms Ddo.ParCache.CutWitness.end_obs
#print axioms Ddo.ParCache.CutWitness.complete_cutoff_run
