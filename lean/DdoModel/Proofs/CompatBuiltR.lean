import DdoModel.Proofs.CompatBuiltB0
/-! C10e — the stages of a joint layer step: `_relax` keeps `SqPostJ` (`Ddo.Theta.sqpostT_relax` with the class `Dr`). -/
set_option linter.unusedSectionVars false
set_option linter.unusedVariables false
namespace Ddo.C10d
open Ddo Ddo.C01 Ddo.Closed Ddo.C09 Ddo.C10 Ddo.C10c Ddo.Truth Ddo.Theta Ddo.Bounds
variable {S K : Type} [DecidableEq S] [DecidableEq K]

theorem srcOk_of_tinvJ (cfg : Cfg S K) (H : Nat → S → EInt) (B : Int) (cache : Cache S) (O : Int) (Live Drop : Nat → Nat → Prop) (dd : DD S K)
    (hB : NoClamp cfg.P cfg.R cfg.root.value B) (hI : TInvJ cfg H B cache O Live Drop dd) :
    Cover.SrcOk cfg dd.layers B (Cover.Bd B dd.layers.length) := by
  constructor
  · intro l p src c hsrc hc
    obtain ⟨ly, hly, hp⟩ := Cover.getNode_lt hsrc
    have hw := hI.rngL l ly hly src (List.mem_of_getElem? hp)
    have hl := Cover.lt_of_getElem?_some hly
    have := Cover.within_satAdd hw hc
    rw [← Cover.Bd_succ] at this
    exact this.mono (Cover.Bd_mono hB.nonneg (by omega))
  · intro s u m d c hc
    exact hB.relax s u m d c hc

theorem sqpostJ_relax (cfg : Cfg S K) (H : Nat → S → EInt) (B : Int) (cache : Cache S) (O : Int) (Live Drop : Nat → Nat → Prop) (dd : DD S K)
    (var : Nat) (Dr : Nat → Prop) (lg : List (Call S)) (hy : HypJ cfg H B)
    (hnv : cfg.P.nextVar dd.depth (dd.next.map (·.state)) = some var)
    (hlen : dd.layers.length ≤ cfg.P.nbVars) (layer : List (Node S)) (cur : List Nat)
    (hc1 : cur.length > cfg.width) (hc2 : dd.layers.length > 1)
    (hI : TInvJ cfg H B cache O Live Drop dd) (hsq : SqPostJ cfg H B cache O Live dd var Dr layer cur) (hpre : SqPre cfg dd layer cur) :
    SqPostJ cfg H B cache O Live dd var Dr (relaxLayer cfg dd.layers layer cur lg).1 (relaxLayer cfg dd.layers layer cur lg).2.1 := by
  have hne : dd.layers ≠ [] := by intro h; rw [h] at hc2; simp at hc2
  have hcur := hpre.lt
  have hpost := Cover.relaxLayer_spec cfg dd.layers layer cur lg hy.W hc1 hcur
  have hpostA := relaxLayer_specA cfg dd.layers layer cur lg hy.W hcur
  have hsrc := srcOk_of_tinvJ cfg H B cache O Live Drop dd hy.B hI
  have hdel : ∀ q ∈ cur, ∀ n, layer[q]? = some n → n.deleted = false := fun q hq n hn => ((hsq.cls q n hn).cur hq).2.1
  obtain ⟨p1, p2, p3⟩ := relaxLayer_pos cfg dd.layers layer cur lg hy.W hc1 hcur hpre.nodup hdel
  have hmapc := (relaxLayer_map Node.cache (fun src m a => (appendEdge_flds src m a).2.2.2.2.1) (fun _ => rfl) (fun _ _ => rfl)
    cfg dd.layers layer cur lg).1
  have hsub := (relaxLayer_map Node.cache (fun src m a => (appendEdge_flds src m a).2.2.2.2.1) (fun _ => rfl) (fun _ _ => rfl)
    cfg dd.layers layer cur lg).2
  have hfld := relaxLayer_fld Node.cache (fun src m a => (appendEdge_flds src m a).2.2.2.2.1) (fun _ => rfl) (fun _ _ => rfl)
    cfg dd.layers layer cur lg
  have hfldT := relaxLayer_fld Node.theta (fun src m a => (appendEdge_flds src m a).2.2.2.1) (fun _ => rfl) (fun _ _ => rfl)
    cfg dd.layers layer cur lg
  have hlenL : layer.length ≤ (relaxLayer cfg dd.layers layer cur lg).1.length := by
    rcases hmapc with h | h
    · have := congrArg List.length h
      simp only [List.length_map] at this
      omega
    · have := congrArg List.length h
      simp only [List.length_map, List.length_append, List.length_singleton] at this
      omega
  have hXsub : ∀ x ∈ Cover.restStatesOf cfg layer cur, x ∈ dd.next.map (·.state) := by
    intro x hx
    unfold Cover.restStatesOf at hx
    obtain ⟨p0, _, hp0⟩ := List.mem_filterMap.mp hx
    cases hn0 : layer[p0]? with
    | none => rw [hn0] at hp0; cases hp0
    | some n0 =>
      rw [hn0] at hp0
      simp only [Option.map_some, Option.some.injEq] at hp0
      rw [← hp0]
      exact hpre.states n0 (List.mem_of_getElem? hn0)
  have hXne : Cover.restStatesOf cfg layer cur ≠ [] := by
    obtain ⟨q0, hq0, hq0c⟩ := Cover.rest_nonempty cfg layer cur hy.W hc1
    have hlt := hcur q0 hq0c
    apply List.ne_nil_of_mem (a := layer[q0].state)
    unfold Cover.restStatesOf
    exact List.mem_filterMap.mpr ⟨q0, hq0, by rw [List.getElem?_eq_getElem hlt]; rfl⟩
  have hd0 : d0Of cfg layer cur = dd.depth :=
    d0Of_eq cfg layer cur dd.depth hy.W hc1 hcur (fun n hn => (hsq.base n hn).depth)
  refine ⟨?_, ?_, ?_, ?_, ?_, ?_, ?_, ?_, ?_⟩
  · -- att
    intro q' hq' n' hn' h1 hH1
    rcases hpostA.states q' hq' n' hn' with ⟨u, hu, hs⟩ | hs
    · rw [hs] at hH1 ⊢
      exact hy.att dd.depth _ var u.state h1 hnv (hpre.states u hu) hH1
    · rw [hs] at hH1 ⊢
      exact hy.AM dd.depth (dd.next.map (·.state)) var _ h1 hnv hXne hXsub hH1
  · -- rng
    exact hpost.range B (Cover.Bd B dd.layers.length) hsrc (Cover.Bd_nonneg hy.B.nonneg _)
      ⟨fun n hn => ⟨hsq.rng n hn, fun a ha => ((hsq.base n hn).arcs a ha).2⟩, fun q hq u hu => hpre.attL hne q hq u hu⟩
  · -- base
    refine relaxLayer_forallD (NodeBaseJ B dd.layers.length dd.depth True) cfg dd.layers layer cur lg ?_ ?_ ?_ ?_ hsq.base
    · exact ⟨hd0, rfl, rfl, fun a ha => absurd ha List.not_mem_nil, fun _ h => absurd True.intro h⟩
    · intro n hn; exact ⟨hn.depth, hn.cutset, hn.above, hn.arcs, fun _ h => absurd True.intro h⟩
    · intro n b hn; exact ⟨hn.depth, hn.cutset, hn.above, hn.arcs, fun _ h => absurd True.intro h⟩
    · intro dropN hd e he src m hm
      obtain ⟨f1, f2, f3, f4, f5, _, _⟩ := appendEdge_flds src m
        ⟨e.fromL, e.fromP, e.dec, cfg.R.relax src.state dropN.state (Cover.mergedOf cfg layer cur) e.dec e.cost⟩
      refine ⟨by rw [f1]; exact hm.depth, by rw [f2]; exact hm.cutset, by rw [f3]; exact hm.above, ?_,
        fun _ h => absurd True.intro h⟩
      intro a ha
      rw [Cover.appendEdge_inb] at ha
      rcases List.mem_cons.mp ha with ha | ha
      · rw [ha]
        obtain ⟨h1, h2⟩ := hd.arcs e he
        exact ⟨h1, hy.B.relax _ _ _ _ _ h2⟩
      · exact hm.arcs a ha
  · -- thN
    intro q n' hn' hcf hnd
    rcases hfldT q n' hn' with ⟨n, hn, ht⟩ | ⟨_, ht⟩
    · rcases hfld q n' hn' with ⟨n2, hn2, hc⟩ | ⟨hql, _⟩
      · rw [hn] at hn2; cases hn2
        rw [ht]
        exact hsq.thN q n hn (by rw [← hc]; exact hcf) hnd
      · have hlt := Cover.lt_of_getElem?_some hn
        omega
    · rw [ht]; rfl
  · -- cls
    intro q n' hn'
    by_cases hqc : q ∈ cur ∨ ¬ q < layer.length
    · have hcf : n'.cache = false := by
        rcases hfld q n' hn' with ⟨n, hn, hc⟩ | ⟨_, hc⟩
        · have hlt := Cover.lt_of_getElem?_some hn
          rcases hqc with hqc | hqc
          · rw [hc]; exact ((hsq.cls q n hn).cur hqc).1
          · exact absurd hlt hqc
        · rw [hc]; rfl
      have hndr : ¬ Dr q := by
        rcases hqc with hqc | hqc
        · have hlt := hcur q hqc
          exact ((hsq.cls q layer[q] (List.getElem?_eq_getElem hlt)).cur hqc).2.2
        · exact fun h => hqc (hsq.drLt q h)
      refine ⟨fun h => (by rw [hcf] at h; cases h), fun _ hd' _ => ?_, fun hq' => ⟨hcf, ?_, hndr⟩, fun h => absurd h hndr⟩
      · rcases p3 q n' hn' hd' with h | ⟨h1, h2⟩
        · exact h
        · rcases hqc with hqc | hqc
          · exact absurd hqc h1
          · exact absurd h2 hqc
      · obtain ⟨n'', hn'', hd''⟩ := p2 q hq'
        rw [hn'] at hn''; cases hn''; exact hd''
    · have hq1 : q ∉ cur := fun h => hqc (.inl h)
      have hq2 : q < layer.length := Decidable.byContradiction (fun h => hqc (.inr h))
      rw [p1 q hq1 hq2] at hn'
      have hold := hsq.cls q n' hn'
      have hq' : q ∉ (relaxLayer cfg dd.layers layer cur lg).2.1 := by
        intro h
        rcases hsub q h with h | h
        · exact hq1 h
        · omega
      exact ⟨hold.pruned, fun hc hd' hnd => absurd (hold.alive hc hd' hnd) hq1, fun h => absurd h hq', hold.drop⟩
  · -- drLt
    intro q h
    have := hsq.drLt q h
    omega
  · -- step
    intro l p ly n hl hly hlive hn htest h hH
    obtain ⟨p0, m0, e0, h0, hm0, hok0, he0, hfl, hfp, hwc, hH0, hle, hval⟩ := hsq.step l p ly n hl hly hlive hn htest h hH
    by_cases hp0 : p0 ∈ cur
    · obtain ⟨q', hq', n', hn', hT⟩ := hpostA.transfer p0 hp0 m0 hm0
      rcases hT with ⟨hs, hv, harcs⟩ | ⟨hX, hs, harc⟩
      · exact ⟨q', n', e0, h0, hn', .inl hq', harcs e0 he0, hfl, hfp, hwc, by rw [hs]; exact hH0, hle, by omega⟩
      · have hsrcn : getNode dd.layers e0.fromL e0.fromP = some n := by rw [hfl, hfp]; exact getNode_of hly hn
        obtain ⟨hmem, hge⟩ := harc e0 he0 n hsrcn
        obtain ⟨h'', hH'', hle''⟩ := hy.M (cfg.root.depth + l + 1)
          (Cover.restStatesOf cfg layer cur) m0.state n.state e0.dec e0.cost h0 hX hH0
        have hrc := hy.B.relax n.state m0.state (Cover.mergedOf cfg layer cur) e0.dec e0.cost hwc
        have hw := hI.rngL l ly hly n (List.mem_of_getElem? hn)
        have hsmall : Cover.Bd B dd.layers.length ≤ 4611686018427387904 := Cover.Bd_small hy.B.toDom (by omega)
        have hbd : Cover.Bd B l + B ≤ Cover.Bd B dd.layers.length := by
          rw [← Cover.Bd_succ]; exact Cover.Bd_mono hy.B.nonneg (by omega)
        have e2 : satAdd n.value (cfg.R.relax n.state m0.state (Cover.mergedOf cfg layer cur) e0.dec e0.cost)
            = n.value + cfg.R.relax n.state m0.state (Cover.mergedOf cfg layer cur) e0.dec e0.cost := by
          apply Cover.satAdd_eq <;> (unfold Cover.Within at hw hrc; simp only [iMin, iMax]; omega)
        rw [e2] at hge
        refine ⟨q', n', _, h'', hn', .inl hq', hmem, hfl, hfp, hrc, ?_, ?_, hge⟩
        · rw [hs]; exact hH''
        · unfold Cover.mergedOf
          dsimp only
          omega
    · have hlt := Cover.lt_of_getElem?_some hm0
      have hm0' : (relaxLayer cfg dd.layers layer cur lg).1[p0]? = some m0 := by rw [p1 p0 hp0 hlt]; exact hm0
      rcases hok0 with h | hcm | hdr
      · exact absurd h hp0
      · exact ⟨p0, m0, e0, h0, hm0', .inr (.inl hcm), he0, hfl, hfp, hwc, hH0, hle, hval⟩
      · exact ⟨p0, m0, e0, h0, hm0', .inr (.inr hdr), he0, hfl, hfp, hwc, hH0, hle, hval⟩
  · -- first
    intro h; exact absurd h hne
  · -- root
    intro h; exact absurd h hne

end Ddo.C10d
