import DdoModel.Props.C09b
/-! C09 (closing the caching solver) — **the concrete caching sequential solver**: `SequentialSolver` with `SimpleCache`
(`EmptyDominanceChecker`, `NoCutoff`) over the diagram model, and the elementary facts about the cache operations it issues.

One turn of the loop of `maximize` (`SolverCfg.kturn`, the popped node `N` / the rest of the fringe being an input):

1. `get_workload`: the cache-cleaning loop (`cleanLoop` for `first_active_layer`, `cleanCache` = the `clear_layer` calls it
   issues), the pop, `afterPop`;
2. `process_one_node(N)`: `node.ub ≤ best_lb` → skip; `must_explore(N)` (read-only in `abstraction/cache.rs`: it does **not**
   write the cache) → skip if refused; restricted compilation consulting the cache, its `update_threshold` calls
   (`cacheUpdates`, replayed in call order by `applyUps`), `maybe_update_best`; if it is not exact the relaxed compilation
   consulting the *updated* cache, its updates, `maybe_update_best`, `enqueue_cutset` (a cut-set node keeps the bound its own
   diagram gave it: repair of finding D14).

`none` = a panic (`Vec` index out of range in the cache) or a compilation that does not end normally.
`KStep` = a turn with a best-first pop (`MaxUB` then value, as `CStep`); `KStepAny` = a turn with an arbitrary pop.

**The pre-fix (capped) variant** — `SolverCfg.kprocessCapped`, `SolverCfg.kturnCapped`, `KStepAnyCapped`, `KRunAnyCapped`,
`SolverCfg.ksolveSchedCapped`, `SolverCfg.ksolveLoopCapped` — is the same solver with the `enqueue_cutset(ub)` of the code
before the repair of D14 (`SeqSt.enqueueCapped`: `cutset_node.ub = ub.min(cutset_node.ub)`).  It is kept only for the D14
witnesses (`Ddo.C09.anyOrderOpt_false`, `Ddo.C09.Layered.Counter.*`, `Ddo.C09.Layered.Rise.bestub_capped`); no correctness
theorem is stated about it. -/
set_option linter.unusedSectionVars false
set_option linter.unusedVariables false
namespace Ddo.C09
open Ddo Ddo.C01 Ddo.Closed
variable {S : Type} [DecidableEq S]

/-! ## the cache operations -/

/-- replay of `update_threshold` calls, first call first -/
def applyUps (c : Cache S) : List (S × Nat × Int × Bool) → Option (Cache S)
  | [] => some c
  | u :: us =>
    match c.update u.1 u.2.1 ⟨u.2.2.1, u.2.2.2⟩ with
    | none => none
    | some c' => applyUps c' us

/-- the `clear_layer` calls of the cache-cleaning loop of `get_workload` (same recursion as `cleanLoop`) -/
def cleanCache (nbVars : Nat) (openByLayer : List Nat) : Nat → Nat → Cache S → Option (Cache S)
  | 0, _, c => some c
  | fuel + 1, fa, c =>
    if fa < nbVars ∧ openByLayer[fa]? = some 0 then
      match c.clearLayer fa with
      | none => none
      | some c' => cleanCache nbVars openByLayer fuel (fa + 1) c'
    else some c

theorem update_some (c : Cache S) (s : S) (d : Nat) (t : Thr) (hd : d < c.layers.length) :
    ∃ c', c.update s d t = some c' ∧ c'.layers.length = c.layers.length := by
  unfold Cache.update
  rw [List.getElem?_eq_getElem hd]
  exact ⟨_, rfl, by simp⟩

theorem update_len (c c' : Cache S) (s : S) (d : Nat) (t : Thr) (h : c.update s d t = some c') :
    c'.layers.length = c.layers.length := by
  unfold Cache.update at h
  split at h
  · cases h
  · cases h; simp

/-- in-range updates succeed, keep the number of layers, and are `CView.upds` on the view -/
theorem applyUps_spec (ups : List (S × Nat × Int × Bool)) :
    ∀ (c : Cache S), (∀ u ∈ ups, u.2.1 < c.layers.length) →
      ∃ c', applyUps c ups = some c' ∧ c'.layers.length = c.layers.length ∧ viewOf c' = (viewOf c).upds ups := by
  induction ups with
  | nil => intro c _; exact ⟨c, rfl, rfl, rfl⟩
  | cons u us ih =>
    intro c h
    obtain ⟨c1, h1, hl1⟩ := update_some c u.1 u.2.1 ⟨u.2.2.1, u.2.2.2⟩ (h u List.mem_cons_self)
    obtain ⟨c2, h2, hl2, hv2⟩ := ih c1 (fun u' hu' => by rw [hl1]; exact h u' (List.mem_cons_of_mem _ hu'))
    refine ⟨c2, ?_, by rw [hl2, hl1], ?_⟩
    · unfold applyUps; rw [h1]; exact h2
    · rw [hv2, viewOf_update c c1 u.1 u.2.1 u.2.2.1 u.2.2.2 h1]
      rfl

theorem applyUps_nil (c : Cache S) : applyUps c [] = some c := rfl

theorem clearLayer_some (c : Cache S) (d : Nat) (hd : d < c.layers.length) :
    ∃ c', c.clearLayer d = some c' ∧ c'.layers.length = c.layers.length := by
  unfold Cache.clearLayer
  rw [List.getElem?_eq_getElem hd]
  exact ⟨_, rfl, by simp⟩

/-- the cleaning loop does not panic (it only clears layers `< nb_variables`), keeps the number of layers and only
    forgets thresholds -/
theorem cleanCache_spec (nbVars : Nat) (obl : List Nat) :
    ∀ (fuel fa : Nat) (c : Cache S), c.layers.length = nbVars + 1 →
      ∃ c', cleanCache nbVars obl fuel fa c = some c' ∧ c'.layers.length = nbVars + 1 ∧
        ∀ s d, viewOf c' s d = viewOf c s d ∨ viewOf c' s d = none := by
  intro fuel
  induction fuel with
  | zero => intro fa c h; exact ⟨c, rfl, h, fun _ _ => .inl rfl⟩
  | succ fuel ih =>
    intro fa c h
    unfold cleanCache
    split
    · rename_i hc
      obtain ⟨c1, h1, hl1⟩ := clearLayer_some c fa (by omega)
      rw [h1]
      dsimp only
      obtain ⟨c2, h2, hl2, hv2⟩ := ih (fa + 1) c1 (by rw [hl1]; exact h)
      refine ⟨c2, h2, hl2, fun s d => ?_⟩
      rcases hv2 s d with e | e
      · rcases viewOf_clearLayer c c1 fa h1 s d with e' | e'
        · exact .inl (e.trans e')
        · exact .inr (e.trans e')
      · exact .inr e
    · exact ⟨c, rfl, h, fun _ _ => .inl rfl⟩

/-- `must_explore` on the concrete cache is `¬ prunM` on its view -/
theorem mustExplore_view (c : Cache S) (N : SubP S) (hd : N.depth < c.layers.length) :
    c.mustExplore N.state N.depth N.value = some (decide (¬ prunM (viewOf c) N)) := by
  unfold Cache.mustExplore Cache.get
  rw [List.getElem?_eq_getElem hd]
  simp only [Option.map_some]
  congr 1
  have hv : viewOf c N.state N.depth = (c.layers[N.depth]).get N.state := by
    unfold viewOf Cache.get
    rw [List.getElem?_eq_getElem hd]; rfl
  have := prunM_iff (viewOf c) N
  rw [hv] at this
  cases hm : mustExploreThr ((c.layers[N.depth]).get N.state) N.value with
  | true =>
    have hnp : ¬ prunM (viewOf c) N := fun hp => by rw [this.mp hp] at hm; cases hm
    exact (decide_eq_true hnp).symm
  | false =>
    have hp : prunM (viewOf c) N := this.mpr hm
    exact (decide_eq_false (fun hn => hn hp)).symm

/-! ## the solver -/

/-- the `CompilationInput` of `process_one_node` for the node `N` with incumbent `lb`, **with** the cache -/
def _root_.Ddo.C01.SolverCfg.ccfg (sv : SolverCfg S) (ct : CompType) (N : SubP S) (lb : Int) : Cfg S Unit :=
  { P := sv.P, R := sv.R, rank := sv.rank, dom := none, useCache := true, kind := sv.kind, ctype := ct,
    width := sv.width N, root := N, lb := lb }

/-- the parameters of a run of `SequentialSolver` with `SimpleCache`: those of `Ddo.C01.SolverCfg`, the compilations being
    configured by `SolverCfg.ccfg` (`useCache := true`) -/
abbrev CSolverCfg (S : Type) := SolverCfg S

/-- outcome / result of the two compilations of `N` consulting `cache` (relaxed: the `must` result) -/
def _root_.Ddo.C01.SolverCfg.coutR (sv : SolverCfg S) (cache : Cache S) (N : SubP S) (lb : Int) : Outcome :=
  (compile (sv.ccfg .restricted N lb) cache (DomStore.init sv.P.nbVars) 0 none).1
def _root_.Ddo.C01.SolverCfg.cresR (sv : SolverCfg S) (cache : Cache S) (N : SubP S) (lb : Int) : Result S :=
  (compile (sv.ccfg .restricted N lb) cache (DomStore.init sv.P.nbVars) 0 none).2.1
def _root_.Ddo.C01.SolverCfg.coutX (sv : SolverCfg S) (cache : Cache S) (N : SubP S) (lb : Int) : Outcome :=
  (compile (sv.ccfg .relaxed N lb) cache (DomStore.init sv.P.nbVars) 0 none).1
def _root_.Ddo.C01.SolverCfg.cresX (sv : SolverCfg S) (cache : Cache S) (N : SubP S) (lb : Int) : Result S :=
  (compile (sv.ccfg .relaxed N lb) cache (DomStore.init sv.P.nbVars) 0 none).2.1

/-- the state of the caching solver: the sequential state and the cache -/
structure KSt (S : Type) where
  st : SeqSt S
  cache : Cache S

/-- `new` + `initialize` (the cache gets `nb_variables + 1` empty layers) -/
def KSt.init (sv : SolverCfg S) : KSt S := ⟨SeqSt.init sv.P none sv.dedup, Cache.init sv.P.nbVars⟩

/-- `process_one_node(N)` from the popped state `st` with the cache `c0` -/
def _root_.Ddo.C01.SolverCfg.kprocess (sv : SolverCfg S) (st : SeqSt S) (c0 : Cache S) (N : SubP S) : Option (KSt S) :=
  if N.ub ≤ st.bestLb then some ⟨st, c0⟩
  else
    match c0.mustExplore N.state N.depth N.value with
    | none => none
    | some false => some ⟨st, c0⟩
    | some true =>
      if sv.coutR c0 N st.bestLb ≠ .ok then none
      else
        match applyUps c0 (sv.cresR c0 N st.bestLb).cacheUpdates.reverse with
        | none => none
        | some c1 =>
          let st1 := st.updateBest (toOut (sv.cresR c0 N st.bestLb))
          if (sv.cresR c0 N st.bestLb).isExact then some ⟨st1, c1⟩
          else if sv.coutX c1 N st1.bestLb ≠ .ok then none
          else
            match applyUps c1 (sv.cresX c1 N st1.bestLb).cacheUpdates.reverse with
            | none => none
            | some c2 =>
              let st2 := st1.updateBest (toOut (sv.cresX c1 N st1.bestLb))
              if (sv.cresX c1 N st1.bestLb).isExact then some ⟨st2, c2⟩
              else some ⟨st2.enqueue sv.dedup (sv.cresX c1 N st1.bestLb).cutset, c2⟩

/-- one turn of the loop of `maximize`, `N` being the popped node and `rest` what is left in the fringe -/
def _root_.Ddo.C01.SolverCfg.kturn (sv : SolverCfg S) (s : KSt S) (N : SubP S) (rest : List (SubP S)) : Option (KSt S) :=
  match cleanCache sv.P.nbVars s.st.openByLayer sv.P.nbVars s.st.firstActive s.cache with
  | none => none
  | some c0 =>
    sv.kprocess (popped s.st N rest (cleanLoop sv.P.nbVars s.st.openByLayer sv.P.nbVars s.st.firstActive)) c0 N

/-- **one turn with a best-first pop** (largest upper bound, then largest value: `MaxUB`) -/
inductive KStep (sv : SolverCfg S) : KSt S → KSt S → Prop
  | pop (s t : KSt S) (N : SubP S) (rest : List (SubP S))
      (hpop : s.st.fringe.Perm (N :: rest))
      (hmax : ∀ c ∈ rest, c.ub < N.ub ∨ (c.ub = N.ub ∧ c.value ≤ N.value))
      (hturn : sv.kturn s N rest = some t) : KStep sv s t

/-- one turn with an arbitrary pop (a custom `SubProblemRanking`, or sub-problems processed out of order) -/
inductive KStepAny (sv : SolverCfg S) : KSt S → KSt S → Prop
  | pop (s t : KSt S) (N : SubP S) (rest : List (SubP S))
      (hpop : s.st.fringe.Perm (N :: rest))
      (hturn : sv.kturn s N rest = some t) : KStepAny sv s t

/-- finite runs -/
inductive KRun (sv : SolverCfg S) : KSt S → KSt S → Prop
  | refl (s : KSt S) : KRun sv s s
  | tail {s t u : KSt S} : KRun sv s t → KStep sv t u → KRun sv s u

theorem KStep.any {sv : SolverCfg S} {s t : KSt S} (h : KStep sv s t) : KStepAny sv s t := by
  cases h with
  | pop N rest hpop _ hturn => exact KStepAny.pop s t N rest hpop hturn

theorem KRun.head {sv : SolverCfg S} {s t u : KSt S} (h1 : KStep sv s t) (h2 : KRun sv t u) : KRun sv s u := by
  induction h2 with
  | refl => exact KRun.tail (KRun.refl _) h1
  | tail _ hstep ih => exact KRun.tail ih hstep

/-- the loop of `maximize` as a function (deterministic best-first pop `popMax`); stops on the empty fringe, when the fuel
    runs out, or on a panic / abnormal end of a compilation -/
def _root_.Ddo.C01.SolverCfg.ksolveLoop (sv : SolverCfg S) : Nat → KSt S → KSt S
  | 0, s => s
  | n + 1, s =>
    match popMax s.st.fringe with
    | none => s
    | some (N, rest) =>
      match sv.kturn s N rest with
      | none => s
      | some t => sv.ksolveLoop n t

/-- remove the `i`-th entry -/
def popAt : List (SubP S) → Nat → Option (SubP S × List (SubP S))
  | [], _ => none
  | c :: l, 0 => some (c, l)
  | c :: l, i + 1 => match popAt l i with
    | none => none
    | some (m, rest) => some (m, c :: rest)

/-- the loop with an explicit pop schedule: turn `j` pops the entry of index `sched[j]` of the fringe (a list, newest
    pushes first) — an arbitrary `SubProblemRanking` -/
def _root_.Ddo.C01.SolverCfg.ksolveSched (sv : SolverCfg S) : List Nat → KSt S → KSt S
  | [], s => s
  | i :: sched, s =>
    match popAt s.st.fringe i with
    | none => s
    | some (N, rest) =>
      match sv.kturn s N rest with
      | none => s
      | some t => sv.ksolveSched sched t

theorem popAt_perm : ∀ (l : List (SubP S)) (i : Nat) (N : SubP S) (rest : List (SubP S)),
    popAt l i = some (N, rest) → l.Perm (N :: rest) := by
  intro l
  induction l with
  | nil => intro i N rest h; cases i <;> cases h
  | cons c l ih =>
    intro i N rest h
    cases i with
    | zero =>
      simp only [popAt, Option.some.injEq, Prod.mk.injEq] at h
      obtain ⟨rfl, rfl⟩ := h
      exact List.Perm.refl _
    | succ i =>
      simp only [popAt] at h
      cases hp : popAt l i with
      | none => rw [hp] at h; cases h
      | some mr =>
        obtain ⟨m, r⟩ := mr
        rw [hp] at h
        simp only [Option.some.injEq, Prod.mk.injEq] at h
        obtain ⟨rfl, rfl⟩ := h
        exact (List.Perm.cons _ (ih i m r hp)).trans (List.Perm.swap _ _ _)

/-- finite runs with arbitrary pops -/
inductive KRunAny (sv : SolverCfg S) : KSt S → KSt S → Prop
  | refl (s : KSt S) : KRunAny sv s s
  | tail {s t u : KSt S} : KRunAny sv s t → KStepAny sv t u → KRunAny sv s u

theorem KRunAny.head {sv : SolverCfg S} {s t u : KSt S} (h1 : KStepAny sv s t) (h2 : KRunAny sv t u) : KRunAny sv s u := by
  induction h2 with
  | refl => exact KRunAny.tail (KRunAny.refl _) h1
  | tail _ hstep ih => exact KRunAny.tail ih hstep

/-- the scheduled loop is a run with arbitrary pops -/
theorem ksolveSched_run (sv : SolverCfg S) : ∀ (sched : List Nat) (s : KSt S), KRunAny sv s (sv.ksolveSched sched s) := by
  intro sched
  induction sched with
  | nil => intro s; exact KRunAny.refl s
  | cons i sched ih =>
    intro s
    unfold SolverCfg.ksolveSched
    cases hp : popAt s.st.fringe i with
    | none => exact KRunAny.refl s
    | some Nr =>
      obtain ⟨N, rest⟩ := Nr
      dsimp only
      cases ht : sv.kturn s N rest with
      | none => exact KRunAny.refl s
      | some t => exact KRunAny.head (KStepAny.pop s t N rest (popAt_perm _ _ _ _ hp) ht) (ih t)

/-- the best-first loop is a run with arbitrary pops -/
theorem ksolveLoop_runAny (sv : SolverCfg S) : ∀ (n : Nat) (s : KSt S), KRunAny sv s (sv.ksolveLoop n s) := by
  intro n
  induction n with
  | zero => intro s; exact KRunAny.refl s
  | succ n ih =>
    intro s
    unfold SolverCfg.ksolveLoop
    cases hp : popMax s.st.fringe with
    | none => exact KRunAny.refl s
    | some Nr =>
      obtain ⟨N, rest⟩ := Nr
      obtain ⟨hpop, _⟩ := popMax_spec s.st.fringe N rest hp
      dsimp only
      cases ht : sv.kturn s N rest with
      | none => exact KRunAny.refl s
      | some t => exact KRunAny.head (KStepAny.pop s t N rest hpop ht) (ih t)

/-- a best-first run is a run with arbitrary pops -/
theorem KRun.any {sv : SolverCfg S} {s t : KSt S} (h : KRun sv s t) : KRunAny sv s t := by
  induction h with
  | refl => exact KRunAny.refl _
  | tail _ hstep ih => exact KRunAny.tail ih hstep.any

/-! ## the pre-fix (capped) variant, kept for the D14 witnesses

The solver **before** the repair of finding D14: `enqueue_cutset(ub)` caps the bound of every cut-set node by the bound of the
sub-problem that was just processed (`SeqSt.enqueueCapped`).  Everything else is `kprocess` / `kturn` / … line by line. -/

/-- pre-fix (capped) variant, kept for the D14 witnesses: `process_one_node(N)` with the capped `enqueue_cutset(N.ub)`
    (`SolverCfg.kprocess` calling `SeqSt.enqueueCapped`) -/
def _root_.Ddo.C01.SolverCfg.kprocessCapped (sv : SolverCfg S) (st : SeqSt S) (c0 : Cache S) (N : SubP S) : Option (KSt S) :=
  if N.ub ≤ st.bestLb then some ⟨st, c0⟩
  else
    match c0.mustExplore N.state N.depth N.value with
    | none => none
    | some false => some ⟨st, c0⟩
    | some true =>
      if sv.coutR c0 N st.bestLb ≠ .ok then none
      else
        match applyUps c0 (sv.cresR c0 N st.bestLb).cacheUpdates.reverse with
        | none => none
        | some c1 =>
          let st1 := st.updateBest (toOut (sv.cresR c0 N st.bestLb))
          if (sv.cresR c0 N st.bestLb).isExact then some ⟨st1, c1⟩
          else if sv.coutX c1 N st1.bestLb ≠ .ok then none
          else
            match applyUps c1 (sv.cresX c1 N st1.bestLb).cacheUpdates.reverse with
            | none => none
            | some c2 =>
              let st2 := st1.updateBest (toOut (sv.cresX c1 N st1.bestLb))
              if (sv.cresX c1 N st1.bestLb).isExact then some ⟨st2, c2⟩
              else some ⟨st2.enqueueCapped sv.dedup N.ub (sv.cresX c1 N st1.bestLb).cutset, c2⟩

/-- pre-fix (capped) variant, kept for the D14 witnesses: one turn of the loop of `maximize` (`SolverCfg.kturn` with
    `kprocessCapped`) -/
def _root_.Ddo.C01.SolverCfg.kturnCapped (sv : SolverCfg S) (s : KSt S) (N : SubP S) (rest : List (SubP S)) : Option (KSt S) :=
  match cleanCache sv.P.nbVars s.st.openByLayer sv.P.nbVars s.st.firstActive s.cache with
  | none => none
  | some c0 =>
    sv.kprocessCapped (popped s.st N rest (cleanLoop sv.P.nbVars s.st.openByLayer sv.P.nbVars s.st.firstActive)) c0 N

/-- pre-fix (capped) variant, kept for the D14 witnesses: one turn with an arbitrary pop -/
inductive KStepAnyCapped (sv : SolverCfg S) : KSt S → KSt S → Prop
  | pop (s t : KSt S) (N : SubP S) (rest : List (SubP S))
      (hpop : s.st.fringe.Perm (N :: rest))
      (hturn : sv.kturnCapped s N rest = some t) : KStepAnyCapped sv s t

/-- pre-fix (capped) variant, kept for the D14 witnesses: finite runs with arbitrary pops -/
inductive KRunAnyCapped (sv : SolverCfg S) : KSt S → KSt S → Prop
  | refl (s : KSt S) : KRunAnyCapped sv s s
  | tail {s t u : KSt S} : KRunAnyCapped sv s t → KStepAnyCapped sv t u → KRunAnyCapped sv s u

theorem KRunAnyCapped.head {sv : SolverCfg S} {s t u : KSt S} (h1 : KStepAnyCapped sv s t) (h2 : KRunAnyCapped sv t u) :
    KRunAnyCapped sv s u := by
  induction h2 with
  | refl => exact KRunAnyCapped.tail (KRunAnyCapped.refl _) h1
  | tail _ hstep ih => exact KRunAnyCapped.tail ih hstep

/-- pre-fix (capped) variant, kept for the D14 witnesses: the loop with the deterministic best-first pop `popMax`
    (fuel-driven) -/
def _root_.Ddo.C01.SolverCfg.ksolveLoopCapped (sv : SolverCfg S) : Nat → KSt S → KSt S
  | 0, s => s
  | n + 1, s =>
    match popMax s.st.fringe with
    | none => s
    | some (N, rest) =>
      match sv.kturnCapped s N rest with
      | none => s
      | some t => sv.ksolveLoopCapped n t

/-- pre-fix (capped) variant, kept for the D14 witnesses: the loop with an explicit pop schedule (turn `j` pops the entry
    of index `sched[j]` of the fringe) -/
def _root_.Ddo.C01.SolverCfg.ksolveSchedCapped (sv : SolverCfg S) : List Nat → KSt S → KSt S
  | [], s => s
  | i :: sched, s =>
    match popAt s.st.fringe i with
    | none => s
    | some (N, rest) =>
      match sv.kturnCapped s N rest with
      | none => s
      | some t => sv.ksolveSchedCapped sched t

/-- pre-fix (capped) variant, kept for the D14 witnesses: the scheduled capped loop is a run of the capped solver with
    arbitrary pops -/
theorem ksolveSchedCapped_run (sv : SolverCfg S) :
    ∀ (sched : List Nat) (s : KSt S), KRunAnyCapped sv s (sv.ksolveSchedCapped sched s) := by
  intro sched
  induction sched with
  | nil => intro s; exact KRunAnyCapped.refl s
  | cons i sched ih =>
    intro s
    unfold SolverCfg.ksolveSchedCapped
    cases hp : popAt s.st.fringe i with
    | none => exact KRunAnyCapped.refl s
    | some Nr =>
      obtain ⟨N, rest⟩ := Nr
      dsimp only
      cases ht : sv.kturnCapped s N rest with
      | none => exact KRunAnyCapped.refl s
      | some t => exact KRunAnyCapped.head (KStepAnyCapped.pop s t N rest (popAt_perm _ _ _ _ hp) ht) (ih t)

/-- pre-fix (capped) variant, kept for the D14 witnesses: the best-first capped loop is a run of the capped solver -/
theorem ksolveLoopCapped_run (sv : SolverCfg S) :
    ∀ (n : Nat) (s : KSt S), KRunAnyCapped sv s (sv.ksolveLoopCapped n s) := by
  intro n
  induction n with
  | zero => intro s; exact KRunAnyCapped.refl s
  | succ n ih =>
    intro s
    unfold SolverCfg.ksolveLoopCapped
    cases hp : popMax s.st.fringe with
    | none => exact KRunAnyCapped.refl s
    | some Nr =>
      obtain ⟨N, rest⟩ := Nr
      obtain ⟨hpop, _⟩ := popMax_spec s.st.fringe N rest hp
      dsimp only
      cases ht : sv.kturnCapped s N rest with
      | none => exact KRunAnyCapped.refl s
      | some t => exact KRunAnyCapped.head (KStepAnyCapped.pop s t N rest hpop ht) (ih t)

end Ddo.C09
