import DdoModel.Proofs.ParDomOSysDefs
import DdoModel.Proofs.ParDomLSys
/-! # The parallel solver with the shared dominance checker — compilations that interleave ONE operation at a time: the proofs -/
set_option linter.unusedSectionVars false
set_option linter.unusedVariables false
namespace Ddo.ParDom
open Ddo Ddo.Truth Ddo.Closed Ddo.ParSys Ddo.ParClosed Ddo.C10
open Ddo.C01 (SolverCfg WellFormed toOut SolOf)
variable {S K : Type} [DecidableEq S] [DecidableEq K]

/-! ## Part A: one compilation -/

/-- the progress states a compilation of `cfg` can be in when each of its operations ran on SOME store of exactly reached items -/
inductive OReach (dv : DSolverCfg S K) (cfg : Cfg S K) : OProg S K → Prop
  | init : OReach dv cfg (oprogOf dv cfg none)
  | enter (dd : DD S K) (k : Nat) (ops : List (Op S)) (var : Nat) : OReach dv cfg (.between dd k ops) →
      cfg.P.nextVar dd.depth (dd.next.map (·.state)) = some var → dd.next.isEmpty = false →
      OReach dv cfg (.inLayer (tick dd var) var ops
        (fdSorted dv.D (fcOf cfg (tick dd var)).1 (fcOf cfg (tick dd var)).2)
        ((fcOf cfg (tick dd var)).1, [], k, true, []))
  | op (dd : DD S K) (var : Nat) (ops : List (Op S)) (p : Nat) (rest : List Nat)
      (acc : List (Node S) × List Nat × Nat × Bool × List (Op S)) (st : DomStore S K) :
      OReach dv cfg (.inLayer dd var ops (p :: rest) acc) →
      StoreReach dv.D dv.sv.P st → st.layers.length = dv.sv.P.nbVars + 1 →
      OReach dv cfg (.inLayer dd var ops rest (fdStepO dv.D (fun _ => st) acc p))
  | leave (dd : DD S K) (var : Nat) (ops : List (Op S))
      (acc : List (Node S) × List Nat × Nat × Bool × List (Op S)) (dd' : DD S K) (k' : Nat) (ops' : List (Op S)) :
      OReach dv cfg (.inLayer dd var ops [] acc) →
      stepTailO cfg dd ops var (fcOf cfg dd) acc = (some (dd', k', ops'), .ok) →
      OReach dv cfg (.between dd' k' ops')

theorem stepLayerO_withStore (cfg : Cfg S K) (τ : Nat → DomStore S K) (dd : DD S K) (k : Nat) (ops : List (Op S)) (var : Nat)
    (x : DomStore S K) :
    stepLayerO cfg τ (withStore dd x) k ops var =
      match stepLayerO cfg τ dd k ops var with
      | (none, oc) => (none, oc)
      | (some (dd', k', ops'), oc) => (some (withStore dd' x, k', ops'), oc) := by
  by_cases hne : dd.next.isEmpty = true
  · unfold stepLayerO
    rw [if_pos hne, if_pos (show (withStore dd x).next.isEmpty = true from hne)]
    rfl
  · have hne' : dd.next.isEmpty = false := by simpa using hne
    rw [stepLayerO_unfold cfg τ dd k ops var hne', stepLayerO_unfold cfg τ (withStore dd x) k ops var hne']
    show stepTailO cfg (withStore dd x) ops var (fcOf cfg dd) (filterDomO cfg τ k (fcOf cfg dd).1 (fcOf cfg dd).2) = _
    generalize filterDomO cfg τ k (fcOf cfg dd).1 (fcOf cfg dd).2 = r
    unfold stepTailO
    by_cases ho : (!r.2.2.2.1) = true
    · rw [if_pos ho, if_pos ho]
    · rw [if_neg ho, if_neg ho, squash_withStore]
      cases squash cfg dd r.1 r.2.1 with
      | none => rfl
      | some sq => obtain ⟨a, b, c, d⟩ := sq; rfl

/-- the store field of the diagram the loop starts from is never read -/
theorem buildLoopO_withStore (cfg : Cfg S K) (τ : Nat → DomStore S K) (x : DomStore S K) :
    ∀ (fuel : Nat) (dd : DD S K) (k : Nat) (ops : List (Op S)),
    (buildLoopO cfg τ fuel (withStore dd x) k ops).2 = (buildLoopO cfg τ fuel dd k ops).2 ∧
    resultOf cfg (buildLoopO cfg τ fuel (withStore dd x) k ops).1.1 = resultOf cfg (buildLoopO cfg τ fuel dd k ops).1.1 := by
  intro fuel
  induction fuel with
  | zero => intro dd k ops; exact ⟨rfl, rfl⟩
  | succ fuel ih =>
    intro dd k ops
    cases hnv : cfg.P.nextVar dd.depth (dd.next.map (·.state)) with
    | none =>
      rw [buildLoopO_stop cfg τ fuel dd k ops hnv, buildLoopO_stop cfg τ fuel (withStore dd x) k ops hnv]
      exact ⟨rfl, rfl⟩
    | some var =>
      rw [buildLoopO_step cfg τ fuel dd k ops var hnv, buildLoopO_step cfg τ fuel (withStore dd x) k ops var hnv]
      have e : tick (withStore dd x) var = withStore (tick dd var) x := rfl
      rw [e, stepLayerO_withStore]
      cases stepLayerO cfg τ (tick dd var) k ops var with
      | mk o oc =>
        cases o with
        | none => exact ⟨rfl, rfl⟩
        | some y =>
          obtain ⟨dd', k', ops'⟩ := y
          cases oc with
          | cutoff => exact ⟨rfl, rfl⟩
          | crash => exact ⟨rfl, rfl⟩
          | ok => exact ih dd' k' ops'

theorem stepTailO_k (cfg : Cfg S K) (dd : DD S K) (ops : List (Op S)) (var : Nat) (fc : List (Node S) × List Nat)
    (r : List (Node S) × List Nat × Nat × Bool × List (Op S)) (dd' : DD S K) (k' : Nat) (ops' : List (Op S)) (oc : Outcome)
    (hs : stepTailO cfg dd ops var fc r = (some (dd', k', ops'), oc)) : k' = r.2.2.1 := by
  unfold stepTailO at hs
  by_cases ho : (!r.2.2.2.1) = true
  · rw [if_pos ho] at hs; cases hs
  · rw [if_neg ho] at hs
    cases hsq : squash cfg dd r.1 r.2.1 with
    | none => rw [hsq] at hs; cases hs
    | some sq =>
      obtain ⟨l', c', lg, lel⟩ := sq
      rw [hsq] at hs
      simp only [Prod.mk.injEq, Option.some.injEq] at hs
      exact hs.1.2.1.symm

/-- a step of the filter reads the oracle at the counter only, and only for an exact node -/
theorem fdStepO_congr (D : DomRule S K) (τ1 τ2 : Nat → DomStore S K)
    (acc : List (Node S) × List Nat × Nat × Bool × List (Op S)) (p : Nat)
    (h : ∀ n, acc.1[p]? = some n → n.isExact = true → τ1 acc.2.2.1 = τ2 acc.2.2.1) :
    fdStepO D τ1 acc p = fdStepO D τ2 acc p := by
  unfold fdStepO
  cases hn : acc.1[p]? with
  | none => rfl
  | some n =>
    simp only
    by_cases he : n.isExact = true
    · rw [if_pos he, if_pos he, h n hn he]
    · rw [if_neg he, if_neg he]

/-- the counter moves by one exactly at the exact nodes -/
theorem fdStepO_ctr (D : DomRule S K) (τ : Nat → DomStore S K)
    (acc : List (Node S) × List Nat × Nat × Bool × List (Op S)) (p : Nat) :
    acc.2.2.1 ≤ (fdStepO D τ acc p).2.2.1 ∧
      ∀ n, acc.1[p]? = some n → n.isExact = true → (fdStepO D τ acc p).2.2.1 = acc.2.2.1 + 1 := by
  unfold fdStepO
  cases hn : acc.1[p]? with
  | none => exact ⟨Nat.le_refl _, fun n h => by cases h⟩
  | some m =>
    simp only
    by_cases he : m.isExact = true
    · rw [if_pos he]
      cases hq : DomStore.query D (τ acc.2.2.1) m.state m.depth m.value with
      | none => exact ⟨Nat.le_succ _, fun _ _ _ => rfl⟩
      | some x =>
        obtain ⟨st', dom, thr⟩ := x
        cases dom
        · exact ⟨Nat.le_succ _, fun _ _ _ => rfl⟩
        · exact ⟨Nat.le_succ _, fun _ _ _ => rfl⟩
    · rw [if_neg he]
      refine ⟨Nat.le_refl _, fun n h hx => ?_⟩
      injection h with h; subst h; exact absurd hx he

/-- the invariant of a `between` state -/
structure OIB (dv : DSolverCfg S K) (cfg : Cfg S K) (B : Int) (p0 : List Dec) (dd : DD S K) (k : Nat) (ops : List (Op S)) :
    Prop where
  minv : MInv cfg B p0 dd
  depth : dd.depth = cfg.root.depth + dd.layers.length
  len : dd.layers.length ≤ cfg.P.nbVars + 1
  sim : ∃ τ : Nat → DomStore S K, GoodStores dv τ ∧ ∀ τ' : Nat → DomStore S K, (∀ j, j < k → τ' j = τ j) → ∀ fuel : Nat,
    buildLoopO cfg τ' (dd.layers.length + fuel)
      (initDD cfg (Cache.init dv.sv.P.nbVars) (DomStore.init dv.sv.P.nbVars) 0) 0 [] = buildLoopO cfg τ' fuel dd k ops

/-- the invariant of an `inLayer` state -/
structure OIL (dv : DSolverCfg S K) (cfg : Cfg S K) (B : Int) (p0 : List Dec) (dd : DD S K) (var : Nat) (ops : List (Op S))
    (rest : List Nat) (acc : List (Node S) × List Nat × Nat × Bool × List (Op S)) : Prop where
  ex : ∃ (dd0 : DD S K) (k : Nat), dd = tick dd0 var ∧ MInv cfg B p0 dd0 ∧ dd0.depth = cfg.root.depth + dd0.layers.length ∧
    dd0.layers.length ≤ cfg.P.nbVars + 1 ∧ cfg.P.nextVar dd0.depth (dd0.next.map (·.state)) = some var ∧
    dd0.next.isEmpty = false ∧ SubS acc.1 (fcOf cfg dd).1 ∧ OpsOf (fcOf cfg dd).1 acc.2.2.2.2 ∧
    ∃ τ : Nat → DomStore S K, GoodStores dv τ ∧ ∀ τ' : Nat → DomStore S K, (∀ j, j < acc.2.2.1 → τ' j = τ j) →
      (∀ fuel : Nat, buildLoopO cfg τ' (dd0.layers.length + fuel)
        (initDD cfg (Cache.init dv.sv.P.nbVars) (DomStore.init dv.sv.P.nbVars) 0) 0 [] = buildLoopO cfg τ' fuel dd0 k ops) ∧
      filterDomO cfg τ' k (fcOf cfg dd).1 (fcOf cfg dd).2 = rest.foldl (fdStepO dv.D τ') acc

def OI (dv : DSolverCfg S K) (cfg : Cfg S K) (B : Int) (p0 : List Dec) : OProg S K → Prop
  | .between dd k ops => OIB dv cfg B p0 dd k ops
  | .inLayer dd var ops rest acc => OIL dv cfg B p0 dd var ops rest acc

theorem oreach_oi (dv : DSolverCfg S K) (cfg : Cfg S K) (B : Int) (p0 : List Dec) (hD : cfg.dom = some dv.D)
    (hB : NoClamp cfg.P cfg.R cfg.root.value B) (hroot : Reach cfg.P cfg.root.depth cfg.root.state cfg.root.value p0)
    (hNV : NvBound cfg.P) {pr : OProg S K} (h : OReach dv cfg pr) : OI dv cfg B p0 pr := by
  induction h with
  | init =>
    show OIB dv cfg B p0 _ 0 []
    refine ⟨initDD_inv cfg B p0 hB hroot _ _ _, rfl, Nat.zero_le _, fun _ => DomStore.init dv.sv.P.nbVars,
      goodStores_const dv, fun τ' _ fuel => ?_⟩
    show buildLoopO cfg τ' (0 + fuel) _ 0 [] = _
    rw [Nat.zero_add]
  | enter dd k ops var hr hnv hne ih =>
    have ih : OIB dv cfg B p0 dd k ops := ih
    obtain ⟨hM, hdep, hl, τ, hτ, hsim⟩ := ih
    show OIL dv cfg B p0 _ _ _ _ _
    refine ⟨dd, k, rfl, hM, hdep, hl, hnv, hne, SubS.refl _, (show OpsOf _ _ from fun op hop => by cases hop), τ, hτ, fun τ' hag => ⟨?_, ?_⟩⟩
    · exact hsim τ' hag
    · exact filterDomO_eq cfg dv.D hD τ' k _ _
  | op dd var ops p rest acc st hr hst hlen ih =>
    have ih : OIL dv cfg B p0 dd var ops (p :: rest) acc := ih
    obtain ⟨dd0, k, hdd, hM, hdep, hl, hnv, hne, hsub, hops, τ, hτ, hsim⟩ := ih
    show OIL dv cfg B p0 _ _ _ _ _
    obtain ⟨c1, c2⟩ := fdStepO_ctr dv.D (fun _ => st) acc p
    obtain ⟨s1, s2⟩ := fdStepO_invR dv.D (fun _ => st) (fcOf cfg dd).1 acc p ⟨hsub, hops⟩
    refine ⟨dd0, k, hdd, hM, hdep, hl, hnv, hne, s1, s2, fun j => if j = acc.2.2.1 then st else τ j,
      goodStores_upd hτ _ hst hlen, fun τ' hag => ?_⟩
    obtain ⟨h1, h2⟩ := hsim τ' (fun j hj => by rw [hag j (by omega)]; simp [Nat.ne_of_lt hj])
    refine ⟨h1, ?_⟩
    rw [h2, List.foldl_cons]
    congr 1
    refine fdStepO_congr dv.D τ' (fun _ => st) acc p (fun n hn he => ?_)
    rw [hag acc.2.2.1 (by rw [c2 n hn he]; omega)]
    simp
  | leave dd var ops acc dd' k' ops' hr hst ih =>
    have ih : OIL dv cfg B p0 dd var ops [] acc := ih
    obtain ⟨dd0, k, hdd, hM, hdep, hl, hnv, hne, hsub, hops, τ, hτ, hsim⟩ := ih
    subst hdd
    show OIB dv cfg B p0 dd' k' ops'
    have hk : k' = acc.2.2.1 := stepTailO_k cfg _ ops var _ acc dd' k' ops' .ok hst
    have hstep : ∀ τ' : Nat → DomStore S K, (∀ j, j < acc.2.2.1 → τ' j = τ j) →
        stepLayerO cfg τ' (tick dd0 var) k ops var = (some (dd', k', ops'), .ok) := by
      intro τ' hag
      rw [stepLayerO_unfold cfg τ' (tick dd0 var) k ops var hne, (hsim τ' hag).2]
      exact hst
    have hlt : dd0.depth < cfg.P.nbVars := nv_depth_lt hNV hnv
    obtain ⟨m1, m2, _⟩ := stepLayerO_inv cfg B p0 hB τ (tick dd0 var) k ops var (hM.congr rfl rfl) hdep hnv hl dd' k' ops' .ok
      (hstep τ (fun _ _ => rfl))
    obtain ⟨m2a, m2b⟩ := m2 rfl
    have m2b' : dd'.layers.length = dd0.layers.length + 1 := m2b
    refine ⟨m1, m2a, by omega, τ, hτ, fun τ' hag fuel => ?_⟩
    have hag' : ∀ j, j < acc.2.2.1 → τ' j = τ j := fun j hj => hag j (by omega)
    have h1 := (hsim τ' hag').1 (fuel + 1)
    rw [buildLoopO_step cfg τ' fuel dd0 k ops var hnv, hstep τ' hag'] at h1
    have h4 : dd'.layers.length + fuel = dd0.layers.length + (fuel + 1) := by omega
    rw [h4]; exact h1

/-- **target A**: when the loop ends at a reachable progress state, the answer is a `compileOp` answer for some oracle of good
    stores -/
theorem oreach_finish {dv : DSolverCfg S K} {H : Nat → S → EInt} {B0 B : Int} (hwf : WellFormed dv.sv H B0 B)
    (ct : CompType) {N : SubP S} (hn : C01.NodeOk dv.sv.P N) (lb : Int) {dd fin : DD S K} {k : Nat} {ops : List (Op S)}
    (hr : OReach dv (dv.cfg ct N lb) (.between dd k ops))
    (hfin : ((dv.cfg ct N lb).P.nextVar dd.depth (dd.next.map (·.state)) = none ∧
          fin = { dd with log := Call.nextVar dd.depth (dd.next.map (·.state)) none :: dd.log }) ∨
        (∃ var, (dv.cfg ct N lb).P.nextVar dd.depth (dd.next.map (·.state)) = some var ∧ dd.next.isEmpty = true ∧
          fin = { tick dd var with layers := dd.layers ++ [[]] })) :
    ∃ τ, GoodStores dv τ ∧ (compileOp (dv.cfg ct N lb) (Cache.init dv.sv.P.nbVars) τ 0).1 = .ok ∧
      resultOf (dv.cfg ct N lb) fin = (compileOp (dv.cfg ct N lb) (Cache.init dv.sv.P.nbVars) τ 0).2.1 := by
  obtain ⟨p0, hroot, _⟩ := hn
  have hB : NoClamp dv.sv.P dv.sv.R N.value B := hwf.bound.noClamp_at hwf.nv hroot
  have hI : OIB dv (dv.cfg ct N lb) B p0 dd k ops := oreach_oi dv (dv.cfg ct N lb) B p0 rfl hB hroot hwf.nv hr
  obtain ⟨hM, hdep, hl, τ, hτ, hsim⟩ := hI
  refine ⟨τ, hτ, ?_⟩
  have hl' : dd.layers.length ≤ dv.sv.P.nbVars + 1 := hl
  obtain ⟨f, hf⟩ : ∃ f, dd.layers.length + (f + 1) = dv.sv.P.nbVars + 2 := ⟨dv.sv.P.nbVars + 1 - dd.layers.length, by omega⟩
  have h1 := hsim τ (fun _ _ => rfl) (f + 1)
  rw [hf] at h1
  have hfin' : ∃ o, buildLoopO (dv.cfg ct N lb) τ (f + 1) dd k ops = ((fin, o), .ok) := by
    rcases hfin with ⟨hnv, rfl⟩ | ⟨var, hnv, hemp, rfl⟩
    · exact ⟨ops, buildLoopO_stop _ _ _ _ _ _ hnv⟩
    · refine ⟨ops, ?_⟩
      rw [buildLoopO_step _ _ _ _ _ _ var hnv]
      have : stepLayerO (dv.cfg ct N lb) τ (tick dd var) k ops var =
          (some ({ tick dd var with layers := (tick dd var).layers ++ [[]] }, k, ops), .cutoff) := by
        unfold stepLayerO
        rw [if_pos (show (tick dd var).next.isEmpty = true from hemp)]
      rw [this]
      rfl
  obtain ⟨o, ho⟩ := hfin'
  rw [ho] at h1
  have h2 := buildLoopO_withStore (dv.cfg ct N lb) τ (τ 0) (dv.sv.P.nbVars + 2)
    (initDD (dv.cfg ct N lb) (Cache.init dv.sv.P.nbVars) (DomStore.init dv.sv.P.nbVars) 0) 0 []
  rw [h1] at h2
  exact ⟨h2.1, h2.2.symm⟩

/-- **target A'**: the node an `op` step presents is an exact node reached exactly, so the shared store keeps holding exactly
    reached items -/
theorem oreach_store {dv : DSolverCfg S K} {H : Nat → S → EInt} {B0 B : Int} (hwf : WellFormed dv.sv H B0 B)
    (ct : CompType) {N : SubP S} (hn : C01.NodeOk dv.sv.P N) (lb : Int) {dd : DD S K} {var : Nat} {ops : List (Op S)} {p : Nat}
    {rest : List Nat} {acc : List (Node S) × List Nat × Nat × Bool × List (Op S)} {st : DomStore S K}
    (hr : OReach dv (dv.cfg ct N lb) (.inLayer dd var ops (p :: rest) acc))
    (hst : StoreReach dv.D dv.sv.P st) (hlen : st.layers.length = dv.sv.P.nbVars + 1) :
    StoreReach dv.D dv.sv.P (storeAfter dv.D st acc.1 p) ∧
      (storeAfter dv.D st acc.1 p).layers.length = dv.sv.P.nbVars + 1 := by
  obtain ⟨p0, hroot, _⟩ := hn
  have hB : NoClamp dv.sv.P dv.sv.R N.value B := hwf.bound.noClamp_at hwf.nv hroot
  have hI : OIL dv (dv.cfg ct N lb) B p0 dd var ops (p :: rest) acc :=
    oreach_oi dv (dv.cfg ct N lb) B p0 rfl hB hroot hwf.nv hr
  obtain ⟨dd0, k, hdd, hM, hdep, hl, hnv, hne, hsub, hops, _⟩ := hI
  subst hdd
  unfold storeAfter
  cases hn : acc.1[p]? with
  | none => exact ⟨hst, hlen⟩
  | some n =>
    simp only
    by_cases he : n.isExact = true
    · rw [if_pos he]
      cases hq : DomStore.query dv.D st n.state n.depth n.value with
      | none => exact ⟨hst, hlen⟩
      | some x =>
        obtain ⟨st', dom, thr⟩ := x
        obtain ⟨n1, h1, he1, hc1⟩ := hsub n (List.mem_of_getElem? hn)
        obtain ⟨n0, h0, he0, hc0⟩ := fcOf_subS (dv.cfg ct N lb) (tick dd0 var) n1 h1
        obtain ⟨q, _, hre, _, _⟩ := hM.next n0 h0 (he0.trans (he1.trans he))
        have hc := hc0.trans hc1
        have hreach : ∃ pp, Reach dv.sv.P n.depth n.state n.value pp := by
          refine ⟨p0 ++ q, ?_⟩
          rw [← hc.1, ← hc.2.1, ← hc.2.2.2]
          exact hre
        exact ⟨query_storeAll dv.D _ st st' n.state n.depth n.value dom thr hq hst hreach,
          (query_len dv.D st st' n.state n.depth n.value dom thr hq).trans hlen⟩
    · rw [if_neg he]; exact ⟨hst, hlen⟩

/-! ## Part B: the system -/

/-- what holds of the in-progress compilations -/
structure OProgInv (dv : DSolverCfg S K) (s : OSys S K) : Prop where
  len : s.prog.length = s.sys.ws.length
  idle : ∀ (i : Nat) (w : WSt S), s.sys.ws[i]? = some w → cfgOf dv w = none → s.prog[i]? = some none
  reach : ∀ (i : Nat) (w : WSt S) (cfg : Cfg S K) (pr : OProg S K), s.sys.ws[i]? = some w → cfgOf dv w = some cfg →
    s.prog[i]? = some (some pr) → OReach dv cfg pr

theorem oprogInv_init (dv : DSolverCfg S K) (U : Nat) : OProgInv dv (OSys.init dv U) := by
  refine ⟨by simp [OSys.init, Sys.init], fun i w hw _ => ?_, fun i w cfg pr _ _ hp => ?_⟩
  · have hw' : (List.replicate U (WSt.idle : WSt S))[i]? = some w := hw
    show (List.replicate U none)[i]? = some none
    rw [List.getElem?_replicate] at hw' ⊢
    split at hw'
    · rename_i hlt; rw [if_pos hlt]
    · cases hw'
  · have hp' : (List.replicate U (none : Option (OProg S K)))[i]? = some (some pr) := hp
    rw [List.getElem?_replicate] at hp'
    split at hp'
    · cases hp'
    · cases hp'

/-- a step that replaces the progress of worker `i` (inside a compilation of `cfg`) by a reachable progress state, `sys` unchanged -/
theorem oprogInv_set {dv : DSolverCfg S K} {s : OSys S K} (hP : OProgInv dv s) {i : Nat} {w : WSt S} {cfg : Cfg S K}
    {pr0 : Option (OProg S K)} {pr : OProg S K} (st : DomStore S K)
    (hw : s.sys.ws[i]? = some w) (hc : cfgOf dv w = some cfg) (hp : s.prog[i]? = some pr0) (hr : OReach dv cfg pr) :
    OProgInv dv ⟨s.sys, st, s.prog.set i (some pr)⟩ := by
  refine ⟨(List.length_set).trans hP.len, fun j w0 hw0 hc0 => ?_, fun j w0 cfg0 pr1 hw0 hc0 hp0 => ?_⟩
  · have hw0' : s.sys.ws[j]? = some w0 := hw0
    have hij : i ≠ j := by
      intro e; subst e; rw [hw] at hw0'; injection hw0' with e; subst e; rw [hc] at hc0; cases hc0
    show (List.set _ i _)[j]? = _
    rw [List.getElem?_set_ne hij]
    exact hP.idle j w0 hw0' hc0
  · have hw0' : s.sys.ws[j]? = some w0 := hw0
    have hp0' : (List.set s.prog i (some pr))[j]? = some (some pr1) := hp0
    by_cases hij : i = j
    · subst hij
      rw [hw] at hw0'; injection hw0' with e; subst e
      rw [hc] at hc0; injection hc0 with e; subst e
      have hlt : i < _ := (List.getElem?_eq_some_iff.1 hp).1
      rw [List.getElem?_set_self hlt] at hp0'
      injection hp0' with e; injection e with e; subst e
      exact hr
    · rw [List.getElem?_set_ne hij] at hp0'
      exact hP.reach j w0 cfg0 pr1 hw0' hc0 hp0'

/-- **target B**: along every run of the operation-interleaved system from its initial state: the projection reaches `t.sys` by a
    run of `GStep` with the answers `okROp`/`okXOp` (`enter`/`op`/`leave` steps are stuttering steps), the shared store holds
    exactly reached items only, and `OProgInv` -/
theorem orun_inv {dv : DSolverCfg S K} {H : Nat → S → EInt} {B0 B opt : Int} {Prot : Nat → S → Int → Prop}
    {okR okX : SubP S → Int → DDOut S → Prop}
    (hwf : WellFormed dv.sv H B0 B) (hopt : (H 0 dv.sv.P.init).addI dv.sv.P.initVal = some opt)
    (hPr : Protected dv.D dv.sv.P H opt Prot) (hA : AnsOk dv B opt Prot (okROp dv) (okXOp dv))
    (U : Nat) {t : OSys S K} (h : ORun dv (OSys.init dv U) t) :
    GRun dv.sv.dedup (okROp dv) (okXOp dv) (Sys.init dv.sv.P none dv.sv.dedup U) t.sys ∧
    StoreReach dv.D dv.sv.P t.store ∧ t.store.layers.length = dv.sv.P.nbVars + 1 ∧ OProgInv dv t := by
  induction h with
  | refl =>
    exact ⟨GRun.refl _, storeReach_init dv.D dv.sv.P _, by simp [OSys.init, DomStore.init], oprogInv_init dv U⟩
  | @tail s0 _ _ hstep ih =>
    obtain ⟨hrun, hs, hl, hP⟩ := ih
    have hI := grun_gall hwf hopt hPr hA hrun
    cases hstep with
    | sec t' h hna =>
      obtain ⟨f1, f2⟩ := sec_frame (dv := dv) h hna
      refine ⟨GRun.tail hrun ⟨step_mono h (fun _ _ _ _ _ hf => hf.elim) (fun _ _ _ _ _ hf => hf.elim), hna⟩, hs, hl,
        hP.len.trans f1.symm, fun j w hw hc => ?_, fun j w cfg pr hw hc hp => ?_⟩
      · have hw' : t'.ws[j]? = some w := hw
        rcases f2 j with e | ⟨w0, e, hc0⟩
        · exact hP.idle j w (e ▸ hw') hc
        · exact hP.idle j w0 e hc0
      · have hw' : t'.ws[j]? = some w := hw
        rcases f2 j with e | ⟨w0, e, hc0⟩
        · exact hP.reach j w cfg pr (e ▸ hw') hc hp
        · have := hP.idle j w0 e hc0
          rw [this] at hp; cases hp
    | enter i w cfg pr dd k ops var hw hc hp hb hnv hne =>
      have hr : OReach dv cfg (.between dd k ops) := by
        rw [← hb]
        cases pr with
        | none => exact OReach.init
        | some pr0 => exact hP.reach i w _ pr0 hw hc hp
      exact ⟨hrun, hs, hl, oprogInv_set hP _ hw hc hp (OReach.enter dd k ops var hr hnv hne)⟩
    | op i w cfg dd var ops p rest acc hw hc hp =>
      have hr : OReach dv cfg (.inLayer dd var ops (p :: rest) acc) := hP.reach i w _ _ hw hc hp
      obtain ⟨ct, n, lb, rfl, hnode, _⟩ := cfgOf_some hc
      have hn : C01.NodeOk dv.sv.P n := (hI.pc.ws w (List.mem_of_getElem? hw)).node n hnode
      obtain ⟨s1, s2⟩ := oreach_store hwf ct hn lb hr hs hl
      exact ⟨hrun, s1, s2, oprogInv_set hP _ hw hc hp (OReach.op dd var ops p rest acc _ hr hs hl)⟩
    | leave i w cfg dd var ops acc dd' k' ops' hw hc hp hst =>
      have hr : OReach dv cfg (.inLayer dd var ops [] acc) := hP.reach i w _ _ hw hc hp
      exact ⟨hrun, hs, hl, oprogInv_set hP _ hw hc hp (OReach.leave dd var ops acc dd' k' ops' hr hst)⟩
    | finish i w cfg pr dd k ops fin hw hc hp hb hfin =>
      obtain ⟨ct, n, lb, rfl, hnode, hcase⟩ := cfgOf_some hc
      have hn : C01.NodeOk dv.sv.P n := (hI.pc.ws w (List.mem_of_getElem? hw)).node n hnode
      have hr : OReach dv (dv.cfg ct n lb) (.between dd k ops) := by
        rw [← hb]
        cases pr with
        | none => exact OReach.init
        | some pr0 => exact hP.reach i w _ pr0 hw hc hp
      obtain ⟨σ, hσ, hok, heq⟩ := oreach_finish hwf ct hn lb hr hfin
      have hcn : cfgOf dv (afterComp (toOut (resultOf (dv.cfg ct n lb) fin)) w) = none := by
        rcases hcase with ⟨rfl, _⟩ | ⟨rfl, _⟩ <;> rfl
      have hna : NoAbortS (S := S) { crit := s0.sys.crit, ws := List.set s0.sys.ws i (afterComp (toOut (resultOf (dv.cfg ct n lb) fin)) w) } := by
        intro w0 hw0 m
        rcases List.mem_or_eq_of_mem_set hw0 with h' | h'
        · exact (hI.noCut.2 w0 h' m).1
        · rw [h']; rcases hcase with ⟨rfl, _⟩ | ⟨rfl, _⟩ <;> simp [afterComp]
      have hstep : Step dv.sv.dedup (okROp dv) (okXOp dv) s0.sys
          { crit := s0.sys.crit, ws := List.set s0.sys.ws i (afterComp (toOut (resultOf (dv.cfg ct n lb) fin)) w) } := by
        rcases hcase with ⟨rfl, rfl⟩ | ⟨rfl, rfl⟩
        · exact StepG.compileR _ i n lb (.ok _) hw (fun o ho => by
            injection ho with ho; subst ho; exact ⟨σ, hσ, hok, by rw [heq]⟩)
        · exact StepG.compileX _ i n lb (.ok _) hw (fun o ho => by
            injection ho with ho; subst ho; exact ⟨σ, hσ, hok, by rw [heq]⟩)
      refine ⟨GRun.tail hrun ⟨hstep, hna⟩, hs, hl, ?_, fun j w0 hw0 hc0 => ?_, fun j w0 cfg0 pr0 hw0 hc0 hp0 => ?_⟩
      · show (List.set _ i _).length = (List.set _ i _).length
        rw [List.length_set, List.length_set]; exact hP.len
      · have hw0' : (List.set _ i _)[j]? = some w0 := hw0
        show (List.set _ i _)[j]? = _
        by_cases hij : i = j
        · subst hij
          exact List.getElem?_set_self (List.getElem?_eq_some_iff.1 hp).1
        · rw [List.getElem?_set_ne hij] at hw0' ⊢
          exact hP.idle j w0 hw0' hc0
      · have hw0' : (List.set _ i _)[j]? = some w0 := hw0
        have hp0' : (List.set _ i none)[j]? = some (some pr0) := hp0
        by_cases hij : i = j
        · subst hij
          rw [List.getElem?_set_self (List.getElem?_eq_some_iff.1 hw).1] at hw0'
          injection hw0' with e; subst e
          rw [hcn] at hc0; cases hc0
        · rw [List.getElem?_set_ne hij] at hw0' hp0'
          exact hP.reach j w0 cfg0 pr0 hw0' hc0 hp0'

end Ddo.ParDom
