import DdoModel.Proofs.CompatBuiltQ
/-! C10e — the side invariant `KArcM` of the joint loop: nothing is marked, every inbound arc comes from a `Live` position. -/
set_option linter.unusedSectionVars false
set_option linter.unusedVariables false
namespace Ddo.C10d
open Ddo Ddo.C01 Ddo.Closed Ddo.C09 Ddo.C10 Ddo.C10c Ddo.Truth Ddo.Theta Ddo.Bounds
variable {S K : Type} [DecidableEq S] [DecidableEq K]

def ArcOk (Live : Nat → Nat → Prop) (n : Node S) : Prop := n.marked = false ∧ ∀ a ∈ n.inb, Live a.fromL a.fromP

structure KArcM (Live : Nat → Nat → Prop) (dd : DD S K) : Prop where
  L : ∀ ly ∈ dd.layers, ∀ n ∈ ly, ArcOk Live n
  N : ∀ n ∈ dd.next, ArcOk Live n

theorem fold_arcs (cfg : Cfg S K) (var lidx : Nat) (Q : Node S → Prop) (cur : List Nat)
    (hold : ∀ p ∈ cur, ∀ (par : Node S) d n, Q n → Q (appendEdge par n (Cover.arcOf cfg var lidx p par d)))
    (hfresh : ∀ p ∈ cur, ∀ (par : Node S) d, Q (appendEdge par (Cover.freshNode par (cfg.P.trans par.state ⟨var, d⟩)
        (cfg.P.cost par.state (cfg.P.trans par.state ⟨var, d⟩) ⟨var, d⟩)) (Cover.arcOf cfg var lidx p par d))) :
    ∀ (l : List Nat) (acc : List (Node S) × List (Node S) × List (Call S)), (∀ p ∈ l, p ∈ cur) → (∀ m ∈ acc.2.1, Q m) →
      ∀ m ∈ (l.foldl (expandOne cfg var lidx) acc).2.1, Q m := by
  intro l
  induction l with
  | nil => intro acc _ h; exact h
  | cons p ps ih =>
    intro acc hl h
    rw [List.foldl_cons]
    refine ih _ (fun q hq => hl q (List.mem_cons_of_mem _ hq)) ?_
    have hp := hl p List.mem_cons_self
    exact (expandOne_childrenP Q (fun _ => True) cfg var lidx acc p (fun _ _ _ => True.intro)
      (fun par d n _ hn => hold p hp par d n hn) (fun par d _ => hfresh p hp par d) ⟨fun _ _ => True.intro, h⟩).2

theorem step_karcm (cfg : Cfg S K) (hrel : cfg.ctype = .relaxed) (hW : 1 ≤ cfg.width) (Live : Nat → Nat → Prop) (dd dd' : DD S K)
    (var : Nat) (sq : List (Node S) × List Nat × List (Call S) × Option Nat) (hK : KArcM Live dd)
    (harcL : ∀ ly ∈ dd.layers, ∀ n ∈ ly, ∀ a ∈ n.inb, a.fromL < dd.layers.length)
    (harcN : ∀ n ∈ dd.next, ∀ a ∈ n.inb, a.fromL < dd.layers.length)
    (hsq : squash cfg dd (CacheClosed.fdOf cfg dd).1 (CacheClosed.fdOf cfg dd).2.1 = some sq)
    (hl : dd'.layers = dd.layers ++ [(expandAll cfg var dd.layers.length sq.1 sq.2.1 sq.2.2.1).1])
    (hn : dd'.next = (expandAll cfg var dd.layers.length sq.1 sq.2.1 sq.2.2.1).2.1) :
    KArcM (fun l p => if l = dd.layers.length then p ∈ sq.2.1 else Live l p) dd' := by
  -- the layer after both filters
  have hfd : ∀ m ∈ (CacheClosed.fdOf cfg dd).1, ArcOk Live m ∧ ∀ a ∈ m.inb, a.fromL < dd.layers.length := by
    intro m hm
    obtain ⟨i, hi⟩ := List.mem_iff_getElem?.1 hm
    obtain ⟨n0, h0, hs⟩ := (filterDom_weak' cfg dd.store (Theta.fcOf cfg dd).1 (Theta.fcOf cfg dd).2).1.get hi
    have e1 : m.marked = n0.marked := by
      have := congrArg Node.marked hs
      simpa only [Bounds.stripT] using this
    have e2 : m.inb = n0.inb := (Theta.stripT_more hs).2.2.2.2.2.2
    obtain ⟨g, keep, hlay, _, _, hg, _⟩ := Theta.fcOf_desc cfg dd
    rw [hlay] at h0
    obtain ⟨n00, h00, rfl⟩ := List.mem_map.1 (List.mem_of_getElem? h0)
    have e3 : (g n00).marked = n00.marked ∧ (g n00).inb = n00.inb := by
      rcases hg n00 with ⟨_, e⟩ | ⟨_, t, _, _, e⟩
      · rw [e]; exact ⟨rfl, rfl⟩
      · rw [e]; exact ⟨rfl, rfl⟩
    exact ⟨⟨(by rw [e1, e3.1]; exact (hK.N n00 h00).1), (by rw [e2, e3.2]; exact (hK.N n00 h00).2)⟩,
      (by rw [e2, e3.2]; exact harcN n00 h00)⟩
  -- the squashed layer
  have hsqL : ∀ m ∈ sq.1, ArcOk Live m ∧ ∀ a ∈ m.inb, a.fromL < dd.layers.length := by
    rcases Bounds.squash_cases cfg dd (CacheClosed.fdOf cfg dd).1 (CacheClosed.fdOf cfg dd).2.1 hrel hW with
      ⟨_, hsq'⟩ | ⟨_, _, hsq'⟩
    · rw [hsq'] at hsq; cases hsq; exact hfd
    · rw [hsq'] at hsq; cases hsq
      dsimp only
      refine relaxLayer_forallD (fun m => ArcOk Live m ∧ ∀ a ∈ m.inb, a.fromL < dd.layers.length) cfg dd.layers _ _ _ ?_ ?_ ?_ ?_ hfd
      · exact ⟨⟨rfl, fun a ha => absurd ha List.not_mem_nil⟩, fun a ha => absurd ha List.not_mem_nil⟩
      · intro n hn; exact hn
      · intro n b hn; exact hn
      · intro dropN hd e he src m hm
        refine ⟨⟨by rw [CacheClosed.appendEdge_marked]; exact hm.1.1, ?_⟩, ?_⟩
        · intro a ha
          rw [Cover.appendEdge_inb] at ha
          rcases List.mem_cons.mp ha with rfl | ha
          · exact hd.1.2 e he
          · exact hm.1.2 a ha
        · intro a ha
          rw [Cover.appendEdge_inb] at ha
          rcases List.mem_cons.mp ha with rfl | ha
          · exact hd.2 e he
          · exact hm.2 a ha
  have hup : ∀ m : Node S, ArcOk Live m → (∀ a ∈ m.inb, a.fromL < dd.layers.length) →
      ArcOk (fun l p => if l = dd.layers.length then p ∈ sq.2.1 else Live l p) m := by
    intro m hm hlt
    refine ⟨hm.1, fun a ha => ?_⟩
    have := hlt a ha
    dsimp only
    rw [if_neg (by omega)]
    exact hm.2 a ha
  unfold expandAll at hl hn
  have hrub : RubEq (sq.2.1.foldl (expandOne cfg var dd.layers.length) (sq.1, [], sq.2.2.1)).1 sq.1 :=
    fold_rubEq cfg var dd.layers.length sq.2.1 (sq.1, [], sq.2.2.1)
  refine ⟨?_, ?_⟩
  · intro ly hly n hnm
    rw [hl] at hly
    rcases List.mem_append.mp hly with hly | hly
    · exact hup n (hK.L ly hly n hnm) (harcL ly hly n hnm)
    · rw [List.mem_singleton] at hly
      subst hly
      obtain ⟨q, hq⟩ := List.mem_iff_getElem?.mp hnm
      obtain ⟨n0, h0, hs⟩ := hrub.get hq
      obtain ⟨h1, h2⟩ := hsqL n0 (List.mem_of_getElem? h0)
      have e1 : n0.marked = n.marked := by
        have := congrArg Node.marked hs
        simpa only [stripRub] using this
      have e2 : n0.inb = n.inb := by
        have := congrArg Node.inb hs
        simpa only [stripRub] using this
      exact hup n ⟨e1 ▸ h1.1, e2 ▸ h1.2⟩ (e2 ▸ h2)
  · intro m hm
    rw [hn] at hm
    refine fold_arcs cfg var dd.layers.length
      (ArcOk (fun l p => if l = dd.layers.length then p ∈ sq.2.1 else Live l p)) sq.2.1 ?_ ?_ sq.2.1 _ (fun _ h => h)
      (fun m hm => absurd hm List.not_mem_nil) m hm
    · intro p hp par d n hq
      refine ⟨by rw [CacheClosed.appendEdge_marked]; exact hq.1, fun a ha => ?_⟩
      rw [Cover.appendEdge_inb] at ha
      rcases List.mem_cons.mp ha with rfl | ha
      · show (if dd.layers.length = dd.layers.length then p ∈ sq.2.1 else _)
        rw [if_pos rfl]; exact hp
      · exact hq.2 a ha
    · intro p hp par d
      refine ⟨by rw [CacheClosed.appendEdge_marked]; rfl, fun a ha => ?_⟩
      rw [Cover.appendEdge_inb] at ha
      rcases List.mem_cons.mp ha with rfl | ha
      · show (if dd.layers.length = dd.layers.length then p ∈ sq.2.1 else _)
        rw [if_pos rfl]; exact hp
      · simp only [Cover.freshNode] at ha; exact absurd ha List.not_mem_nil

end Ddo.C10d
