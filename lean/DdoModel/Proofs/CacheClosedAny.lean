import DdoModel.Proofs.CacheClosedSolver
/-! C09 — the caching solver with **arbitrary pops** (`KStepAny`: a custom `SubProblemRanking`), **the elementary part**: what
can be said without the coverage invariant `CInvC` and without any contract on the thresholds.  From a state satisfying
`KInvAny`, whatever node is popped, the turn does not panic (both compilations end normally, every cache access is in range),
the sequential state makes a `Step` of `Props/C01t.lean` (termination), the `open_by_layer` bookkeeping stays exact, and the
incumbent is `isize::MIN` or the value of the stored solution, a genuinely feasible complete path — hence `≤` the optimum
(`kturn_any`).

`KInvAny` is `KInvSt` with the coverage part (`CInvC`: coverage + `CacheOk`) replaced by soundness of the incumbent.

History: this file was written when `enqueue_cutset(ub)` still capped the cut-set nodes by the bound of the processed node;
then `KInvSt` was only preserved by best-first pops and `KInvAny` was *all* that survived an arbitrary pop order (optimality
did not: `Ddo.C09.anyOrderOpt_false`, finding D14).  Since the repair (no cap) the full invariant `KInvSt` is preserved for
every pop order too (`kturn_inv` of `Proofs/CacheClosedSolver.lean` has no hypothesis on the order), so `kturn_any` is
subsumed by it through `KInvSt.toAny`; it is kept as the argument that does not go through the thresholds. -/
set_option linter.unusedSectionVars false
set_option linter.unusedVariables false
namespace Ddo.C09
open Ddo Ddo.C01 Ddo.Closed Ddo.Truth
variable {S : Type} [DecidableEq S]

/-- the invariant of the caching solver that does not depend on the pop order -/
structure KInvAny (sv : SolverCfg S) (H : Nat → S → EInt) (s : KSt S) : Prop where
  nodes : ∀ c ∈ s.st.fringe, C01.NodeOk sv.P c
  lbLo : iMin ≤ s.st.bestLb
  solLb : s.st.bestSol = none → s.st.bestLb = iMin
  noAbort : s.st.abort = false
  /-- feasible problem: the incumbent is sound -/
  snd : ∀ opt, (H 0 sv.P.init).addI sv.P.initVal = some opt →
    s.st.bestLb ≤ opt ∧ ∀ p, s.st.bestSol = some p → SolOf sv.P p s.st.bestLb
  infeas : (H 0 sv.P.init).addI sv.P.initVal = none → s.st.bestLb = iMin ∧ s.st.bestSol = none
  clen : s.cache.layers.length = sv.P.nbVars + 1
  lay : LInv sv s.st

/-- the full invariant implies the elementary one -/
theorem KInvSt.toAny {sv : SolverCfg S} {H : Nat → S → EInt} {B : Int} {s : KSt S} (h : KInvSt sv H B s) :
    KInvAny sv H s :=
  ⟨h.nodes, h.lbLo, h.solLb, h.noAbort, fun opt hopt => ⟨(h.feas opt hopt).lbOk, (h.feas opt hopt).solOk⟩, h.infeas, h.clen,
    h.lay⟩

/-- **`process_one_node` with the cache, any popped node**: no panic, the order-free invariant is preserved -/
theorem kprocess_any {sv : SolverCfg S} {H : Nat → S → EInt} {B0 B : Int} (hwf : WellFormed sv H B0 B)
    (st : SeqSt S) (c0 : Cache S) (N : SubP S)
    (hN : C01.NodeOk sv.P N) (hnodes : ∀ c ∈ st.fringe, C01.NodeOk sv.P c) (hlbLo : iMin ≤ st.bestLb)
    (hsolLb : st.bestSol = none → st.bestLb = iMin) (hab : st.abort = false)
    (hsnd : ∀ opt, (H 0 sv.P.init).addI sv.P.initVal = some opt →
      st.bestLb ≤ opt ∧ ∀ p, st.bestSol = some p → SolOf sv.P p st.bestLb)
    (hinf : (H 0 sv.P.init).addI sv.P.initVal = none → st.bestLb = iMin ∧ st.bestSol = none)
    (hclen : c0.layers.length = sv.P.nbVars + 1)
    (hlay : LayersOk sv.P.nbVars st.openByLayer st.fringe) (hcr : st.crashed = false) :
    ∃ (t : KSt S) (me : Bool) (r x : DDRes S), sv.kprocess st c0 N = some t ∧ t.st = (st.process sv.dedup N me r x).1 ∧
      (∀ o, x = .ok o → ∀ c ∈ o.cutset, N.depth < c.depth ∧ c.depth ≤ sv.P.nbVars) ∧ KInvAny sv H t := by
  obtain ⟨p0, hroot, hperm⟩ := hN
  have hdN : N.depth ≤ sv.P.nbVars := reach_depth_le hwf.nv hroot
  have hBN : NoClamp sv.P sv.R N.value B := hwf.bound.noClamp_at hwf.nv hroot
  have hme := mustExplore_view c0 N (by omega)
  have hsame : KInvAny sv H ⟨st, c0⟩ := ⟨hnodes, hlbLo, hsolLb, hab, hsnd, hinf, hclen, ⟨hlay, hcr⟩⟩
  by_cases hub : N.ub ≤ st.bestLb
  · refine ⟨⟨st, c0⟩, true, .cutoff, .cutoff, ?_, (process_skip_ub sv.dedup st N true _ _ hub).symm,
      (fun o ho => by cases ho), hsame⟩
    unfold SolverCfg.kprocess; rw [if_pos hub]
  by_cases hp : prunM (viewOf c0) N
  · refine ⟨⟨st, c0⟩, false, .cutoff, .cutoff, ?_, (process_skip_me sv.dedup st N _ _).symm,
      (fun o ho => by cases ho), hsame⟩
    unfold SolverCfg.kprocess
    rw [if_neg hub, hme, decide_eq_false (fun hn => hn hp)]
  have hmeT : c0.mustExplore N.state N.depth N.value = some true := by rw [hme, decide_eq_true hp]
  have hokR : sv.coutR c0 N st.bestLb = .ok :=
    CacheClosed.compile_no_crash_cached _ c0 _ 0 rfl (hwf.width N) hwf.nv hdN
  have hdepR := ups_depth_restricted (sv.ccfg .restricted N st.bestLb) H B p0 c0 (DomStore.init sv.P.nbVars) 0 rfl rfl
    (hwf.width N) hwf.pot hwf.merge hwf.attMerge hBN hwf.nv hroot hokR
  obtain ⟨c1, hc1, hl1, _⟩ := applyUps_spec (sv.cresR c0 N st.bestLb).cacheUpdates.reverse c0 (by
    intro u hu
    have := hdepR u (List.mem_reverse.mp hu)
    rw [hclen]; exact Nat.lt_succ_of_le this)
  have sR : ∀ w, (toOut (sv.cresR c0 N st.bestLb)).bestExact = some w →
      IsSol (sv.ccfg .restricted N st.bestLb) p0 w (toOut (sv.cresR c0 N st.bestLb)).bestExactSol :=
    fun w hw => isSol_restricted (sv.ccfg .restricted N st.bestLb) B p0 c0 _ 0 none rfl hBN hroot hokR w hw
  have eR : ∀ w, (toOut (sv.cresR c0 N st.bestLb)).bestExact = some w →
      ∃ p, (toOut (sv.cresR c0 N st.bestLb)).bestExactSol = some p :=
    fun w hw => (isSol_le hwf _ rfl p0 w _ (sR w hw)).2
  have hokX : sv.coutX c1 N (st.updateBest (toOut (sv.cresR c0 N st.bestLb))).bestLb = .ok :=
    CacheClosed.compile_no_crash_cached _ c1 _ 0 rfl (hwf.width N) hwf.nv hdN
  have hdepX := ups_depth_relaxed (sv.ccfg .relaxed N (st.updateBest (toOut (sv.cresR c0 N st.bestLb))).bestLb) H B p0 c1
    (DomStore.init sv.P.nbVars) 0 none rfl rfl (hwf.width N) hwf.pot hwf.merge hwf.attMerge hBN hwf.nv hroot hokX _ (.inl rfl)
  obtain ⟨c2, hc2, hl2, _⟩ := applyUps_spec
    (sv.cresX c1 N (st.updateBest (toOut (sv.cresR c0 N st.bestLb))).bestLb).cacheUpdates.reverse c1 (by
    intro u hu
    have := hdepX u (List.mem_reverse.mp hu)
    rw [hl1, hclen]; exact Nat.lt_succ_of_le this)
  have sX : ∀ w, (toOut (sv.cresX c1 N (st.updateBest (toOut (sv.cresR c0 N st.bestLb))).bestLb)).bestExact = some w →
      IsSol (sv.ccfg .relaxed N (st.updateBest (toOut (sv.cresR c0 N st.bestLb))).bestLb) p0 w
        (toOut (sv.cresX c1 N (st.updateBest (toOut (sv.cresR c0 N st.bestLb))).bestLb)).bestExactSol :=
    fun w hw => CacheClosed.isSol_relaxed_cached _ B p0 c1 _ 0 rfl rfl (hwf.width N) hBN hroot hokX w hw
  have eX : ∀ w, (toOut (sv.cresX c1 N (st.updateBest (toOut (sv.cresR c0 N st.bestLb))).bestLb)).bestExact = some w →
      ∃ p, (toOut (sv.cresX c1 N (st.updateBest (toOut (sv.cresR c0 N st.bestLb))).bestLb)).bestExactSol = some p :=
    fun w hw => (isSol_le hwf _ rfl p0 w _ (sX w hw)).2
  have hcsX : ∀ c ∈ (sv.cresX c1 N (st.updateBest (toOut (sv.cresR c0 N st.bestLb))).bestLb).cutset,
      C01.NodeOk sv.P c ∧ N.depth < c.depth ∧ c.depth ≤ sv.P.nbVars := by
    intro c hc
    obtain ⟨q, hq, hpath⟩ := C08.cutset_exact (sv.ccfg .relaxed N (st.updateBest (toOut (sv.cresR c0 N st.bestLb))).bestLb)
      B p0 c1 _ 0 none hroot hBN hokX _ (.inl rfl) c hc
    have hdeep := C08.cutset_progress (sv.ccfg .relaxed N (st.updateBest (toOut (sv.cresR c0 N st.bestLb))).bestLb)
      B p0 c1 _ 0 none rfl hroot hBN hokX _ (.inl rfl) c hc
    refine ⟨⟨p0 ++ q, hq, ?_⟩, hdeep, reach_depth_le hwf.nv hq⟩
    rw [hpath]
    exact List.Perm.append hperm (List.reverse_perm q)
  generalize hr : sv.cresR c0 N st.bestLb = r at *
  generalize hx : sv.cresX c1 N (st.updateBest (toOut r)).bestLb = x at *
  have hkp : sv.kprocess st c0 N = some ⟨(st.process sv.dedup N true (.ok (toOut r)) (.ok (toOut x))).1,
      if r.isExact then c1 else c2⟩ := by
    unfold SolverCfg.kprocess
    rw [if_neg hub, hmeT]
    simp only [hokR, ne_eq, not_true_eq_false, if_false, hr, hc1]
    rw [process_main sv.dedup st N (toOut r) (toOut x) hub]
    have e1 : (toOut r).isExact = r.isExact := rfl
    have e2 : (toOut x).isExact = x.isExact := rfl
    have e3 : (toOut x).cutset = x.cutset := rfl
    rw [e1, e2, e3]
    cases hre : r.isExact with
    | true => simp only [if_true]
    | false =>
      simp only [Bool.false_eq_true, if_false, hokX, not_true_eq_false, hx, hc2]
      cases hxe : x.isExact <;> simp only [Bool.false_eq_true, if_false, if_true]
  refine ⟨_, true, .ok (toOut r), .ok (toOut x), hkp, rfl, ?_, ?_⟩
  · intro o ho c hc
    injection ho with ho
    subst ho
    exact (hcsX c hc).2
  · refine ⟨?_, ?_, ?_, ?_, ?_, ?_, ?_, ?_⟩
    · refine process_forall (C01.NodeOk sv.P) (nodeOk_ub sv.P) sv.dedup st N true _ _ hnodes ?_
      intro o ho c hc
      injection ho with ho
      subst ho
      exact (hcsX c hc).1
    · have h1 := updateBest_lb_ge st (toOut r)
      have h2 := updateBest_lb_ge (st.updateBest (toOut r)) (toOut x)
      rcases process_lb_sol sv.dedup st N true (toOut r) (toOut x) with ⟨e, _⟩ | ⟨e, _⟩ | ⟨e, _⟩ <;>
      · show iMin ≤ (st.process sv.dedup N true (.ok (toOut r)) (.ok (toOut x))).1.bestLb
        rw [e]; omega
    · have a1 := updateBest_solLb st _ eR hsolLb
      have a2 := updateBest_solLb (st.updateBest (toOut r)) _ eX a1
      show (st.process sv.dedup N true (.ok (toOut r)) (.ok (toOut x))).1.bestSol = none →
        (st.process sv.dedup N true (.ok (toOut r)) (.ok (toOut x))).1.bestLb = iMin
      rcases process_lb_sol sv.dedup st N true (toOut r) (toOut x) with ⟨e1, e2⟩ | ⟨e1, e2⟩ | ⟨e1, e2⟩
      · rw [e1, e2]; exact hsolLb
      · rw [e1, e2]; exact a1
      · rw [e1, e2]; exact a2
    · show (st.process sv.dedup N true (.ok (toOut r)) (.ok (toOut x))).1.abort = false
      rw [process_abort]; exact hab
    · -- soundness of the incumbent
      intro opt hopt
      obtain ⟨hl0, hs0⟩ := hsnd opt hopt
      have hrs : ∀ w, (toOut r).bestExact = some w → ∃ p, (toOut r).bestExactSol = some p ∧ SolOf sv.P p w ∧ w ≤ opt := by
        intro w hw
        exact (isSol_facts (sv.ccfg .restricted N st.bestLb) H opt p0 hwf.pot hroot hperm hopt w _ (sR w hw)).1
      have hxs : ∀ w, (toOut x).bestExact = some w → ∃ p, (toOut x).bestExactSol = some p ∧ SolOf sv.P p w ∧ w ≤ opt := by
        intro w hw
        exact (isSol_facts (sv.ccfg .relaxed N (st.updateBest (toOut r)).bestLb) H opt p0 hwf.pot hroot hperm hopt w _
          (sX w hw)).1
      obtain ⟨hl1', hs1⟩ := updateBest_ok' opt (SolOf sv.P) st (toOut r) hl0 hs0 hrs
      obtain ⟨hl2', hs2⟩ := updateBest_ok' opt (SolOf sv.P) (st.updateBest (toOut r)) (toOut x) hl1' hs1 hxs
      show (st.process sv.dedup N true (.ok (toOut r)) (.ok (toOut x))).1.bestLb ≤ opt ∧
        ∀ p, (st.process sv.dedup N true (.ok (toOut r)) (.ok (toOut x))).1.bestSol = some p →
          SolOf sv.P p (st.process sv.dedup N true (.ok (toOut r)) (.ok (toOut x))).1.bestLb
      rcases process_lb_sol sv.dedup st N true (toOut r) (toOut x) with ⟨e1, e2⟩ | ⟨e1, e2⟩ | ⟨e1, e2⟩
      · rw [e1, e2]; exact ⟨hl0, hs0⟩
      · rw [e1, e2]; exact ⟨hl1', hs1⟩
      · rw [e1, e2]; exact ⟨hl2', hs2⟩
    · intro hinf'
      have hdead : optOf H N = none := reach_dead hwf.pot hinf' hroot
      have nR : (toOut r).bestExact = none := by
        cases hb : (toOut r).bestExact with
        | none => rfl
        | some w =>
          obtain ⟨y, hy, _⟩ := within_of_isSol (sv.ccfg .restricted N st.bestLb) H p0 hwf.pot hroot w _ (sR w hb)
          rw [show optOf H (sv.ccfg .restricted N st.bestLb).root = optOf H N from rfl, hdead] at hy
          cases hy
      have nX : (toOut x).bestExact = none := by
        cases hb : (toOut x).bestExact with
        | none => rfl
        | some w =>
          obtain ⟨y, hy, _⟩ := within_of_isSol (sv.ccfg .relaxed N (st.updateBest (toOut r)).bestLb) H p0 hwf.pot hroot w _
            (sX w hb)
          rw [show optOf H (sv.ccfg .relaxed N (st.updateBest (toOut r)).bestLb).root = optOf H N from rfl, hdead] at hy
          cases hy
      have u1 := updateBest_none st _ nR
      have u2 := updateBest_none (st.updateBest (toOut r)) _ nX
      show (st.process sv.dedup N true (.ok (toOut r)) (.ok (toOut x))).1.bestLb = iMin ∧
        (st.process sv.dedup N true (.ok (toOut r)) (.ok (toOut x))).1.bestSol = none
      rcases process_lb_sol sv.dedup st N true (toOut r) (toOut x) with ⟨e1, e2⟩ | ⟨e1, e2⟩ | ⟨e1, e2⟩
      · rw [e1, e2]; exact hinf hinf'
      · rw [e1, e2, u1]; exact hinf hinf'
      · rw [e1, e2, u2, u1]; exact hinf hinf'
    · show (if r.isExact then c1 else c2).layers.length = sv.P.nbVars + 1
      split
      · rw [hl1]; exact hclen
      · rw [hl2, hl1]; exact hclen
    · obtain ⟨h3, h4⟩ := process_layers sv.P.nbVars sv.dedup st N true (toOut r) (toOut x)
        (fun c hc => (hcsX c hc).2.2) hlay
      exact ⟨h3, h4.trans hcr⟩

/-- **one turn with an arbitrary pop**: no panic, the order-free invariant is preserved, the sequential state makes a
    `Step` of `Props/C01t.lean` -/
theorem kturn_any {sv : SolverCfg S} {H : Nat → S → EInt} {B0 B : Int} (hwf : WellFormed sv H B0 B)
    (s : KSt S) (N : SubP S) (rest : List (SubP S)) (hpop : s.st.fringe.Perm (N :: rest)) (hI : KInvAny sv H s) :
    ∃ t, sv.kturn s N rest = some t ∧ KInvAny sv H t ∧ C01t.Step sv.P.nbVars sv.dedup s.st t.st := by
  obtain ⟨c0, hc0, hl0, _⟩ := cleanCache_spec sv.P.nbVars s.st.openByLayer sv.P.nbVars s.st.firstActive s.cache hI.clen
  generalize hfa : cleanLoop sv.P.nbVars s.st.openByLayer sv.P.nbVars s.st.firstActive = fa
  obtain ⟨f1, f2, f3⟩ := popped_fields s.st N rest fa
  have hNok : C01.NodeOk sv.P N := hI.nodes N (hpop.mem_iff.mpr List.mem_cons_self)
  obtain ⟨p0, hroot, _⟩ := hNok
  have hdN := reach_depth_le hwf.nv hroot
  obtain ⟨g1, g2⟩ := afterPop_layers sv.P.nbVars s.st N rest fa hdN hpop hI.lay.1
  obtain ⟨t, me, r, x, hk, hst, hprog, hT⟩ := kprocess_any hwf (popped s.st N rest fa) c0 N
    (hI.nodes N (hpop.mem_iff.mpr List.mem_cons_self))
    (by rw [f1]; exact fun c hc => hI.nodes c (hpop.mem_iff.mpr (List.mem_cons_of_mem _ hc)))
    (by rw [f2]; exact hI.lbLo) (by rw [f2, f3]; exact hI.solLb) (by rw [popped_more]; exact hI.noAbort)
    (by rw [f2, f3]; exact hI.snd) (by rw [f2, f3]; exact hI.infeas) hl0 g1 (g2.trans hI.lay.2)
  refine ⟨t, ?_, hT, ?_⟩
  · unfold SolverCfg.kturn
    rw [hc0, hfa]
    exact hk
  · rw [hst]
    exact C01t.Step.pop s.st N rest fa me r x hpop hprog

/-! ## along the runs -/

theorem kstepAny_invAny {sv : SolverCfg S} {H : Nat → S → EInt} {B0 B : Int} (hwf : WellFormed sv H B0 B) {s t : KSt S}
    (h : KStepAny sv s t) (hI : KInvAny sv H s) : KInvAny sv H t ∧ C01t.Step sv.P.nbVars sv.dedup s.st t.st := by
  cases h with
  | pop N rest hpop hturn =>
    obtain ⟨t', ht', hT, hS⟩ := kturn_any hwf s N rest hpop hI
    rw [hturn] at ht'
    cases ht'
    exact ⟨hT, hS⟩

theorem krunAny_invAny {sv : SolverCfg S} {H : Nat → S → EInt} {B0 B : Int} (hwf : WellFormed sv H B0 B) {s t : KSt S}
    (h : KRunAny sv s t) (hI : KInvAny sv H s) : KInvAny sv H t := by
  induction h with
  | refl => exact hI
  | tail _ hstep ih => exact (kstepAny_invAny hwf hstep ih).1

theorem kstepAny_terminatesAny {sv : SolverCfg S} {H : Nat → S → EInt} {B0 B : Int} (hwf : WellFormed sv H B0 B) :
    WellFounded (fun t s : KSt S => KInvAny sv H s ∧ KStepAny sv s t) :=
  Subrelation.wf (r := InvImage (fun t s : SeqSt S => C01t.Step sv.P.nbVars sv.dedup s t) KSt.st)
    (fun {_ _} h => (kstepAny_invAny hwf h.2 h.1).2) (InvImage.wf _ (C01t.seq_terminates sv.P.nbVars sv.dedup))

end Ddo.C09

#print axioms Ddo.C09.kprocess_any
#print axioms Ddo.C09.kturn_any
#print axioms Ddo.C09.krunAny_invAny
#print axioms Ddo.C09.kstepAny_terminatesAny
