import DdoModel.Proofs.CacheDomDefs
/-! # `Carrier` — the second way cache + dominance lose the optimum (finding **D16**, found by the random search)

In `Cross` / `CrossSim` a *dominance-derived* threshold is applied to a relaxed node.  Here no such threshold is involved: a
threshold that is perfectly justified for the cache alone — in the potential form of C09, by an **open sub-problem** that carries
the potential — prunes the relaxed image of the protected strategy, and the carrier, which is optimal but not protected, is later
dropped **at its pop** by the checker.  C09 reasons on potentials ("some open node carries it"), C10 on one protected family
("the protected family is never dropped"); the composition needs the carrier to be protected, and nothing forces that.

The model was found by the random search (`/tmp/agent_cachedom/search`, mode `counter`: mutations of `Ddo.C09.Layered.Counter`
with random rules filtered by a computed `UndomOpt`; seed 23, candidate 35317), not designed.  7 binary variables, 3 states,
`FixedWidth(1)`, duplicate-free fringe, last-exact-layer cut-set (the other three configurations pop in another order and return
the optimum).  Tables: `Counter.T` with the costs `c(x3, state 0, decision 0) = 3` and `c(x4, state 2, decision 0) = 3`
(the late reward 10 unchanged).  **Optimum 13**; value-to-go of depth 4: `3, 10, 13`.

The rule: key `0` for the states `0` and `2`, none for `1`; one coordinate: `1` for state `0`, `0` for state `2`; the value is used —
"state 0 dominates state 2 at equal or better value".  It has a protected optimal strategy (`undomOpt`: `0, 0, 0, 0, (1, value 3),
(2, 3), (2, 3)`, terminal value 13) but is not admissible (state 0 at depth 4 is worth 3, state 2 is worth 13).

```
turn 1  pop R: restricted 7, incumbent 7; cut-set {A = (1, depth 1), P = (0, depth 1)}, both ub 15.
turn 2  pop A: relaxed: exact chain down to k2 = (state 2, depth 4, value 0), cut-set {k2}, threshold (2, depth 4) ↦ (0, unexplored)
        — justified by the open k2, whose potential is 13.
turn 3  pop P: in the relaxed diagram the protected strategy is merged at depth 3 into a node whose child (state 2, depth 4, value 0),
        **inexact**, is pruned by that threshold; the cut-set node N = (0, depth 2) gets ub 4 ≤ incumbent 7 and is not enqueued.
        For the cache alone this is fine: k2 is open and carries 13.  The checker now holds (state 0, value 0) at depth 4.
turn 4  pop k2 = (2, depth 4, 0): `must_explore` accepts it; `_filter_with_dominance` drops the **root** of its diagram — dominated by
        the entry (0, 0) of depth 4.  Exact empty diagram.  fringe [], `is_exact = true`, `best_value = Some(7)`; optimum 13.
```
Cache alone: 13 (k2 is explored).  Checker alone: 13 (nothing prunes the relaxed node of turn 3, N is worth 13 and is enqueued). -/
set_option linter.unusedSectionVars false
set_option linter.unusedVariables false
namespace Ddo.C10c.Carrier
open Ddo Ddo.C01 Ddo.Closed Ddo.C09 Ddo.C10 Ddo.C10c Ddo.C09.Layered

def T : Tab :=
  { n := 7, m := 3,
    trl := [1,0, 1,0, 1,0,   0,0, 1,1, 1,1,   0,1, 2,2, 2,2,   1,1, 2,0, 2,2,   0,0, 2,2, 2,1,   0,1, 0,1, 2,1,   0,0, 0,0, 0,0],
    cl :=  [0,0, 0,0, 0,0,   0,0, 0,0, 0,0,   0,0, 0,0, 0,0,   3,0, 0,0, 0,0,   0,0, 0,0, 3,0,   2,1, 2,1, 0,2,   0,0, 2,0, 10,0],
    rub := 20 }

/-- `FixedWidth(1)` -/
def ws : List Nat := List.replicate 24 1

/-- state 0 dominates state 2 (same depth, at least the same value); state 1 is never compared -/
def rule : DomRule Int Int :=
  { key := fun s => if s = 0 ∨ s = 2 then some 0 else none, dims := fun _ => 1,
    coord := fun s _ => if s = 0 then 1 else 0, useValue := true }

def sv (dedup : Bool) (kind : CutsetKind) : SolverCfg Int := Layered.sv T ws dedup kind
def dv (dedup : Bool) (kind : CutsetKind) : DSolverCfg Int Int := ⟨sv dedup kind, rule⟩

theorem checked : check T 10 = true := by decide

theorem wellFormed (dedup : Bool) (kind : CutsetKind) : WellFormed (dv dedup kind).sv (H T) 10 80 :=
  wellFormed_ofTables T 10 80 ws dedup kind checked (by decide) (by decide)

theorem opt13 : (H T 0 (prob T).init).addI (prob T).initVal = some 13 := by decide

/-! ## the exactly reached items, the protected strategy -/

/-- `(depth, state, value)` of every exactly reached item -/
def table : List (Nat × Int × Int) :=
  [(0, 0, 0), (1, 1, 0), (1, 0, 0), (2, 1, 0), (2, 0, 0), (3, 2, 0), (3, 0, 0), (3, 1, 0),
   (4, 2, 0), (4, 1, 3), (4, 1, 0), (4, 0, 0), (5, 2, 3), (5, 1, 0), (5, 2, 0), (5, 0, 0),
   (6, 2, 3), (6, 1, 5), (6, 0, 2), (6, 1, 1), (6, 2, 0), (6, 1, 2),
   (7, 0, 13), (7, 0, 3), (7, 0, 7), (7, 0, 5), (7, 0, 2), (7, 0, 1), (7, 0, 10), (7, 0, 0), (7, 0, 4)]

theorem step_table : ∀ e ∈ table, ∀ d ∈ [(0 : Int), 1], e.1 < 7 →
    (e.1 + 1, (prob T).trans e.2.1 ⟨e.1, d⟩, e.2.2 + (prob T).cost e.2.1 ((prob T).trans e.2.1 ⟨e.1, d⟩) ⟨e.1, d⟩) ∈ table := by
  decide

theorem reach_table {k : Nat} {s v : Int} {p : List Dec} (h : Reach (prob T) k s v p) : (k, s, v) ∈ table := by
  induction h with
  | root => decide
  | step k s v p L x d _ hnv _ hd ih =>
    obtain ⟨hk, rfl⟩ := nv_some hnv
    have hd' : d ∈ [(0 : Int), 1] := hd
    exact step_table (_, s, v) ih d hd' hk

def protL : List (Nat × Int × Int) := [(0, 0, 0), (1, 0, 0), (2, 0, 0), (3, 0, 0), (4, 1, 3), (5, 2, 3), (6, 2, 3), (7, 0, 13)]
def Prot (d : Nat) (s v : Int) : Prop := (d, s, v) ∈ protL
instance (d : Nat) (s v : Int) : Decidable (Prot d s v) := by unfold Prot; exact inferInstance

theorem prot_cases {d : Nat} {s v : Int} (h : Prot d s v) :
    (d = 0 ∧ s = 0 ∧ v = 0) ∨ (d = 1 ∧ s = 0 ∧ v = 0) ∨ (d = 2 ∧ s = 0 ∧ v = 0) ∨ (d = 3 ∧ s = 0 ∧ v = 0) ∨
    (d = 4 ∧ s = 1 ∧ v = 3) ∨ (d = 5 ∧ s = 2 ∧ v = 3) ∨ (d = 6 ∧ s = 2 ∧ v = 3) ∨ (d = 7 ∧ s = 0 ∧ v = 13) := by
  simpa [Prot, protL] using h

theorem reach1 : Reach (prob T) 1 0 0 [⟨0, 1⟩] :=
  Reach.step (P := prob T) 0 0 0 [] [0] 0 1 Reach.root rfl (by decide) (by decide)
theorem reach2 : Reach (prob T) 2 0 0 [⟨0, 1⟩, ⟨1, 0⟩] :=
  Reach.step (P := prob T) 1 0 0 [⟨0, 1⟩] [0] 1 0 reach1 rfl (by decide) (by decide)
theorem reach3 : Reach (prob T) 3 0 0 [⟨0, 1⟩, ⟨1, 0⟩, ⟨2, 0⟩] :=
  Reach.step (P := prob T) 2 0 0 [⟨0, 1⟩, ⟨1, 0⟩] [0] 2 0 reach2 rfl (by decide) (by decide)
theorem reach4 : Reach (prob T) 4 1 3 [⟨0, 1⟩, ⟨1, 0⟩, ⟨2, 0⟩, ⟨3, 0⟩] :=
  Reach.step (P := prob T) 3 0 0 [⟨0, 1⟩, ⟨1, 0⟩, ⟨2, 0⟩] [0] 3 0 reach3 rfl (by decide) (by decide)
theorem reach5 : Reach (prob T) 5 2 3 [⟨0, 1⟩, ⟨1, 0⟩, ⟨2, 0⟩, ⟨3, 0⟩, ⟨4, 0⟩] :=
  Reach.step (P := prob T) 4 1 3 [⟨0, 1⟩, ⟨1, 0⟩, ⟨2, 0⟩, ⟨3, 0⟩] [1] 4 0 reach4 rfl (by decide) (by decide)
theorem reach6 : Reach (prob T) 6 2 3 [⟨0, 1⟩, ⟨1, 0⟩, ⟨2, 0⟩, ⟨3, 0⟩, ⟨4, 0⟩, ⟨5, 0⟩] :=
  Reach.step (P := prob T) 5 2 3 [⟨0, 1⟩, ⟨1, 0⟩, ⟨2, 0⟩, ⟨3, 0⟩, ⟨4, 0⟩] [2] 5 0 reach5 rfl (by decide) (by decide)
theorem reach7 : Reach (prob T) 7 0 13 [⟨0, 1⟩, ⟨1, 0⟩, ⟨2, 0⟩, ⟨3, 0⟩, ⟨4, 0⟩, ⟨5, 0⟩, ⟨6, 0⟩] :=
  Reach.step (P := prob T) 6 2 3 [⟨0, 1⟩, ⟨1, 0⟩, ⟨2, 0⟩, ⟨3, 0⟩, ⟨4, 0⟩, ⟨5, 0⟩] [2] 6 0 reach6 rfl (by decide) (by decide)

/-- no exactly reached item dominates a protected item of its depth -/
theorem undom_table : ∀ e ∈ table, ∀ q ∈ protL, e.1 = q.1 → ¬ Dominates rule e.2.1 e.2.2 q.2.1 q.2.2 := by decide

theorem protected_ : Protected rule (prob T) (H T) 13 Prot := by
  refine ⟨by decide, ?_, ?_, ?_, ?_⟩
  · intro d s v h
    rcases prot_cases h with ⟨rfl, rfl, rfl⟩ | ⟨rfl, rfl, rfl⟩ | ⟨rfl, rfl, rfl⟩ | ⟨rfl, rfl, rfl⟩ | ⟨rfl, rfl, rfl⟩ |
      ⟨rfl, rfl, rfl⟩ | ⟨rfl, rfl, rfl⟩ | ⟨rfl, rfl, rfl⟩
    · exact ⟨_, Reach.root⟩
    · exact ⟨_, reach1⟩
    · exact ⟨_, reach2⟩
    · exact ⟨_, reach3⟩
    · exact ⟨_, reach4⟩
    · exact ⟨_, reach5⟩
    · exact ⟨_, reach6⟩
    · exact ⟨_, reach7⟩
  · intro d s v h
    rcases prot_cases h with ⟨rfl, rfl, rfl⟩ | ⟨rfl, rfl, rfl⟩ | ⟨rfl, rfl, rfl⟩ | ⟨rfl, rfl, rfl⟩ | ⟨rfl, rfl, rfl⟩ |
      ⟨rfl, rfl, rfl⟩ | ⟨rfl, rfl, rfl⟩ | ⟨rfl, rfl, rfl⟩ <;> decide
  · intro d s v L x h hnv hs
    obtain ⟨hk, rfl⟩ := nv_some hnv
    rcases prot_cases h with ⟨rfl, rfl, rfl⟩ | ⟨rfl, rfl, rfl⟩ | ⟨rfl, rfl, rfl⟩ | ⟨rfl, rfl, rfl⟩ | ⟨rfl, rfl, rfl⟩ |
      ⟨rfl, rfl, rfl⟩ | ⟨rfl, rfl, rfl⟩ | ⟨rfl, rfl, rfl⟩
    · exact ⟨1, by decide, by decide⟩
    · exact ⟨0, by decide, by decide⟩
    · exact ⟨0, by decide, by decide⟩
    · exact ⟨0, by decide, by decide⟩
    · exact ⟨0, by decide, by decide⟩
    · exact ⟨0, by decide, by decide⟩
    · exact ⟨0, by decide, by decide⟩
    · exact absurd hk (by decide)
  · intro d s v a va pa h hr
    exact undom_table (d, a, va) (reach_table hr) (d, s, v) h rfl

theorem undomOpt : UndomOpt rule (prob T) (H T) 13 := ⟨Prot, protected_⟩

/-- the rule is not admissible: at depth 4 it lets state 0 (worth 3) dominate state 2 (worth 13) -/
theorem not_admissibleAll : ¬ AdmissibleAll rule (H T) := by
  intro h
  have := h 4 0 0 2 0 (by decide)
  exact absurd this (by decide)

/-! ## the runs (duplicate-free fringe, last-exact-layer cut-set) -/

def after (j : Nat) : KDSt Int Int := (dv true .lel).kdsolveLoop j (KDSt.init (dv true .lel))

def viewKD (s : KDSt Int Int) : List (Int × Int × Int × Nat) × Int :=
  (s.st.fringe.map (fun c => (c.state, c.value, c.ub, c.depth)), s.st.bestLb)
def cacheAtKD (s : KDSt Int Int) (d : Nat) : List (Int × Int × Bool) :=
  (s.cache.layers.getD d []).map (fun e => (e.1, e.2.value, e.2.explored))
def cacheIn (s : KDSt Int Int) : Cache Int :=
  (cleanCache T.n s.st.openByLayer T.n s.st.firstActive s.cache).getD s.cache
def storeAt (s : KDSt Int Int) (d : Nat) : List (Int × List (Int × Int)) := s.store.layers.getD d []

set_option maxRecDepth 100000 in
/-- **cache + dominance: four turns, empty fringe, `is_exact = true`, `best_value = Some(7)`**; the optimum is 13 -/
theorem joint_value : (after 8).st.fringe.length = 0 ∧ (after 8).st.completion = (true, some 7) ∧
    (after 8).st.explored = 4 ∧ (after 8).st.crashed = false := by decide

set_option maxRecDepth 100000 in
/-- the checker alone and the cache alone return the optimum, in the same configuration -/
theorem single_values :
    ((dv true .lel).solveLoop 30 (dv true .lel).init).st.fringe.length = 0 ∧
    ((dv true .lel).solveLoop 30 (dv true .lel).init).st.completion = (true, some 13) ∧
    ((sv true .lel).ksolveLoop 30 (KSt.init (sv true .lel))).st.fringe.length = 0 ∧
    ((sv true .lel).ksolveLoop 30 (KSt.init (sv true .lel))).st.completion = (true, some 13) := by decide

set_option maxRecDepth 100000 in
/-- after turn 2: `k2 = (2, value 0, ub 15, depth 4)` is open and the cache holds `(2, depth 4) ↦ (0, unexplored)` — a threshold whose
    justification is that open node, of potential 13 -/
theorem stage2 : viewKD (after 2) = ([(0, 0, 15, 1), (2, 0, 15, 4)], 7) ∧ cacheAtKD (after 2) 4 = [(2, 0, false)] ∧
    optOf (H T) ⟨2, 0, [], 15, 4⟩ = some 13 := by decide

set_option maxRecDepth 100000 in
/-- after turn 3 (`P`): only `k2` is open — the cut-set node of `P`'s diagram was not worth enqueuing — and the checker holds
    `(state 0, value 0)` at depth 4 -/
theorem stage3 : viewKD (after 3) = ([(2, 0, 15, 4)], 7) ∧ storeAt (after 3) 4 = [(0, [(0, 0)])] := by decide

set_option maxRecDepth 100000 in
/-- turn 4 pops `k2`: `must_explore` accepts it, and the checker drops the root of its (restricted, exact, empty) diagram -/
theorem stage4 : (cacheIn (after 3)).mustExplore 2 4 0 = some true ∧
    ((dv true .lel).kdcompR (cacheIn (after 3)) (after 3).store ⟨2, 0, [], 15, 4⟩ 7).2.2.2.ndom = 1 ∧
    ((dv true .lel).kdcompR (cacheIn (after 3)) (after 3).store ⟨2, 0, [], 15, 4⟩ 7).2.1.isExact = true ∧
    ((dv true .lel).kdcompR (cacheIn (after 3)) (after 3).store ⟨2, 0, [], 15, 4⟩ 7).2.1.bestValue = none := by decide

set_option maxRecDepth 100000 in
theorem stage_end : viewKD (after 4) = ([], 7) := by decide

end Ddo.C10c.Carrier
