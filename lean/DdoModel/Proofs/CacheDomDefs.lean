import DdoModel.Props.C09c
import DdoModel.Props.C10b
/-! C10c (cache **and** dominance) — **the concrete sequential solver with both pruning mechanisms enabled**:
`SequentialSolver` with `SimpleCache` and `SimpleDominanceChecker` (`NoCutoff`) over the diagram model.  This is what
`DefaultCachingSolver` and the knapsack / alp / tsptw / lcs examples actually run.

The definitions mirror `Ddo.C01.SolverCfg.kprocess` / `kturn` / `KStep` / `KRun` / `ksolveLoop` of
`Proofs/CacheClosedDefs.lean` (the caching solver) and `Ddo.C10.DSolverCfg` of `Proofs/DomSound.lean` (the shared store
threaded out of each compilation) **exactly**; the only difference is the `CompilationInput`: ONE input with
`useCache := true` and `dom := some D` (`DSolverCfg.kdcfg`), compiled from the current cache *and* the current store.

One turn (`DSolverCfg.kdturn`, the popped node `N` / the rest of the fringe being an input):

1. `get_workload`: the cache-cleaning loop (`cleanLoop` / `cleanCache`: only the *cache* has layers cleared, the checker is
   never cleared by the sequential solver), the pop, `afterPop`;
2. `process_one_node(N)`: `node.ub ≤ best_lb` → skip; `must_explore(N)` (read-only) → skip if refused; restricted compilation
   consulting cache and store, its `update_threshold` calls replayed in call order, `maybe_update_best`; if it is not exact the
   relaxed compilation consulting the *updated* cache and the store *left by the restricted compilation*, its updates,
   `maybe_update_best`, `enqueue_cutset`.

`none` = a panic (index out of range in the cache or in the checker) or a compilation that does not end normally. -/
set_option linter.unusedSectionVars false
set_option linter.unusedVariables false
namespace Ddo.C10c
open Ddo Ddo.C01 Ddo.Closed Ddo.C09 Ddo.C10
variable {S K : Type} [DecidableEq S] [DecidableEq K]

/-- the `CompilationInput` of `process_one_node` for the node `N` with incumbent `lb`, **with** the cache and **with** the
    dominance checker -/
def _root_.Ddo.C10.DSolverCfg.kdcfg (dv : DSolverCfg S K) (ct : CompType) (N : SubP S) (lb : Int) : Cfg S K :=
  { P := dv.sv.P, R := dv.sv.R, rank := dv.sv.rank, dom := some dv.D, useCache := true, kind := dv.sv.kind, ctype := ct,
    width := dv.sv.width N, root := N, lb := lb }

/-- the restricted / relaxed compilation of `N` from the cache `cache` and the store `store` -/
def _root_.Ddo.C10.DSolverCfg.kdcompR (dv : DSolverCfg S K) (cache : Cache S) (store : DomStore S K) (N : SubP S) (lb : Int) :=
  compile (dv.kdcfg .restricted N lb) cache store 0 none
def _root_.Ddo.C10.DSolverCfg.kdcompX (dv : DSolverCfg S K) (cache : Cache S) (store : DomStore S K) (N : SubP S) (lb : Int) :=
  compile (dv.kdcfg .relaxed N lb) cache store 0 none

/-- the state of the solver: the sequential state, the cache and the (shared) dominance store -/
structure KDSt (S K : Type) where
  st : SeqSt S
  cache : Cache S
  store : DomStore S K

/-- `new` + `initialize`: the root on the fringe, `nb_variables + 1` empty cache layers, an empty checker -/
def KDSt.init (dv : DSolverCfg S K) : KDSt S K :=
  ⟨SeqSt.init dv.sv.P none dv.sv.dedup, Cache.init dv.sv.P.nbVars, DomStore.init dv.sv.P.nbVars⟩

/-- `process_one_node(N)` from the popped state `st` with the cache `c0` and the store `d0` -/
def _root_.Ddo.C10.DSolverCfg.kdprocess (dv : DSolverCfg S K) (st : SeqSt S) (c0 : Cache S) (d0 : DomStore S K) (N : SubP S) :
    Option (KDSt S K) :=
  if N.ub ≤ st.bestLb then some ⟨st, c0, d0⟩
  else
    match c0.mustExplore N.state N.depth N.value with
    | none => none
    | some false => some ⟨st, c0, d0⟩
    | some true =>
      let cR := dv.kdcompR c0 d0 N st.bestLb
      if cR.1 ≠ .ok then none
      else
        match applyUps c0 cR.2.1.cacheUpdates.reverse with
        | none => none
        | some c1 =>
          let st1 := st.updateBest (toOut cR.2.1)
          let d1 := cR.2.2.2.store
          if cR.2.1.isExact then some ⟨st1, c1, d1⟩
          else
            let cX := dv.kdcompX c1 d1 N st1.bestLb
            if cX.1 ≠ .ok then none
            else
              match applyUps c1 cX.2.1.cacheUpdates.reverse with
              | none => none
              | some c2 =>
                let st2 := st1.updateBest (toOut cX.2.1)
                let d2 := cX.2.2.2.store
                if cX.2.1.isExact then some ⟨st2, c2, d2⟩
                else some ⟨st2.enqueue dv.sv.dedup cX.2.1.cutset, c2, d2⟩

/-- one turn of the loop of `maximize`, `N` being the popped node and `rest` what is left in the fringe -/
def _root_.Ddo.C10.DSolverCfg.kdturn (dv : DSolverCfg S K) (s : KDSt S K) (N : SubP S) (rest : List (SubP S)) :
    Option (KDSt S K) :=
  match cleanCache dv.sv.P.nbVars s.st.openByLayer dv.sv.P.nbVars s.st.firstActive s.cache with
  | none => none
  | some c0 =>
    dv.kdprocess (popped s.st N rest (cleanLoop dv.sv.P.nbVars s.st.openByLayer dv.sv.P.nbVars s.st.firstActive)) c0 s.store N

/-- **one turn with a best-first pop** (largest upper bound, then largest value: `MaxUB`) -/
inductive KDStep (dv : DSolverCfg S K) : KDSt S K → KDSt S K → Prop
  | pop (s t : KDSt S K) (N : SubP S) (rest : List (SubP S))
      (hpop : s.st.fringe.Perm (N :: rest))
      (hmax : ∀ c ∈ rest, c.ub < N.ub ∨ (c.ub = N.ub ∧ c.value ≤ N.value))
      (hturn : dv.kdturn s N rest = some t) : KDStep dv s t

/-- finite runs -/
inductive KDRun (dv : DSolverCfg S K) : KDSt S K → KDSt S K → Prop
  | refl (s : KDSt S K) : KDRun dv s s
  | tail {s t u : KDSt S K} : KDRun dv s t → KDStep dv t u → KDRun dv s u

theorem KDRun.head {dv : DSolverCfg S K} {s t u : KDSt S K} (h1 : KDStep dv s t) (h2 : KDRun dv t u) : KDRun dv s u := by
  induction h2 with
  | refl => exact KDRun.tail (KDRun.refl _) h1
  | tail _ hstep ih => exact KDRun.tail ih hstep

/-- the loop of `maximize` as a function (deterministic best-first pop `popMax`); stops on the empty fringe, when the fuel
    runs out, or on a panic / abnormal end of a compilation -/
def _root_.Ddo.C10.DSolverCfg.kdsolveLoop (dv : DSolverCfg S K) : Nat → KDSt S K → KDSt S K
  | 0, s => s
  | n + 1, s =>
    match popMax s.st.fringe with
    | none => s
    | some (N, rest) =>
      match dv.kdturn s N rest with
      | none => s
      | some t => dv.kdsolveLoop n t

/-- the fuel-driven loop is a run of the step relation -/
theorem kdsolveLoop_run (dv : DSolverCfg S K) : ∀ (n : Nat) (s : KDSt S K), KDRun dv s (dv.kdsolveLoop n s) := by
  intro n
  induction n with
  | zero => intro s; exact KDRun.refl s
  | succ n ih =>
    intro s
    unfold DSolverCfg.kdsolveLoop
    cases hp : popMax s.st.fringe with
    | none => exact KDRun.refl s
    | some Nr =>
      obtain ⟨N, rest⟩ := Nr
      obtain ⟨hpop, hmax⟩ := popMax_spec s.st.fringe N rest hp
      dsimp only
      cases ht : dv.kdturn s N rest with
      | none => exact KDRun.refl s
      | some t => exact KDRun.head (KDStep.pop s t N rest hpop hmax ht) (ih t)

/-- the loop with an explicit pop schedule (turn `j` pops the entry of index `sched[j]` of the fringe): used by the search for
    alternative resolutions of ties among maximal nodes, and for replaying traces -/
def _root_.Ddo.C10.DSolverCfg.kdsolveSched (dv : DSolverCfg S K) : List Nat → KDSt S K → KDSt S K
  | [], s => s
  | i :: sched, s =>
    match popAt s.st.fringe i with
    | none => s
    | some (N, rest) =>
      match dv.kdturn s N rest with
      | none => s
      | some t => dv.kdsolveSched sched t

end Ddo.C10c
