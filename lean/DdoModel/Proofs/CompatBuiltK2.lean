import DdoModel.Proofs.CompatBuiltK1
import DdoModel.Proofs.CompatThetaUb
/-! C10e — **`BuiltOkJointK`**: the loop of `Proofs/CompatBuiltA.lean` redone with the side invariant `KArcM` for the *same*
classification `Live` (positions handed to the expansion). -/
set_option linter.unusedSectionVars false
set_option linter.unusedVariables false
namespace Ddo.C10d
open Ddo Ddo.C01 Ddo.Closed Ddo.C09 Ddo.C10 Ddo.C10c Ddo.Truth Ddo.Theta Ddo.Bounds
variable {S K : Type} [DecidableEq S] [DecidableEq K]

/-- `stepTInvJ_of` with the new classification `Live'` made explicit -/
theorem stepTInvJ_live (cfg : Cfg S K) (D : DomRule S K) (H : Nat → S → EInt) (B : Int) (p0 : List Dec) (cache : Cache S) (O : Int)
    (hy : HypJ cfg H B) (hfd : FdSpecJ cfg D H O B p0)
    (Live Drop : Nat → Nat → Prop) (dd dd' : DD S K) (var : Nat) (sq : List (Node S) × List Nat × List (Call S) × Option Nat)
    (hI : TInvJ cfg H B cache O Live Drop dd) (hS : SInv cfg D dd) (hM : MInv cfg B p0 dd)
    (hnv : cfg.P.nextVar dd.depth (dd.next.map (·.state)) = some var) (hlen : dd.layers.length ≤ cfg.P.nbVars)
    (hsq : squash cfg dd (CacheClosed.fdOf cfg dd).1 (CacheClosed.fdOf cfg dd).2.1 = some sq)
    (hl : dd'.layers = dd.layers ++ [(expandAll cfg var dd.layers.length sq.1 sq.2.1 sq.2.2.1).1])
    (hn : dd'.next = (expandAll cfg var dd.layers.length sq.1 sq.2.1 sq.2.2.1).2.1)
    (hd : dd'.depth = dd.depth + 1) (hc : dd'.cache = dd.cache) :
    ∃ Drop', TInvJ cfg H B cache O (fun l p => if l = dd.layers.length then p ∈ sq.2.1 else Live l p) Drop' dd' := by
  have hdesc := fcOf_desc cfg dd
  rw [hI.cacheEq] at hdesc
  obtain ⟨hpost0, hpre0, hrub0⟩ := sqpostJ_fc cfg H B cache O Live Drop dd var hy hnv hI _ _ hdesc
  obtain ⟨hpost, hpre⟩ := sqpostJ_drop cfg H B cache O Live dd var _ _ _ _ hpost0 hpre0 hrub0 (hfd dd var hS hM hI.depth hnv)
  rcases Bounds.squash_cases cfg dd (CacheClosed.fdOf cfg dd).1 (CacheClosed.fdOf cfg dd).2.1 hy.rel hy.W with
    ⟨_, hsq'⟩ | ⟨c1, c2, hsq'⟩
  · rw [hsq'] at hsq
    cases hsq
    dsimp only at hl hn
    exact ⟨_, expand_tinvJ cfg H B cache O Live Drop dd dd' var _ _ _ dd.log hy hlen hI hpost hl hn hd hc⟩
  · rw [hsq'] at hsq
    cases hsq
    dsimp only at hl hn
    exact ⟨_, expand_tinvJ cfg H B cache O Live Drop dd dd' var _ _ _ _ hy hlen hI
      (sqpostJ_relax cfg H B cache O Live Drop dd var _ dd.log hy hnv hlen _ _ c1 c2 hI hpost hpre) hl hn hd hc⟩

/-- `DoneJ` with the side invariant -/
inductive DoneK (cfg : Cfg S K) (H : Nat → S → EInt) (B : Int) (cache : Cache S) (O : Int) (fin : DD S K) : Prop
  | brk (Live Drop : Nat → Nat → Prop) (dd0 : DD S K) : TInvJ cfg H B cache O Live Drop dd0 → KArcM Live dd0 → dd0.next = [] →
      dd0.layers.length ≤ cfg.P.nbVars + 1 →
      fin.layers = dd0.layers ++ [[]] → fin.next = [] → fin.lel = dd0.lel → DoneK cfg H B cache O fin
  | term (Live Drop : Nat → Nat → Prop) : TInvJ cfg H B cache O Live Drop fin → KArcM Live fin →
      cfg.P.nextVar fin.depth (fin.next.map (·.state)) = none → fin.layers.length ≤ cfg.P.nbVars + 1 →
      DoneK cfg H B cache O fin

theorem buildLoop_tk (cfg : Cfg S K) (D : DomRule S K) (hD : cfg.dom = some D) (hNV : NvBound cfg.P)
    (H : Nat → S → EInt) (B : Int) (hB : NoClamp cfg.P cfg.R cfg.root.value B) (p0 : List Dec) (cache : Cache S) (O : Int)
    (hy : HypJ cfg H B) (hfd : FdSpecJ cfg D H O B p0) :
    ∀ (fuel : Nat) (dd : DD S K) (Live Drop : Nat → Nat → Prop), TInvJ cfg H B cache O Live Drop dd → KArcM Live dd →
      SInv cfg D dd → MInv cfg B p0 dd → dd.layers.length + fuel ≤ cfg.P.nbVars + 2 → (buildLoop cfg none fuel dd).2 = .ok →
      DoneK cfg H B cache O (buildLoop cfg none fuel dd).1 := by
  intro fuel
  induction fuel with
  | zero => intro dd Live Drop _ _ _ _ _ h; simp [buildLoop] at h
  | succ fuel ih =>
    intro dd Live Drop hI hK hS hM hlen hok
    cases hnv : cfg.P.nextVar dd.depth (dd.next.map (·.state)) with
    | none =>
      rw [CacheClosed.buildLoop_none cfg none fuel dd hnv]
      exact .term Live Drop (hI.congr rfl rfl rfl rfl) ⟨hK.L, hK.N⟩ hnv (by dsimp only; omega)
    | some var =>
      have hI1 : TInvJ cfg H B cache O Live Drop (tick dd var) := hI.congr rfl rfl rfl rfl
      have hK1 : KArcM Live (tick dd var) := ⟨hK.L, hK.N⟩
      have hS1 : SInv cfg D (tick dd var) := ⟨hS.store, hS.len⟩
      have hM1 : MInv cfg B p0 (tick dd var) := hM.congr rfl rfl
      have hnv1 : cfg.P.nextVar (tick dd var).depth ((tick dd var).next.map (·.state)) = some var := hnv
      have hdep1 : (tick dd var).depth = cfg.root.depth + (tick dd var).layers.length := hI1.depth
      rw [buildLoop_step cfg fuel dd var hnv] at hok ⊢
      by_cases hne : (tick dd var).next = []
      · rw [Truth.stepLayer_empty cfg _ var hne] at hok ⊢
        exact .brk Live Drop (tick dd var) hI1 hK1 hne (by show dd.layers.length ≤ _; omega) rfl hne rfl
      · obtain ⟨f3, f4, f5⟩ := fdOf_sinv_joint cfg D hD hNV B p0 (tick dd var) var hS1 hM1 hdep1 hnv1
        obtain ⟨_, s2⟩ := stepLayer_joint cfg (tick dd var) var hne
        obtain ⟨s1, s2⟩ := s2 f4
        cases hsq : squash cfg (tick dd var) (CacheClosed.fdOf cfg (tick dd var)).1
            (CacheClosed.fdOf cfg (tick dd var)).2.1 with
        | none =>
          rw [s1 hsq] at hok
          cases hok
        | some sq =>
          obtain ⟨dd', hst, hl, hn, hdd, _, _, hca⟩ := s2 sq hsq
          rw [hst] at hok ⊢
          have hlt := nv_depth_lt hNV hnv1
          have hlen1 : (tick dd var).layers.length ≤ cfg.P.nbVars := by omega
          obtain ⟨Drop', hI'⟩ := stepTInvJ_live cfg D H B p0 cache O hy hfd Live Drop (tick dd var) dd' var sq hI1 hS1 hM1 hnv1
            hlen1 hsq hl hn hdd hca
          have harcL : ∀ ly ∈ (tick dd var).layers, ∀ n ∈ ly, ∀ a ∈ n.inb, a.fromL < (tick dd var).layers.length := by
            intro ly hly n hnm a ha
            obtain ⟨i, hi⟩ := List.mem_iff_getElem?.mp hly
            obtain ⟨q, hq⟩ := List.mem_iff_getElem?.mp hnm
            have h1 := ((hI1.baseL i q ly n hi hq).arcs a ha).1
            have h2 := Cover.lt_of_getElem?_some hi
            omega
          have harcN : ∀ n ∈ (tick dd var).next, ∀ a ∈ n.inb, a.fromL < (tick dd var).layers.length := by
            intro n hnm a ha
            have h1 := ((hI1.baseN n hnm).1.arcs a ha).1
            omega
          have hK' := step_karcm cfg hy.rel hy.W Live (tick dd var) dd' var sq hK1 harcL harcN hsq hl hn
          obtain ⟨m1, _, _⟩ := Ddo.stepLayer_inv cfg B p0 hB (tick dd var) var hM1 hdep1 hnv1 (by omega) dd' .ok hst
          refine ih dd' _ Drop' hI' hK' (stepLayer_sinv_joint cfg D hD hNV B p0 (tick dd var) dd' var .ok hS1 hM1 hdep1 hnv1 hst)
            m1 ?_ hok
          rw [hl, List.length_append, List.length_singleton]
          show dd.layers.length + 1 + fuel ≤ _
          omega

theorem kfacts_of {cfg : Cfg S K} {H : Nat → S → EInt} {B : Int} {cache : Cache S} {O : Int} {fin : DD S K}
    {Live Drop : Nat → Nat → Prop} {dd : DD S K} (hbo : BuiltOkJ cfg H B cache O fin Live Drop dd) (hK : KArcM Live dd) :
    KFactsJ fin Live := by
  refine ⟨fun l p n h => ?_, fun l p n a h ha => ?_⟩
  · rcases hbo.at_ l p n h with ⟨ly, hly, hp⟩ | ⟨_, hp⟩
    · exact (hK.L ly (List.mem_of_getElem? hly) n (List.mem_of_getElem? hp)).1
    · exact (hK.N n (List.mem_of_getElem? hp)).1
  · rcases hbo.at_ l p n h with ⟨ly, hly, hp⟩ | ⟨_, hp⟩
    · exact (hK.L ly (List.mem_of_getElem? hly) n (List.mem_of_getElem? hp)).2 a ha
    · exact (hK.N n (List.mem_of_getElem? hp)).2 a ha

theorem builtOkK_of_done (cfg : Cfg S K) (H : Nat → S → EInt) (B : Int) (cache : Cache S) (O : Int) (fin : DD S K)
    (h : DoneK cfg H B cache O fin) : ∃ Live Drop dd, BuiltOkJ cfg H B cache O fin Live Drop dd ∧ KFactsJ fin Live := by
  cases h with
  | brk Live Drop dd0 hI hK hn0 hlen hL hN hlel =>
    have hlay : (finalizeLayers fin).layers = fin.layers := by
      unfold finalizeLayers; simp only [hN, List.isEmpty_nil, if_true]
    have hs : (finalizeLayers fin).layers = dd0.layers ++ [dd0.next] ∨ ((finalizeLayers fin).layers = dd0.layers ∧ dd0.next = []) := by
      left; rw [hlay, hL, hn0]
    have hbo : BuiltOkJ cfg H B cache O fin Live Drop dd0 := by
      refine ⟨hI, view_at hs, view_ofL hs, view_ofN hs, ?_, ?_, fun h => absurd hn0 h, hlen, fun h => absurd hn0 h, hlel,
        fun h => absurd hn0 h, ?_⟩
      · rw [hn0]
        unfold finalizeLayers; simp only [hN, List.isEmpty_nil, if_true]
      · rw [terminals_finalizeLayers, hN, hn0]
      · rw [hlay, hL, List.length_append, List.length_singleton]; exact Nat.le_refl _
    exact ⟨Live, Drop, dd0, hbo, kfacts_of hbo hK⟩
  | term Live Drop hI hK hnone hlen =>
    have hbo : BuiltOkJ cfg H B cache O fin Live Drop fin := by
      by_cases hne : fin.next = []
      · have hlay : (finalizeLayers fin).layers = fin.layers := by
          unfold finalizeLayers; simp only [hne, List.isEmpty_nil, if_true]
        have hs : (finalizeLayers fin).layers = fin.layers ++ [fin.next] ∨ ((finalizeLayers fin).layers = fin.layers ∧ fin.next = []) :=
          .inr ⟨hlay, hne⟩
        refine ⟨hI, view_at hs, view_ofL hs, view_ofN hs, ?_, terminals_finalizeLayers fin, fun _ => hnone, hlen,
          fun h => absurd hne h, rfl, fun _ => rfl, ?_⟩
        · unfold finalizeLayers; simp only [hne, List.isEmpty_nil, if_true]
        · rw [hlay]; omega
      · obtain ⟨h1, h2⟩ := finalizeLayers_nonempty fin hne
        have hs : (finalizeLayers fin).layers = fin.layers ++ [fin.next] ∨ ((finalizeLayers fin).layers = fin.layers ∧ fin.next = []) :=
          .inl h1
        have hemp : fin.next.isEmpty = false := by
          cases hn : fin.next with
          | nil => exact absurd hn hne
          | cons _ _ => rfl
        refine ⟨hI, view_at hs, view_ofL hs, view_ofN hs, ?_, terminals_finalizeLayers fin, fun _ => hnone, hlen,
          fun _ => ?_, rfl, fun _ => rfl, ?_⟩
        · rw [h2, hemp]; rfl
        · rw [h1, List.length_append, List.length_singleton]
        · rw [h1, List.length_append, List.length_singleton]; omega
    exact ⟨Live, Drop, fin, hbo, kfacts_of hbo hK⟩

/-- **the top-down obligation with the two facts `KFactsJ` is a theorem** -/
theorem builtOkJointK : BuiltOkJointK := by
  intro S K _ _ dv H B0 B opt n hM N lb cache store p0 hpre
  have hBN : NoClamp dv.sv.P dv.sv.R N.value B := hM.wf.bound.noClamp_at hM.wf.nv hpre.root
  have hK0 : KArcM (fun _ _ => False) (initDD (dv.kdcfg .relaxed N lb) cache store 0) := by
    refine ⟨fun ly hly => absurd hly List.not_mem_nil, fun n hn => ?_⟩
    have hnext : (initDD (dv.kdcfg .relaxed N lb) cache store 0).next =
        [{ state := N.state, value := N.value, depth := N.depth }] := rfl
    rw [hnext, List.mem_singleton] at hn
    subst hn
    exact ⟨rfl, fun a ha => absurd ha List.not_mem_nil⟩
  have hdone := buildLoop_tk (dv.kdcfg .relaxed N lb) dv.D rfl hM.wf.nv (gpot dv.D dv.sv.P n opt B) B hBN p0 cache (opt - 1)
    (hypJ_gpot hM hpre.root) (fdSpecJoint S K dv H B0 B opt n hM N lb p0 hpre.root)
    (dv.sv.P.nbVars + 2) (initDD (dv.kdcfg .relaxed N lb) cache store 0) _ _
    (init_tinvJ (dv.kdcfg .relaxed N lb) _ B cache (opt - 1) store 0 hBN) hK0 ⟨hpre.sreach, hpre.slen⟩
    (initDD_inv (dv.kdcfg .relaxed N lb) B p0 hBN hpre.root cache store 0)
    (by show 0 + (dv.sv.P.nbVars + 2) ≤ dv.sv.P.nbVars + 2; omega)
    (Ddo.compile_ok (dv.kdcfg .relaxed N lb) cache store 0 none hpre.ok).1
  exact builtOkK_of_done _ _ _ _ _ _ hdone

end Ddo.C10d

#print axioms Ddo.C10d.builtOkJointK
