import DdoModel.Proofs.ParCacheCutSys
/-! # The parallel caching solver with cut-off — what survives an abort

After `abort_search` the coverage invariant `KPInv` of the cached parallel solver is gone for good (the fringe and the cache
were thrown away; `open_by_layer` no longer counts the fringe).  What is carried through **every** step, before and after any
number of aborts (`KInvC`):

* `pck` — the side conditions of the diagram theorems (`PCK`: nodes reached exactly, incumbents in range, what a worker
  carries is an answer of the diagram model) — needed so that the compilations that END after the abort are still sound;
* `reach` — as long as the flag is down the `KSys` component is a reachable state of the system WITHOUT cut-off
  (`KPRun`), so the whole of `parallel_caching_solver_correct` applies to it;
* `snd` — `best_lb ≤ opt`, the stored solution is feasible with value `best_lb`, every exact value found and not yet
  published is the value of a feasible solution (`Snd`): the **bounds clauses that do not mention `best_ub`**;
* `flagUp` / `lbUb0` — bookkeeping of the flag: once up it stays up; the recorded bound is never below `isize::MIN`-incumbents
  of an infeasible problem.

The cache after an abort: `cache.clear()` empties it while other workers may still be compiling and will WRITE thresholds
afterwards; none of the clauses above mentions the cache, the log only grows, and the steps that consult the cache for a
decision (`gwDrop` / `gwKeep`) are behind `gwAborted` — harmless.

The clause `opt ≤ best_ub` is **conditional** on `AbortBoundOk` (see there: an obligation about the reachable states of the
system WITHOUT cut-off, i.e. about the first abort; later aborts and all other steps only raise or keep the bound). -/
set_option linter.unusedSectionVars false
set_option linter.unusedVariables false
namespace Ddo.ParCache
open Ddo Ddo.Truth Ddo.Closed Ddo.ParSys Ddo.ParClosed Ddo.C09 Ddo.Theta
open Ddo.C01 (SolverCfg WellFormed toOut SolOf)
variable {S : Type} [DecidableEq S]

/-- **the steps of the parallel caching solver with cut-off over the diagram model** -/
abbrev KPStepC (sv : SolverCfg S) : KSysC S → KSysC S → Prop := KStepC sv.P.nbVars sv.dedup (okRk sv) (okXk sv)
abbrev KPRunC (sv : SolverCfg S) : KSysC S → KSysC S → Prop := KRunC sv.P.nbVars sv.dedup (okRk sv) (okXk sv)

/-! ## `abort_search` -/

theorem abortSearch_facts (c : ParCrit S) (u : Int) (top : Option Int) :
    (c.abortSearch u top).base.abort = true ∧ (c.abortSearch u top).base.bestLb = c.base.bestLb ∧
    (c.abortSearch u top).base.bestSol = c.base.bestSol ∧ (c.abortSearch u top).base.fringe = [] ∧
    c.base.bestLb ≤ (c.abortSearch u top).base.bestUb ∧
    (c.base.abort = true → c.base.bestUb ≤ (c.abortSearch u top).base.bestUb) := by
  refine ⟨rfl, rfl, rfl, rfl, ?_, ?_⟩
  · show c.base.bestLb ≤ max _ c.base.bestLb
    omega
  · intro ha
    show c.base.bestUb ≤ max (if c.base.abort = true then max _ c.base.bestUb else _) c.base.bestLb
    rw [if_pos ha]
    omega

/-! ## the flag and the recorded bound along a step -/

/-- a step either leaves the flag alone (and, if it is up, the recorded bound), or is an `abort_search` -/
theorem KStepC.flag {nbVars : Nat} {dedup : Bool} {okR okX : SubP S → Int → Cache S → DDOut S → List (Up S) → Prop}
    {s t : KSysC S} (h : KStepC nbVars dedup okR okX s t) :
    (t.k.crit.base.abort = s.k.crit.base.abort ∧ (s.k.crit.base.abort = true → t.k.crit.base.bestUb = s.k.crit.base.bestUb)) ∨
    (∃ (i : Nat) (n : SubP S) (top : Option Int),
      (∃ lb k0, s.k.ws[i]? = some (.compR n lb k0) ∨ s.k.ws[i]? = some (.compX n lb k0)) ∧ LockFree s.k ∧
      AbortTop s.k.crit.base.fringe top ∧ t.k = abortK s.k i n top) := by
  cases h with
  | gwComplete s e i hw hc ha ho hf => exact .inl ⟨rfl, fun h => by rw [ha] at h; cases h⟩
  | gwDrop s e i N rest c' hw hp hub hme hd =>
    unfold dropOne at hd
    split at hd
    · cases hd; exact .inl ⟨rfl, fun _ => rfl⟩
    · cases hd
  | gwTake s e i n c' crit' hw hu ht =>
    obtain ⟨_, _, _, t4, t5, _⟩ := take_spec ht
    exact .inl ⟨t5, fun _ => t4⟩
  | updateR s e i n lb o cv ups hw hl =>
    exact .inl ⟨(updateBest_fringe s.crit.base o).2.2.1, fun _ => (updateBest_fringe s.crit.base o).2.1⟩
  | updateX s e i n lb o cv ups hw hl =>
    exact .inl ⟨(updateBest_fringe s.crit.base o).2.2.1, fun _ => (updateBest_fringe s.crit.base o).2.1⟩
  | enqueue s e i n lb o cv ups hw hl =>
    cases dedup
    · exact .inl ⟨(enqueue_false_spec s.crit.base o.cutset).2.2.2.1, fun _ => (enqueue_false_spec s.crit.base o.cutset).2.2.1⟩
    · exact .inl ⟨(enqueue_true_spec s.crit.base o.cutset).2.2.2.1, fun _ => (enqueue_true_spec s.crit.base o.cutset).2.2.1⟩
  | notify s e i n c' hw hl hi hn =>
    obtain ⟨n1, _⟩ := notify_spec hn
    exact .inl ⟨by show c'.base.abort = _; rw [n1], fun _ => by show c'.base.bestUb = _; rw [n1]⟩
  | notifyExit s e i n c' hw hl hi hn =>
    obtain ⟨n1, _⟩ := notify_spec hn
    exact .inl ⟨by show c'.base.abort = _; rw [n1], fun _ => by show c'.base.bestUb = _; rw [n1]⟩
  | abortR s e i n lb k0 top hw hl htop => exact .inr ⟨i, n, top, ⟨lb, k0, .inl hw⟩, hl, htop, rfl⟩
  | abortX s e i n lb k0 top hw hl htop => exact .inr ⟨i, n, top, ⟨lb, k0, .inr hw⟩, hl, htop, rfl⟩
  | _ => exact .inl ⟨rfl, fun _ => rfl⟩

/-! ## soundness of what is found — independent of the cache, the fringe and the flag -/

/-- an exact value found by a compilation and not yet published is the value of a feasible solution -/
def WSnd (sv : SolverCfg S) (opt : Int) : KW S → Prop
  | .wrR _ _ o _ _ _ => ∀ w, o.bestExact = some w → ∃ p, o.bestExactSol = some p ∧ SolOf sv.P p w ∧ w ≤ opt
  | .wrX _ _ o _ _ _ => ∀ w, o.bestExact = some w → ∃ p, o.bestExactSol = some p ∧ SolOf sv.P p w ∧ w ≤ opt
  | _ => True

/-- the bounds clauses that do not mention `best_ub` -/
structure Snd (sv : SolverCfg S) (opt : Int) (s : KSys S) : Prop where
  lbOk : s.crit.base.bestLb ≤ opt
  solOk : ∀ p, s.crit.base.bestSol = some p → SolOf sv.P p s.crit.base.bestLb
  ws : ∀ w ∈ s.ws, WSnd sv opt w

theorem wsnd_wake {sv : SolverCfg S} {opt : Int} {w : KW S} (h : WSnd sv opt w) : WSnd sv opt w.wake := by
  cases w <;> first | exact h | trivial

theorem snd_of {sv : SolverCfg S} {opt : Int} {s t : KSys S} (hS : Snd sv opt s)
    (hlb : t.crit.base.bestLb = s.crit.base.bestLb) (hsol : t.crit.base.bestSol = s.crit.base.bestSol)
    (hws : ∀ w ∈ t.ws, WSnd sv opt w) : Snd sv opt t :=
  ⟨by rw [hlb]; exact hS.lbOk, by rw [hlb, hsol]; exact hS.solOk, hws⟩

/-- `maybe_update_best` of a sound answer -/
theorem snd_update {sv : SolverCfg S} {opt : Int} {s : KSys S} (hS : Snd sv opt s) {o : DDOut S}
    (ho : ∀ w, o.bestExact = some w → ∃ p, o.bestExactSol = some p ∧ SolOf sv.P p w ∧ w ≤ opt) :
    (s.crit.base.updateBest o).bestLb ≤ opt ∧
    ∀ p, (s.crit.base.updateBest o).bestSol = some p → SolOf sv.P p (s.crit.base.updateBest o).bestLb := by
  unfold SeqSt.updateBest
  split
  · next w hw =>
    obtain ⟨p, hp, hsol, hle⟩ := ho w hw
    split
    · refine ⟨hle, fun p' hp' => ?_⟩
      have hp' : o.bestExactSol = some p' := hp'
      rw [hp] at hp'; cases hp'; exact hsol
    · exact ⟨hS.lbOk, hS.solOk⟩
  · exact ⟨hS.lbOk, hS.solOk⟩

/-- **every step of `KStep` preserves `Snd`** — no hypothesis on the flag, the fringe or the cache -/
theorem kpstep_snd {sv : SolverCfg S} {H : Nat → S → EInt} {B0 B : Int} (hwf : WellFormed sv H B0 B) {opt : Int}
    (hopt : (H 0 sv.P.init).addI sv.P.initVal = some opt) {s t : KSys S}
    (h : KPStep sv s t) (hI : PCK sv H B s) (hS : Snd sv opt s) : Snd sv opt t := by
  have hmem : ∀ {i : Nat} {w : KW S}, s.ws[i]? = some w → WOkK sv B w :=
    fun hw => hI.ws _ (List.mem_of_getElem? hw)
  cases h with
  | gwEnter i hw hl => exact snd_of hS rfl rfl (mem_set_elim hS.ws trivial)
  | gwClear i c' hw hc hcl => exact snd_of hS rfl rfl hS.ws
  | gwComplete i hw hc ho hf => exact snd_of hS rfl rfl (mem_set_elim hS.ws trivial)
  | gwWait i hw hc ho hf => exact snd_of hS rfl rfl (mem_set_elim hS.ws trivial)
  | gwToPop i hw hc hf => exact snd_of hS rfl rfl (mem_set_elim hS.ws trivial)
  | gwEmpty i hw hf => exact snd_of hS rfl rfl (mem_set_elim hS.ws trivial)
  | gwStarve i N rest hw hp hub => exact snd_of hS rfl rfl (mem_set_elim hS.ws trivial)
  | gwDrop i N rest c' hw hp hub hme hd =>
    obtain ⟨_, e2, e3⟩ := dropOne_spec hd
    exact snd_of hS e2 e3 hS.ws
  | gwKeep i N rest hw hp hub hme => exact snd_of hS rfl rfl (mem_set_elim hS.ws trivial)
  | gwTake i n c' crit' hw hu ht =>
    obtain ⟨_, t2, t3, _⟩ := take_spec ht
    exact snd_of hS t2 t3 (mem_set_elim hS.ws trivial)
  | readLbR i n hw hl => exact snd_of hS rfl rfl (mem_set_elim hS.ws (by split <;> trivial))
  | compileR i n lb k0 cv o ups hw hcv hok =>
    refine snd_of hS rfl rfl (mem_set_elim hS.ws ?_)
    exact (okRk_contract hwf hopt n lb cv o ups ⟨hok, (hmem hw).node n (.inl rfl), (hmem hw).stage⟩).1
  | writeR i n lb o cv ups u todo c' hw hu =>
    exact snd_of hS rfl rfl (mem_set_elim hS.ws
      (show WSnd sv opt (KW.wrR n lb o cv ups (u :: todo)) from hS.ws _ (List.mem_of_getElem? hw)))
  | updateR i n lb o cv ups hw hl =>
    obtain ⟨h1, h2⟩ := snd_update hS (hS.ws _ (List.mem_of_getElem? hw))
    exact ⟨h1, h2, mem_set_elim hS.ws (by split <;> trivial)⟩
  | readLbX i n hw hl => exact snd_of hS rfl rfl (mem_set_elim hS.ws trivial)
  | compileX i n lb k0 cv o ups hw hcv hok =>
    refine snd_of hS rfl rfl (mem_set_elim hS.ws ?_)
    exact (okXk_contract hwf hopt n lb cv o ups ⟨hok, (hmem hw).node n (.inl rfl), (hmem hw).stage⟩).c.sound
  | writeX i n lb o cv ups u todo c' hw hu =>
    exact snd_of hS rfl rfl (mem_set_elim hS.ws
      (show WSnd sv opt (KW.wrX n lb o cv ups (u :: todo)) from hS.ws _ (List.mem_of_getElem? hw)))
  | updateX i n lb o cv ups hw hl =>
    obtain ⟨h1, h2⟩ := snd_update hS (hS.ws _ (List.mem_of_getElem? hw))
    exact ⟨h1, h2, mem_set_elim hS.ws (by split <;> trivial)⟩
  | enqueue i n lb o cv ups hw hl =>
    obtain ⟨e1, e2⟩ := enqueue_lb_sol sv.dedup s.crit.base o.cutset
    exact snd_of hS e1 e2 (mem_set_elim hS.ws trivial)
  | notify i n c' hw hl hn =>
    obtain ⟨n1, _⟩ := notify_spec hn
    refine snd_of hS (by show c'.base.bestLb = _; rw [n1]) (by show c'.base.bestSol = _; rw [n1]) (mem_set_elim (fun w hw' => ?_) trivial)
    obtain ⟨w0, hw0, rfl⟩ := List.mem_map.mp hw'
    exact wsnd_wake (hS.ws w0 hw0)
  | crash i w hw hp => exact snd_of hS rfl rfl (mem_set_elim hS.ws trivial)

/-- the four new steps preserve `Snd` -/
theorem newstep_snd {sv : SolverCfg S} {opt : Int} {s t : KSysC S} (h : NewStep sv.P.nbVars s t) (hS : Snd sv opt s.k) :
    Snd sv opt t.k := by
  cases h with
  | gwAborted s e i hw hc ha => exact snd_of hS rfl rfl (mem_set_elim hS.ws trivial)
  | abortR s e i n lb k0 top hw hl htop => exact snd_of hS rfl rfl (mem_set_elim hS.ws trivial)
  | abortX s e i n lb k0 top hw hl htop => exact snd_of hS rfl rfl (mem_set_elim hS.ws trivial)
  | notifyExit s e i n c' hw hl hi hn =>
    obtain ⟨n1, _⟩ := notify_spec hn
    refine snd_of hS (by show c'.base.bestLb = _; rw [n1]) (by show c'.base.bestSol = _; rw [n1]) (mem_set_elim (fun w hw' => ?_) trivial)
    obtain ⟨w0, hw0, rfl⟩ := List.mem_map.mp hw'
    exact wsnd_wake (hS.ws w0 hw0)

/-- the four new steps preserve `PCK` -/
theorem newstep_pck {sv : SolverCfg S} {H : Nat → S → EInt} {B : Int} {s t : KSysC S} (h : NewStep sv.P.nbVars s t)
    (hI : PCK sv H B s.k) : PCK sv H B t.k := by
  have hmem : ∀ {i : Nat} {w : KW S}, s.k.ws[i]? = some w → WOkK sv B w :=
    fun hw => hI.ws _ (List.mem_of_getElem? hw)
  cases h with
  | gwAborted s e i hw hc ha => exact ⟨hI.base, mem_set_elim hI.ws (wokk_free rfl rfl trivial)⟩
  | abortR s e i n lb k0 top hw hl htop =>
    exact ⟨hI.base.of_eq (fun c hc => by cases hc) rfl rfl,
      mem_set_elim hI.ws (wokk_keep ((hmem hw).node n (.inl rfl)) (fun n e => by cases e; rfl) (fun n e => by cases e) trivial)⟩
  | abortX s e i n lb k0 top hw hl htop =>
    exact ⟨hI.base.of_eq (fun c hc => by cases hc) rfl rfl,
      mem_set_elim hI.ws (wokk_keep ((hmem hw).node n (.inl rfl)) (fun n e => by cases e; rfl) (fun n e => by cases e) trivial)⟩
  | notifyExit s e i n c' hw hl hi hn =>
    obtain ⟨n1, _, _, _⟩ := notify_spec hn
    refine ⟨by show BaseOk sv H B c'.base; rw [n1]; exact hI.base, mem_set_elim (fun w hw' => ?_) (wokk_free rfl rfl trivial)⟩
    obtain ⟨w0, hw0, rfl⟩ := List.mem_map.mp hw'
    exact wokk_wake (hI.ws w0 hw0)

/-- `exits` only grows at an `abort_search` -/
theorem KStepC.exits_sub {nbVars : Nat} {dedup : Bool} {okR okX : SubP S → Int → Cache S → DDOut S → List (Up S) → Prop}
    {s t : KSysC S} (h : KStepC nbVars dedup okR okX s t) : t.exits = s.exits ∨ t.k.crit.base.abort = true := by
  rcases h.toBase with ⟨_, e⟩ | hn
  · exact .inl e
  · cases hn with
    | gwAborted s e i hw hc ha => exact .inl rfl
    | abortR s e i n lb k0 top hw hl htop => exact .inr rfl
    | abortX s e i n lb k0 top hw hl htop => exact .inr rfl
    | notifyExit s e i n c' hw hl hi hn => exact .inl rfl

/-! ## the invariant of the system with cut-off -/

structure KInvC (sv : SolverCfg S) (H : Nat → S → EInt) (B : Int) (U : Nat) (s : KSysC S) : Prop where
  /-- the side conditions of the diagram theorems -/
  pck : PCK sv H B s.k
  /-- before the first abort: a reachable state of the system without cut-off -/
  reach : s.k.crit.base.abort = false → KPRun sv (KSys.init sv.P sv.dedup U) s.k
  /-- feasible problem: the bounds clauses that do not mention `best_ub` -/
  snd : ∀ opt, (H 0 sv.P.init).addI sv.P.initVal = some opt → Snd sv opt s.k
  /-- after an abort the recorded bound is not below the incumbent of an infeasible problem (`isize::MIN`) -/
  lbUb0 : s.k.crit.base.abort = true → (H 0 sv.P.init).addI sv.P.initVal = none → s.k.crit.base.bestLb ≤ s.k.crit.base.bestUb
  /-- only a worker that has run `abort_search` is in `exits` -/
  exitsUp : ∀ i ∈ s.exits, s.k.crit.base.abort = true

theorem init_kinvC {sv : SolverCfg S} {H : Nat → S → EInt} {B0 B : Int} (hwf : WellFormed sv H B0 B) (U : Nat) :
    KInvC sv H B U (KSysC.init sv.P sv.dedup U) := by
  have hI := init_kinvAll hwf U
  refine ⟨hI.pck, fun _ => KRun.refl _, fun opt hopt => ⟨(hI.cov opt hopt).lbOk, (hI.cov opt hopt).solOk, fun w hw => ?_⟩,
    (fun ha _ => by cases ha), (fun i hi => by cases hi)⟩
  have hw : w ∈ List.replicate U (KW.idle : KW S) := hw
  rw [List.eq_of_mem_replicate hw]
  trivial

/-- **every step of the system with cut-off preserves `KInvC`** -/
theorem kpstepC_kinvC {sv : SolverCfg S} {H : Nat → S → EInt} {B0 B : Int} (hwf : WellFormed sv H B0 B) {U : Nat}
    {s t : KSysC S} (h : KPStepC sv s t) (hI : KInvC sv H B U s) : KInvC sv H B U t := by
  have hfl := h.flag
  have hinf : (H 0 sv.P.init).addI sv.P.initVal = none → ∀ u : KSysC S, PCK sv H B u.k → u.k.crit.base.bestLb = iMin :=
    fun hi u hu => (hu.base.infeas hi).1
  have hex : ∀ i ∈ t.exits, t.k.crit.base.abort = true := by
    intro i hi
    rcases h.exits_sub with e | e
    · rw [e] at hi
      rcases hfl with ⟨h1, _⟩ | ⟨_, n, top, _, _, _, e'⟩
      · rw [h1]; exact hI.exitsUp i hi
      · rw [e']; rfl
    · exact e
  rcases h.toBase with ⟨hb, _⟩ | hn
  · have hp : PCK sv H B t.k := kpstep_pck hwf hb hI.pck
    refine ⟨hp, fun ha => ?_, fun opt hopt => kpstep_snd hwf hopt hb hI.pck (hI.snd opt hopt), fun ha hi => ?_, hex⟩
    · rcases hfl with ⟨h1, _⟩ | ⟨i, n, top, _, _, _, e⟩
      · exact KRun.tail (hI.reach (by rw [← h1]; exact ha)) hb
      · rw [e] at ha; cases ha
    · rcases hfl with ⟨h1, h2⟩ | ⟨i, n, top, _, _, _, e⟩
      · have ha' : s.k.crit.base.abort = true := by rw [← h1]; exact ha
        rw [h2 ha', hinf hi t hp, ← hinf hi s hI.pck]
        exact hI.lbUb0 ha' hi
      · rw [e]; exact (abortSearch_facts s.k.crit n.ub top).2.2.2.2.1
  · have hp : PCK sv H B t.k := newstep_pck hn hI.pck
    refine ⟨hp, fun ha => ?_, fun opt hopt => newstep_snd hn (hI.snd opt hopt), fun ha hi => ?_, hex⟩
    · cases hn with
      | gwAborted s e i hw hc ha' => rw [ha'] at ha; cases ha
      | abortR s e i n lb k0 top hw hl htop => cases ha
      | abortX s e i n lb k0 top hw hl htop => cases ha
      | notifyExit s e i n c' hw hl hi hn' =>
        obtain ⟨n1, _⟩ := notify_spec hn'
        have h1 : s.crit.base.abort = true := hI.exitsUp i hi
        have h2 : c'.base.abort = false := ha
        rw [n1, h1] at h2; cases h2
    · rcases hfl with ⟨h1, h2⟩ | ⟨i, n, top, _, _, _, e⟩
      · have ha' : s.k.crit.base.abort = true := by rw [← h1]; exact ha
        rw [h2 ha', hinf hi t hp, ← hinf hi s hI.pck]
        exact hI.lbUb0 ha' hi
      · rw [e]; exact (abortSearch_facts s.k.crit n.ub top).2.2.2.2.1

end Ddo.ParCache
