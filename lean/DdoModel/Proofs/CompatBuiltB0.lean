import DdoModel.Proofs.CompatBuiltA
/-! C10e — the stages of a joint layer step: definitions (`HypJ`, `SqPostJ`) and `fold_other`. -/
set_option linter.unusedSectionVars false
set_option linter.unusedVariables false
namespace Ddo.C10d
open Ddo Ddo.C01 Ddo.Closed Ddo.C09 Ddo.C10 Ddo.C10c Ddo.Truth Ddo.Theta Ddo.Bounds
variable {S K : Type} [DecidableEq S] [DecidableEq K]

/-- `Ddo.Theta.HypT` without `dom = none`, with the one field `att` of `Potential` that the loop uses -/
structure HypJ (cfg : Cfg S K) (H : Nat → S → EInt) (B : Int) : Prop where
  rel : cfg.ctype = .relaxed
  W : 1 ≤ cfg.width
  att : ∀ k L x s h, cfg.P.nextVar k L = some x → s ∈ L → H k s = some h →
    ∃ d ∈ cfg.P.domain x s, ∃ h', H (k + 1) (cfg.P.trans s ⟨x, d⟩) = some h' ∧
      h ≤ cfg.P.cost s (cfg.P.trans s ⟨x, d⟩) ⟨x, d⟩ + h'
  M : MergeOk cfg.R H
  AM : Cover.AttMerge cfg.P cfg.R H
  B : NoClamp cfg.P cfg.R cfg.root.value B

/-- `Ddo.Theta.SqPostT` with the class `Dr` of the positions of the layer under construction dropped by the checker -/
structure SqPostJ (cfg : Cfg S K) (H : Nat → S → EInt) (B : Int) (cache : Cache S) (O : Int) (Live : Nat → Nat → Prop)
    (dd : DD S K) (var : Nat) (Dr : Nat → Prop) (layer' : List (Node S)) (cur' : List Nat) : Prop where
  att : ∀ q ∈ cur', ∀ n, layer'[q]? = some n → Cover.AttAt cfg H dd.depth var n.state
  rng : ∀ n ∈ layer', Cover.Within (Cover.Bd B dd.layers.length) n.value
  /-- the position-independent part of `NodeBaseJ` (`InDrop := True` makes `thetaNone` void) -/
  base : ∀ n ∈ layer', NodeBaseJ B dd.layers.length dd.depth True n
  thN : ∀ q n, layer'[q]? = some n → n.cache = false → ¬ Dr q → n.theta = none
  cls : ∀ q n, layer'[q]? = some n → ClsJ cfg cache H O dd.depth (q ∈ cur') (Dr q) n
  drLt : ∀ q, Dr q → q < layer'.length
  step : ∀ (l p : Nat) ly n, l + 1 = dd.layers.length → dd.layers[l]? = some ly → Live l p → ly[p]? = some n →
    StepU cfg H B (cfg.root.depth + l) l p n layer' (fun q m => q ∈ cur' ∨ m.cache = true ∨ Dr q)
  first : dd.layers = [] → ∀ n ∈ layer', n.cache = false
  root : dd.layers = [] → ∃ n0, layer'[0]? = some n0 ∧ n0.state = cfg.root.state ∧ n0.value = cfg.root.value ∧
    (0 ∈ cur' ∨ Dr 0)

theorem expandOne_other (cfg : Cfg S K) (var lidx : Nat) (acc : List (Node S) × List (Node S) × List (Call S)) (p q : Nat)
    (h : q ≠ p) : (expandOne cfg var lidx acc p).1[q]? = acc.1[q]? := by
  obtain ⟨ly, nx, lg⟩ := acc
  cases hp : ly[p]? with
  | none => rw [Cover.expandOne_none _ _ _ _ _ _ _ hp]
  | some n =>
    rw [Cover.expandOne_some _ _ _ _ _ _ _ n hp]
    split <;> (dsimp only; rw [List.getElem?_set_ne (Ne.symm h)])

/-- the expansion leaves the nodes at the positions it is not handed alone -/
theorem fold_other (cfg : Cfg S K) (var lidx : Nat) (cur : List Nat) (acc : List (Node S) × List (Node S) × List (Call S))
    (q : Nat) (hq : q ∉ cur) : (cur.foldl (expandOne cfg var lidx) acc).1[q]? = acc.1[q]? := by
  induction cur generalizing acc with
  | nil => rfl
  | cons p ps ih =>
    rw [List.foldl_cons, ih _ (fun h => hq (List.mem_cons_of_mem _ h))]
    exact expandOne_other cfg var lidx acc p q (fun h => hq (h ▸ List.mem_cons_self))

end Ddo.C10d
