import DdoModel.Proofs.ParDomDefs
/-! # `_filter_with_dominance` only touches the store layer of its own depth

`DomStore.query D st s d v` reads and writes `st.layers[d]` only (`query_local`); hence `filterDom` on a layer all of whose exact
nodes have depth `d` computes the same layer, the same surviving positions and the same new `layers[d]` from any two stores that
agree on `layers[d]`, and leaves every other layer of either store as it was (`filterDom_local`). -/
set_option linter.unusedSectionVars false
set_option linter.unusedVariables false
namespace Ddo.ParDom
open Ddo Ddo.C10
variable {S K : Type} [DecidableEq S] [DecidableEq K]

/-- two stores agree on layer `d` (after an operation), each keeps its other layers and its length -/
structure LocRel (d : Nat) (st1 st2 a1 a2 : DomStore S K) : Prop where
  same : a1.layers[d]? = a2.layers[d]?
  other1 : ∀ j, j ≠ d → a1.layers[j]? = st1.layers[j]?
  other2 : ∀ j, j ≠ d → a2.layers[j]? = st2.layers[j]?
  len1 : a1.layers.length = st1.layers.length
  len2 : a2.layers.length = st2.layers.length

theorem LocRel.refl' {d : Nat} {st1 st2 : DomStore S K} (h : st1.layers[d]? = st2.layers[d]?) : LocRel d st1 st2 st1 st2 :=
  ⟨h, fun _ _ => rfl, fun _ _ => rfl, rfl, rfl⟩

theorem LocRel.trans' {d : Nat} {st1 st2 a1 a2 b1 b2 : DomStore S K} (h1 : LocRel d st1 st2 a1 a2) (h2 : LocRel d a1 a2 b1 b2) :
    LocRel d st1 st2 b1 b2 :=
  ⟨h2.same, fun j hj => (h2.other1 j hj).trans (h1.other1 j hj), fun j hj => (h2.other2 j hj).trans (h1.other2 j hj),
   h2.len1.trans h1.len1, h2.len2.trans h1.len2⟩

theorem set_locRel {d : Nat} {st1 st2 : DomStore S K} {l : DLayer S K} (h1 : st1.layers[d]? = some l)
    (h2 : st2.layers[d]? = some l) (x : DLayer S K) :
    LocRel d st1 st2 ⟨st1.layers.set d x⟩ ⟨st2.layers.set d x⟩ := by
  have hd1 : d < st1.layers.length := (List.getElem?_eq_some_iff.mp h1).1
  have hd2 : d < st2.layers.length := (List.getElem?_eq_some_iff.mp h2).1
  refine ⟨?_, fun j hj => ?_, fun j hj => ?_, ?_, ?_⟩
  · show (st1.layers.set d x)[d]? = (st2.layers.set d x)[d]?
    rw [List.getElem?_set_self hd1, List.getElem?_set_self hd2]
  · show (st1.layers.set d x)[j]? = _
    rw [List.getElem?_set_ne (fun e => hj e.symm)]
  · show (st2.layers.set d x)[j]? = _
    rw [List.getElem?_set_ne (fun e => hj e.symm)]
  · show (st1.layers.set d x).length = _
    rw [List.length_set]
  · show (st2.layers.set d x).length = _
    rw [List.length_set]

/-- **one `is_dominated_or_insert` reads and writes the layer of its depth only** -/
theorem query_local (D : DomRule S K) (st1 st2 : DomStore S K) (s : S) (d : Nat) (v : Int)
    (h : st1.layers[d]? = st2.layers[d]?) :
    (DomStore.query D st1 s d v = none ∧ DomStore.query D st2 s d v = none) ∨
    ∃ a1 a2 dom thr, DomStore.query D st1 s d v = some (a1, dom, thr) ∧ DomStore.query D st2 s d v = some (a2, dom, thr) ∧
      LocRel d st1 st2 a1 a2 := by
  unfold DomStore.query
  cases hk : D.key s with
  | none => exact Or.inr ⟨st1, st2, false, none, rfl, rfl, LocRel.refl' h⟩
  | some k =>
    simp only
    cases hl : st1.layers[d]? with
    | none =>
      rw [hl] at h
      rw [← h]
      exact Or.inl ⟨rfl, rfl⟩
    | some l =>
      rw [hl] at h
      rw [← h]
      simp only
      cases hf : l.find k with
      | none => exact Or.inr ⟨_, _, false, none, rfl, rfl, set_locRel hl h.symm _⟩
      | some b => exact Or.inr ⟨_, _, _, _, rfl, rfl, set_locRel hl h.symm _⟩

/-- the relation between the accumulators of the two folds -/
structure FdRel (d : Nat) (st1 st2 : DomStore S K) (acc1 acc2 : List (Node S) × List Nat × DomStore S K × Bool) : Prop where
  ly : acc1.1 = acc2.1
  keep : acc1.2.1 = acc2.2.1
  ok : acc1.2.2.2 = acc2.2.2.2
  st : LocRel d st1 st2 acc1.2.2.1 acc2.2.2.1
  dep : ∀ n ∈ acc1.1, n.isExact = true → n.depth = d

theorem fdStep_local (D : DomRule S K) (d : Nat) (st1 st2 : DomStore S K)
    (acc1 acc2 : List (Node S) × List Nat × DomStore S K × Bool) (p : Nat) (h : FdRel d st1 st2 acc1 acc2) :
    FdRel d st1 st2 (fdStep D acc1 p) (fdStep D acc2 p) := by
  obtain ⟨ly1, keep1, s1, ok1⟩ := acc1
  obtain ⟨ly2, keep2, s2, ok2⟩ := acc2
  obtain ⟨e1, e2, e3, hst, hdep⟩ := h
  simp only at e1 e2 e3 hst hdep
  subst e1; subst e2; subst e3
  unfold fdStep
  simp only
  cases hp : ly1[p]? with
  | none => exact ⟨rfl, rfl, rfl, hst, hdep⟩
  | some n =>
    simp only
    by_cases he : n.isExact = true
    · rw [if_pos he, if_pos he]
      have hd : n.depth = d := hdep n (List.mem_of_getElem? hp) he
      rw [hd]
      rcases query_local D s1 s2 n.state d n.value hst.same with ⟨q1, q2⟩ | ⟨a1, a2, dom, thr, q1, q2, hrel⟩
      · rw [q1, q2]
        exact ⟨rfl, rfl, rfl, hst, hdep⟩
      · rw [q1, q2]
        simp only
        cases dom with
        | true =>
          simp only [if_true]
          refine ⟨rfl, rfl, rfl, hst.trans' hrel, fun m hm hme => ?_⟩
          rcases List.mem_or_eq_of_mem_set hm with h' | h'
          · exact hdep m h' hme
          · subst h'
            first | rfl | exact hd
        | false =>
          simp only [Bool.false_eq_true, if_false]
          exact ⟨rfl, rfl, rfl, hst.trans' hrel, hdep⟩
    · rw [if_neg he, if_neg he]
      exact ⟨rfl, rfl, rfl, hst, hdep⟩

theorem fdFold_local (D : DomRule S K) (d : Nat) (st1 st2 : DomStore S K) (ps : List Nat) :
    ∀ (acc1 acc2 : List (Node S) × List Nat × DomStore S K × Bool), FdRel d st1 st2 acc1 acc2 →
      FdRel d st1 st2 (ps.foldl (fdStep D) acc1) (ps.foldl (fdStep D) acc2) := by
  induction ps with
  | nil => intro _ _ h; exact h
  | cons p ps ih => intro a1 a2 h; exact ih _ _ (fdStep_local D d st1 st2 a1 a2 p h)

/-- **`_filter_with_dominance` is local to the store layer of the depth of the diagram layer it filters** -/
theorem filterDom_local (cfg : Cfg S K) (st1 st2 : DomStore S K) (layer : List (Node S)) (cur : List Nat) (d : Nat)
    (hdep : ∀ n ∈ layer, n.isExact = true → n.depth = d) (hloc : st1.layers[d]? = st2.layers[d]?) :
    (filterDom cfg st1 layer cur).1 = (filterDom cfg st2 layer cur).1 ∧
    (filterDom cfg st1 layer cur).2.1 = (filterDom cfg st2 layer cur).2.1 ∧
    (filterDom cfg st1 layer cur).2.2.2 = (filterDom cfg st2 layer cur).2.2.2 ∧
    LocRel d st1 st2 (filterDom cfg st1 layer cur).2.2.1 (filterDom cfg st2 layer cur).2.2.1 := by
  cases hD : cfg.dom with
  | none =>
    have e : ∀ st, filterDom cfg st layer cur = (layer, cur, st, true) := by
      intro st; unfold filterDom; simp only [hD]
    rw [e st1, e st2]
    exact ⟨rfl, rfl, rfl, LocRel.refl' hloc⟩
  | some D =>
    rw [filterDom_eq cfg D hD, filterDom_eq cfg D hD]
    obtain ⟨a, b, c, e, _⟩ := fdFold_local D d st1 st2 (fdSorted D layer cur) (layer, [], st1, true) (layer, [], st2, true)
      ⟨rfl, rfl, rfl, LocRel.refl' hloc, hdep⟩
    exact ⟨a, b, c, e⟩

end Ddo.ParDom
