import DdoModel.Proofs.MddCover
import DdoModel.Proofs.MddProtocol
/-! # C06 relative to VALID layers: a variant of `Ddo.C06.relaxed_ub_rel_dom` whose hypotheses only speak about what the
    compilation can actually meet

`Ddo.C06.relaxed_ub_rel_dom` (`Props/C06.lean`, proof in `Proofs/MddCover.lean`) asks

* `WfRel` — whose clauses `vstep`, `vstepMerge`, `att`, `attMerge`, `term` quantify over ANY list `L` handed to `nextVar`
  (only the member `s` at hand, resp. the merged part `X`, is known to be valid), and
* `NoClampDom` — whose clauses `cost` and `relax` bound the transition cost from ANY state and the relaxed cost of ANY
  triple (source, destination, merged) of states.

Models whose `next_variable` reads the layer (max2sat: the depth stored in the FIRST state of the layer) cannot meet the
first, models whose `relax` adds a state-dependent correction (mcp, max2sat: `cost + Σ_v |dst_v| - |merged_v|`) or whose
transition cost depends on the state cannot meet the second (`Ddo.Examples.McpModel.noClampDom_false`,
`Ddo.Examples.Max2satModel.noClampDom_false`, `…wfRel_false`).

Here:
* `WfRelV`     = `WfRel` with every list `L` handed to `nextVar` made of valid states only (`∀ u ∈ L, V k u`);
* `NoClampRel` = `NoClampDom` with (a) the cost bound `B0` only for decisions of the domain taken from a valid state, on
  the variable chosen for a valid layer, and (b) the relaxed cost of an arc of cost within `B0` into a member `u` of a
  valid part `X` of a layer, redirected to `merge X`, within `B` (`B0 ≤ B`: an additive correction is allowed);
* `relaxed_ub_rel_valid`: the conclusion of `relaxed_ub_rel_dom` under these weaker hypotheses;
* `WfRel.toV`, `NoClampDom.toRel`: the old hypotheses imply the new ones (so the new theorem subsumes the old one). -/
set_option linter.unusedSectionVars false
set_option linter.unusedVariables false
namespace Ddo
variable {S : Type}

/-- `WfRel` with the layers handed to `nextVar` made of valid states only -/
structure WfRelV (P : Problem S) (R : Relax S) (H : Nat → S → EInt) (V : Nat → S → Prop) : Prop where
  vstep : ∀ k L x s d, P.nextVar k L = some x → (∀ u ∈ L, V k u) → s ∈ L → d ∈ P.domain x s →
      V (k + 1) (P.trans s ⟨x, d⟩)
  vstepMerge : ∀ k L x X d, P.nextVar k L = some x → (∀ u ∈ L, V k u) → X ≠ [] → (∀ u ∈ X, u ∈ L) →
      d ∈ P.domain x (R.merge X) → V (k + 1) (P.trans (R.merge X) ⟨x, d⟩)
  vmerge : ∀ k X, X ≠ [] → (∀ u ∈ X, V k u) → V k (R.merge X)
  att : ∀ k L x s h, P.nextVar k L = some x → (∀ u ∈ L, V k u) → s ∈ L → H k s = some h →
      ∃ d ∈ P.domain x s, ∃ h', H (k + 1) (P.trans s ⟨x, d⟩) = some h' ∧
        h ≤ P.cost s (P.trans s ⟨x, d⟩) ⟨x, d⟩ + h'
  attMerge : ∀ k L x X h, P.nextVar k L = some x → (∀ u ∈ L, V k u) → X ≠ [] → (∀ u ∈ X, u ∈ L) →
      H k (R.merge X) = some h →
      ∃ d ∈ P.domain x (R.merge X), ∃ h', H (k + 1) (P.trans (R.merge X) ⟨x, d⟩) = some h' ∧
        h ≤ P.cost (R.merge X) (P.trans (R.merge X) ⟨x, d⟩) ⟨x, d⟩ + h'
  term : ∀ k L s h, P.nextVar k L = none → (∀ u ∈ L, V k u) → s ∈ L → H k s = some h → h ≤ 0
  rub : ∀ k s h, V k s → H k s = some h → h ≤ R.rub s
  merge : ∀ k (X : List S) (u src : S) (d : Dec) (c h : Int), u ∈ X → (∀ w ∈ X, V k w) → H k u = some h →
      ∃ h', H k (R.merge X) = some h' ∧ c + h ≤ R.relax src u (R.merge X) d c + h'

theorem WfRel.toV {P : Problem S} {R : Relax S} {H : Nat → S → EInt} {V : Nat → S → Prop} (h : WfRel P R H V) :
    WfRelV P R H V where
  vstep := fun k L x s d hnv hL hs hd => h.vstep k L x s d hnv hs (hL s hs) hd
  vstepMerge := fun k L x X d hnv hL hne hsub hd => h.vstepMerge k L x X d hnv hne hsub (fun u hu => hL u (hsub u hu)) hd
  vmerge := h.vmerge
  att := fun k L x s h' hnv hL hs hH => h.att k L x s h' hnv hs (hL s hs) hH
  attMerge := fun k L x X h' hnv hL hne hsub hH =>
    h.attMerge k L x X h' hnv hne hsub (fun u hu => hL u (hsub u hu)) hH
  term := fun k L s h' hnv hL hs hH => h.term k L s h' hnv hs (hL s hs) hH
  rub := h.rub
  merge := h.merge

/-- no `isize` saturation on path values, relative to the valid states: transition costs within `B0`, relaxed costs within
    `B ≥ B0`, `(nbVars + 2) · B` far inside the `isize` range -/
structure NoClampRel (P : Problem S) (R : Relax S) (V : Nat → S → Prop) (rootValue B0 B : Int) : Prop where
  nonneg : 0 ≤ B0
  le : B0 ≤ B
  root : -B ≤ rootValue ∧ rootValue ≤ B
  /-- a decision of the domain, taken from a valid state `s` of layer `k`, on the variable chosen for a valid layer -/
  cost : ∀ k L x s d, P.nextVar k L = some x → (∀ u ∈ L, V k u) → V k s → d ∈ P.domain x s →
    -B0 ≤ P.cost s (P.trans s ⟨x, d⟩) ⟨x, d⟩ ∧ P.cost s (P.trans s ⟨x, d⟩) ⟨x, d⟩ ≤ B0
  /-- an arc of cost `c` (within `B0`) into the member `u` of a valid part `X` of layer `k`, redirected to `merge X` -/
  relax : ∀ k (X : List S) (u src : S) (d : Dec) (c : Int), u ∈ X → (∀ w ∈ X, V k w) → -B0 ≤ c ∧ c ≤ B0 →
    -B ≤ R.relax src u (R.merge X) d c ∧ R.relax src u (R.merge X) d c ≤ B
  small : ((P.nbVars : Int) + 2) * B ≤ 4611686018427387904

theorem NoClampDom.toRel {P : Problem S} {R : Relax S} {rv B : Int} (h : NoClampDom P R rv B) (V : Nat → S → Prop) :
    NoClampRel P R V rv B B :=
  ⟨h.nonneg, Int.le_refl _, h.root, fun _ _ x s d _ _ _ hd => h.cost x s d hd,
   fun _ X u src d c _ _ hc => h.relax src u (R.merge X) d c hc, h.small⟩

end Ddo

namespace Ddo.CoverRel
open Ddo Ddo.Cover
variable {S K : Type} [DecidableEq S] [DecidableEq K]

/-! ## expansion: the cost bound is only known for the states of the layer being expanded -/

theorem expandOne_ok' (cfg : Cfg S K) (var lidx : Nat) (acc : List (Node S) × List (Node S) × List (Call S)) (p : Nat)
    (ks : List (S × Int)) (B M : Int) (hks : acc.1.map key = ks) (hM : ∀ sv ∈ ks, Within M sv.2)
    (hcost : ∀ sv ∈ ks, ∀ d, d ∈ cfg.P.domain var sv.1 →
      Within B (cfg.P.cost sv.1 (cfg.P.trans sv.1 ⟨var, d⟩) ⟨var, d⟩))
    (hall : ∀ m ∈ acc.2.1, Cover.NodeOk ks lidx B M m) :
    ∀ m ∈ (expandOne cfg var lidx acc p).2.1, Cover.NodeOk ks lidx B M m := by
  obtain ⟨ly, nx, lg⟩ := acc
  cases h : ly[p]? with
  | none => rw [expandOne_none _ _ _ _ _ _ _ h]; exact hall
  | some n =>
    rw [expandOne_some _ _ _ _ _ _ _ n h]
    split
    · have hk : ks[p]? = some (key n) := by rw [getElem?_of_map_key ly ks hks p, h]; rfl
      have hkm : key n ∈ ks := List.mem_of_getElem? hk
      have hMn : Within M n.value := hM _ hkm
      dsimp only at hall ⊢
      refine branchAll_forall (Cover.NodeOk ks lidx B M) cfg var lidx p _ _ (nx, _) hall ?_ ?_
      · intro d hd m hm
        exact appendEdge_ok_old ks lidx p B M _ m _ _ hk hMn (hcost (key n) hkm d hd) hm
      · intro d hd
        exact appendEdge_ok_fresh ks lidx p B M _ _ _ _ hk hMn (hcost (key n) hkm d hd)
    · exact hall

theorem fold_ok' (cfg : Cfg S K) (var lidx : Nat) (cur : List Nat) (acc : List (Node S) × List (Node S) × List (Call S))
    (ks : List (S × Int)) (B M : Int) (hks : acc.1.map key = ks) (hM : ∀ sv ∈ ks, Within M sv.2)
    (hcost : ∀ sv ∈ ks, ∀ d, d ∈ cfg.P.domain var sv.1 →
      Within B (cfg.P.cost sv.1 (cfg.P.trans sv.1 ⟨var, d⟩) ⟨var, d⟩))
    (hall : ∀ m ∈ acc.2.1, Cover.NodeOk ks lidx B M m) :
    ∀ m ∈ (cur.foldl (expandOne cfg var lidx) acc).2.1, Cover.NodeOk ks lidx B M m := by
  induction cur generalizing acc with
  | nil => exact hall
  | cons y ys ih =>
    rw [List.foldl_cons]
    exact ih _ (by rw [expandOne_keys]; exact hks) (expandOne_ok' cfg var lidx acc y ks B M hks hM hcost hall)

/-! ## relaxation: upper bound of the value of the merged node -/

/-- the node at `mpos` (if any) has value ≤ `M` -/
def UpM (mpos : Nat) (M : Int) (ly : List (Node S)) : Prop := ∀ m, ly[mpos]? = some m → m.value ≤ M

theorem UpM_set {mpos : Nat} {M : Int} {ly : List (Node S)} (h : UpM mpos M ly) (p : Nat) (n' : Node S)
    (hn : p = mpos → n'.value ≤ M) : UpM mpos M (ly.set p n') := by
  intro m hm
  by_cases hp : p = mpos
  · subst hp
    have hlt : p < ly.length := by
      have := lt_of_getElem?_some hm
      rw [List.length_set] at this; exact this
    rw [List.getElem?_set_self hlt] at hm
    cases hm
    exact hn rfl
  · rw [List.getElem?_set_ne hp] at hm
    exact h m hm

theorem redirStep_upM (cfg : Cfg S K) (layers : List (List (Node S))) (merged : S) (mpos : Nat) (dropN : Node S)
    (acc : List (Node S) × List (Call S)) (e : Arc) (B M : Int)
    (hsrc : ∀ l p src c, getNode layers l p = some src → Within B c → Within M (satAdd src.value c))
    (hrc : ∀ s, Within B (cfg.R.relax s dropN.state merged e.dec e.cost))
    (h : UpM mpos M acc.1) : UpM mpos M (redirStep cfg layers merged mpos dropN acc e).1 := by
  rcases redirStep_cases cfg layers merged mpos dropN acc e with ⟨h1, _⟩ | ⟨src, m, hs, hm, h1⟩
  · rw [h1]; exact h
  · rw [h1]
    apply UpM_set h
    intro _
    rcases appendEdge_value src m ⟨e.fromL, e.fromP, e.dec, cfg.R.relax src.state dropN.state merged e.dec e.cost⟩
      with ⟨h2, _⟩ | ⟨h2, _⟩
    · rw [h2]; exact h m hm
    · rw [h2]; exact (hsrc _ _ src _ hs (hrc src.state)).2

theorem inner_upM (cfg : Cfg S K) (layers : List (List (Node S))) (merged : S) (mpos : Nat) (dropN : Node S)
    (inb : List Arc) (acc : List (Node S) × List (Call S)) (B M : Int)
    (hsrc : ∀ l p src c, getNode layers l p = some src → Within B c → Within M (satAdd src.value c))
    (hrc : ∀ e ∈ inb, ∀ s, Within B (cfg.R.relax s dropN.state merged e.dec e.cost))
    (h : UpM mpos M acc.1) : UpM mpos M (inb.foldl (redirStep cfg layers merged mpos dropN) acc).1 :=
  Cover.foldl_inv (fun b => UpM mpos M b.1) _ inb acc h
    (fun b e hmem hb => redirStep_upM cfg layers merged mpos dropN b e B M hsrc (hrc e hmem) hb)

theorem dropStep_upM (cfg : Cfg S K) (layers : List (List (Node S))) (merged : S) (mpos : Nat)
    (acc : List (Node S) × List (Call S)) (p : Nat) (B M : Int)
    (hsrc : ∀ l p src c, getNode layers l p = some src → Within B c → Within M (satAdd src.value c))
    (hp : p ≠ mpos)
    (hrc : ∀ dropN, acc.1[p]? = some dropN → ∀ e ∈ dropN.inb, ∀ s,
      Within B (cfg.R.relax s dropN.state merged e.dec e.cost))
    (h : UpM mpos M acc.1) : UpM mpos M (dropStep cfg layers merged mpos acc p).1 := by
  unfold dropStep
  cases h1 : acc.1[p]? with
  | none => exact h
  | some dropN =>
    dsimp only
    exact inner_upM cfg layers merged mpos _ dropN.inb _ B M hsrc (hrc dropN h1)
      (UpM_set h p _ (fun e => absurd e hp))

/-- the outer fold of `_relax`: the nodes dropped sit at positions `≠ mpos`, hence still are the nodes of the layer
    handed to the fold (`Ext.other`), whose arcs have relaxed costs within `B` -/
theorem outer_upM (cfg : Cfg S K) (layers : List (List (Node S))) (merged : S) (mpos : Nat)
    (rest : List Nat) (layer1 : List (Node S)) (B M : Int)
    (hsrc : ∀ l p src c, getNode layers l p = some src → Within B c → Within M (satAdd src.value c))
    (hrest : ∀ p ∈ rest, p ≠ mpos ∧ ∀ n1, layer1[p]? = some n1 → ∀ e ∈ n1.inb, ∀ s,
      Within B (cfg.R.relax s n1.state merged e.dec e.cost))
    (acc : List (Node S) × List (Call S)) (hE : Ext mpos layer1 acc.1) (h : UpM mpos M acc.1) :
    UpM mpos M (rest.foldl (dropStep cfg layers merged mpos) acc).1 := by
  induction rest generalizing acc with
  | nil => exact h
  | cons p ps ih =>
    rw [List.foldl_cons]
    obtain ⟨hpm, hp⟩ := hrest p List.mem_cons_self
    refine ih (fun q hq => hrest q (List.mem_cons_of_mem _ hq)) _ (hE.trans (dropStep_ext _ _ _ _ _ _)) ?_
    refine dropStep_upM cfg layers merged mpos acc p B M hsrc hpm ?_ h
    intro dropN hd e he s
    have ho := hE.other p hpm
    rw [hd] at ho
    cases hl : layer1[p]? with
    | none => rw [hl] at ho; cases ho
    | some n1 =>
      rw [hl] at ho
      simp only [Option.map_some, sig, Option.some.injEq, Prod.mk.injEq] at ho
      obtain ⟨hs, _, hi⟩ := ho
      rw [hs]
      exact hp n1 hl e (hi ▸ he) s

theorem markRelaxed_upM {mpos : Nat} {M : Int} {l : List (Node S)} (h : UpM mpos M l) (p : Nat) :
    UpM mpos M (markRelaxed l p) := by
  unfold markRelaxed
  cases h1 : l[p]? with
  | none => exact h
  | some n => exact UpM_set h p _ (fun e => by subst e; exact h n h1)

theorem undelete_upM {mpos : Nat} {M : Int} {l : List (Node S)} (h : UpM mpos M l) (c : List Nat) :
    UpM mpos M (undelete l c) := by
  unfold undelete
  cases c.getLast? with
  | none => exact h
  | some sp =>
    dsimp only
    cases h1 : l[sp]? with
    | none => exact h
    | some n => exact UpM_set h sp _ (fun e => by subst e; exact h n h1)

theorem relax_core_range' (cfg : Cfg S K) (layers : List (List (Node S))) (layer layer1 out : List (Node S))
    (cur : List Nat) (mpos : Nat) (lg0 : List (Call S)) (B M : Int)
    (hsrc : ∀ l p src c, getNode layers l p = some src → Within B c → Within M (satAdd src.value c))
    (hrest : ∀ p ∈ restOf cfg layer cur, p ≠ mpos ∧ ∀ n1, layer1[p]? = some n1 → ∀ e ∈ n1.inb, ∀ s,
      Within B (cfg.R.relax s n1.state (mergedOf cfg layer cur) e.dec e.cost))
    (hm1 : UpM mpos M layer1)
    (hw1 : ∀ q n1, q ≠ mpos → layer1[q]? = some n1 → Within M n1.value)
    (hout : Ext mpos ((restOf cfg layer cur).foldl (dropStep cfg layers (mergedOf cfg layer cur) mpos)
            (markRelaxed layer1 mpos, lg0)).1 out)
    (hup : UpM mpos M ((restOf cfg layer cur).foldl (dropStep cfg layers (mergedOf cfg layer cur) mpos)
            (markRelaxed layer1 mpos, lg0)).1 → UpM mpos M out)
    (hlow : LB mpos (-M) out) :
    ∀ n ∈ out, Within M n.value := by
  have E1 := markRelaxed_ext mpos layer1 mpos
  have E2 := outer_ext cfg layers (mergedOf cfg layer cur) mpos (restOf cfg layer cur) (markRelaxed layer1 mpos, lg0)
  have E : Ext mpos layer1 out := E1.trans (E2.trans hout)
  have hU : UpM mpos M out := hup (outer_upM cfg layers _ mpos _ layer1 B M hsrc hrest
    (markRelaxed layer1 mpos, lg0) E1 (markRelaxed_upM hm1 mpos))
  intro n hn
  obtain ⟨q, hq⟩ := List.mem_iff_getElem?.mp hn
  by_cases hqm : q = mpos
  · subst hqm
    refine ⟨?_, hU n hq⟩
    obtain ⟨m, hm, hv⟩ := hlow
    rw [hq] at hm; cases hm; exact hv
  · have ho := E.other q hqm
    rw [hq] at ho
    cases h1 : layer1[q]? with
    | none => rw [h1] at ho; cases ho
    | some n1 =>
      rw [h1] at ho
      simp only [Option.map_some, sig, Option.some.injEq, Prod.mk.injEq] at ho
      have := hw1 q n1 hqm h1
      rw [ho.2.1]; exact this

/-- **range part of the post-condition of `relaxLayer`**, with the bound on the relaxed costs restricted to the arcs
    (cost within `B0`) into the merged-away states of this very layer -/
theorem relaxLayer_range' (cfg : Cfg S K) (layers : List (List (Node S))) (layer : List (Node S)) (cur : List Nat)
    (log : List (Call S)) (hW : 1 ≤ cfg.width) (hlen : cur.length > cfg.width) (hcur : ∀ p ∈ cur, p < layer.length)
    (hnd : cur.Nodup) (B0 B M : Int)
    (hsrc : ∀ l p src c, getNode layers l p = some src → Within B c → Within M (satAdd src.value c))
    (hrel : ∀ s u d c, u ∈ restStatesOf cfg layer cur → Within B0 c →
      Within B (cfg.R.relax s u (mergedOf cfg layer cur) d c))
    (hM : 0 ≤ M) (hl : LayerOk layers layer cur B0 M) :
    ∀ n ∈ (relaxLayer cfg layers layer cur log).1, Within M n.value := by
  have hrestlt : ∀ p ∈ restOf cfg layer cur, p < layer.length := fun p hp => by
    unfold restOf sortSquash at hp
    exact hcur p ((mem_sortBy _ _ _).1 (List.mem_of_mem_drop hp))
  have hdisj : ∀ a ∈ keepOf cfg layer cur, ∀ b ∈ restOf cfg layer cur, a ≠ b := by
    have hs : (sortSquash cfg layer cur).Nodup := by unfold sortSquash; exact Ddo.C12.nodup_sortBy _ cur hnd
    rw [← List.take_append_drop (cfg.width - 1) (sortSquash cfg layer cur)] at hs
    exact (List.nodup_append.1 hs).2.2
  have hrc : ∀ p ∈ restOf cfg layer cur, ∀ n1, layer[p]? = some n1 → ∀ e ∈ n1.inb, ∀ s,
      Within B (cfg.R.relax s n1.state (mergedOf cfg layer cur) e.dec e.cost) := by
    intro p hp n1 hn1 e he s
    refine hrel s n1.state e.dec e.cost ?_ ((hl.rng n1 (List.mem_of_getElem? hn1)).2 e he)
    unfold restStatesOf
    exact List.mem_filterMap.mpr ⟨p, hp, by rw [hn1]; rfl⟩
  apply relaxLayer_elim cfg layers layer cur log (fun r => ∀ n ∈ r.1, Within M n.value)
  · -- fresh merged node
    intro hrec d0 lg
    dsimp only
    have h1 : ∀ q, q < layer.length →
        (layer ++ [freshMerged (mergedOf cfg layer cur) d0])[q]? = layer[q]? :=
      fun q hq => List.getElem?_append_left hq
    have hm0 : (layer ++ [freshMerged (mergedOf cfg layer cur) d0])[layer.length]? =
        some (freshMerged (mergedOf cfg layer cur) d0) := List.getElem?_concat_length
    refine relax_core_range' cfg layers layer _ _ cur layer.length lg B M hsrc ?_ ?_ ?_ (Ext.refl _ _) (fun h => h) ?_
    · intro p hp
      have hlt := hrestlt p hp
      refine ⟨by omega, fun n1 hn1 => ?_⟩
      rw [h1 p hlt] at hn1
      exact hrc p hp n1 hn1
    · intro m hm
      rw [hm0] at hm; cases hm
      simp only [freshMerged]; unfold iMin; omega
    · intro q n1 hqm hq1
      have hlt := lt_of_getElem?_some hq1
      rw [List.length_append, List.length_singleton] at hlt
      have hq' : q < layer.length := by omega
      rw [h1 q hq'] at hq1
      exact (hl.rng n1 (List.mem_of_getElem? hq1)).1
    · obtain ⟨q0, hq0, hq0c⟩ := rest_nonempty cfg layer cur hW hlen
      have hlt := hcur q0 hq0c
      have hu0 : layer[q0]? = some layer[q0] := List.getElem?_eq_getElem hlt
      obtain ⟨a, ha, src, hsrc'⟩ := hl.att q0 hq0c _ hu0
      have E1 := markRelaxed_ext layer.length (layer ++ [freshMerged (mergedOf cfg layer cur) d0]) layer.length
      obtain ⟨m1, hm1, _, _⟩ := E1.at_m _ hm0
      have hlb := outer_recv cfg layers (mergedOf cfg layer cur) layer.length (restOf cfg layer cur)
        (markRelaxed (layer ++ [freshMerged (mergedOf cfg layer cur) d0]) layer.length, lg) q0 hq0 (by omega)
        layer[q0].state layer[q0].value layer[q0].inb
        (by rw [E1.other q0 (by omega), h1 q0 hlt, hu0]; rfl) a ha src m1 hsrc' hm1
      exact LB_mono hlb (hsrc _ _ src _ hsrc' (hrc q0 hq0 _ hu0 a ha src.state)).1
  · -- recycled node
    intro mp hrec lg
    dsimp only
    have hmk : mp ∈ keepOf cfg layer cur := List.mem_of_find?_eq_some hrec
    have hmn : ∃ n, layer[mp]? = some n ∧ n.state = mergedOf cfg layer cur := by
      have := List.find?_some hrec
      cases h : layer[mp]? with
      | none => rw [h] at this; cases this
      | some n => rw [h] at this; exact ⟨n, rfl, of_decide_eq_true this⟩
    obtain ⟨n, hn, _⟩ := hmn
    refine relax_core_range' cfg layers layer layer _ cur mp lg B M hsrc ?_ ?_ ?_ (undelete_ext _ _ _)
      (fun h => undelete_upM h _) ?_
    · intro p hp
      exact ⟨fun e => hdisj mp hmk p hp e.symm, fun n1 hn1 => hrc p hp n1 hn1⟩
    · intro m hm; exact (hl.rng m (List.mem_of_getElem? hm)).1.2
    · intro q n1 _ hq1; exact (hl.rng n1 (List.mem_of_getElem? hq1)).1
    · have E : Ext mp layer _ := (markRelaxed_ext mp layer mp).trans
        ((outer_ext cfg layers (mergedOf cfg layer cur) mp (restOf cfg layer cur) (markRelaxed layer mp, lg)).trans
          (undelete_ext mp _ ((sortSquash cfg layer cur).take cfg.width)))
      obtain ⟨m', hm', _, hv'⟩ := E.at_m n hn
      exact ⟨m', hm', by have := (hl.rng n (List.mem_of_getElem? hn)).1.1; omega⟩

/-! ## the loop invariant -/

/-- the invariant of `buildLoop`: `Ddo.Cover.Inv` with the ORIGINAL transition costs of the arcs into the layer under
    construction within `B0`, the values within `Bd B` -/
structure Inv' (H : Nat → S → EInt) (V : Nat → S → Prop) (B0 B o : Int) (dd : DD S K) : Prop where
  valid : ∀ n ∈ dd.next, V dd.depth n.state
  cover : ∃ n ∈ dd.next, ∃ h, H dd.depth n.state = some h ∧ o ≤ n.value + h
  att : dd.layers ≠ [] → ∀ n ∈ dd.next, ∃ a ∈ n.inb, ∃ p, getNode dd.layers a.fromL a.fromP = some p ∧
    n.value = satAdd p.value a.cost
  arcs : ∀ n ∈ dd.next, ∀ a ∈ n.inb, Within B0 a.cost
  rngN : ∀ n ∈ dd.next, Within (Bd B dd.layers.length) n.value
  rngL : ∀ (i : Nat) ly, dd.layers[i]? = some ly → ∀ n ∈ ly, Within (Bd B i) n.value

theorem Inv'.validL {H : Nat → S → EInt} {V : Nat → S → Prop} {B0 B o : Int} {dd : DD S K} (hI : Inv' H V B0 B o dd) :
    ∀ u ∈ dd.next.map (·.state), V dd.depth u := by
  intro u hu
  obtain ⟨n, hn, rfl⟩ := List.mem_map.mp hu
  exact hI.valid n hn

theorem NoClampRel.nonnegB {P : Problem S} {R : Relax S} {V : Nat → S → Prop} {rv B0 B : Int}
    (hB : NoClampRel P R V rv B0 B) : 0 ≤ B := Int.le_trans hB.nonneg hB.le

theorem Bd_small' {P : Problem S} {R : Relax S} {V : Nat → S → Prop} {rv B0 B : Int} (hB : NoClampRel P R V rv B0 B)
    {k : Nat} (hk : k ≤ P.nbVars + 1) : Bd B k ≤ 4611686018427387904 := by
  have h1 := Bd_mono (NoClampRel.nonnegB hB) hk
  have h2 : Bd B (P.nbVars + 1) = ((P.nbVars : Int) + 2) * B := by
    unfold Bd
    have : ((P.nbVars + 1 : Nat) : Int) + 1 = (P.nbVars : Int) + 2 := by omega
    rw [this]
  have := hB.small
  omega

theorem expand_inv' (cfg : Cfg S K) (H : Nat → S → EInt) (V : Nat → S → Prop) (B0 B o : Int) (dd dd' : DD S K)
    (var : Nat) (layer' : List (Node S)) (cur' : List Nat) (lg : List (Call S))
    (hR : ∀ k s h, V k s → H k s = some h → h ≤ cfg.R.rub s) (hB : NoClampRel cfg.P cfg.R V cfg.root.value B0 B)
    (hclamp : ∀ x, o ≤ x → clamp x > cfg.lb)
    (hlen : dd.layers.length ≤ cfg.P.nbVars)
    (hnv : cfg.P.nextVar dd.depth (dd.next.map (·.state)) = some var)
    (hI : Inv' H V B0 B o dd) (hsq : SqPost cfg H V B o dd var layer' cur')
    (hval : ∀ n ∈ layer', V dd.depth n.state)
    (hl : dd'.layers = dd.layers ++ [(expandAll cfg var dd.layers.length layer' cur' lg).1])
    (hn : dd'.next = (expandAll cfg var dd.layers.length layer' cur' lg).2.1)
    (hd : dd'.depth = dd.depth + 1) : Inv' H V B0 B o dd' := by
  unfold expandAll at hl hn
  have hkeys : (cur'.foldl (expandOne cfg var dd.layers.length) (layer', [], lg)).1.map key = layer'.map key :=
    fold_keys cfg var dd.layers.length cur' (layer', [], lg)
  have hcost : ∀ sv ∈ layer'.map key, ∀ d, d ∈ cfg.P.domain var sv.1 →
      Within B0 (cfg.P.cost sv.1 (cfg.P.trans sv.1 ⟨var, d⟩) ⟨var, d⟩) := by
    intro sv hsv d hdm
    obtain ⟨n, hn, rfl⟩ := List.mem_map.mp hsv
    exact hB.cost dd.depth _ var n.state d hnv hI.validL (hval n hn) hdm
  have hok : ∀ m ∈ (cur'.foldl (expandOne cfg var dd.layers.length) (layer', [], lg)).2.1,
      Cover.NodeOk (layer'.map key) dd.layers.length B0 (Bd B dd.layers.length) m := by
    refine fold_ok' cfg var dd.layers.length cur' (layer', [], lg) (layer'.map key) B0 (Bd B dd.layers.length) rfl ?_ hcost ?_
    · intro sv hsv
      obtain ⟨n, hn, rfl⟩ := List.mem_map.mp hsv
      exact hsq.rng n hn
    · intro m hm; cases hm
  have hlen' : dd'.layers.length = dd.layers.length + 1 := by rw [hl, List.length_append, List.length_singleton]
  have hsmall : Bd B dd.layers.length + B ≤ 4611686018427387904 := by
    rw [← Bd_succ]; exact Bd_small' hB (by omega)
  have hle := hB.le
  refine ⟨?_, ?_, ?_, ?_, ?_, ?_⟩
  · intro m hm
    rw [hn] at hm
    rw [hd]
    refine fold_states (V (dd.depth + 1)) cfg var dd.layers.length cur' (layer', [], lg) (layer'.map key) rfl ?_
      (fun m hm => by cases hm) m hm
    intro p hp sv hsv d hdm
    rw [List.getElem?_map] at hsv
    cases hlp : layer'[p]? with
    | none => rw [hlp] at hsv; cases hsv
    | some n0 =>
      rw [hlp] at hsv
      simp only [Option.map_some, Option.some.injEq] at hsv
      subst hsv
      exact hsq.kids p hp n0 hlp d hdm
  · obtain ⟨q, hq, n, hnq, hVn, h, hH, hle', hatt⟩ := hsq.wit
    obtain ⟨d, hdm, h', hH', hle''⟩ := hatt h hH
    have hrub : satAdd (cfg.R.rub n.state) n.value > cfg.lb := by
      unfold satAdd; apply hclamp
      have := hR _ _ _ hVn hH; omega
    obtain ⟨m, hm, hms, hmv⟩ := fold_has_new cfg var dd.layers.length cur' (layer', [], lg) q hq n.state n.value
      (by rw [List.getElem?_map, hnq]; rfl) hrub d hdm
    have hw := hsq.rng n (List.mem_of_getElem? hnq)
    have hc : Within B0 (cfg.P.cost n.state (cfg.P.trans n.state ⟨var, d⟩) ⟨var, d⟩) :=
      hcost (key n) (List.mem_map_of_mem (List.mem_of_getElem? hnq)) d hdm
    have hsa : satAdd n.value (cfg.P.cost n.state (cfg.P.trans n.state ⟨var, d⟩) ⟨var, d⟩) =
        n.value + cfg.P.cost n.state (cfg.P.trans n.state ⟨var, d⟩) ⟨var, d⟩ := by
      apply satAdd_eq <;> (unfold Within at hw hc; simp only [iMin, iMax]; omega)
    refine ⟨m, by rw [hn]; exact hm, h', by rw [hd, hms]; exact hH', ?_⟩
    omega
  · intro _ m hm
    rw [hn] at hm
    obtain ⟨a, ha, hal, sv, hsv, hv⟩ := (hok m hm).att
    rw [← hkeys, List.getElem?_map] at hsv
    cases hp : (cur'.foldl (expandOne cfg var dd.layers.length) (layer', [], lg)).1[a.fromP]? with
    | none => rw [hp] at hsv; cases hsv
    | some p =>
      rw [hp] at hsv
      simp only [Option.map_some, Option.some.injEq] at hsv
      refine ⟨a, ha, p, ?_, ?_⟩
      · rw [hl, hal, getNode_last]; exact hp
      · rw [hv, ← hsv]; rfl
  · intro m hm a ha
    rw [hn] at hm
    exact (hok m hm).arc a ha
  · intro m hm
    rw [hn] at hm
    rw [hlen', Bd_succ]
    exact (hok m hm).rng.mono (by omega)
  · intro i ly hi m hm
    rw [hl] at hi
    by_cases hlt : i < dd.layers.length
    · rw [List.getElem?_append_left hlt] at hi
      exact hI.rngL i ly hi m hm
    · have hi' := lt_of_getElem?_some hi
      rw [List.length_append, List.length_singleton] at hi'
      have : i = dd.layers.length := by omega
      subst this
      rw [List.getElem?_concat_length] at hi
      cases hi
      have : key m ∈ layer'.map key := by rw [← hkeys]; exact List.mem_map_of_mem hm
      obtain ⟨n0, hn0, hk0⟩ := List.mem_map.mp this
      have hv : n0.value = m.value := congrArg Prod.snd hk0
      rw [← hv]
      exact hsq.rng n0 hn0

theorem src_of_inv (cfg : Cfg S K) (H : Nat → S → EInt) (V : Nat → S → Prop) (B0 B o : Int) (dd : DD S K)
    (hB : 0 ≤ B) (hI : Inv' H V B0 B o dd) :
    ∀ l p src c, getNode dd.layers l p = some src → Within B c → Within (Bd B dd.layers.length) (satAdd src.value c) := by
  intro l p src c hsrc hc
  obtain ⟨ly, hly, hp⟩ := Cover.getNode_lt hsrc
  have hw := hI.rngL l ly hly src (List.mem_of_getElem? hp)
  have hl := lt_of_getElem?_some hly
  have := within_satAdd hw hc
  rw [← Bd_succ] at this
  exact this.mono (Bd_mono hB (by omega))

theorem sqpost_id' (cfg : Cfg S K) (H : Nat → S → EInt) (V : Nat → S → Prop) (B0 B o : Int) (dd : DD S K) (var : Nat)
    (hwf : WfRelV cfg.P cfg.R H V) (hnv : cfg.P.nextVar dd.depth (dd.next.map (·.state)) = some var)
    (hI : Inv' H V B0 B o dd) :
    SqPost cfg H V B o dd var dd.next (List.range dd.next.length) ∧ ∀ n ∈ dd.next, V dd.depth n.state := by
  refine ⟨⟨?_, ?_, hI.rngN⟩, hI.valid⟩
  · obtain ⟨n, hn, h, hH, hle⟩ := hI.cover
    obtain ⟨q, hq⟩ := List.mem_iff_getElem?.mp hn
    refine ⟨q, mem_of_getElem?_range hq, n, hq, hI.valid n hn, h, hH, hle, ?_⟩
    intro h1 hH1
    exact hwf.att dd.depth _ var n.state h1 hnv hI.validL (List.mem_map_of_mem hn) hH1
  · intro q _ n hq d hd
    have hn := List.mem_of_getElem? hq
    exact hwf.vstep dd.depth _ var n.state d hnv hI.validL (List.mem_map_of_mem hn) hd

theorem sqpost_relax' (cfg : Cfg S K) (H : Nat → S → EInt) (V : Nat → S → Prop) (B0 B o : Int) (dd : DD S K) (var : Nat)
    (lg : List (Call S)) (hwf : WfRelV cfg.P cfg.R H V)
    (hB : NoClampRel cfg.P cfg.R V cfg.root.value B0 B) (hW : 1 ≤ cfg.width)
    (hnv : cfg.P.nextVar dd.depth (dd.next.map (·.state)) = some var)
    (hlen : dd.layers.length ≤ cfg.P.nbVars)
    (hc1 : (List.range dd.next.length).length > cfg.width) (hc2 : dd.layers.length > 1)
    (hI : Inv' H V B0 B o dd) :
    SqPost cfg H V B o dd var (relaxLayer cfg dd.layers dd.next (List.range dd.next.length) lg).1
      (relaxLayer cfg dd.layers dd.next (List.range dd.next.length) lg).2.1 ∧
    ∀ n ∈ (relaxLayer cfg dd.layers dd.next (List.range dd.next.length) lg).1, V dd.depth n.state := by
  have hne : dd.layers ≠ [] := by intro h; rw [h] at hc2; simp at hc2
  have hcur : ∀ p ∈ List.range dd.next.length, p < dd.next.length := fun p hp => List.mem_range.mp hp
  have hpost := relaxLayer_spec cfg dd.layers dd.next (List.range dd.next.length) lg hW hc1 hcur
  have hB' : 0 ≤ B := NoClampRel.nonnegB hB
  have hsrc := src_of_inv cfg H V B0 B o dd hB' hI
  -- the merged-away states: a non-empty part of the layer, all valid
  have hXne := restStates_ne_nil cfg dd.next (List.range dd.next.length) hW hc1 hcur
  have hXsub : ∀ x ∈ restStatesOf cfg dd.next (List.range dd.next.length), x ∈ dd.next.map (·.state) := by
    intro x hx
    obtain ⟨n0, hn0, rfl⟩ := restStates_sub cfg dd.next _ x hx
    exact List.mem_map_of_mem hn0
  have hXV : ∀ x ∈ restStatesOf cfg dd.next (List.range dd.next.length), V dd.depth x := by
    intro x hx
    obtain ⟨n0, hn0, rfl⟩ := restStates_sub cfg dd.next _ x hx
    exact hI.valid n0 hn0
  have hVm : V dd.depth (mergedOf cfg dd.next (List.range dd.next.length)) := hwf.vmerge dd.depth _ hXne hXV
  have hrel : ∀ s u d c, u ∈ restStatesOf cfg dd.next (List.range dd.next.length) → Within B0 c →
      Within B (cfg.R.relax s u (mergedOf cfg dd.next (List.range dd.next.length)) d c) :=
    fun s u d c hu hc => hB.relax dd.depth _ u s d c hu hXV hc
  refine ⟨⟨?_, ?_, ?_⟩, ?_⟩
  · obtain ⟨u, hu, h, hH, hle⟩ := hI.cover
    obtain ⟨q, hq⟩ := List.mem_iff_getElem?.mp hu
    obtain ⟨q', hq', n', hn', hT⟩ := hpost.transfer q (mem_of_getElem?_range hq) u hq
    refine ⟨q', hq', n', hn', ?_⟩
    rcases hT with ⟨hs, hv⟩ | ⟨hX, hs, harc⟩
    · refine ⟨by rw [hs]; exact hI.valid u hu, h, by rw [hs]; exact hH, by omega, ?_⟩
      intro h1 hH1
      rw [hs] at hH1 ⊢
      exact hwf.att dd.depth _ var u.state h1 hnv hI.validL (List.mem_map_of_mem hu) hH1
    · obtain ⟨a, ha, p, hp, hv⟩ := hI.att hne u hu
      obtain ⟨h', hH', hle'⟩ := hwf.merge dd.depth (restStatesOf cfg dd.next (List.range dd.next.length)) u.state p.state
        a.dec a.cost h hX hXV hH
      have hge := harc a ha p hp
      have hac : Within B0 a.cost := hI.arcs u hu a ha
      have hrc := hrel p.state u.state a.dec a.cost hX hac
      have hsmall : Bd B dd.layers.length ≤ 4611686018427387904 := Bd_small' hB (by omega)
      obtain ⟨ly, hly, hpl⟩ := Cover.getNode_lt hp
      have hw := hI.rngL _ ly hly p (List.mem_of_getElem? hpl)
      have hl := lt_of_getElem?_some hly
      have hbd : Bd B a.fromL + B ≤ Bd B dd.layers.length := by
        rw [← Bd_succ]; exact Bd_mono hB' (by omega)
      have hle0 := hB.le
      have e1 : satAdd p.value a.cost = p.value + a.cost := by
        apply satAdd_eq <;> (unfold Within at hw hac; simp only [iMin, iMax]; omega)
      have e2 : satAdd p.value (cfg.R.relax p.state u.state (mergedOf cfg dd.next (List.range dd.next.length)) a.dec a.cost)
          = p.value + cfg.R.relax p.state u.state (mergedOf cfg dd.next (List.range dd.next.length)) a.dec a.cost := by
        apply satAdd_eq <;> (unfold Within at hw hrc; simp only [iMin, iMax]; omega)
      have hH'' : H dd.depth n'.state = some h' := by rw [hs]; exact hH'
      refine ⟨by rw [hs]; exact hVm, h', hH'', ?_, ?_⟩
      · rw [e2] at hge; rw [e1] at hv
        unfold mergedOf at hge
        omega
      · intro h1' hH1
        rw [hs] at hH1 ⊢
        exact hwf.attMerge dd.depth (dd.next.map (·.state)) var _ h1' hnv hI.validL hXne hXsub hH1
  · intro q' _ n' hn' d hd
    rcases relaxLayer_states cfg dd.layers dd.next (List.range dd.next.length) lg q' n' hn' with ⟨n0, hn0, hs⟩ | hs
    · rw [hs] at hd ⊢
      exact hwf.vstep dd.depth _ var n0.state d hnv hI.validL (List.mem_map_of_mem hn0) hd
    · rw [hs] at hd ⊢
      exact hwf.vstepMerge dd.depth (dd.next.map (·.state)) var _ d hnv hI.validL hXne hXsub hd
  · exact relaxLayer_range' cfg dd.layers dd.next (List.range dd.next.length) lg hW hc1 hcur List.nodup_range
      B0 B (Bd B dd.layers.length) hsrc hrel (Bd_nonneg hB' _)
      ⟨fun n hn => ⟨hI.rngN n hn, hI.arcs n hn⟩, fun q _ u hu => by
        obtain ⟨a, ha, p, hp, _⟩ := hI.att hne u (List.mem_of_getElem? hu)
        exact ⟨a, ha, p, hp⟩⟩
  · intro n' hn'
    obtain ⟨q', hq'⟩ := List.mem_iff_getElem?.mp hn'
    rcases relaxLayer_states cfg dd.layers dd.next (List.range dd.next.length) lg q' n' hq' with ⟨n0, hn0, hs⟩ | hs
    · rw [hs]; exact hI.valid n0 hn0
    · rw [hs]; exact hVm

/-- the hypotheses of `relaxed_ub_rel_valid` that the loop needs -/
structure Hyp' (cfg : Cfg S K) (H : Nat → S → EInt) (V : Nat → S → Prop) (B0 B o : Int) : Prop where
  rel : cfg.ctype = .relaxed
  cache : cfg.useCache = false
  dom : cfg.dom = none
  W : 1 ≤ cfg.width
  wf : WfRelV cfg.P cfg.R H V
  B : NoClampRel cfg.P cfg.R V cfg.root.value B0 B
  clamp : ∀ x, o ≤ x → clamp x > cfg.lb

theorem stepLayer_inv' (cfg : Cfg S K) (H : Nat → S → EInt) (V : Nat → S → Prop) (B0 B o : Int)
    (hy : Hyp' cfg H V B0 B o) (dd : DD S K) (var : Nat)
    (hnv : cfg.P.nextVar dd.depth (dd.next.map (·.state)) = some var)
    (hlen : dd.layers.length ≤ cfg.P.nbVars) (hI : Inv' H V B0 B o dd) :
    ∃ dd', stepLayer cfg dd var = (some dd', .ok) ∧ Inv' H V B0 B o dd' ∧
      dd'.layers.length = dd.layers.length + 1 := by
  have hne : dd.next ≠ [] := by
    obtain ⟨n, hn, _⟩ := hI.cover
    exact List.ne_nil_of_mem hn
  have key : ∃ sq, squash cfg dd dd.next (List.range dd.next.length) = some sq ∧
      SqPost cfg H V B o dd var sq.1 sq.2.1 ∧ ∀ n ∈ sq.1, V dd.depth n.state := by
    apply squash_elim cfg dd dd.next (List.range dd.next.length) hy.rel hy.W
      (fun r => ∃ sq, r = some sq ∧ SqPost cfg H V B o dd var sq.1 sq.2.1 ∧ ∀ n ∈ sq.1, V dd.depth n.state)
    · intro c1 c2 lel
      exact ⟨_, rfl, sqpost_relax' cfg H V B0 B o dd var dd.log hy.wf hy.B hy.W hnv hlen c1 c2 hI⟩
    · intro lel
      exact ⟨_, rfl, sqpost_id' cfg H V B0 B o dd var hy.wf hnv hI⟩
  obtain ⟨sq, hsq, hpost, hval⟩ := key
  obtain ⟨dd', hst, hl, hn, hd⟩ := stepLayer_ok cfg dd var hne hy.cache hy.dom sq hsq
  refine ⟨dd', hst, expand_inv' cfg H V B0 B o dd dd' var sq.1 sq.2.1 sq.2.2.1 hy.wf.rub hy.B hy.clamp hlen hnv hI
    hpost hval hl hn hd, ?_⟩
  rw [hl, List.length_append, List.length_singleton]

theorem stepLayer_some' (cfg : Cfg S K) (dd : DD S K) (var : Nat)
    (hrel : cfg.ctype = .relaxed) (hcache : cfg.useCache = false) (hdom : cfg.dom = none) (hW : 1 ≤ cfg.width)
    (hne : dd.next ≠ []) : ∃ dd', stepLayer cfg dd var = (some dd', .ok) := by
  have key : ∃ sq, squash cfg dd dd.next (List.range dd.next.length) = some sq := by
    apply squash_elim cfg dd dd.next (List.range dd.next.length) hrel hW (fun r => ∃ sq, r = some sq)
    · intro _ _ lel; exact ⟨_, rfl⟩
    · intro lel; exact ⟨_, rfl⟩
  obtain ⟨sq, hsq⟩ := key
  obtain ⟨dd', hst, _⟩ := stepLayer_ok cfg dd var hne hcache hdom sq hsq
  exact ⟨dd', hst⟩

/-- `Inv'` does not depend on the log / poll counter -/
theorem Inv'.congr {H : Nat → S → EInt} {V : Nat → S → Prop} {B0 B o : Int} {dd dd' : DD S K} (h : Inv' H V B0 B o dd)
    (h1 : dd'.layers = dd.layers) (h2 : dd'.next = dd.next) (h3 : dd'.depth = dd.depth) : Inv' H V B0 B o dd' := by
  obtain ⟨v, a, b, c, d, e⟩ := h
  constructor
  · rw [h2, h3]; exact v
  · rw [h2, h3]; exact a
  · rw [h1, h2]; exact b
  · rw [h2]; exact c
  · rw [h1, h2]; exact d
  · rw [h1]; exact e

theorem buildLoop_cover' (cfg : Cfg S K) (H : Nat → S → EInt) (V : Nat → S → Prop) (B0 B o : Int)
    (hy : Hyp' cfg H V B0 B o) :
    ∀ (fuel : Nat) (dd : DD S K), Inv' H V B0 B o dd → dd.layers.length + fuel ≤ cfg.P.nbVars + 2 →
      (buildLoop cfg none fuel dd).2 = .ok →
      ∃ n ∈ (buildLoop cfg none fuel dd).1.next, o ≤ n.value := by
  intro fuel
  induction fuel with
  | zero => intro dd _ _ h; simp [buildLoop] at h
  | succ fuel ih =>
    intro dd hI hlen hok
    cases hnv : cfg.P.nextVar dd.depth (dd.next.map (·.state)) with
    | none =>
      rw [(buildLoop_none cfg fuel dd hnv).2]
      obtain ⟨n, hn, h, hH, hle⟩ := hI.cover
      have := hy.wf.term dd.depth _ n.state h hnv hI.validL (List.mem_map_of_mem hn) hH
      exact ⟨n, hn, by omega⟩
    | some var =>
      obtain ⟨dd1, h1, h2, h3, hstep⟩ := buildLoop_some cfg fuel dd var hnv
      have hI1 : Inv' H V B0 B o dd1 := hI.congr h1 h2 h3
      cases fuel with
      | zero =>
        -- the last unit of fuel cannot be spent on a successful layer: the next call crashes
        exfalso
        have hne : dd1.next ≠ [] := by
          obtain ⟨n, hn, _⟩ := hI1.cover
          exact List.ne_nil_of_mem hn
        obtain ⟨dd', hst⟩ := stepLayer_some' cfg dd1 var hy.rel hy.cache hy.dom hy.W hne
        rw [hstep dd' hst] at hok
        simp [buildLoop] at hok
      | succ fuel' =>
        obtain ⟨dd', hst, hI', hl'⟩ := stepLayer_inv' cfg H V B0 B o hy dd1 var (by rw [h2, h3]; exact hnv)
          (by rw [h1]; omega) hI1
        rw [hstep dd' hst] at hok ⊢
        exact ih dd' hI' (by rw [hl', h1]; omega) hok

theorem init_inv' (cfg : Cfg S K) (H : Nat → S → EInt) (V : Nat → S → Prop) (B0 B o : Int) (cache : Cache S)
    (store : DomStore S K) (polls : Nat) (hV : V cfg.root.depth cfg.root.state)
    (hB : NoClampRel cfg.P cfg.R V cfg.root.value B0 B) (ho : optOf H cfg.root = some o) :
    Inv' H V B0 B o (initDD cfg cache store polls) := by
  unfold optOf EInt.addI at ho
  cases hH : H cfg.root.depth cfg.root.state with
  | none => rw [hH] at ho; cases ho
  | some h0 =>
    rw [hH] at ho
    simp only [Option.map_some, Option.some.injEq] at ho
    constructor
    · intro n hn
      simp only [initDD, List.mem_cons, List.not_mem_nil, or_false] at hn
      subst hn
      exact hV
    · refine ⟨_, List.mem_cons_self, h0, hH, ?_⟩
      show o ≤ cfg.root.value + h0
      omega
    · intro h; exact absurd rfl h
    · intro n hn a ha
      simp only [initDD, List.mem_cons, List.not_mem_nil, or_false] at hn
      subst hn; cases ha
    · intro n hn
      simp only [initDD, List.mem_cons, List.not_mem_nil, or_false] at hn
      subst hn
      have := hB.root
      simp only [initDD, List.length_nil, Bd, Within]
      omega
    · intro i ly hi
      simp [initDD] at hi

/-- **`relaxed_ub_rel_dom` relative to valid layers**: same conclusion, hypotheses `WfRelV` / `NoClampRel`. -/
theorem relaxed_ub_rel_valid
    (cfg : Cfg S K) (H : Nat → S → EInt) (V : Nat → S → Prop) (B0 B : Int)
    (cache : Cache S) (store : DomStore S K) (polls : Nat)
    (hrel : cfg.ctype = .relaxed) (hcache : cfg.useCache = false) (hdom : cfg.dom = none) (hW : 1 ≤ cfg.width)
    (hwf : WfRelV cfg.P cfg.R H V) (hV : V cfg.root.depth cfg.root.state)
    (hB : NoClampRel cfg.P cfg.R V cfg.root.value B0 B) (hlb : InI cfg.lb)
    (o : Int) (ho : optOf H cfg.root = some o) (hgt : o > cfg.lb)
    (hO : o ≤ iMax ∨ cfg.lb < iMax) :
    (compile cfg cache store polls none).1 = .ok →
    ∃ bv, (compile cfg cache store polls none).2.1.bestValue = some bv ∧ o ≤ bv := by
  intro hok
  have hclamp : ∀ x, o ≤ x → clamp x > cfg.lb := by
    intro x hx
    unfold InI at hlb
    unfold clamp
    simp only [iMin, iMax] at *
    omega
  have hy : Hyp' cfg H V B0 B o := ⟨hrel, hcache, hdom, hW, hwf, hB, hclamp⟩
  obtain ⟨hbl, hbv⟩ := Cover.compile_ok cfg cache store polls hok
  obtain ⟨n, hn, hle⟩ := buildLoop_cover' cfg H V B0 B o hy (cfg.P.nbVars + 2) (initDD cfg cache store polls)
    (init_inv' cfg H V B0 B o cache store polls hV hB ho) (by simp [initDD]) hbl
  have hne : (buildLoop cfg none (cfg.P.nbVars + 2) (initDD cfg cache store polls)).1.next ≠ [] :=
    List.ne_nil_of_mem hn
  obtain ⟨bv, h1, h2⟩ := maxValue_ge _ n hn
  refine ⟨bv, ?_, by omega⟩
  rw [hbv]
  unfold Built.bestValue
  rw [terminals_finalize _ hne]
  exact h1

end Ddo.CoverRel

section Axioms
#print axioms Ddo.CoverRel.relaxed_ub_rel_valid
end Axioms
