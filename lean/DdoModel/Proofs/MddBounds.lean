import DdoModel.Proofs.MddCover
import DdoModel.Proofs.MddCutset
/-! Helper lemmas for C08 (iii) / (iv): validity of the upper bounds of the cut-set sub-problems and coverage by the
    cut-set, for a relaxed compilation in isolation (no cache, no dominance).  Theorems: `DdoModel/Props/C08b.lean`.
    Builds on `MddCover` (`Ddo.Cover`: `relaxLayer` / `expandAll` analysis, ranges) and `MddExact` / `MddCutset`
    (exactness, `XEq`, `CutWF`).

Structure:

* **top-down build** — `BInv cfg H B t Live dd`, the loop invariant (`stepLayer_binv`, `buildLoop_binv`, `init_binv`,
  any `stopAt`).  `Live l p` is a ghost predicate "position `p` of layer `l` was expanded" (existentially quantified
  along the loop).  Its core is the one-step fact `StepTo`: an expanded node whose potential `value + H` reaches the
  threshold `t` has, in the next layer, an expanded node holding an inbound **arc** from it along which no potential
  is lost (`h ≤ cost + h'`, `value + cost ≤ value'`).  After a merge the arc is the redirected one, with the relaxed
  cost (`MergeOk`); `AttMerge` serves the merged node.  For this, `relaxLayer` and `expandAll` are re-analysed with
  the arcs (`HasA`, `InbSub`, `HasArc`, `TransferA`, `relaxLayer_specA`, `relaxLayer_forall`).  `BInv` also records:
  value / cost ranges, the source of every arc is live, live nodes carry `rub = R.rub state`, no `cutset` flag is
  raised, the layers `≤ lel` are entirely live, the root.
* **paths** — `Path LS H k0 B l p h r`: a potential-preserving path of `r` arcs from `(l, p)` to the terminal layer;
  `path_of_live`: every live node whose potential reaches `t` starts one (downward induction with `Potential.term`);
  `Path.terminal` (⇒ best value), `Path.descend` (⇒ LEL coverage), `Path.frontier` (⇒ frontier coverage),
  `BInv.cover` (⇒ the layer under construction is never empty when the root beats `t`).
* **bottom-up passes** — `computeLocalBounds` in pull form (`computeLocalBounds_good`: the origin of a path is
  `marked` and `vbot ≥ h`; three nested `foldl_reach`); `TEq`: `computeThresholds` only writes `theta`;
  `computeCutset_frontier_mem` / `computeCutset_lel_mem`: which positions the cut-set contains (forward direction).
* **finalize** — `Fin.node_bounds`, `Fin.cutset_ub` ((iii)), `Fin.cut_handed`, `Fin.cutset_cover` ((iv)); `compile_done`;
  `compile_lbmax_cutset` (degenerate incumbent `lb = isize::MAX`: empty cut-set). -/
set_option linter.unusedSectionVars false
set_option linter.unusedVariables false
namespace Ddo.Bounds
open Ddo
variable {S K : Type} [DecidableEq S] [DecidableEq K]

/-! ## `branchOn` / `expandAll`: the child receives the arc -/

/-- a node with state `st`, value ≥ `x`, holding the inbound arc `a` -/
def HasA (nx : List (Node S)) (st : S) (x : Int) (a : Arc) : Prop :=
  ∃ m ∈ nx, m.state = st ∧ x ≤ m.value ∧ a ∈ m.inb

theorem go_hasA_new (parent : Node S) (dst : S) (c : Int) (a : Arc) (nx : List (Node S)) :
    HasA (branchOn.go parent dst c a nx) dst (satAdd parent.value a.cost) a := by
  induction nx with
  | nil =>
    rw [Cover.go_nil]
    exact ⟨_, List.mem_cons_self, by rw [Cover.appendEdge_state]; rfl, Cover.appendEdge_ge_new _ _ _,
      by rw [Cover.appendEdge_inb]; exact List.mem_cons_self⟩
  | cons n r ih =>
    rw [Cover.go_cons]
    split
    · next h => exact ⟨_, List.mem_cons_self, by rw [Cover.appendEdge_state]; exact h, Cover.appendEdge_ge_new _ _ _,
        by rw [Cover.appendEdge_inb]; exact List.mem_cons_self⟩
    · obtain ⟨m, hm, h1, h2, h3⟩ := ih
      exact ⟨m, List.mem_cons_of_mem _ hm, h1, h2, h3⟩

theorem go_hasA_mono (parent : Node S) (dst : S) (c : Int) (a : Arc) (nx : List (Node S))
    (st : S) (x : Int) (a0 : Arc) (h : HasA nx st x a0) : HasA (branchOn.go parent dst c a nx) st x a0 := by
  induction nx with
  | nil => obtain ⟨n, hn, _⟩ := h; cases hn
  | cons n r ih =>
    obtain ⟨m, hm, h1, h2, h3⟩ := h
    rw [Cover.go_cons]
    split
    · cases hm with
      | head => exact ⟨_, List.mem_cons_self, by rw [Cover.appendEdge_state]; exact h1,
          Int.le_trans h2 (Cover.appendEdge_ge_old _ _ _), by rw [Cover.appendEdge_inb]; exact List.mem_cons_of_mem _ h3⟩
      | tail _ hm' => exact ⟨m, List.mem_cons_of_mem _ hm', h1, h2, h3⟩
    · cases hm with
      | head => exact ⟨_, List.mem_cons_self, h1, h2, h3⟩
      | tail _ hm' =>
        obtain ⟨m', hm'', h1', h2', h3'⟩ := ih ⟨m, hm', h1, h2, h3⟩
        exact ⟨m', List.mem_cons_of_mem _ hm'', h1', h2', h3'⟩

theorem branchAll_hasA_mono (cfg : Cfg S K) (var lidx p : Nat) (n' : Node S) (ds : List Int)
    (acc : List (Node S) × List (Call S)) (st : S) (x : Int) (a0 : Arc) (h : HasA acc.1 st x a0) :
    HasA (Cover.branchAll cfg var lidx p n' ds acc).1 st x a0 := by
  induction ds generalizing acc with
  | nil => exact h
  | cons d ds ih =>
    obtain ⟨nx, lg⟩ := acc
    rw [Cover.branchAll_cons]
    apply ih
    rw [Cover.branchOn_eq]
    exact go_hasA_mono _ _ _ _ _ _ _ _ h

theorem branchAll_hasA_new (cfg : Cfg S K) (var lidx p : Nat) (n' : Node S) (ds : List Int)
    (acc : List (Node S) × List (Call S)) (d : Int) (hd : d ∈ ds) :
    HasA (Cover.branchAll cfg var lidx p n' ds acc).1 (cfg.P.trans n'.state ⟨var, d⟩)
      (satAdd n'.value (cfg.P.cost n'.state (cfg.P.trans n'.state ⟨var, d⟩) ⟨var, d⟩))
      (Cover.arcOf cfg var lidx p n' d) := by
  induction ds generalizing acc with
  | nil => cases hd
  | cons e ds ih =>
    obtain ⟨nx, lg⟩ := acc
    rw [Cover.branchAll_cons]
    rcases List.mem_cons.mp hd with rfl | hd
    · apply branchAll_hasA_mono
      rw [Cover.branchOn_eq]
      exact go_hasA_new _ _ _ _ _
    · exact ih _ hd

theorem expandOne_hasA_mono (cfg : Cfg S K) (var lidx : Nat) (acc : List (Node S) × List (Node S) × List (Call S)) (p : Nat)
    (st : S) (x : Int) (a0 : Arc) (hh : HasA acc.2.1 st x a0) : HasA (expandOne cfg var lidx acc p).2.1 st x a0 := by
  obtain ⟨ly, nx, lg⟩ := acc
  cases h : ly[p]? with
  | none => rw [Cover.expandOne_none _ _ _ _ _ _ _ h]; exact hh
  | some n =>
    rw [Cover.expandOne_some _ _ _ _ _ _ _ n h]
    split
    · exact branchAll_hasA_mono _ _ _ _ _ _ _ _ _ _ hh
    · exact hh

theorem expandOne_hasA_new (cfg : Cfg S K) (var lidx : Nat) (acc : List (Node S) × List (Node S) × List (Call S)) (p : Nat)
    (n : Node S) (h : acc.1[p]? = some n) (hrub : satAdd (cfg.R.rub n.state) n.value > cfg.lb)
    (d : Int) (hd : d ∈ cfg.P.domain var n.state) :
    HasA (expandOne cfg var lidx acc p).2.1 (cfg.P.trans n.state ⟨var, d⟩)
      (satAdd n.value (cfg.P.cost n.state (cfg.P.trans n.state ⟨var, d⟩) ⟨var, d⟩))
      ⟨lidx, p, ⟨var, d⟩, cfg.P.cost n.state (cfg.P.trans n.state ⟨var, d⟩) ⟨var, d⟩⟩ := by
  obtain ⟨ly, nx, lg⟩ := acc
  rw [Cover.expandOne_some _ _ _ _ _ _ _ n h, if_pos hrub]
  exact branchAll_hasA_new cfg var lidx p { n with rub := cfg.R.rub n.state } _ _ d hd

theorem fold_hasA_mono (cfg : Cfg S K) (var lidx : Nat) (cur : List Nat) (acc : List (Node S) × List (Node S) × List (Call S))
    (st : S) (x : Int) (a0 : Arc) (hh : HasA acc.2.1 st x a0) : HasA (cur.foldl (expandOne cfg var lidx) acc).2.1 st x a0 := by
  induction cur generalizing acc with
  | nil => exact hh
  | cons y ys ih => rw [List.foldl_cons]; exact ih _ (expandOne_hasA_mono _ _ _ _ _ _ _ _ hh)

theorem fold_hasA_new (cfg : Cfg S K) (var lidx : Nat) (cur : List Nat) (acc : List (Node S) × List (Node S) × List (Call S))
    (q : Nat) (hq : q ∈ cur) (s : S) (v : Int) (hk : (acc.1.map Cover.key)[q]? = some (s, v))
    (hrub : satAdd (cfg.R.rub s) v > cfg.lb) (d : Int) (hd : d ∈ cfg.P.domain var s) :
    HasA (cur.foldl (expandOne cfg var lidx) acc).2.1 (cfg.P.trans s ⟨var, d⟩)
      (satAdd v (cfg.P.cost s (cfg.P.trans s ⟨var, d⟩) ⟨var, d⟩))
      ⟨lidx, q, ⟨var, d⟩, cfg.P.cost s (cfg.P.trans s ⟨var, d⟩) ⟨var, d⟩⟩ := by
  induction cur generalizing acc with
  | nil => cases hq
  | cons y ys ih =>
    rw [List.foldl_cons]
    rcases List.mem_cons.mp hq with rfl | hq
    · apply fold_hasA_mono
      rw [List.getElem?_map] at hk
      cases h1 : acc.1[q]? with
      | none => rw [h1] at hk; cases hk
      | some n1 =>
        rw [h1] at hk
        simp only [Option.map_some, Cover.key, Option.some.injEq, Prod.mk.injEq] at hk
        obtain ⟨rfl, rfl⟩ := hk
        exact expandOne_hasA_new cfg var lidx acc q n1 h1 hrub d hd
    · exact ih _ hq (by rw [Cover.expandOne_keys]; exact hk)


/-! ## `expandAll`: generic facts on the children and on the expanded layer -/

theorem expandOne_children (Q : Node S → Prop) (cfg : Cfg S K) (var lidx : Nat)
    (acc : List (Node S) × List (Node S) × List (Call S)) (p : Nat)
    (hall : ∀ m ∈ acc.2.1, Q m)
    (hold : ∀ (par : Node S) d n, Q n → Q (appendEdge par n (Cover.arcOf cfg var lidx p par d)))
    (hfresh : ∀ (par : Node S) d, Q (appendEdge par (Cover.freshNode par (cfg.P.trans par.state ⟨var, d⟩)
        (cfg.P.cost par.state (cfg.P.trans par.state ⟨var, d⟩) ⟨var, d⟩)) (Cover.arcOf cfg var lidx p par d))) :
    ∀ m ∈ (expandOne cfg var lidx acc p).2.1, Q m := by
  obtain ⟨ly, nx, lg⟩ := acc
  cases h : ly[p]? with
  | none => rw [Cover.expandOne_none _ _ _ _ _ _ _ h]; exact hall
  | some n =>
    rw [Cover.expandOne_some _ _ _ _ _ _ _ n h]
    split
    · dsimp only at hall ⊢
      exact Cover.branchAll_forall Q cfg var lidx p _ _ (nx, _) hall (fun d _ m hm => hold _ d m hm)
        (fun d _ => hfresh _ d)
    · exact hall

theorem fold_children (Q : Node S → Prop) (cfg : Cfg S K) (var lidx : Nat) (cur : List Nat)
    (acc : List (Node S) × List (Node S) × List (Call S))
    (hall : ∀ m ∈ acc.2.1, Q m)
    (hold : ∀ q ∈ cur, ∀ (par : Node S) d n, Q n → Q (appendEdge par n (Cover.arcOf cfg var lidx q par d)))
    (hfresh : ∀ q ∈ cur, ∀ (par : Node S) d, Q (appendEdge par (Cover.freshNode par (cfg.P.trans par.state ⟨var, d⟩)
        (cfg.P.cost par.state (cfg.P.trans par.state ⟨var, d⟩) ⟨var, d⟩)) (Cover.arcOf cfg var lidx q par d))) :
    ∀ m ∈ (cur.foldl (expandOne cfg var lidx) acc).2.1, Q m :=
  Ddo.foldl_inv (fun acc => ∀ m ∈ acc.2.1, Q m) _ cur acc hall
    (fun b q hq hb => expandOne_children Q cfg var lidx b q hb (hold q hq) (hfresh q hq))

/-- arcs of the children: created here, from an expanded position -/
theorem fold_child_arcs (QA : Arc → Prop) (cfg : Cfg S K) (var lidx : Nat) (cur : List Nat)
    (acc : List (Node S) × List (Node S) × List (Call S))
    (hall : ∀ m ∈ acc.2.1, ∀ a ∈ m.inb, QA a)
    (hnew : ∀ q ∈ cur, ∀ (s : S) d, QA ⟨lidx, q, ⟨var, d⟩, cfg.P.cost s (cfg.P.trans s ⟨var, d⟩) ⟨var, d⟩⟩) :
    ∀ m ∈ (cur.foldl (expandOne cfg var lidx) acc).2.1, ∀ a ∈ m.inb, QA a := by
  refine fold_children (fun m => ∀ a ∈ m.inb, QA a) cfg var lidx cur acc hall ?_ ?_
  · intro q hq par d n hn a ha
    rw [Cover.appendEdge_inb] at ha
    rcases List.mem_cons.mp ha with ha | ha
    · rw [ha]; exact hnew q hq par.state d
    · exact hn a ha
  · intro q hq par d a ha
    rw [Cover.appendEdge_inb] at ha
    rcases List.mem_cons.mp ha with ha | ha
    · rw [ha]; exact hnew q hq par.state d
    · simp only [Cover.freshNode] at ha; cases ha

theorem appendEdge_cutset (p c : Node S) (a : Arc) : (appendEdge p c a).cutset = c.cutset := by
  unfold appendEdge; dsimp only; split <;> rfl

theorem fold_child_cutset (cfg : Cfg S K) (var lidx : Nat) (cur : List Nat)
    (acc : List (Node S) × List (Node S) × List (Call S)) (hall : ∀ m ∈ acc.2.1, m.cutset = false) :
    ∀ m ∈ (cur.foldl (expandOne cfg var lidx) acc).2.1, m.cutset = false := by
  refine fold_children (fun m => m.cutset = false) cfg var lidx cur acc hall ?_ ?_
  · intro q _ par d n hn; rw [appendEdge_cutset]; exact hn
  · intro q _ par d; rw [appendEdge_cutset]; rfl

/-- the expanded layer: only `rub` changes -/
theorem expandOne_rubEq (cfg : Cfg S K) (var lidx : Nat) (acc : List (Node S) × List (Node S) × List (Call S)) (p : Nat)
    (ly0 : List (Node S)) (h : RubEq acc.1 ly0) : RubEq (expandOne cfg var lidx acc p).1 ly0 := by
  obtain ⟨ly, nx, lg⟩ := acc
  cases hp : ly[p]? with
  | none => rw [Cover.expandOne_none _ _ _ _ _ _ _ hp]; exact h
  | some n =>
    rw [Cover.expandOne_some _ _ _ _ _ _ _ n hp]
    split <;> exact h.set hp rfl

theorem fold_rubEq (cfg : Cfg S K) (var lidx : Nat) (cur : List Nat)
    (acc : List (Node S) × List (Node S) × List (Call S)) :
    RubEq (cur.foldl (expandOne cfg var lidx) acc).1 acc.1 :=
  Ddo.foldl_inv (fun b => RubEq b.1 acc.1) _ cur acc (RubEq.refl _)
    (fun b q _ hb => expandOne_rubEq cfg var lidx b q acc.1 hb)

/-- the rough upper bound has been recorded in the node at position `q` -/
def RubSet (cfg : Cfg S K) (ly : List (Node S)) (q : Nat) : Prop :=
  ∀ n, ly[q]? = some n → n.rub = cfg.R.rub n.state

theorem expandOne_rubSet_mono (cfg : Cfg S K) (var lidx : Nat) (acc : List (Node S) × List (Node S) × List (Call S))
    (p q : Nat) (h : RubSet cfg acc.1 q) : RubSet cfg (expandOne cfg var lidx acc p).1 q := by
  obtain ⟨ly, nx, lg⟩ := acc
  cases hp : ly[p]? with
  | none => rw [Cover.expandOne_none _ _ _ _ _ _ _ hp]; exact h
  | some n =>
    have key : RubSet cfg (ly.set p { n with rub := cfg.R.rub n.state }) q := by
      intro m hm
      rw [List.getElem?_set] at hm
      split at hm
      · split at hm
        · cases hm; rfl
        · cases hm
      · exact h m hm
    rw [Cover.expandOne_some _ _ _ _ _ _ _ n hp]
    split <;> exact key

theorem expandOne_rubSet_new (cfg : Cfg S K) (var lidx : Nat) (acc : List (Node S) × List (Node S) × List (Call S))
    (p : Nat) : RubSet cfg (expandOne cfg var lidx acc p).1 p := by
  obtain ⟨ly, nx, lg⟩ := acc
  cases hp : ly[p]? with
  | none => rw [Cover.expandOne_none _ _ _ _ _ _ _ hp]; intro m hm; dsimp only at hm; rw [hp] at hm; cases hm
  | some n =>
    have key : RubSet cfg (ly.set p { n with rub := cfg.R.rub n.state }) p := by
      intro m hm
      rw [List.getElem?_set] at hm
      simp only [if_true] at hm
      split at hm
      · cases hm; rfl
      · cases hm
    rw [Cover.expandOne_some _ _ _ _ _ _ _ n hp]
    split <;> exact key

theorem fold_rubSet (cfg : Cfg S K) (var lidx : Nat) (cur : List Nat)
    (acc : List (Node S) × List (Node S) × List (Call S)) (q : Nat) (hq : q ∈ cur ∨ RubSet cfg acc.1 q) :
    RubSet cfg (cur.foldl (expandOne cfg var lidx) acc).1 q := by
  induction cur generalizing acc with
  | nil =>
    rcases hq with hq | hq
    · cases hq
    · exact hq
  | cons y ys ih =>
    rw [List.foldl_cons]
    apply ih
    rcases hq with hq | hq
    · rcases List.mem_cons.mp hq with rfl | hq
      · exact .inr (expandOne_rubSet_new cfg var lidx acc q)
      · exact .inl hq
    · exact .inr (expandOne_rubSet_mono cfg var lidx acc y q hq)


/-! ## `relaxLayer`: every node satisfies `Q` -/

theorem forall_set {Q : Node S → Prop} {ly : List (Node S)} (h : ∀ n ∈ ly, Q n) (p : Nat) {n' : Node S} (hn' : Q n') :
    ∀ n ∈ ly.set p n', Q n := fun n hn => by
  rcases List.mem_or_eq_of_mem_set hn with hn | rfl
  · exact h n hn
  · exact hn'

theorem redirStep_forall (Q : Node S → Prop) (cfg : Cfg S K) (layers : List (List (Node S))) (merged : S) (mpos : Nat)
    (dropN : Node S) (acc : List (Node S) × List (Call S)) (e : Arc)
    (happ : ∀ src m, Q m → Q (appendEdge src m ⟨e.fromL, e.fromP, e.dec, cfg.R.relax src.state dropN.state merged e.dec e.cost⟩))
    (h : ∀ n ∈ acc.1, Q n) : ∀ n ∈ (Cover.redirStep cfg layers merged mpos dropN acc e).1, Q n := by
  rcases Cover.redirStep_cases cfg layers merged mpos dropN acc e with ⟨h1, _⟩ | ⟨src, m, _, hm, h1⟩
  · rw [h1]; exact h
  · rw [h1]; exact forall_set h _ (happ src m (h m (List.mem_of_getElem? hm)))

theorem dropStep_forall (Q : Node S → Prop) (cfg : Cfg S K) (layers : List (List (Node S))) (merged : S) (mpos : Nat)
    (acc : List (Node S) × List (Call S)) (p : Nat)
    (hdel : ∀ n, Q n → Q { n with deleted := true })
    (happ : ∀ dropN, Q dropN → ∀ e ∈ dropN.inb, ∀ src m, Q m →
      Q (appendEdge src m ⟨e.fromL, e.fromP, e.dec, cfg.R.relax src.state dropN.state merged e.dec e.cost⟩))
    (h : ∀ n ∈ acc.1, Q n) : ∀ n ∈ (Cover.dropStep cfg layers merged mpos acc p).1, Q n := by
  unfold Cover.dropStep
  cases h1 : acc.1[p]? with
  | none => exact h
  | some dropN =>
    dsimp only
    have hd := h dropN (List.mem_of_getElem? h1)
    refine Ddo.foldl_inv (β := List (Node S) × List (Call S)) (fun b => ∀ n ∈ b.1, Q n) _ dropN.inb _ (forall_set h p (hdel _ hd)) ?_
    intro b e he hb
    exact redirStep_forall Q cfg layers merged mpos _ b e (fun src m hm => happ dropN hd e he src m hm) hb

theorem relaxLayer_forall (Q : Node S → Prop) (cfg : Cfg S K) (layers : List (List (Node S))) (layer : List (Node S))
    (cur : List Nat) (log : List (Call S))
    (hfresh : ∀ d0, Q (Cover.freshMerged (Cover.mergedOf cfg layer cur) d0))
    (hrel : ∀ n, Q n → Q { n with fRelaxed := true })
    (hdel : ∀ n b, Q n → Q { n with deleted := b })
    (happ : ∀ dropN, Q dropN → ∀ e ∈ dropN.inb, ∀ src m, Q m →
      Q (appendEdge src m ⟨e.fromL, e.fromP, e.dec,
        cfg.R.relax src.state dropN.state (Cover.mergedOf cfg layer cur) e.dec e.cost⟩))
    (h : ∀ n ∈ layer, Q n) : ∀ n ∈ (relaxLayer cfg layers layer cur log).1, Q n := by
  have hmark : ∀ (l : List (Node S)) (mp : Nat), (∀ n ∈ l, Q n) → ∀ n ∈ Cover.markRelaxed l mp, Q n := by
    intro l mp hl
    unfold Cover.markRelaxed
    cases h1 : l[mp]? with
    | none => exact hl
    | some n => exact forall_set hl mp (hrel n (hl n (List.mem_of_getElem? h1)))
  have houter : ∀ (mp : Nat) (rest : List Nat) (acc : List (Node S) × List (Call S)), (∀ n ∈ acc.1, Q n) →
      ∀ n ∈ (rest.foldl (Cover.dropStep cfg layers (Cover.mergedOf cfg layer cur) mp) acc).1, Q n := by
    intro mp rest acc hacc
    exact Ddo.foldl_inv (β := List (Node S) × List (Call S)) (fun b => ∀ n ∈ b.1, Q n) _ rest acc hacc
      (fun b p _ hb => dropStep_forall Q cfg layers _ mp b p (fun n hn => hdel n true hn) happ hb)
  apply Cover.relaxLayer_elim cfg layers layer cur log (fun r => ∀ n ∈ r.1, Q n)
  · intro _ d0 lg
    apply houter
    apply hmark
    intro n hn
    rcases List.mem_append.mp hn with hn | hn
    · exact h n hn
    · rw [List.mem_singleton] at hn; rw [hn]; exact hfresh d0
  · intro mp _ lg
    dsimp only
    unfold Cover.undelete
    have h3 := houter mp (Cover.restOf cfg layer cur) (Cover.markRelaxed layer mp, lg) (hmark layer mp h)
    cases (List.take cfg.width (sortSquash cfg layer cur)).getLast? with
    | none => exact h3
    | some sp =>
      dsimp only
      cases h1 : ((Cover.restOf cfg layer cur).foldl (Cover.dropStep cfg layers (Cover.mergedOf cfg layer cur) mp)
          (Cover.markRelaxed layer mp, lg)).1[sp]? with
      | none => exact h3
      | some n => exact forall_set h3 sp (hdel n false (h3 n (List.mem_of_getElem? h1)))


/-! ## `relaxLayer`: the arcs received by the merged node -/

/-- the node at `mpos` does not lose inbound arcs -/
def InbSub (mpos : Nat) (ly ly' : List (Node S)) : Prop :=
  ∀ m, ly[mpos]? = some m → ∃ m', ly'[mpos]? = some m' ∧ ∀ a ∈ m.inb, a ∈ m'.inb

theorem InbSub.refl (mpos : Nat) (ly : List (Node S)) : InbSub mpos ly ly := fun m hm => ⟨m, hm, fun _ h => h⟩

theorem InbSub.trans {mpos : Nat} {a b c : List (Node S)} (h1 : InbSub mpos a b) (h2 : InbSub mpos b c) :
    InbSub mpos a c := by
  intro m hm
  obtain ⟨m1, hm1, hs1⟩ := h1 m hm
  obtain ⟨m2, hm2, hs2⟩ := h2 m1 hm1
  exact ⟨m2, hm2, fun a ha => hs2 a (hs1 a ha)⟩

theorem InbSub_set (mpos : Nat) (ly : List (Node S)) (p : Nat) (n n' : Node S) (h : ly[p]? = some n)
    (hsub : ∀ a ∈ n.inb, a ∈ n'.inb) : InbSub mpos ly (ly.set p n') := by
  have hp := Cover.lt_of_getElem?_some h
  intro m hm
  by_cases hpm : p = mpos
  · subst hpm
    rw [h] at hm; cases hm
    exact ⟨n', List.getElem?_set_self hp, hsub⟩
  · rw [List.getElem?_set_ne hpm]
    exact ⟨m, hm, fun _ h => h⟩

theorem redirStep_inbSub (cfg : Cfg S K) (layers : List (List (Node S))) (merged : S) (mpos : Nat) (dropN : Node S)
    (acc : List (Node S) × List (Call S)) (e : Arc) :
    InbSub mpos acc.1 (Cover.redirStep cfg layers merged mpos dropN acc e).1 := by
  rcases Cover.redirStep_cases cfg layers merged mpos dropN acc e with ⟨h, _⟩ | ⟨src, m, _, hm, h⟩
  · rw [h]; exact InbSub.refl _ _
  · rw [h]
    exact InbSub_set mpos acc.1 mpos m _ hm (fun a ha => by rw [Cover.appendEdge_inb]; exact List.mem_cons_of_mem _ ha)

theorem inner_inbSub (cfg : Cfg S K) (layers : List (List (Node S))) (merged : S) (mpos : Nat) (dropN : Node S)
    (inb : List Arc) (acc : List (Node S) × List (Call S)) :
    InbSub mpos acc.1 (inb.foldl (Cover.redirStep cfg layers merged mpos dropN) acc).1 := by
  induction inb generalizing acc with
  | nil => exact InbSub.refl _ _
  | cons e es ih => rw [List.foldl_cons]; exact (redirStep_inbSub _ _ _ _ _ _ _).trans (ih _)

theorem dropStep_inbSub (cfg : Cfg S K) (layers : List (List (Node S))) (merged : S) (mpos : Nat)
    (acc : List (Node S) × List (Call S)) (p : Nat) :
    InbSub mpos acc.1 (Cover.dropStep cfg layers merged mpos acc p).1 := by
  unfold Cover.dropStep
  cases h : acc.1[p]? with
  | none => exact InbSub.refl _ _
  | some dropN =>
    dsimp only
    refine InbSub.trans ?_ (inner_inbSub _ _ _ _ _ _ _)
    exact InbSub_set mpos acc.1 p dropN _ h (fun _ h => h)

theorem outer_inbSub (cfg : Cfg S K) (layers : List (List (Node S))) (merged : S) (mpos : Nat)
    (rest : List Nat) (acc : List (Node S) × List (Call S)) :
    InbSub mpos acc.1 (rest.foldl (Cover.dropStep cfg layers merged mpos) acc).1 := by
  induction rest generalizing acc with
  | nil => exact InbSub.refl _ _
  | cons e es ih => rw [List.foldl_cons]; exact (dropStep_inbSub _ _ _ _ _ _).trans (ih _)

theorem markRelaxed_inbSub (mpos : Nat) (l : List (Node S)) (p : Nat) : InbSub mpos l (Cover.markRelaxed l p) := by
  unfold Cover.markRelaxed
  cases h : l[p]? with
  | none => exact InbSub.refl _ _
  | some n => exact InbSub_set mpos l p n _ h (fun _ h => h)

theorem undelete_inbSub (mpos : Nat) (l : List (Node S)) (c : List Nat) : InbSub mpos l (Cover.undelete l c) := by
  unfold Cover.undelete
  cases c.getLast? with
  | none => exact InbSub.refl _ _
  | some sp =>
    dsimp only
    cases h : l[sp]? with
    | none => exact InbSub.refl _ _
    | some n => exact InbSub_set mpos l sp n _ h (fun _ h => h)

/-- the node at `mpos` holds the arc `x` -/
def HasArc (mpos : Nat) (x : Arc) (ly : List (Node S)) : Prop := ∃ m, ly[mpos]? = some m ∧ x ∈ m.inb

theorem HasArc_sub {mpos : Nat} {x : Arc} {ly ly' : List (Node S)} (h : HasArc mpos x ly) (he : InbSub mpos ly ly') :
    HasArc mpos x ly' := by
  obtain ⟨m, hm, hx⟩ := h
  obtain ⟨m', hm', hs⟩ := he m hm
  exact ⟨m', hm', hs x hx⟩

theorem redirStep_recvA (cfg : Cfg S K) (layers : List (List (Node S))) (merged : S) (mpos : Nat) (dropN : Node S)
    (acc : List (Node S) × List (Call S)) (e : Arc) (src m : Node S)
    (hsrc : getNode layers e.fromL e.fromP = some src) (hm : acc.1[mpos]? = some m) :
    HasArc mpos ⟨e.fromL, e.fromP, e.dec, cfg.R.relax src.state dropN.state merged e.dec e.cost⟩
      (Cover.redirStep cfg layers merged mpos dropN acc e).1 := by
  rcases Cover.redirStep_cases cfg layers merged mpos dropN acc e with ⟨_, h | h⟩ | ⟨src', m', hs', hm', h⟩
  · rw [h] at hsrc; cases hsrc
  · rw [h] at hm; cases hm
  · rw [hsrc] at hs'; cases hs'
    rw [h]
    exact ⟨_, List.getElem?_set_self (Cover.lt_of_getElem?_some hm), by rw [Cover.appendEdge_inb]; exact List.mem_cons_self⟩

theorem inner_recvA (cfg : Cfg S K) (layers : List (List (Node S))) (merged : S) (mpos : Nat) (dropN : Node S)
    (inb : List Arc) (acc : List (Node S) × List (Call S)) (a : Arc) (ha : a ∈ inb) (src m : Node S)
    (hsrc : getNode layers a.fromL a.fromP = some src) (hm : acc.1[mpos]? = some m) :
    HasArc mpos ⟨a.fromL, a.fromP, a.dec, cfg.R.relax src.state dropN.state merged a.dec a.cost⟩
      (inb.foldl (Cover.redirStep cfg layers merged mpos dropN) acc).1 := by
  induction inb generalizing acc m with
  | nil => cases ha
  | cons e es ih =>
    rw [List.foldl_cons]
    rcases List.mem_cons.mp ha with rfl | ha
    · exact HasArc_sub (redirStep_recvA cfg layers merged mpos dropN acc a src m hsrc hm) (inner_inbSub _ _ _ _ _ _ _)
    · obtain ⟨m', hm', _, _⟩ := (Cover.redirStep_ext cfg layers merged mpos dropN acc e).at_m m hm
      exact ih _ ha m' hm'

theorem dropStep_recvA (cfg : Cfg S K) (layers : List (List (Node S))) (merged : S) (mpos : Nat)
    (acc : List (Node S) × List (Call S)) (q : Nat) (u : Node S) (hu : acc.1[q]? = some u)
    (a : Arc) (ha : a ∈ u.inb) (src m : Node S)
    (hsrc : getNode layers a.fromL a.fromP = some src) (hm : acc.1[mpos]? = some m) :
    HasArc mpos ⟨a.fromL, a.fromP, a.dec, cfg.R.relax src.state u.state merged a.dec a.cost⟩
      (Cover.dropStep cfg layers merged mpos acc q).1 := by
  unfold Cover.dropStep
  rw [hu]
  dsimp only
  obtain ⟨m', hm', _, _⟩ := (Cover.Ext_set mpos acc.1 q u { u with deleted := true } hu (fun _ => rfl)
    (fun _ => ⟨rfl, Int.le_refl _⟩)).at_m m hm
  exact inner_recvA cfg layers merged mpos { u with deleted := true } u.inb (acc.1.set q { u with deleted := true }, acc.2)
    a ha src m' hsrc hm'

theorem outer_recvA (cfg : Cfg S K) (layers : List (List (Node S))) (merged : S) (mpos : Nat)
    (rest : List Nat) (acc : List (Node S) × List (Call S)) (q : Nat) (hq : q ∈ rest) (hqm : q ≠ mpos)
    (s : S) (v : Int) (inb : List Arc) (hu : (acc.1[q]?).map Cover.sig = some (s, v, inb))
    (a : Arc) (ha : a ∈ inb) (src m : Node S)
    (hsrc : getNode layers a.fromL a.fromP = some src) (hm : acc.1[mpos]? = some m) :
    HasArc mpos ⟨a.fromL, a.fromP, a.dec, cfg.R.relax src.state s merged a.dec a.cost⟩
      (rest.foldl (Cover.dropStep cfg layers merged mpos) acc).1 := by
  induction rest generalizing acc m with
  | nil => cases hq
  | cons p ps ih =>
    rw [List.foldl_cons]
    rcases List.mem_cons.mp hq with rfl | hq
    · cases h1 : acc.1[q]? with
      | none => rw [h1] at hu; cases hu
      | some u =>
        rw [h1] at hu
        simp only [Option.map_some, Cover.sig, Option.some.injEq, Prod.mk.injEq] at hu
        obtain ⟨rfl, rfl, rfl⟩ := hu
        exact HasArc_sub (dropStep_recvA cfg layers merged mpos acc q u h1 a ha src m hsrc hm) (outer_inbSub _ _ _ _ _ _)
    · have he := Cover.dropStep_ext cfg layers merged mpos acc p
      obtain ⟨m', hm', _, _⟩ := he.at_m m hm
      exact ih _ hq (by rw [he.other q hqm]; exact hu) m' hm'


/-- what a node `u` of the layer becomes after the relaxation, arcs included: it is kept (value and arcs can only
    grow), or it is merged and every one of its inbound arcs has been redirected to the merged node -/
def TransferA (cfg : Cfg S K) (layers : List (List (Node S))) (layer : List (Node S)) (cur : List Nat)
    (u n' : Node S) : Prop :=
  (n'.state = u.state ∧ u.value ≤ n'.value ∧ ∀ a ∈ u.inb, a ∈ n'.inb) ∨
  (u.state ∈ Cover.restStatesOf cfg layer cur ∧ n'.state = Cover.mergedOf cfg layer cur ∧
    ∀ a ∈ u.inb, ∀ src, getNode layers a.fromL a.fromP = some src →
      (⟨a.fromL, a.fromP, a.dec, cfg.R.relax src.state u.state (Cover.mergedOf cfg layer cur) a.dec a.cost⟩ : Arc) ∈ n'.inb ∧
      satAdd src.value (cfg.R.relax src.state u.state (Cover.mergedOf cfg layer cur) a.dec a.cost) ≤ n'.value)

theorem relax_coreA (cfg : Cfg S K) (layers : List (List (Node S))) (layer layer1 out : List (Node S)) (cur cur' : List Nat)
    (mpos : Nat) (lg0 : List (Call S))
    (h1 : ∀ q, q < layer.length → layer1[q]? = layer[q]?)
    (hm0 : ∃ m0, layer1[mpos]? = some m0 ∧ m0.state = Cover.mergedOf cfg layer cur)
    (hout : Cover.Ext mpos ((Cover.restOf cfg layer cur).foldl (Cover.dropStep cfg layers (Cover.mergedOf cfg layer cur) mpos)
            (Cover.markRelaxed layer1 mpos, lg0)).1 out)
    (houtI : InbSub mpos ((Cover.restOf cfg layer cur).foldl (Cover.dropStep cfg layers (Cover.mergedOf cfg layer cur) mpos)
            (Cover.markRelaxed layer1 mpos, lg0)).1 out)
    (hkeep : ∀ q ∈ Cover.keepOf cfg layer cur, q ∈ cur') (hmp : mpos ∈ cur')
    (q : Nat) (hq : q ∈ cur) (u : Node S) (hu : layer[q]? = some u) :
    ∃ q' ∈ cur', ∃ n', out[q']? = some n' ∧ TransferA cfg layers layer cur u n' := by
  have hql := Cover.lt_of_getElem?_some hu
  have hu1 : layer1[q]? = some u := by rw [h1 q hql]; exact hu
  have E1 := Cover.markRelaxed_ext mpos layer1 mpos
  have E2 := Cover.outer_ext cfg layers (Cover.mergedOf cfg layer cur) mpos (Cover.restOf cfg layer cur)
    (Cover.markRelaxed layer1 mpos, lg0)
  have E : Cover.Ext mpos layer1 out := E1.trans (E2.trans hout)
  have I1 := markRelaxed_inbSub mpos layer1 mpos
  have I2 := outer_inbSub cfg layers (Cover.mergedOf cfg layer cur) mpos (Cover.restOf cfg layer cur)
    (Cover.markRelaxed layer1 mpos, lg0)
  have I : InbSub mpos layer1 out := I1.trans (I2.trans houtI)
  have hqs : q ∈ Cover.keepOf cfg layer cur ∨ q ∈ Cover.restOf cfg layer cur := by
    have : q ∈ sortSquash cfg layer cur := by unfold sortSquash; exact (Cover.mem_sortBy _ _ _).mpr hq
    rw [← List.take_append_drop (cfg.width - 1) (sortSquash cfg layer cur)] at this
    exact List.mem_append.mp this
  by_cases hqm : q = mpos
  · subst hqm
    obtain ⟨m', hm', hs', hv'⟩ := E.at_m u hu1
    obtain ⟨m'', hm'', hi'⟩ := I u hu1
    rw [hm'] at hm''; cases hm''
    exact ⟨q, hmp, m', hm', Or.inl ⟨hs', hv', hi'⟩⟩
  · have ho := E.other q hqm
    rw [hu1] at ho
    obtain ⟨n', hn', hs', hv', hi'⟩ := Cover.sig_of_map ho
    rcases hqs with hk | hr
    · exact ⟨q, hkeep q hk, n', hn', Or.inl ⟨hs', by omega, fun a ha => by rw [hi']; exact ha⟩⟩
    · obtain ⟨m0, hm0, hms⟩ := hm0
      obtain ⟨m', hm', hs'', _⟩ := E.at_m m0 hm0
      refine ⟨mpos, hmp, m', hm', Or.inr ⟨?_, by rw [hs'', hms], ?_⟩⟩
      · unfold Cover.restStatesOf
        exact List.mem_filterMap.mpr ⟨q, hr, by rw [hu]; rfl⟩
      · intro a ha src hsrc
        obtain ⟨m1, hm1, _, _⟩ := E1.at_m m0 hm0
        have hlb := Cover.outer_recv cfg layers (Cover.mergedOf cfg layer cur) mpos (Cover.restOf cfg layer cur)
          (Cover.markRelaxed layer1 mpos, lg0) q hr hqm u.state u.value u.inb
          (by rw [E1.other q hqm, hu1]; rfl) a ha src m1 hsrc hm1
        have hla := outer_recvA cfg layers (Cover.mergedOf cfg layer cur) mpos (Cover.restOf cfg layer cur)
          (Cover.markRelaxed layer1 mpos, lg0) q hr hqm u.state u.value u.inb
          (by rw [E1.other q hqm, hu1]; rfl) a ha src m1 hsrc hm1
        obtain ⟨m2, hm2, hv2⟩ := Cover.LB_ext hlb hout
        rw [hm'] at hm2; cases hm2
        obtain ⟨m3, hm3, hv3⟩ := HasArc_sub hla houtI
        rw [hm'] at hm3; cases hm3
        exact ⟨hv3, hv2⟩

/-- state of the nodes of the relaxed layer at the old positions -/
theorem relax_core_state (layer layer1 out : List (Node S)) (mpos : Nat)
    (h1 : ∀ q, q < layer.length → layer1[q]? = layer[q]?) (E : Cover.Ext mpos layer1 out)
    (q : Nat) (hq : q < layer.length) (n' : Node S) (hn' : out[q]? = some n') :
    ∃ u, layer[q]? = some u ∧ n'.state = u.state := by
  have hu : layer[q]? = some layer[q] := List.getElem?_eq_getElem hq
  have hu1 : layer1[q]? = some layer[q] := by rw [h1 q hq]; exact hu
  by_cases hqm : q = mpos
  · subst hqm
    obtain ⟨m', hm', hs', _⟩ := E.at_m _ hu1
    rw [hn'] at hm'; cases hm'
    exact ⟨_, hu, hs'⟩
  · have ho := E.other q hqm
    rw [hu1] at ho
    obtain ⟨n'', hn'', hs', _, _⟩ := Cover.sig_of_map ho
    rw [hn'] at hn''; cases hn''
    exact ⟨_, hu, hs'⟩

/-- post-condition of `relaxLayer`, arcs included -/
structure RelaxPostA (cfg : Cfg S K) (layers : List (List (Node S))) (layer : List (Node S)) (cur : List Nat)
    (r : List (Node S) × List Nat × List (Call S)) : Prop where
  transfer : ∀ q ∈ cur, ∀ u, layer[q]? = some u →
    ∃ q' ∈ r.2.1, ∃ n', r.1[q']? = some n' ∧ TransferA cfg layers layer cur u n'
  states : ∀ q' ∈ r.2.1, ∀ n', r.1[q']? = some n' →
    (∃ u ∈ layer, n'.state = u.state) ∨ n'.state = Cover.mergedOf cfg layer cur

theorem relaxLayer_specA (cfg : Cfg S K) (layers : List (List (Node S))) (layer : List (Node S)) (cur : List Nat)
    (log : List (Call S)) (hW : 1 ≤ cfg.width) (hcur : ∀ p ∈ cur, p < layer.length) :
    RelaxPostA cfg layers layer cur (relaxLayer cfg layers layer cur log) := by
  have hsorted : ∀ q ∈ sortSquash cfg layer cur, q < layer.length := by
    intro q hq
    unfold sortSquash at hq
    exact hcur q ((Cover.mem_sortBy _ _ _).mp hq)
  apply Cover.relaxLayer_elim
  · -- fresh merged node
    intro hrec d0 lg
    have h1 : ∀ q, q < layer.length →
        (layer ++ [Cover.freshMerged (Cover.mergedOf cfg layer cur) d0])[q]? = layer[q]? :=
      fun q hq => List.getElem?_append_left hq
    have hm0 : (layer ++ [Cover.freshMerged (Cover.mergedOf cfg layer cur) d0])[layer.length]? =
        some (Cover.freshMerged (Cover.mergedOf cfg layer cur) d0) := List.getElem?_concat_length
    refine ⟨fun q hq u hu => ?_, fun q' hq' n' hn' => ?_⟩
    · exact relax_coreA cfg layers layer _ _ cur _ layer.length lg h1 ⟨_, hm0, rfl⟩ (Cover.Ext.refl _ _) (InbSub.refl _ _)
        (fun q hq => List.mem_append_left _ hq) (List.mem_append_right _ List.mem_cons_self) q hq u hu
    · have E : Cover.Ext layer.length (layer ++ [Cover.freshMerged (Cover.mergedOf cfg layer cur) d0]) _ :=
        (Cover.markRelaxed_ext layer.length _ layer.length).trans
          (Cover.outer_ext cfg layers (Cover.mergedOf cfg layer cur) layer.length (Cover.restOf cfg layer cur)
            (Cover.markRelaxed (layer ++ [Cover.freshMerged (Cover.mergedOf cfg layer cur) d0]) layer.length, lg))
      dsimp only at hq' hn'
      rcases List.mem_append.mp hq' with hk | hk
      · have hlt : q' < layer.length := hsorted q' (List.mem_of_mem_take hk)
        obtain ⟨u, hu, hs⟩ := relax_core_state layer _ _ layer.length h1 E q' hlt n' hn'
        exact .inl ⟨u, List.mem_of_getElem? hu, hs⟩
      · rw [List.mem_singleton] at hk
        subst hk
        obtain ⟨m', hm', hs', _⟩ := E.at_m _ hm0
        rw [hn'] at hm'; cases hm'
        exact .inr hs'
  · -- recycled node
    intro mp hrec lg
    have hmk : mp ∈ Cover.keepOf cfg layer cur := List.mem_of_find?_eq_some hrec
    have hmn : ∃ n, layer[mp]? = some n ∧ n.state = Cover.mergedOf cfg layer cur := by
      have := List.find?_some hrec
      cases h : layer[mp]? with
      | none => rw [h] at this; cases this
      | some n => rw [h] at this; exact ⟨n, rfl, of_decide_eq_true this⟩
    have hsub : ∀ q ∈ Cover.keepOf cfg layer cur, q ∈ (sortSquash cfg layer cur).take cfg.width :=
      fun q hq => Cover.mem_take_mono hq (by omega)
    refine ⟨fun q hq u hu => ?_, fun q' hq' n' hn' => ?_⟩
    · exact relax_coreA cfg layers layer layer _ cur _ mp lg (fun _ _ => rfl) hmn (Cover.undelete_ext _ _ _)
        (undelete_inbSub _ _ _) hsub (hsub mp hmk) q hq u hu
    · have E : Cover.Ext mp layer _ := (Cover.markRelaxed_ext mp layer mp).trans
        ((Cover.outer_ext cfg layers (Cover.mergedOf cfg layer cur) mp (Cover.restOf cfg layer cur)
          (Cover.markRelaxed layer mp, lg)).trans
          (Cover.undelete_ext mp _ ((sortSquash cfg layer cur).take cfg.width)))
      dsimp only at hq' hn'
      have hlt : q' < layer.length := hsorted q' (List.mem_of_mem_take hq')
      obtain ⟨u, hu, hs⟩ := relax_core_state layer layer _ mp (fun _ _ => rfl) E q' hlt n' hn'
      exact .inl ⟨u, List.mem_of_getElem? hu, hs⟩


/-! ## the invariant of the top-down build -/

/-- one-step fact: if the potential `value + H` of the node `n` (position `(l, p)`, depth `k`) reaches the threshold
    `t`, then a node of the layer `child`, at a position satisfying `LiveC`, holds an inbound arc from `(l, p)`
    along which no potential is lost -/
def StepTo (H : Nat → S → EInt) (B t : Int) (k l p : Nat) (n : Node S) (child : List (Node S)) (LiveC : Nat → Prop) : Prop :=
  ∀ h, H k n.state = some h → t ≤ n.value + h →
    ∃ (p' : Nat) (m : Node S) (e : Arc) (h' : Int), LiveC p' ∧ child[p']? = some m ∧ e ∈ m.inb ∧ e.fromL = l ∧ e.fromP = p ∧
      Cover.Within B e.cost ∧ H (k + 1) m.state = some h' ∧ h ≤ e.cost + h' ∧ n.value + e.cost ≤ m.value

/-- the invariant; `Live l p`: the node at position `p` of layer `l` has been expanded -/
structure BInv (cfg : Cfg S K) (H : Nat → S → EInt) (B t : Int) (Live : Nat → Nat → Prop) (dd : DD S K) : Prop where
  depth : dd.depth = cfg.root.depth + dd.layers.length
  rngN : ∀ n ∈ dd.next, Cover.Within (Cover.Bd B dd.layers.length) n.value
  rngL : ∀ (i : Nat) ly, dd.layers[i]? = some ly → ∀ n ∈ ly, Cover.Within (Cover.Bd B i) n.value
  arcsN : ∀ n ∈ dd.next, ∀ a ∈ n.inb, Cover.Within B a.cost ∧ a.fromL + 1 = dd.layers.length ∧ Live a.fromL a.fromP
  arcsL : ∀ (i : Nat) ly, dd.layers[i]? = some ly → ∀ n ∈ ly, ∀ a ∈ n.inb, a.fromL + 1 = i ∧ Live a.fromL a.fromP
  att : dd.layers ≠ [] → ∀ n ∈ dd.next, ∃ a ∈ n.inb, ∃ p, getNode dd.layers a.fromL a.fromP = some p
  stepL : ∀ (l p : Nat) ly ly' n, dd.layers[l]? = some ly → dd.layers[l + 1]? = some ly' → Live l p → ly[p]? = some n →
    StepTo H B t (cfg.root.depth + l) l p n ly' (Live (l + 1))
  stepN : ∀ (l p : Nat) ly n, l + 1 = dd.layers.length → dd.layers[l]? = some ly → Live l p → ly[p]? = some n →
    StepTo H B t (cfg.root.depth + l) l p n dd.next (fun _ => True)
  rub : ∀ (l p : Nat) ly n, dd.layers[l]? = some ly → Live l p → ly[p]? = some n → n.rub = cfg.R.rub n.state
  cutL : ∀ ly ∈ dd.layers, ∀ n ∈ ly, n.cutset = false
  cutN : ∀ n ∈ dd.next, n.cutset = false
  liveNone : dd.lel = none → ∀ (l : Nat) ly (p : Nat), dd.layers[l]? = some ly → p < ly.length → Live l p
  liveSome : ∀ k, dd.lel = some k → k < dd.layers.length ∧
    ∀ (l : Nat) ly (p : Nat), l ≤ k → dd.layers[l]? = some ly → p < ly.length → Live l p
  root0 : dd.layers = [] → ∃ n0, dd.next = [n0] ∧ n0.state = cfg.root.state ∧ n0.value = cfg.root.value
  root1 : dd.layers ≠ [] → ∃ ly n0, dd.layers[0]? = some ly ∧ ly[0]? = some n0 ∧ n0.state = cfg.root.state ∧
    n0.value = cfg.root.value ∧ Live 0 0

/-- what the expansion needs from the squashed layer -/
structure SqPostA (cfg : Cfg S K) (H : Nat → S → EInt) (B t : Int) (Live : Nat → Nat → Prop) (dd : DD S K) (var : Nat)
    (layer' : List (Node S)) (cur' : List Nat) : Prop where
  att : ∀ q ∈ cur', ∀ n, layer'[q]? = some n → Cover.AttAt cfg H dd.depth var n.state
  rng : ∀ n ∈ layer', Cover.Within (Cover.Bd B dd.layers.length) n.value
  arcs : ∀ n ∈ layer', ∀ a ∈ n.inb, Cover.Within B a.cost ∧ a.fromL + 1 = dd.layers.length ∧ Live a.fromL a.fromP
  cut : ∀ n ∈ layer', n.cutset = false
  step : ∀ (l p : Nat) ly n, l + 1 = dd.layers.length → dd.layers[l]? = some ly → Live l p → ly[p]? = some n →
    StepTo H B t (cfg.root.depth + l) l p n layer' (fun q => q ∈ cur')

/-- the hypotheses of C08 (iii) / (iv) that the loop needs; `t` is the potential threshold of interest -/
structure HypB (cfg : Cfg S K) (H : Nat → S → EInt) (B t : Int) : Prop where
  rel : cfg.ctype = .relaxed
  cache : cfg.useCache = false
  dom : cfg.dom = none
  W : 1 ≤ cfg.width
  P : Potential cfg.P H
  R : RubOk cfg.R H
  M : MergeOk cfg.R H
  AM : Cover.AttMerge cfg.P cfg.R H
  B : NoClamp cfg.P cfg.R cfg.root.value B
  clamp : ∀ x, t ≤ x → clamp x > cfg.lb

theorem srcOk_of_binv (cfg : Cfg S K) (H : Nat → S → EInt) (B t : Int) (Live : Nat → Nat → Prop) (dd : DD S K)
    (hB : NoClamp cfg.P cfg.R cfg.root.value B) (hI : BInv cfg H B t Live dd) :
    Cover.SrcOk cfg dd.layers B (Cover.Bd B dd.layers.length) := by
  constructor
  · intro l p src c hsrc hc
    obtain ⟨ly, hly, hp⟩ := Cover.getNode_lt hsrc
    have hw := hI.rngL l ly hly src (List.mem_of_getElem? hp)
    have hl := Cover.lt_of_getElem?_some hly
    have := Cover.within_satAdd hw hc
    rw [← Cover.Bd_succ] at this
    exact this.mono (Cover.Bd_mono hB.nonneg (by omega))
  · intro s u m d c hc
    exact hB.relax s u m d c hc

theorem sqpostA_id (cfg : Cfg S K) (H : Nat → S → EInt) (B t : Int) (Live : Nat → Nat → Prop) (dd : DD S K) (var : Nat)
    (hP : Potential cfg.P H) (hnv : cfg.P.nextVar dd.depth (dd.next.map (·.state)) = some var)
    (hI : BInv cfg H B t Live dd) : SqPostA cfg H B t Live dd var dd.next (List.range dd.next.length) := by
  refine ⟨?_, hI.rngN, hI.arcsN, hI.cutN, ?_⟩
  · intro q _ n hn h1 hH1
    exact hP.att dd.depth _ var n.state h1 hnv (List.mem_map_of_mem (List.mem_of_getElem? hn)) hH1
  · intro l p ly n hl hly hlive hn h hH ht
    obtain ⟨p', m, e, h', _, hm, rest⟩ := hI.stepN l p ly n hl hly hlive hn h hH ht
    exact ⟨p', m, e, h', Cover.mem_of_getElem?_range hm, hm, rest⟩


theorem getNode_of {layers : List (List (Node S))} {l p : Nat} {ly : List (Node S)} {n : Node S}
    (hl : layers[l]? = some ly) (hp : ly[p]? = some n) : getNode layers l p = some n := by
  unfold getNode; rw [hl]; exact hp

theorem sqpostA_relax (cfg : Cfg S K) (H : Nat → S → EInt) (B t : Int) (Live : Nat → Nat → Prop) (dd : DD S K) (var : Nat)
    (lg : List (Call S)) (hy : HypB cfg H B t)
    (hnv : cfg.P.nextVar dd.depth (dd.next.map (·.state)) = some var)
    (hlen : dd.layers.length ≤ cfg.P.nbVars)
    (hc1 : (List.range dd.next.length).length > cfg.width) (hc2 : dd.layers.length > 1)
    (hI : BInv cfg H B t Live dd) :
    SqPostA cfg H B t Live dd var (relaxLayer cfg dd.layers dd.next (List.range dd.next.length) lg).1
      (relaxLayer cfg dd.layers dd.next (List.range dd.next.length) lg).2.1 := by
  have hne : dd.layers ≠ [] := by intro h; rw [h] at hc2; simp at hc2
  have hcur : ∀ p ∈ List.range dd.next.length, p < dd.next.length := fun p hp => List.mem_range.mp hp
  have hpost := Cover.relaxLayer_spec cfg dd.layers dd.next (List.range dd.next.length) lg hy.W hc1 hcur
  have hpostA := relaxLayer_specA cfg dd.layers dd.next (List.range dd.next.length) lg hy.W hcur
  have hsrc := srcOk_of_binv cfg H B t Live dd hy.B hI
  have hXsub : ∀ x ∈ Cover.restStatesOf cfg dd.next (List.range dd.next.length), x ∈ dd.next.map (·.state) := by
    intro x hx
    unfold Cover.restStatesOf at hx
    obtain ⟨p0, _, hp0⟩ := List.mem_filterMap.mp hx
    cases hn0 : dd.next[p0]? with
    | none => rw [hn0] at hp0; cases hp0
    | some n0 =>
      rw [hn0] at hp0
      simp only [Option.map_some, Option.some.injEq] at hp0
      rw [← hp0]
      exact List.mem_map_of_mem (List.mem_of_getElem? hn0)
  have hXne : Cover.restStatesOf cfg dd.next (List.range dd.next.length) ≠ [] := by
    obtain ⟨q0, hq0, hq0c⟩ := Cover.rest_nonempty cfg dd.next (List.range dd.next.length) hy.W hc1
    have hlt := hcur q0 hq0c
    apply List.ne_nil_of_mem (a := dd.next[q0].state)
    unfold Cover.restStatesOf
    exact List.mem_filterMap.mpr ⟨q0, hq0, by rw [List.getElem?_eq_getElem hlt]; rfl⟩
  refine ⟨?_, ?_, ?_, ?_, ?_⟩
  · -- att
    intro q' hq' n' hn' h1 hH1
    rcases hpostA.states q' hq' n' hn' with ⟨u, hu, hs⟩ | hs
    · rw [hs] at hH1 ⊢
      exact hy.P.att dd.depth _ var u.state h1 hnv (List.mem_map_of_mem hu) hH1
    · rw [hs] at hH1 ⊢
      exact hy.AM dd.depth (dd.next.map (·.state)) var _ h1 hnv hXne hXsub hH1
  · -- rng
    exact hpost.range B (Cover.Bd B dd.layers.length) hsrc (Cover.Bd_nonneg hy.B.nonneg _)
      ⟨fun n hn => ⟨hI.rngN n hn, fun a ha => (hI.arcsN n hn a ha).1⟩, fun q _ u hu => by
        obtain ⟨a, ha, p, hp⟩ := hI.att hne u (List.mem_of_getElem? hu)
        exact ⟨a, ha, p, hp⟩⟩
  · -- arcs
    refine relaxLayer_forall
      (fun n => ∀ a ∈ n.inb, Cover.Within B a.cost ∧ a.fromL + 1 = dd.layers.length ∧ Live a.fromL a.fromP)
      cfg dd.layers dd.next _ lg ?_ (fun n hn => hn) (fun n b hn => hn) ?_ hI.arcsN
    · intro d0 a ha; simp only [Cover.freshMerged] at ha; cases ha
    · intro dropN hd e he src m hm a ha
      rw [Cover.appendEdge_inb] at ha
      rcases List.mem_cons.mp ha with ha | ha
      · rw [ha]
        obtain ⟨h1, h2, h3⟩ := hd e he
        exact ⟨hy.B.relax _ _ _ _ _ h1, h2, h3⟩
      · exact hm a ha
  · -- cut
    refine relaxLayer_forall (fun n => n.cutset = false) cfg dd.layers dd.next _ lg (fun _ => rfl) (fun n hn => hn)
      (fun n b hn => hn) ?_ hI.cutN
    intro dropN _ e _ src m hm
    rw [appendEdge_cutset]; exact hm
  · -- step
    intro l p ly n hl hly hlive hn h hH ht
    obtain ⟨p0, m0, e0, h0, _, hm0, he0, hfl, hfp, hwc, hH0, hle, hval⟩ := hI.stepN l p ly n hl hly hlive hn h hH ht
    obtain ⟨q', hq', n', hn', hT⟩ := hpostA.transfer p0 (Cover.mem_of_getElem?_range hm0) m0 hm0
    rcases hT with ⟨hs, hv, harcs⟩ | ⟨hX, hs, harc⟩
    · exact ⟨q', n', e0, h0, hq', hn', harcs e0 he0, hfl, hfp, hwc, by rw [hs]; exact hH0, hle, by omega⟩
    · have hsrcn : getNode dd.layers e0.fromL e0.fromP = some n := by rw [hfl, hfp]; exact getNode_of hly hn
      obtain ⟨hmem, hge⟩ := harc e0 he0 n hsrcn
      obtain ⟨h'', hH'', hle''⟩ := hy.M (cfg.root.depth + l + 1)
        (Cover.restStatesOf cfg dd.next (List.range dd.next.length)) m0.state n.state e0.dec e0.cost h0 hX hH0
      have hrc := hy.B.relax n.state m0.state (Cover.mergedOf cfg dd.next (List.range dd.next.length)) e0.dec e0.cost hwc
      have hw := hI.rngL l ly hly n (List.mem_of_getElem? hn)
      have hsmall : Cover.Bd B dd.layers.length ≤ 4611686018427387904 := Cover.Bd_small hy.B.toDom (by omega)
      have hbd : Cover.Bd B l + B ≤ Cover.Bd B dd.layers.length := by
        rw [← Cover.Bd_succ]; exact Cover.Bd_mono hy.B.nonneg (by omega)
      have e2 : satAdd n.value (cfg.R.relax n.state m0.state (Cover.mergedOf cfg dd.next (List.range dd.next.length)) e0.dec e0.cost)
          = n.value + cfg.R.relax n.state m0.state (Cover.mergedOf cfg dd.next (List.range dd.next.length)) e0.dec e0.cost := by
        apply Cover.satAdd_eq <;> (unfold Cover.Within at hw hrc; simp only [iMin, iMax]; omega)
      rw [e2] at hge
      refine ⟨q', n', _, h'', hq', hn', hmem, hfl, hfp, hrc, ?_, ?_, hge⟩
      · rw [hs]; exact hH''
      · unfold Cover.mergedOf
        dsimp only
        omega


theorem stripRub_fields {a b : Node S} (h : stripRub a = stripRub b) :
    a.state = b.state ∧ a.value = b.value ∧ a.inb = b.inb ∧ a.cutset = b.cutset := by
  have h1 := congrArg Node.state h
  have h2 := congrArg Node.value h
  have h3 := congrArg Node.inb h
  have h4 := congrArg Node.cutset h
  simp only [stripRub] at h1 h2 h3 h4
  exact ⟨h1, h2, h3, h4⟩

theorem expand_binv (cfg : Cfg S K) (H : Nat → S → EInt) (B t : Int) (Live : Nat → Nat → Prop) (dd dd' : DD S K) (var : Nat)
    (layer' : List (Node S)) (cur' : List Nat) (lg : List (Call S)) (hy : HypB cfg H B t)
    (hlen : dd.layers.length ≤ cfg.P.nbVars)
    (hI : BInv cfg H B t Live dd) (hsq : SqPostA cfg H B t Live dd var layer' cur')
    (hl : dd'.layers = dd.layers ++ [(expandAll cfg var dd.layers.length layer' cur' lg).1])
    (hn : dd'.next = (expandAll cfg var dd.layers.length layer' cur' lg).2.1)
    (hd : dd'.depth = dd.depth + 1)
    (hlelN : dd'.lel = none → dd.lel = none ∧ ∀ p, p < layer'.length → p ∈ cur')
    (hlelS : ∀ k, dd'.lel = some k → dd.lel = some k ∨ (dd.lel = none ∧ k + 1 = dd.layers.length))
    (hroot : dd.layers = [] → layer' = dd.next ∧ cur' = List.range dd.next.length) :
    BInv cfg H B t (fun l p => if l = dd.layers.length then p ∈ cur' else Live l p) dd' := by
  unfold expandAll at hl hn
  generalize hlyF : (cur'.foldl (expandOne cfg var dd.layers.length) (layer', [], lg)).1 = lyF at hl
  generalize hnx : (cur'.foldl (expandOne cfg var dd.layers.length) (layer', [], lg)).2.1 = nx at hn
  have hrub : RubEq lyF layer' := by rw [← hlyF]; exact fold_rubEq cfg var dd.layers.length cur' (layer', [], lg)
  have hkeys : lyF.map Cover.key = layer'.map Cover.key := by
    rw [← hlyF]; exact Cover.fold_keys cfg var dd.layers.length cur' (layer', [], lg)
  have hlenF : lyF.length = layer'.length := by
    have := congrArg List.length hkeys; simpa using this
  have hcost : ∀ s s' d, Cover.Within B (cfg.P.cost s s' d) := fun s s' d => hy.B.cost s s' d
  have hok : ∀ m ∈ nx, Cover.NodeOk (layer'.map Cover.key) dd.layers.length B (Cover.Bd B dd.layers.length) m := by
    rw [← hnx]
    refine Cover.fold_ok cfg var dd.layers.length cur' (layer', [], lg) (layer'.map Cover.key) B (Cover.Bd B dd.layers.length)
      rfl ?_ (fun s d _ => hcost s _ _) ?_
    · intro sv hsv
      obtain ⟨n, hn, rfl⟩ := List.mem_map.mp hsv
      exact hsq.rng n hn
    · intro m hm; cases hm
  have hlen' : dd'.layers.length = dd.layers.length + 1 := by rw [hl, List.length_append, List.length_singleton]
  have hsmall : Cover.Bd B dd.layers.length + B ≤ 4611686018427387904 := by
    rw [← Cover.Bd_succ]; exact Cover.Bd_small hy.B.toDom (by omega)
  -- layers of `dd'`
  have hlay : ∀ (i : Nat) ly, dd'.layers[i]? = some ly → dd.layers[i]? = some ly ∨ (i = dd.layers.length ∧ ly = lyF) := by
    intro i ly hi; rw [hl] at hi; exact getElem?_append_singleton_cases hi
  have hold : ∀ (i : Nat) ly, dd.layers[i]? = some ly → dd'.layers[i]? = some ly := by
    intro i ly hi
    rw [hl, List.getElem?_append_left (Cover.lt_of_getElem?_some hi)]; exact hi
  have hnew : dd'.layers[dd.layers.length]? = some lyF := by rw [hl]; exact List.getElem?_concat_length
  -- a node of `lyF` and the node of `layer'` at the same position
  have hF : ∀ (q : Nat) n, lyF[q]? = some n → ∃ n0, layer'[q]? = some n0 ∧ n0.state = n.state ∧ n0.value = n.value ∧
      n0.inb = n.inb ∧ n0.cutset = n.cutset := by
    intro q n hq
    obtain ⟨n0, h0, hs⟩ := hrub.get hq
    exact ⟨n0, h0, stripRub_fields hs⟩
  have hF' : ∀ (q : Nat) n0, layer'[q]? = some n0 → ∃ n, lyF[q]? = some n ∧ n0.state = n.state ∧ n0.value = n.value ∧
      n0.inb = n.inb ∧ n0.cutset = n.cutset := by
    intro q n0 hq
    obtain ⟨n, h0, hs⟩ := hrub.get' hq
    exact ⟨n, h0, stripRub_fields hs⟩
  refine ⟨?_, ?_, ?_, ?_, ?_, ?_, ?_, ?_, ?_, ?_, ?_, ?_, ?_, ?_, ?_⟩
  · -- depth
    rw [hd, hI.depth, hlen']; omega
  · -- rngN
    intro m hm
    rw [hn] at hm
    rw [hlen', Cover.Bd_succ]
    exact (hok m hm).rng
  · -- rngL
    intro i ly hi m hm
    rcases hlay i ly hi with hi | ⟨rfl, rfl⟩
    · exact hI.rngL i ly hi m hm
    · obtain ⟨q, hq⟩ := List.mem_iff_getElem?.mp hm
      obtain ⟨n0, h0, _, hv, _⟩ := hF q m hq
      rw [← hv]; exact hsq.rng n0 (List.mem_of_getElem? h0)
  · -- arcsN
    intro m hm a ha
    rw [hn] at hm
    have hq : a.fromL = dd.layers.length ∧ a.fromP ∈ cur' := by
      have := fold_child_arcs (fun a => a.fromL = dd.layers.length ∧ a.fromP ∈ cur') cfg var dd.layers.length cur'
        (layer', [], lg) (fun m hm => by cases hm) (fun q hq s d => ⟨rfl, hq⟩)
      rw [hnx] at this
      exact this m hm a ha
    refine ⟨(hok m hm).arc a ha, by rw [hlen', hq.1], ?_⟩
    rw [if_pos hq.1]; exact hq.2
  · -- arcsL
    intro i ly hi m hm a ha
    rcases hlay i ly hi with hi | ⟨rfl, rfl⟩
    · obtain ⟨h1, h2⟩ := hI.arcsL i ly hi m hm a ha
      have := Cover.lt_of_getElem?_some hi
      exact ⟨h1, by rw [if_neg (by omega)]; exact h2⟩
    · obtain ⟨q, hq⟩ := List.mem_iff_getElem?.mp hm
      obtain ⟨n0, h0, _, _, hinb, _⟩ := hF q m hq
      obtain ⟨_, h2, h3⟩ := hsq.arcs n0 (List.mem_of_getElem? h0) a (hinb ▸ ha)
      exact ⟨h2, by rw [if_neg (by omega)]; exact h3⟩
  · -- att
    intro _ m hm
    rw [hn] at hm
    obtain ⟨a, ha, hal, sv, hsv, hv⟩ := (hok m hm).att
    rw [← hkeys, List.getElem?_map] at hsv
    cases hp : lyF[a.fromP]? with
    | none => rw [hp] at hsv; cases hsv
    | some p =>
      refine ⟨a, ha, p, ?_⟩
      rw [hal]; exact getNode_of hnew hp
  · -- stepL
    intro l p ly ly' n hly hly' hlive hnp
    have hlt := Cover.lt_of_getElem?_some hly'
    rw [hlen'] at hlt
    rcases hlay l ly hly with hly0 | ⟨rfl, _⟩
    · have hlive0 : Live l p := by
        have := Cover.lt_of_getElem?_some hly0
        rw [if_neg (by omega)] at hlive; exact hlive
      rcases hlay (l + 1) ly' hly' with hly0' | ⟨hl1, rfl⟩
      · intro h hH ht
        obtain ⟨p', m, e, h', hl', rest⟩ := hI.stepL l p ly ly' n hly0 hly0' hlive0 hnp h hH ht
        have := Cover.lt_of_getElem?_some hly0'
        exact ⟨p', m, e, h', by dsimp only; rw [if_neg (by omega)]; exact hl', rest⟩
      · intro h hH ht
        obtain ⟨q', m, e, h', hq', hm, he, r1, r2, r3, r4, r5, r6⟩ := hsq.step l p ly n hl1 hly0 hlive0 hnp h hH ht
        obtain ⟨m', hm', hs, hv, hinb, _⟩ := hF' q' m hm
        exact ⟨q', m', e, h', by dsimp only; rw [if_pos hl1]; exact hq', hm', hinb ▸ he, r1, r2, r3, hs ▸ r4, r5, hv ▸ r6⟩
    · omega
  · -- stepN
    intro l p ly n hl1 hly hlive hnp h hH ht
    have hlL : l = dd.layers.length := by omega
    subst hlL
    rw [hnew] at hly; cases hly
    rw [if_pos rfl] at hlive
    obtain ⟨n0, h0, hs, hv, _, _⟩ := hF p n hnp
    rw [← hs] at hH
    rw [← hv] at ht
    have hdep : dd.depth = cfg.root.depth + dd.layers.length := hI.depth
    obtain ⟨d, hdm, h', hH', hle'⟩ := hsq.att p hlive n0 h0 h (hdep ▸ hH)
    have hrub : satAdd (cfg.R.rub n0.state) n0.value > cfg.lb := by
      unfold satAdd; apply hy.clamp
      have := hy.R _ _ _ hH; omega
    have hnewA := fold_hasA_new cfg var dd.layers.length cur' (layer', [], lg) p hlive n0.state n0.value
      (by rw [List.getElem?_map, h0]; rfl) hrub d hdm
    rw [hnx] at hnewA
    obtain ⟨m, hm, hms, hmv, hma⟩ := hnewA
    obtain ⟨p', hp'⟩ := List.mem_iff_getElem?.mp hm
    have hw := hsq.rng n0 (List.mem_of_getElem? h0)
    have hc := hcost n0.state (cfg.P.trans n0.state ⟨var, d⟩) ⟨var, d⟩
    have hsa : satAdd n0.value (cfg.P.cost n0.state (cfg.P.trans n0.state ⟨var, d⟩) ⟨var, d⟩) =
        n0.value + cfg.P.cost n0.state (cfg.P.trans n0.state ⟨var, d⟩) ⟨var, d⟩ := by
      apply Cover.satAdd_eq <;> (unfold Cover.Within at hw hc; simp only [iMin, iMax]; omega)
    rw [hsa] at hmv
    refine ⟨p', m, _, h', True.intro, by rw [hn]; exact hp', hma, rfl, rfl, hc, ?_, hle', ?_⟩
    · rw [hms, ← hdep]; exact hH'
    · rw [← hv]; exact hmv
  · -- rub
    intro l p ly n hly hlive hnp
    rcases hlay l ly hly with hly0 | ⟨rfl, rfl⟩
    · have := Cover.lt_of_getElem?_some hly0
      rw [if_neg (by omega)] at hlive
      exact hI.rub l p ly n hly0 hlive hnp
    · rw [if_pos rfl] at hlive
      have := fold_rubSet cfg var dd.layers.length cur' (layer', [], lg) p (.inl hlive)
      rw [hlyF] at this
      exact this n hnp
  · -- cutL
    intro ly hly m hm
    rw [hl] at hly
    rcases List.mem_append.mp hly with hly | hly
    · exact hI.cutL ly hly m hm
    · rw [List.mem_singleton] at hly; subst hly
      obtain ⟨q, hq⟩ := List.mem_iff_getElem?.mp hm
      obtain ⟨n0, h0, _, _, _, hc⟩ := hF q m hq
      rw [← hc]; exact hsq.cut n0 (List.mem_of_getElem? h0)
  · -- cutN
    intro m hm
    rw [hn] at hm
    have := fold_child_cutset cfg var dd.layers.length cur' (layer', [], lg) (fun m hm => by cases hm)
    rw [hnx] at this
    exact this m hm
  · -- liveNone
    intro hnone l ly p hly hp
    obtain ⟨hdn, hall⟩ := hlelN hnone
    rcases hlay l ly hly with hly0 | ⟨rfl, rfl⟩
    · have := Cover.lt_of_getElem?_some hly0
      rw [if_neg (by omega)]
      exact hI.liveNone hdn l ly p hly0 hp
    · rw [if_pos rfl]
      exact hall p (by omega)
  · -- liveSome
    intro k hk
    rcases hlelS k hk with hold' | ⟨hdn, hkL⟩
    · obtain ⟨h1, h2⟩ := hI.liveSome k hold'
      refine ⟨by omega, fun l ly p hlk hly hp => ?_⟩
      rcases hlay l ly hly with hly0 | ⟨rfl, _⟩
      · have := Cover.lt_of_getElem?_some hly0
        rw [if_neg (by omega)]
        exact h2 l ly p hlk hly0 hp
      · omega
    · refine ⟨by omega, fun l ly p hlk hly hp => ?_⟩
      rcases hlay l ly hly with hly0 | ⟨rfl, _⟩
      · have := Cover.lt_of_getElem?_some hly0
        rw [if_neg (by omega)]
        exact hI.liveNone hdn l ly p hly0 hp
      · omega
  · -- root0
    intro h; rw [hl] at h; simp at h
  · -- root1
    intro _
    by_cases hemp : dd.layers = []
    · obtain ⟨n0, hn0, hs0, hv0⟩ := hI.root0 hemp
      obtain ⟨hl', hc'⟩ := hroot hemp
      have hL0 : dd.layers.length = 0 := by rw [hemp]; rfl
      have h0 : layer'[0]? = some n0 := by rw [hl', hn0]; rfl
      obtain ⟨n, hn', hs, hv, _, _⟩ := hF' 0 n0 h0
      refine ⟨lyF, n, by rw [← hL0]; exact hnew, hn', by rw [← hs]; exact hs0, by rw [← hv]; exact hv0, ?_⟩
      rw [if_pos hL0.symm, hc', hn0]
      simp
    · obtain ⟨ly, n0, hly, hn0, hs0, hv0, hlive⟩ := hI.root1 hemp
      refine ⟨ly, n0, hold 0 ly hly, hn0, hs0, hv0, ?_⟩
      have : 0 < dd.layers.length := Cover.lt_of_getElem?_some hly
      rw [if_neg (by omega)]; exact hlive


/-! ## `stepLayer`, `buildLoop` -/

theorem squash_cases (cfg : Cfg S K) (dd : DD S K) (layer : List (Node S)) (cur : List Nat)
    (hrel : cfg.ctype = .relaxed) (hW : 1 ≤ cfg.width) :
    (¬(cur.length > cfg.width ∧ dd.layers.length > 1) ∧
      squash cfg dd layer cur = some (layer, cur, dd.log, dd.lel)) ∨
    (cur.length > cfg.width ∧ dd.layers.length > 1 ∧
      squash cfg dd layer cur = some ((relaxLayer cfg dd.layers layer cur dd.log).1,
        (relaxLayer cfg dd.layers layer cur dd.log).2.1, (relaxLayer cfg dd.layers layer cur dd.log).2.2,
        if dd.lel.isNone then some (dd.layers.length - 1) else dd.lel)) := by
  unfold squash
  have e1 : (cfg.ctype == CompType.restricted) = false := by rw [hrel]; decide
  have e2 : (cfg.ctype == CompType.relaxed) = true := by rw [hrel]; decide
  have e3 : (cfg.width == 0) = false := by
    cases h : cfg.width with
    | zero => omega
    | succ n => rfl
  simp only [e1, e2, e3, Bool.false_and, Bool.true_and, Bool.and_false, Bool.false_or]
  by_cases c1 : cur.length > cfg.width
  · by_cases c2 : dd.layers.length > 1
    · right
      simp only [c1, c2, decide_true, Bool.and_self, Bool.true_and]
      exact ⟨True.intro, True.intro, rfl⟩
    · left
      simp only [c1, c2, decide_true, decide_false, Bool.and_false, Bool.false_and]
      exact ⟨fun h => h.2, rfl⟩
  · left
    simp only [c1, decide_false, Bool.false_and]
    exact ⟨fun h => h.1, rfl⟩

theorem stepLayer_ok' (cfg : Cfg S K) (dd : DD S K) (var : Nat) (hne : dd.next ≠ [])
    (hc : cfg.useCache = false) (hd : cfg.dom = none)
    (sq : List (Node S) × List Nat × List (Call S) × Option Nat)
    (hsq : squash cfg dd dd.next (List.range dd.next.length) = some sq) :
    ∃ dd', stepLayer cfg dd var = (some dd', .ok) ∧
      dd'.layers = dd.layers ++ [(expandAll cfg var dd.layers.length sq.1 sq.2.1 sq.2.2.1).1] ∧
      dd'.next = (expandAll cfg var dd.layers.length sq.1 sq.2.1 sq.2.2.1).2.1 ∧
      dd'.depth = dd.depth + 1 ∧ dd'.lel = sq.2.2.2 := by
  unfold stepLayer
  have h1 : dd.next.isEmpty = false := by
    cases h : dd.next with
    | nil => exact absurd h hne
    | cons _ _ => rfl
  have h2 : (if dd.layers.isEmpty then (dd.next, List.range dd.next.length)
      else filterCache cfg dd.cache dd.next (List.range dd.next.length)) = (dd.next, List.range dd.next.length) := by
    split
    · rfl
    · exact Cover.filterCache_id cfg dd.cache dd.next _ hc (fun p hp => List.mem_range.mp hp)
  simp only [h1, h2, filterDom, hd, hsq]
  exact ⟨_, rfl, rfl, rfl, rfl, rfl⟩

theorem stepLayer_binv (cfg : Cfg S K) (H : Nat → S → EInt) (B t : Int) (hy : HypB cfg H B t)
    (Live : Nat → Nat → Prop) (dd : DD S K) (var : Nat) (hne : dd.next ≠ [])
    (hnv : cfg.P.nextVar dd.depth (dd.next.map (·.state)) = some var)
    (hlen : dd.layers.length ≤ cfg.P.nbVars) (hI : BInv cfg H B t Live dd) :
    ∃ dd' Live', stepLayer cfg dd var = (some dd', .ok) ∧ BInv cfg H B t Live' dd' ∧
      dd'.layers.length = dd.layers.length + 1 := by
  rcases squash_cases cfg dd dd.next (List.range dd.next.length) hy.rel hy.W with ⟨hnot, hsq⟩ | ⟨c1, c2, hsq⟩
  · obtain ⟨dd', hst, hl, hn, hd, hlel⟩ := stepLayer_ok' cfg dd var hne hy.cache hy.dom _ hsq
    dsimp only at hl hn hd hlel
    refine ⟨dd', _, hst, expand_binv cfg H B t Live dd dd' var dd.next (List.range dd.next.length) dd.log hy hlen hI
      (sqpostA_id cfg H B t Live dd var hy.P hnv hI) hl hn hd ?_ ?_ ?_, ?_⟩
    · intro h; rw [hlel] at h; exact ⟨h, fun p hp => List.mem_range.mpr hp⟩
    · intro k hk; rw [hlel] at hk; exact .inl hk
    · intro _; exact ⟨rfl, rfl⟩
    · rw [hl, List.length_append, List.length_singleton]
  · obtain ⟨dd', hst, hl, hn, hd, hlel⟩ := stepLayer_ok' cfg dd var hne hy.cache hy.dom _ hsq
    dsimp only at hl hn hd hlel
    refine ⟨dd', _, hst, expand_binv cfg H B t Live dd dd' var _ _ _ hy hlen hI
      (sqpostA_relax cfg H B t Live dd var dd.log hy hnv hlen c1 c2 hI) hl hn hd ?_ ?_ ?_, ?_⟩
    · intro h
      rw [hlel] at h
      split at h
      · cases h
      · rename_i hn'
        cases hd' : dd.lel with
        | none => rw [hd'] at hn'; simp at hn'
        | some k => rw [hd'] at h; cases h
    · intro k hk
      rw [hlel] at hk
      split at hk
      · rename_i hn'
        simp only [Option.isNone_iff_eq_none] at hn'
        simp only [Option.some.injEq] at hk
        exact .inr ⟨hn', by omega⟩
      · exact .inl hk
    · intro h; rw [h] at c2; simp at c2
    · rw [hl, List.length_append, List.length_singleton]


theorem BInv.congr {cfg : Cfg S K} {H : Nat → S → EInt} {B t : Int} {Live : Nat → Nat → Prop} {dd dd' : DD S K}
    (h : BInv cfg H B t Live dd) (h1 : dd'.layers = dd.layers) (h2 : dd'.next = dd.next) (h3 : dd'.depth = dd.depth)
    (h4 : dd'.lel = dd.lel) : BInv cfg H B t Live dd' := by
  obtain ⟨a1, a2, a3, a4, a5, a6, a7, a8, a9, a10, a11, a12, a13, a14, a15⟩ := h
  exact ⟨by rw [h3, h1]; exact a1, by rw [h1, h2]; exact a2, by rw [h1]; exact a3, by rw [h1, h2]; exact a4,
    by rw [h1]; exact a5, by rw [h1, h2]; exact a6, by rw [h1]; exact a7, by rw [h1, h2]; exact a8,
    by rw [h1]; exact a9, by rw [h1]; exact a10, by rw [h2]; exact a11, by rw [h1, h4]; exact a12,
    by rw [h1, h4]; exact a13, by rw [h1, h2]; exact a14, by rw [h1]; exact a15⟩

/-- a relaxed step in isolation always succeeds on a non-empty layer -/
theorem stepLayer_some' (cfg : Cfg S K) (dd : DD S K) (var : Nat) (hrel : cfg.ctype = .relaxed) (hW : 1 ≤ cfg.width)
    (hc : cfg.useCache = false) (hd : cfg.dom = none) (hne : dd.next ≠ []) :
    ∃ dd', stepLayer cfg dd var = (some dd', .ok) := by
  rcases squash_cases cfg dd dd.next (List.range dd.next.length) hrel hW with ⟨_, hsq⟩ | ⟨_, _, hsq⟩
  · obtain ⟨dd', hst, _⟩ := stepLayer_ok' cfg dd var hne hc hd _ hsq; exact ⟨dd', hst⟩
  · obtain ⟨dd', hst, _⟩ := stepLayer_ok' cfg dd var hne hc hd _ hsq; exact ⟨dd', hst⟩

theorem stepLayer_empty (cfg : Cfg S K) (dd : DD S K) (var : Nat) (he : dd.next = []) :
    stepLayer cfg dd var = (some { dd with layers := dd.layers ++ [[]] }, .cutoff) := by
  unfold stepLayer
  simp only [he, List.isEmpty_nil, if_true]

/-- what holds when the loop ends normally: either it stopped on an empty layer (`Done.brk`: the invariant held on a
    diagram whose layer under construction was empty), or `nextVar` answered `none` and the invariant holds -/
inductive Done (cfg : Cfg S K) (H : Nat → S → EInt) (B t : Int) (fin : DD S K) : Prop
  | brk (Live : Nat → Nat → Prop) (dd0 : DD S K) : BInv cfg H B t Live dd0 → dd0.next = [] → fin.next = [] → Done cfg H B t fin
  | term (Live : Nat → Nat → Prop) : BInv cfg H B t Live fin →
      cfg.P.nextVar fin.depth (fin.next.map (·.state)) = none → fin.layers.length ≤ cfg.P.nbVars + 1 → Done cfg H B t fin

theorem buildLoop_binv (cfg : Cfg S K) (H : Nat → S → EInt) (B t : Int) (hy : HypB cfg H B t) (stopAt : Option Nat) :
    ∀ (fuel : Nat) (dd : DD S K) (Live : Nat → Nat → Prop), BInv cfg H B t Live dd →
      dd.layers.length + fuel ≤ cfg.P.nbVars + 2 → (buildLoop cfg stopAt fuel dd).2 = .ok →
      Done cfg H B t (buildLoop cfg stopAt fuel dd).1 := by
  cases stopAt <;> intro fuel <;> induction fuel with
  | zero => intro dd Live _ _ h; simp [buildLoop] at h
  | succ fuel ih =>
    intro dd Live hI hlen hok
    unfold buildLoop at hok ⊢
    dsimp only at hok ⊢
    split
    · rename_i hnone
      exact .term Live (hI.congr rfl rfl rfl rfl) hnone (by dsimp only; omega)
    · rename_i var hvar
      rw [hvar] at hok ⊢
      dsimp only at hok ⊢
      split
      · rename_i hstop
        rw [if_pos hstop] at hok
        cases hok
      · rename_i hstop
        rw [if_neg hstop] at hok
        generalize hdd1 : (DD.mk dd.layers dd.next dd.depth dd.lel dd.cache dd.store _ dd.cacheLog _ dd.ndom) = dd1 at hok ⊢
        have hI1 : BInv cfg H B t Live dd1 := by rw [← hdd1]; exact hI.congr rfl rfl rfl rfl
        have e1 : dd1.layers = dd.layers := by rw [← hdd1]
        have e2 : dd1.next = dd.next := by rw [← hdd1]
        have e3 : dd1.depth = dd.depth := by rw [← hdd1]
        by_cases hne : dd1.next = []
        · rw [stepLayer_empty cfg dd1 var hne] at hok ⊢
          exact .brk Live dd1 hI1 hne hne
        · cases fuel with
          | zero =>
            exfalso
            obtain ⟨dd', hst⟩ := stepLayer_some' cfg dd1 var hy.rel hy.W hy.cache hy.dom hne
            rw [hst] at hok
            simp [buildLoop] at hok
          | succ fuel' =>
            obtain ⟨dd', Live', hst, hI', hl'⟩ := stepLayer_binv cfg H B t hy Live dd1 var hne
              (by rw [e2, e3]; exact hvar) (by rw [e1]; omega) hI1
            rw [hst] at hok ⊢
            exact ih dd' Live' hI' (by rw [hl', e1]; omega) hok

theorem init_binv (cfg : Cfg S K) (H : Nat → S → EInt) (B t : Int) (cache : Cache S) (store : DomStore S K) (polls : Nat)
    (hB : NoClamp cfg.P cfg.R cfg.root.value B) :
    BInv cfg H B t (fun _ _ => False) (initDD cfg cache store polls) := by
  have hnext : (initDD cfg cache store polls).next =
      [{ state := cfg.root.state, value := cfg.root.value, depth := cfg.root.depth }] := rfl
  have hlay : (initDD cfg cache store polls).layers = [] := rfl
  refine ⟨rfl, ?_, ?_, ?_, ?_, ?_, ?_, ?_, ?_, ?_, ?_, ?_, ?_, ?_, ?_⟩
  · intro n hn
    rw [hnext, List.mem_singleton] at hn
    subst hn
    have := hB.root
    simp only [hlay, List.length_nil, Cover.Bd, Cover.Within]
    omega
  · intro i ly hi; rw [hlay] at hi; simp at hi
  · intro n hn a ha
    rw [hnext, List.mem_singleton] at hn
    subst hn; cases ha
  · intro i ly hi; rw [hlay] at hi; simp at hi
  · intro h; exact absurd hlay h
  · intro l p ly ly' n hi; rw [hlay] at hi; simp at hi
  · intro l p ly n _ hi; rw [hlay] at hi; simp at hi
  · intro l p ly n hi; rw [hlay] at hi; simp at hi
  · intro ly hly; rw [hlay] at hly; cases hly
  · intro n hn
    rw [hnext, List.mem_singleton] at hn
    subst hn; rfl
  · intro _ l ly p hi; rw [hlay] at hi; simp at hi
  · intro k hk; cases hk
  · intro _; exact ⟨_, hnext, rfl, rfl⟩
  · intro h; exact absurd hlay h


/-! ## potential-preserving paths to the terminal layer -/

/-- `Path LS H k0 B l p h r`: from the node at position `(l, p)` of the diagram `LS` (root depth `k0`), whose state has
    potential `h`, a path of `r` arcs leads to the last layer, no potential being lost along any arc:
    `h ≤ cost + h'` and `value + cost ≤ value'` -/
inductive Path (LS : List (List (Node S))) (H : Nat → S → EInt) (k0 : Nat) (B : Int) : Nat → Nat → Int → Nat → Prop
  | term (l p : Nat) (n : Node S) : l + 1 = LS.length → getNode LS l p = some n → H (k0 + l) n.state = some 0 →
      Path LS H k0 B l p 0 0
  | step (l p p' : Nat) (n m : Node S) (e : Arc) (h h' : Int) (r : Nat) :
      getNode LS l p = some n → getNode LS (l + 1) p' = some m → e ∈ m.inb → e.fromL = l → e.fromP = p →
      Cover.Within B e.cost → H (k0 + l) n.state = some h → H (k0 + l + 1) m.state = some h' →
      h ≤ e.cost + h' → n.value + e.cost ≤ m.value → Path LS H k0 B (l + 1) p' h' r → Path LS H k0 B l p h (r + 1)

theorem Path.len {LS : List (List (Node S))} {H : Nat → S → EInt} {k0 : Nat} {B : Int} {l p : Nat} {h : Int} {r : Nat}
    (hp : Path LS H k0 B l p h r) : l + r + 1 = LS.length := by
  induction hp with
  | term l p n hl _ _ => omega
  | step l p p' n m e h h' r _ _ _ _ _ _ _ _ _ _ _ ih => omega

theorem Path.bound {LS : List (List (Node S))} {H : Nat → S → EInt} {k0 : Nat} {B : Int} {l p : Nat} {h : Int} {r : Nat}
    (hp : Path LS H k0 B l p h r) : h ≤ (r : Int) * B := by
  induction hp with
  | term l p n hl _ _ => simp
  | step l p p' n m e h h' r _ _ _ _ _ hw _ _ hle _ _ ih =>
    have : ((r + 1 : Nat) : Int) * B = (r : Int) * B + B := by
      rw [show ((r + 1 : Nat) : Int) = (r : Int) + 1 by omega, Int.add_mul, Int.one_mul]
    unfold Cover.Within at hw
    omega

theorem Path.node {LS : List (List (Node S))} {H : Nat → S → EInt} {k0 : Nat} {B : Int} {l p : Nat} {h : Int} {r : Nat}
    (hp : Path LS H k0 B l p h r) : ∃ n, getNode LS l p = some n ∧ H (k0 + l) n.state = some h := by
  cases hp with
  | term l p n _ hn hH => exact ⟨n, hn, hH⟩
  | step l p p' n m e h h' r hn _ _ _ _ _ hH _ _ _ _ => exact ⟨n, hn, hH⟩

/-- the path ends on a terminal node whose value is at least the potential `value + h` of its origin -/
theorem Path.terminal {LS : List (List (Node S))} {H : Nat → S → EInt} {k0 : Nat} {B : Int} {l p : Nat} {h : Int} {r : Nat}
    (hp : Path LS H k0 B l p h r) :
    ∀ n, getNode LS l p = some n → ∃ pt tn, getNode LS (l + r) pt = some tn ∧ n.value + h ≤ tn.value := by
  induction hp with
  | term l p n _ hn _ =>
    intro n' hn'
    rw [hn] at hn'; cases hn'
    exact ⟨p, n, hn, by omega⟩
  | step l p p' n m e h h' r hn hm _ _ _ _ _ _ hle hval _ ih =>
    intro n' hn'
    rw [hn] at hn'; cases hn'
    obtain ⟨pt, tn, htn, hv⟩ := ih m hm
    exact ⟨pt, tn, by rw [show l + (r + 1) = l + 1 + r by omega]; exact htn, by omega⟩

/-- walking `j` arcs down a path -/
theorem Path.descend {LS : List (List (Node S))} {H : Nat → S → EInt} {k0 : Nat} {B : Int} {l p : Nat} {h : Int} {r : Nat}
    (hp : Path LS H k0 B l p h r) :
    ∀ n, getNode LS l p = some n → ∀ j, j ≤ r → ∃ p' n' h', getNode LS (l + j) p' = some n' ∧
      Path LS H k0 B (l + j) p' h' (r - j) ∧ n.value + h ≤ n'.value + h' := by
  induction hp with
  | term l p n hl hn hH =>
    intro n' hn' j hj
    rw [hn] at hn'; cases hn'
    have : j = 0 := by omega
    subst this
    exact ⟨p, n, 0, hn, .term l p n hl hn hH, Int.le_refl _⟩
  | step l p p' n m e h h' r hn hm he hfl hfp hw hH hH' hle hval hp' ih =>
    intro n' hn' j hj
    rw [hn] at hn'; cases hn'
    cases j with
    | zero => exact ⟨p, n, h, hn, .step l p p' n m e h h' r hn hm he hfl hfp hw hH hH' hle hval hp', Int.le_refl _⟩
    | succ j =>
      obtain ⟨p'', n'', h'', hn'', hp'', hv⟩ := ih m hm j (by omega)
      refine ⟨p'', n'', h'', ?_, ?_, by omega⟩
      · rw [show l + (j + 1) = l + 1 + j by omega]; exact hn''
      · rw [show l + (j + 1) = l + 1 + j by omega, show r + 1 - (j + 1) = r - j by omega]; exact hp''


theorem getNode_full_lt {layers : List (List (Node S))} {nx : List (Node S)} {l p : Nat} {n : Node S}
    (h : getNode (layers ++ [nx]) l p = some n) (hl : l < layers.length) :
    ∃ ly, layers[l]? = some ly ∧ ly[p]? = some n := by
  obtain ⟨ly, hly, hp⟩ := Cover.getNode_lt h
  rw [List.getElem?_append_left hl] at hly
  exact ⟨ly, hly, hp⟩

theorem getNode_full_last {layers : List (List (Node S))} {nx : List (Node S)} {p : Nat} :
    getNode (layers ++ [nx]) layers.length p = nx[p]? := Cover.getNode_last layers nx p

theorem getNode_full_of {layers : List (List (Node S))} {nx : List (Node S)} {l p : Nat} {ly : List (Node S)} {n : Node S}
    (hl : layers[l]? = some ly) (hp : ly[p]? = some n) : getNode (layers ++ [nx]) l p = some n :=
  getNode_append_left _ _ _ _ _ (getNode_of hl hp)

/-- every expanded node whose potential reaches the threshold starts a potential-preserving path -/
theorem path_of_live (cfg : Cfg S K) (H : Nat → S → EInt) (B t : Int) (hP : Potential cfg.P H)
    (Live : Nat → Nat → Prop) (fin : DD S K) (hI : BInv cfg H B t Live fin)
    (hnone : cfg.P.nextVar fin.depth (fin.next.map (·.state)) = none) :
    ∀ (d l p : Nat) (n : Node S) (h : Int), l + d = fin.layers.length → (l < fin.layers.length → Live l p) →
      getNode (fin.layers ++ [fin.next]) l p = some n → H (cfg.root.depth + l) n.state = some h → t ≤ n.value + h →
      Path (fin.layers ++ [fin.next]) H cfg.root.depth B l p h d := by
  intro d
  induction d with
  | zero =>
    intro l p n h hl _ hn hH _
    have hl' : l = fin.layers.length := by omega
    subst hl'
    rw [getNode_full_last] at hn
    have hterm := hP.term fin.depth _ n.state hnone (List.mem_map_of_mem (List.mem_of_getElem? hn))
    rw [hI.depth] at hterm
    rw [hterm] at hH
    cases hH
    exact .term _ p n (by rw [List.length_append, List.length_singleton]) (by rw [getNode_full_last]; exact hn) hterm
  | succ d ih =>
    intro l p n h hl hlive hn hH ht
    have hlt : l < fin.layers.length := by omega
    obtain ⟨ly, hly, hnp⟩ := getNode_full_lt hn hlt
    by_cases hl1 : l + 1 = fin.layers.length
    · obtain ⟨p', m, e, h', _, hm, he, hfl, hfp, hw, hH', hle, hval⟩ :=
        hI.stepN l p ly n hl1 hly (hlive hlt) hnp h hH ht
      have hm' : getNode (fin.layers ++ [fin.next]) (l + 1) p' = some m := by
        rw [hl1, getNode_full_last]; exact hm
      exact .step l p p' n m e h h' d hn hm' he hfl hfp hw hH hH' hle hval
        (ih (l + 1) p' m h' (by omega) (fun hh => by omega) hm' hH' (by omega))
    · have hlt1 : l + 1 < fin.layers.length := by omega
      have hly' : fin.layers[l + 1]? = some fin.layers[l + 1] := List.getElem?_eq_getElem hlt1
      obtain ⟨p', m, e, h', hlive', hm, he, hfl, hfp, hw, hH', hle, hval⟩ :=
        hI.stepL l p ly _ n hly hly' (hlive hlt) hnp h hH ht
      have hm' : getNode (fin.layers ++ [fin.next]) (l + 1) p' = some m := getNode_full_of hly' hm
      exact .step l p p' n m e h h' d hn hm' he hfl hfp hw hH hH' hle hval
        (ih (l + 1) p' m h' (by omega) (fun _ => hlive') hm' hH' (by omega))


/-! ## `computeLocalBounds` in pull form -/

theorem getNode_modNode (ls : List (List (Node S))) (l' p' : Nat) (f : Node S → Node S) (l p : Nat) :
    getNode (modNode ls l' p' f) l p = if l = l' ∧ p = p' then (getNode ls l p).map f else getNode ls l p := by
  unfold modNode
  cases hl : ls[l']? with
  | none =>
    dsimp only
    split
    · rename_i h; obtain ⟨rfl, rfl⟩ := h
      unfold getNode; rw [hl]; rfl
    · rfl
  | some ly =>
    dsimp only
    cases hp : ly[p']? with
    | none =>
      dsimp only
      split
      · rename_i h; obtain ⟨rfl, rfl⟩ := h
        unfold getNode; rw [hl]; dsimp only; rw [hp]; rfl
      · rfl
    | some n =>
      dsimp only
      have hl' : l' < ls.length := Cover.lt_of_getElem?_some hl
      have hp' : p' < ly.length := Cover.lt_of_getElem?_some hp
      unfold getNode
      by_cases h1 : l = l'
      · subst h1
        rw [List.getElem?_set_self hl', hl]
        dsimp only
        by_cases h2 : p = p'
        · subst h2
          rw [List.getElem?_set_self hp', hp, if_pos ⟨rfl, rfl⟩]; rfl
        · rw [List.getElem?_set_ne (fun h => h2 h.symm), if_neg (fun h => h2 h.2)]
      · rw [List.getElem?_set_ne (fun h => h1 h.symm), if_neg (fun h => h1 h.1)]

/-- the node at `(l, p)` is marked and its local bound is at least `h` -/
def Good (ls : List (List (Node S))) (l p : Nat) (h : Int) : Prop :=
  ∃ n, getNode ls l p = some n ∧ n.marked = true ∧ h ≤ n.vbot

/-- the update of a parent in `computeLocalBounds` -/
def lbUpd (x : Int) (par : Node S) : Node S := { par with marked := true, vbot := max par.vbot x }

theorem Good_modNode {ls : List (List (Node S))} {l p : Nat} {h : Int} (hg : Good ls l p h) (l' p' : Nat) (x : Int) :
    Good (modNode ls l' p' (lbUpd x)) l p h := by
  obtain ⟨n, hn, hm, hv⟩ := hg
  rw [Good, getNode_modNode]
  split
  · exact ⟨lbUpd x n, by rw [hn]; rfl, rfl, by simp only [lbUpd]; omega⟩
  · exact ⟨n, hn, hm, hv⟩

theorem Good_modNode_new {ls : List (List (Node S))} {l p : Nat} {n : Node S} (hn : getNode ls l p = some n)
    (x h : Int) (hx : h ≤ x) : Good (modNode ls l p (lbUpd x)) l p h := by
  rw [Good, getNode_modNode, if_pos ⟨rfl, rfl⟩]
  exact ⟨lbUpd x n, by rw [hn]; rfl, rfl, by simp only [lbUpd]; omega⟩

theorem foldl_reach {α β : Type} (f : β → α → β) (R Q : β → Prop) (x : α)
    (hR : ∀ b a, R b → R (f b a)) (hQ : ∀ b a, Q b → Q (f b a)) (hx : ∀ b, R b → Q (f b x)) :
    ∀ (l : List α) (b : β), x ∈ l → R b → Q (l.foldl f b) := by
  intro l
  induction l with
  | nil => intro b h; cases h
  | cons a l ih =>
    intro b hmem hb
    rw [List.foldl_cons]
    rcases List.mem_cons.mp hmem with rfl | hmem
    · exact Ddo.foldl_inv Q f l _ (hx b hb) (fun b a _ h => hQ b a h)
    · exact ih _ hmem (hR b a hb)

/-- the three nested loops of `computeLocalBounds` -/
def lbArc (n : Node S) (ls : List (List (Node S))) (e : Arc) : List (List (Node S)) :=
  modNode ls e.fromL e.fromP (lbUpd (satAdd n.vbot e.cost))
def lbPos (l : Nat) (ls : List (List (Node S))) (p : Nat) : List (List (Node S)) :=
  match getNode ls l p with
  | none => ls
  | some n => if n.marked then n.inb.foldl (lbArc n) ls else ls
def lbLayer (ls : List (List (Node S))) (l : Nat) : List (List (Node S)) :=
  (List.range (ls[l]?.getD []).length).foldl (lbPos l) ls

theorem computeLocalBounds_eq (layers : List (List (Node S))) :
    computeLocalBounds layers = (List.range layers.length).reverse.foldl lbLayer
      (layers.set (layers.length - 1)
        ((layers[layers.length - 1]?.getD []).map (fun n => { n with vbot := 0, marked := true }))) := by
  unfold computeLocalBounds
  simp only [List.length_set]
  rfl

theorem lbArc_xEq {ls LS : List (List (Node S))} (h : XEq ls LS) (n : Node S) (e : Arc) : XEq (lbArc n ls e) LS :=
  h.modNode _ _ _ (fun _ _ => rfl)

theorem lbPos_xEq {ls LS : List (List (Node S))} (h : XEq ls LS) (l p : Nat) : XEq (lbPos l ls p) LS := by
  unfold lbPos
  split
  · exact h
  · split
    · exact Ddo.foldl_inv (fun b => XEq b LS) _ _ _ h (fun b e _ hb => lbArc_xEq hb _ e)
    · exact h

theorem lbLayer_xEq {ls LS : List (List (Node S))} (h : XEq ls LS) (l : Nat) : XEq (lbLayer ls l) LS :=
  Ddo.foldl_inv (fun b => XEq b LS) _ _ _ h (fun b p _ hb => lbPos_xEq hb l p)

theorem lbArc_good {ls : List (List (Node S))} {l p : Nat} {h : Int} (hg : Good ls l p h) (n : Node S) (e : Arc) :
    Good (lbArc n ls e) l p h := Good_modNode hg _ _ _

theorem lbPos_good {ls : List (List (Node S))} {l p : Nat} {h : Int} (hg : Good ls l p h) (l' p' : Nat) :
    Good (lbPos l' ls p') l p h := by
  unfold lbPos
  split
  · exact hg
  · split
    · exact Ddo.foldl_inv (fun b => Good b l p h) _ _ _ hg (fun b e _ hb => lbArc_good hb _ e)
    · exact hg

theorem lbLayer_good {ls : List (List (Node S))} {l p : Nat} {h : Int} (hg : Good ls l p h) (l' : Nat) :
    Good (lbLayer ls l') l p h :=
  Ddo.foldl_inv (fun b => Good b l p h) _ _ _ hg (fun b p' _ hb => lbPos_good hb l' p')


theorem getNode_pos_lt {ls : List (List (Node S))} {l p : Nat} {n : Node S} (h : getNode ls l p = some n) :
    p < (ls[l]?.getD []).length := by
  obtain ⟨ly, hly, hp⟩ := Cover.getNode_lt h
  rw [hly, Option.getD_some]
  exact Cover.lt_of_getElem?_some hp

/-- processing layer `j + 1` transmits the bound of a child to its parent -/
theorem lbLayer_step {ls LS : List (List (Node S))} (hx : XEq ls LS) {j p p' : Nat} {n m : Node S} {e : Arc} {h h' : Int}
    (hn : getNode LS j p = some n) (hm : getNode LS (j + 1) p' = some m) (he : e ∈ m.inb)
    (hfl : e.fromL = j) (hfp : e.fromP = p) (hg : Good ls (j + 1) p' h') (hle : h ≤ e.cost + h') (hmax : h ≤ iMax) :
    Good (lbLayer ls (j + 1)) j p h := by
  unfold lbLayer
  have hp' : p' ∈ List.range (ls[j + 1]?.getD []).length := by
    obtain ⟨n', hn', _⟩ := hg
    exact List.mem_range.mpr (getNode_pos_lt hn')
  refine foldl_reach (lbPos (j + 1)) (fun b => XEq b LS ∧ Good b (j + 1) p' h') (fun b => Good b j p h) p'
    (fun b a hb => ⟨lbPos_xEq hb.1 _ _, lbPos_good hb.2 _ _⟩) (fun b a hb => lbPos_good hb _ _) ?_ _ ls hp' ⟨hx, hg⟩
  rintro b ⟨hbx, n', hn', hmk, hvb⟩
  unfold lbPos
  rw [hn']
  dsimp only
  rw [if_pos hmk]
  obtain ⟨m', hm', hs⟩ := hbx.getNode_some hn'
  rw [hm] at hm'; cases hm'
  have he' : e ∈ n'.inb := by rw [← stripB_inb hs]; exact he
  refine foldl_reach (lbArc n') (fun b' => XEq b' LS) (fun b' => Good b' j p h) e
    (fun b' a hb' => lbArc_xEq hb' _ _) (fun b' a hb' => lbArc_good hb' _ _) ?_ _ b he' hbx
  intro b' hb'
  obtain ⟨n'', hn'', _⟩ := hb'.symm.getNode_some hn
  unfold lbArc
  rw [hfl, hfp]
  refine Good_modNode_new hn'' _ _ ?_
  unfold satAdd clamp
  unfold iMax at hmax
  simp only [iMin, iMax]
  omega

/-- **local bounds**: after `computeLocalBounds`, the origin of a potential-preserving path is marked and its
    local bound dominates its potential -/
theorem computeLocalBounds_good (LS : List (List (Node S))) (H : Nat → S → EInt) (k0 : Nat) (B : Int)
    (hsmall : ∀ r : Nat, r < LS.length → (r : Int) * B ≤ iMax) :
    ∀ (l p : Nat) (h : Int) (r : Nat), Path LS H k0 B l p h r → Good (computeLocalBounds LS) l p h := by
  rw [computeLocalBounds_eq]
  generalize hL0 : LS.set (LS.length - 1)
    ((LS[LS.length - 1]?.getD []).map (fun n => { n with vbot := 0, marked := true })) = L0
  have hx0 : XEq L0 LS := by rw [← hL0]; exact (XEq.refl LS).set_map _ _ (fun _ => rfl)
  -- the invariant of the outer loop: the paths starting at a layer `≥ lo - 1` are fine
  have key : ∀ (lo : Nat), lo ≤ LS.length → ∀ ls, XEq ls LS →
      (∀ (j p : Nat) (h : Int) (r : Nat), lo ≤ j + 1 → Path LS H k0 B j p h r → Good ls j p h) →
      ∀ (j p : Nat) (h : Int) (r : Nat), Path LS H k0 B j p h r → Good ((List.range lo).reverse.foldl lbLayer ls) j p h := by
    intro lo
    induction lo with
    | zero => intro _ ls _ hJ j p h r hp; exact hJ j p h r (by omega) hp
    | succ lo ih =>
      intro hlo ls hx hJ
      rw [List.range_succ, List.reverse_append, List.reverse_singleton, List.singleton_append, List.foldl_cons]
      refine ih (by omega) _ (lbLayer_xEq hx lo) ?_
      intro j p h r hj hp
      by_cases hj' : lo + 1 ≤ j + 1
      · exact lbLayer_good (hJ j p h r hj' hp) lo
      · have hjl : j + 1 = lo := by omega
        cases hp with
        | term _ _ n hl _ _ => omega
        | step _ _ p' n m e _ h' r' hn hm he hfl hfp hw hH hH' hle hval hp' =>
          have hg := hJ (j + 1) p' h' r' (by omega) hp'
          have hb := (Path.step j p p' n m e h h' r' hn hm he hfl hfp hw hH hH' hle hval hp').bound
          have hlen := (Path.step j p p' n m e h h' r' hn hm he hfl hfp hw hH hH' hle hval hp').len
          have := hsmall (r' + 1) (by omega)
          rw [← hjl]
          exact lbLayer_step hx hn hm he hfl hfp hg hle (by omega)
  refine key LS.length (Nat.le_refl _) L0 hx0 ?_
  intro j p h r hj hp
  have hlen := hp.len
  cases hp with
  | term _ _ n hl hn hH =>
    -- a node of the last layer
    obtain ⟨ly, hly, hnp⟩ := Cover.getNode_lt hn
    have hj1 : j = LS.length - 1 := by omega
    refine ⟨{ n with vbot := 0, marked := true }, ?_, rfl, Int.le_refl _⟩
    rw [← hL0]
    unfold getNode
    rw [hj1] at hly ⊢
    rw [List.getElem?_set_self (by omega), hly]
    simp only [Option.getD_some, List.getElem?_map, hnp, Option.map_some]
  | step _ _ p' n m e _ h' r' hn hm _ _ _ _ _ _ _ _ hp' =>
    have := hp'.len
    omega


/-! ## `computeThresholds` only writes `theta` -/

/-- a node without its threshold -/
def stripT (n : Node S) : Node S := { n with theta := none }

/-- position-wise equality up to `theta` -/
def TEq (ls ls' : List (List (Node S))) : Prop := ls.map (List.map stripT) = ls'.map (List.map stripT)

theorem TEq.refl (ls : List (List (Node S))) : TEq ls ls := rfl
theorem TEq.trans {a b c : List (List (Node S))} (h1 : TEq a b) (h2 : TEq b c) : TEq a c := Eq.trans h1 h2

theorem TEq.set_layer {ls ls0 : List (List (Node S))} (h : TEq ls ls0) (l : Nat) (ly' : List (Node S))
    (hl : ∀ ly, ls[l]? = some ly → ly'.map stripT = ly.map stripT) : TEq (ls.set l ly') ls0 := by
  unfold TEq at *
  rw [List.map_set, ← h]
  cases hls : ls[l]? with
  | none =>
    have : ls.length ≤ l := by
      rcases Nat.lt_or_ge l ls.length with h' | h'
      · rw [List.getElem?_eq_getElem h'] at hls; cases hls
      · exact h'
    exact List.set_eq_of_length_le (by rw [List.length_map]; exact this)
  | some ly =>
    rw [hl ly hls]
    exact List.set_self' (by rw [List.getElem?_map, hls]; rfl)

theorem TEq.set_map {ls ls0 : List (List (Node S))} (h : TEq ls ls0) (l : Nat) (f : Node S → Node S)
    (hf : ∀ n, stripT (f n) = stripT n) : TEq (ls.set l ((ls[l]?.getD []).map f)) ls0 := by
  refine h.set_layer l _ (fun ly hly => ?_)
  rw [hly, Option.getD_some, List.map_map]
  exact List.map_congr_left (fun n _ => hf n)

theorem TEq.modNode {ls ls0 : List (List (Node S))} (h : TEq ls ls0) (l p : Nat) (f : Node S → Node S)
    (hf : ∀ n, getNode ls l p = some n → stripT (f n) = stripT n) : TEq (Ddo.modNode ls l p f) ls0 := by
  unfold Ddo.modNode
  split
  · exact h
  · rename_i ly hly
    split
    · exact h
    · rename_i n hn
      refine h.set_layer l _ (fun ly' hly' => ?_)
      rw [hly] at hly'
      cases hly'
      rw [List.map_set, hf n (by unfold getNode; rw [hly]; exact hn)]
      exact List.set_self' (by rw [List.getElem?_map, hn]; rfl)

theorem TEq.length {ls ls0 : List (List (Node S))} (h : TEq ls ls0) : ls.length = ls0.length := by
  have := congrArg List.length h
  simpa using this

theorem TEq.layer {ls ls0 : List (List (Node S))} (h : TEq ls ls0) (l : Nat) :
    (ls[l]?.getD []).map stripT = (ls0[l]?.getD []).map stripT := by
  have := congrArg (fun x => (x[l]?).getD []) h
  simp only [List.getElem?_map] at this
  cases h1 : ls[l]? <;> cases h2 : ls0[l]? <;> simp only [h1, h2, Option.map_none, Option.map_some, Option.getD_none,
    Option.getD_some, List.map_nil] at this ⊢ <;> exact this

theorem TEq.getNode {ls ls0 : List (List (Node S))} (h : TEq ls ls0) (l p : Nat) :
    (Ddo.getNode ls l p).map stripT = (Ddo.getNode ls0 l p).map stripT := by
  have h1 : ∀ (xs : List (List (Node S))), (Ddo.getNode xs l p).map stripT = ((xs[l]?.getD []).map stripT)[p]? := by
    intro xs
    unfold Ddo.getNode
    cases xs[l]? with
    | none => rfl
    | some ly => simp only [Option.getD_some, List.getElem?_map]
  rw [h1, h1, h.layer l]

theorem computeThresholds_tEq (kind : CutsetKind) (isExactField : Bool) (lb : Int) (bestExact : Option Int)
    (termL : Option Nat) (layers : List (List (Node S))) :
    TEq (computeThresholds kind isExactField lb bestExact termL layers).1 layers := by
  unfold computeThresholds
  extract_lets bk layers0
  have h0 : TEq layers0 layers := by
    show TEq (match bestExact, termL with | some _, some tl => _ | _, _ => _) layers
    split
    · refine (TEq.refl _).set_map _ _ (fun n => ?_)
      split <;> rfl
    · exact TEq.refl _
  clear_value layers0
  refine foldl_inv (β := List (List (Node S)) × List (S × Nat × Int × Bool)) (fun acc => TEq acc.1 layers) _ _ _ h0 ?_
  rintro ⟨ls, ups⟩ l _ h
  dsimp only at h ⊢
  refine foldl_inv (β := List (List (Node S)) × List (S × Nat × Int × Bool)) (fun acc => TEq acc.1 layers) _ _ _ h ?_
  rintro ⟨ls, ups⟩ p _ h
  dsimp -zeta only at h ⊢
  split
  · exact h
  · rename_i n hn
    split
    · exact h
    · generalize heq : (ite ((!n.cache) = true) _ _ : Node S × List (S × Nat × Int × Bool)) = r
      obtain ⟨n1, ups1⟩ := r
      have hkey : stripT n1 = stripT n := by
        have e : Prod.fst _ = n1 := congrArg Prod.fst heq
        rw [← e]
        split
        · dsimp only
          repeat' split
          all_goals rfl
        · rfl
      clear heq
      dsimp -zeta only
      have h1 : TEq (modNode ls l p (fun _ => n1)) layers :=
        h.modNode l p _ (fun m hm => by rw [hn] at hm; cases hm; exact hkey)
      split
      · dsimp only
        refine foldl_inv (β := List (List (Node S))) (fun acc => TEq acc layers) _ _ _ h1 ?_
        intro ls2 e _ h2
        exact h2.modNode _ _ _ (fun _ _ => rfl)
      · exact h1

theorem TEq.getNode_some {ls ls0 : List (List (Node S))} (h : TEq ls ls0) {l p : Nat} {n : Node S}
    (hn : Ddo.getNode ls l p = some n) : ∃ n0, Ddo.getNode ls0 l p = some n0 ∧ stripT n0 = stripT n := by
  have := h.getNode l p
  rw [hn] at this
  cases h0 : Ddo.getNode ls0 l p with
  | none => rw [h0] at this; cases this
  | some n0 =>
    rw [h0] at this
    simp only [Option.map_some, Option.some.injEq] at this
    exact ⟨n0, rfl, this.symm⟩



/-! ## the frontier cut-set contains every exact parent of an inexact node -/

abbrev FrAcc (S : Type) := List (List (Node S)) × List (Nat × Nat)

def frArc (acc : FrAcc S) (e : Arc) : FrAcc S :=
  match getNode acc.1 e.fromL e.fromP with
  | some par => if par.isExact && !par.cutset then
      (modNode acc.1 e.fromL e.fromP (fun x => { x with cutset := true }), acc.2 ++ [(e.fromL, e.fromP)])
    else (acc.1, acc.2)
  | none => (acc.1, acc.2)

def frPos (l : Nat) (acc : FrAcc S) (p : Nat) : FrAcc S :=
  match getNode acc.1 l p with
  | none => (acc.1, acc.2)
  | some n =>
    if n.isExact then (modNode acc.1 l p (fun n => { n with above := true }), acc.2)
    else n.inb.foldl frArc (acc.1, acc.2)

def frLayer (acc : FrAcc S) (l : Nat) : FrAcc S :=
  (List.range (acc.1[l]?.getD []).length).foldl (frPos l) (acc.1, acc.2)

theorem computeCutset_frontier_eq (lel : Nat) (layers : List (List (Node S))) :
    computeCutset .frontier lel layers = (List.range layers.length).reverse.foldl frLayer (layers, []) := rfl

/-- invariant: the flag `cutset` is raised only on positions already pushed -/
def FrInv (layers : List (List (Node S))) (acc : FrAcc S) : Prop :=
  XEq acc.1 layers ∧ ∀ (l p : Nat) (n : Node S), getNode acc.1 l p = some n → n.cutset = true → (l, p) ∈ acc.2

theorem frArc_inv {layers : List (List (Node S))} {acc : FrAcc S} (h : FrInv layers acc) (e : Arc) :
    FrInv layers (frArc acc e) := by
  unfold frArc
  split
  · split
    · refine ⟨h.1.modNode _ _ _ (fun _ _ => rfl), fun l p n hn hc => ?_⟩
      dsimp only at hn ⊢
      rw [getNode_modNode] at hn
      split at hn
      · rename_i hlp
        rw [hlp.1, hlp.2]
        exact List.mem_append_right _ List.mem_cons_self
      · exact List.mem_append_left _ (h.2 l p n hn hc)
    · exact h
  · exact h

theorem frArc_mono {acc : FrAcc S} {x : Nat × Nat} (h : x ∈ acc.2) (e : Arc) : x ∈ (frArc acc e).2 := by
  unfold frArc
  split
  · split
    · exact List.mem_append_left _ h
    · exact h
  · exact h

theorem frPos_inv {layers : List (List (Node S))} {acc : FrAcc S} (h : FrInv layers acc) (l p : Nat) :
    FrInv layers (frPos l acc p) := by
  unfold frPos
  split
  · exact h
  · split
    · refine ⟨h.1.modNode _ _ _ (fun _ _ => rfl), fun l' p' n hn hc => ?_⟩
      dsimp only at hn ⊢
      rw [getNode_modNode] at hn
      split at hn
      · cases h0 : getNode acc.1 l' p' with
        | none => rw [h0] at hn; cases hn
        | some n0 =>
          rw [h0] at hn
          simp only [Option.map_some, Option.some.injEq] at hn
          subst hn
          exact h.2 l' p' n0 h0 hc
      · exact h.2 l' p' n hn hc
    · exact Ddo.foldl_inv (FrInv layers) frArc _ _ h (fun b e _ hb => frArc_inv hb e)

theorem frPos_mono {acc : FrAcc S} {x : Nat × Nat} (h : x ∈ acc.2) (l p : Nat) : x ∈ (frPos l acc p).2 := by
  unfold frPos
  split
  · exact h
  · split
    · exact h
    · exact Ddo.foldl_inv (β := FrAcc S) (fun b => x ∈ b.2) frArc _ _ h (fun b e _ hb => frArc_mono hb e)

theorem frLayer_inv {layers : List (List (Node S))} {acc : FrAcc S} (h : FrInv layers acc) (l : Nat) :
    FrInv layers (frLayer acc l) :=
  Ddo.foldl_inv (FrInv layers) (frPos l) _ _ h (fun b p _ hb => frPos_inv hb l p)

theorem frLayer_mono {acc : FrAcc S} {x : Nat × Nat} (h : x ∈ acc.2) (l : Nat) : x ∈ (frLayer acc l).2 :=
  Ddo.foldl_inv (β := FrAcc S) (fun b => x ∈ b.2) (frPos l) _ _ h (fun b p _ hb => frPos_mono hb l p)

/-- **frontier, forward direction**: every exact source of an inbound arc of an inexact node is in the cut-set -/
theorem computeCutset_frontier_mem (lel : Nat) (layers : List (List (Node S)))
    (hcut : ∀ (l p : Nat) (n : Node S), getNode layers l p = some n → n.cutset = false)
    (l' p' : Nat) (m : Node S) (e : Arc) (par : Node S)
    (hm : getNode layers l' p' = some m) (hmex : m.isExact = false) (he : e ∈ m.inb)
    (hpar : getNode layers e.fromL e.fromP = some par) (hpex : par.isExact = true) :
    (e.fromL, e.fromP) ∈ (computeCutset .frontier lel layers).2 := by
  rw [computeCutset_frontier_eq]
  have hl' : l' ∈ (List.range layers.length).reverse := by
    rw [List.mem_reverse, List.mem_range]; exact Ddo.getNode_lt hm
  have h0 : FrInv layers (layers, []) := by
    refine ⟨XEq.refl _, fun l p n hn hc => ?_⟩
    rw [hcut l p n hn] at hc; cases hc
  refine foldl_reach frLayer (FrInv layers) (fun b => (e.fromL, e.fromP) ∈ b.2) l'
    (fun b a hb => frLayer_inv hb a) (fun b a hb => frLayer_mono hb a) ?_ _ _ hl' h0
  intro b hb
  obtain ⟨m1, hm1, hs1⟩ := hb.1.symm.getNode_some hm
  unfold frLayer
  refine foldl_reach (frPos l') (FrInv layers) (fun b => (e.fromL, e.fromP) ∈ b.2) p'
    (fun b a hb => frPos_inv hb l' a) (fun b a hb => frPos_mono hb l' a) ?_ _ _
    (List.mem_range.mpr (getNode_pos_lt hm1)) hb
  intro b' hb'
  obtain ⟨m2, hm2, hs2⟩ := hb'.1.symm.getNode_some hm
  have hm2ex : m2.isExact = false := by rw [stripB_isExact hs2]; exact hmex
  have he2 : e ∈ m2.inb := by rw [stripB_inb hs2]; exact he
  unfold frPos
  rw [hm2]
  dsimp only
  rw [if_neg (by rw [hm2ex]; simp)]
  refine foldl_reach frArc (FrInv layers) (fun b => (e.fromL, e.fromP) ∈ b.2) e
    (fun b a hb => frArc_inv hb a) (fun b a hb => frArc_mono hb a) ?_ _ _ he2 hb'
  intro b'' hb''
  obtain ⟨par2, hpar2, hsp⟩ := hb''.1.symm.getNode_some hpar
  have hp2ex : par2.isExact = true := by rw [stripB_isExact hsp]; exact hpex
  unfold frArc
  rw [hpar2]
  dsimp only
  split
  · exact List.mem_append_right _ List.mem_cons_self
  · rename_i hcond
    rw [hp2ex] at hcond
    simp only [Bool.true_and, Bool.not_eq_true', Bool.not_eq_false] at hcond
    exact hb''.2 _ _ par2 hpar2 (by simpa using hcond)

theorem computeCutset_lel_mem (lel : Nat) (layers : List (List (Node S))) (p : Nat) (n : Node S)
    (hn : getNode layers lel p = some n) : (lel, p) ∈ (computeCutset .lel lel layers).2 := by
  unfold computeCutset
  dsimp only
  rw [if_pos (Ddo.getNode_lt hn)]
  exact List.mem_map.mpr ⟨p, List.mem_range.mpr (getNode_pos_lt hn), rfl⟩


/-! ## `finalize` -/

/-- the positions of the cut-set computed by `finalize` -/
def fCs (cfg : Cfg S K) (b : Built S K) : List (Nat × Nat) :=
  (if ((cfg.ctype == .relaxed) || b.isExactField) = true then computeCutset cfg.kind b.lel b.layers
    else (b.layers, [])).2
/-- the layers after `computeCutset` -/
def fLayers1 (cfg : Cfg S K) (b : Built S K) : List (List (Node S)) :=
  (if ((cfg.ctype == .relaxed) || b.isExactField) = true then computeCutset cfg.kind b.lel b.layers
    else (b.layers, [])).1
/-- the layers after `computeLocalBounds` -/
def fLayers2 (cfg : Cfg S K) (b : Built S K) : List (List (Node S)) :=
  if (decide (b.lel < b.layers.length) && (cfg.ctype == .relaxed)) = true then computeLocalBounds (fLayers1 cfg b)
  else fLayers1 cfg b

/-- the sub-problem `finalize` builds from a node of the final layers -/
def subOf (cfg : Cfg S K) (L3 : List (List (Node S))) (bv : Int) (n : Node S) : SubP S :=
  { state := n.state, value := n.value, path := cfg.root.path ++ bestPath L3 (L3.length + 1) n,
    ub := min (min (satAdd n.value n.rub) (satAdd n.value n.vbot)) bv, depth := n.depth }

theorem finalize_cutset' (cfg : Cfg S K) (b : Built S K) (e : Bool) :
    (finalize cfg b e).1.cutset =
      match b.bestValue with
      | none => []
      | some bv => (fCs cfg b).filterMap (fun (lp : Nat × Nat) =>
          match getNode (finalize cfg b e).2 lp.1 lp.2 with
          | some n => if n.marked then some (subOf cfg (finalize cfg b e).2 bv n) else none
          | none => none) := rfl

theorem finalize_cutset_iff (cfg : Cfg S K) (b : Built S K) (e : Bool) (c : SubP S) :
    c ∈ (finalize cfg b e).1.cutset ↔ ∃ bv lp n, b.bestValue = some bv ∧ lp ∈ fCs cfg b ∧
      getNode (finalize cfg b e).2 lp.1 lp.2 = some n ∧ n.marked = true ∧ c = subOf cfg (finalize cfg b e).2 bv n := by
  rw [finalize_cutset']
  constructor
  · intro hc
    split at hc
    · cases hc
    · rename_i bv hbv
      obtain ⟨lp, hlp, hsome⟩ := List.mem_filterMap.1 hc
      split at hsome
      · rename_i n hn
        split at hsome
        · rename_i hmk
          simp only [Option.some.injEq] at hsome
          exact ⟨bv, lp, n, hbv, hlp, hn, hmk, hsome.symm⟩
        · cases hsome
      · cases hsome
  · rintro ⟨bv, lp, n, hbv, hlp, hn, hmk, rfl⟩
    rw [hbv]
    dsimp only
    refine List.mem_filterMap.2 ⟨lp, hlp, ?_⟩
    rw [hn]
    dsimp only
    rw [if_pos hmk]

theorem finalize_bestExactValue (cfg : Cfg S K) (b : Built S K) (e : Bool) :
    (finalize cfg b e).1.bestExactValue =
      if e then b.bestValue else maxValue (b.terminals.filter (·.isExact)) := rfl

theorem finalize_layers_tEq (cfg : Cfg S K) (b : Built S K) (e : Bool)  :
    TEq (finalize cfg b e).2 (fLayers2 cfg b) := by
  unfold finalize fLayers2 fLayers1
  extract_lets relaxed terms bestValue exactTerms bestExactValue doCut
  generalize (if doCut = true then computeCutset cfg.kind b.lel b.layers else (b.layers, [])) = r1
  obtain ⟨layers1, cs⟩ := r1
  dsimp only
  generalize (if (decide (b.lel < b.layers.length) && relaxed) = true then computeLocalBounds layers1 else layers1) = layers2
  split
  · exact computeThresholds_tEq _ _ _ _ _ _
  · exact TEq.refl _

theorem fLayers1_xEq (cfg : Cfg S K) (b : Built S K) : XEq (fLayers1 cfg b) b.layers := by
  unfold fLayers1
  split
  · exact computeCutset_xEq _ _ _
  · exact XEq.refl _


theorem stripB_fields {a b : Node S} (h : stripB a = stripB b) :
    a.state = b.state ∧ a.value = b.value ∧ a.inb = b.inb ∧ a.rub = b.rub ∧ a.depth = b.depth ∧ a.best = b.best := by
  have h1 := congrArg Node.state h
  have h2 := congrArg Node.value h
  have h3 := congrArg Node.inb h
  have h4 := congrArg Node.rub h
  have h5 := congrArg Node.depth h
  have h6 := congrArg Node.best h
  simp only [stripB] at h1 h2 h3 h4 h5 h6
  exact ⟨h1, h2, h3, h4, h5, h6⟩

theorem stripT_fields {a b : Node S} (h : stripT a = stripT b) :
    a.state = b.state ∧ a.value = b.value ∧ a.rub = b.rub ∧ a.depth = b.depth ∧ a.marked = b.marked ∧ a.vbot = b.vbot := by
  have h1 := congrArg Node.state h
  have h2 := congrArg Node.value h
  have h4 := congrArg Node.rub h
  have h5 := congrArg Node.depth h
  have h6 := congrArg Node.marked h
  have h7 := congrArg Node.vbot h
  simp only [stripT] at h1 h2 h4 h5 h6 h7
  exact ⟨h1, h2, h4, h5, h6, h7⟩

theorem TEq.symm {a b : List (List (Node S))} (h : TEq a b) : TEq b a := Eq.symm h

theorem Path.of_xEq {LS LS' : List (List (Node S))} {H : Nat → S → EInt} {k0 : Nat} {B : Int} {l p : Nat} {h : Int} {r : Nat}
    (hp : Path LS H k0 B l p h r) (hx : XEq LS' LS) : Path LS' H k0 B l p h r := by
  induction hp with
  | term l p n hl hn hH =>
    obtain ⟨n', hn', hs⟩ := hx.symm.getNode_some hn
    exact .term l p n' (by rw [hx.length]; exact hl) hn' (by rw [(stripB_fields hs).1]; exact hH)
  | step l p p' n m e h h' r hn hm he hfl hfp hw hH hH' hle hval _ ih =>
    obtain ⟨n', hn', hs⟩ := hx.symm.getNode_some hn
    obtain ⟨m', hm', hsm⟩ := hx.symm.getNode_some hm
    obtain ⟨e1, e2, _⟩ := stripB_fields hs
    obtain ⟨f1, f2, f3, _⟩ := stripB_fields hsm
    exact .step l p p' n' m' e h h' r hn' hm' (by rw [f3]; exact he) hfl hfp hw (by rw [e1]; exact hH)
      (by rw [f1]; exact hH') hle (by rw [e2, f2]; exact hval) ih

/-- in the final layers of a relaxed compilation, the origin of a potential-preserving path of the built diagram is
    marked and its local bound dominates its potential -/
theorem finalize_good (cfg : Cfg S K) (b : Built S K) (e : Bool) (H : Nat → S → EInt) (k0 : Nat) (B : Int)
    (hrel : cfg.ctype = .relaxed) (hlel : b.lel < b.layers.length)
    (hsmall : ∀ r : Nat, r < b.layers.length → (r : Int) * B ≤ iMax)
    (l p : Nat) (h : Int) (r : Nat) (hp : Path b.layers H k0 B l p h r) :
    ∃ n3, getNode (finalize cfg b e).2 l p = some n3 ∧ n3.marked = true ∧ h ≤ n3.vbot := by
  have hx1 := fLayers1_xEq cfg b
  have hp1 : Path (fLayers1 cfg b) H k0 B l p h r := hp.of_xEq hx1
  obtain ⟨n2, hn2, hmk, hv⟩ := computeLocalBounds_good (fLayers1 cfg b) H k0 B
    (by rw [hx1.length]; exact hsmall) l p h r hp1
  have h2 : fLayers2 cfg b = computeLocalBounds (fLayers1 cfg b) := by
    unfold fLayers2
    rw [if_pos]
    rw [hrel]
    simp only [hlel, decide_true, Bool.true_and]
    rfl
  have ht := finalize_layers_tEq cfg b e
  rw [h2] at ht
  obtain ⟨n3, hn3, hs⟩ := ht.symm.getNode_some hn2
  obtain ⟨_, _, _, _, hm3, hv3⟩ := stripT_fields hs
  exact ⟨n3, hn3, by rw [hm3]; exact hmk, by rw [hv3]; exact hv⟩


/-! ## what the invariant says of a live node of the finalized diagram -/

theorem small_of_noClamp {P : Problem S} {R : Relax S} {rv B : Int} (hB : NoClamp P R rv B) {n : Nat}
    (hn : n ≤ P.nbVars + 2) : ∀ r : Nat, r < n → (r : Int) * B ≤ iMax := by
  intro r hr
  have h1 : (r : Int) * B ≤ ((P.nbVars : Int) + 2) * B := Int.mul_le_mul_of_nonneg_right (by omega) hB.nonneg
  have := hB.small
  unfold iMax
  omega

/-- the final diagram of a build that ended on `nextVar = none` with a non-empty terminal layer -/
structure Fin (cfg : Cfg S K) (H : Nat → S → EInt) (B t : Int) (Live : Nat → Nat → Prop) (fin : DD S K) : Prop where
  inv : BInv cfg H B t Live fin
  none : cfg.P.nextVar fin.depth (fin.next.map (·.state)) = none
  len : fin.layers.length ≤ cfg.P.nbVars + 1
  ne : fin.next ≠ []

theorem Fin.layers {cfg : Cfg S K} {H : Nat → S → EInt} {B t : Int} {Live : Nat → Nat → Prop} {fin : DD S K}
    (hf : Fin cfg H B t Live fin) : (finalizeLayers fin).layers = fin.layers ++ [fin.next] :=
  (finalizeLayers_nonempty fin hf.ne).1

/-- a live node whose potential reaches the threshold: path, best value, local bound, rough upper bound -/
theorem Fin.node_bounds {cfg : Cfg S K} {H : Nat → S → EInt} {B t : Int} {Live : Nat → Nat → Prop} {fin : DD S K}
    (hf : Fin cfg H B t Live fin) (hy : HypB cfg H B t) (e : Bool)
    (l p : Nat) (n0 : Node S) (h : Int) (hl : l < fin.layers.length) (hlive : Live l p)
    (hn0 : getNode (finalizeLayers fin).layers l p = some n0) (hH : H (cfg.root.depth + l) n0.state = some h)
    (ht : t ≤ n0.value + h) :
    Path (finalizeLayers fin).layers H cfg.root.depth B l p h (fin.layers.length - l) ∧
    (∃ bv, (finalizeLayers fin).bestValue = some bv ∧ n0.value + h ≤ bv) ∧
    n0.value + h ≤ 4611686018427387904 ∧ n0.rub = cfg.R.rub n0.state ∧ h ≤ cfg.R.rub n0.state ∧
    ((finalizeLayers fin).lel < (finalizeLayers fin).layers.length →
      ∃ n3, getNode (finalize cfg (finalizeLayers fin) e).2 l p = some n3 ∧ n3.marked = true ∧ h ≤ n3.vbot ∧
        n3.rub = n0.rub ∧ n3.value = n0.value ∧ n3.state = n0.state ∧ n3.depth = n0.depth) := by
  have hLS := hf.layers
  rw [hLS] at hn0 ⊢
  have hpath := path_of_live cfg H B t hy.P Live fin hf.inv hf.none (fin.layers.length - l) l p n0 h (by omega)
    (fun _ => hlive) hn0 hH ht
  obtain ⟨pt, tn, htn, hv⟩ := hpath.terminal n0 hn0
  rw [show l + (fin.layers.length - l) = fin.layers.length by omega, getNode_full_last] at htn
  have htmem : tn ∈ fin.next := List.mem_of_getElem? htn
  obtain ⟨ly, hly, hnp⟩ := getNode_full_lt hn0 hl
  refine ⟨hpath, ?_, ?_, hf.inv.rub l p ly n0 hly hlive hnp, hy.R _ _ _ hH, ?_⟩
  · obtain ⟨bv, h1, h2⟩ := Cover.maxValue_ge _ tn htmem
    refine ⟨bv, ?_, by omega⟩
    unfold Built.bestValue
    rw [terminals_finalizeLayers]; exact h1
  · have := hf.inv.rngN tn htmem
    have hs := Cover.Bd_small hy.B.toDom hf.len
    unfold Cover.Within at this
    omega
  · intro hlel
    have hlen : (finalizeLayers fin).layers.length ≤ cfg.P.nbVars + 2 := by
      rw [hLS, List.length_append, List.length_singleton]; have := hf.len; omega
    obtain ⟨n3, hn3, hmk, hvb⟩ := finalize_good cfg (finalizeLayers fin) e H cfg.root.depth B hy.rel (hLS ▸ hlel)
      (small_of_noClamp hy.B hlen) l p h _ (hLS ▸ hpath)
    obtain ⟨n0', hn0', hs⟩ := (finalize_layers_xEq cfg (finalizeLayers fin) e).getNode_some hn3
    rw [hLS, hn0] at hn0'
    cases hn0'
    obtain ⟨e1, e2, _, e4, e5, _⟩ := stripB_fields hs
    exact ⟨n3, hn3, hmk, hvb, e4.symm, e2.symm, e1.symm, e5.symm⟩


theorem fCs_sub (cfg : Cfg S K) (b : Built S K) (lp : Nat × Nat) (h : lp ∈ fCs cfg b) :
    lp ∈ (computeCutset cfg.kind b.lel b.layers).2 := by
  unfold fCs at h
  split at h
  · exact h
  · cases h

theorem fCs_of_relaxed (cfg : Cfg S K) (b : Built S K) (hrel : cfg.ctype = .relaxed) :
    fCs cfg b = (computeCutset cfg.kind b.lel b.layers).2 := by
  unfold fCs
  rw [if_pos (by rw [hrel]; rfl)]

/-- a position of the cut-set is a live position of a layer above the terminal one, and `lel` is set -/
theorem Fin.cut_live {cfg : Cfg S K} {H : Nat → S → EInt} {B t : Int} {Live : Nat → Nat → Prop} {fin : DD S K}
    (hf : Fin cfg H B t Live fin) (p0 : List Dec)
    (hwf : CutWF cfg p0 (finalizeLayers fin).layers (finalizeLayers fin).lel)
    (lp : Nat × Nat) (hlp : lp ∈ (computeCutset cfg.kind (finalizeLayers fin).lel (finalizeLayers fin).layers).2) :
    (finalizeLayers fin).lel < (finalizeLayers fin).layers.length ∧ lp.1 < fin.layers.length ∧ Live lp.1 lp.2 := by
  have hlel : (finalizeLayers fin).lel < (finalizeLayers fin).layers.length := by
    rcases Nat.lt_or_ge (finalizeLayers fin).lel (finalizeLayers fin).layers.length with h | h
    · exact h
    · rw [hwf.cutset_nil h] at hlp; cases hlp
  refine ⟨hlel, ?_⟩
  cases hk : cfg.kind with
  | lel =>
    rw [hk] at hlp
    obtain ⟨h1, _, n, hn⟩ := computeCutset_lel _ _ lp hlp
    rw [finalizeLayers_lel] at h1 hlel
    cases hfl : fin.lel with
    | none => rw [hfl, Option.getD_none] at hlel; omega
    | some k =>
      rw [hfl, Option.getD_some] at h1
      obtain ⟨hkT, hall⟩ := hf.inv.liveSome k hfl
      rw [hf.layers] at hn
      obtain ⟨ly, hly, hnp⟩ := getNode_full_lt hn (by omega)
      exact ⟨by omega, hall lp.1 ly lp.2 (by omega) hly (Cover.lt_of_getElem?_some hnp)⟩
  | frontier =>
    rw [hk] at hlp
    obtain ⟨_, _, _, l', p', m, e, hm, _, he, hfl, hfp⟩ := computeCutset_frontier _ _ lp hlp
    rcases finalizeLayers_at fin hm with ⟨ly, hly, hmem⟩ | ⟨hl', hmem⟩
    · obtain ⟨h1, h2⟩ := hf.inv.arcsL l' ly hly m hmem e he
      have := Cover.lt_of_getElem?_some hly
      rw [hfl, hfp] at h2
      exact ⟨by omega, h2⟩
    · obtain ⟨_, h1, h2⟩ := hf.inv.arcsN m hmem e he
      rw [hfl, hfp] at h2
      exact ⟨by omega, h2⟩

theorem addI_some {a : EInt} {c x : Int} (h : a.addI c = some x) : ∃ h0, a = some h0 ∧ x = h0 + c := by
  unfold EInt.addI at h
  cases a with
  | none => cases h
  | some h0 =>
    simp only [Option.map_some, Option.some.injEq] at h
    exact ⟨h0, rfl, h.symm⟩

/-- **C08 (iii)** for `finalize`: the upper bound attached to a sub-problem of the cut-set dominates its potential
    `x`, as soon as `x` reaches the threshold `t` of the invariant -/
theorem Fin.cutset_ub {cfg : Cfg S K} {H : Nat → S → EInt} {B t : Int} {Live : Nat → Nat → Prop} {fin : DD S K}
    (hf : Fin cfg H B t Live fin) (hy : HypB cfg H B t) (hlb : InI cfg.lb) (p0 : List Dec)
    (hwf : CutWF cfg p0 (finalizeLayers fin).layers (finalizeLayers fin).lel) (e : Bool)
    (c : SubP S) (hc : c ∈ (finalize cfg (finalizeLayers fin) e).1.cutset)
    (x : Int) (hΦ : (H c.depth c.state).addI c.value = some x) (htx : t ≤ x) (hx : x > cfg.lb) : x ≤ c.ub := by
  obtain ⟨bv, lp, n3, hbv, hlp, hn3, hmk, rfl⟩ := (finalize_cutset_iff cfg _ e c).1 hc
  have hlp' := fCs_sub cfg _ lp hlp
  obtain ⟨n0, hn0, hex, _⟩ := hwf.cutset_pos lp hlp'
  obtain ⟨_, _, _, hdepth⟩ := hwf.node _ _ n0 hn0 hex
  obtain ⟨hlel, hlT, hlive⟩ := hf.cut_live p0 hwf lp hlp'
  obtain ⟨n0', hn0', hs⟩ := (finalize_layers_xEq cfg (finalizeLayers fin) e).getNode_some hn3
  rw [hn0] at hn0'; cases hn0'
  obtain ⟨e1, e2, _, e4, e5, _⟩ := stripB_fields hs
  simp only [subOf] at hΦ ⊢
  rw [← e5, hdepth, ← e1, ← e2] at hΦ
  obtain ⟨h, hH, hxh⟩ := addI_some hΦ
  obtain ⟨_, ⟨bv', hbv', hle⟩, hsm, hrub, hrle, hgood⟩ :=
    hf.node_bounds hy e lp.1 lp.2 n0 h hlT hlive hn0 hH (by omega)
  rw [hbv] at hbv'; cases hbv'
  obtain ⟨n3', hn3', _, hvb, _⟩ := hgood hlel
  rw [hn3] at hn3'; cases hn3'
  have h1 : x ≤ satAdd n3.value n3.rub := by
    rw [← e2, ← e4, hrub]
    unfold satAdd clamp; unfold InI at hlb
    simp only [iMin, iMax] at *
    omega
  have h2 : x ≤ satAdd n3.value n3.vbot := by
    rw [← e2]
    unfold satAdd clamp; unfold InI at hlb
    simp only [iMin, iMax] at *
    omega
  omega


/-! ## coverage -/

/-- the root of the diagram in the full list of layers -/
theorem BInv.root_node {cfg : Cfg S K} {H : Nat → S → EInt} {B t : Int} {Live : Nat → Nat → Prop} {dd : DD S K}
    (hI : BInv cfg H B t Live dd) :
    ∃ n0, getNode (dd.layers ++ [dd.next]) 0 0 = some n0 ∧ n0.state = cfg.root.state ∧ n0.value = cfg.root.value ∧
      (0 < dd.layers.length → Live 0 0) := by
  by_cases hemp : dd.layers = []
  · obtain ⟨n0, hn0, hs, hv⟩ := hI.root0 hemp
    refine ⟨n0, ?_, hs, hv, fun h => by rw [hemp] at h; simp at h⟩
    rw [hemp, hn0]; rfl
  · obtain ⟨ly, n0, hly, hn0, hs, hv, hlive⟩ := hI.root1 hemp
    exact ⟨n0, getNode_full_of hly hn0, hs, hv, fun _ => hlive⟩

/-- **cover**: if the potential of the root reaches the threshold, every layer (the one under construction
    included) holds a node whose potential reaches it -/
theorem BInv.cover {cfg : Cfg S K} {H : Nat → S → EInt} {B t : Int} {Live : Nat → Nat → Prop} {dd : DD S K}
    (hI : BInv cfg H B t Live dd) (h0 : Int) (hH0 : H cfg.root.depth cfg.root.state = some h0)
    (ht : t ≤ cfg.root.value + h0) :
    ∀ l, l ≤ dd.layers.length → ∃ p n h, getNode (dd.layers ++ [dd.next]) l p = some n ∧
      (l < dd.layers.length → Live l p) ∧ H (cfg.root.depth + l) n.state = some h ∧ t ≤ n.value + h := by
  intro l
  induction l with
  | zero =>
    intro _
    obtain ⟨n0, hn0, hs, hv, hlive⟩ := hI.root_node
    exact ⟨0, n0, h0, hn0, hlive, by rw [hs]; exact hH0, by rw [hv]; exact ht⟩
  | succ l ih =>
    intro hl
    obtain ⟨p, n, h, hn, hlive, hH, hth⟩ := ih (by omega)
    have hlt : l < dd.layers.length := by omega
    obtain ⟨ly, hly, hnp⟩ := getNode_full_lt hn hlt
    by_cases hl1 : l + 1 = dd.layers.length
    · obtain ⟨p', m, e, h', _, hm, _, _, _, _, hH', hle, hval⟩ := hI.stepN l p ly n hl1 hly (hlive hlt) hnp h hH hth
      exact ⟨p', m, h', by rw [hl1, getNode_full_last]; exact hm, fun hh => by omega, hH', by omega⟩
    · have hlt1 : l + 1 < dd.layers.length := by omega
      have hly' : dd.layers[l + 1]? = some dd.layers[l + 1] := List.getElem?_eq_getElem hlt1
      obtain ⟨p', m, e, h', hlive', hm, _, _, _, _, hH', hle, hval⟩ :=
        hI.stepL l p ly _ n hly hly' (hlive hlt) hnp h hH hth
      exact ⟨p', m, h', getNode_full_of hly' hm, fun _ => hlive', hH', by omega⟩

theorem BInv.next_ne {cfg : Cfg S K} {H : Nat → S → EInt} {B t : Int} {Live : Nat → Nat → Prop} {dd : DD S K}
    (hI : BInv cfg H B t Live dd) (h0 : Int) (hH0 : H cfg.root.depth cfg.root.state = some h0)
    (ht : t ≤ cfg.root.value + h0) : dd.next ≠ [] := by
  obtain ⟨p, n, h, hn, _⟩ := hI.cover h0 hH0 ht dd.layers.length (Nat.le_refl _)
  rw [getNode_full_last] at hn
  exact List.ne_nil_of_mem (List.mem_of_getElem? hn)

/-- following a potential-preserving path from an exact node: it stays exact down to a terminal node of value `≥ o`,
    or it meets an exact node with an arc into an inexact node -/
theorem Path.frontier {LS : List (List (Node S))} {H : Nat → S → EInt} {k0 : Nat} {B : Int} {l p : Nat} {h : Int} {r : Nat}
    (hp : Path LS H k0 B l p h r) (o : Int) :
    ∀ n, getNode LS l p = some n → n.isExact = true → o ≤ n.value + h →
      (∃ pt tn, getNode LS (l + r) pt = some tn ∧ tn.isExact = true ∧ o ≤ tn.value) ∨
      (∃ (l1 p1 : Nat) (n1 : Node S) (h1 : Int) (r1 : Nat) (p2 : Nat) (m : Node S) (e : Arc),
        Path LS H k0 B l1 p1 h1 r1 ∧ getNode LS l1 p1 = some n1 ∧ n1.isExact = true ∧ o ≤ n1.value + h1 ∧
        getNode LS (l1 + 1) p2 = some m ∧ m.isExact = false ∧ e ∈ m.inb ∧ e.fromL = l1 ∧ e.fromP = p1) := by
  induction hp with
  | term l p n hl hn hH =>
    intro n' hn' hex ho
    rw [hn] at hn'; cases hn'
    exact .inl ⟨p, n, hn, hex, by omega⟩
  | step l p p' n m e h h' r hn hm he hfl hfp hw hH hH' hle hval hp' ih =>
    intro n' hn' hex ho
    rw [hn] at hn'; cases hn'
    by_cases hme : m.isExact = true
    · rcases ih m hm hme (by omega) with ⟨pt, tn, htn, hte, htv⟩ | hcut
      · exact .inl ⟨pt, tn, by rw [show l + (r + 1) = l + 1 + r by omega]; exact htn, hte, htv⟩
      · exact .inr hcut
    · exact .inr ⟨l, p, n, h, r + 1, p', m, e, .step l p p' n m e h h' r hn hm he hfl hfp hw hH hH' hle hval hp',
        hn, hex, ho, hm, by simpa using hme, he, hfl, hfp⟩


/-- the origin of a potential-preserving path of the finalized diagram: best value and (when `lel` is set) mark -/
theorem Fin.path_bounds {cfg : Cfg S K} {H : Nat → S → EInt} {B t : Int} {Live : Nat → Nat → Prop} {fin : DD S K}
    (hf : Fin cfg H B t Live fin) (hy : HypB cfg H B t) (e : Bool)
    (l p : Nat) (n0 : Node S) (h : Int) (r : Nat)
    (hpath : Path (finalizeLayers fin).layers H cfg.root.depth B l p h r)
    (hn0 : getNode (finalizeLayers fin).layers l p = some n0) :
    (∃ bv, (finalizeLayers fin).bestValue = some bv ∧ n0.value + h ≤ bv) ∧
    ((finalizeLayers fin).lel < (finalizeLayers fin).layers.length →
      ∃ n3, getNode (finalize cfg (finalizeLayers fin) e).2 l p = some n3 ∧ n3.marked = true ∧
        n3.value = n0.value ∧ n3.state = n0.state ∧ n3.depth = n0.depth) := by
  have hLS := hf.layers
  have hlenp := hpath.len
  obtain ⟨pt, tn, htn, hv⟩ := hpath.terminal n0 hn0
  rw [hLS] at htn hlenp
  rw [List.length_append, List.length_singleton] at hlenp
  rw [show l + r = fin.layers.length by omega, getNode_full_last] at htn
  have htmem : tn ∈ fin.next := List.mem_of_getElem? htn
  refine ⟨?_, ?_⟩
  · obtain ⟨bv, h1, h2⟩ := Cover.maxValue_ge _ tn htmem
    refine ⟨bv, ?_, by omega⟩
    unfold Built.bestValue
    rw [terminals_finalizeLayers]; exact h1
  · intro hlel
    have hlen : (finalizeLayers fin).layers.length ≤ cfg.P.nbVars + 2 := by
      rw [hLS, List.length_append, List.length_singleton]; have := hf.len; omega
    obtain ⟨n3, hn3, hmk, _⟩ := finalize_good cfg (finalizeLayers fin) e H cfg.root.depth B hy.rel hlel
      (small_of_noClamp hy.B hlen) l p h _ hpath
    obtain ⟨n0', hn0', hs⟩ := (finalize_layers_xEq cfg (finalizeLayers fin) e).getNode_some hn3
    rw [hn0] at hn0'
    cases hn0'
    obtain ⟨e1, e2, _, _, e5, _⟩ := stripB_fields hs
    exact ⟨n3, hn3, hmk, e2.symm, e1.symm, e5.symm⟩

/-- an exact node of the built diagram that starts a potential-preserving path and sits at a position of the cut-set
    is handed out, with its potential -/
theorem Fin.cut_handed {cfg : Cfg S K} {H : Nat → S → EInt} {B t : Int} {Live : Nat → Nat → Prop} {fin : DD S K}
    (hf : Fin cfg H B t Live fin) (hy : HypB cfg H B t) (p0 : List Dec)
    (hwf : CutWF cfg p0 (finalizeLayers fin).layers (finalizeLayers fin).lel) (e : Bool)
    (l p : Nat) (n0 : Node S) (h : Int) (r : Nat)
    (hpath : Path (finalizeLayers fin).layers H cfg.root.depth B l p h r)
    (hn0 : getNode (finalizeLayers fin).layers l p = some n0) (hex : n0.isExact = true)
    (hcs : (l, p) ∈ (computeCutset cfg.kind (finalizeLayers fin).lel (finalizeLayers fin).layers).2) :
    ∃ c ∈ (finalize cfg (finalizeLayers fin) e).1.cutset,
      (H c.depth c.state).addI c.value = some (h + n0.value) := by
  have hlel : (finalizeLayers fin).lel < (finalizeLayers fin).layers.length := by
    rcases Nat.lt_or_ge (finalizeLayers fin).lel (finalizeLayers fin).layers.length with h | h
    · exact h
    · rw [hwf.cutset_nil h] at hcs; cases hcs
  obtain ⟨⟨bv, hbv, _⟩, hgood⟩ := hf.path_bounds hy e l p n0 h r hpath hn0
  obtain ⟨n3, hn3, hmk, e2, e1, e5⟩ := hgood hlel
  obtain ⟨_, _, _, hdepth⟩ := hwf.node _ _ n0 hn0 hex
  refine ⟨subOf cfg (finalize cfg (finalizeLayers fin) e).2 bv n3,
    (finalize_cutset_iff cfg _ e _).2 ⟨bv, (l, p), n3, hbv, by rw [fCs_of_relaxed cfg _ hy.rel]; exact hcs, hn3, hmk, rfl⟩, ?_⟩
  simp only [subOf]
  rw [e5, hdepth, e1, e2]
  obtain ⟨n', hn', hH'⟩ := hpath.node
  rw [hn0] at hn'; cases hn'
  rw [hH']; rfl


/-- **C08 (iv)** for `finalize`: if the potential of the root reaches the threshold `t` and every exact terminal
    value is below `t`, a sub-problem of the cut-set has potential `≥ t` -/
theorem Fin.cutset_cover {cfg : Cfg S K} {H : Nat → S → EInt} {B t : Int} {Live : Nat → Nat → Prop} {fin : DD S K}
    (hf : Fin cfg H B t Live fin) (hy : HypB cfg H B t) (p0 : List Dec)
    (hwf : CutWF cfg p0 (finalizeLayers fin).layers (finalizeLayers fin).lel) (e : Bool)
    (h0 : Int) (hH0 : H cfg.root.depth cfg.root.state = some h0) (ht : t ≤ cfg.root.value + h0)
    (hbe : ∀ be, (finalize cfg (finalizeLayers fin) e).1.bestExactValue = some be → be < t) :
    ∃ c ∈ (finalize cfg (finalizeLayers fin) e).1.cutset, ∃ y, (H c.depth c.state).addI c.value = some y ∧ t ≤ y := by
  have hLS := hf.layers
  have hlenLS : (finalizeLayers fin).layers.length = fin.layers.length + 1 := by
    rw [hLS, List.length_append, List.length_singleton]
  -- no exact terminal node reaches `t`
  have noTerm : ∀ pt tn, getNode (finalizeLayers fin).layers fin.layers.length pt = some tn → tn.isExact = true →
      t ≤ tn.value → False := by
    intro pt tn htn hex hv
    rw [hLS, getNode_full_last] at htn
    have htmem : tn ∈ fin.next := List.mem_of_getElem? htn
    rw [finalize_bestExactValue] at hbe
    cases e with
    | true =>
      obtain ⟨bv, h1, h2⟩ := Cover.maxValue_ge _ tn htmem
      have := hbe bv (by
        simp only [if_true]
        unfold Built.bestValue
        rw [terminals_finalizeLayers]; exact h1)
      omega
    | false =>
      have hmem : tn ∈ (finalizeLayers fin).terminals.filter (·.isExact) := by
        rw [terminals_finalizeLayers]; exact List.mem_filter.2 ⟨htmem, hex⟩
      obtain ⟨bv, h1, h2⟩ := Cover.maxValue_ge _ tn hmem
      have := hbe bv (by simp only [Bool.false_eq_true, if_false]; exact h1)
      omega
  -- the root and its path
  obtain ⟨n0, hn0, hs0, hv0, hlive0⟩ := hf.inv.root_node
  have hpath0 : Path (fin.layers ++ [fin.next]) H cfg.root.depth B 0 0 h0 fin.layers.length :=
    path_of_live cfg H B t hy.P Live fin hf.inv hf.none fin.layers.length 0 0 n0 h0 (by omega) hlive0 hn0
      (by rw [Nat.add_zero, hs0]; exact hH0) (by rw [hv0]; exact ht)
  rw [← hLS] at hn0 hpath0
  have hex0 : n0.isExact = true := hwf.exactUpTo 0 0 n0 hn0 (Nat.zero_le _)
  have ht0 : t ≤ n0.value + h0 := by rw [hv0]; exact ht
  cases hk : cfg.kind with
  | lel =>
    cases hfl : fin.lel with
    | none =>
      exfalso
      have hlel : (finalizeLayers fin).lel = (finalizeLayers fin).layers.length := by
        rw [finalizeLayers_lel, hfl, Option.getD_none]
      obtain ⟨pt, tn, htn, hv⟩ := hpath0.terminal n0 hn0
      rw [Nat.zero_add] at htn
      exact noTerm pt tn htn (hwf.exactUpTo _ pt tn htn (by rw [hlel, hlenLS]; omega)) (by omega)
    | some k =>
      have hlel : (finalizeLayers fin).lel = k := by rw [finalizeLayers_lel, hfl, Option.getD_some]
      obtain ⟨hkT, _⟩ := hf.inv.liveSome k hfl
      obtain ⟨p', n', h', hn', hpath', hv'⟩ := hpath0.descend n0 hn0 k (by omega)
      rw [Nat.zero_add] at hn' hpath'
      have hex' : n'.isExact = true := hwf.exactUpTo k p' n' hn' (by rw [hlel]; exact Nat.le_refl _)
      have hcs : (k, p') ∈ (computeCutset cfg.kind (finalizeLayers fin).lel (finalizeLayers fin).layers).2 := by
        rw [hk, hlel]; exact computeCutset_lel_mem k _ p' n' hn'
      obtain ⟨c, hc, hΦ⟩ := hf.cut_handed hy p0 hwf e k p' n' h' _ hpath' hn' hex' hcs
      exact ⟨c, hc, _, hΦ, by omega⟩
  | frontier =>
    have hcut : ∀ (l p : Nat) (n : Node S), getNode (finalizeLayers fin).layers l p = some n → n.cutset = false := by
      intro l p n hn
      rcases finalizeLayers_at fin hn with ⟨ly, hly, hmem⟩ | ⟨_, hmem⟩
      · exact hf.inv.cutL ly (List.mem_of_getElem? hly) n hmem
      · exact hf.inv.cutN n hmem
    rcases hpath0.frontier t n0 hn0 hex0 ht0 with ⟨pt, tn, htn, hte, htv⟩ | ⟨l1, p1, n1, h1, r1, p2, m, e', hp1, hn1, hex1, hv1, hm, hmex, he', hfl, hfp⟩
    · exfalso
      rw [Nat.zero_add] at htn
      exact noTerm pt tn htn hte htv
    · have hcs := computeCutset_frontier_mem (finalizeLayers fin).lel (finalizeLayers fin).layers hcut (l1 + 1) p2 m e' n1
        hm hmex he' (by rw [hfl, hfp]; exact hn1) hex1
      rw [hfl, hfp, ← hk] at hcs
      obtain ⟨c, hc, hΦ⟩ := hf.cut_handed hy p0 hwf e l1 p1 n1 h1 r1 hp1 hn1 hex1 hcs
      exact ⟨c, hc, _, hΦ, by omega⟩


/-! ## the degenerate incumbent `lb = isize::MAX`: everything is pruned, the cut-set is empty -/

theorem expandOne_lbmax (cfg : Cfg S K) (hlb : cfg.lb = iMax) (var lidx : Nat)
    (acc : List (Node S) × List (Node S) × List (Call S)) (p : Nat) (h : acc.2.1 = []) :
    (expandOne cfg var lidx acc p).2.1 = [] := by
  obtain ⟨ly, nx, lg⟩ := acc
  cases hp : ly[p]? with
  | none => rw [Cover.expandOne_none _ _ _ _ _ _ _ hp]; exact h
  | some n =>
    rw [Cover.expandOne_some _ _ _ _ _ _ _ n hp]
    have : ¬ satAdd (cfg.R.rub n.state) n.value > cfg.lb := by
      have := (clamp_in (cfg.R.rub n.state + n.value)).2
      rw [hlb]; unfold satAdd; omega
    rw [if_neg this]; exact h

theorem expandAll_lbmax (cfg : Cfg S K) (hlb : cfg.lb = iMax) (var lidx : Nat) (layer : List (Node S)) (cur : List Nat)
    (lg : List (Call S)) : (expandAll cfg var lidx layer cur lg).2.1 = [] := by
  unfold expandAll
  exact Ddo.foldl_inv (β := List (Node S) × List (Node S) × List (Call S)) (fun acc => acc.2.1 = []) _ cur _ rfl
    (fun b p _ hb => expandOne_lbmax cfg hlb var lidx b p hb)

/-- with `lb = isize::MAX` the diagram never gets past its first layer: `lel` stays unset or the terminal layer is empty -/
theorem buildLoop_lbmax (cfg : Cfg S K) (hlb : cfg.lb = iMax) (hrel : cfg.ctype = .relaxed) (hW : 1 ≤ cfg.width)
    (hc : cfg.useCache = false) (hd : cfg.dom = none) (stopAt : Option Nat) :
    ∀ (fuel : Nat) (dd : DD S K), (dd.layers = [] ∧ dd.lel = none ∧ dd.next.length ≤ 1) ∨ dd.next = [] →
      (buildLoop cfg stopAt fuel dd).2 = .ok →
      (buildLoop cfg stopAt fuel dd).1.lel = none ∨ (buildLoop cfg stopAt fuel dd).1.next = [] := by
  cases stopAt <;> intro fuel <;> induction fuel with
  | zero => intro dd _ h; simp [buildLoop] at h
  | succ fuel ih =>
    intro dd hP hok
    unfold buildLoop at hok ⊢
    dsimp only at hok ⊢
    split
    · rcases hP with ⟨_, h, _⟩ | h
      · exact .inl h
      · exact .inr h
    · rename_i var hvar
      rw [hvar] at hok ⊢
      dsimp only at hok ⊢
      split
      · rename_i hstop
        rw [if_pos hstop] at hok
        cases hok
      · rename_i hstop
        rw [if_neg hstop] at hok
        generalize hdd1 : (DD.mk dd.layers dd.next dd.depth dd.lel dd.cache dd.store _ dd.cacheLog _ dd.ndom) = dd1 at hok ⊢
        have e1 : dd1.layers = dd.layers := by rw [← hdd1]
        have e2 : dd1.next = dd.next := by rw [← hdd1]
        have e4 : dd1.lel = dd.lel := by rw [← hdd1]
        by_cases hne : dd1.next = []
        · rw [stepLayer_empty cfg dd1 var hne] at hok ⊢
          exact .inr hne
        · rcases hP with ⟨hl, hlel, hnx⟩ | h
          · -- the first layer: no squash, every node is pruned
            rcases squash_cases cfg dd1 dd1.next (List.range dd1.next.length) hrel hW with ⟨_, hsq⟩ | ⟨_, c2, _⟩
            · obtain ⟨dd', hst, _, hn', _, _⟩ := stepLayer_ok' cfg dd1 var hne hc hd _ hsq
              rw [hst] at hok ⊢
              dsimp only at hok ⊢
              exact ih dd' (.inr (by rw [hn']; exact expandAll_lbmax cfg hlb _ _ _ _ _)) hok
            · rw [e1, hl] at c2; simp at c2
          · exact absurd (e2 ▸ h) hne


/-! ## `compile` -/

theorem finalize_cutset_of_empty (cfg : Cfg S K) (fin : DD S K) (e : Bool) (hn : fin.next = []) :
    (finalize cfg (finalizeLayers fin) e).1.cutset = [] := by
  rw [List.eq_nil_iff_forall_not_mem]
  intro c hc
  obtain ⟨bv, _, _, hbv, _⟩ := (finalize_cutset_iff cfg _ e c).1 hc
  unfold Built.bestValue at hbv
  rw [terminals_finalizeLayers, hn] at hbv
  cases hbv

/-- the invariant at the end of the top-down build of a compilation that ends normally -/
theorem compile_done (cfg : Cfg S K) (H : Nat → S → EInt) (B t : Int) (hy : HypB cfg H B t)
    (cache : Cache S) (store : DomStore S K) (polls : Nat) (stopAt : Option Nat)
    (hok : (compile cfg cache store polls stopAt).1 = .ok) :
    Done cfg H B t (buildLoop cfg stopAt (cfg.P.nbVars + 2) (initDD cfg cache store polls)).1 :=
  buildLoop_binv cfg H B t hy stopAt (cfg.P.nbVars + 2) (initDD cfg cache store polls) _
    (init_binv cfg H B t cache store polls hy.B) (by simp only [initDD, List.length_nil]; omega)
    (Ddo.compile_ok cfg cache store polls stopAt hok).1

theorem compile_lbmax_cutset (cfg : Cfg S K) (B : Int) (p0 : List Dec) (hlb : cfg.lb = iMax) (hrel : cfg.ctype = .relaxed)
    (hW : 1 ≤ cfg.width) (hc : cfg.useCache = false) (hd : cfg.dom = none)
    (hB : NoClamp cfg.P cfg.R cfg.root.value B)
    (hroot : Reach cfg.P cfg.root.depth cfg.root.state cfg.root.value p0)
    (cache : Cache S) (store : DomStore S K) (polls : Nat) (stopAt : Option Nat)
    (hok : (compile cfg cache store polls stopAt).1 = .ok) (e : Bool) :
    (finalize cfg (finalizeLayers (buildLoop cfg stopAt (cfg.P.nbVars + 2) (initDD cfg cache store polls)).1) e).1.cutset = [] := by
  have hwf := compile_wf cfg B p0 hB hroot cache store polls stopAt
  rcases buildLoop_lbmax cfg hlb hrel hW hc hd stopAt (cfg.P.nbVars + 2) (initDD cfg cache store polls)
    (.inl ⟨rfl, rfl, Nat.le_refl _⟩) (Ddo.compile_ok cfg cache store polls stopAt hok).1 with h | h
  · refine finalize_cutset_nil cfg p0 _ e hwf ?_
    rw [finalizeLayers_lel, h, Option.getD_none]
    exact Nat.le_refl _
  · exact finalize_cutset_of_empty cfg _ e h

end Ddo.Bounds
