import DdoModel.Props.C01d
/-! A family of tiny **well-formed** models for the non-vacuity / counter-example sections of `Props/C09c.lean`.

`TwoState`: `n` binary variables in static order; the state is the last decision (`0` initially), the cost of a decision is
read in a table `c var (state = 1) (decision = 1)`; the relaxation merges to state `1` whenever it is present (`merge`),
leaves the costs alone, and has a constant rough upper bound.  The value-to-go `hfrom` is the dynamic program over the
table.  The model is `WellFormed` (`Props/C01d.lean`) as soon as state `1` dominates state `0` cost-wise (`Dom`: then its
value-to-go dominates too, which is what `MergeOk` needs), the rough upper bound dominates the value-to-go (`RubDom`) and
the costs are bounded.  All three conditions are decidable for a table given as a list (`ofList`). -/
set_option linter.unusedSectionVars false
set_option linter.unusedVariables false
namespace Ddo.C09.TwoState
open Ddo Ddo.C01 Ddo.Closed

/-- a cost table -/
structure Tab where
  n : Nat
  /-- `c var (state = 1) (decision = 1)` -/
  c : Nat → Bool → Bool → Int
  rub : Int

def prob (T : Tab) : Problem Int :=
  { nbVars := T.n, init := 0, initVal := 0,
    trans := fun _ d => if d.val = 1 then 1 else 0,
    cost := fun s _ d => T.c d.var (decide (s = 1)) (decide (d.val = 1)),
    nextVar := fun k _ => if k < T.n then some k else none,
    domain := fun _ _ => [0, 1],
    impacted := fun _ _ => true }

def rlx (T : Tab) : Relax Int :=
  { merge := fun X => if (1 : Int) ∈ X then 1 else 0, relax := fun _ _ _ _ c => c, rub := fun _ => T.rub }

def sv (T : Tab) (w : Nat) (dedup : Bool) (kind : CutsetKind) : SolverCfg Int :=
  { P := prob T, R := rlx T, rank := ⟨fun a b => icmp a b⟩, width := fun _ => w, kind := kind, dedup := dedup }

/-- value-to-go with `j` variables left, from state `1` (`true`) / another state (`false`) -/
def hfrom (T : Tab) : Nat → Bool → Int
  | 0, _ => 0
  | j + 1, b => max (T.c (T.n - (j + 1)) b false + hfrom T j false) (T.c (T.n - (j + 1)) b true + hfrom T j true)

def H (T : Tab) (k : Nat) (s : Int) : EInt := some (hfrom T (T.n - k) (decide (s = 1)))

/-- state `1` dominates cost-wise -/
def Dom (T : Tab) : Prop := ∀ k d, T.c k false d ≤ T.c k true d
/-- the rough upper bound dominates the value-to-go -/
def RubDom (T : Tab) : Prop := ∀ j b, j ≤ T.n → hfrom T j b ≤ T.rub

theorem nv_some {T : Tab} {k : Nat} {L : List Int} {x : Nat} (h : (prob T).nextVar k L = some x) : k < T.n ∧ x = k := by
  simp only [prob] at h
  split at h
  · next hk => cases h; exact ⟨hk, rfl⟩
  · cases h

theorem hfrom_step (T : Tab) (k : Nat) (hk : k < T.n) (b : Bool) :
    hfrom T (T.n - k) b = max (T.c k b false + hfrom T (T.n - (k + 1)) false) (T.c k b true + hfrom T (T.n - (k + 1)) true) := by
  have e : T.n - k = (T.n - (k + 1)) + 1 := by omega
  rw [e, hfrom]
  have e2 : T.n - (T.n - (k + 1) + 1) = k := by omega
  rw [e2]

theorem trans_one (T : Tab) (s : Int) (k : Nat) : (prob T).trans s ⟨k, 1⟩ = 1 := by simp [prob]
theorem trans_zero (T : Tab) (s : Int) (k : Nat) : (prob T).trans s ⟨k, 0⟩ = 0 := by simp [prob]
theorem cost_one (T : Tab) (s s' : Int) (k : Nat) : (prob T).cost s s' ⟨k, 1⟩ = T.c k (decide (s = 1)) true := by
  simp [prob]
theorem cost_zero (T : Tab) (s s' : Int) (k : Nat) : (prob T).cost s s' ⟨k, 0⟩ = T.c k (decide (s = 1)) false := by
  simp [prob]
theorem H_one (T : Tab) (k : Nat) : H T k 1 = some (hfrom T (T.n - k) true) := by simp [H]
theorem H_zero (T : Tab) (k : Nat) : H T k 0 = some (hfrom T (T.n - k) false) := by simp [H]

theorem potential (T : Tab) : Potential (prob T) (H T) := by
  constructor
  · intro k L x s h hnv _ hH
    obtain ⟨hk, hx⟩ := nv_some hnv; subst x
    simp only [H, Option.some.injEq] at hH
    rw [hfrom_step T k hk] at hH
    by_cases hc : T.c k (decide (s = 1)) false + hfrom T (T.n - (k + 1)) false ≤
        T.c k (decide (s = 1)) true + hfrom T (T.n - (k + 1)) true
    · refine ⟨1, by simp [prob], hfrom T (T.n - (k + 1)) true, by rw [trans_one, H_one], ?_⟩
      rw [trans_one, cost_one]
      omega
    · refine ⟨0, by simp [prob], hfrom T (T.n - (k + 1)) false, by rw [trans_zero, H_zero], ?_⟩
      rw [trans_zero, cost_zero]
      omega
  · intro k L x s v p d _ hnv _ hd
    obtain ⟨hk, hx⟩ := nv_some hnv; subst x
    have hd' : d = 0 ∨ d = 1 := by simpa [prob] using hd
    have hs : H T k s = some (hfrom T (T.n - k) (decide (s = 1))) := rfl
    rw [hs, hfrom_step T k hk]
    rcases hd' with rfl | rfl
    · rw [trans_zero, cost_zero, H_zero]
      simp only [EInt.addI, Option.map_some, EInt.some_le_some]
      omega
    · rw [trans_one, cost_one, H_one]
      simp only [EInt.addI, Option.map_some, EInt.some_le_some]
      omega
  · intro k L s hnv _
    simp only [prob] at hnv
    split at hnv
    · cases hnv
    · next hk =>
      have : T.n - k = 0 := by omega
      simp only [H, this, hfrom]

theorem hfrom_mono (T : Tab) (hD : Dom T) : ∀ j, hfrom T j false ≤ hfrom T j true := by
  intro j
  cases j with
  | zero => exact Int.le_refl _
  | succ j =>
    simp only [hfrom]
    have h1 := hD (T.n - (j + 1)) false
    have h2 := hD (T.n - (j + 1)) true
    omega

theorem mergeOk (T : Tab) (hD : Dom T) : MergeOk (rlx T) (H T) := by
  intro k X u src d c h hu hH
  simp only [H, Option.some.injEq] at hH
  by_cases h1 : (1 : Int) ∈ X
  · refine ⟨hfrom T (T.n - k) true, by simp [rlx, h1, H], ?_⟩
    have hm := hfrom_mono T hD (T.n - k)
    simp only [rlx]
    cases hb : decide (u = 1) with
    | true => rw [hb] at hH; omega
    | false => rw [hb] at hH; omega
  · have hu1 : u ≠ 1 := fun e => h1 (e ▸ hu)
    have hb : decide (u = 1) = false := decide_eq_false hu1
    have hz : decide ((0 : Int) = 1) = false := by decide
    refine ⟨hfrom T (T.n - k) false, by simp [rlx, h1, H], ?_⟩
    rw [hb] at hH
    simp only [rlx]
    omega

theorem rubOk (T : Tab) (hR : RubDom T) : RubOk (rlx T) (H T) := by
  intro k s h hH
  simp only [H, Option.some.injEq] at hH
  have := hR (T.n - k) (decide (s = 1)) (by omega)
  simp only [rlx]
  omega

theorem nvBound (T : Tab) : NvBound (prob T) := by
  intro k L hk
  have : ¬ k < T.n := by simp only [prob] at hk; omega
  simp only [prob, this, if_false]

theorem runBound (T : Tab) (B0 B : Int) (hc : ∀ k b d, -B0 ≤ T.c k b d ∧ T.c k b d ≤ B0) (hB0 : 0 ≤ B0)
    (hfit : ((T.n : Int) + 1) * B0 ≤ B) (hsmall : ((T.n : Int) + 2) * B ≤ 4611686018427387904) :
    RunBound (prob T) (rlx T) B0 B := by
  have hBB : B0 ≤ B := by
    have h1 : (0 : Int) ≤ (T.n : Int) * B0 := Int.mul_nonneg (by omega) hB0
    rw [Int.add_mul, Int.one_mul] at hfit
    omega
  refine ⟨⟨by omega, ?_, ?_, fun s u m d c hcc => hcc, hsmall⟩, ⟨?_, ?_⟩, hfit⟩
  · show -B ≤ (0 : Int) ∧ (0 : Int) ≤ B
    omega
  · intro s s' d
    have := hc d.var (decide (s = 1)) (decide (d.val = 1))
    show -B ≤ T.c _ _ _ ∧ T.c _ _ _ ≤ B
    omega
  · show -B0 ≤ (0 : Int) ∧ (0 : Int) ≤ B0
    omega
  · intro s s' d
    exact hc d.var (decide (s = 1)) (decide (d.val = 1))

/-- **the two-state models are well formed** -/
theorem wellFormed (T : Tab) (w : Nat) (dedup : Bool) (kind : CutsetKind) (B0 B : Int) (hw : 1 ≤ w)
    (hD : Dom T) (hR : RubDom T) (hc : ∀ k b d, -B0 ≤ T.c k b d ∧ T.c k b d ≤ B0) (hB0 : 0 ≤ B0)
    (hfit : ((T.n : Int) + 1) * B0 ≤ B) (hsmall : ((T.n : Int) + 2) * B ≤ 4611686018427387904) :
    WellFormed (sv T w dedup kind) (H T) B0 B :=
  ⟨potential T, rubOk T hR, mergeOk T hD, Cover.attMerge_of_static (potential T) (fun _ _ _ _ _ => rfl),
    runBound T B0 B hc hB0 hfit hsmall, nvBound T, fun _ => hw⟩

/-! ## tables given as lists: `[c 0 F F, c 0 F T, c 0 T F, c 0 T T, c 1 F F, …]` -/

def ofList (n : Nat) (l : List Int) (rub : Int) : Tab :=
  { n := n, c := fun k b d => l.getD (4 * k + 2 * b.toNat + d.toNat) 0, rub := rub }

/-- the decidable check -/
def check (n : Nat) (l : List Int) (rub B0 : Int) : Bool :=
  decide (l.length = 4 * n) &&
  (List.range n).all (fun k => [false, true].all (fun d => decide ((ofList n l rub).c k false d ≤ (ofList n l rub).c k true d))) &&
  (List.range (n + 1)).all (fun j => [false, true].all (fun b => decide (hfrom (ofList n l rub) j b ≤ rub))) &&
  l.all (fun x => decide (-B0 ≤ x ∧ x ≤ B0)) && decide (0 ≤ B0)

theorem getD_bound (l : List Int) (i : Nat) (B0 : Int) (h : ∀ x ∈ l, -B0 ≤ x ∧ x ≤ B0) (h0 : 0 ≤ B0) :
    -B0 ≤ l.getD i 0 ∧ l.getD i 0 ≤ B0 := by
  rw [List.getD_eq_getElem?_getD]
  cases hi : l[i]? with
  | none => simp only [Option.getD_none]; omega
  | some x => simp only [Option.getD_some]; exact h x (List.mem_of_getElem? hi)

theorem wellFormed_ofList (n : Nat) (l : List Int) (rub B0 B : Int) (w : Nat) (dedup : Bool) (kind : CutsetKind)
    (hw : 1 ≤ w) (hck : check n l rub B0 = true)
    (hfit : ((n : Int) + 1) * B0 ≤ B) (hsmall : ((n : Int) + 2) * B ≤ 4611686018427387904) :
    WellFormed (sv (ofList n l rub) w dedup kind) (H (ofList n l rub)) B0 B := by
  simp only [check, Bool.and_eq_true, decide_eq_true_eq, List.all_eq_true, List.mem_range, List.mem_cons,
    List.not_mem_nil, or_false] at hck
  obtain ⟨⟨⟨⟨hlen, hdom⟩, hrub⟩, hbd⟩, hB0⟩ := hck
  refine wellFormed _ w dedup kind B0 B hw ?_ ?_ ?_ hB0 hfit hsmall
  · intro k d
    by_cases hk : k < n
    · exact hdom k hk d (by cases d <;> simp)
    · have h1 : (ofList n l rub).c k false d = 0 := by
        show l.getD _ 0 = 0
        rw [List.getD_eq_getElem?_getD, List.getElem?_eq_none (by omega)]; rfl
      have h2 : (ofList n l rub).c k true d = 0 := by
        show l.getD _ 0 = 0
        rw [List.getD_eq_getElem?_getD, List.getElem?_eq_none (by omega)]; rfl
      rw [h1, h2]; exact Int.le_refl _
  · intro j b hj
    exact hrub j (Nat.lt_succ_of_le hj) b (by cases b <;> simp)
  · intro k b d
    exact getD_bound l _ B0 hbd hB0

end Ddo.C09.TwoState

#print axioms Ddo.C09.TwoState.wellFormed
#print axioms Ddo.C09.TwoState.wellFormed_ofList
