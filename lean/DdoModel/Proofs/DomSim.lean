import DdoModel.Proofs.DomSound
/-! # Simulation-admissible dominance rules have an undominated optimal strategy

The classical *consistency* condition of the branch-and-bound literature (Ibaraki 1977: "if `a` dominates `b` then every child
of `b` is dominated-or-equalled by a child of `a`") — `SimAdmissible` — implies the hypothesis `UndomOpt` under which
`Proofs/DomSound.lean` shows that the solver with the dominance checker enabled stays optimal (`undomOpt_of_sim`), and it implies
the value-based `Admissible` (`admissible_of_sim`).

Proof of `undomOpt_of_sim`.  `Good k s v` = "`(s, v)` is reached exactly at depth `k`, is not dominated by an exactly reached
item of depth `k`, and — unless `k` is the terminal depth, where `v = opt` — has a child that is `Good`".

* `Good` is upward closed for `GeItem` among exactly reached items (`good_up`: simulation step by step; "undominated" is
  upward closed because `Dominates` composes with `GeItem`);
* the exactly reached items of a depth are the members of a list (`layerItems`), so above every reached item there is an
  undominated reached item (`exists_undom_above`, from the generic `exists_max`);
* by induction from the terminal depth upwards every depth that has an exactly reached item on an optimal solution has a `Good`
  item (`exists_good`): take a `Good` item of the next depth, its parent, an undominated item above the parent; by simulation
  that item has a child above the `Good` item, which is `Good` by upward closure;
* at depth `0` the only reached item is the root: `Good` is a protected family. -/
set_option linter.unusedSectionVars false
set_option linter.unusedVariables false
namespace Ddo.C10
open Ddo Ddo.Closed
variable {S K : Type}

/-! ## definitions -/

/-- `(a, va)` is at least as good as `(b, vb)`: the same state with a value at least as large, or — states of the same key — at
    least as good on every coordinate (and on the value when the rule uses it); `n` = the uniform number of dimensions -/
def GeItem (D : DomRule S K) (n : Nat) (a : S) (va : Int) (b : S) (vb : Int) : Prop :=
  (a = b ∧ vb ≤ va) ∨
  ((∃ k, D.key a = some k ∧ D.key b = some k) ∧ geEnt D.useValue (D.ent n a va) (D.ent n b vb) = true)

/-- **simulation-admissible rule** (consistency with the transition system): whenever `(a, va)` is at least as good as
    `(b, vb)` — both reached exactly at depth `d` —, every decision available to `b` is matched by a decision available to `a`
    whose child is at least as good as `b`'s child, and at the terminal depth `va ≥ vb`. -/
structure SimAdmissible (D : DomRule S K) (P : Problem S) (n : Nat) : Prop where
  step : ∀ d a va b vb pa pb L x, Reach P d a va pa → Reach P d b vb pb → GeItem D n a va b vb →
    P.nextVar d L = some x → b ∈ L → ∀ db ∈ P.domain x b, ∃ da ∈ P.domain x a,
      GeItem D n (P.trans a ⟨x, da⟩) (va + P.cost a (P.trans a ⟨x, da⟩) ⟨x, da⟩)
                 (P.trans b ⟨x, db⟩) (vb + P.cost b (P.trans b ⟨x, db⟩) ⟨x, db⟩)
  term : ∀ d a va b vb pa pb L, Reach P d a va pa → Reach P d b vb pb → GeItem D n a va b vb →
    P.nextVar d L = none → b ∈ L → vb ≤ va

/-- the variable selected at a depth does not depend on the states of the layer -/
def StaticOrder (P : Problem S) : Prop := ∀ k L L', L ≠ [] → L' ≠ [] → P.nextVar k L = P.nextVar k L'

/-! ## the variable of a depth -/

/-- the variable of depth `k` under a static order -/
def nvar (P : Problem S) (k : Nat) : Option Nat := P.nextVar k [P.init]

theorem nv_eq {P : Problem S} (hstat : StaticOrder P) {k : Nat} {L : List S} {s : S} (hs : s ∈ L) :
    P.nextVar k L = nvar P k :=
  hstat k L [P.init] (List.ne_nil_of_mem hs) (by simp)

theorem nv_one {P : Problem S} (hstat : StaticOrder P) (k : Nat) (s : S) : P.nextVar k [s] = nvar P k :=
  nv_eq hstat List.mem_cons_self

/-! ## `GeItem` is a preorder, `Dominates` is its strict part on items with a key -/

theorem ent_len (D : DomRule S K) (n : Nat) (s : S) (v : Int) : (D.ent n s v).coords.length = n := by
  simp [DomRule.ent, DomRule.coordsN_len]

theorem geEnt_same (D : DomRule S K) (n : Nat) (a : S) {va vb : Int} (h : vb ≤ va) :
    geEnt D.useValue (D.ent n a va) (D.ent n a vb) = true := by
  simp [geEnt, DomRule.ent, leB_refl, h]

theorem GeItem.refl (D : DomRule S K) (n : Nat) (a : S) (va : Int) : GeItem D n a va a va :=
  Or.inl ⟨rfl, Int.le_refl _⟩

theorem GeItem.ge {D : DomRule S K} {n : Nat} {a b : S} {va vb : Int} (h : GeItem D n a va b vb) :
    geEnt D.useValue (D.ent n a va) (D.ent n b vb) = true := by
  rcases h with ⟨rfl, h⟩ | ⟨_, h⟩
  · exact geEnt_same D n a h
  · exact h

theorem GeItem.key_iff {D : DomRule S K} {n : Nat} {a b : S} {va vb : Int} (h : GeItem D n a va b vb) (k : K) :
    D.key a = some k ↔ D.key b = some k := by
  rcases h with ⟨rfl, _⟩ | ⟨⟨k', ha, hb⟩, _⟩
  · exact Iff.rfl
  · rw [ha, hb]

theorem GeItem.trans {D : DomRule S K} {n : Nat} {a b c : S} {va vb vc : Int}
    (h1 : GeItem D n a va b vb) (h2 : GeItem D n b vb c vc) : GeItem D n a va c vc := by
  have hge : geEnt D.useValue (D.ent n a va) (D.ent n c vc) = true :=
    geEnt_trans (by rw [ent_len, ent_len]) (by rw [ent_len, ent_len]) h1.ge h2.ge
  rcases h1 with ⟨rfl, h1v⟩ | ⟨⟨k, ha, hb⟩, _⟩
  · rcases h2 with ⟨rfl, h2v⟩ | ⟨hk, _⟩
    · exact Or.inl ⟨rfl, by omega⟩
    · exact Or.inr ⟨hk, hge⟩
  · exact Or.inr ⟨⟨k, ha, (h2.key_iff k).mp hb⟩, hge⟩

theorem Dominates.geItem {D : DomRule S K} {n : Nat} (hdim : ∀ s, D.dims s = n) {a b : S} {va vb : Int}
    (h : Dominates D a va b vb) : GeItem D n a va b vb := by
  obtain ⟨hk, hd⟩ := h
  rw [hdim b] at hd
  simp only [domEnt, Bool.and_eq_true] at hd
  exact Or.inr ⟨hk, hd.1⟩

theorem Dominates.not_geItem {D : DomRule S K} {n : Nat} (hdim : ∀ s, D.dims s = n) {a b : S} {va vb : Int}
    (h : Dominates D a va b vb) : ¬ GeItem D n b vb a va := by
  intro hg
  obtain ⟨_, hd⟩ := h
  rw [hdim b] at hd
  simp only [domEnt, Bool.and_eq_true, Bool.not_eq_true'] at hd
  have := hg.ge
  rw [hd.2] at this
  cases this

/-- `Dominates` composes with `GeItem` -/
theorem Dominates.trans_ge {D : DomRule S K} {n : Nat} (hdim : ∀ s, D.dims s = n) {e a b : S} {ve va vb : Int}
    (h : Dominates D e ve a va) (hg : GeItem D n a va b vb) : Dominates D e ve b vb := by
  obtain ⟨⟨k, hke, hka⟩, hd⟩ := h
  rw [hdim a] at hd
  refine ⟨⟨k, hke, (hg.key_iff k).mp hka⟩, ?_⟩
  rw [hdim b]
  exact dom_ge_trans (by rw [ent_len, ent_len]) (by rw [ent_len, ent_len]) hd hg.ge

/-- not dominated by an exactly reached item of the same depth -/
def Undom (D : DomRule S K) (P : Problem S) (k : Nat) (s : S) (v : Int) : Prop :=
  ∀ a va pa, Reach P k a va pa → ¬ Dominates D a va s v

/-- "undominated" is upward closed -/
theorem Undom.up {D : DomRule S K} {P : Problem S} {n : Nat} (hdim : ∀ s, D.dims s = n) {k : Nat} {a b : S} {va vb : Int}
    (h : Undom D P k b vb) (hg : GeItem D n a va b vb) : Undom D P k a va :=
  fun e ve pe hre hd => h e ve pe hre (hd.trans_ge hdim hg)

/-! ## maximal elements of a preorder on a list -/

theorem exists_max {α : Type} (ge : α → α → Prop) (hrefl : ∀ x, ge x x) (htrans : ∀ x y z, ge x y → ge y z → ge x z) :
    ∀ (l : List α) (x : α), ∃ y, (y = x ∨ y ∈ l) ∧ ge y x ∧ ∀ z ∈ l, ge z y → ge y z := by
  intro l
  induction l with
  | nil => intro x; exact ⟨x, Or.inl rfl, hrefl x, fun z hz => by cases hz⟩
  | cons a l ih =>
    intro x
    obtain ⟨y, hy, hyx, hmax⟩ := ih x
    by_cases h : ge a y ∧ ¬ ge y a
    · obtain ⟨y2, hy2, hy2a, hmax2⟩ := ih a
      refine ⟨y2, ?_, htrans _ _ _ hy2a (htrans _ _ _ h.1 hyx), ?_⟩
      · rcases hy2 with rfl | h2
        · exact Or.inr List.mem_cons_self
        · exact Or.inr (List.mem_cons_of_mem _ h2)
      · intro z hz hzy
        rcases List.mem_cons.mp hz with rfl | hz'
        · exact hy2a
        · exact hmax2 z hz' hzy
    · refine ⟨y, ?_, hyx, ?_⟩
      · rcases hy with rfl | h2
        · exact Or.inl rfl
        · exact Or.inr (List.mem_cons_of_mem _ h2)
      · intro z hz hzy
        rcases List.mem_cons.mp hz with rfl | hz'
        · exact Classical.byContradiction (fun hn => h ⟨hzy, hn⟩)
        · exact hmax z hz' hzy

/-! ## the exactly reached items of a depth form a finite set -/

def childItem (P : Problem S) (x : Nat) (it : S × Int) (d : Int) : S × Int :=
  (P.trans it.1 ⟨x, d⟩, it.2 + P.cost it.1 (P.trans it.1 ⟨x, d⟩) ⟨x, d⟩)

/-- all items reached exactly at a depth (static order) -/
def layerItems (P : Problem S) : Nat → List (S × Int)
  | 0 => [(P.init, P.initVal)]
  | k + 1 =>
    match nvar P k with
    | none => []
    | some x => (layerItems P k).flatMap (fun it => (P.domain x it.1).map (childItem P x it))

theorem reach_mem_layer {P : Problem S} (hstat : StaticOrder P) {k : Nat} {s : S} {v : Int} {p : List Dec}
    (h : Reach P k s v p) : (s, v) ∈ layerItems P k := by
  induction h with
  | root => simp [layerItems]
  | step k s v p L x d hr hnv hs hd ih =>
    rw [nv_eq hstat hs] at hnv
    simp only [layerItems, hnv, List.mem_flatMap, List.mem_map]
    exact ⟨(s, v), ih, d, hd, rfl⟩

theorem layer_reach {P : Problem S} (hstat : StaticOrder P) : ∀ (k : Nat) (s : S) (v : Int),
    (s, v) ∈ layerItems P k → ∃ p, Reach P k s v p := by
  intro k
  induction k with
  | zero =>
    intro s v h
    simp only [layerItems, List.mem_singleton, Prod.mk.injEq] at h
    obtain ⟨rfl, rfl⟩ := h
    exact ⟨[], Reach.root⟩
  | succ k ih =>
    intro s v h
    cases hnv : nvar P k with
    | none => simp [layerItems, hnv] at h
    | some x =>
      simp only [layerItems, hnv, List.mem_flatMap, List.mem_map] at h
      obtain ⟨⟨s0, v0⟩, h0, d, hd, e⟩ := h
      obtain ⟨p, hr⟩ := ih s0 v0 h0
      simp only [childItem, Prod.mk.injEq] at e
      obtain ⟨rfl, rfl⟩ := e
      exact ⟨_, Reach.step k s0 v0 p [s0] x d hr (by rw [nv_one hstat]; exact hnv) List.mem_cons_self hd⟩

/-- above every exactly reached item there is an undominated exactly reached item of the same depth -/
theorem exists_undom_above {D : DomRule S K} {P : Problem S} {n : Nat} (hdim : ∀ s, D.dims s = n) (hstat : StaticOrder P)
    {k : Nat} {s : S} {v : Int} {p : List Dec} (hr : Reach P k s v p) :
    ∃ s' v' p', Reach P k s' v' p' ∧ GeItem D n s' v' s v ∧ Undom D P k s' v' := by
  obtain ⟨⟨s', v'⟩, hmem, hge, hmax⟩ :=
    exists_max (fun (y x : S × Int) => GeItem D n y.1 y.2 x.1 x.2) (fun x => GeItem.refl D n x.1 x.2)
      (fun x y z h1 h2 => GeItem.trans h1 h2) (layerItems P k) (s, v)
  have hmem' : (s', v') ∈ layerItems P k := by
    rcases hmem with e | h
    · rw [e]; exact reach_mem_layer hstat hr
    · exact h
  obtain ⟨p', hr'⟩ := layer_reach hstat k s' v' hmem'
  refine ⟨s', v', p', hr', hge, fun e ve pe hre hd => ?_⟩
  exact hd.not_geItem hdim (hmax (e, ve) (reach_mem_layer hstat hre) (hd.geItem hdim))

/-! ## the protected family -/

/-- `(s, v)` is reached exactly at depth `k`, undominated, and the start of an undominated path to a complete solution of
    value `opt` -/
inductive Good (D : DomRule S K) (P : Problem S) (opt : Int) : Nat → S → Int → Prop
  | term (k : Nat) (s : S) (v : Int) (p : List Dec) : Reach P k s v p → nvar P k = none → v = opt → Undom D P k s v →
      Good D P opt k s v
  | step (k : Nat) (s : S) (v : Int) (p : List Dec) (x : Nat) (d : Int) : Reach P k s v p → nvar P k = some x →
      d ∈ P.domain x s → Undom D P k s v →
      Good D P opt (k + 1) (P.trans s ⟨x, d⟩) (v + P.cost s (P.trans s ⟨x, d⟩) ⟨x, d⟩) → Good D P opt k s v

theorem Good.reach {D : DomRule S K} {P : Problem S} {opt : Int} {k : Nat} {s : S} {v : Int} (h : Good D P opt k s v) :
    ∃ p, Reach P k s v p := by
  cases h with
  | term _ _ _ p hr _ _ _ => exact ⟨p, hr⟩
  | step _ _ _ p _ _ hr _ _ _ _ => exact ⟨p, hr⟩

theorem Good.undom {D : DomRule S K} {P : Problem S} {opt : Int} {k : Nat} {s : S} {v : Int} (h : Good D P opt k s v) :
    Undom D P k s v := by
  cases h with
  | term _ _ _ _ _ _ _ hu => exact hu
  | step _ _ _ _ _ _ _ _ _ hu _ => exact hu

/-- the value of a complete exactly reached item is at most the optimum -/
theorem complete_le {P : Problem S} {H : Nat → S → EInt} {opt : Int} (hP : Potential P H) (hstat : StaticOrder P)
    (hopt : (H 0 P.init).addI P.initVal = some opt) {k : Nat} {s : S} {v : Int} {p : List Dec} (hr : Reach P k s v p)
    (hnv : nvar P k = none) : v ≤ opt := by
  have hH := hP.term k [s] s (by rw [nv_one hstat]; exact hnv) List.mem_cons_self
  have h := reach_le_root hP hr
  rw [hH, hopt] at h
  simp only [EInt.addI, Option.map_some, EInt.some_le_some] at h
  omega

/-- a `Good` item lies on an optimal solution -/
theorem Good.opt {D : DomRule S K} {P : Problem S} {H : Nat → S → EInt} {opt : Int} (hP : Potential P H)
    (hstat : StaticOrder P) (hopt : (H 0 P.init).addI P.initVal = some opt) {k : Nat} {s : S} {v : Int}
    (h : Good D P opt k s v) : (H k s).addI v = some opt := by
  induction h with
  | term k s v p hr hnv hv _ =>
    have hH := hP.term k [s] s (by rw [nv_one hstat]; exact hnv) List.mem_cons_self
    rw [hH, hv]
    simp [EInt.addI]
  | step k s v p x d hr hnv hd _ _ ih =>
    have hle := hP.le k [s] x s v p d hr (by rw [nv_one hstat]; exact hnv) List.mem_cons_self hd
    have hroot := reach_le_root hP hr
    rw [hopt] at hroot
    obtain ⟨h', hH', e⟩ := Bounds.addI_some ih
    rw [hH'] at hle
    cases hH : H k s with
    | none => rw [hH] at hle; exact absurd hle (by simp [EInt.addI])
    | some h0 =>
      rw [hH] at hle hroot
      simp only [EInt.addI, Option.map_some, EInt.some_le_some] at hle hroot ⊢
      congr 1
      omega

/-- **`Good` is upward closed among exactly reached items**: the undominated optimal path below `b` is simulated from `a` -/
theorem good_up {D : DomRule S K} {P : Problem S} {H : Nat → S → EInt} {n : Nat} {opt : Int}
    (hdim : ∀ s, D.dims s = n) (hP : Potential P H) (hstat : StaticOrder P) (hsim : SimAdmissible D P n)
    (hopt : (H 0 P.init).addI P.initVal = some opt) {k : Nat} {b : S} {vb : Int} (h : Good D P opt k b vb) :
    ∀ (a : S) (va : Int) (pa : List Dec), Reach P k a va pa → GeItem D n a va b vb → Good D P opt k a va := by
  induction h with
  | term k b vb pb hrb hnv hv hU =>
    intro a va pa hra hg
    have h1 := hsim.term k a va b vb pa pb [b] hra hrb hg (by rw [nv_one hstat]; exact hnv) List.mem_cons_self
    have h2 := complete_le hP hstat hopt hra hnv
    exact Good.term k a va pa hra hnv (by omega) (hU.up hdim hg)
  | step k b vb pb x db hrb hnv hdb hU _ ih =>
    intro a va pa hra hg
    obtain ⟨da, hda, hgc⟩ :=
      hsim.step k a va b vb pa pb [b] x hra hrb hg (by rw [nv_one hstat]; exact hnv) List.mem_cons_self db hdb
    have hrc := Reach.step k a va pa [a] x da hra (by rw [nv_one hstat]; exact hnv) List.mem_cons_self hda
    exact Good.step k a va pa x da hra hnv hda (hU.up hdim hg) (ih _ _ _ hrc hgc)

/-- the parent of an item reached at a positive depth -/
theorem reach_parent {P : Problem S} (hstat : StaticOrder P) {k : Nat} {c : S} {vc : Int} {p : List Dec}
    (h : Reach P (k + 1) c vc p) :
    ∃ s v p' x d, Reach P k s v p' ∧ nvar P k = some x ∧ d ∈ P.domain x s ∧
      c = P.trans s ⟨x, d⟩ ∧ vc = v + P.cost s (P.trans s ⟨x, d⟩) ⟨x, d⟩ := by
  generalize hk : k + 1 = k1 at h
  cases h with
  | root => cases hk
  | step k0 s v p' L x d hr hnv hs hd =>
    have : k = k0 := by omega
    subst this
    exact ⟨s, v, p', x, d, hr, by rw [← nv_eq hstat hs]; exact hnv, hd, rfl, rfl⟩

/-- every depth with an exactly reached item on an optimal solution has a `Good` item -/
theorem exists_good {D : DomRule S K} {P : Problem S} {H : Nat → S → EInt} {n : Nat} {opt : Int}
    (hdim : ∀ s, D.dims s = n) (hP : Potential P H) (hNV : NvBound P) (hstat : StaticOrder P) (hsim : SimAdmissible D P n)
    (hopt : (H 0 P.init).addI P.initVal = some opt) :
    ∀ (m k : Nat) (s : S) (v : Int) (p : List Dec), P.nbVars ≤ k + m → Reach P k s v p → (H k s).addI v = some opt →
      ∃ s' v', Good D P opt k s' v' := by
  intro m
  induction m with
  | zero =>
    intro k s v p hk hr hH
    have hnv : nvar P k = none := hNV k _ (by omega)
    have hH0 := hP.term k [s] s (by rw [nv_one hstat]; exact hnv) List.mem_cons_self
    rw [hH0] at hH
    simp only [EInt.addI, Option.map_some, Option.some.injEq] at hH
    obtain ⟨s', v', p', hr', hge, hU⟩ := exists_undom_above hdim hstat (D := D) hr
    have h1 := hsim.term k s' v' s v p' p [s] hr' hr hge (by rw [nv_one hstat]; exact hnv) List.mem_cons_self
    have h2 := complete_le hP hstat hopt hr' hnv
    exact ⟨s', v', Good.term k s' v' p' hr' hnv (by omega) hU⟩
  | succ m ih =>
    intro k s v p hk hr hH
    cases hnv : nvar P k with
    | none =>
      have hH0 := hP.term k [s] s (by rw [nv_one hstat]; exact hnv) List.mem_cons_self
      rw [hH0] at hH
      simp only [EInt.addI, Option.map_some, Option.some.injEq] at hH
      obtain ⟨s', v', p', hr', hge, hU⟩ := exists_undom_above hdim hstat (D := D) hr
      have h1 := hsim.term k s' v' s v p' p [s] hr' hr hge (by rw [nv_one hstat]; exact hnv) List.mem_cons_self
      have h2 := complete_le hP hstat hopt hr' hnv
      exact ⟨s', v', Good.term k s' v' p' hr' hnv (by omega) hU⟩
    | some x =>
      have hnv1 : P.nextVar k [s] = some x := by rw [nv_one hstat]; exact hnv
      obtain ⟨h0, hH0, e0⟩ := Bounds.addI_some hH
      -- an optimal child
      obtain ⟨d, hd, h', hH', hle⟩ := hP.att k [s] x s h0 hnv1 List.mem_cons_self hH0
      have hrc := Reach.step k s v p [s] x d hr hnv1 List.mem_cons_self hd
      have hroot := reach_le_root hP hrc
      rw [hH', hopt] at hroot
      simp only [EInt.addI, Option.map_some, EInt.some_le_some] at hroot
      have hHc : (H (k + 1) (P.trans s ⟨x, d⟩)).addI (v + P.cost s (P.trans s ⟨x, d⟩) ⟨x, d⟩) = some opt := by
        rw [hH']
        simp only [EInt.addI, Option.map_some, Option.some.injEq]
        omega
      -- a `Good` item of the next depth, its parent, an undominated item above the parent
      obtain ⟨c, vc, hgc⟩ := ih (k + 1) _ _ _ (by omega) hrc hHc
      obtain ⟨pc, hrc'⟩ := hgc.reach
      obtain ⟨s2, v2, p2, x2, d2, hr2, hnv2, hd2, rfl, rfl⟩ := reach_parent hstat hrc'
      rw [hnv] at hnv2
      cases hnv2
      obtain ⟨s3, v3, p3, hr3, hge3, hU3⟩ := exists_undom_above hdim hstat (D := D) hr2
      obtain ⟨d3, hd3, hgc3⟩ :=
        hsim.step k s3 v3 s2 v2 p3 p2 [s2] x hr3 hr2 hge3 (by rw [nv_one hstat]; exact hnv) List.mem_cons_self d2 hd2
      have hrc3 := Reach.step k s3 v3 p3 [s3] x d3 hr3 (by rw [nv_one hstat]; exact hnv) List.mem_cons_self hd3
      exact ⟨s3, v3, Good.step k s3 v3 p3 x d3 hr3 hnv hd3 hU3 (good_up hdim hP hstat hsim hopt hgc _ _ _ hrc3 hgc3)⟩

theorem reach_zero {P : Problem S} {s : S} {v : Int} {p : List Dec} (h : Reach P 0 s v p) : s = P.init ∧ v = P.initVal := by
  generalize hk : 0 = k at h
  cases h with
  | root => exact ⟨rfl, rfl⟩
  | step => omega

/-- **a simulation-admissible rule has an undominated optimal strategy** -/
theorem undomOpt_of_sim (D : DomRule S K) (P : Problem S) (H : Nat → S → EInt) (n : Nat) (opt : Int)
    (hdim : ∀ s, D.dims s = n) (hP : Potential P H) (hNV : NvBound P) (hstat : StaticOrder P)
    (hsim : SimAdmissible D P n) (hopt : (H 0 P.init).addI P.initVal = some opt) : UndomOpt D P H opt := by
  obtain ⟨s0, v0, hg0⟩ := exists_good hdim hP hNV hstat hsim hopt P.nbVars 0 P.init P.initVal [] (by omega) Reach.root hopt
  obtain ⟨p0, hr0⟩ := hg0.reach
  obtain ⟨rfl, rfl⟩ := reach_zero hr0
  refine ⟨Good D P opt, ⟨hg0, fun d s v h => h.reach, fun d s v h => h.opt hP hstat hopt, ?_, fun d s v a va pa h => h.undom a va pa⟩⟩
  intro d s v L x h hnv hs
  rw [nv_eq hstat hs] at hnv
  cases h with
  | term _ _ _ p hr hnv' _ _ => rw [hnv'] at hnv; cases hnv
  | step _ _ _ p x' dec hr hnv' hdec _ hgc =>
    rw [hnv'] at hnv
    cases hnv
    exact ⟨dec, hdec, hgc⟩

/-! ## the companion: simulation-admissible ⇒ admissible (potential form) -/

/-- an item at least as good has at least the same value-to-go plus value -/
theorem sim_value {D : DomRule S K} {P : Problem S} {H : Nat → S → EInt} {n : Nat}
    (hP : Potential P H) (hNV : NvBound P) (hstat : StaticOrder P) (hsim : SimAdmissible D P n) :
    ∀ (m k : Nat) (a : S) (va : Int) (b : S) (vb : Int) (pa pb : List Dec), P.nbVars ≤ k + m →
      Reach P k a va pa → Reach P k b vb pb → GeItem D n a va b vb → ∀ h, H k b = some h →
      ∃ h', H k a = some h' ∧ vb + h ≤ va + h' := by
  intro m
  induction m with
  | zero =>
    intro k a va b vb pa pb hk hra hrb hg h hH
    have hnv : nvar P k = none := hNV k _ (by omega)
    have hHb := hP.term k [b] b (by rw [nv_one hstat]; exact hnv) List.mem_cons_self
    have hHa := hP.term k [a] a (by rw [nv_one hstat]; exact hnv) List.mem_cons_self
    have h1 := hsim.term k a va b vb pa pb [b] hra hrb hg (by rw [nv_one hstat]; exact hnv) List.mem_cons_self
    rw [hHb] at hH
    cases hH
    exact ⟨0, hHa, by omega⟩
  | succ m ih =>
    intro k a va b vb pa pb hk hra hrb hg h hH
    cases hnv : nvar P k with
    | none =>
      have hHb := hP.term k [b] b (by rw [nv_one hstat]; exact hnv) List.mem_cons_self
      have hHa := hP.term k [a] a (by rw [nv_one hstat]; exact hnv) List.mem_cons_self
      have h1 := hsim.term k a va b vb pa pb [b] hra hrb hg (by rw [nv_one hstat]; exact hnv) List.mem_cons_self
      rw [hHb] at hH
      cases hH
      exact ⟨0, hHa, by omega⟩
    | some x =>
      have hnvb : P.nextVar k [b] = some x := by rw [nv_one hstat]; exact hnv
      have hnva : P.nextVar k [a] = some x := by rw [nv_one hstat]; exact hnv
      obtain ⟨db, hdb, hb', hHb', hle⟩ := hP.att k [b] x b h hnvb List.mem_cons_self hH
      obtain ⟨da, hda, hgc⟩ := hsim.step k a va b vb pa pb [b] x hra hrb hg hnvb List.mem_cons_self db hdb
      have hrca := Reach.step k a va pa [a] x da hra hnva List.mem_cons_self hda
      have hrcb := Reach.step k b vb pb [b] x db hrb hnvb List.mem_cons_self hdb
      obtain ⟨ha', hHa', hle'⟩ := ih (k + 1) _ _ _ _ _ _ (by omega) hrca hrcb hgc hb' hHb'
      have hla := hP.le k [a] x a va pa da hra hnva List.mem_cons_self hda
      rw [hHa'] at hla
      cases hHa : H k a with
      | none => rw [hHa] at hla; exact absurd hla (by simp [EInt.addI])
      | some h0 =>
        rw [hHa] at hla
        simp only [EInt.addI, Option.map_some, EInt.some_le_some] at hla
        exact ⟨h0, rfl, by omega⟩

/-- **a simulation-admissible rule is admissible** (potential form of `Proofs/DomSound.lean`) -/
theorem admissible_of_sim (D : DomRule S K) (P : Problem S) (H : Nat → S → EInt) (n : Nat)
    (hdim : ∀ s, D.dims s = n) (hP : Potential P H) (hNV : NvBound P) (hstat : StaticOrder P)
    (hsim : SimAdmissible D P n) : Admissible D P H := by
  intro d a va b vb pa pb hra hrb hdom
  cases hH : H d b with
  | none => exact EInt.none_le _
  | some h =>
    obtain ⟨h', hHa, hle⟩ :=
      sim_value hP hNV hstat hsim P.nbVars d a va b vb pa pb (by omega) hra hrb (hdom.geItem hdim) h hH
    rw [hHa]
    simp only [EInt.addI, Option.map_some, EInt.some_le_some]
    omega

end Ddo.C10

#print axioms Ddo.C10.undomOpt_of_sim
#print axioms Ddo.C10.admissible_of_sim
