import DdoModel.Proofs.SeqInv
import DdoModel.Proofs.Cache
import DdoModel.Wf
/-! Stage 2 / 3 of C09 — the sequential branch-and-bound **with** the threshold cache, abstract over the diagram.

Setting: `H : depth → state → EInt` the potential, `Φ c = (H c.depth c.state).addI c.value` the potential of a
sub-problem (`optOf H c`), `opt` the optimum, `Sol` feasibility.  The cache is seen through its *view*
`T : S → Nat → Option Thr` (what `get_threshold` answers; `Props/C18.lean`: the maximum of what was recorded since the
last clear), `T.upd` = one `update_threshold`, `T.upds` = the updates of a compilation.

A sub-problem is *prunable at pop* (`prunM`, the negation of `Cache::must_explore`) when the stored threshold is above its
value, or equal to it with the `explored` flag; it is *prunable inside a compilation* (`_filter_with_cache`) as soon as the
threshold is `≥` its value, whatever the flag.

`Live F T x d`: some open sub-problem of depth `≥ d` *carries* the potential `x`: its potential is `≥ x`, its upper
bound is `≥ x`, and the cache does not refuse it at pop.

The invariant `CInvC` (coverage invariant of `Proofs/SeqInv.lean` + `CacheOk`):
* `root`  : if `opt > lb`, `opt` is carried;
* `cache` (**CacheOk**): whatever the cache can prune — any sub-problem `(s, d, v)` with `v ≤ T s d` (rule of
  `_filter_with_cache`, the stronger one) — has its potential `v + H d s`, if it beats `lb`, carried by an open
  sub-problem of depth `≥ d`;
* `open_` : the potential of an open sub-problem, if it beats `lb`, is carried (by itself, or — when its own upper
  bound was computed in a diagram cut by the cache — by another one).

The diagram contracts (`CompC`) are those of `SeqInv.lean` weakened by the alternative "… or the potential is the one of a
sub-problem that the cache consulted by the compilation prunes, deeper than …" (`CacheCov`), plus the threshold contract
`theta` (Stage 1, `Proofs/Theta.lean`) and `fresh` (a cut-set node handed out is not refused by the cache once the
updates of its own compilation are applied).

**No hypothesis on the order**: the popped node `N` is *any* element of the fringe.  `enqueue_cutset` pushes a cut-set
node with the bound its own diagram gave it (repair of finding D14), so a bound computed in a diagram cut by the cache is
never transferred to another node and the invariant is preserved for every pop order.  (Before the repair the cut-set
nodes were capped by `N.ub` — `ub.min(cutset_node.ub)` — and this file needed "best-first: `N` has the largest bound of
the fringe" exactly to make that cap harmless; `Ddo.C09.anyOrderOpt_false` is what happens without it.) -/
set_option linter.unusedSectionVars false
set_option linter.unusedVariables false
namespace Ddo.C09
open Ddo
variable {S : Type} [DecidableEq S]

/-- the view of a cache: what `get_threshold (state, depth)` answers -/
abbrev CView (S : Type) := S → Nat → Option Thr

/-- one `update_threshold (s, d, θ, explored)` -/
def CView.upd (T : CView S) (u : S × Nat × Int × Bool) : CView S :=
  fun s d => if d = u.2.1 ∧ s = u.1 then updCell (T s d) ⟨u.2.2.1, u.2.2.2⟩ else T s d

/-- the updates of one compilation -/
def CView.upds (T : CView S) (ups : List (S × Nat × Int × Bool)) : CView S := ups.foldl CView.upd T

/-- refused by `must_explore` at pop -/
def prunM (T : CView S) (c : SubP S) : Prop :=
  ∃ t, T c.state c.depth = some t ∧ (c.value < t.value ∨ (c.value = t.value ∧ t.explored = true))

instance (T : CView S) (c : SubP S) : Decidable (prunM T c) := by
  unfold prunM
  cases h : T c.state c.depth with
  | none => exact isFalse (fun ⟨t, ht, _⟩ => by cases ht)
  | some t =>
    by_cases hc : c.value < t.value ∨ (c.value = t.value ∧ t.explored = true)
    · exact isTrue ⟨t, rfl, hc⟩
    · exact isFalse (fun ⟨t', ht', hc'⟩ => by cases ht'; exact hc hc')

/-! ### helper lemmas on views -/

theorem upd_get (T : CView S) (u : S × Nat × Int × Bool) (s : S) (d : Nat) (t : Thr)
    (h : (T.upd u) s d = some t) :
    T s d = some t ∨ (u.1 = s ∧ u.2.1 = d ∧ t = ⟨u.2.2.1, u.2.2.2⟩) := by
  unfold CView.upd at h
  split at h
  · next hc =>
    obtain ⟨hd, hs⟩ := hc
    cases hT : T s d with
    | none =>
      rw [hT] at h
      simp only [updCell, Option.some.injEq] at h
      exact Or.inr ⟨hs.symm, hd.symm, h.symm⟩
    | some e =>
      rw [hT] at h
      simp only [updCell, Option.some.injEq] at h
      unfold Thr.join at h
      split at h
      · exact Or.inl (by rw [h])
      · exact Or.inr ⟨hs.symm, hd.symm, h.symm⟩
  · exact Or.inl h

theorem upds_get (ups : List (S × Nat × Int × Bool)) (T : CView S) (s : S) (d : Nat) (t : Thr)
    (h : (T.upds ups) s d = some t) :
    T s d = some t ∨ ∃ u ∈ ups, u.1 = s ∧ u.2.1 = d ∧ t = ⟨u.2.2.1, u.2.2.2⟩ := by
  induction ups generalizing T with
  | nil => exact Or.inl h
  | cons u us ih =>
    have h' : ((T.upd u).upds us) s d = some t := h
    rcases ih (T.upd u) h' with h1 | ⟨u', hu', h2⟩
    · rcases upd_get T u s d t h1 with h3 | h3
      · exact Or.inl h3
      · exact Or.inr ⟨u, List.mem_cons_self, h3⟩
    · exact Or.inr ⟨u', List.mem_cons_of_mem _ hu', h2⟩

/-- a node that becomes refused by the cache was hit by an update -/
theorem prun_new (T : CView S) (ups : List (S × Nat × Int × Bool)) (c : SubP S)
    (hn : ¬ prunM T c) (hp : prunM (T.upds ups) c) :
    ∃ u ∈ ups, u.1 = c.state ∧ u.2.1 = c.depth ∧ c.value ≤ u.2.2.1 := by
  obtain ⟨t, ht, hcond⟩ := hp
  rcases upds_get ups T c.state c.depth t ht with h1 | ⟨u, hu, hs, hd, rfl⟩
  · exact absurd ⟨t, h1, hcond⟩ hn
  · refine ⟨u, hu, hs, hd, ?_⟩
    dsimp only at hcond
    omega

theorem depth_bound (l : List (SubP S)) : ∃ D, ∀ c ∈ l, c.depth ≤ D := by
  induction l with
  | nil => exact ⟨0, fun c hc => by cases hc⟩
  | cons a l ih =>
    obtain ⟨D, hD⟩ := ih
    refine ⟨max D a.depth, fun c hc => ?_⟩
    rcases List.mem_cons.mp hc with e | e
    · subst e; omega
    · have := hD c e; omega

theorem optOf_some (H : Nat → S → EInt) (c : SubP S) (y : Int) (h : optOf H c = some y) :
    ∃ hh, H c.depth c.state = some hh ∧ y = c.value + hh := by
  unfold optOf EInt.addI at h
  cases hH : H c.depth c.state with
  | none => rw [hH] at h; cases h
  | some hh =>
    rw [hH] at h
    simp only [Option.map_some, Option.some.injEq] at h
    exact ⟨hh, rfl, by omega⟩

theorem updateBest_ok' (opt : Int) (Sol : List Dec → Int → Prop) (st : SeqSt S) (o : DDOut S)
    (hlb : st.bestLb ≤ opt) (hsol : ∀ p, st.bestSol = some p → Sol p st.bestLb)
    (hs : ∀ w, o.bestExact = some w → ∃ p, o.bestExactSol = some p ∧ Sol p w ∧ w ≤ opt) :
    (st.updateBest o).bestLb ≤ opt ∧ ∀ p, (st.updateBest o).bestSol = some p → Sol p (st.updateBest o).bestLb := by
  unfold SeqSt.updateBest
  cases hb : o.bestExact with
  | none => exact ⟨hlb, hsol⟩
  | some w =>
    obtain ⟨p, hp, hS, hw⟩ := hs w hb
    simp only
    split
    · refine ⟨hw, fun p' hp' => ?_⟩
      simp only at hp'
      rw [hp] at hp'; injection hp' with hp'; subst hp'; exact hS
    · exact ⟨hlb, hsol⟩

section
variable (H : Nat → S → EInt) (opt : Int) (Sol : List Dec → Int → Prop)
-- magnitudes: the values `v` the statements quantify over are those in range at their depth
variable (Rg : Nat → Int → Prop)

/-- some open sub-problem of depth `≥ d` carries the potential `x` -/
def Live (F : List (SubP S)) (T : CView S) (x : Int) (d : Nat) : Prop :=
  ∃ c ∈ F, d ≤ c.depth ∧ (∃ y, optOf H c = some y ∧ x ≤ y) ∧ x ≤ c.ub ∧ ¬ prunM T c

/-- the potential `x` is (dominated by) the potential of a sub-problem of depth `> d` that the cache `T` prunes inside a
    compilation -/
def CacheCov (T : CView S) (d : Nat) (x : Int) : Prop :=
  ∃ (s : S) (d' : Nat) (t : Thr) (v h : Int), T s d' = some t ∧ d < d' ∧ Rg d' v ∧ v ≤ t.value ∧ H d' s = some h ∧ x ≤ v + h

/-- the invariant of the caching solver -/
structure CInvC (F : List (SubP S)) (T : CView S) (lb : Int) (sol : Option (List Dec)) : Prop where
  good : ∀ c ∈ F, Good (optOf H) opt c
  rng : ∀ c ∈ F, Rg c.depth c.value
  lbOk : lb ≤ opt
  solOk : ∀ p, sol = some p → Sol p lb
  root : opt > lb → Live H F T opt 0
  /-- **CacheOk** -/
  cache : ∀ (s : S) (d : Nat) (t : Thr) (v h : Int), T s d = some t → Rg d v → v ≤ t.value → H d s = some h → v + h > lb →
    Live H F T (v + h) d
  open_ : ∀ c ∈ F, ∀ y, optOf H c = some y → y > lb → Live H F T y c.depth

/-- contract of one caching compilation of `N`, started with incumbent `lb`, consulting the cache `T`; `o` what the solver
    reads (`o.cutset` is enqueued iff `o.isExact = false`), `ups` the `update_threshold` calls, `bk` the incumbent once the
    solver has absorbed `o.bestExact` -/
structure CompC (N : SubP S) (lb : Int) (T : CView S) (o : DDOut S) (ups : List (S × Nat × Int × Bool)) (bk : Int) : Prop where
  sound : ∀ w, o.bestExact = some w → ∃ p, o.bestExactSol = some p ∧ Sol p w ∧ w ≤ opt
  /-- an exact diagram finds the optimum of `N`, unless the cache cut it -/
  exact : o.isExact = true → ∀ x, optOf H N = some x → x > lb → (∃ w, o.bestExact = some w ∧ x ≤ w) ∨ CacheCov H Rg T N.depth x
  /-- the cut-set of an exact diagram (not enqueued) holds nothing that beats the incumbent -/
  exactCut : o.isExact = true → ∀ c ∈ o.cutset, c.ub ≤ bk
  /-- a diagram that is not exact covers `N` by its cut-set, unless the cache cut it -/
  cover : o.isExact = false → ∀ x, optOf H N = some x → x > bk →
    (∃ c ∈ o.cutset, ∃ y, optOf H c = some y ∧ x ≤ y) ∨ CacheCov H Rg T N.depth x
  /-- **Stage 1** (`theta_sound`): whatever a recorded threshold prunes cannot beat `bk`, or is carried by the cut-set, or
      by what the consulted cache prunes deeper -/
  theta : ∀ u ∈ ups, ∀ v h, Rg u.2.1 v → v ≤ u.2.2.1 → H u.2.1 u.1 = some h →
    v + h ≤ bk ∨ (∃ c ∈ o.cutset, u.2.1 ≤ c.depth ∧ ∃ y, optOf H c = some y ∧ v + h ≤ y) ∨ CacheCov H Rg T u.2.1 (v + h)
  good : ∀ c ∈ o.cutset, Good (optOf H) opt c
  rng : ∀ c ∈ o.cutset, Rg c.depth c.value
  sub : ∀ c ∈ o.cutset, ∀ y, optOf H c = some y → ∃ x, optOf H N = some x ∧ y ≤ x
  deeper : ∀ c ∈ o.cutset, N.depth < c.depth
  /-- the bound of a cut-set node dominates its potential, unless the cache cut the diagram below it -/
  ub : ∀ c ∈ o.cutset, ∀ y, optOf H c = some y → y > bk → y ≤ c.ub ∨ CacheCov H Rg T c.depth y
  /-- a cut-set node worth enqueuing is not refused by the cache once the updates of its compilation are applied -/
  fresh : ∀ c ∈ o.cutset, c.ub > bk → ¬ prunM (T.upds ups) c

/-- the view of the cache after `process_one_node (N)`: the updates of the compilations that were run -/
def viewAfter (st : SeqSt S) (T : CView S) (N : SubP S) (r : DDOut S) (rups : List (S × Nat × Int × Bool))
    (xups : List (S × Nat × Int × Bool)) : CView S :=
  if N.ub ≤ st.bestLb then T
  else if prunM T N then T
  else if r.isExact then T.upds rups
  else (T.upds rups).upds xups

/-- the solver state after `process_one_node (N)`, `must_explore` answered by the cache -/
def stateAfter (st : SeqSt S) (T : CView S) (N : SubP S) (r x : DDOut S) : SeqSt S :=
  (st.process false N (decide (¬ prunM T N)) (.ok r) (.ok x)).1


/-! ### helper lemmas on `Live` and the generic step -/

theorem live_mono {F : List (SubP S)} {T : CView S} {x x' : Int} {d d' : Nat}
    (h : Live H F T x d) (hx : x' ≤ x) (hd : d' ≤ d) : Live H F T x' d' := by
  obtain ⟨c, hc, hdc, ⟨y, hy, hxy⟩, hxu, hnp⟩ := h
  exact ⟨c, hc, by omega, ⟨y, hy, by omega⟩, by omega, hnp⟩

/-- the popped node is dropped (pruned by its bound or by the cache): it was not a carrier -/
theorem drop_inv (N : SubP S) (F' : List (SubP S)) (T : CView S) (lb : Int) (sol : Option (List Dec))
    (hinv : CInvC H opt Sol Rg (N :: F') T lb sol)
    (hno : ∀ x, x > lb → x ≤ N.ub → ¬ prunM T N → False) :
    CInvC H opt Sol Rg F' T lb sol := by
  have hL : ∀ x d, x > lb → Live H (N :: F') T x d → Live H F' T x d := by
    intro x d hgt hl
    obtain ⟨c, hc, hdc, hy, hxu, hnp⟩ := hl
    rcases List.mem_cons.mp hc with e | e
    · subst e; exact (hno x hgt hxu hnp).elim
    · exact ⟨c, e, hdc, hy, hxu, hnp⟩
  refine ⟨fun c hc => hinv.good c (List.mem_cons_of_mem _ hc), fun c hc => hinv.rng c (List.mem_cons_of_mem _ hc),
    hinv.lbOk, hinv.solOk, fun hgt => hL _ _ hgt (hinv.root hgt), ?_, ?_⟩
  · intro s d t v h hT hrg hvt hH hgt
    exact hL _ _ hgt (hinv.cache s d t v h hT hrg hvt hH hgt)
  · intro c hc y hy hgt
    exact hL _ _ hgt (hinv.open_ c (List.mem_cons_of_mem _ hc) y hy hgt)

/-- one compilation `o` of the popped node `N` (updates `ups`, contract `hC`), new fringe `Fn` = the rest of the fringe
    plus the cut-set nodes (with their own bounds) that beat `bk` when `o` is not exact.  `N` is any element of the fringe:
    no hypothesis on the pop order. -/
theorem step_generic (N : SubP S) (F' Fn : List (SubP S)) (T : CView S) (lb0 lbS bk : Int) (sol0 soln : Option (List Dec))
    (o : DDOut S) (ups : List (S × Nat × Int × Bool))
    (hinv : CInvC H opt Sol Rg (N :: F') T lb0 sol0)
    (hC : CompC H opt Sol Rg N lbS T o ups bk)
    (h0S : lb0 ≤ lbS) (hSk : lbS ≤ bk)
    (hval : ∀ w, o.bestExact = some w → w ≤ bk)
    (hsub : ∀ c ∈ F', c ∈ Fn)
    (hFn : ∀ c ∈ Fn, c ∈ F' ∨ (o.isExact = false ∧ ∃ c0 ∈ o.cutset, c = c0 ∧ c0.ub > bk))
    (henq : o.isExact = false → ∀ c0 ∈ o.cutset, c0.ub > bk → c0 ∈ Fn)
    (hlbn : bk ≤ opt) (hsoln : ∀ p, soln = some p → Sol p bk) :
    CInvC H opt Sol Rg Fn (T.upds ups) bk soln := by
  -- (CC)
  have hCC : ∀ d y, CacheCov H Rg T d y → y > lb0 → ∃ d' y'', d < d' ∧ y ≤ y'' ∧ Live H (N :: F') T y'' d' := by
    intro d y hcc hgt
    obtain ⟨s, d', t, v, h, hT, hdd, hrg, hvt, hH, hle⟩ := hcc
    exact ⟨d', v + h, hdd, hle, hinv.cache s d' t v h hT hrg hvt hH (by omega)⟩
  -- (Enq)
  have hEnq : ∀ c' ∈ o.cutset, ∀ y' x, optOf H c' = some y' → x ≤ y' → x > bk →
      Live H Fn (T.upds ups) x c'.depth ∨ CacheCov H Rg T c'.depth y' := by
    intro c' hc' y' x hy' hxy hxb
    rcases hC.ub c' hc' y' hy' (by omega) with h | h
    · cases hex : o.isExact with
      | true => have := hC.exactCut hex c' hc'; omega
      | false =>
        left
        have hm : c'.ub > bk := by omega
        exact ⟨c', henq hex c' hc' hm, Nat.le_refl _, ⟨y', hy', hxy⟩, by omega, hC.fresh c' hc' hm⟩
    · exact Or.inr h
  -- transfer
  obtain ⟨D, hD⟩ := depth_bound (N :: F')
  have hTr : ∀ n x d, D < d + n → x > bk → Live H (N :: F') T x d → Live H Fn (T.upds ups) x d := by
    intro n
    induction n with
    | zero =>
      intro x d hd _ hl
      obtain ⟨c, hc, hdc, _⟩ := hl
      have := hD c hc
      omega
    | succ n ih =>
      intro x d hd hxb hL
      obtain ⟨c, hc, hdc, ⟨y, hy, hxy⟩, hxu, hnp⟩ := hL
      have hcov : ∀ d1 y1, d ≤ d1 → x ≤ y1 → CacheCov H Rg T d1 y1 → Live H Fn (T.upds ups) x d := by
        intro d1 y1 hd1 hx1 hcc
        obtain ⟨d', y'', hdd, hyy, hL'⟩ := hCC d1 y1 hcc (by omega)
        exact live_mono H (ih y'' d' (by omega) (by omega) hL') (by omega) (by omega)
      have hcs : ∀ c' ∈ o.cutset, ∀ y', d ≤ c'.depth → optOf H c' = some y' → x ≤ y' →
          Live H Fn (T.upds ups) x d := by
        intro c' hc' y' hdc' hy' hxy'
        rcases hEnq c' hc' y' x hy' hxy' hxb with h | h
        · exact live_mono H h (Int.le_refl _) hdc'
        · exact hcov c'.depth y' hdc' hxy' h
      rcases List.mem_cons.mp hc with e | e
      · have e' : N = c := e.symm
        subst e'
        cases hex : o.isExact with
        | true =>
          rcases hC.exact hex y hy (by omega) with ⟨w, hw, hyw⟩ | h
          · have := hval w hw; omega
          · exact hcov N.depth y hdc hxy h
        | false =>
          rcases hC.cover hex y hy (by omega) with ⟨c', hc', y', hy', hyy'⟩ | h
          · exact hcs c' hc' y' (by have := hC.deeper c' hc'; omega) hy' (by omega)
          · exact hcov N.depth y hdc hxy h
      · by_cases hp : prunM (T.upds ups) c
        · obtain ⟨u, hu, hus, hud, hvu⟩ := prun_new T ups c hnp hp
          obtain ⟨hh, hH, hyh⟩ := optOf_some H c y hy
          have hrg := hinv.rng c hc
          rcases hC.theta u hu c.value hh (by rw [hud]; exact hrg) hvu (by rw [hud, hus]; exact hH) with
            h1 | ⟨c', hc', hdc', y', hy', hyy'⟩ | h3
          · omega
          · exact hcs c' hc' y' (by omega) hy' (by omega)
          · rw [hud] at h3; exact hcov c.depth _ hdc (by omega) h3
        · exact ⟨c, hsub c e, hdc, ⟨y, hy, hxy⟩, hxu, hp⟩
  have hTr' : ∀ x d, x > bk → Live H (N :: F') T x d → Live H Fn (T.upds ups) x d :=
    fun x d => hTr (D + 1) x d (by omega)
  refine ⟨?_, ?_, hlbn, hsoln, fun hgt => hTr' opt 0 hgt (hinv.root (by omega)), ?_, ?_⟩
  · -- good
    intro c hc
    rcases hFn c hc with h | ⟨_, c0, hc0, rfl, _⟩
    · exact hinv.good c (List.mem_cons_of_mem _ h)
    · exact hC.good c hc0
  · -- rng
    intro c hc
    rcases hFn c hc with h | ⟨_, c0, hc0, rfl, _⟩
    · exact hinv.rng c (List.mem_cons_of_mem _ h)
    · exact hC.rng c hc0
  · -- cache
    intro s d t v h hT hrg hvt hH hgt
    rcases upds_get ups T s d t hT with h1 | ⟨u, hu, hus, hud, ht⟩
    · exact hTr' _ _ hgt (hinv.cache s d t v h h1 hrg hvt hH (by omega))
    · subst ht
      dsimp only at hvt
      rcases hC.theta u hu v h (by rw [hud]; exact hrg) hvt (by rw [hud, hus]; exact hH) with
        h1 | ⟨c', hc', hdc', y', hy', hyy'⟩ | h3
      · omega
      · rcases hEnq c' hc' y' (v + h) hy' hyy' hgt with h4 | h4
        · exact live_mono H h4 (Int.le_refl _) (by omega)
        · obtain ⟨d', y'', hdd, hyy, hL'⟩ := hCC c'.depth y' h4 (by omega)
          exact live_mono H (hTr' y'' d' (by omega) hL') (by omega) (by omega)
      · rw [hud] at h3
        obtain ⟨d', y'', hdd, hyy, hL'⟩ := hCC d (v + h) h3 (by omega)
        exact live_mono H (hTr' y'' d' (by omega) hL') (by omega) (by omega)
  · -- open_
    intro c hc y hy hgt
    rcases hFn c hc with h | ⟨_, c0, hc0, rfl, _⟩
    · exact hTr' y c.depth hgt (hinv.open_ c (List.mem_cons_of_mem _ h) y hy (by omega))
    · rcases hEnq c hc0 y y hy (Int.le_refl _) hgt with h4 | h4
      · exact h4
      · obtain ⟨d', y'', hdd, hyy, hL'⟩ := hCC c.depth y h4 (by omega)
        exact live_mono H (hTr' y'' d' (by omega) hL') (by omega) (by omega)

/-- `prunM` is the negation of `Cache::must_explore` -/
theorem prunM_iff (T : CView S) (c : SubP S) : prunM T c ↔ mustExploreThr (T c.state c.depth) c.value = false := by
  unfold prunM mustExploreThr
  cases hT : T c.state c.depth with
  | none =>
    constructor
    · rintro ⟨t, ht, _⟩; cases ht
    · intro h; cases h
  | some t =>
    constructor
    · rintro ⟨t', ht', hc⟩
      cases ht'
      cases he : t.explored <;> simp [he] at hc ⊢ <;> omega
    · intro h
      refine ⟨t, rfl, ?_⟩
      cases he : t.explored <;> simp [he] at h ⊢ <;> omega

/-- **Stage 2**: one `process_one_node` with the cache preserves the invariant.  `N` = the popped node (**any** element
    of the fringe: no hypothesis on the pop order), `st.fringe` = the rest of the fringe; the restricted compilation `r` consults `T`; a restricted diagram that
    is not exact records nothing (`hrups`) and only has to be sound (`hrs`); the relaxed compilation `x` runs with the
    updated incumbent. -/
theorem processC_inv (st : SeqSt S) (T : CView S) (N : SubP S) (r : DDOut S) (rups : List (S × Nat × Int × Bool))
    (x : DDOut S) (xups : List (S × Nat × Int × Bool))
    (hinv : CInvC H opt Sol Rg (N :: st.fringe) T st.bestLb st.bestSol)
    (hrs : ∀ w, r.bestExact = some w → ∃ p, r.bestExactSol = some p ∧ Sol p w ∧ w ≤ opt)
    (hr : r.isExact = true → CompC H opt Sol Rg N st.bestLb T r rups (st.updateBest r).bestLb)
    (hrups : r.isExact = false → rups = [])
    (hx : r.isExact = false → CompC H opt Sol Rg N (st.updateBest r).bestLb T x xups ((st.updateBest r).updateBest x).bestLb) :
    CInvC H opt Sol Rg (stateAfter st T N r x).fringe (viewAfter st T N r rups xups)
      (stateAfter st T N r x).bestLb (stateAfter st T N r x).bestSol := by
  have hge1 := updateBest_lb_ge st r
  have hge2 := updateBest_lb_ge (st.updateBest r) x
  obtain ⟨f1, _, _, _, _⟩ := updateBest_fringe st r
  obtain ⟨f2, _, _, _, _⟩ := updateBest_fringe (st.updateBest r) x
  obtain ⟨hlb1, hsol1⟩ := updateBest_ok' opt Sol st r hinv.lbOk hinv.solOk hrs
  unfold stateAfter viewAfter SeqSt.process
  by_cases hub : N.ub ≤ st.bestLb
  · -- A: pruned by its bound
    simp only [hub, if_true]
    exact drop_inv H opt Sol Rg N st.fringe T st.bestLb st.bestSol hinv (fun x h1 h2 _ => by omega)
  · simp only [hub, if_false]
    by_cases hp : prunM T N
    · -- B: refused by the cache
      simp only [hp, not_true_eq_false, decide_false, Bool.not_false, if_true]
      exact drop_inv H opt Sol Rg N st.fringe T st.bestLb st.bestSol hinv (fun x _ _ h3 => h3 hp)
    · simp only [hp, not_false_eq_true, decide_true, Bool.not_true, Bool.false_eq_true, if_false]
      by_cases hre : r.isExact = true
      · -- C1: the restricted diagram was exact
        simp only [hre, if_true]
        rw [f1]
        exact step_generic H opt Sol Rg N st.fringe st.fringe T st.bestLb st.bestLb (st.updateBest r).bestLb
          st.bestSol (st.updateBest r).bestSol r rups hinv (hr hre) (Int.le_refl _) hge1
          (fun w hw => updateBest_lb_ge_val st r w hw) (fun c hc => hc) (fun c hc => Or.inl hc)
          (fun hf => by rw [hre] at hf; cases hf) hlb1 hsol1
      · have hre' : r.isExact = false := by simpa using hre
        simp only [hre', Bool.false_eq_true, if_false]
        have hX := hx hre'
        obtain ⟨hlb2, hsol2⟩ := updateBest_ok' opt Sol (st.updateBest r) x hlb1 hsol1 hX.sound
        have hfr : ((st.updateBest r).updateBest x).fringe = st.fringe := f2.trans f1
        have hups : (T.upds rups).upds xups = T.upds xups := by rw [hrups hre']; rfl
        rw [hups]
        by_cases hxe : x.isExact = true
        · -- C2: the relaxed diagram was exact
          simp only [hxe, if_true]
          rw [hfr]
          exact step_generic H opt Sol Rg N st.fringe st.fringe T st.bestLb (st.updateBest r).bestLb
            ((st.updateBest r).updateBest x).bestLb
            st.bestSol ((st.updateBest r).updateBest x).bestSol x xups hinv hX hge1 hge2
            (fun w hw => updateBest_lb_ge_val (st.updateBest r) x w hw) (fun c hc => hc) (fun c hc => Or.inl hc)
            (fun hf => by rw [hxe] at hf; cases hf) hlb2 hsol2
        · -- C3: the cut-set is enqueued
          have hxe' : x.isExact = false := by simpa using hxe
          simp only [hxe', Bool.false_eq_true, if_false]
          obtain ⟨e1, e2, _, _, e5⟩ := enqueue_false_spec ((st.updateBest r).updateBest x) x.cutset
          rw [e1, e2]
          refine step_generic H opt Sol Rg N st.fringe _ T st.bestLb (st.updateBest r).bestLb
            ((st.updateBest r).updateBest x).bestLb
            st.bestSol ((st.updateBest r).updateBest x).bestSol x xups hinv hX hge1 hge2
            (fun w hw => updateBest_lb_ge_val (st.updateBest r) x w hw) ?_ ?_ ?_ hlb2 hsol2
          · intro c hc
            exact (e5 c).mpr (Or.inl (by rw [hfr]; exact hc))
          · intro c hc
            rcases (e5 c).mp hc with h | ⟨c0, hc0, h1, h2⟩
            · rw [hfr] at h; exact Or.inl h
            · exact Or.inr ⟨hxe', c0, hc0, h1, h2⟩
          · intro _ c0 hc0 hm
            exact (e5 _).mpr (Or.inr ⟨c0, hc0, rfl, hm⟩)

/-- the invariant holds initially (empty cache) -/
theorem init_cinvC (root : SubP S) (lb : Int) (sol : Option (List Dec))
    (hroot : ∀ x, optOf H root = some x → x ≤ opt) (hub : root.ub = iMax) (hopt : opt ≤ iMax)
    (hrg : Rg root.depth root.value)
    (hlb : lb ≤ opt) (hsol : ∀ p, sol = some p → Sol p lb) (hatt : opt > lb → optOf H root = some opt) :
    CInvC H opt Sol Rg [root] (fun _ _ => none) lb sol := by
  have hnp : ¬ prunM (fun _ _ => none : CView S) root := by
    rintro ⟨t, ht, _⟩; cases ht
  refine ⟨?_, ?_, hlb, hsol, ?_, ?_, ?_⟩
  · intro c hc
    rcases List.mem_cons.mp hc with e | e
    · subst e; exact hroot
    · cases e
  · intro c hc
    rcases List.mem_cons.mp hc with e | e
    · subst e; exact hrg
    · cases e
  · intro hgt
    exact ⟨root, List.mem_cons_self, Nat.zero_le _, ⟨opt, hatt hgt, Int.le_refl _⟩, by omega, hnp⟩
  · intro s d t v h hT
    cases hT
  · intro c hc y hy hgt
    rcases List.mem_cons.mp hc with e | e
    · subst e
      have := hroot y hy
      exact ⟨c, List.mem_cons_self, Nat.le_refl _, ⟨y, hy, Int.le_refl _⟩, by omega, hnp⟩
    · cases e

/-- **`caching_solver_optimal`**: when the fringe is found empty the incumbent is the optimum, and the stored solution is
    feasible with that value -/
theorem caching_solver_optimal (T : CView S) (lb : Int) (sol : Option (List Dec))
    (hinv : CInvC H opt Sol Rg [] T lb sol) : lb = opt ∧ ∀ p, sol = some p → Sol p opt := by
  have h1 : ¬ opt > lb := fun hgt => by obtain ⟨c, hc, _⟩ := hinv.root hgt; cases hc
  have : lb = opt := by have := hinv.lbOk; omega
  exact ⟨this, fun p hp => this ▸ hinv.solOk p hp⟩

/-- **Stage 3**: forgetting thresholds (`clear_layer`, `clear`) preserves the invariant -/
theorem cinvC_forget (F : List (SubP S)) (T T' : CView S) (lb : Int) (sol : Option (List Dec))
    (hsub : ∀ s d, T' s d = T s d ∨ T' s d = none)
    (hinv : CInvC H opt Sol Rg F T lb sol) : CInvC H opt Sol Rg F T' lb sol := by
  have hT : ∀ s d t, T' s d = some t → T s d = some t := by
    intro s d t h
    rcases hsub s d with e | e
    · rw [← e]; exact h
    · rw [e] at h; cases h
  have hL : ∀ x d, Live H F T x d → Live H F T' x d := by
    intro x d hl
    obtain ⟨c, hc, hdc, hy, hxu, hnp⟩ := hl
    refine ⟨c, hc, hdc, hy, hxu, ?_⟩
    rintro ⟨t, ht, hcond⟩
    exact hnp ⟨t, hT _ _ _ ht, hcond⟩
  refine ⟨hinv.good, hinv.rng, hinv.lbOk, hinv.solOk, fun hgt => hL _ _ (hinv.root hgt), ?_, ?_⟩
  · intro s d t v h hT' hrg hvt hH hgt
    exact hL _ _ (hinv.cache s d t v h (hT _ _ _ hT') hrg hvt hH hgt)
  · intro c hc y hy hgt
    exact hL _ _ (hinv.open_ c hc y hy hgt)

end

/-! ## the view of the concrete cache -/

/-- the view of a `Cache` -/
def viewOf (c : Cache S) : CView S := fun s d => (c.get s d).getD none

/-- an in-range `update_threshold` is `CView.upd` on the view -/
theorem viewOf_update (c c' : Cache S) (s : S) (d : Nat) (θ : Int) (e : Bool)
    (h : c.update s d ⟨θ, e⟩ = some c') : viewOf c' = (viewOf c).upd (s, d, θ, e) := by
  funext s2 d2
  unfold viewOf CView.upd
  rw [Cache.get_update c c' s s2 d d2 ⟨θ, e⟩ h]
  by_cases hc : d2 = d ∧ s2 = s
  · simp only [hc, and_self, if_true]
    obtain ⟨hd, hs⟩ := hc
    have hget : ∃ cell, c.get s d = some cell := by
      unfold Cache.update at h
      unfold Cache.get
      cases hl : c.layers[d]? with
      | none => rw [hl] at h; cases h
      | some l => exact ⟨_, rfl⟩
    obtain ⟨cell, hcell⟩ := hget
    rw [hcell]
    rfl
  · simp only [hc, if_false]

/-- `clear_layer` only forgets -/
theorem viewOf_clearLayer (c c' : Cache S) (d : Nat) (h : c.clearLayer d = some c') :
    ∀ s d', viewOf c' s d' = viewOf c s d' ∨ viewOf c' s d' = none := by
  intro s d'
  unfold viewOf
  rw [Cache.get_clearLayer c c' s d d' h]
  by_cases hd : d' = d
  · right; simp [hd]
  · left; simp [hd]

end Ddo.C09

#print axioms Ddo.C09.prunM_iff
#print axioms Ddo.C09.processC_inv
#print axioms Ddo.C09.init_cinvC
#print axioms Ddo.C09.caching_solver_optimal
#print axioms Ddo.C09.cinvC_forget
#print axioms Ddo.C09.viewOf_update
#print axioms Ddo.C09.viewOf_clearLayer
