import DdoModel.Wf
import DdoModel.WfRel
/-! Helper lemmas for C06: a relaxed compilation (no cache, no dominance) keeps a node whose
    value + potential covers the optimum of the sub-problem (`Cover`), hence reports an upper bound. -/
set_option linter.unusedSectionVars false
set_option linter.unusedVariables false
namespace Ddo.Cover
open Ddo
variable {S K : Type} [DecidableEq S] [DecidableEq K]

/-! ## generic list facts -/

theorem foldl_inv {α β : Type} (P : β → Prop) (f : β → α → β) (l : List α) (b : β)
    (h0 : P b) (hstep : ∀ b a, a ∈ l → P b → P (f b a)) : P (l.foldl f b) := by
  induction l generalizing b with
  | nil => exact h0
  | cons x xs ih =>
    simp only [List.foldl_cons]
    exact ih _ (hstep _ _ List.mem_cons_self h0) (fun b a ha hb => hstep b a (List.mem_cons_of_mem _ ha) hb)

theorem mem_insertBy {α : Type} (before : α → α → Bool) (x y : α) (l : List α) :
    y ∈ insertBy before x l ↔ y = x ∨ y ∈ l := by
  induction l with
  | nil => simp [insertBy]
  | cons z r ih =>
    unfold insertBy
    split
    · simp only [List.mem_cons, ih]
      constructor
      · rintro (h | h | h) <;> simp [h]
      · rintro (h | h | h) <;> simp [h]
    · simp only [List.mem_cons]

theorem length_insertBy {α : Type} (before : α → α → Bool) (x : α) (l : List α) :
    (insertBy before x l).length = l.length + 1 := by
  induction l with
  | nil => simp [insertBy]
  | cons z r ih =>
    unfold insertBy
    split
    · simp only [List.length_cons, ih]
    · simp only [List.length_cons]

theorem sortBy_aux {α : Type} (before : α → α → Bool) (l acc : List α) :
    (∀ y, y ∈ l.foldl (fun acc x => insertBy before x acc) acc ↔ y ∈ l ∨ y ∈ acc) ∧
    (l.foldl (fun acc x => insertBy before x acc) acc).length = l.length + acc.length := by
  induction l generalizing acc with
  | nil => simp
  | cons x xs ih =>
    simp only [List.foldl_cons]
    obtain ⟨h1, h2⟩ := ih (insertBy before x acc)
    refine ⟨fun y => ?_, ?_⟩
    · rw [h1, mem_insertBy, List.mem_cons]
      constructor
      · rintro (h | h | h) <;> simp [h]
      · rintro ((h | h) | h) <;> simp [h]
    · rw [h2, length_insertBy, List.length_cons]; omega

theorem mem_sortBy {α : Type} (before : α → α → Bool) (l : List α) (y : α) :
    y ∈ sortBy before l ↔ y ∈ l := by
  unfold sortBy
  rw [(sortBy_aux before l []).1]
  simp

theorem length_sortBy {α : Type} (before : α → α → Bool) (l : List α) :
    (sortBy before l).length = l.length := by
  unfold sortBy
  rw [(sortBy_aux before l []).2]
  simp

theorem mem_take_mono {α : Type} {l : List α} {n m : Nat} {x : α} (h : x ∈ l.take n) (hnm : n ≤ m) :
    x ∈ l.take m := by
  rw [List.mem_take_iff_getElem] at *
  obtain ⟨i, hi, rfl⟩ := h
  exact ⟨i, by omega, rfl⟩

/-! ## bounds -/

/-- bound on the values of the nodes of layer `k` (counted from the root of the diagram) -/
def Bd (B : Int) (k : Nat) : Int := ((k : Int) + 1) * B

theorem Bd_succ (B : Int) (k : Nat) : Bd B (k + 1) = Bd B k + B := by
  unfold Bd
  have h : ((k + 1 : Nat) : Int) + 1 = ((k : Int) + 1) + 1 := by omega
  rw [h, Int.add_mul, Int.one_mul]

theorem Bd_nonneg {B : Int} (hB : 0 ≤ B) (k : Nat) : 0 ≤ Bd B k := by
  unfold Bd; exact Int.mul_nonneg (by omega) hB

theorem Bd_mono {B : Int} (hB : 0 ≤ B) {i k : Nat} (h : i ≤ k) : Bd B i ≤ Bd B k := by
  unfold Bd; exact Int.mul_le_mul_of_nonneg_right (by omega) hB

/-- `|x| ≤ M` -/
def Within (M x : Int) : Prop := -M ≤ x ∧ x ≤ M

theorem within_satAdd {M B v c : Int} (hv : Within M v) (hc : Within B c) : Within (M + B) (satAdd v c) := by
  unfold Within satAdd clamp iMin iMax at *; omega

theorem satAdd_eq {v c : Int} (h1 : iMin ≤ v + c) (h2 : v + c ≤ iMax) : satAdd v c = v + c := by
  unfold satAdd; exact clamp_of_in ⟨h1, h2⟩

/-! ## `appendEdge` -/

theorem appendEdge_state (p c : Node S) (a : Arc) : (appendEdge p c a).state = c.state := by
  unfold appendEdge; dsimp only; split <;> rfl

theorem appendEdge_inb (p c : Node S) (a : Arc) : (appendEdge p c a).inb = a :: c.inb := by
  unfold appendEdge; dsimp only; split <;> rfl

theorem appendEdge_value (p c : Node S) (a : Arc) :
    ((appendEdge p c a).value = c.value ∧ satAdd p.value a.cost < c.value) ∨
    ((appendEdge p c a).value = satAdd p.value a.cost ∧ c.value ≤ satAdd p.value a.cost) := by
  unfold appendEdge; dsimp only
  split
  · next h => right; exact ⟨rfl, by omega⟩
  · next h => left; exact ⟨rfl, by omega⟩

theorem appendEdge_ge_old (p c : Node S) (a : Arc) : c.value ≤ (appendEdge p c a).value := by
  rcases appendEdge_value p c a with h | h <;> omega

theorem appendEdge_ge_new (p c : Node S) (a : Arc) : satAdd p.value a.cost ≤ (appendEdge p c a).value := by
  rcases appendEdge_value p c a with h | h <;> omega

/-! ## `branchOn` -/

/-- a node with state `st` and value ≥ `x` -/
def Has (nx : List (Node S)) (st : S) (x : Int) : Prop := ∃ m ∈ nx, m.state = st ∧ x ≤ m.value

/-- the fresh child of `_branch_on` -/
def freshNode (parent : Node S) (dst : S) (c : Int) : Node S :=
  { state := dst, value := satAdd parent.value c, fExact := parent.isExact, depth := parent.depth + 1 }

theorem go_nil (parent : Node S) (dst : S) (c : Int) (a : Arc) :
    branchOn.go parent dst c a [] = [appendEdge parent (freshNode parent dst c) a] := by
  simp only [branchOn.go, freshNode]

theorem go_cons (parent : Node S) (dst : S) (c : Int) (a : Arc) (n : Node S) (r : List (Node S)) :
    branchOn.go parent dst c a (n :: r) =
      if n.state = dst then appendEdge parent n a :: r else n :: branchOn.go parent dst c a r := by
  simp only [branchOn.go]

theorem go_has_new (parent : Node S) (dst : S) (c : Int) (a : Arc) (nx : List (Node S)) :
    Has (branchOn.go parent dst c a nx) dst (satAdd parent.value a.cost) := by
  induction nx with
  | nil =>
    rw [go_nil]
    exact ⟨_, List.mem_cons_self, by rw [appendEdge_state]; rfl, appendEdge_ge_new _ _ _⟩
  | cons n r ih =>
    rw [go_cons]
    split
    · next h => exact ⟨_, List.mem_cons_self, by rw [appendEdge_state]; exact h, appendEdge_ge_new _ _ _⟩
    · obtain ⟨m, hm, h1, h2⟩ := ih
      exact ⟨m, List.mem_cons_of_mem _ hm, h1, h2⟩

theorem go_has_mono (parent : Node S) (dst : S) (c : Int) (a : Arc) (nx : List (Node S))
    (st : S) (x : Int) (h : Has nx st x) : Has (branchOn.go parent dst c a nx) st x := by
  induction nx with
  | nil => obtain ⟨n, hn, _⟩ := h; cases hn
  | cons n r ih =>
    obtain ⟨m, hm, h1, h2⟩ := h
    rw [go_cons]
    split
    · cases hm with
      | head => exact ⟨_, List.mem_cons_self, by rw [appendEdge_state]; exact h1,
          Int.le_trans h2 (appendEdge_ge_old _ _ _)⟩
      | tail _ hm' => exact ⟨m, List.mem_cons_of_mem _ hm', h1, h2⟩
    · cases hm with
      | head => exact ⟨_, List.mem_cons_self, h1, h2⟩
      | tail _ hm' =>
        obtain ⟨m', hm'', h1', h2'⟩ := ih ⟨m, hm', h1, h2⟩
        exact ⟨m', List.mem_cons_of_mem _ hm'', h1', h2'⟩

theorem go_forall (Q : Node S → Prop) (parent : Node S) (dst : S) (c : Int) (a : Arc) (nx : List (Node S))
    (hall : ∀ n ∈ nx, Q n) (hold : ∀ n, Q n → Q (appendEdge parent n a))
    (hfresh : Q (appendEdge parent (freshNode parent dst c) a)) :
    ∀ m ∈ branchOn.go parent dst c a nx, Q m := by
  induction nx with
  | nil =>
    rw [go_nil]; intro m hm
    rcases List.mem_cons.mp hm with rfl | hm
    · exact hfresh
    · cases hm
  | cons n r ih =>
    rw [go_cons]
    split
    · intro m hm
      rcases List.mem_cons.mp hm with rfl | hm
      · exact hold _ (hall _ List.mem_cons_self)
      · exact hall _ (List.mem_cons_of_mem _ hm)
    · intro m hm
      rcases List.mem_cons.mp hm with rfl | hm
      · exact hall _ List.mem_cons_self
      · exact ih (fun n hn => hall n (List.mem_cons_of_mem _ hn)) m hm

theorem branchOn_eq (cfg : Cfg S K) (parent : Node S) (pl pp : Nat) (d : Dec) (nx : List (Node S)) :
    branchOn cfg parent pl pp d nx =
      branchOn.go parent (cfg.P.trans parent.state d) (cfg.P.cost parent.state (cfg.P.trans parent.state d) d)
        ⟨pl, pp, d, cfg.P.cost parent.state (cfg.P.trans parent.state d) d⟩ nx := rfl

/-! ## `expandOne` -/

/-- the inner loop of `expandOne`: `_branch_on` for every value of the domain -/
def branchAll (cfg : Cfg S K) (var lidx p : Nat) (n' : Node S) (ds : List Int)
    (acc : List (Node S) × List (Call S)) : List (Node S) × List (Call S) :=
  ds.foldl (fun (nx, lg) d =>
        let dec : Dec := ⟨var, d⟩
        let dst := cfg.P.trans n'.state dec
        (branchOn cfg n' lidx p dec nx, Call.cost n'.state dst dec :: Call.trans n'.state dec :: lg)) acc

theorem branchAll_nil (cfg : Cfg S K) (var lidx p : Nat) (n' : Node S) (acc : List (Node S) × List (Call S)) :
    branchAll cfg var lidx p n' [] acc = acc := rfl

theorem branchAll_cons (cfg : Cfg S K) (var lidx p : Nat) (n' : Node S) (d : Int) (ds : List Int)
    (nx : List (Node S)) (lg : List (Call S)) :
    branchAll cfg var lidx p n' (d :: ds) (nx, lg) =
      branchAll cfg var lidx p n' ds (branchOn cfg n' lidx p ⟨var, d⟩ nx,
        Call.cost n'.state (cfg.P.trans n'.state ⟨var, d⟩) ⟨var, d⟩ :: Call.trans n'.state ⟨var, d⟩ :: lg) := rfl

theorem branchAll_has_mono (cfg : Cfg S K) (var lidx p : Nat) (n' : Node S) (ds : List Int)
    (acc : List (Node S) × List (Call S)) (st : S) (x : Int) (h : Has acc.1 st x) :
    Has (branchAll cfg var lidx p n' ds acc).1 st x := by
  induction ds generalizing acc with
  | nil => exact h
  | cons d ds ih =>
    obtain ⟨nx, lg⟩ := acc
    rw [branchAll_cons]
    apply ih
    rw [branchOn_eq]
    exact go_has_mono _ _ _ _ _ _ _ h

theorem branchAll_has_new (cfg : Cfg S K) (var lidx p : Nat) (n' : Node S) (ds : List Int)
    (acc : List (Node S) × List (Call S)) (d : Int) (hd : d ∈ ds) :
    Has (branchAll cfg var lidx p n' ds acc).1 (cfg.P.trans n'.state ⟨var, d⟩)
      (satAdd n'.value (cfg.P.cost n'.state (cfg.P.trans n'.state ⟨var, d⟩) ⟨var, d⟩)) := by
  induction ds generalizing acc with
  | nil => cases hd
  | cons e ds ih =>
    obtain ⟨nx, lg⟩ := acc
    rw [branchAll_cons]
    rcases List.mem_cons.mp hd with rfl | hd
    · apply branchAll_has_mono
      rw [branchOn_eq]
      exact go_has_new _ _ _ _ _
    · exact ih _ hd

/-- the arc created by `_branch_on` for decision value `d` -/
def arcOf (cfg : Cfg S K) (var lidx p : Nat) (n' : Node S) (d : Int) : Arc :=
  ⟨lidx, p, ⟨var, d⟩, cfg.P.cost n'.state (cfg.P.trans n'.state ⟨var, d⟩) ⟨var, d⟩⟩

theorem branchAll_forall (Q : Node S → Prop) (cfg : Cfg S K) (var lidx p : Nat) (n' : Node S) (ds : List Int)
    (acc : List (Node S) × List (Call S)) (hall : ∀ m ∈ acc.1, Q m)
    (hold : ∀ d ∈ ds, ∀ n, Q n → Q (appendEdge n' n (arcOf cfg var lidx p n' d)))
    (hfresh : ∀ d ∈ ds, Q (appendEdge n' (freshNode n' (cfg.P.trans n'.state ⟨var, d⟩)
        (cfg.P.cost n'.state (cfg.P.trans n'.state ⟨var, d⟩) ⟨var, d⟩)) (arcOf cfg var lidx p n' d))) :
    ∀ m ∈ (branchAll cfg var lidx p n' ds acc).1, Q m := by
  induction ds generalizing acc with
  | nil => exact hall
  | cons e ds ih =>
    obtain ⟨nx, lg⟩ := acc
    rw [branchAll_cons]
    apply ih
    · rw [branchOn_eq]
      exact go_forall Q _ _ _ _ _ hall (hold e List.mem_cons_self) (hfresh e List.mem_cons_self)
    · exact fun d hd => hold d (List.mem_cons_of_mem _ hd)
    · exact fun d hd => hfresh d (List.mem_cons_of_mem _ hd)

theorem expandOne_none (cfg : Cfg S K) (var lidx : Nat) (ly nx : List (Node S)) (lg : List (Call S)) (p : Nat)
    (h : ly[p]? = none) : expandOne cfg var lidx (ly, nx, lg) p = (ly, nx, lg) := by
  simp only [expandOne, h]

theorem expandOne_some (cfg : Cfg S K) (var lidx : Nat) (ly nx : List (Node S)) (lg : List (Call S)) (p : Nat)
    (n : Node S) (h : ly[p]? = some n) :
    expandOne cfg var lidx (ly, nx, lg) p =
      if satAdd (cfg.R.rub n.state) n.value > cfg.lb then
        (ly.set p { n with rub := cfg.R.rub n.state },
          (branchAll cfg var lidx p { n with rub := cfg.R.rub n.state } (cfg.P.domain var n.state)
            (nx, Call.domain var n.state :: Call.rub n.state :: lg)).1,
          (branchAll cfg var lidx p { n with rub := cfg.R.rub n.state } (cfg.P.domain var n.state)
            (nx, Call.domain var n.state :: Call.rub n.state :: lg)).2)
      else (ly.set p { n with rub := cfg.R.rub n.state }, nx, Call.rub n.state :: lg) := by
  simp only [expandOne, h]
  split <;> rfl

/-- what the expansion must not change in the parent layer -/
def key (n : Node S) : S × Int := (n.state, n.value)

theorem set_same {α : Type} (l : List α) (p : Nat) (a : α) (h : l[p]? = some a) : l.set p a = l := by
  apply List.ext_getElem?
  intro i
  by_cases hi : p = i
  · subst hi
    rw [List.getElem?_set_self (by
      rcases Nat.lt_or_ge p l.length with hlt | hge
      · exact hlt
      · rw [List.getElem?_eq_none hge] at h; cases h), h]
  · rw [List.getElem?_set_ne hi]

theorem map_key_set (ly : List (Node S)) (p : Nat) (n n' : Node S) (h : ly[p]? = some n) (hk : key n' = key n) :
    (ly.set p n').map key = ly.map key := by
  rw [List.map_set, hk]
  apply set_same
  rw [List.getElem?_map, h]; rfl

theorem getElem?_of_map_key (ly : List (Node S)) (ks : List (S × Int)) (h : ly.map key = ks) (p : Nat) :
    ks[p]? = (ly[p]?).map key := by
  rw [← h, List.getElem?_map]

/-- per-node invariant of the layer under construction: the value is attained by an inbound arc whose parent sits
    in the layer being expanded (`ks` = its (state, value) list), values and arc costs are bounded -/
structure NodeOk (ks : List (S × Int)) (lidx : Nat) (B M : Int) (n : Node S) : Prop where
  att : ∃ a ∈ n.inb, a.fromL = lidx ∧ ∃ sv, ks[a.fromP]? = some sv ∧ n.value = satAdd sv.2 a.cost
  rng : Within (M + B) n.value
  arc : ∀ a ∈ n.inb, Within B a.cost

theorem appendEdge_ok_old (ks : List (S × Int)) (lidx pp : Nat) (B M : Int) (par n : Node S) (d : Dec) (c : Int)
    (hks : ks[pp]? = some (key par)) (hM : Within M par.value) (hc : Within B c) (hn : NodeOk ks lidx B M n) :
    NodeOk ks lidx B M (appendEdge par n ⟨lidx, pp, d, c⟩) := by
  obtain ⟨⟨a0, ha0, hl0, sv, hsv, hv0⟩, hr, harc⟩ := hn
  have harc' : ∀ a ∈ (appendEdge par n ⟨lidx, pp, d, c⟩).inb, Within B a.cost := by
    rw [appendEdge_inb]; intro a ha
    rcases List.mem_cons.mp ha with rfl | ha
    · exact hc
    · exact harc a ha
  rcases appendEdge_value par n ⟨lidx, pp, d, c⟩ with ⟨h1, _⟩ | ⟨h1, _⟩
  · refine ⟨⟨a0, ?_, hl0, sv, hsv, ?_⟩, ?_, harc'⟩
    · rw [appendEdge_inb]; exact List.mem_cons_of_mem _ ha0
    · rw [h1]; exact hv0
    · rw [h1]; exact hr
  · refine ⟨⟨⟨lidx, pp, d, c⟩, ?_, rfl, key par, hks, ?_⟩, ?_, harc'⟩
    · rw [appendEdge_inb]; exact List.mem_cons_self
    · rw [h1]; rfl
    · rw [h1]; exact within_satAdd hM hc

theorem appendEdge_ok_fresh (ks : List (S × Int)) (lidx pp : Nat) (B M : Int) (par : Node S) (dst : S) (d : Dec) (c : Int)
    (hks : ks[pp]? = some (key par)) (hM : Within M par.value) (hc : Within B c) :
    NodeOk ks lidx B M (appendEdge par (freshNode par dst c) ⟨lidx, pp, d, c⟩) := by
  have hv : (appendEdge par (freshNode par dst c) ⟨lidx, pp, d, c⟩).value = satAdd par.value c := by
    rcases appendEdge_value par (freshNode par dst c) ⟨lidx, pp, d, c⟩ with ⟨h1, h2⟩ | ⟨h1, _⟩
    · simp only [freshNode] at h2; omega
    · exact h1
  refine ⟨⟨⟨lidx, pp, d, c⟩, ?_, rfl, key par, hks, ?_⟩, ?_, ?_⟩
  · rw [appendEdge_inb]; exact List.mem_cons_self
  · rw [hv]; rfl
  · rw [hv]; exact within_satAdd hM hc
  · rw [appendEdge_inb]; intro a ha
    rcases List.mem_cons.mp ha with rfl | ha
    · exact hc
    · simp only [freshNode] at ha; cases ha

theorem expandOne_keys (cfg : Cfg S K) (var lidx : Nat) (acc : List (Node S) × List (Node S) × List (Call S)) (p : Nat) :
    (expandOne cfg var lidx acc p).1.map key = acc.1.map key := by
  obtain ⟨ly, nx, lg⟩ := acc
  cases h : ly[p]? with
  | none => rw [expandOne_none _ _ _ _ _ _ _ h]
  | some n =>
    rw [expandOne_some _ _ _ _ _ _ _ n h]
    split <;> exact map_key_set ly p n _ h rfl

theorem expandOne_has_mono (cfg : Cfg S K) (var lidx : Nat) (acc : List (Node S) × List (Node S) × List (Call S)) (p : Nat)
    (st : S) (x : Int) (hh : Has acc.2.1 st x) : Has (expandOne cfg var lidx acc p).2.1 st x := by
  obtain ⟨ly, nx, lg⟩ := acc
  cases h : ly[p]? with
  | none => rw [expandOne_none _ _ _ _ _ _ _ h]; exact hh
  | some n =>
    rw [expandOne_some _ _ _ _ _ _ _ n h]
    split
    · exact branchAll_has_mono _ _ _ _ _ _ _ _ _ hh
    · exact hh

theorem expandOne_has_new (cfg : Cfg S K) (var lidx : Nat) (acc : List (Node S) × List (Node S) × List (Call S)) (p : Nat)
    (n : Node S) (h : acc.1[p]? = some n) (hrub : satAdd (cfg.R.rub n.state) n.value > cfg.lb)
    (d : Int) (hd : d ∈ cfg.P.domain var n.state) :
    Has (expandOne cfg var lidx acc p).2.1 (cfg.P.trans n.state ⟨var, d⟩)
      (satAdd n.value (cfg.P.cost n.state (cfg.P.trans n.state ⟨var, d⟩) ⟨var, d⟩)) := by
  obtain ⟨ly, nx, lg⟩ := acc
  rw [expandOne_some _ _ _ _ _ _ _ n h, if_pos hrub]
  exact branchAll_has_new cfg var lidx p { n with rub := cfg.R.rub n.state } _ _ d hd

theorem expandOne_ok (cfg : Cfg S K) (var lidx : Nat) (acc : List (Node S) × List (Node S) × List (Call S)) (p : Nat)
    (ks : List (S × Int)) (B M : Int) (hks : acc.1.map key = ks) (hM : ∀ sv ∈ ks, Within M sv.2)
    (hcost : ∀ s d, d ∈ cfg.P.domain var s → Within B (cfg.P.cost s (cfg.P.trans s ⟨var, d⟩) ⟨var, d⟩))
    (hall : ∀ m ∈ acc.2.1, NodeOk ks lidx B M m) :
    ∀ m ∈ (expandOne cfg var lidx acc p).2.1, NodeOk ks lidx B M m := by
  obtain ⟨ly, nx, lg⟩ := acc
  cases h : ly[p]? with
  | none => rw [expandOne_none _ _ _ _ _ _ _ h]; exact hall
  | some n =>
    rw [expandOne_some _ _ _ _ _ _ _ n h]
    split
    · have hk : ks[p]? = some (key n) := by rw [getElem?_of_map_key ly ks hks p, h]; rfl
      have hMn : Within M n.value := hM _ (List.mem_of_getElem? hk)
      dsimp only at hall ⊢
      refine branchAll_forall (NodeOk ks lidx B M) cfg var lidx p _ _ (nx, _) hall ?_ ?_
      · intro d hd m hm
        exact appendEdge_ok_old ks lidx p B M _ m _ _ hk hMn (hcost n.state d hd) hm
      · intro d hd
        exact appendEdge_ok_fresh ks lidx p B M _ _ _ _ hk hMn (hcost n.state d hd)
    · exact hall

/-! ## `expandAll` -/

theorem fold_keys (cfg : Cfg S K) (var lidx : Nat) (cur : List Nat) (acc : List (Node S) × List (Node S) × List (Call S)) :
    (cur.foldl (expandOne cfg var lidx) acc).1.map key = acc.1.map key := by
  induction cur generalizing acc with
  | nil => rfl
  | cons x xs ih => rw [List.foldl_cons, ih, expandOne_keys]

theorem fold_has_mono (cfg : Cfg S K) (var lidx : Nat) (cur : List Nat) (acc : List (Node S) × List (Node S) × List (Call S))
    (st : S) (x : Int) (hh : Has acc.2.1 st x) : Has (cur.foldl (expandOne cfg var lidx) acc).2.1 st x := by
  induction cur generalizing acc with
  | nil => exact hh
  | cons y ys ih => rw [List.foldl_cons]; exact ih _ (expandOne_has_mono _ _ _ _ _ _ _ hh)

theorem fold_has_new (cfg : Cfg S K) (var lidx : Nat) (cur : List Nat) (acc : List (Node S) × List (Node S) × List (Call S))
    (q : Nat) (hq : q ∈ cur) (s : S) (v : Int) (hk : (acc.1.map key)[q]? = some (s, v))
    (hrub : satAdd (cfg.R.rub s) v > cfg.lb) (d : Int) (hd : d ∈ cfg.P.domain var s) :
    Has (cur.foldl (expandOne cfg var lidx) acc).2.1 (cfg.P.trans s ⟨var, d⟩)
      (satAdd v (cfg.P.cost s (cfg.P.trans s ⟨var, d⟩) ⟨var, d⟩)) := by
  induction cur generalizing acc with
  | nil => cases hq
  | cons y ys ih =>
    rw [List.foldl_cons]
    rcases List.mem_cons.mp hq with rfl | hq
    · apply fold_has_mono
      rw [List.getElem?_map] at hk
      cases h1 : acc.1[q]? with
      | none => rw [h1] at hk; cases hk
      | some n1 =>
        rw [h1] at hk
        simp only [Option.map_some, key, Option.some.injEq, Prod.mk.injEq] at hk
        obtain ⟨rfl, rfl⟩ := hk
        exact expandOne_has_new cfg var lidx acc q n1 h1 hrub d hd
    · exact ih _ hq (by rw [expandOne_keys]; exact hk)

theorem fold_ok (cfg : Cfg S K) (var lidx : Nat) (cur : List Nat) (acc : List (Node S) × List (Node S) × List (Call S))
    (ks : List (S × Int)) (B M : Int) (hks : acc.1.map key = ks) (hM : ∀ sv ∈ ks, Within M sv.2)
    (hcost : ∀ s d, d ∈ cfg.P.domain var s → Within B (cfg.P.cost s (cfg.P.trans s ⟨var, d⟩) ⟨var, d⟩))
    (hall : ∀ m ∈ acc.2.1, NodeOk ks lidx B M m) :
    ∀ m ∈ (cur.foldl (expandOne cfg var lidx) acc).2.1, NodeOk ks lidx B M m := by
  induction cur generalizing acc with
  | nil => exact hall
  | cons y ys ih =>
    rw [List.foldl_cons]
    exact ih _ (by rw [expandOne_keys]; exact hks) (expandOne_ok cfg var lidx acc y ks B M hks hM hcost hall)

/-! ## `relaxLayer`: the two folds -/

/-- what the redirection must not change in the nodes other than the merged one -/
def sig (n : Node S) : S × Int × List Arc := (n.state, n.value, n.inb)

/-- `ly'` extends `ly` w.r.t. the merged position `mpos`: same length, the other nodes keep state / value / arcs,
    the node at `mpos` keeps its state and does not lose value -/
structure Ext (mpos : Nat) (ly ly' : List (Node S)) : Prop where
  len : ly'.length = ly.length
  other : ∀ q, q ≠ mpos → (ly'[q]?).map sig = (ly[q]?).map sig
  at_m : ∀ m, ly[mpos]? = some m → ∃ m', ly'[mpos]? = some m' ∧ m'.state = m.state ∧ m.value ≤ m'.value

theorem Ext.refl (mpos : Nat) (ly : List (Node S)) : Ext mpos ly ly :=
  ⟨rfl, fun _ _ => rfl, fun m h => ⟨m, h, rfl, Int.le_refl _⟩⟩

theorem Ext.trans {mpos : Nat} {a b c : List (Node S)} (h1 : Ext mpos a b) (h2 : Ext mpos b c) : Ext mpos a c := by
  refine ⟨by rw [h2.len, h1.len], fun q hq => by rw [h2.other q hq, h1.other q hq], fun m hm => ?_⟩
  obtain ⟨m1, hm1, hs1, hv1⟩ := h1.at_m m hm
  obtain ⟨m2, hm2, hs2, hv2⟩ := h2.at_m m1 hm1
  exact ⟨m2, hm2, by rw [hs2, hs1], by omega⟩

theorem lt_of_getElem?_some {α : Type} {l : List α} {p : Nat} {a : α} (h : l[p]? = some a) : p < l.length := by
  rcases Nat.lt_or_ge p l.length with hlt | hge
  · exact hlt
  · rw [List.getElem?_eq_none hge] at h; cases h

theorem Ext_set (mpos : Nat) (ly : List (Node S)) (p : Nat) (n n' : Node S) (h : ly[p]? = some n)
    (h1 : p ≠ mpos → sig n' = sig n) (h2 : p = mpos → n'.state = n.state ∧ n.value ≤ n'.value) :
    Ext mpos ly (ly.set p n') := by
  have hp := lt_of_getElem?_some h
  refine ⟨List.length_set, fun q hq => ?_, fun m hm => ?_⟩
  · by_cases hpq : p = q
    · subst hpq
      rw [List.getElem?_set_self hp, h, Option.map_some, Option.map_some, h1 hq]
    · rw [List.getElem?_set_ne hpq]
  · by_cases hpm : p = mpos
    · subst hpm
      rw [h] at hm; cases hm
      exact ⟨n', List.getElem?_set_self hp, (h2 rfl).1, (h2 rfl).2⟩
    · rw [List.getElem?_set_ne hpm]
      exact ⟨m, hm, rfl, Int.le_refl _⟩

/-- redirection of one inbound arc `e` of the merged-away node `dropN` -/
def redirStep (cfg : Cfg S K) (layers : List (List (Node S))) (merged : S) (mpos : Nat) (dropN : Node S)
    (acc : List (Node S) × List (Call S)) (e : Arc) : List (Node S) × List (Call S) :=
  match getNode layers e.fromL e.fromP, acc.1[mpos]? with
  | some src, some m =>
    (acc.1.set mpos (appendEdge src m ⟨e.fromL, e.fromP, e.dec, cfg.R.relax src.state dropN.state merged e.dec e.cost⟩),
     Call.relax src.state dropN.state merged e.dec e.cost :: acc.2)
  | _, _ => (acc.1, acc.2)

/-- one merged-away node: mark it deleted, redirect its inbound arcs -/
def dropStep (cfg : Cfg S K) (layers : List (List (Node S))) (merged : S) (mpos : Nat)
    (acc : List (Node S) × List (Call S)) (p : Nat) : List (Node S) × List (Call S) :=
  match acc.1[p]? with
  | none => (acc.1, acc.2)
  | some dropN =>
    dropN.inb.foldl (redirStep cfg layers merged mpos dropN) (acc.1.set p { dropN with deleted := true }, acc.2)

theorem redirStep_cases (cfg : Cfg S K) (layers : List (List (Node S))) (merged : S) (mpos : Nat) (dropN : Node S)
    (acc : List (Node S) × List (Call S)) (e : Arc) :
    ((redirStep cfg layers merged mpos dropN acc e).1 = acc.1 ∧
      (getNode layers e.fromL e.fromP = none ∨ acc.1[mpos]? = none)) ∨
    ∃ src m, getNode layers e.fromL e.fromP = some src ∧ acc.1[mpos]? = some m ∧
      (redirStep cfg layers merged mpos dropN acc e).1 =
        acc.1.set mpos (appendEdge src m ⟨e.fromL, e.fromP, e.dec, cfg.R.relax src.state dropN.state merged e.dec e.cost⟩) := by
  unfold redirStep
  cases h1 : getNode layers e.fromL e.fromP with
  | none => left; exact ⟨rfl, Or.inl rfl⟩
  | some src =>
    cases h2 : acc.1[mpos]? with
    | none => left; exact ⟨rfl, Or.inr rfl⟩
    | some m => right; exact ⟨src, m, rfl, rfl, rfl⟩

theorem redirStep_ext (cfg : Cfg S K) (layers : List (List (Node S))) (merged : S) (mpos : Nat) (dropN : Node S)
    (acc : List (Node S) × List (Call S)) (e : Arc) :
    Ext mpos acc.1 (redirStep cfg layers merged mpos dropN acc e).1 := by
  rcases redirStep_cases cfg layers merged mpos dropN acc e with ⟨h, _⟩ | ⟨src, m, _, hm, h⟩
  · rw [h]; exact Ext.refl _ _
  · rw [h]
    exact Ext_set mpos acc.1 mpos m _ hm (fun hne => absurd rfl hne)
      (fun _ => ⟨appendEdge_state _ _ _, appendEdge_ge_old _ _ _⟩)

theorem inner_ext (cfg : Cfg S K) (layers : List (List (Node S))) (merged : S) (mpos : Nat) (dropN : Node S)
    (inb : List Arc) (acc : List (Node S) × List (Call S)) :
    Ext mpos acc.1 (inb.foldl (redirStep cfg layers merged mpos dropN) acc).1 := by
  induction inb generalizing acc with
  | nil => exact Ext.refl _ _
  | cons e es ih => rw [List.foldl_cons]; exact (redirStep_ext _ _ _ _ _ _ _).trans (ih _)

theorem dropStep_ext (cfg : Cfg S K) (layers : List (List (Node S))) (merged : S) (mpos : Nat)
    (acc : List (Node S) × List (Call S)) (p : Nat) :
    Ext mpos acc.1 (dropStep cfg layers merged mpos acc p).1 := by
  unfold dropStep
  cases h : acc.1[p]? with
  | none => exact Ext.refl _ _
  | some dropN =>
    dsimp only
    refine Ext.trans ?_ (inner_ext _ _ _ _ _ _ _)
    exact Ext_set mpos acc.1 p dropN _ h (fun _ => rfl) (fun _ => ⟨rfl, Int.le_refl _⟩)

theorem outer_ext (cfg : Cfg S K) (layers : List (List (Node S))) (merged : S) (mpos : Nat)
    (rest : List Nat) (acc : List (Node S) × List (Call S)) :
    Ext mpos acc.1 (rest.foldl (dropStep cfg layers merged mpos) acc).1 := by
  induction rest generalizing acc with
  | nil => exact Ext.refl _ _
  | cons e es ih => rw [List.foldl_cons]; exact (dropStep_ext _ _ _ _ _ _).trans (ih _)

/-- the node at `mpos` has value ≥ `v` -/
def LB (mpos : Nat) (v : Int) (ly : List (Node S)) : Prop := ∃ m, ly[mpos]? = some m ∧ v ≤ m.value

theorem LB_ext {mpos : Nat} {v : Int} {ly ly' : List (Node S)} (h : LB mpos v ly) (he : Ext mpos ly ly') : LB mpos v ly' := by
  obtain ⟨m, hm, hv⟩ := h
  obtain ⟨m', hm', _, hv'⟩ := he.at_m m hm
  exact ⟨m', hm', by omega⟩

theorem redirStep_recv (cfg : Cfg S K) (layers : List (List (Node S))) (merged : S) (mpos : Nat) (dropN : Node S)
    (acc : List (Node S) × List (Call S)) (e : Arc) (src m : Node S)
    (hsrc : getNode layers e.fromL e.fromP = some src) (hm : acc.1[mpos]? = some m) :
    LB mpos (satAdd src.value (cfg.R.relax src.state dropN.state merged e.dec e.cost))
      (redirStep cfg layers merged mpos dropN acc e).1 := by
  rcases redirStep_cases cfg layers merged mpos dropN acc e with ⟨_, h | h⟩ | ⟨src', m', hs', hm', h⟩
  · rw [h] at hsrc; cases hsrc
  · rw [h] at hm; cases hm
  · rw [hsrc] at hs'; cases hs'
    rw [h]
    exact ⟨_, List.getElem?_set_self (lt_of_getElem?_some hm), appendEdge_ge_new _ _ _⟩

theorem inner_recv (cfg : Cfg S K) (layers : List (List (Node S))) (merged : S) (mpos : Nat) (dropN : Node S)
    (inb : List Arc) (acc : List (Node S) × List (Call S)) (a : Arc) (ha : a ∈ inb) (src m : Node S)
    (hsrc : getNode layers a.fromL a.fromP = some src) (hm : acc.1[mpos]? = some m) :
    LB mpos (satAdd src.value (cfg.R.relax src.state dropN.state merged a.dec a.cost))
      (inb.foldl (redirStep cfg layers merged mpos dropN) acc).1 := by
  induction inb generalizing acc m with
  | nil => cases ha
  | cons e es ih =>
    rw [List.foldl_cons]
    rcases List.mem_cons.mp ha with rfl | ha
    · exact LB_ext (redirStep_recv cfg layers merged mpos dropN acc a src m hsrc hm) (inner_ext _ _ _ _ _ _ _)
    · obtain ⟨m', hm', _, _⟩ := (redirStep_ext cfg layers merged mpos dropN acc e).at_m m hm
      exact ih _ ha m' hm'

theorem dropStep_recv (cfg : Cfg S K) (layers : List (List (Node S))) (merged : S) (mpos : Nat)
    (acc : List (Node S) × List (Call S)) (q : Nat) (u : Node S) (hu : acc.1[q]? = some u)
    (a : Arc) (ha : a ∈ u.inb) (src m : Node S)
    (hsrc : getNode layers a.fromL a.fromP = some src) (hm : acc.1[mpos]? = some m) :
    LB mpos (satAdd src.value (cfg.R.relax src.state u.state merged a.dec a.cost))
      (dropStep cfg layers merged mpos acc q).1 := by
  unfold dropStep
  rw [hu]
  dsimp only
  obtain ⟨m', hm', _, _⟩ := (Ext_set mpos acc.1 q u { u with deleted := true } hu (fun _ => rfl)
    (fun _ => ⟨rfl, Int.le_refl _⟩)).at_m m hm
  exact inner_recv cfg layers merged mpos { u with deleted := true } u.inb (acc.1.set q { u with deleted := true }, acc.2)
    a ha src m' hsrc hm'

theorem outer_recv (cfg : Cfg S K) (layers : List (List (Node S))) (merged : S) (mpos : Nat)
    (rest : List Nat) (acc : List (Node S) × List (Call S)) (q : Nat) (hq : q ∈ rest) (hqm : q ≠ mpos)
    (s : S) (v : Int) (inb : List Arc) (hu : (acc.1[q]?).map sig = some (s, v, inb))
    (a : Arc) (ha : a ∈ inb) (src m : Node S)
    (hsrc : getNode layers a.fromL a.fromP = some src) (hm : acc.1[mpos]? = some m) :
    LB mpos (satAdd src.value (cfg.R.relax src.state s merged a.dec a.cost))
      (rest.foldl (dropStep cfg layers merged mpos) acc).1 := by
  induction rest generalizing acc m with
  | nil => cases hq
  | cons p ps ih =>
    rw [List.foldl_cons]
    rcases List.mem_cons.mp hq with rfl | hq
    · cases h1 : acc.1[q]? with
      | none => rw [h1] at hu; cases hu
      | some u =>
        rw [h1] at hu
        simp only [Option.map_some, sig, Option.some.injEq, Prod.mk.injEq] at hu
        obtain ⟨rfl, rfl, rfl⟩ := hu
        exact LB_ext (dropStep_recv cfg layers merged mpos acc q u h1 a ha src m hsrc hm) (outer_ext _ _ _ _ _ _)
    · have he := dropStep_ext cfg layers merged mpos acc p
      obtain ⟨m', hm', _, _⟩ := he.at_m m hm
      exact ih _ hq (by rw [he.other q hqm]; exact hu) m' hm'

/-- values bounded above by `M`, arc costs within `B` -/
def UpOk (B M : Int) (ly : List (Node S)) : Prop := ∀ n ∈ ly, n.value ≤ M ∧ ∀ a ∈ n.inb, Within B a.cost

theorem UpOk_set {B M : Int} {ly : List (Node S)} (h : UpOk B M ly) (p : Nat) (n' : Node S)
    (hn : n'.value ≤ M ∧ ∀ a ∈ n'.inb, Within B a.cost) : UpOk B M (ly.set p n') := by
  intro n hmem
  rcases List.mem_or_eq_of_mem_set hmem with h1 | rfl
  · exact h n h1
  · exact hn

/-- parents are such that adding a bounded cost stays within `M`; relaxed costs stay bounded -/
structure SrcOk (cfg : Cfg S K) (layers : List (List (Node S))) (B M : Int) : Prop where
  src : ∀ l p src c, getNode layers l p = some src → Within B c → Within M (satAdd src.value c)
  rel : ∀ s u m d c, Within B c → Within B (cfg.R.relax s u m d c)

theorem redirStep_up (cfg : Cfg S K) (layers : List (List (Node S))) (merged : S) (mpos : Nat) (dropN : Node S)
    (acc : List (Node S) × List (Call S)) (e : Arc) (B M : Int) (hs : SrcOk cfg layers B M)
    (he : Within B e.cost) (h : UpOk B M acc.1) : UpOk B M (redirStep cfg layers merged mpos dropN acc e).1 := by
  rcases redirStep_cases cfg layers merged mpos dropN acc e with ⟨h1, _⟩ | ⟨src, m, hsrc, hm, h1⟩
  · rw [h1]; exact h
  · rw [h1]
    apply UpOk_set h
    have hmm := h m (List.mem_of_getElem? hm)
    have hrc := hs.rel src.state dropN.state merged e.dec e.cost he
    constructor
    · rcases appendEdge_value src m ⟨e.fromL, e.fromP, e.dec, cfg.R.relax src.state dropN.state merged e.dec e.cost⟩
        with ⟨h2, _⟩ | ⟨h2, _⟩
      · rw [h2]; exact hmm.1
      · rw [h2]; exact (hs.src _ _ src _ hsrc hrc).2
    · rw [appendEdge_inb]; intro a ha
      rcases List.mem_cons.mp ha with rfl | ha
      · exact hrc
      · exact hmm.2 a ha

theorem inner_up (cfg : Cfg S K) (layers : List (List (Node S))) (merged : S) (mpos : Nat) (dropN : Node S)
    (inb : List Arc) (acc : List (Node S) × List (Call S)) (B M : Int) (hs : SrcOk cfg layers B M)
    (he : ∀ e ∈ inb, Within B e.cost) (h : UpOk B M acc.1) :
    UpOk B M (inb.foldl (redirStep cfg layers merged mpos dropN) acc).1 :=
  foldl_inv (fun b => UpOk B M b.1) _ inb acc h
    (fun b e hmem hb => redirStep_up cfg layers merged mpos dropN b e B M hs (he e hmem) hb)

theorem dropStep_up (cfg : Cfg S K) (layers : List (List (Node S))) (merged : S) (mpos : Nat)
    (acc : List (Node S) × List (Call S)) (p : Nat) (B M : Int) (hs : SrcOk cfg layers B M)
    (h : UpOk B M acc.1) : UpOk B M (dropStep cfg layers merged mpos acc p).1 := by
  unfold dropStep
  cases h1 : acc.1[p]? with
  | none => exact h
  | some dropN =>
    dsimp only
    have hd := h dropN (List.mem_of_getElem? h1)
    exact inner_up cfg layers merged mpos _ dropN.inb _ B M hs hd.2 (UpOk_set h p _ hd)

theorem outer_up (cfg : Cfg S K) (layers : List (List (Node S))) (merged : S) (mpos : Nat)
    (rest : List Nat) (acc : List (Node S) × List (Call S)) (B M : Int) (hs : SrcOk cfg layers B M)
    (h : UpOk B M acc.1) : UpOk B M (rest.foldl (dropStep cfg layers merged mpos) acc).1 :=
  foldl_inv (fun b => UpOk B M b.1) _ rest acc h
    (fun b p _ hb => dropStep_up cfg layers merged mpos b p B M hs hb)

/-! ## `relaxLayer` -/

def keepOf (cfg : Cfg S K) (layer : List (Node S)) (cur : List Nat) : List Nat :=
  (sortSquash cfg layer cur).take (cfg.width - 1)
def restOf (cfg : Cfg S K) (layer : List (Node S)) (cur : List Nat) : List Nat :=
  (sortSquash cfg layer cur).drop (cfg.width - 1)
def restStatesOf (cfg : Cfg S K) (layer : List (Node S)) (cur : List Nat) : List S :=
  (restOf cfg layer cur).filterMap (fun p => (layer[p]?).map (·.state))
def mergedOf (cfg : Cfg S K) (layer : List (Node S)) (cur : List Nat) : S :=
  cfg.R.merge (restStatesOf cfg layer cur)
def recycledOf (cfg : Cfg S K) (layer : List (Node S)) (cur : List Nat) : Option Nat :=
  (keepOf cfg layer cur).find?
    (fun p => match layer[p]? with | some n => decide (n.state = mergedOf cfg layer cur) | none => false)

def markRelaxed (l : List (Node S)) (mpos : Nat) : List (Node S) :=
  match l[mpos]? with
  | some n => l.set mpos { n with fRelaxed := true }
  | none => l

def undelete (l : List (Node S)) (cur' : List Nat) : List (Node S) :=
  match cur'.getLast? with
  | some sp => (match l[sp]? with | some n => l.set sp { n with deleted := false } | none => l)
  | none => l

def freshMerged (merged : S) (d0 : Nat) : Node S :=
  { state := merged, value := iMin, fExact := false, fRelaxed := true, depth := d0 }

theorem relaxLayer_elim (cfg : Cfg S K) (layers : List (List (Node S))) (layer : List (Node S)) (cur : List Nat)
    (log : List (Call S)) (P : List (Node S) × List Nat × List (Call S) → Prop)
    (hnone : recycledOf cfg layer cur = none → ∀ d0 lg,
      P (((restOf cfg layer cur).foldl (dropStep cfg layers (mergedOf cfg layer cur) layer.length)
            (markRelaxed (layer ++ [freshMerged (mergedOf cfg layer cur) d0]) layer.length, lg)).1,
         keepOf cfg layer cur ++ [layer.length],
         ((restOf cfg layer cur).foldl (dropStep cfg layers (mergedOf cfg layer cur) layer.length)
            (markRelaxed (layer ++ [freshMerged (mergedOf cfg layer cur) d0]) layer.length, lg)).2))
    (hsome : ∀ mp, recycledOf cfg layer cur = some mp → ∀ lg,
      P (undelete ((restOf cfg layer cur).foldl (dropStep cfg layers (mergedOf cfg layer cur) mp)
            (markRelaxed layer mp, lg)).1 ((sortSquash cfg layer cur).take cfg.width),
         (sortSquash cfg layer cur).take cfg.width,
         ((restOf cfg layer cur).foldl (dropStep cfg layers (mergedOf cfg layer cur) mp)
            (markRelaxed layer mp, lg)).2)) :
    P (relaxLayer cfg layers layer cur log) := by
  unfold relaxLayer
  dsimp only
  generalize hrec : List.find? _ (List.take (cfg.width - 1) (sortSquash cfg layer cur)) = recycled
  have hrec' : recycledOf cfg layer cur = recycled := hrec
  cases recycled with
  | none =>
    dsimp only
    exact hnone hrec' _ _
  | some mp =>
    dsimp only
    exact hsome mp hrec' _

theorem markRelaxed_ext (mpos : Nat) (l : List (Node S)) (p : Nat) : Ext mpos l (markRelaxed l p) := by
  unfold markRelaxed
  cases h : l[p]? with
  | none => exact Ext.refl _ _
  | some n => exact Ext_set mpos l p n _ h (fun _ => rfl) (fun _ => ⟨rfl, Int.le_refl _⟩)

theorem markRelaxed_up {B M : Int} {l : List (Node S)} (h : UpOk B M l) (p : Nat) : UpOk B M (markRelaxed l p) := by
  unfold markRelaxed
  cases h1 : l[p]? with
  | none => exact h
  | some n => exact UpOk_set h p _ (h n (List.mem_of_getElem? h1))

theorem undelete_ext (mpos : Nat) (l : List (Node S)) (c : List Nat) : Ext mpos l (undelete l c) := by
  unfold undelete
  cases c.getLast? with
  | none => exact Ext.refl _ _
  | some sp =>
    dsimp only
    cases h : l[sp]? with
    | none => exact Ext.refl _ _
    | some n => exact Ext_set mpos l sp n _ h (fun _ => rfl) (fun _ => ⟨rfl, Int.le_refl _⟩)

theorem undelete_up {B M : Int} {l : List (Node S)} (h : UpOk B M l) (c : List Nat) : UpOk B M (undelete l c) := by
  unfold undelete
  cases c.getLast? with
  | none => exact h
  | some sp =>
    dsimp only
    cases h1 : l[sp]? with
    | none => exact h
    | some n => exact UpOk_set h sp _ (h n (List.mem_of_getElem? h1))

theorem sig_of_map {o : Option (Node S)} {u : Node S} (h : o.map sig = some (sig u)) :
    ∃ n, o = some n ∧ n.state = u.state ∧ n.value = u.value ∧ n.inb = u.inb := by
  cases o with
  | none => cases h
  | some n =>
    simp only [Option.map_some, sig, Option.some.injEq, Prod.mk.injEq] at h
    exact ⟨n, rfl, h.1, h.2.1, h.2.2⟩

/-- what a node `u` of the layer becomes after the relaxation: it is kept (possibly with a larger value), or it is
    merged and every one of its inbound arcs has been redirected to the merged node -/
def Transfer (cfg : Cfg S K) (layers : List (List (Node S))) (layer : List (Node S)) (cur : List Nat)
    (u n' : Node S) : Prop :=
  (n'.state = u.state ∧ u.value ≤ n'.value) ∨
  (u.state ∈ restStatesOf cfg layer cur ∧ n'.state = mergedOf cfg layer cur ∧
    ∀ a ∈ u.inb, ∀ src, getNode layers a.fromL a.fromP = some src →
      satAdd src.value (cfg.R.relax src.state u.state (mergedOf cfg layer cur) a.dec a.cost) ≤ n'.value)

theorem relax_core (cfg : Cfg S K) (layers : List (List (Node S))) (layer layer1 out : List (Node S)) (cur cur' : List Nat)
    (mpos : Nat) (lg0 : List (Call S))
    (h1 : ∀ q, q < layer.length → layer1[q]? = layer[q]?)
    (hm0 : ∃ m0, layer1[mpos]? = some m0 ∧ m0.state = mergedOf cfg layer cur)
    (hout : Ext mpos ((restOf cfg layer cur).foldl (dropStep cfg layers (mergedOf cfg layer cur) mpos)
            (markRelaxed layer1 mpos, lg0)).1 out)
    (hkeep : ∀ q ∈ keepOf cfg layer cur, q ∈ cur') (hmp : mpos ∈ cur')
    (q : Nat) (hq : q ∈ cur) (u : Node S) (hu : layer[q]? = some u) :
    ∃ q' ∈ cur', ∃ n', out[q']? = some n' ∧ Transfer cfg layers layer cur u n' := by
  have hql := lt_of_getElem?_some hu
  have hu1 : layer1[q]? = some u := by rw [h1 q hql]; exact hu
  have E1 := markRelaxed_ext mpos layer1 mpos
  have E2 := outer_ext cfg layers (mergedOf cfg layer cur) mpos (restOf cfg layer cur) (markRelaxed layer1 mpos, lg0)
  have E : Ext mpos layer1 out := E1.trans (E2.trans hout)
  have hqs : q ∈ keepOf cfg layer cur ∨ q ∈ restOf cfg layer cur := by
    have : q ∈ sortSquash cfg layer cur := by unfold sortSquash; exact (mem_sortBy _ _ _).mpr hq
    rw [← List.take_append_drop (cfg.width - 1) (sortSquash cfg layer cur)] at this
    exact List.mem_append.mp this
  by_cases hqm : q = mpos
  · subst hqm
    obtain ⟨m', hm', hs', hv'⟩ := E.at_m u hu1
    exact ⟨q, hmp, m', hm', Or.inl ⟨hs', hv'⟩⟩
  · have ho := E.other q hqm
    rw [hu1] at ho
    obtain ⟨n', hn', hs', hv', hi'⟩ := sig_of_map ho
    rcases hqs with hk | hr
    · exact ⟨q, hkeep q hk, n', hn', Or.inl ⟨hs', by omega⟩⟩
    · obtain ⟨m0, hm0, hms⟩ := hm0
      obtain ⟨m', hm', hs'', _⟩ := E.at_m m0 hm0
      refine ⟨mpos, hmp, m', hm', Or.inr ⟨?_, by rw [hs'', hms], ?_⟩⟩
      · unfold restStatesOf
        exact List.mem_filterMap.mpr ⟨q, hr, by rw [hu]; rfl⟩
      · intro a ha src hsrc
        obtain ⟨m1, hm1, _, _⟩ := E1.at_m m0 hm0
        have hlb := outer_recv cfg layers (mergedOf cfg layer cur) mpos (restOf cfg layer cur)
          (markRelaxed layer1 mpos, lg0) q hr hqm u.state u.value u.inb
          (by rw [E1.other q hqm, hu1]; rfl) a ha src m1 hsrc hm1
        obtain ⟨m2, hm2, hv2⟩ := LB_ext hlb hout
        rw [hm'] at hm2; cases hm2
        exact hv2

theorem relax_core_range (cfg : Cfg S K) (layers : List (List (Node S))) (layer layer1 out : List (Node S)) (cur : List Nat)
    (mpos : Nat) (lg0 : List (Call S)) (B M : Int) (hs : SrcOk cfg layers B M)
    (hl1 : UpOk B M layer1) (hlo1 : ∀ q n1, q ≠ mpos → layer1[q]? = some n1 → -M ≤ n1.value)
    (hout : Ext mpos ((restOf cfg layer cur).foldl (dropStep cfg layers (mergedOf cfg layer cur) mpos)
            (markRelaxed layer1 mpos, lg0)).1 out)
    (hup : UpOk B M ((restOf cfg layer cur).foldl (dropStep cfg layers (mergedOf cfg layer cur) mpos)
            (markRelaxed layer1 mpos, lg0)).1 → UpOk B M out)
    (hlow : LB mpos (-M) out) :
    ∀ n ∈ out, Within M n.value := by
  have E1 := markRelaxed_ext mpos layer1 mpos
  have E2 := outer_ext cfg layers (mergedOf cfg layer cur) mpos (restOf cfg layer cur) (markRelaxed layer1 mpos, lg0)
  have E : Ext mpos layer1 out := E1.trans (E2.trans hout)
  have hU : UpOk B M out := hup (outer_up cfg layers _ mpos _ _ B M hs (markRelaxed_up hl1 mpos))
  intro n hn
  refine ⟨?_, (hU n hn).1⟩
  obtain ⟨q, hq⟩ := List.mem_iff_getElem?.mp hn
  by_cases hqm : q = mpos
  · subst hqm
    obtain ⟨m, hm, hv⟩ := hlow
    rw [hq] at hm; cases hm; exact hv
  · have ho := E.other q hqm
    rw [hq] at ho
    cases h1 : layer1[q]? with
    | none => rw [h1] at ho; cases ho
    | some n1 =>
      rw [h1] at ho
      simp only [Option.map_some, sig, Option.some.injEq, Prod.mk.injEq] at ho
      have := hlo1 q n1 hqm h1
      omega

theorem LB_mono {mpos : Nat} {v v' : Int} {ly : List (Node S)} (h : LB mpos v ly) (hv : v' ≤ v) : LB mpos v' ly := by
  obtain ⟨m, hm, h1⟩ := h
  exact ⟨m, hm, by omega⟩

/-- hypotheses on the layer to be relaxed needed for the range part -/
structure LayerOk (layers : List (List (Node S))) (layer : List (Node S)) (cur : List Nat) (B M : Int) : Prop where
  rng : ∀ n ∈ layer, Within M n.value ∧ ∀ a ∈ n.inb, Within B a.cost
  att : ∀ q ∈ cur, ∀ u, layer[q]? = some u → ∃ a ∈ u.inb, ∃ src, getNode layers a.fromL a.fromP = some src

/-- post-condition of `relaxLayer` -/
structure RelaxPost (cfg : Cfg S K) (layers : List (List (Node S))) (layer : List (Node S)) (cur : List Nat)
    (r : List (Node S) × List Nat × List (Call S)) : Prop where
  transfer : ∀ q ∈ cur, ∀ u, layer[q]? = some u →
    ∃ q' ∈ r.2.1, ∃ n', r.1[q']? = some n' ∧ Transfer cfg layers layer cur u n'
  range : ∀ B M, SrcOk cfg layers B M → 0 ≤ M → LayerOk layers layer cur B M → ∀ n ∈ r.1, Within M n.value

theorem rest_nonempty (cfg : Cfg S K) (layer : List (Node S)) (cur : List Nat) (hW : 1 ≤ cfg.width)
    (hlen : cur.length > cfg.width) : ∃ q0, q0 ∈ restOf cfg layer cur ∧ q0 ∈ cur := by
  have hl : (restOf cfg layer cur).length = cur.length - (cfg.width - 1) := by
    unfold restOf sortSquash; rw [List.length_drop, length_sortBy]
  cases hr : restOf cfg layer cur with
  | nil => rw [hr] at hl; simp only [List.length_nil] at hl; omega
  | cons q0 t =>
    refine ⟨q0, List.mem_cons_self, ?_⟩
    have : q0 ∈ restOf cfg layer cur := by rw [hr]; exact List.mem_cons_self
    unfold restOf at this
    have := List.mem_of_mem_drop this
    unfold sortSquash at this
    exact (mem_sortBy _ _ _).mp this

theorem relaxLayer_spec (cfg : Cfg S K) (layers : List (List (Node S))) (layer : List (Node S)) (cur : List Nat)
    (log : List (Call S)) (hW : 1 ≤ cfg.width) (hlen : cur.length > cfg.width) (hcur : ∀ p ∈ cur, p < layer.length) :
    RelaxPost cfg layers layer cur (relaxLayer cfg layers layer cur log) := by
  apply relaxLayer_elim
  · -- fresh merged node
    intro hrec d0 lg
    have h1 : ∀ q, q < layer.length →
        (layer ++ [freshMerged (mergedOf cfg layer cur) d0])[q]? = layer[q]? :=
      fun q hq => List.getElem?_append_left hq
    have hm0 : (layer ++ [freshMerged (mergedOf cfg layer cur) d0])[layer.length]? =
        some (freshMerged (mergedOf cfg layer cur) d0) := List.getElem?_concat_length
    refine ⟨fun q hq u hu => ?_, fun B M hs hM hl => ?_⟩
    · exact relax_core cfg layers layer _ _ cur _ layer.length lg h1 ⟨_, hm0, rfl⟩ (Ext.refl _ _)
        (fun q hq => List.mem_append_left _ hq) (List.mem_append_right _ List.mem_cons_self) q hq u hu
    · refine relax_core_range cfg layers layer _ _ cur layer.length lg B M hs ?_ ?_ (Ext.refl _ _) (fun h => h) ?_
      · intro n hn
        rcases List.mem_append.mp hn with h | h
        · exact ⟨(hl.rng n h).1.2, (hl.rng n h).2⟩
        · rcases List.mem_cons.mp h with rfl | h
          · refine ⟨?_, fun a ha => by cases ha⟩
            simp only [freshMerged]; unfold iMin; omega
          · cases h
      · intro q n1 hqm hq1
        have hlt := lt_of_getElem?_some hq1
        rw [List.length_append, List.length_singleton] at hlt
        have hq' : q < layer.length := by omega
        rw [h1 q hq'] at hq1
        exact (hl.rng n1 (List.mem_of_getElem? hq1)).1.1
      · obtain ⟨q0, hq0, hq0c⟩ := rest_nonempty cfg layer cur hW hlen
        have hlt := hcur q0 hq0c
        have hu0 : layer[q0]? = some layer[q0] := List.getElem?_eq_getElem hlt
        obtain ⟨a, ha, src, hsrc⟩ := hl.att q0 hq0c _ hu0
        have E1 := markRelaxed_ext layer.length (layer ++ [freshMerged (mergedOf cfg layer cur) d0]) layer.length
        obtain ⟨m1, hm1, _, _⟩ := E1.at_m _ hm0
        have hlb := outer_recv cfg layers (mergedOf cfg layer cur) layer.length (restOf cfg layer cur)
          (markRelaxed (layer ++ [freshMerged (mergedOf cfg layer cur) d0]) layer.length, lg) q0 hq0 (by omega)
          layer[q0].state layer[q0].value layer[q0].inb
          (by rw [E1.other q0 (by omega), h1 q0 hlt, hu0]; rfl) a ha src m1 hsrc hm1
        have hac := (hl.rng _ (List.mem_of_getElem? hu0)).2 a ha
        exact LB_mono hlb (hs.src _ _ src _ hsrc (hs.rel _ _ _ _ _ hac)).1
  · -- recycled node
    intro mp hrec lg
    have hmk : mp ∈ keepOf cfg layer cur := List.mem_of_find?_eq_some hrec
    have hmn : ∃ n, layer[mp]? = some n ∧ n.state = mergedOf cfg layer cur := by
      have := List.find?_some hrec
      cases h : layer[mp]? with
      | none => rw [h] at this; cases this
      | some n => rw [h] at this; exact ⟨n, rfl, of_decide_eq_true this⟩
    have hsub : ∀ q ∈ keepOf cfg layer cur, q ∈ (sortSquash cfg layer cur).take cfg.width :=
      fun q hq => mem_take_mono hq (by omega)
    refine ⟨fun q hq u hu => ?_, fun B M hs hM hl => ?_⟩
    · exact relax_core cfg layers layer layer _ cur _ mp lg (fun _ _ => rfl) hmn (undelete_ext _ _ _)
        hsub (hsub mp hmk) q hq u hu
    · obtain ⟨n, hn, _⟩ := hmn
      refine relax_core_range cfg layers layer layer _ cur mp lg B M hs (fun n hn => ⟨(hl.rng n hn).1.2, (hl.rng n hn).2⟩)
        (fun q n1 _ hq1 => (hl.rng n1 (List.mem_of_getElem? hq1)).1.1) (undelete_ext _ _ _)
        (fun h => undelete_up h _) ?_
      have E : Ext mp layer _ := (markRelaxed_ext mp layer mp).trans
        ((outer_ext cfg layers (mergedOf cfg layer cur) mp (restOf cfg layer cur) (markRelaxed layer mp, lg)).trans
          (undelete_ext mp _ ((sortSquash cfg layer cur).take cfg.width)))
      obtain ⟨m', hm', _, hv'⟩ := E.at_m n hn
      exact ⟨m', hm', by have := (hl.rng n (List.mem_of_getElem? hn)).1.1; omega⟩

/-! ## `stepLayer` -/

theorem foldl_keep (layer : List (Node S)) (f : List (Node S) × List Nat → Nat → List (Node S) × List Nat)
    (hf : ∀ keep p, p < layer.length → f (layer, keep) p = (layer, keep ++ [p])) :
    ∀ (cur keep0 : List Nat), (∀ p ∈ cur, p < layer.length) → cur.foldl f (layer, keep0) = (layer, keep0 ++ cur) := by
  intro cur
  induction cur with
  | nil => intro keep0 _; simp
  | cons p ps ih =>
    intro keep0 h
    rw [List.foldl_cons, hf keep0 p (h p List.mem_cons_self), ih _ (fun q hq => h q (List.mem_cons_of_mem _ hq))]
    simp

theorem filterCache_id (cfg : Cfg S K) (cache : Cache S) (layer : List (Node S)) (cur : List Nat)
    (hc : cfg.useCache = false) (hcur : ∀ p ∈ cur, p < layer.length) :
    filterCache cfg cache layer cur = (layer, cur) := by
  unfold filterCache
  refine (foldl_keep layer _ (fun keep p hp => ?_) cur [] hcur).trans ?_
  · dsimp only
    rw [List.getElem?_eq_getElem hp]
    simp only [hc]
    rfl
  · simp

theorem stepLayer_ok (cfg : Cfg S K) (dd : DD S K) (var : Nat) (hne : dd.next ≠ [])
    (hc : cfg.useCache = false) (hd : cfg.dom = none)
    (sq : List (Node S) × List Nat × List (Call S) × Option Nat)
    (hsq : squash cfg dd dd.next (List.range dd.next.length) = some sq) :
    ∃ dd', stepLayer cfg dd var = (some dd', .ok) ∧
      dd'.layers = dd.layers ++ [(expandAll cfg var dd.layers.length sq.1 sq.2.1 sq.2.2.1).1] ∧
      dd'.next = (expandAll cfg var dd.layers.length sq.1 sq.2.1 sq.2.2.1).2.1 ∧
      dd'.depth = dd.depth + 1 := by
  unfold stepLayer
  have h1 : dd.next.isEmpty = false := by
    cases h : dd.next with
    | nil => exact absurd h hne
    | cons _ _ => rfl
  have h2 : (if dd.layers.isEmpty then (dd.next, List.range dd.next.length)
      else filterCache cfg dd.cache dd.next (List.range dd.next.length)) = (dd.next, List.range dd.next.length) := by
    split
    · rfl
    · exact filterCache_id cfg dd.cache dd.next _ hc (fun p hp => List.mem_range.mp hp)
  simp only [h1, h2, filterDom, hd, hsq]
  exact ⟨_, rfl, rfl, rfl, rfl⟩

theorem squash_elim (cfg : Cfg S K) (dd : DD S K) (layer : List (Node S)) (cur : List Nat)
    (hrel : cfg.ctype = .relaxed) (hW : 1 ≤ cfg.width)
    (P : Option (List (Node S) × List Nat × List (Call S) × Option Nat) → Prop)
    (h1 : cur.length > cfg.width → dd.layers.length > 1 → ∀ lel,
      P (some ((relaxLayer cfg dd.layers layer cur dd.log).1, (relaxLayer cfg dd.layers layer cur dd.log).2.1,
        (relaxLayer cfg dd.layers layer cur dd.log).2.2, lel)))
    (h2 : ∀ lel, P (some (layer, cur, dd.log, lel))) : P (squash cfg dd layer cur) := by
  unfold squash
  have e1 : (cfg.ctype == CompType.restricted) = false := by rw [hrel]; decide
  have e2 : (cfg.ctype == CompType.relaxed) = true := by rw [hrel]; decide
  have e3 : (cfg.width == 0) = false := by
    cases h : cfg.width with
    | zero => omega
    | succ n => rfl
  simp only [e1, e2, e3, Bool.false_and, Bool.true_and, Bool.and_false, Bool.false_or]
  by_cases c1 : cur.length > cfg.width
  · by_cases c2 : dd.layers.length > 1
    · simp only [c1, c2, decide_true, Bool.and_self]
      exact h1 c1 c2 _
    · simp only [c1, c2, decide_true, decide_false, Bool.and_false]
      exact h2 _
  · simp only [c1, decide_false, Bool.false_and]
    exact h2 _

/-! ## states of the nodes (for the layer-validity predicate of `WfRel`) -/

theorem expandOne_states (Q : S → Prop) (cfg : Cfg S K) (var lidx : Nat)
    (acc : List (Node S) × List (Node S) × List (Call S)) (p : Nat) (ks : List (S × Int)) (hks : acc.1.map key = ks)
    (hpar : ∀ sv, ks[p]? = some sv → ∀ d ∈ cfg.P.domain var sv.1, Q (cfg.P.trans sv.1 ⟨var, d⟩))
    (hall : ∀ m ∈ acc.2.1, Q m.state) :
    ∀ m ∈ (expandOne cfg var lidx acc p).2.1, Q m.state := by
  obtain ⟨ly, nx, lg⟩ := acc
  cases h : ly[p]? with
  | none => rw [expandOne_none _ _ _ _ _ _ _ h]; exact hall
  | some n =>
    rw [expandOne_some _ _ _ _ _ _ _ n h]
    split
    · have hk : ks[p]? = some (key n) := by rw [getElem?_of_map_key ly ks hks p, h]; rfl
      dsimp only at hall ⊢
      refine branchAll_forall (fun m => Q m.state) cfg var lidx p _ _ (nx, _) hall ?_ ?_
      · intro d _ m hm
        show Q (appendEdge _ m _).state
        rw [appendEdge_state]; exact hm
      · intro d hd
        show Q (appendEdge _ _ _).state
        rw [appendEdge_state]
        exact hpar (key n) hk d hd
    · exact hall

theorem fold_states (Q : S → Prop) (cfg : Cfg S K) (var lidx : Nat) (cur : List Nat)
    (acc : List (Node S) × List (Node S) × List (Call S)) (ks : List (S × Int)) (hks : acc.1.map key = ks)
    (hpar : ∀ p ∈ cur, ∀ sv, ks[p]? = some sv → ∀ d ∈ cfg.P.domain var sv.1, Q (cfg.P.trans sv.1 ⟨var, d⟩))
    (hall : ∀ m ∈ acc.2.1, Q m.state) :
    ∀ m ∈ (cur.foldl (expandOne cfg var lidx) acc).2.1, Q m.state := by
  induction cur generalizing acc with
  | nil => exact hall
  | cons y ys ih =>
    rw [List.foldl_cons]
    exact ih _ (by rw [expandOne_keys]; exact hks) (fun p hp => hpar p (List.mem_cons_of_mem _ hp))
      (expandOne_states Q cfg var lidx acc y ks hks (hpar y List.mem_cons_self) hall)

theorem states_core (layer layer1 out : List (Node S)) (mpos : Nat) (merged : S)
    (h1 : ∀ q n1, q ≠ mpos → layer1[q]? = some n1 → n1 ∈ layer)
    (hm0 : ∃ m0, layer1[mpos]? = some m0 ∧ m0.state = merged) (E : Ext mpos layer1 out) :
    ∀ (q' : Nat) (n' : Node S), out[q']? = some n' → (∃ n ∈ layer, n'.state = n.state) ∨ n'.state = merged := by
  intro q' n' hq'
  by_cases hqm : q' = mpos
  · subst hqm
    obtain ⟨m0, hm0, hs0⟩ := hm0
    obtain ⟨m', hm', hs', _⟩ := E.at_m m0 hm0
    rw [hq'] at hm'; cases hm'
    right; rw [hs', hs0]
  · have ho := E.other q' hqm
    rw [hq'] at ho
    cases hl1 : layer1[q']? with
    | none => rw [hl1] at ho; cases ho
    | some n1 =>
      rw [hl1] at ho
      simp only [Option.map_some, sig, Option.some.injEq, Prod.mk.injEq] at ho
      left; exact ⟨n1, h1 q' n1 hqm hl1, ho.1⟩

/-- after `relaxLayer` every node carries the state of a node of the original layer, or the merged state -/
theorem relaxLayer_states (cfg : Cfg S K) (layers : List (List (Node S))) (layer : List (Node S)) (cur : List Nat)
    (log : List (Call S)) :
    ∀ (q' : Nat) (n' : Node S), (relaxLayer cfg layers layer cur log).1[q']? = some n' →
      (∃ n ∈ layer, n'.state = n.state) ∨ n'.state = mergedOf cfg layer cur := by
  apply relaxLayer_elim cfg layers layer cur log
    (fun r => ∀ (q' : Nat) (n' : Node S), r.1[q']? = some n' → (∃ n ∈ layer, n'.state = n.state) ∨ n'.state = mergedOf cfg layer cur)
  · intro hrec d0 lg
    dsimp only
    have E : Ext layer.length (layer ++ [freshMerged (mergedOf cfg layer cur) d0]) _ :=
      (markRelaxed_ext layer.length (layer ++ [freshMerged (mergedOf cfg layer cur) d0]) layer.length).trans
        (outer_ext cfg layers (mergedOf cfg layer cur) layer.length (restOf cfg layer cur)
          (markRelaxed (layer ++ [freshMerged (mergedOf cfg layer cur) d0]) layer.length, lg))
    refine states_core layer (layer ++ [freshMerged (mergedOf cfg layer cur) d0]) _ layer.length _ ?_
      ⟨_, List.getElem?_concat_length, rfl⟩ E
    intro q n1 hqm hq1
    have hlt := lt_of_getElem?_some hq1
    rw [List.length_append, List.length_singleton] at hlt
    rw [List.getElem?_append_left (by omega)] at hq1
    exact List.mem_of_getElem? hq1
  · intro mp hrec lg
    have hmn : ∃ n, layer[mp]? = some n ∧ n.state = mergedOf cfg layer cur := by
      have := List.find?_some hrec
      cases h : layer[mp]? with
      | none => rw [h] at this; cases this
      | some n => rw [h] at this; exact ⟨n, rfl, of_decide_eq_true this⟩
    dsimp only
    have E : Ext mp layer _ := (markRelaxed_ext mp layer mp).trans
      ((outer_ext cfg layers (mergedOf cfg layer cur) mp (restOf cfg layer cur) (markRelaxed layer mp, lg)).trans
        (undelete_ext mp _ ((sortSquash cfg layer cur).take cfg.width)))
    exact states_core layer layer _ mp _ (fun q n1 _ hq1 => List.mem_of_getElem? hq1) hmn E

/-- the merged states are states of the layer, and there is at least one -/
theorem restStates_sub (cfg : Cfg S K) (layer : List (Node S)) (cur : List Nat) :
    ∀ x ∈ restStatesOf cfg layer cur, ∃ n ∈ layer, x = n.state := by
  intro x hx
  unfold restStatesOf at hx
  obtain ⟨p0, _, hp0⟩ := List.mem_filterMap.mp hx
  cases hn0 : layer[p0]? with
  | none => rw [hn0] at hp0; cases hp0
  | some n0 =>
    rw [hn0] at hp0
    simp only [Option.map_some, Option.some.injEq] at hp0
    exact ⟨n0, List.mem_of_getElem? hn0, hp0.symm⟩

theorem restStates_ne_nil (cfg : Cfg S K) (layer : List (Node S)) (cur : List Nat) (hW : 1 ≤ cfg.width)
    (hlen : cur.length > cfg.width) (hcur : ∀ p ∈ cur, p < layer.length) : restStatesOf cfg layer cur ≠ [] := by
  obtain ⟨q0, hq0, hq0c⟩ := rest_nonempty cfg layer cur hW hlen
  have hlt := hcur q0 hq0c
  have hu0 : layer[q0]? = some layer[q0] := List.getElem?_eq_getElem hlt
  apply List.ne_nil_of_mem (a := layer[q0].state)
  unfold restStatesOf
  exact List.mem_filterMap.mpr ⟨q0, hq0, by rw [hu0]; rfl⟩

/-! ## the loop invariant -/

/-- `Potential.att` for the merged state of a (non-empty) part of a layer, **for the variable chosen for the
    un-merged layer**: the implementation asks `next_variable` *before* it squashes the layer, so the merged node is
    branched on a variable that was selected without knowing its state.  `Potential.att` only speaks about states that
    belong to the list handed to `nextVar`; this is the missing clause for merged states (it follows from
    `Potential.att` whenever `nextVar` does not depend on the list of states, see `attMerge_of_static`). -/
def AttMerge (P : Problem S) (R : Relax S) (H : Nat → S → EInt) : Prop :=
  ∀ k L x X h, P.nextVar k L = some x → X ≠ [] → (∀ u ∈ X, u ∈ L) → H k (R.merge X) = some h →
    ∃ d ∈ P.domain x (R.merge X), ∃ h', H (k + 1) (P.trans (R.merge X) ⟨x, d⟩) = some h' ∧
      h ≤ P.cost (R.merge X) (P.trans (R.merge X) ⟨x, d⟩) ⟨x, d⟩ + h'

theorem attMerge_of_static {P : Problem S} {R : Relax S} {H : Nat → S → EInt} (hP : Potential P H)
    (hstat : ∀ k L L', L ≠ [] → L' ≠ [] → P.nextVar k L = P.nextVar k L') : AttMerge P R H := by
  intro k L x X h hnv hX hsub hh
  have hL : L ≠ [] := by
    cases X with
    | nil => exact absurd rfl hX
    | cons u _ => exact List.ne_nil_of_mem (hsub u List.mem_cons_self)
  have h2 : P.nextVar k [R.merge X] = some x := by
    rw [← hstat k L [R.merge X] hL (List.cons_ne_nil _ _)]; exact hnv
  exact hP.att k [R.merge X] x (R.merge X) h h2 List.mem_cons_self hh

/-- the expansion step applied to state `s` loses no potential -/
def AttAt (cfg : Cfg S K) (H : Nat → S → EInt) (k var : Nat) (s : S) : Prop :=
  ∀ h, H k s = some h → ∃ d ∈ cfg.P.domain var s, ∃ h', H (k + 1) (cfg.P.trans s ⟨var, d⟩) = some h' ∧
    h ≤ cfg.P.cost s (cfg.P.trans s ⟨var, d⟩) ⟨var, d⟩ + h'

/-- the invariant of `buildLoop` -/
structure Inv (H : Nat → S → EInt) (V : Nat → S → Prop) (B o : Int) (dd : DD S K) : Prop where
  valid : ∀ n ∈ dd.next, V dd.depth n.state
  cover : ∃ n ∈ dd.next, ∃ h, H dd.depth n.state = some h ∧ o ≤ n.value + h
  att : dd.layers ≠ [] → ∀ n ∈ dd.next, ∃ a ∈ n.inb, ∃ p, getNode dd.layers a.fromL a.fromP = some p ∧
    n.value = satAdd p.value a.cost
  arcs : ∀ n ∈ dd.next, ∀ a ∈ n.inb, Within B a.cost
  rngN : ∀ n ∈ dd.next, Within (Bd B dd.layers.length) n.value
  rngL : ∀ (i : Nat) ly, dd.layers[i]? = some ly → ∀ n ∈ ly, Within (Bd B i) n.value

/-- what the expansion needs from the squashed layer -/
structure SqPost (cfg : Cfg S K) (H : Nat → S → EInt) (V : Nat → S → Prop) (B o : Int) (dd : DD S K) (var : Nat)
    (layer' : List (Node S)) (cur' : List Nat) : Prop where
  wit : ∃ q ∈ cur', ∃ n, layer'[q]? = some n ∧ V dd.depth n.state ∧ ∃ h, H dd.depth n.state = some h ∧
    o ≤ n.value + h ∧ AttAt cfg H dd.depth var n.state
  kids : ∀ q ∈ cur', ∀ n, layer'[q]? = some n → ∀ d ∈ cfg.P.domain var n.state,
    V (dd.depth + 1) (cfg.P.trans n.state ⟨var, d⟩)
  rng : ∀ n ∈ layer', Within (Bd B dd.layers.length) n.value

theorem getNode_last (L : List (List (Node S))) (ly : List (Node S)) (p : Nat) :
    getNode (L ++ [ly]) L.length p = ly[p]? := by
  unfold getNode
  rw [List.getElem?_concat_length]

theorem getNode_lt {L : List (List (Node S))} {l p : Nat} {x : Node S} (h : getNode L l p = some x) :
    ∃ ly, L[l]? = some ly ∧ ly[p]? = some x := by
  unfold getNode at h
  cases h1 : L[l]? with
  | none => rw [h1] at h; cases h
  | some ly => rw [h1] at h; exact ⟨ly, rfl, h⟩

theorem Bd_small {P : Problem S} {R : Relax S} {rv B : Int} (hB : NoClampDom P R rv B) {k : Nat} (hk : k ≤ P.nbVars + 1) :
    Bd B k ≤ 4611686018427387904 := by
  have h1 := Bd_mono hB.nonneg hk
  have h2 : Bd B (P.nbVars + 1) = ((P.nbVars : Int) + 2) * B := by
    unfold Bd
    have : ((P.nbVars + 1 : Nat) : Int) + 1 = (P.nbVars : Int) + 2 := by omega
    rw [this]
  have := hB.small
  omega

theorem expand_inv (cfg : Cfg S K) (H : Nat → S → EInt) (V : Nat → S → Prop) (B o : Int) (dd dd' : DD S K) (var : Nat)
    (layer' : List (Node S)) (cur' : List Nat) (lg : List (Call S))
    (hR : ∀ k s h, V k s → H k s = some h → h ≤ cfg.R.rub s) (hB : NoClampDom cfg.P cfg.R cfg.root.value B)
    (hclamp : ∀ x, o ≤ x → clamp x > cfg.lb)
    (hlen : dd.layers.length ≤ cfg.P.nbVars)
    (hI : Inv H V B o dd) (hsq : SqPost cfg H V B o dd var layer' cur')
    (hl : dd'.layers = dd.layers ++ [(expandAll cfg var dd.layers.length layer' cur' lg).1])
    (hn : dd'.next = (expandAll cfg var dd.layers.length layer' cur' lg).2.1)
    (hd : dd'.depth = dd.depth + 1) : Inv H V B o dd' := by
  unfold expandAll at hl hn
  have hkeys : (cur'.foldl (expandOne cfg var dd.layers.length) (layer', [], lg)).1.map key = layer'.map key :=
    fold_keys cfg var dd.layers.length cur' (layer', [], lg)
  have hcost : ∀ s d, d ∈ cfg.P.domain var s → Within B (cfg.P.cost s (cfg.P.trans s ⟨var, d⟩) ⟨var, d⟩) :=
    fun s d hd => hB.cost var s d hd
  have hok : ∀ m ∈ (cur'.foldl (expandOne cfg var dd.layers.length) (layer', [], lg)).2.1,
      NodeOk (layer'.map key) dd.layers.length B (Bd B dd.layers.length) m := by
    refine fold_ok cfg var dd.layers.length cur' (layer', [], lg) (layer'.map key) B (Bd B dd.layers.length) rfl ?_ hcost ?_
    · intro sv hsv
      obtain ⟨n, hn, rfl⟩ := List.mem_map.mp hsv
      exact hsq.rng n hn
    · intro m hm; cases hm
  have hlen' : dd'.layers.length = dd.layers.length + 1 := by rw [hl, List.length_append, List.length_singleton]
  have hsmall : Bd B dd.layers.length + B ≤ 4611686018427387904 := by
    rw [← Bd_succ]; exact Bd_small hB (by omega)
  refine ⟨?_, ?_, ?_, ?_, ?_, ?_⟩
  · intro m hm
    rw [hn] at hm
    rw [hd]
    refine fold_states (V (dd.depth + 1)) cfg var dd.layers.length cur' (layer', [], lg) (layer'.map key) rfl ?_
      (fun m hm => by cases hm) m hm
    intro p hp sv hsv d hdm
    rw [List.getElem?_map] at hsv
    cases hlp : layer'[p]? with
    | none => rw [hlp] at hsv; cases hsv
    | some n0 =>
      rw [hlp] at hsv
      simp only [Option.map_some, Option.some.injEq] at hsv
      subst hsv
      exact hsq.kids p hp n0 hlp d hdm
  · obtain ⟨q, hq, n, hnq, hVn, h, hH, hle, hatt⟩ := hsq.wit
    obtain ⟨d, hdm, h', hH', hle'⟩ := hatt h hH
    have hrub : satAdd (cfg.R.rub n.state) n.value > cfg.lb := by
      unfold satAdd; apply hclamp
      have := hR _ _ _ hVn hH; omega
    obtain ⟨m, hm, hms, hmv⟩ := fold_has_new cfg var dd.layers.length cur' (layer', [], lg) q hq n.state n.value
      (by rw [List.getElem?_map, hnq]; rfl) hrub d hdm
    have hw := hsq.rng n (List.mem_of_getElem? hnq)
    have hc := hcost n.state d hdm
    have hsa : satAdd n.value (cfg.P.cost n.state (cfg.P.trans n.state ⟨var, d⟩) ⟨var, d⟩) =
        n.value + cfg.P.cost n.state (cfg.P.trans n.state ⟨var, d⟩) ⟨var, d⟩ := by
      apply satAdd_eq <;> (unfold Within at hw hc; simp only [iMin, iMax]; omega)
    refine ⟨m, by rw [hn]; exact hm, h', by rw [hd, hms]; exact hH', ?_⟩
    omega
  · intro _ m hm
    rw [hn] at hm
    obtain ⟨a, ha, hal, sv, hsv, hv⟩ := (hok m hm).att
    rw [← hkeys, List.getElem?_map] at hsv
    cases hp : (cur'.foldl (expandOne cfg var dd.layers.length) (layer', [], lg)).1[a.fromP]? with
    | none => rw [hp] at hsv; cases hsv
    | some p =>
      rw [hp] at hsv
      simp only [Option.map_some, Option.some.injEq] at hsv
      refine ⟨a, ha, p, ?_, ?_⟩
      · rw [hl, hal, getNode_last]; exact hp
      · rw [hv, ← hsv]; rfl
  · intro m hm a ha
    rw [hn] at hm
    exact (hok m hm).arc a ha
  · intro m hm
    rw [hn] at hm
    rw [hlen', Bd_succ]
    exact (hok m hm).rng
  · intro i ly hi m hm
    rw [hl] at hi
    by_cases hlt : i < dd.layers.length
    · rw [List.getElem?_append_left hlt] at hi
      exact hI.rngL i ly hi m hm
    · have hi' := lt_of_getElem?_some hi
      rw [List.length_append, List.length_singleton] at hi'
      have : i = dd.layers.length := by omega
      subst this
      rw [List.getElem?_concat_length] at hi
      cases hi
      have : key m ∈ layer'.map key := by rw [← hkeys]; exact List.mem_map_of_mem hm
      obtain ⟨n0, hn0, hk0⟩ := List.mem_map.mp this
      have hv : n0.value = m.value := congrArg Prod.snd hk0
      rw [← hv]
      exact hsq.rng n0 hn0

theorem Within.mono {M M' x : Int} (h : Within M x) (hM : M ≤ M') : Within M' x := by
  unfold Within at *; omega

theorem srcOk_of_inv (cfg : Cfg S K) (H : Nat → S → EInt) (V : Nat → S → Prop) (B o : Int) (dd : DD S K)
    (hB : NoClampDom cfg.P cfg.R cfg.root.value B) (hI : Inv H V B o dd) :
    SrcOk cfg dd.layers B (Bd B dd.layers.length) := by
  constructor
  · intro l p src c hsrc hc
    obtain ⟨ly, hly, hp⟩ := getNode_lt hsrc
    have hw := hI.rngL l ly hly src (List.mem_of_getElem? hp)
    have hl := lt_of_getElem?_some hly
    have := within_satAdd hw hc
    rw [← Bd_succ] at this
    exact this.mono (Bd_mono hB.nonneg (by omega))
  · intro s u m d c hc
    exact hB.relax s u m d c hc

theorem mem_of_getElem?_range {α : Type} {l : List α} {q : Nat} {a : α} (h : l[q]? = some a) : q ∈ List.range l.length :=
  List.mem_range.mpr (lt_of_getElem?_some h)

theorem sqpost_id (cfg : Cfg S K) (H : Nat → S → EInt) (V : Nat → S → Prop) (B o : Int) (dd : DD S K) (var : Nat)
    (hwf : WfRel cfg.P cfg.R H V) (hnv : cfg.P.nextVar dd.depth (dd.next.map (·.state)) = some var)
    (hI : Inv H V B o dd) : SqPost cfg H V B o dd var dd.next (List.range dd.next.length) := by
  constructor
  · obtain ⟨n, hn, h, hH, hle⟩ := hI.cover
    obtain ⟨q, hq⟩ := List.mem_iff_getElem?.mp hn
    refine ⟨q, mem_of_getElem?_range hq, n, hq, hI.valid n hn, h, hH, hle, ?_⟩
    intro h1 hH1
    exact hwf.att dd.depth _ var n.state h1 hnv (List.mem_map_of_mem hn) (hI.valid n hn) hH1
  · intro q _ n hq d hd
    have hn := List.mem_of_getElem? hq
    exact hwf.vstep dd.depth _ var n.state d hnv (List.mem_map_of_mem hn) (hI.valid n hn) hd
  · exact hI.rngN

theorem sqpost_relax (cfg : Cfg S K) (H : Nat → S → EInt) (V : Nat → S → Prop) (B o : Int) (dd : DD S K) (var : Nat)
    (lg : List (Call S)) (hwf : WfRel cfg.P cfg.R H V)
    (hB : NoClampDom cfg.P cfg.R cfg.root.value B) (hW : 1 ≤ cfg.width)
    (hnv : cfg.P.nextVar dd.depth (dd.next.map (·.state)) = some var)
    (hlen : dd.layers.length ≤ cfg.P.nbVars)
    (hc1 : (List.range dd.next.length).length > cfg.width) (hc2 : dd.layers.length > 1)
    (hI : Inv H V B o dd) :
    SqPost cfg H V B o dd var (relaxLayer cfg dd.layers dd.next (List.range dd.next.length) lg).1
      (relaxLayer cfg dd.layers dd.next (List.range dd.next.length) lg).2.1 := by
  have hne : dd.layers ≠ [] := by intro h; rw [h] at hc2; simp at hc2
  have hcur : ∀ p ∈ List.range dd.next.length, p < dd.next.length := fun p hp => List.mem_range.mp hp
  have hpost := relaxLayer_spec cfg dd.layers dd.next (List.range dd.next.length) lg hW hc1 hcur
  have hsrc := srcOk_of_inv cfg H V B o dd hB hI
  -- the merged-away states: a non-empty part of the layer, all valid
  have hXne := restStates_ne_nil cfg dd.next (List.range dd.next.length) hW hc1 hcur
  have hXsub : ∀ x ∈ restStatesOf cfg dd.next (List.range dd.next.length), x ∈ dd.next.map (·.state) := by
    intro x hx
    obtain ⟨n0, hn0, rfl⟩ := restStates_sub cfg dd.next _ x hx
    exact List.mem_map_of_mem hn0
  have hXV : ∀ x ∈ restStatesOf cfg dd.next (List.range dd.next.length), V dd.depth x := by
    intro x hx
    obtain ⟨n0, hn0, rfl⟩ := restStates_sub cfg dd.next _ x hx
    exact hI.valid n0 hn0
  have hVm : V dd.depth (mergedOf cfg dd.next (List.range dd.next.length)) := hwf.vmerge dd.depth _ hXne hXV
  constructor
  · obtain ⟨u, hu, h, hH, hle⟩ := hI.cover
    obtain ⟨q, hq⟩ := List.mem_iff_getElem?.mp hu
    obtain ⟨q', hq', n', hn', hT⟩ := hpost.transfer q (mem_of_getElem?_range hq) u hq
    refine ⟨q', hq', n', hn', ?_⟩
    rcases hT with ⟨hs, hv⟩ | ⟨hX, hs, harc⟩
    · refine ⟨by rw [hs]; exact hI.valid u hu, h, by rw [hs]; exact hH, by omega, ?_⟩
      intro h1 hH1
      rw [hs] at hH1 ⊢
      exact hwf.att dd.depth _ var u.state h1 hnv (List.mem_map_of_mem hu) (hI.valid u hu) hH1
    · obtain ⟨a, ha, p, hp, hv⟩ := hI.att hne u hu
      obtain ⟨h', hH', hle'⟩ := hwf.merge dd.depth (restStatesOf cfg dd.next (List.range dd.next.length)) u.state p.state
        a.dec a.cost h hX hXV hH
      have hge := harc a ha p hp
      have hac : Within B a.cost := hI.arcs u hu a ha
      have hrc := hsrc.rel p.state u.state (mergedOf cfg dd.next (List.range dd.next.length)) a.dec a.cost hac
      have h1 := hsrc.src _ _ p _ hp hac
      have h2 := hsrc.src _ _ p _ hp hrc
      have hsmall : Bd B dd.layers.length ≤ 4611686018427387904 := Bd_small hB (by omega)
      obtain ⟨ly, hly, hpl⟩ := getNode_lt hp
      have hw := hI.rngL _ ly hly p (List.mem_of_getElem? hpl)
      have hl := lt_of_getElem?_some hly
      have hbd : Bd B a.fromL + B ≤ Bd B dd.layers.length := by
        rw [← Bd_succ]; exact Bd_mono hB.nonneg (by omega)
      have e1 : satAdd p.value a.cost = p.value + a.cost := by
        apply satAdd_eq <;> (unfold Within at hw hac; simp only [iMin, iMax]; omega)
      have e2 : satAdd p.value (cfg.R.relax p.state u.state (mergedOf cfg dd.next (List.range dd.next.length)) a.dec a.cost)
          = p.value + cfg.R.relax p.state u.state (mergedOf cfg dd.next (List.range dd.next.length)) a.dec a.cost := by
        apply satAdd_eq <;> (unfold Within at hw hrc; simp only [iMin, iMax]; omega)
      have hH'' : H dd.depth n'.state = some h' := by rw [hs]; exact hH'
      refine ⟨by rw [hs]; exact hVm, h', hH'', ?_, ?_⟩
      · rw [e2] at hge; rw [e1] at hv
        unfold mergedOf at hge
        omega
      · intro h1' hH1
        rw [hs] at hH1 ⊢
        exact hwf.attMerge dd.depth (dd.next.map (·.state)) var _ h1' hnv hXne hXsub hXV hH1
  · intro q' _ n' hn' d hd
    rcases relaxLayer_states cfg dd.layers dd.next (List.range dd.next.length) lg q' n' hn' with ⟨n0, hn0, hs⟩ | hs
    · rw [hs] at hd ⊢
      exact hwf.vstep dd.depth _ var n0.state d hnv (List.mem_map_of_mem hn0) (hI.valid n0 hn0) hd
    · rw [hs] at hd ⊢
      exact hwf.vstepMerge dd.depth (dd.next.map (·.state)) var _ d hnv hXne hXsub hXV hd
  · exact hpost.range B (Bd B dd.layers.length) hsrc (Bd_nonneg hB.nonneg _)
      ⟨fun n hn => ⟨hI.rngN n hn, hI.arcs n hn⟩, fun q _ u hu => by
        obtain ⟨a, ha, p, hp, _⟩ := hI.att hne u (List.mem_of_getElem? hu)
        exact ⟨a, ha, p, hp⟩⟩

/-- the un-relativised hypotheses are the instance `V := fun _ _ => True` -/
theorem wfRel_of_global {P : Problem S} {R : Relax S} {H : Nat → S → EInt} (hP : Potential P H) (hR : RubOk R H)
    (hM : MergeOk R H) (hAM : AttMerge P R H) : WfRel P R H (fun _ _ => True) where
  vstep := fun _ _ _ _ _ _ _ _ _ => trivial
  vstepMerge := fun _ _ _ _ _ _ _ _ _ _ => trivial
  vmerge := fun _ _ _ _ => trivial
  att := fun k L x s h hnv hs _ hH => hP.att k L x s h hnv hs hH
  attMerge := fun k L x X h hnv hX hsub _ hH => hAM k L x X h hnv hX hsub hH
  term := fun k L s h hnv hs _ hH => by
    rw [hP.term k L s hnv hs] at hH; cases hH; exact Int.le_refl _
  rub := fun k s h _ hH => hR k s h hH
  merge := fun k X u src d c h hu _ hH => hM k X u src d c h hu hH

/-- the hypotheses of C06 that the loop needs -/
structure Hyp (cfg : Cfg S K) (H : Nat → S → EInt) (V : Nat → S → Prop) (B o : Int) : Prop where
  rel : cfg.ctype = .relaxed
  cache : cfg.useCache = false
  dom : cfg.dom = none
  W : 1 ≤ cfg.width
  wf : WfRel cfg.P cfg.R H V
  B : NoClampDom cfg.P cfg.R cfg.root.value B
  clamp : ∀ x, o ≤ x → clamp x > cfg.lb

theorem stepLayer_inv (cfg : Cfg S K) (H : Nat → S → EInt) (V : Nat → S → Prop) (B o : Int) (hy : Hyp cfg H V B o) (dd : DD S K) (var : Nat)
    (hnv : cfg.P.nextVar dd.depth (dd.next.map (·.state)) = some var)
    (hlen : dd.layers.length ≤ cfg.P.nbVars) (hI : Inv H V B o dd) :
    ∃ dd', stepLayer cfg dd var = (some dd', .ok) ∧ Inv H V B o dd' ∧ dd'.layers.length = dd.layers.length + 1 := by
  have hne : dd.next ≠ [] := by
    obtain ⟨n, hn, _⟩ := hI.cover
    exact List.ne_nil_of_mem hn
  have key : ∃ sq, squash cfg dd dd.next (List.range dd.next.length) = some sq ∧
      SqPost cfg H V B o dd var sq.1 sq.2.1 := by
    apply squash_elim cfg dd dd.next (List.range dd.next.length) hy.rel hy.W
      (fun r => ∃ sq, r = some sq ∧ SqPost cfg H V B o dd var sq.1 sq.2.1)
    · intro c1 c2 lel
      exact ⟨_, rfl, sqpost_relax cfg H V B o dd var dd.log hy.wf hy.B hy.W hnv hlen c1 c2 hI⟩
    · intro lel
      exact ⟨_, rfl, sqpost_id cfg H V B o dd var hy.wf hnv hI⟩
  obtain ⟨sq, hsq, hpost⟩ := key
  obtain ⟨dd', hst, hl, hn, hd⟩ := stepLayer_ok cfg dd var hne hy.cache hy.dom sq hsq
  refine ⟨dd', hst, expand_inv cfg H V B o dd dd' var sq.1 sq.2.1 sq.2.2.1 hy.wf.rub hy.B hy.clamp hlen hI hpost hl hn hd, ?_⟩
  rw [hl, List.length_append, List.length_singleton]

theorem stepLayer_some (cfg : Cfg S K) (H : Nat → S → EInt) (V : Nat → S → Prop) (B o : Int) (hy : Hyp cfg H V B o) (dd : DD S K) (var : Nat)
    (hne : dd.next ≠ []) : ∃ dd', stepLayer cfg dd var = (some dd', .ok) := by
  have key : ∃ sq, squash cfg dd dd.next (List.range dd.next.length) = some sq := by
    apply squash_elim cfg dd dd.next (List.range dd.next.length) hy.rel hy.W (fun r => ∃ sq, r = some sq)
    · intro _ _ lel; exact ⟨_, rfl⟩
    · intro lel; exact ⟨_, rfl⟩
  obtain ⟨sq, hsq⟩ := key
  obtain ⟨dd', hst, _⟩ := stepLayer_ok cfg dd var hne hy.cache hy.dom sq hsq
  exact ⟨dd', hst⟩

/-- `Inv` does not depend on the log / poll counter -/
theorem Inv.congr {H : Nat → S → EInt} {V : Nat → S → Prop} {B o : Int} {dd dd' : DD S K} (h : Inv H V B o dd)
    (h1 : dd'.layers = dd.layers) (h2 : dd'.next = dd.next) (h3 : dd'.depth = dd.depth) : Inv H V B o dd' := by
  obtain ⟨v, a, b, c, d, e⟩ := h
  constructor
  · rw [h2, h3]; exact v
  · rw [h2, h3]; exact a
  · rw [h1, h2]; exact b
  · rw [h2]; exact c
  · rw [h1, h2]; exact d
  · rw [h1]; exact e

theorem buildLoop_none (cfg : Cfg S K) (fuel : Nat) (dd : DD S K)
    (h : cfg.P.nextVar dd.depth (dd.next.map (·.state)) = none) :
    (buildLoop cfg none (fuel + 1) dd).2 = .ok ∧ (buildLoop cfg none (fuel + 1) dd).1.next = dd.next := by
  refine ⟨?_, ?_⟩ <;> (unfold buildLoop; simp only [h])

theorem buildLoop_some (cfg : Cfg S K) (fuel : Nat) (dd : DD S K) (var : Nat)
    (h : cfg.P.nextVar dd.depth (dd.next.map (·.state)) = some var) :
    ∃ dd1 : DD S K, dd1.layers = dd.layers ∧ dd1.next = dd.next ∧ dd1.depth = dd.depth ∧
      ∀ dd', stepLayer cfg dd1 var = (some dd', .ok) →
        buildLoop cfg none (fuel + 1) dd = buildLoop cfg none fuel dd' := by
  refine ⟨{ dd with log := Call.nextVar dd.depth (dd.next.map (·.state)) (some var) :: dd.log, polls := dd.polls + 1 },
    rfl, rfl, rfl, ?_⟩
  intro dd' hst
  conv => lhs; unfold buildLoop
  simp only [h, hst]
  rfl

theorem buildLoop_cover (cfg : Cfg S K) (H : Nat → S → EInt) (V : Nat → S → Prop) (B o : Int) (hy : Hyp cfg H V B o) :
    ∀ (fuel : Nat) (dd : DD S K), Inv H V B o dd → dd.layers.length + fuel ≤ cfg.P.nbVars + 2 →
      (buildLoop cfg none fuel dd).2 = .ok →
      ∃ n ∈ (buildLoop cfg none fuel dd).1.next, o ≤ n.value := by
  intro fuel
  induction fuel with
  | zero => intro dd _ _ h; simp [buildLoop] at h
  | succ fuel ih =>
    intro dd hI hlen hok
    cases hnv : cfg.P.nextVar dd.depth (dd.next.map (·.state)) with
    | none =>
      rw [(buildLoop_none cfg fuel dd hnv).2]
      obtain ⟨n, hn, h, hH, hle⟩ := hI.cover
      have := hy.wf.term dd.depth _ n.state h hnv (List.mem_map_of_mem hn) (hI.valid n hn) hH
      exact ⟨n, hn, by omega⟩
    | some var =>
      obtain ⟨dd1, h1, h2, h3, hstep⟩ := buildLoop_some cfg fuel dd var hnv
      have hI1 : Inv H V B o dd1 := hI.congr h1 h2 h3
      cases fuel with
      | zero =>
        -- the last unit of fuel cannot be spent on a successful layer: the next call crashes
        exfalso
        have hne : dd1.next ≠ [] := by
          obtain ⟨n, hn, _⟩ := hI1.cover
          exact List.ne_nil_of_mem hn
        obtain ⟨dd', hst⟩ := stepLayer_some cfg H V B o hy dd1 var hne
        rw [hstep dd' hst] at hok
        simp [buildLoop] at hok
      | succ fuel' =>
        obtain ⟨dd', hst, hI', hl'⟩ := stepLayer_inv cfg H V B o hy dd1 var (by rw [h2, h3]; exact hnv)
          (by rw [h1]; omega) hI1
        rw [hstep dd' hst] at hok ⊢
        exact ih dd' hI' (by rw [hl', h1]; omega) hok

theorem finalize_bestValue (cfg : Cfg S K) (b : Built S K) (e : Bool) :
    (finalize cfg b e).1.bestValue = b.bestValue := by
  rfl

theorem maxValue_fold_ge (l : List (Node S)) (m : Int) :
    ∃ bv, l.foldl (fun acc n => match acc with | none => some n.value | some m => some (max m n.value)) (some m) = some bv ∧
      m ≤ bv ∧ ∀ n ∈ l, n.value ≤ bv := by
  induction l generalizing m with
  | nil => exact ⟨m, rfl, Int.le_refl _, fun n hn => by cases hn⟩
  | cons x xs ih =>
    rw [List.foldl_cons]
    obtain ⟨bv, h1, h2, h3⟩ := ih (max m x.value)
    refine ⟨bv, h1, by omega, fun n hn => ?_⟩
    rcases List.mem_cons.mp hn with rfl | hn
    · omega
    · exact h3 n hn

theorem maxValue_ge (l : List (Node S)) (n : Node S) (hn : n ∈ l) : ∃ bv, maxValue l = some bv ∧ n.value ≤ bv := by
  unfold maxValue
  cases l with
  | nil => cases hn
  | cons x xs =>
    rw [List.foldl_cons]
    obtain ⟨bv, h1, h2, h3⟩ := maxValue_fold_ge xs x.value
    refine ⟨bv, h1, ?_⟩
    rcases List.mem_cons.mp hn with rfl | hn
    · exact h2
    · exact h3 n hn

theorem terminals_finalize (dd : DD S K) (hne : dd.next ≠ []) : (finalizeLayers dd).terminals = dd.next := by
  unfold finalizeLayers Built.terminals
  have h1 : dd.next.isEmpty = false := by
    cases h : dd.next with
    | nil => exact absurd h hne
    | cons _ _ => rfl
  simp only [h1]
  simp

theorem compile_ok (cfg : Cfg S K) (cache : Cache S) (store : DomStore S K) (polls : Nat)
    (h : (compile cfg cache store polls none).1 = .ok) :
    (buildLoop cfg none (cfg.P.nbVars + 2) (initDD cfg cache store polls)).2 = .ok ∧
    (compile cfg cache store polls none).2.1.bestValue =
      (finalizeLayers (buildLoop cfg none (cfg.P.nbVars + 2) (initDD cfg cache store polls)).1).bestValue := by
  unfold compile at h ⊢
  generalize buildLoop cfg none (cfg.P.nbVars + 2) (initDD cfg cache store polls) = bl at h ⊢
  obtain ⟨dd, oc⟩ := bl
  dsimp only at h ⊢
  cases oc with
  | ok => exact ⟨rfl, rfl⟩
  | cutoff => cases h
  | crash => cases h

theorem init_inv (cfg : Cfg S K) (H : Nat → S → EInt) (V : Nat → S → Prop) (B o : Int) (cache : Cache S)
    (store : DomStore S K) (polls : Nat) (hV : V cfg.root.depth cfg.root.state)
    (hB : NoClampDom cfg.P cfg.R cfg.root.value B) (ho : optOf H cfg.root = some o) :
    Inv H V B o (initDD cfg cache store polls) := by
  unfold optOf EInt.addI at ho
  cases hH : H cfg.root.depth cfg.root.state with
  | none => rw [hH] at ho; cases ho
  | some h0 =>
    rw [hH] at ho
    simp only [Option.map_some, Option.some.injEq] at ho
    constructor
    · intro n hn
      simp only [initDD, List.mem_cons, List.not_mem_nil, or_false] at hn
      subst hn
      exact hV
    · refine ⟨_, List.mem_cons_self, h0, hH, ?_⟩
      show o ≤ cfg.root.value + h0
      omega
    · intro h; exact absurd rfl h
    · intro n hn a ha
      simp only [initDD, List.mem_cons, List.not_mem_nil, or_false] at hn
      subst hn; cases ha
    · intro n hn
      simp only [initDD, List.mem_cons, List.not_mem_nil, or_false] at hn
      subst hn
      have := hB.root
      simp only [initDD, List.length_nil, Bd, Within]
      omega
    · intro i ly hi
      simp [initDD] at hi

end Ddo.Cover
