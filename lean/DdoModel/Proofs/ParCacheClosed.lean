import DdoModel.Proofs.ParCacheModel
import DdoModel.Proofs.ParCacheInvE
import DdoModel.Proofs.ParCacheLay
import DdoModel.Proofs.ParCacheTerm
import DdoModel.Proofs.CacheClosedSolver
import DdoModel.Proofs.ParClosed
/-! # The parallel caching solver over the diagram model — closing

* `PCK` — the side conditions of the diagram theorems as an invariant of `KPStep sv` (every fringe entry and every node in
  a hand is reached exactly, the incumbent and every stale copy of it is in `[isize::MIN, B]`, what a worker carries after a
  compilation is an answer of the diagram model): `kpstep_pck`, `init_pck`; it gives `DepthOk` (`pck_depthOk`).
* `okRk_contract` / `okXk_contract` — **the contracts `OkRc` / `OkXc` of `Proofs/ParCacheInvA.lean` are theorems about the
  diagram model**, for any virtual cache whatsoever: `CompC` from `Proofs/CacheClosedContract.lean`, the strict threshold
  contract from `Proofs/ParCacheTheta.lean`, `fresh1` from `fresh_contract_of_model`.
* `KInvAll` — `PCK ∧ LayInvK ∧ (feasible → KPInv)`; `kprun_inv`: it holds in every reachable state. -/
set_option linter.unusedSectionVars false
set_option linter.unusedVariables false
namespace Ddo.ParCache
open Ddo Ddo.Truth Ddo.Closed Ddo.ParSys Ddo.ParClosed Ddo.C09 Ddo.Theta
open Ddo.C01 (SolverCfg WellFormed toOut SolOf)
variable {S : Type} [DecidableEq S]

/-! ## the side conditions -/

def WInvK (sv : SolverCfg S) (B : Int) : KW S → Prop
  | .compR _ lb _ => iMin ≤ lb ∧ lb ≤ B
  | .compX _ lb _ => iMin ≤ lb ∧ lb ≤ B
  | .wrR n lb o cv ups todo => (iMin ≤ lb ∧ lb ≤ B) ∧ okRk sv n lb cv o ups ∧ ∀ u ∈ todo, u ∈ ups
  | .wrX n lb o cv ups todo => (iMin ≤ lb ∧ lb ≤ B) ∧ okXk sv n lb cv o ups ∧ ∀ u ∈ todo, u ∈ ups
  | .enq n lb o cv ups => (iMin ≤ lb ∧ lb ≤ B) ∧ okXk sv n lb cv o ups
  | _ => True

structure WOkK (sv : SolverCfg S) (B : Int) (w : KW S) : Prop where
  node : ∀ n, (w.node = some n ∨ w.openNode = some n) → C01.NodeOk sv.P n
  stage : WInvK sv B w

structure PCK (sv : SolverCfg S) (H : Nat → S → EInt) (B : Int) (s : KSys S) : Prop where
  base : BaseOk sv H B s.crit.base
  ws : ∀ w ∈ s.ws, WOkK sv B w

/-- what a restricted compilation (with cache) of an exactly reached node reports -/
theorem okRk_facts {sv : SolverCfg S} {H : Nat → S → EInt} {B0 B : Int} (hwf : WellFormed sv H B0 B)
    {n : SubP S} {lb : Int} {cv : Cache S} {o : DDOut S} {ups : List (Up S)} (hn : C01.NodeOk sv.P n)
    (hok : okRk sv n lb cv o ups) :
    (∀ w, o.bestExact = some w → w ≤ B ∧ ∃ p, o.bestExactSol = some p) ∧
    ((H 0 sv.P.init).addI sv.P.initVal = none → o.bestExact = none) ∧ (∀ u ∈ ups, u.2.1 ≤ sv.P.nbVars) := by
  obtain ⟨p0, hroot, hperm⟩ := hn
  obtain ⟨hout, rfl, rfl⟩ := hok
  have hBN : NoClamp sv.P sv.R n.value B := hwf.bound.noClamp_at hwf.nv hroot
  have sR : ∀ w, (toOut (sv.cresR cv n lb)).bestExact = some w →
      IsSol (sv.ccfg .restricted n lb) p0 w (toOut (sv.cresR cv n lb)).bestExactSol :=
    fun w hw => isSol_restricted (sv.ccfg .restricted n lb) B p0 cv _ 0 none rfl hBN hroot hout w hw
  refine ⟨fun w hw => C01.isSol_le hwf _ rfl p0 w _ (sR w hw), fun hinf => ?_, fun u hu => ?_⟩
  · have hdead : optOf H n = none := reach_dead hwf.pot hinf hroot
    cases hb : (toOut (sv.cresR cv n lb)).bestExact with
    | none => rfl
    | some w =>
      obtain ⟨x, hx, _⟩ := within_of_isSol (sv.ccfg .restricted n lb) H p0 hwf.pot hroot w _ (sR w hb)
      rw [show optOf H (sv.ccfg .restricted n lb).root = optOf H n from rfl, hdead] at hx
      cases hx
  · exact ups_depth_restricted (sv.ccfg .restricted n lb) H B p0 cv (DomStore.init sv.P.nbVars) 0 rfl rfl
      (hwf.width n) hwf.pot hwf.merge hwf.attMerge hBN hwf.nv hroot hout u (List.mem_reverse.mp hu)

/-- the same for a relaxed compilation, and its cut-set -/
theorem okXk_facts {sv : SolverCfg S} {H : Nat → S → EInt} {B0 B : Int} (hwf : WellFormed sv H B0 B)
    {n : SubP S} {lb : Int} {cv : Cache S} {o : DDOut S} {ups : List (Up S)} (hn : C01.NodeOk sv.P n)
    (hok : okXk sv n lb cv o ups) :
    (∀ w, o.bestExact = some w → w ≤ B ∧ ∃ p, o.bestExactSol = some p) ∧
    ((H 0 sv.P.init).addI sv.P.initVal = none → o.bestExact = none) ∧ (∀ u ∈ ups, u.2.1 ≤ sv.P.nbVars) ∧
    (∀ c ∈ o.cutset, C01.NodeOk sv.P c ∧ n.depth < c.depth ∧ c.depth ≤ sv.P.nbVars) := by
  obtain ⟨p0, hroot, hperm⟩ := hn
  obtain ⟨hout, rfl, rfl⟩ := hok
  have hBN : NoClamp sv.P sv.R n.value B := hwf.bound.noClamp_at hwf.nv hroot
  have sX : ∀ w, (toOut (sv.cresX cv n lb)).bestExact = some w →
      IsSol (sv.ccfg .relaxed n lb) p0 w (toOut (sv.cresX cv n lb)).bestExactSol :=
    fun w hw => CacheClosed.isSol_relaxed_cached _ B p0 cv _ 0 rfl rfl (hwf.width n) hBN hroot hout w hw
  refine ⟨fun w hw => C01.isSol_le hwf _ rfl p0 w _ (sX w hw), fun hinf => ?_, fun u hu => ?_, fun c hc => ?_⟩
  · have hdead : optOf H n = none := reach_dead hwf.pot hinf hroot
    cases hb : (toOut (sv.cresX cv n lb)).bestExact with
    | none => rfl
    | some w =>
      obtain ⟨x, hx, _⟩ := within_of_isSol (sv.ccfg .relaxed n lb) H p0 hwf.pot hroot w _ (sX w hb)
      rw [show optOf H (sv.ccfg .relaxed n lb).root = optOf H n from rfl, hdead] at hx
      cases hx
  · exact ups_depth_relaxed (sv.ccfg .relaxed n lb) H B p0 cv (DomStore.init sv.P.nbVars) 0 none rfl rfl
      (hwf.width n) hwf.pot hwf.merge hwf.attMerge hBN hwf.nv hroot hout _ (.inl rfl) u (List.mem_reverse.mp hu)
  · have hc : c ∈ (sv.cresX cv n lb).cutset := hc
    obtain ⟨q, hq, hpath⟩ := C08.cutset_exact (sv.ccfg .relaxed n lb) B p0 cv _ 0 none hroot hBN hout _ (.inl rfl) c hc
    have hprog := C08.cutset_progress (sv.ccfg .relaxed n lb) B p0 cv _ 0 none rfl hroot hBN hout _ (.inl rfl) c hc
    refine ⟨⟨p0 ++ q, hq, ?_⟩, hprog, reach_depth_le hwf.nv hq⟩
    rw [hpath]
    exact List.Perm.append hperm (List.reverse_perm q)

theorem wokk_wake {sv : SolverCfg S} {B : Int} {w : KW S} (h : WOkK sv B w) : WOkK sv B w.wake := by
  cases w <;> first | exact h | exact ⟨fun n hn => (by rcases hn with e | e <;> cases e), trivial⟩

/-- a worker whose nodes are all `m` -/
theorem wokk_keep {sv : SolverCfg S} {B : Int} {a : KW S} {m : SubP S} (hm : C01.NodeOk sv.P m)
    (h1 : ∀ n, a.node = some n → n = m) (h2 : ∀ n, a.openNode = some n → n = m) (hs : WInvK sv B a) : WOkK sv B a :=
  ⟨(fun n hn => by rcases hn with e | e; rw [h1 n e]; exact hm; rw [h2 n e]; exact hm), hs⟩

theorem wokk_free {sv : SolverCfg S} {B : Int} {a : KW S} (h1 : a.node = none) (h2 : a.openNode = none)
    (hs : WInvK sv B a) : WOkK sv B a :=
  ⟨(fun n hn => by rcases hn with e | e; rw [h1] at e; cases e; rw [h2] at e; cases e), hs⟩

/-- **every step of every worker preserves `PCK`** -/
theorem kpstep_pck {sv : SolverCfg S} {H : Nat → S → EInt} {B0 B : Int} (hwf : WellFormed sv H B0 B) {s t : KSys S}
    (h : KPStep sv s t) (hI : PCK sv H B s) : PCK sv H B t := by
  have hmem : ∀ {i : Nat} {w : KW S}, s.ws[i]? = some w → WOkK sv B w :=
    fun hw => hI.ws _ (List.mem_of_getElem? hw)
  cases h with
  | gwEnter i hw hl => exact ⟨hI.base, mem_set_elim hI.ws (wokk_free rfl rfl trivial)⟩
  | gwClear i c' hw hc hcl => exact ⟨hI.base.of_eq (fun c hc => hc) rfl rfl, hI.ws⟩
  | gwComplete i hw hc ho hf =>
    exact ⟨hI.base.of_eq (fun c hc => hc) rfl rfl, mem_set_elim hI.ws (wokk_free rfl rfl trivial)⟩
  | gwWait i hw hc ho hf => exact ⟨hI.base, mem_set_elim hI.ws (wokk_free rfl rfl trivial)⟩
  | gwToPop i hw hc hf => exact ⟨hI.base, mem_set_elim hI.ws (wokk_free rfl rfl trivial)⟩
  | gwEmpty i hw hf => exact ⟨hI.base, mem_set_elim hI.ws (wokk_free rfl rfl trivial)⟩
  | gwStarve i N rest hw hp hub =>
    exact ⟨hI.base.of_eq (fun c hc => by cases hc) rfl rfl, mem_set_elim hI.ws (wokk_free rfl rfl trivial)⟩
  | gwDrop i N rest c' hw hp hub hme hd =>
    obtain ⟨e1, e2, e3⟩ := dropOne_spec hd
    exact ⟨hI.base.of_eq (fun c hc => by rw [e1] at hc; exact (mem_of_popMax hp c).mpr (.inr hc)) e2 e3, hI.ws⟩
  | gwKeep i N rest hw hp hub hme =>
    have hN : N ∈ s.crit.base.fringe := (mem_of_popMax hp N).mpr (.inl rfl)
    exact ⟨hI.base.of_eq (fun c hc => (mem_of_popMax hp c).mpr (.inr hc)) rfl rfl,
      mem_set_elim hI.ws (wokk_keep (hI.base.fr N hN) (fun n e => by cases e) (fun n e => by cases e; rfl) trivial)⟩
  | gwTake i n c' crit' hw hu ht =>
    obtain ⟨t1, t2, t3, _⟩ := take_spec ht
    exact ⟨hI.base.of_eq (fun c hc => by rw [t1] at hc; exact hc) t2 t3,
      mem_set_elim hI.ws (wokk_keep ((hmem hw).node n (.inr rfl)) (fun n e => by cases e; rfl) (fun n e => by cases e; rfl) trivial)⟩
  | readLbR i n hw hl =>
    refine ⟨hI.base, mem_set_elim hI.ws ?_⟩
    have hn := (hmem hw).node n (.inl rfl)
    split
    · exact wokk_keep hn (fun n e => by cases e; rfl) (fun n e => by cases e) trivial
    · exact wokk_keep hn (fun n e => by cases e; rfl) (fun n e => by cases e; rfl) ⟨hI.base.lbLo, hI.base.lbHi⟩
  | compileR i n lb k0 cv o ups hw hcv hok =>
    exact ⟨hI.base, mem_set_elim hI.ws (wokk_keep ((hmem hw).node n (.inl rfl)) (fun n e => by cases e; rfl)
      (fun n e => by cases e; rfl) ⟨(hmem hw).stage, hok, fun u hu => hu⟩)⟩
  | writeR i n lb o cv ups u todo c' hw hu =>
    obtain ⟨h1, h2, h3⟩ : (iMin ≤ lb ∧ lb ≤ B) ∧ okRk sv n lb cv o ups ∧ ∀ u' ∈ u :: todo, u' ∈ ups := (hmem hw).stage
    exact ⟨hI.base, mem_set_elim hI.ws (wokk_keep ((hmem hw).node n (.inl rfl)) (fun n e => by cases e; rfl)
      (fun n e => by cases e; rfl) ⟨h1, h2, fun u' hu' => h3 u' (List.mem_cons_of_mem _ hu')⟩)⟩
  | updateR i n lb o cv ups hw hl =>
    obtain ⟨h1, h2, _⟩ : (iMin ≤ lb ∧ lb ≤ B) ∧ okRk sv n lb cv o ups ∧ ∀ u' ∈ ([] : List (Up S)), u' ∈ ups := (hmem hw).stage
    have hn := (hmem hw).node n (.inl rfl)
    obtain ⟨f1, f2, _⟩ := okRk_facts hwf hn h2
    refine ⟨baseOk_update hI.base f1 f2, mem_set_elim hI.ws ?_⟩
    split
    · exact wokk_keep hn (fun n e => by cases e; rfl) (fun n e => by cases e) trivial
    · exact wokk_keep hn (fun n e => by cases e; rfl) (fun n e => by cases e; rfl) trivial
  | readLbX i n hw hl =>
    exact ⟨hI.base, mem_set_elim hI.ws (wokk_keep ((hmem hw).node n (.inl rfl)) (fun n e => by cases e; rfl)
      (fun n e => by cases e; rfl) ⟨hI.base.lbLo, hI.base.lbHi⟩)⟩
  | compileX i n lb k0 cv o ups hw hcv hok =>
    exact ⟨hI.base, mem_set_elim hI.ws (wokk_keep ((hmem hw).node n (.inl rfl)) (fun n e => by cases e; rfl)
      (fun n e => by cases e; rfl) ⟨(hmem hw).stage, hok, fun u hu => hu⟩)⟩
  | writeX i n lb o cv ups u todo c' hw hu =>
    obtain ⟨h1, h2, h3⟩ : (iMin ≤ lb ∧ lb ≤ B) ∧ okXk sv n lb cv o ups ∧ ∀ u' ∈ u :: todo, u' ∈ ups := (hmem hw).stage
    exact ⟨hI.base, mem_set_elim hI.ws (wokk_keep ((hmem hw).node n (.inl rfl)) (fun n e => by cases e; rfl)
      (fun n e => by cases e; rfl) ⟨h1, h2, fun u' hu' => h3 u' (List.mem_cons_of_mem _ hu')⟩)⟩
  | updateX i n lb o cv ups hw hl =>
    obtain ⟨h1, h2, _⟩ : (iMin ≤ lb ∧ lb ≤ B) ∧ okXk sv n lb cv o ups ∧ ∀ u' ∈ ([] : List (Up S)), u' ∈ ups := (hmem hw).stage
    have hn := (hmem hw).node n (.inl rfl)
    obtain ⟨f1, f2, _⟩ := okXk_facts hwf hn h2
    refine ⟨baseOk_update hI.base f1 f2, mem_set_elim hI.ws ?_⟩
    split
    · exact wokk_keep hn (fun n e => by cases e; rfl) (fun n e => by cases e) trivial
    · exact wokk_keep hn (fun n e => by cases e; rfl) (fun n e => by cases e; rfl) ⟨h1, h2⟩
  | enqueue i n lb o cv ups hw hl =>
    obtain ⟨h1, h2⟩ : (iMin ≤ lb ∧ lb ≤ B) ∧ okXk sv n lb cv o ups := (hmem hw).stage
    have hn := (hmem hw).node n (.inl rfl)
    obtain ⟨_, _, _, f3⟩ := okXk_facts hwf hn h2
    obtain ⟨e1, e2⟩ := enqueue_lb_sol sv.dedup s.crit.base o.cutset
    refine ⟨⟨?_, ?_, ?_, ?_, ?_⟩, mem_set_elim hI.ws (wokk_keep hn (fun n e => by cases e; rfl) (fun n e => by cases e) trivial)⟩
    · exact enqueue_forall (C01.NodeOk sv.P) (C01.nodeOk_ub sv.P) sv.dedup s.crit.base o.cutset hI.base.fr
        (fun c hc => (f3 c hc).1)
    · show iMin ≤ (s.crit.base.enqueue sv.dedup o.cutset).bestLb
      rw [e1]; exact hI.base.lbLo
    · show (s.crit.base.enqueue sv.dedup o.cutset).bestLb ≤ B
      rw [e1]; exact hI.base.lbHi
    · show (s.crit.base.enqueue sv.dedup o.cutset).bestSol = none → (s.crit.base.enqueue sv.dedup o.cutset).bestLb = iMin
      rw [e1, e2]; exact hI.base.solLb
    · show _ → (s.crit.base.enqueue sv.dedup o.cutset).bestLb = iMin ∧ (s.crit.base.enqueue sv.dedup o.cutset).bestSol = none
      rw [e1, e2]; exact hI.base.infeas
  | notify i n c' hw hl hn =>
    obtain ⟨n1, _, _, _⟩ := notify_spec hn
    refine ⟨by rw [n1]; exact hI.base, mem_set_elim (fun w hw' => ?_) (wokk_free rfl rfl trivial)⟩
    obtain ⟨w0, hw0, rfl⟩ := List.mem_map.mp hw'
    exact wokk_wake (hI.ws w0 hw0)
  | crash i w hw hp => exact ⟨hI.base, mem_set_elim hI.ws (wokk_free rfl rfl trivial)⟩

theorem init_pck {sv : SolverCfg S} {H : Nat → S → EInt} {B0 B : Int} (hwf : WellFormed sv H B0 B) (U : Nat) :
    PCK sv H B (KSys.init sv.P sv.dedup U) := by
  refine ⟨(init_pcinv hwf none (fun _ _ h => by cases h) U).base, fun w hw => ?_⟩
  have hw : w ∈ List.replicate U (KW.idle : KW S) := hw
  rw [List.eq_of_mem_replicate hw]
  exact wokk_free rfl rfl trivial

/-- the depths are in range -/
theorem pck_depthOk {sv : SolverCfg S} {H : Nat → S → EInt} {B0 B : Int} (hwf : WellFormed sv H B0 B) {s : KSys S}
    (hI : PCK sv H B s) : DepthOk sv.P.nbVars s := by
  refine ⟨fun c hc => node_depth_le hwf (hI.base.fr c hc), fun w hw n hn => node_depth_le hwf ((hI.ws w hw).node n hn), ?_, ?_⟩
  · intro w hw n lb o cv ups e c hc
    subst e
    obtain ⟨_, h2⟩ : (iMin ≤ lb ∧ lb ≤ B) ∧ okXk sv n lb cv o ups := (hI.ws _ hw).stage
    exact ((okXk_facts hwf ((hI.ws _ hw).node n (.inl rfl)) h2).2.2.2 c hc).2.2
  · intro w hw n lb o cv ups todo e u hu
    rcases e with e | e
    · subst e
      obtain ⟨_, h2, h3⟩ : (iMin ≤ lb ∧ lb ≤ B) ∧ okRk sv n lb cv o ups ∧ ∀ u' ∈ todo, u' ∈ ups := (hI.ws _ hw).stage
      exact (okRk_facts hwf ((hI.ws _ hw).node n (.inl rfl)) h2).2.2 u (h3 u hu)
    · subst e
      obtain ⟨_, h2, h3⟩ : (iMin ≤ lb ∧ lb ≤ B) ∧ okXk sv n lb cv o ups ∧ ∀ u' ∈ todo, u' ∈ ups := (hI.ws _ hw).stage
      exact (okXk_facts hwf ((hI.ws _ hw).node n (.inl rfl)) h2).2.2.1 u (h3 u hu)

/-! ## the contracts are theorems about the diagram model -/

/-- the answer of the diagram model **together with** the side conditions of the diagram theorems -/
def okRk' (sv : SolverCfg S) (B : Int) (n : SubP S) (lb : Int) (cv : Cache S) (o : DDOut S) (ups : List (Up S)) : Prop :=
  okRk sv n lb cv o ups ∧ C01.NodeOk sv.P n ∧ iMin ≤ lb ∧ lb ≤ B
def okXk' (sv : SolverCfg S) (B : Int) (n : SubP S) (lb : Int) (cv : Cache S) (o : DDOut S) (ups : List (Up S)) : Prop :=
  okXk sv n lb cv o ups ∧ C01.NodeOk sv.P n ∧ iMin ≤ lb ∧ lb ≤ B

/-- **the contract of a restricted compilation that consults a cache changing under it, discharged**: for ANY virtual
    cache `cv`, relative to the stale incumbent `lb` -/
theorem okRk_contract {sv : SolverCfg S} {H : Nat → S → EInt} {B0 B : Int} (hwf : WellFormed sv H B0 B) {opt : Int}
    (hopt : (H 0 sv.P.init).addI sv.P.initVal = some opt) (n : SubP S) (lb : Int) (cv : Cache S) (o : DDOut S)
    (ups : List (Up S)) (h : okRk' sv B n lb cv o ups) : OkRc H opt (SolOf sv.P) (RgB B) n lb cv o ups := by
  obtain ⟨⟨hout, rfl, rfl⟩, ⟨p0, hroot, hperm⟩, h1, h2⟩ := h
  obtain ⟨hlb1, hlb2⟩ := ParClosed.lb_range hwf h1 h2
  have hBN : NoClamp sv.P sv.R n.value B := hwf.bound.noClamp_at hwf.nv hroot
  have hdN : n.depth ≤ sv.P.nbVars := reach_depth_le hwf.nv hroot
  refine ⟨fun w hw => ?_, fun hex => ?_, fun hex => ?_⟩
  · exact (C01.restricted_sound_within (sv.ccfg .restricted n lb) H B opt p0 cv _ 0 none rfl hwf.pot hBN hroot hperm
      hopt hout w hw).1
  · have hex' : (compile (sv.ccfg .restricted n lb) cv (DomStore.init sv.P.nbVars) 0 none).2.1.isExact = true := hex
    refine ⟨?_, ?_, ?_⟩
    · exact compC_restricted_of_model H opt (sv.ccfg .restricted n lb) B p0 cv _ 0 rfl rfl rfl (hwf.width n) hwf.pot
        hwf.rub hwf.merge hwf.attMerge hBN hlb2 hroot hperm hdN hopt hout hex' _ (fun u hu => List.mem_reverse.mp hu)
    · exact thetaStrict_restricted_of_model H (sv.ccfg .restricted n lb) B p0 cv _ 0 rfl rfl (hwf.width n) hwf.pot
        hwf.rub hwf.merge hwf.attMerge hBN hlb2 hroot hdN hout hex' _ (fun u hu => List.mem_reverse.mp hu)
    · intro u hu c hc
      obtain ⟨_, _, _, _, hcs, _⟩ := CacheClosed.restricted_exact_as_relaxed (sv.ccfg .restricted n lb) B p0 cv
        (DomStore.init sv.P.nbVars) 0 none rfl hBN hroot hout hex'
      have hc' : c ∈ (compile (sv.ccfg .restricted n lb) cv (DomStore.init sv.P.nbVars) 0 none).2.1.cutset := hc
      rw [hcs] at hc'; cases hc'
  · have hex' : (compile (sv.ccfg .restricted n lb) cv (DomStore.init sv.P.nbVars) 0 none).2.1.isExact = false := hex
    have := restricted_inexact_no_ups (sv.ccfg .restricted n lb) cv (DomStore.init sv.P.nbVars) 0 none rfl hex'
    show (compile (sv.ccfg .restricted n lb) cv (DomStore.init sv.P.nbVars) 0 none).2.1.cacheUpdates.reverse = []
    rw [this]; rfl

/-- **the contract of a relaxed compilation that consults a cache changing under it, discharged** -/
theorem okXk_contract {sv : SolverCfg S} {H : Nat → S → EInt} {B0 B : Int} (hwf : WellFormed sv H B0 B) {opt : Int}
    (hopt : (H 0 sv.P.init).addI sv.P.initVal = some opt) (n : SubP S) (lb : Int) (cv : Cache S) (o : DDOut S)
    (ups : List (Up S)) (h : okXk' sv B n lb cv o ups) : OkXc H opt (SolOf sv.P) (RgB B) n lb cv o ups := by
  obtain ⟨⟨hout, rfl, rfl⟩, ⟨p0, hroot, hperm⟩, h1, h2⟩ := h
  obtain ⟨hlb1, hlb2⟩ := ParClosed.lb_range hwf h1 h2
  have hBN : NoClamp sv.P sv.R n.value B := hwf.bound.noClamp_at hwf.nv hroot
  have hdN : n.depth ≤ sv.P.nbVars := reach_depth_le hwf.nv hroot
  have hval : ∀ (k : Nat) (s : S) (v : Int) (p : List Dec), Reach sv.P k s v p → -B ≤ v ∧ v ≤ B :=
    fun k s v p h => hwf.bound.value_le hwf.nv h
  refine ⟨?_, ?_, ?_⟩
  · exact compC_relaxed_of_model H opt (sv.ccfg .relaxed n lb) B p0 cv _ 0 rfl rfl rfl (hwf.width n) hwf.pot hwf.rub
      hwf.merge hwf.attMerge hBN hlb2 hroot hperm hdN hopt hval hout _ (fun u hu => List.mem_reverse.mp hu)
  · exact thetaStrict_relaxed_of_model H (sv.ccfg .relaxed n lb) B p0 cv _ 0 rfl rfl (hwf.width n) hwf.pot hwf.rub
      hwf.merge hwf.attMerge hBN hlb2 hroot hdN hout _ (fun u hu => List.mem_reverse.mp hu)
  · intro u hu c hc hub
    exact fresh_contract_of_model (sv.ccfg .relaxed n lb) H B p0 cv (DomStore.init sv.P.nbVars) 0 none rfl rfl rfl
      (hwf.width n) hwf.pot hwf.merge hwf.attMerge hBN hroot hout _ (.inl rfl) [u]
      (fun u' hu' => by rw [List.mem_singleton.mp hu']; exact List.mem_reverse.mp hu) c hc hub

/-- the progress clause C08 (ii) and the depth bound, for `ProgOkK` -/
theorem okXk'_progress {sv : SolverCfg S} {H : Nat → S → EInt} {B0 B : Int} (hwf : WellFormed sv H B0 B)
    (n : SubP S) (lb : Int) (cv : Cache S) (o : DDOut S) (ups : List (Up S)) (h : okXk' sv B n lb cv o ups) :
    ∀ c ∈ o.cutset, n.depth < c.depth ∧ c.depth ≤ sv.P.nbVars :=
  fun c hc => ((okXk_facts hwf h.2.1 h.1).2.2.2 c hc).2

/-- on a state that satisfies `PCK`, a step of the concrete system is a step of the system under `okRk'` / `okXk'` -/
theorem kpstep_lift {sv : SolverCfg S} {H : Nat → S → EInt} {B : Int} {s t : KSys S}
    (h : KPStep sv s t) (hI : PCK sv H B s) : KStep sv.P.nbVars sv.dedup (okRk' sv B) (okXk' sv B) s t :=
  h.mono
    (fun i n lb k0 cv o ups hw _ hok =>
      ⟨hok, (hI.ws _ (List.mem_of_getElem? hw)).node n (.inl rfl), (hI.ws _ (List.mem_of_getElem? hw)).stage⟩)
    (fun i n lb k0 cv o ups hw _ hok =>
      ⟨hok, (hI.ws _ (List.mem_of_getElem? hw)).node n (.inl rfl), (hI.ws _ (List.mem_of_getElem? hw)).stage⟩)

/-- … and, for a feasible problem, a step of the system under the contracts -/
theorem kpstep_contract {sv : SolverCfg S} {H : Nat → S → EInt} {B0 B : Int} (hwf : WellFormed sv H B0 B) {opt : Int}
    (hopt : (H 0 sv.P.init).addI sv.P.initVal = some opt) {s t : KSys S}
    (h : KPStep sv s t) (hI : PCK sv H B s) :
    KStep sv.P.nbVars sv.dedup (OkRc H opt (SolOf sv.P) (RgB B)) (OkXc H opt (SolOf sv.P) (RgB B)) s t :=
  (kpstep_lift h hI).mono (fun i n lb k0 cv o ups _ _ hok => okRk_contract hwf hopt n lb cv o ups hok)
    (fun i n lb k0 cv o ups _ _ hok => okXk_contract hwf hopt n lb cv o ups hok)

/-! ## every reachable state -/

/-- the whole invariant -/
structure KInvAll (sv : SolverCfg S) (H : Nat → S → EInt) (B : Int) (s : KSys S) : Prop where
  pck : PCK sv H B s
  lay : LayInvK sv.P.nbVars s
  cov : ∀ opt, (H 0 sv.P.init).addI sv.P.initVal = some opt → KPInv H opt (SolOf sv.P) (RgB B) s

theorem init_kinvAll {sv : SolverCfg S} {H : Nat → S → EInt} {B0 B : Int} (hwf : WellFormed sv H B0 B) (U : Nat) :
    KInvAll sv H B (KSys.init sv.P sv.dedup U) := by
  refine ⟨init_pck hwf U, init_layInvK sv.P sv.dedup U, fun opt hopt => ?_⟩
  have hb := opt_bound hwf.pot hwf.nv hwf.bound hopt
  have hBs := hwf.bound.B_small
  have e : optOf H (rootOf sv.P) = some opt := hopt
  have hrg : RgB B 0 sv.P.initVal := by
    have hv := hwf.bound.value_le hwf.nv (Reach.root (P := sv.P))
    have h0 := hwf.bound.clamp.nonneg
    unfold RgB Cover.Within Cover.Bd
    omega
  exact init_kpinv H opt (SolOf sv.P) (RgB B) sv.P sv.dedup U
    (fun x hx => by rw [e] at hx; cases hx; exact Int.le_refl _)
    (by simp only [iMax]; omega) (by simp only [iMin]; omega) hrg e

theorem kpstep_kinvAll {sv : SolverCfg S} {H : Nat → S → EInt} {B0 B : Int} (hwf : WellFormed sv H B0 B) {s t : KSys S}
    (h : KPStep sv s t) (hI : KInvAll sv H B s) : KInvAll sv H B t := by
  have hD := pck_depthOk hwf hI.pck
  refine ⟨kpstep_pck hwf h hI.pck, kstep_layInvK h hI.lay hD, fun opt hopt => ?_⟩
  exact kstep_kpinv H opt (SolOf sv.P) (RgB B) (kpstep_contract hwf hopt h hI.pck) (hI.cov opt hopt)
    (fun i w hw => no_panics hI.lay hD hw) (fun i hc => completes_nothing_open hI.lay hc)

/-- **`kprun_inv`**: the whole invariant holds in every reachable state -/
theorem kprun_inv {sv : SolverCfg S} {H : Nat → S → EInt} {B0 B : Int} (hwf : WellFormed sv H B0 B) (U : Nat) {t : KSys S}
    (ht : KPRun sv (KSys.init sv.P sv.dedup U) t) : KInvAll sv H B t := by
  induction ht with
  | refl => exact init_kinvAll hwf U
  | tail _ hst ih => exact kpstep_kinvAll hwf hst ih

end Ddo.ParCache

#print axioms Ddo.ParCache.okRk_contract
#print axioms Ddo.ParCache.okXk_contract
#print axioms Ddo.ParCache.kprun_inv
